/-
C11, RINEX 2, part 11: the data section — one satellite record in closed form (`rowData_cols`), the satellites of an epoch
(`sats_run2`), continuation records, one epoch group (`block_run2`), all epochs (`blocks_run2`).  Core Lean only.
-/
import Midgard.Proofs.Rinex2ObsEnd

namespace Midgard.Spec.Rinex2ObsFile
open Midgard.Text Midgard.FixedCol Midgard.Decimal Midgard.ChainParser Midgard.RinexObs Midgard.Rinex2Obs
open Midgard.Spec.Rinex3ObsFile (Obs Style styled Cols appendAll_cols under under_zip_nodup find_zip_some rstrip_styled)

/-! ### the data after some rows -/

def dataOf2 (ts : List Str) (station : Str) (rows : List Row) (d0 : Data) : Data :=
  { d0 with
    obs := Cols ts fun t => column ts rows (·.value.val) t,
    lli := Cols ts fun t => column ts rows (·.lli.val) t,
    snr := Cols ts fun t => column ts rows (·.ssi.val) t,
    time := rows.map (·.time), timeMicros := rows.map (·.micros), epochFlag := rows.map (·.flag),
    clk := rows.map (·.clk), station := rows.map fun _ => station, system := rows.map fun r => r.sat.take 1,
    satellite := rows.map (·.sat), satnum := rows.map (·.num) }

def rowOf (e : EpochInfo) (id : Str) (num : Int) (obs : List Obs) : Row :=
  ⟨e.obsTime, e.micros, e.epochFlag, e.clk, id, fmtInt num, obs⟩

/-- **one complete satellite record in closed form**: every column gets the record's value under its type -/
theorem rowData_cols (ts : List Str) (hnd : ts.Nodup) (station : Str) (rows : List Row) (d0 : Data) (obs : List Obs)
    (hl : ts.length = obs.length) (e : EpochInfo) (id : Str) (num : Int) :
    rowData (dataOf2 ts station rows d0) ts obs e station id num = .ok (dataOf2 ts station (rows ++ [rowOf e id num obs]) d0) := by
  unfold rowData
  have h1 := appendAll_cols ts ((ts.zip obs).map fun to => (to.1, to.2.value.val, to.2.lli.val, to.2.ssi.val))
    (dataOf2 ts station rows d0) _ _ _ rfl rfl rfl (by
      intro x hx
      simp only [List.mem_map] at hx
      obtain ⟨to, hto, rfl⟩ := hx
      exact (List.of_mem_zip (by rw [show to = (to.1, to.2) from rfl] at hto; exact hto)).1)
  rw [h1]
  simp only [List.map_map, Function.comp_def]
  have col : ∀ (sel : Obs → Option Rat),
      Cols ts (fun t => column ts rows sel t ++ under (List.map (fun to => (to.1, sel to.2)) (ts.zip obs)) t) =
      Cols ts (fun t => column ts (rows ++ [rowOf e id num obs]) sel t) := by
    intro sel
    unfold Cols
    apply List.map_congr_left
    intro t ht
    dsimp only
    rw [under_zip_nodup sel ts obs hnd t]
    simp only [column, List.map_append, List.map_cons, List.map_nil, rowOf]
    congr 2
    have hsome := find_zip_some ht hl
    cases hf : (ts.zip obs).find? (·.1 == t) with
    | none => simp [hf] at hsome
    | some x => simp
  have c1 := col (·.value.val)
  have c2 := col (·.lli.val)
  have c3 := col (·.ssi.val)
  simp only [dataOf2, Data.appendRow, c1, c2, c3, List.map_append, List.map_cons, List.map_nil, rowOf]


/-! ### the state during the data section -/

def mk2 (H : State) (d : Data) (c : Cache) : State := { H with data := d, cache := c }

/-- the cache inside an epoch group, between satellites -/
def cacheOf (l : List Str) (info : EpochInfo) (ns : Option Int) (len : Option Nat) : Cache :=
  { satList := some l, epoch := some info, numSat := ns, lenSatList := len }

/-- what the data section needs from the header (RINEX 2) -/
structure HF (ts : List Str) (m t : Str) (H : State) : Prop where
  hnum : H.metaD.get [key "num_obstypes"] = some (.int (ts.length : Int))
  htyp : H.metaD.get [key "obstypes"] = some (.list ts)
  hmark : H.metaD.get [key "marker_name"] = some (.text m)
  hfirst : H.metaD.get [key "time_first_obs"] = some (.text t)

def numOf (sat : Str) : Int := (digitsVal ((normSat sat).drop 1) : Int)

theorem pyInt_norm {s : Str} (h : SatOk s) : pyInt ((normSat s).drop 1) = .ok (numOf s) := by
  obtain ⟨a, b, c, rfl, _, hb, hc⟩ := h
  unfold numOf
  apply pyInt_digits
  · simp [normSat]
  · simp only [normSat, List.drop_succ_cons, List.drop_zero, allDigits, List.all_cons, List.all_nil, Bool.and_true, Bool.and_eq_true]
    refine ⟨?_, hc⟩
    rcases hb with hb | rfl
    · have : b ≠ ' ' := by intro e; subst e; revert hb; decide
      simp [this, hb]
    · decide

theorem normSat_ne {s : Str} (h : SatOk s) : normSat s ≠ [] := by
  obtain ⟨a, b, c, rfl, _⟩ := h; simp [normSat]

def satLinesR (r : SatRec) : List Str := (chunks 5 r.obs.length r.obs).map obsLine

theorem chunks_len {α} (k : Nat) : ∀ (fuel : Nat) (l : List α), ∀ c ∈ chunks k fuel l, c.length ≤ k := by
  intro fuel
  induction fuel with
  | zero => intro l c hc; simp [chunks] at hc
  | succ fuel ih =>
    intro l c hc
    unfold chunks at hc
    split at hc
    · simp at hc
    · rcases List.mem_cons.mp hc with rfl | hc
      · simp; omega
      · exact ih _ c hc

theorem satLines_eq (r : SatRec) : satLines r = satLinesR r := by
  unfold satLines satLinesR
  apply List.map_congr_left
  intro c hc
  exact obsLine_eq c (chunks_len 5 _ _ c hc)

/-- the row a satellite record of an epoch adds -/
def rowOfSat (info : EpochInfo) (r : SatRec) : Row := rowOf info (normSat r.sat) (numOf r.sat) r.obs

/-- **the satellites of a kept epoch**, by induction: one row each, in order -/
theorem sats_run2 (st : Style) (ts : List Str) (hnd : ts.Nodup) (m t : Str) (H : State) (hH : HF ts m t H)
    (info : EpochInfo) (q : Rat) (hq : info.obsSec = some q) (ns : Option Int) (len : Option Nat) :
    ∀ (sats : List SatRec) (rows : List Row),
      (∀ r ∈ sats, SatOk r.sat ∧ r.obs.length = ts.length ∧ r.obs ≠ [] ∧ r.obs.all Obs.wf = true ∧ r.obs.all obsShape = true) →
      runObs ((sats.flatMap satLinesR).map (styled st))
          (mk2 H (dataOf2 ts (lower m) rows H.data) (cacheOf (sats.map fun r => normSat r.sat) info ns len)) =
        .ok (mk2 H (dataOf2 ts (lower m) (rows ++ sats.map (rowOfSat info)) H.data) (cacheOf [] info ns len)) := by
  intro sats
  induction sats with
  | nil => intro rows _; simp [runObs, pure, Except.pure]
  | cons r sats ih =>
    intro rows hw
    obtain ⟨hsat, hlen, hne, hwf, hsh⟩ := hw r (by simp)
    rw [List.flatMap_cons, List.map_append, runObs_append]
    have hctx : SatCtx ts m (mk2 H (dataOf2 ts (lower m) rows H.data) (cacheOf ((r :: sats).map fun r => normSat r.sat) info ns len)) :=
      ⟨hH.hnum, hH.htyp, hH.hmark⟩
    have hrun := sat_lines_run st ts m info q hq r.obs hlen.symm hne hwf hsh
      (mk2 H (dataOf2 ts (lower m) rows H.data) (cacheOf ((r :: sats).map fun r => normSat r.sat) info ns len)) rfl
      (normSat r.sat) (sats.map fun r => normSat r.sat) rfl (normSat_ne hsat) (numOf r.sat) (pyInt_norm hsat) hctx ⟨rfl, rfl, rfl⟩
    have hmap : (satLinesR r).map (styled st) = (chunks 5 r.obs.length r.obs).map fun c => styled st (obsLine c) := by
      simp [satLinesR, List.map_map, Function.comp_def]
    rw [hmap, hrun]
    have hrow := rowData_cols ts hnd (lower m) rows H.data r.obs hlen.symm info (normSat r.sat) (numOf r.sat)
    have hd : (mk2 H (dataOf2 ts (lower m) rows H.data) (cacheOf ((r :: sats).map fun r => normSat r.sat) info ns len)).data =
        dataOf2 ts (lower m) rows H.data := rfl
    rw [hd, hrow]
    simp only
    have hdone : doneSat (mk2 H (dataOf2 ts (lower m) rows H.data) (cacheOf ((r :: sats).map fun r => normSat r.sat) info ns len))
        (dataOf2 ts (lower m) (rows ++ [rowOf info (normSat r.sat) (numOf r.sat) r.obs]) H.data) (sats.map fun r => normSat r.sat) =
        mk2 H (dataOf2 ts (lower m) (rows ++ [rowOf info (normSat r.sat) (numOf r.sat) r.obs]) H.data)
          (cacheOf (sats.map fun r => normSat r.sat) info ns len) := rfl
    rw [hdone, ih _ (fun r' hr' => hw r' (by simp [hr']))]
    simp [rowOfSat, List.append_assoc]

/-- … and of a decimated epoch: nothing -/
theorem sats_skip2 (st : Style) (H : State) (d : Data) (c : Cache) (info : EpochInfo) (hc : c.epoch = some info)
    (hq : info.obsSec = none) : ∀ (sats : List SatRec),
      (∀ r ∈ sats, r.obs.all Obs.wf = true ∧ r.obs.all obsShape = true) →
      runObs ((sats.flatMap satLinesR).map (styled st)) (mk2 H d c) = .ok (mk2 H d c) := by
  intro sats hw
  have hall : ∀ l ∈ (sats.flatMap satLinesR).map (styled st), parseLine obsParser (rstrip l) 0 (mk2 H d c) = .ok (mk2 H d c) := by
    intro l hl
    simp only [List.mem_map, List.mem_flatMap, satLinesR] at hl
    obtain ⟨l0, ⟨r, hr, ck, hck, rfl⟩, rfl⟩ := hl
    obtain ⟨hwf, hsh⟩ := hw r hr
    have hsub : ∀ o ∈ ck, o ∈ r.obs := by
      have : ∀ (fuel : Nat) (l : List Obs), ∀ c ∈ chunks 5 fuel l, ∀ o ∈ c, o ∈ l := by
        intro fuel
        induction fuel with
        | zero => intro l c hc; simp [chunks] at hc
        | succ fuel ih =>
          intro l c hc o ho
          unfold chunks at hc
          split at hc
          · simp at hc
          · rcases List.mem_cons.mp hc with rfl | hc
            · exact List.mem_of_mem_take ho
            · exact List.mem_of_mem_drop (ih _ c hc o ho)
      exact this _ _ ck hck
    exact obs_line_skip st ck (chunks_len 5 _ _ ck hck)
      (List.all_eq_true.mpr fun o ho => List.all_eq_true.mp hwf o (hsub o ho))
      (List.all_eq_true.mpr fun o ho => List.all_eq_true.mp hsh o (hsub o ho)) 0 _ info hc hq
  generalize (sats.flatMap satLinesR).map (styled st) = ls at hall
  induction ls with
  | nil => rfl
  | cons l ls ih =>
    rw [runObs_cons, hall l (by simp)]
    exact ih (fun l' hl' => hall l' (by simp [hl']))

end Midgard.Spec.Rinex2ObsFile
