/-
C11, RINEX 2, part 1: the observation lines of one satellite at value level — the five fields of a line, the
collection of the values in the cache until `num_obstypes` are there, the row (`sat_fives`).  Core Lean only.
-/
import Midgard.Spec.Rinex2ObsFile
import Midgard.Proofs.Rinex3ObsHeader

namespace Midgard.Spec.Rinex2ObsFile
open Midgard.Text Midgard.FixedCol Midgard.Decimal Midgard.ChainParser Midgard.RinexObs Midgard.Rinex2Obs
open Midgard.Spec.Rinex3ObsFile (Cols appendAll_cols under under_zip_nodup find_zip_some find_zip_none bind_ok' Obs Cell)

/-! ### the fields of one observation line -/

abbrev Triple := Option Rat × Option Rat × Option Rat

/-- `_float` of value, LLI and signal strength of one 16-character field -/
def tripleOf (t : Str) : Except Err Triple := do
  let w := ljust 16 t
  let a ← floatOpt (Text.slice 0 14 w)
  let b ← floatOpt (Text.slice 14 15 w)
  let c ← floatOpt (Text.slice 15 16 w)
  pure (a, b, c)

theorem fold_obsStep : ∀ (fs : List (String × Str)) (vals : List Triple) (o c g : Col),
    fs.mapM (fun f => tripleOf f.2) = .ok vals →
    fs.foldl obsStep (.ok (o, c, g)) = .ok (o ++ vals.map (·.1), c ++ vals.map (·.2.1), g ++ vals.map (·.2.2)) := by
  intro fs
  induction fs with
  | nil =>
    intro vals o c g h
    simp only [List.mapM_nil, pure, Except.pure, Except.ok.injEq] at h
    subst h; simp
  | cons f fs ih =>
    intro vals o c g h
    rw [List.mapM_cons] at h
    obtain ⟨t, ht, h⟩ := bind_ok' h
    obtain ⟨ts, hts, h⟩ := bind_ok' h
    simp only [pure, Except.pure, Except.ok.injEq] at h
    subst h
    unfold tripleOf at ht
    obtain ⟨a, ha, ht⟩ := bind_ok' ht
    obtain ⟨b, hb, ht⟩ := bind_ok' ht
    obtain ⟨c', hc, ht⟩ := bind_ok' ht
    simp only [pure, Except.pure, Except.ok.injEq] at ht
    subst ht
    have hstep : obsStep (.ok (o, c, g)) f = .ok (o ++ [a], c ++ [b], g ++ [c']) := by
      simp only [obsStep, bind, Except.bind, ha, hb, hc, pure, Except.pure]
    rw [List.foldl_cons, hstep, ih ts _ _ _ hts]
    simp [List.append_assoc]

/-- the effect of an observation line of a kept epoch whose five fields hold `five` -/
def lineFx (e : EpochInfo) (five : List Triple) (s : State) : Except Err State :=
  afterLine e (s.cache.obsValues.getD [] ++ five.map (·.1)) (s.cache.cycleSlip.getD [] ++ five.map (·.2.1))
    (s.cache.signalStrength.getD [] ++ five.map (·.2.2)) s

theorem parseObservation_five (v : Values) (s : State) (e : EpochInfo) (q : Rat) (five : List Triple)
    (he : s.cache.epoch = some e) (hq : e.obsSec = some q)
    (hv : (fieldsWithPrefix v "obs_").mapM (fun f => tripleOf f.2) = .ok five) :
    parseObservation v s = lineFx e five s := by
  unfold parseObservation
  simp only [he, req, bind, Except.bind, pure, Except.pure, hq]
  have := fold_obsStep _ five (s.cache.obsValues.getD []) (s.cache.cycleSlip.getD []) (s.cache.signalStrength.getD []) hv
  rw [this]
  rfl

/-! ### the lines of one satellite -/

/-- what the lines of a satellite need from the parser state -/
structure SatCtx (types : List Str) (m : Str) (s : State) : Prop where
  num : s.metaD.get [key "num_obstypes"] = some (.int (types.length : Int))
  typ : s.metaD.get [key "obstypes"] = some (.list types)
  mark : s.metaD.get [key "marker_name"] = some (.text m)

/-- the cache holds the values `acc` of the satellite being read -/
def Holds (acc : List Triple) (s : State) : Prop :=
  s.cache.obsValues.getD [] = acc.map (·.1) ∧ s.cache.cycleSlip.getD [] = acc.map (·.2.1) ∧
  s.cache.signalStrength.getD [] = acc.map (·.2.2)

/-- the state with the collected values kept in the cache -/
def keepVals (s : State) (o c g : Col) : State :=
  { s with cache := { s.cache with obsValues := some o, cycleSlip := some c, signalStrength := some g } }

/-- the state after a complete satellite record -/
def doneSat (s : State) (d : Data) (rest : List Str) : State :=
  { s with data := d, cache := { s.cache with satList := some rest, obsValues := none, cycleSlip := none, signalStrength := none } }

/-- a line that does not complete the satellite: its values go to the cache -/
theorem lineFx_more (types : List Str) (m : Str) (e : EpochInfo) (acc five : List Triple) (s : State)
    (hc : SatCtx types m s) (ha : Holds acc s) (hlt : (acc ++ five).length < types.length) :
    lineFx e five s = .ok (keepVals s ((acc ++ five).map (·.1)) ((acc ++ five).map (·.2.1)) ((acc ++ five).map (·.2.2))) := by
  obtain ⟨h1, h2, h3⟩ := ha
  have hlen : ¬ (((acc.map (·.1) ++ five.map (·.1)).length : Int) ≥ (types.length : Int)) := by
    simp only [List.length_append, List.length_map] at hlt ⊢; omega
  unfold lineFx afterLine
  rw [h1, h2, h3]
  simp only [hc.num, bind, Except.bind, pure, Except.pure, hlen, if_false, keepVals, List.map_append]

theorem holds_keep (s : State) (vals : List Triple) :
    Holds vals (keepVals s (vals.map (·.1)) (vals.map (·.2.1)) (vals.map (·.2.2))) := ⟨rfl, rfl, rfl⟩

/-- the data after a complete satellite record -/
def rowData (d : Data) (types : List Str) (obs : List Obs) (e : EpochInfo) (station sat : Str) (num : Int) : Except Err Data :=
  match appendAll d ((types.zip obs).map fun to => (to.1, to.2.value.val, to.2.lli.val, to.2.ssi.val)) with
  | .ok d1 => .ok (d1.appendRow e station (sat.take 1) sat (fmtInt num))
  | .error err => .error err

def triples (obs : List Obs) : List Triple := obs.map fun o => (o.value.val, o.lli.val, o.ssi.val)

theorem zip_triples (types : List Str) (obs : List Obs) (pad : List Triple) (hl : types.length = obs.length) :
    (types.zip ((triples obs ++ pad).map (·.1) |>.zip (((triples obs ++ pad).map (·.2.1)).zip ((triples obs ++ pad).map (·.2.2))))).map
        (fun x => match x with | (t, (a, (b, z))) => (t, a, b, z)) =
      (types.zip obs).map fun to => (to.1, to.2.value.val, to.2.lli.val, to.2.ssi.val) := by
  induction types generalizing obs with
  | nil => rfl
  | cons t ts ih =>
    cases obs with
    | nil => simp at hl
    | cons o os =>
      have := ih os (by simpa using hl)
      simp only [triples, List.map_cons, List.cons_append, List.zip_cons_cons, List.cons.injEq, true_and] at this ⊢
      exact this

/-- the line that completes the satellite: one row -/
theorem lineFx_last (types : List Str) (m : Str) (e : EpochInfo) (obs : List Obs) (acc five pad : List Triple) (s : State)
    (hc : SatCtx types m s) (ha : Holds acc s) (hall : acc ++ five = triples obs ++ pad) (hl : types.length = obs.length)
    (sat : Str) (rest : List Str) (hs : s.cache.satList = some (sat :: rest)) (hne : sat ≠ []) (num : Int)
    (hnum : pyInt (sat.drop 1) = .ok num) :
    lineFx e five s = match rowData s.data types obs e (lower m) sat num with
      | .ok d => .ok (doneSat s d rest)
      | .error err => .error err := by
  obtain ⟨h1, h2, h3⟩ := ha
  have e1 : s.cache.obsValues.getD [] ++ five.map (·.1) = (triples obs ++ pad).map (·.1) := by rw [h1, ← List.map_append, hall]
  have e2 : s.cache.cycleSlip.getD [] ++ five.map (·.2.1) = (triples obs ++ pad).map (·.2.1) := by rw [h2, ← List.map_append, hall]
  have e3 : s.cache.signalStrength.getD [] ++ five.map (·.2.2) = (triples obs ++ pad).map (·.2.2) := by rw [h3, ← List.map_append, hall]
  have hlen : (((triples obs ++ pad).map (·.1)).length : Int) ≥ (types.length : Int) := by
    simp only [triples, List.length_map, List.length_append]; omega
  have hsy : (sat.head?.map fun ch => [ch]) = some (sat.take 1) := by
    cases sat with
    | nil => exact absurd rfl hne
    | cons c r => rfl
  unfold lineFx afterLine
  rw [e1, e2, e3]
  simp only [hc.num, hc.typ, hc.mark, hs, hsy, hnum, req, bind, Except.bind, pure, Except.pure, hlen, if_true, zip_triples types obs pad hl,
    rowData, doneSat]
  cases appendAll s.data ((types.zip obs).map fun to => (to.1, to.2.value.val, to.2.lli.val, to.2.ssi.val)) <;> rfl


/-! ### all lines of one satellite -/

def none3 : Triple := (none, none, none)

/-- the five fields of a line that holds the observations `c` (missing ones blank) -/
def pad5 (c : List Triple) : List Triple := c ++ List.replicate (5 - c.length) none3

/-- the lines of a satellite: five observations per line -/
def fivesOf (vals : List Triple) : List (List Triple) := (chunks 5 vals.length vals).map pad5

theorem sat_fives_aux (types : List Str) (m : Str) (e : EpochInfo) (obs : List Obs) (hl : types.length = obs.length)
    (s : State) (sat : Str) (rest : List Str) (hs : s.cache.satList = some (sat :: rest)) (hne : sat ≠ []) (num : Int)
    (hnum : pyInt (sat.drop 1) = .ok num) (hc : SatCtx types m s) :
    ∀ (fuel : Nat) (todo acc : List Triple) (cur : State), todo.length ≤ fuel → todo ≠ [] → acc ++ todo = triples obs →
      Holds acc cur → cur.metaD = s.metaD → cur.data = s.data → cur.cache.satList = s.cache.satList →
      (∀ d r, doneSat cur d r = doneSat s d r) →
      ((chunks 5 fuel todo).map pad5).foldlM (fun st five => lineFx e five st) cur =
        match rowData s.data types obs e (lower m) sat num with
        | .ok d => .ok (doneSat s d rest)
        | .error err => .error err := by
  intro fuel
  induction fuel with
  | zero => intro todo acc cur hf hne'; cases todo <;> simp_all
  | succ fuel ih =>
    intro todo acc cur hf hne' hsum hh hm hd hsl hdone
    have hce : todo.isEmpty = false := by cases todo <;> simp_all
    have hcc : SatCtx types m cur := ⟨by rw [hm]; exact hc.num, by rw [hm]; exact hc.typ, by rw [hm]; exact hc.mark⟩
    have hn : (triples obs).length = types.length := by simp [triples, hl]
    simp only [chunks, hce, Bool.false_eq_true, if_false, List.map_cons, List.foldlM_cons, bind, Except.bind]
    by_cases hlast : todo.length ≤ 5
    · -- the last line
      have htake : todo.take 5 = todo := List.take_of_length_le hlast
      have hdrop : todo.drop 5 = [] := List.drop_eq_nil_of_le hlast
      have hch : chunks 5 fuel ([] : List Triple) = [] := by cases fuel <;> simp [chunks]
      rw [htake, hdrop, hch]
      have := lineFx_last types m e obs acc (pad5 todo) (List.replicate (5 - todo.length) none3) cur hcc hh
        (by unfold pad5; rw [← List.append_assoc, hsum]) hl sat rest (by rw [hsl]; exact hs) hne num hnum
      rw [this, hd]
      cases rowData s.data types obs e (lower m) sat num with
      | error err => rfl
      | ok d => simp [hdone, pure, Except.pure]
    · -- a full line, more to come
      have hgt : 5 < todo.length := by omega
      have h5 : (todo.take 5).length = 5 := by simp; omega
      have hpad : pad5 (todo.take 5) = todo.take 5 := by simp [pad5, h5]
      have hlen : (acc ++ todo.take 5).length < types.length := by
        have := congrArg List.length hsum
        simp only [List.length_append] at this ⊢
        rw [hn] at this; omega
      rw [hpad, lineFx_more types m e acc (todo.take 5) cur hcc hh hlen]
      simp only
      apply ih (todo.drop 5) (acc ++ todo.take 5)
      · simp; omega
      · intro e0
        have := congrArg List.length e0
        simp at this; omega
      · rw [List.append_assoc, List.take_append_drop]; exact hsum
      · exact holds_keep cur _
      · exact hm
      · exact hd
      · exact hsl
      · intro d r; exact hdone d r

/-- **the lines of one satellite** (five observations per line, the last line filled with blanks, all-blank lines
included): the values are collected in the cache until `num_obstypes` are there, then one row is appended, the
satellite leaves the list and the cache is cleared -/
theorem sat_fives (types : List Str) (m : Str) (e : EpochInfo) (obs : List Obs) (hl : types.length = obs.length)
    (hpos : obs ≠ []) (s : State) (sat : Str) (rest : List Str) (hs : s.cache.satList = some (sat :: rest)) (hne : sat ≠ [])
    (num : Int) (hnum : pyInt (sat.drop 1) = .ok num) (hc : SatCtx types m s) (h0 : Holds [] s) :
    (fivesOf (triples obs)).foldlM (fun st five => lineFx e five st) s =
      match rowData s.data types obs e (lower m) sat num with
      | .ok d => .ok (doneSat s d rest)
      | .error err => .error err :=
  sat_fives_aux types m e obs hl s sat rest hs hne num hnum hc _ (triples obs) [] s (Nat.le_refl _)
    (by cases obs <;> simp_all [triples]) rfl h0 rfl rfl rfl (fun _ _ => rfl)

end Midgard.Spec.Rinex2ObsFile
