/-
C20 — helper lemmas for `compute_dops`: the adjugate inverse of the model is the matrix inverse,
`HᵀH` under a rotation of all azimuths and under reordering of the satellites.
-/
import Midgard.Model.Numeric
import Mathlib.Tactic.Ring
import Mathlib.Tactic.FieldSimp
import Mathlib.Tactic.LinearCombination
import Mathlib.Tactic.FinCases
import Mathlib.LinearAlgebra.Matrix.NonsingularInverse

namespace Midgard.Proofs.C20
open Midgard.Numeric

theorem ofTable_table (m : Mat4) : ofTable (table m) = m := by
  funext i j
  fin_cases i <;> fin_cases j <;> rfl

theorem skip_vals :
    skip 0 0 = 1 ∧ skip 0 1 = 2 ∧ skip 0 2 = 3 ∧
    skip 1 0 = 0 ∧ skip 1 1 = 2 ∧ skip 1 2 = 3 ∧
    skip 2 0 = 0 ∧ skip 2 1 = 1 ∧ skip 2 2 = 3 ∧
    skip 3 0 = 0 ∧ skip 3 1 = 1 ∧ skip 3 2 = 2 := by decide

theorem sgn_vals :
    sgn 0 0 = 1 ∧ sgn 0 1 = -1 ∧ sgn 0 2 = 1 ∧ sgn 0 3 = -1 ∧
    sgn 1 0 = -1 ∧ sgn 1 1 = 1 ∧ sgn 1 2 = -1 ∧ sgn 1 3 = 1 ∧
    sgn 2 0 = 1 ∧ sgn 2 1 = -1 ∧ sgn 2 2 = 1 ∧ sgn 2 3 = -1 ∧
    sgn 3 0 = -1 ∧ sgn 3 1 = 1 ∧ sgn 3 2 = -1 ∧ sgn 3 3 = 1 := by
  simp [sgn]

/-- Laplace / adjugate identity, without division -/
theorem adj_identity (m : Mat4) (i j : Fin 4) :
    ∑ k, m i k * (sgn k j * minor m j k) = if i = j then det4 m else 0 := by
  obtain ⟨s1, s2, s3, s4, s5, s6, s7, s8, s9, s10, s11, s12⟩ := skip_vals
  obtain ⟨g1, g2, g3, g4, g5, g6, g7, g8, g9, g10, g11, g12, g13, g14, g15, g16⟩ := sgn_vals
  fin_cases i <;> fin_cases j <;>
    simp only [Fin.sum_univ_four, minor, det3, det4, s1, s2, s3, s4, s5, s6, s7, s8, s9, s10, s11, s12,
      g1, g2, g3, g4, g5, g6, g7, g8, g9, g10, g11, g12, g13, g14, g15, g16, Fin.zero_eta, Fin.mk_one,
      Fin.reduceFinMk, Fin.isValue, if_true, if_false, Fin.reduceEq] <;> ring

abbrev M4 := Matrix (Fin 4) (Fin 4) ℚ

/-- the model's 4×4 array as a Mathlib matrix -/
def toM (m : Mat4) : M4 := Matrix.of m

@[simp] theorem toM_apply (m : Mat4) (i j : Fin 4) : toM m i j = m i j := rfl

theorem mul_inv4 (m : Mat4) (h : det4 m ≠ 0) : toM m * toM (inv4 m) = 1 := by
  ext i j
  simp only [Matrix.mul_apply, toM_apply, Matrix.one_apply]
  have e : ∀ k, m i k * inv4 m k j = m i k * (sgn k j * minor m j k) * (det4 m)⁻¹ := by
    intro k; unfold inv4; ring
  simp_rw [e, ← Finset.sum_mul, adj_identity]
  split_ifs <;> simp [h]

theorem inv4_eq_inv (m : Mat4) (h : det4 m ≠ 0) : toM (inv4 m) = (toM m)⁻¹ :=
  (Matrix.inv_eq_right_inv (mul_inv4 m h)).symm

theorem succAbove_vals :
    (Fin.succAbove (0 : Fin 4) : Fin 3 → Fin 4) = ![1, 2, 3] ∧
    (Fin.succAbove (1 : Fin 4) : Fin 3 → Fin 4) = ![0, 2, 3] ∧
    (Fin.succAbove (2 : Fin 4) : Fin 3 → Fin 4) = ![0, 1, 3] ∧
    (Fin.succAbove (3 : Fin 4) : Fin 3 → Fin 4) = ![0, 1, 2] := by
  refine ⟨?_, ?_, ?_, ?_⟩ <;> (funext k; fin_cases k <;> rfl)

theorem det4_eq_det (m : Mat4) : det4 m = Matrix.det (toM m) := by
  obtain ⟨s1, s2, s3, s4, s5, s6, s7, s8, s9, s10, s11, s12⟩ := skip_vals
  obtain ⟨a0, a1, a2, a3⟩ := succAbove_vals
  rw [Matrix.det_succ_row_zero]
  simp only [Fin.sum_univ_four, Matrix.det_fin_three, Matrix.submatrix_apply, a0, a1, a2, a3,
    det4, minor, det3, s1, s2, s3, s4, s5, s6, s7, s8, s9, s10, s11, s12, toM_apply]
  simp [Fin.succ]
  ring

/-! ### turning all azimuths by one angle -/

/-- the satellite after all azimuths are increased by an angle with cosine `c` and sine `s`
(`cos (az + θ) = cos az · c − sin az · s`, `sin (az + θ) = sin az · c + cos az · s`) -/
def rotSat (c s : ℚ) (t : Sat) : Sat := ⟨t.ce, t.se, t.ca * c - t.sa * s, t.sa * c + t.ca * s⟩

def rotF (c s : ℚ) : Mat4 := fun i j =>
  match i, j with
  | 0, 0 => c | 0, 1 => -s | 1, 0 => s | 1, 1 => c | 2, 2 => 1 | 3, 3 => 1 | _, _ => 0

def rotM (c s : ℚ) : M4 := toM (rotF c s)

theorem normal_nil : toM (normal []) = 0 := by
  ext i j; simp [normal]

theorem normal_cons (t : Sat) (l : List Sat) :
    toM (normal (t :: l)) = toM (fun i j => t.row i * t.row j) + toM (normal l) := by
  ext i j; simp [normal]

theorem outer_rot (c s : ℚ) (t : Sat) :
    toM (fun i j => (rotSat c s t).row i * (rotSat c s t).row j)
      = rotM c s * toM (fun i j => t.row i * t.row j) * (rotM c s).transpose := by
  ext i j
  fin_cases i <;> fin_cases j <;>
    simp [Matrix.mul_apply, Fin.sum_univ_four, rotM, rotF, Sat.row, rotSat, Matrix.transpose_apply] <;> ring

theorem normal_rot (c s : ℚ) (l : List Sat) :
    toM (normal (l.map (rotSat c s))) = rotM c s * toM (normal l) * (rotM c s).transpose := by
  induction l with
  | nil => simp [normal_nil]
  | cons t l ih =>
    rw [List.map_cons, normal_cons, normal_cons, ih, outer_rot, Matrix.mul_add, Matrix.add_mul]

theorem rot_mul_transpose (c s : ℚ) (h : c ^ 2 + s ^ 2 = 1) : rotM c s * (rotM c s).transpose = 1 := by
  ext i j
  fin_cases i <;> fin_cases j <;>
    simp [Matrix.mul_apply, Fin.sum_univ_four, rotM, rotF, Matrix.transpose_apply] <;>
    linarith

theorem transpose_mul_rot (c s : ℚ) (h : c ^ 2 + s ^ 2 = 1) : (rotM c s).transpose * rotM c s = 1 := by
  ext i j
  fin_cases i <;> fin_cases j <;>
    simp [Matrix.mul_apply, Fin.sum_univ_four, rotM, rotF, Matrix.transpose_apply] <;>
    linarith

theorem det_normal_rot (c s : ℚ) (h : c ^ 2 + s ^ 2 = 1) (l : List Sat) :
    det4 (normal (l.map (rotSat c s))) = det4 (normal l) := by
  rw [det4_eq_det, det4_eq_det, normal_rot, Matrix.det_mul, Matrix.det_mul]
  have h1 : (rotM c s).det * (rotM c s).transpose.det = 1 := by
    rw [← Matrix.det_mul, rot_mul_transpose c s h, Matrix.det_one]
  calc (rotM c s).det * (toM (normal l)).det * (rotM c s).transpose.det
      = (toM (normal l)).det * ((rotM c s).det * (rotM c s).transpose.det) := by ring
    _ = (toM (normal l)).det := by rw [h1, mul_one]

theorem inv_normal_rot (c s : ℚ) (h : c ^ 2 + s ^ 2 = 1) (l : List Sat) (hd : det4 (normal l) ≠ 0) :
    toM (inv4 (normal (l.map (rotSat c s))))
      = rotM c s * toM (inv4 (normal l)) * (rotM c s).transpose := by
  have hd' : det4 (normal (l.map (rotSat c s))) ≠ 0 := by rw [det_normal_rot c s h]; exact hd
  have hR := rot_mul_transpose c s h
  have hR' := transpose_mul_rot c s h
  rw [inv4_eq_inv _ hd']
  apply Matrix.inv_eq_right_inv
  rw [normal_rot]
  calc rotM c s * toM (normal l) * (rotM c s).transpose
        * (rotM c s * toM (inv4 (normal l)) * (rotM c s).transpose)
      = rotM c s * toM (normal l) * ((rotM c s).transpose * rotM c s) * toM (inv4 (normal l))
          * (rotM c s).transpose := by simp only [Matrix.mul_assoc]
    _ = rotM c s * (toM (normal l) * toM (inv4 (normal l))) * (rotM c s).transpose := by
        rw [hR', Matrix.mul_one]; simp only [Matrix.mul_assoc]
    _ = 1 := by rw [mul_inv4 _ hd, Matrix.mul_one, hR]

theorem dopsOf_rot (c s : ℚ) (h : c ^ 2 + s ^ 2 = 1) (x y : Mat4)
    (hxy : toM y = rotM c s * toM x * (rotM c s).transpose) : dopsOf y = dopsOf x := by
  have e : ∀ i j, y i j = (rotM c s * toM x * (rotM c s).transpose) i j := by
    intro i j; rw [← hxy]; rfl
  have e00 := e 0 0
  have e11 := e 1 1
  have e22 := e 2 2
  have e33 := e 3 3
  simp [Matrix.mul_apply, Fin.sum_univ_four, rotM, rotF, Matrix.transpose_apply] at e00 e11 e22 e33
  simp only [dopsOf, e00, e11, e22, e33, Dops.mk.injEq]
  refine ⟨?_, ?_, trivial, ?_, trivial⟩ <;> linear_combination (x 0 0 + x 1 1) * h

/-- **azimuth-rotation invariance** of all five DOP values -/
theorem computeDops_rot (c s : ℚ) (h : c ^ 2 + s ^ 2 = 1) (l : List Sat) :
    computeDops (l.map (rotSat c s)) = computeDops l := by
  unfold computeDops
  simp only [ofTable_table, det_normal_rot c s h]
  split
  · rfl
  · rename_i hd
    rw [dopsOf_rot c s h _ _ (inv_normal_rot c s h l hd)]

/-- **reordering the satellites** does not change `HᵀH`, hence none of the DOP values -/
theorem normal_perm (l₁ l₂ : List Sat) (hp : l₁.Perm l₂) : normal l₁ = normal l₂ := by
  funext i j
  unfold normal
  exact (hp.map _).sum_eq

theorem computeDops_perm (l₁ l₂ : List Sat) (hp : l₁.Perm l₂) : computeDops l₁ = computeDops l₂ := by
  unfold computeDops; rw [normal_perm l₁ l₂ hp]

end Midgard.Proofs.C20
