/-
C17 — Bernese VEL: the file the writer produces, read with the library's CRD parser (there is no VEL parser): the first
seven columns are the CRD columns, the plate column lies beyond the parser's `delimiter` widths (helper of Props/C17).
-/
import Midgard.Proofs.WriterFilesCrdRange

namespace Midgard.WriterFiles
open Midgard.Text Midgard.Decimal Midgard.FixedCol Midgard.WriterCells Midgard.Writers
open Midgard.Generated.WriterLayouts

/-- a line with more segments than the parser has columns: the first `k` segments are read, the rest is ignored -/
theorem gftRow_line_prefix (sp : GftSpec) (cells : List Cell) (vals : List Value) (line : Str) (k : Nat)
    (hr : renderCells cells vals = some line) (hfit : allFit cells vals = true)
    (hw : (segWidthsFrom 0 cells).take k = sp.widths) (hlead : leadSpacesFrom [] cells = true)
    (htail : tailLitFrom [] cells = ['\n'])
    (hplain : textsAll (plainFor sp.comment) cells vals = true)
    (hcm : sp.comment ≠ ' ' ∧ sp.comment ≠ '\n') (hauto : sp.autostrip = true) :
    gftRow sp line = some (((cellValues cells vals).take k).map fun sv => strip (fmtValue sv.1 sv.2)) ∧
    ∃ body, line = body ++ ['\n'] ∧ (∀ c ∈ body, c ≠ '\n') ∧ (∀ c ∈ body, c ≠ '\r') := by
  have hsp : plainFor sp.comment ' ' = true := by
    simp only [plainFor, Bool.and_eq_true, bne_iff_ne, ne_eq]
    exact ⟨⟨fun h => hcm.1 h.symm, by decide⟩, by decide⟩
  have hline := render_segs cells vals [] line hr
  simp only [List.nil_append, htail] at hline
  have hall := segs_all (plainFor sp.comment) hsp cells vals [] hfit hlead hplain
  have hbody : ∀ c ∈ (segsFrom [] cells vals).flatten, plainFor sp.comment c = true := by
    intro c hc
    obtain ⟨s, hs, hcs⟩ := List.mem_flatten.mp hc
    exact List.all_eq_true.mp (hall s hs) c hcs
  have hplainc : ∀ c, plainFor sp.comment c = true → c ≠ sp.comment ∧ c ≠ '\n' ∧ c ≠ '\r' := by
    intro c h
    simp only [plainFor, Bool.and_eq_true, bne_iff_ne, ne_eq] at h
    exact ⟨h.1.1, h.1.2, h.2⟩
  have hnc : ∀ c ∈ line, (decide (c ≠ sp.comment)) = true := by
    intro c hc
    rw [hline] at hc
    rcases List.mem_append.mp hc with h | h
    · simpa using (hplainc c (hbody c h)).1
    · simp at h; subst h; simpa using fun h => hcm.2 h.symm
  refine ⟨?_, (segsFrom [] cells vals).flatten, hline, fun c hc => (hplainc c (hbody c hc)).2.1,
    fun c hc => (hplainc c (hbody c hc)).2.2⟩
  unfold gftRow
  simp only [takeWhile_eq_self _ _ hnc, hauto, if_true]
  have hne : line.isEmpty = false := by rw [hline]; simp
  simp only [hne, Bool.false_eq_true, if_false, Option.some.injEq]
  have hflat : (segsFrom [] cells vals).flatten ++ ['\n'] =
      ((segsFrom [] cells vals).take k).flatten ++ (((segsFrom [] cells vals).drop k).flatten ++ ['\n']) := by
    rw [← List.append_assoc, ← List.flatten_append, List.take_append_drop]
  have hcut : cutWidths sp.widths line = (segsFrom [] cells vals).take k := by
    rw [← hw, ← List.length_nil (α := Char), ← segs_length cells vals [] hfit, ← List.map_take, hline, hflat]
    exact cutWidths_flatten _ _
  rw [hcut, List.map_take, List.map_take, segs_strip cells vals [] hfit hlead]

/-! ### Bernese VEL (read by the library's CRD parser: the library has no parser of its own for *.VEL) -/

theorem vel_row_is : rowOf "bernese_vel" =
    [.fld "number" ⟨some .right, 3, none, .any⟩, .lit "  ", .fld "station" ⟨none, 4, none, .any⟩, .lit " ",
     .fld "domes" ⟨none, 9, none, .any⟩, .lit " ", .fld "x" ⟨none, 16, some 5, .fix⟩, .lit " ",
     .fld "y" ⟨none, 14, some 5, .fix⟩, .lit " ", .fld "z" ⟨none, 14, some 5, .fix⟩, .lit " ",
     .fld "flag" ⟨some .right, 4, none, .any⟩, .lit " ", .fld "plate" ⟨some .right, 7, none, .any⟩, .lit "\n"] := by
  decide +kernel

theorem vel_envValues (e : XyzEntry) (plate : Str) :
    envValues (rowOf "bernese_vel") (crdEnv e ++ [("plate", .str plate)]) = some (velVals e plate) := by
  rw [vel_row_is]
  rfl

/-- the first seven cells of the VEL line are the CRD line's -/
theorem vel_record (e : XyzEntry) (plate : Str) (h : valsOk crdSpec (rowOf "bernese_vel") (velVals e plate) = true) :
    List.zipWith expectField crdSpec.dtypes ((cellValues (rowOf "bernese_vel") (velVals e plate)).take 7) = crdRecord e := by
  simp only [valsOk, Bool.and_eq_true] at h
  obtain ⟨⟨hfit, _⟩, _⟩ := h
  rw [vel_row_is] at hfit ⊢
  rw [crd_dtypes]
  simp only [velVals, crdVals, List.cons_append, List.nil_append, allFit, Bool.and_eq_true] at hfit
  obtain ⟨_, ⟨⟨_, hk⟩, ⟨⟨_, hd⟩, ⟨⟨hx, _⟩, ⟨⟨hy, _⟩, ⟨⟨hz, _⟩, _⟩⟩⟩⟩⟩⟩ := hfit
  simp only [velVals, crdVals, List.cons_append, List.nil_append, cellValues, List.take, List.zipWith_cons_cons,
    List.zipWith_nil_right, crdRecord]
  rw [expectField_fix 16 5 none _ hx, expectField_fix 14 5 none _ hy, expectField_fix 14 5 none _ hz]
  simp only [expectField, Value.text]
  have hk' : (upper e.2.1.key).length ≤ 4 := of_decide_eq_true hk
  have hd' : (e.2.1.domes.getD []).length ≤ 9 := of_decide_eq_true hd
  rw [List.take_of_length_le hk', List.take_of_length_le (by omega : (e.2.1.domes.getD []).length ≤ 10)]
  simp

theorem vel_tables : (segWidthsFrom 0 (rowOf "bernese_vel")).take 7 = crdSpec.widths ∧
    leadSpacesFrom [] (rowOf "bernese_vel") = true ∧ tailLitFrom [] (rowOf "bernese_vel") = ['\n'] ∧
    crdSpec.comment ≠ ' ' ∧ crdSpec.comment ≠ '\n' ∧ crdSpec.autostrip = true := by decide +kernel

theorem vel_file_roundtrip_aux (texts : List Str) (wn : Bool) (sts : List Station) (h : velInRange texts wn sts = true) :
    ∃ file, velFile texts wn sts = some file ∧ crdParse file = (xyzEntries wn sts).map crdRecord := by
  simp only [velInRange, Bool.and_eq_true, List.all_eq_true] at h
  obtain ⟨hh, he⟩ := h
  obtain ⟨hw, hlead, htail, hc1, hc2, hauto⟩ := vel_tables
  cases hht : headerText "bernese_vel" texts with
  | none => simp [hht] at hh
  | some hdr =>
    rw [hht] at hh
    let R : XyzEntry → List Str := fun e =>
      match velPlate e.2.1 with
      | some plate => ((cellValues (rowOf "bernese_vel") (velVals e plate)).take 7).map fun sv => strip (fmtValue sv.1 sv.2)
      | none => []
    have hline : ∀ e ∈ xyzEntries wn sts, ∃ body,
        (match velPlate e.2.1 with
          | none => none
          | some plate => renderNamed (rowOf "bernese_vel") (crdEnv e ++ [("plate", .str plate)])) = some (body ++ ['\n']) ∧
        (∀ c ∈ body, c ≠ '\n') ∧ (∀ c ∈ body, c ≠ '\r') ∧ gftRow crdSpec (body ++ ['\n']) = some (R e) := by
      intro e hem
      have hok := he e hem
      simp only [velEntryOk] at hok
      cases hp : velPlate e.2.1 with
      | none => simp [hp] at hok
      | some plate =>
        simp only [hp, Bool.and_eq_true] at hok
        have hv := hok.1
        simp only [valsOk, Bool.and_eq_true] at hv
        obtain ⟨line, hl, _, _⟩ := fields_in_columns_aux _ _ hv.1.1
        obtain ⟨hrow, body, hbody, hnl, hcr⟩ := gftRow_line_prefix crdSpec _ _ line 7 hl hv.1.1 hw hlead htail hv.2 ⟨hc1, hc2⟩ hauto
        refine ⟨body, ?_, hnl, hcr, ?_⟩
        · simp only []
          rw [renderNamed_of_envValues _ _ _ (vel_envValues e plate), hl, hbody]
        · rw [← hbody, hrow]; simp only [R, hp]
    obtain ⟨lines, hl, hp⟩ := gft_file_of crdSpec _ R hdr hh (xyzEntries wn sts) hline
    have hbody : velBody wn sts = some lines := hl
    refine ⟨hdr ++ lines.flatten, by simp [velFile, fileOf, hht, hbody], ?_⟩
    unfold crdParse
    rw [hp]
    have hrec : (xyzEntries wn sts).map (fun e => convertRow crdSpec.dtypes (R e)) = (xyzEntries wn sts).map crdRecord := by
      apply List.map_congr_left
      intro e hem
      have hok := he e hem
      simp only [velEntryOk] at hok
      cases hpl : velPlate e.2.1 with
      | none => simp [hpl] at hok
      | some plate =>
        simp only [hpl, Bool.and_eq_true] at hok
        have hv := hok.1
        have hv' := hv
        simp only [valsOk, Bool.and_eq_true] at hv'
        simp only [R, hpl]
        rw [convertRow_cells _ _ (fun sv hsv => clean_cellValues _ _ hv'.1.2 sv (List.mem_of_mem_take hsv))]
        exact vel_record e plate hv
    rw [hrec]
    unfold dropBlankStations
    rw [List.filter_eq_self]
    intro r hr
    obtain ⟨e, hem, rfl⟩ := List.mem_map.mp hr
    have hok := he e hem
    simp only [velEntryOk] at hok
    cases hpl : velPlate e.2.1 with
    | none => simp [hpl] at hok
    | some plate =>
      simp only [hpl, Bool.and_eq_true, Bool.not_eq_true', List.isEmpty_eq_false_iff] at hok
      rw [crd_station_idx]
      simp [crdRecord, hok.2]

end Midgard.WriterFiles
