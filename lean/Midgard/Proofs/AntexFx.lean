/-
C15 file level, part 1: the effect of every line a well-formed ANTEX file model renders (`Spec/AntexFile.lean`) on the
state of the antenna-section parser, and that no line but END OF ANTENNA ends the section.
-/
import Midgard.Proofs.AntexFile
namespace Midgard.Antex.File
open Midgard.Text Midgard.FixedCol Midgard.ChainParser Midgard.Antex Midgard.Decimal Midgard.Antex.Records
open Midgard.Spec.Antex14 (RecSpec specs renderLabelled renderRow findKind findLabel)
open Midgard.Spec.AntexFile

abbrev Fx := State → Except Err State
def idFx : Fx := fun s => .ok s
def cacheFx (f : Cache → Cache) : Fx := fun s => .ok { s with cache := f s.cache }

/-- the line has the stated effect in an antenna section and does not end it -/
def LineOk (x : Str × Fx) : Prop :=
  (∀ n s, parseLine corrParser (rstrip x.1) n s = x.2 s) ∧ ∀ n nx, corrParser.endMarker (rstrip x.1) n nx = false

theorem req_ok_iff {α} (o : Option α) (v : α) : req o = .ok v ↔ o = some v := by
  cases o <;> simp [req, pure, Except.pure, throw, throwThe, MonadExceptOf.throw]

/-! ### unread records -/

def ignoredKinds : List String := ["SOA", "EOA", "SOR", "EOR", "COM", "METH", "SINEX", "EOH", "VER", "PCV"]

def ignoredOk (k : String) : Bool :=
  match findKind k with
  | some sp => (Midgard.Generated.AntexCols.records.find? (·.label == sp.label)).isNone
  | none => false

theorem ignored_table : ignoredKinds.all ignoredOk = true := by decide +kernel

theorem okRec_parts {k : String} {cells : List Str} (h : okRec k cells = true) :
    cells.length = (spec k).layout.length ∧ Fits (spec k).layout ((spec k).aligns.zip cells) = true ∧
      ∀ c ∈ cells, okText c = true := by
  simp only [okRec, Bool.and_eq_true, decide_eq_true_eq, List.all_eq_true] at h
  exact ⟨h.1.2, h.2, h.1.1⟩

def notEnd (k : String) : Bool :=
  match findKind k with
  | some sp => !decide (sp.label.toList.take 14 = "END OF ANTENNA".toList)
  | none => false

theorem notEnd_table : (["SOA", "SOR", "EOR", "COM", "METH", "SINEX", "TYP", "DAZI", "ZEN", "NFREQ", "VFROM", "VUNTIL",
    "SOF", "NEU", "EOF"].all notEnd) = true := by decide +kernel

theorem rec_noEnd (k : String) (hk : notEnd k = true) (cells : List Str)
    (hf : Fits (spec k).layout ((spec k).aligns.zip cells) = true) (n : Nat) (nx : Str) :
    corrParser.endMarker (rstrip (rec k cells)) n nx = false := by
  unfold notEnd at hk
  cases hfk : findKind k with
  | none => simp [hfk] at hk
  | some sp =>
    simp only [hfk] at hk
    rw [Bool.not_eq_true'] at hk
    rw [spec_eq hfk] at hf
    rw [corr_endMarker_rec k sp hfk cells hf]
    exact hk

theorem rec_ignored_ok (k : String) (hk : k ∈ ignoredKinds) (cells : List Str) (h : okRec k cells = true)
    (n : Nat) (s : State) : parseLine corrParser (rstrip (rec k cells)) n s = .ok s := by
  have hok := List.all_eq_true.mp ignored_table k hk
  unfold ignoredOk at hok
  obtain ⟨hlen, hf, _⟩ := okRec_parts h
  cases hfk : findKind k with
  | none => simp [hfk] at hok
  | some sp =>
    simp only [hfk, Option.isNone_iff_eq_none] at hok
    rw [spec_eq hfk] at hlen hf
    exact rec_ignored k sp hfk hok cells hlen hf n s

theorem rec_parsed_ok (k h : String) (hmem : (k, h) ∈ parsedKinds) (cells : List Str) (hok : okRec k cells = true)
    (n : Nat) (s : State) :
    parseLine corrParser (rstrip (rec k cells)) n s = handle h (((spec k).layout.map (·.name)).zip cells) s := by
  obtain ⟨hlen, hf, _⟩ := okRec_parts hok
  exact rec_parsed k h hmem cells hlen hf n s

theorem lineOk_ignored (k : String) (hk : k ∈ ignoredKinds) (hne : notEnd k = true) (cells : List Str)
    (h : okRec k cells = true) : LineOk (rec k cells, idFx) :=
  ⟨fun n s => rec_ignored_ok k hk cells h n s, fun n nx => rec_noEnd k hne cells (okRec_parts h).2.1 n nx⟩


/-! ### records the antenna-section parser reads -/

theorem names_TYP : (spec "TYP").layout.map (·.name) = ["antenna_type", "antenna_code", "sat_code", "cospar_id"] := by decide +kernel
theorem names_DAZI : (spec "DAZI").layout.map (·.name) = ["dazi"] := by decide +kernel
theorem names_ZEN : (spec "ZEN").layout.map (·.name) = ["zen1", "zen2", "dzen"] := by decide +kernel
theorem names_NFREQ : (spec "NFREQ").layout.map (·.name) = ["num_freq"] := by decide +kernel
theorem names_VFROM : (spec "VFROM").layout.map (·.name) = ["year", "month", "day", "hour", "minute", "second"] := by decide +kernel
theorem names_VUNTIL : (spec "VUNTIL").layout.map (·.name) = ["year", "month", "day", "hour", "minute", "second"] := by decide +kernel
theorem names_SOF : (spec "SOF").layout.map (·.name) = ["frequency_code"] := by decide +kernel
theorem names_NEU : (spec "NEU").layout.map (·.name) = ["north", "east", "up"] := by decide +kernel
theorem names_EOF : (spec "EOF").layout.map (·.name) = ["frequency_code"] := by decide +kernel

theorem okNum_eq {c : NumCell} (h : okNum c = true) : parseFloat c.text = some c.val := by
  simpa [okNum] using h

theorem okInt_eq {c : IntCell} (h : okInt c = true) : parseInt? c.text = some c.val := by
  simpa [okInt] using h

theorem typ_line (a : AntM) (h : okRec "TYP" [a.typ, a.code, a.satCode, a.cospar] = true) :
    LineOk (rec "TYP" [a.typ, a.code, a.satCode, a.cospar],
      cacheFx fun c => { c with antennaType := some a.typ, antennaCode := some a.code, satCode := some a.satCode,
                                cosparId := some a.cospar }) := by
  refine ⟨fun n s => ?_, fun n nx => rec_noEnd _ (by decide +kernel) _ (okRec_parts h).2.1 n nx⟩
  rw [rec_parsed_ok "TYP" "parse_section_string" (by decide) _ h, names_TYP]
  simp [handle, parseSectionString, Cache.setStr, cacheFx, pure, Except.pure, bind, Except.bind]

theorem dazi_line (c : NumCell) (h : okRec "DAZI" [c.text] = true) (hv : okNum c = true) :
    LineOk (rec "DAZI" [c.text], cacheFx fun k => { k with dazi := some c.val }) := by
  refine ⟨fun n s => ?_, fun n nx => rec_noEnd _ (by decide +kernel) _ (okRec_parts h).2.1 n nx⟩
  rw [rec_parsed_ok "DAZI" "parse_section_float" (by decide) _ h, names_DAZI]
  simp [handle, parseSectionFloat, Cache.setNum, cacheFx, pure, Except.pure, bind, Except.bind, okNum_eq hv, req]

theorem zen_line (z1 z2 dz : NumCell) (h : okRec "ZEN" [z1.text, z2.text, dz.text] = true)
    (h1 : okNum z1 = true) (h2 : okNum z2 = true) (h3 : okNum dz = true) :
    LineOk (rec "ZEN" [z1.text, z2.text, dz.text],
      cacheFx fun k => { k with zen1 := some z1.val, zen2 := some z2.val, dzen := some dz.val }) := by
  refine ⟨fun n s => ?_, fun n nx => rec_noEnd _ (by decide +kernel) _ (okRec_parts h).2.1 n nx⟩
  rw [rec_parsed_ok "ZEN" "parse_section_float" (by decide) _ h, names_ZEN]
  simp [handle, parseSectionFloat, Cache.setNum, cacheFx, pure, Except.pure, bind, Except.bind, okNum_eq h1, okNum_eq h2,
    okNum_eq h3, req]

theorem neu_line (b : SecM) (h : okRec "NEU" (neuCells b) = true)
    (h1 : okNum b.north = true) (h2 : okNum b.east = true) (h3 : okNum b.up = true) :
    LineOk (rec "NEU" (neuCells b),
      cacheFx fun k => { k with north := some b.north.val, east := some b.east.val, up := some b.up.val }) := by
  refine ⟨fun n s => ?_, fun n nx => rec_noEnd _ (by decide +kernel) _ (okRec_parts h).2.1 n nx⟩
  rw [rec_parsed_ok "NEU" "parse_section_float" (by decide) _ h, names_NEU]
  simp [neuCells, handle, parseSectionFloat, Cache.setNum, cacheFx, pure, Except.pure, bind, Except.bind, okNum_eq h1,
    okNum_eq h2, okNum_eq h3, req]

theorem nfreq_line (t : Str) (h : okRec "NFREQ" [t] = true) :
    LineOk (rec "NFREQ" [t], cacheFx fun k => { k with numFreq := some t, counter := some 0 }) := by
  refine ⟨fun n s => ?_, fun n nx => rec_noEnd _ (by decide +kernel) _ (okRec_parts h).2.1 n nx⟩
  rw [rec_parsed_ok "NFREQ" "parse_num_of_frequencies" (by decide) _ h, names_NFREQ]
  simp [handle, parseNumOfFrequencies, Values.get, cacheFx, pure, Except.pure, bind, Except.bind, req]

theorem sof_line (code : Str) (h : okRec "SOF" [code] = true) :
    LineOk (rec "SOF" [code], cacheFx fun k => { k with freqCode := some code, noazi := none, azi := none }) := by
  refine ⟨fun n s => ?_, fun n nx => rec_noEnd _ (by decide +kernel) _ (okRec_parts h).2.1 n nx⟩
  rw [rec_parsed_ok "SOF" "parse_start_of_frequency" (by decide) _ h, names_SOF]
  simp [handle, parseStartOfFrequency, parseSectionString, Cache.setStr, cacheFx, pure, Except.pure, bind, Except.bind]

theorem okRec_code {k k' : String} {code : Str} (hl : (spec k).layout = (spec k').layout) (ha : (spec k).aligns = (spec k').aligns)
    (h : okRec k [code] = true) : okRec k' [code] = true := by
  unfold okRec at h ⊢
  rw [← hl, ← ha]; exact h

theorem eof_line (code : Str) (h : okRec "SOF" [code] = true) : LineOk (rec "EOF" [code], saveCorrection) := by
  have h' : okRec "EOF" [code] = true := okRec_code (by decide +kernel) (by decide +kernel) h
  refine ⟨fun n s => ?_, fun n nx => rec_noEnd _ (by decide +kernel) _ (okRec_parts h').2.1 n nx⟩
  rw [rec_parsed_ok "EOF" "save_correction" (by decide) _ h', names_EOF]
  simp [handle]

theorem parseValid_date (d : DateM) (h : d.wf = true) :
    parseValid ((["year", "month", "day", "hour", "minute", "second"] : List String).zip (dateCells d)) = .ok (dateMicros d) := by
  simp only [DateM.wf, Bool.and_eq_true, beq_iff_eq] at h
  obtain ⟨⟨⟨⟨⟨⟨⟨_, hy⟩, hm⟩, hd⟩, hh⟩, hmi⟩, hs⟩, hmins⟩ := h
  simp [parseValid, dateCells, Values.get, req, bind, Except.bind, pure, Except.pure, okInt_eq hy, okInt_eq hm, okInt_eq hd,
    okInt_eq hh, okInt_eq hmi, okNum_eq hs, hmins, dateMicros]

theorem vfrom_line (d : DateM) (h : d.wf = true) :
    LineOk (rec "VFROM" (dateCells d), cacheFx fun k => { k with validFrom := some (dateMicros d) }) := by
  have hr : okRec "VFROM" (dateCells d) = true := by
    simp only [DateM.wf, Bool.and_eq_true] at h; exact h.1.1.1.1.1.1.1
  refine ⟨fun n s => ?_, fun n nx => rec_noEnd _ (by decide +kernel) _ (okRec_parts hr).2.1 n nx⟩
  rw [rec_parsed_ok "VFROM" "parse_valid_from" (by decide) _ hr, names_VFROM]
  simp [handle, parseValidFrom, parseValid_date d h, cacheFx, pure, Except.pure, bind, Except.bind]

theorem vuntil_line (d : DateM) (h : d.wf = true) :
    LineOk (rec "VUNTIL" (dateCells d), cacheFx fun k => { k with validUntil := some (dateMicros d) }) := by
  have hr0 : okRec "VFROM" (dateCells d) = true := by
    simp only [DateM.wf, Bool.and_eq_true] at h; exact h.1.1.1.1.1.1.1
  have hr : okRec "VUNTIL" (dateCells d) = true := by
    unfold okRec at hr0 ⊢
    rw [show (spec "VUNTIL").layout = (spec "VFROM").layout by decide +kernel,
      show (spec "VUNTIL").aligns = (spec "VFROM").aligns by decide +kernel]
    exact hr0
  refine ⟨fun n s => ?_, fun n nx => rec_noEnd _ (by decide +kernel) _ (okRec_parts hr).2.1 n nx⟩
  rw [rec_parsed_ok "VUNTIL" "parse_valid_until" (by decide) _ hr, names_VUNTIL]
  simp [handle, parseValidUntil, parseValid_date d h, cacheFx, pure, Except.pure, bind, Except.bind]


/-! ### correction rows -/

theorem mapM_cells (cells : List NumCell) (h : ∀ c ∈ cells, okNum c = true) :
    (cells.map (·.text)).mapM (fun t => req (parseFloat t)) = .ok (cells.map (·.val)) := by
  induction cells with
  | nil => rfl
  | cons c cs ih =>
    have h1 := okNum_eq (h c (by simp))
    have h2 := ih (fun x hx => h x (by simp [hx]))
    simp only [List.map_cons, List.mapM_cons, h1, req_some, bind, Except.bind, h2, pure, Except.pure]

theorem rowVals_ok (cells : List NumCell) (h : cells.all okRowVal = true) :
    (∀ v ∈ cells.map (·.text), NumText v = true ∧ v.length ≤ 7) ∧ (∀ c ∈ cells, okNum c = true) ∧
      ∀ v ∈ cells.map (·.text), okText v = true := by
  simp only [List.all_eq_true, okRowVal, Bool.and_eq_true, decide_eq_true_eq] at h
  refine ⟨?_, fun c hc => (h c hc).2, ?_⟩
  · intro v hv
    obtain ⟨c, hc, rfl⟩ := List.mem_map.mp hv
    exact ⟨(h c hc).1.1.2, (h c hc).1.2⟩
  · intro v hv
    obtain ⟨c, hc, rfl⟩ := List.mem_map.mp hv
    exact (h c hc).1.1.1.1

theorem rstrip_renderRow (first : Str) (vals : List Str) (hfirst : Token first = true)
    (hvals : ∀ v ∈ vals, NumText v = true ∧ v.length ≤ 7) : rstrip (renderRow first vals) = renderRow first vals := by
  have htok : ∀ v ∈ vals, Token v = true ∧ v.length ≤ 7 := fun v hv => by
    have := hvals v hv
    simp only [NumText, Bool.and_eq_true] at this
    exact ⟨this.1.1, this.2⟩
  rw [renderRow_padded]
  exact rstrip_padded _ (by simp [rowPads]) (rowPads_ok first vals hfirst htok)

theorem row_lineOk (first : Str) (cells : List NumCell) (hfirst : Token first = true) (hlen : first.length ≤ 8)
    (hc : cells.all okRowVal = true) :
    LineOk (renderRow first (cells.map (·.text)),
      cacheFx fun k => if first = "NOAZI".toList then { k with noazi := some (cells.map (·.val)) }
        else { k with azi := some (k.azi.getD [] ++ [cells.map (·.val)]) }) := by
  obtain ⟨hv, hn, _⟩ := rowVals_ok cells hc
  refine ⟨fun n s => ?_, fun n nx => ?_⟩
  · exact row_line first _ _ hfirst hlen hv (mapM_cells cells hn) n s
  · rw [rstrip_renderRow first _ hfirst hv]
    exact corr_endMarker_of_tail _ (row_tail_plain first _ hlen (fun v h => (hv v h).1)) n nx

theorem noazi_lineOk (b : SecM) (h : b.noazi.all okRowVal = true) :
    LineOk (noaziLine b, cacheFx fun k => { k with noazi := some (b.noazi.map (·.val)) }) := by
  have := row_lineOk "NOAZI".toList b.noazi (by decide) (by decide) h
  simpa [noaziLine] using this

theorem azi_lineOk (r : Str × List NumCell) (h : okRow r = true) :
    LineOk (rowLine r, cacheFx fun k => { k with azi := some (k.azi.getD [] ++ [r.2.map (·.val)]) }) := by
  simp only [okRow, Bool.and_eq_true, decide_eq_true_eq, bne_iff_ne, ne_eq] at h
  obtain ⟨⟨⟨⟨_, htok⟩, hlen⟩, hne⟩, hvals⟩ := h
  have := row_lineOk r.1 r.2 htok hlen hvals
  have hne' : ¬ r.1 = ['N', 'O', 'A', 'Z', 'I'] := by simpa using hne
  simpa [rowLine, hne'] using this

/-! ### unread lines -/

theorem blank_lineOk : LineOk (([] : Str), idFx) := by
  refine ⟨fun n s => ?_, fun n nx => ?_⟩
  · have : rstrip ([] : Str) = [] := rfl
    rw [this]; rfl
  · have : rstrip ([] : Str) = [] := rfl
    rw [this]; rfl


/-! ### comments: any printable text of at most 60 characters (outer blanks allowed) -/

theorem generic_label (body : Str) (hb : body.length = 60) (sp : RecSpec) (hsp : sp ∈ specs) :
    rstrip (body ++ sp.label.toList) = body ++ sp.label.toList ∧
    labelText (body ++ sp.label.toList) = sp.label ∧ corrLabel (body ++ sp.label.toList) = sp.label ∧
    ∀ w, Text.slice 60 (60 + w) (body ++ sp.label.toList) = sp.label.toList.take w := by
  have hok := List.all_eq_true.mp specs_ok sp hsp
  simp only [specOk, Bool.and_eq_true, decide_eq_true_eq, Bool.not_eq_eq_eq_not, Bool.not_true] at hok
  obtain ⟨⟨⟨⟨⟨_, _⟩, _⟩, hc⟩, hne⟩, hfirst⟩ := hok
  have hne' : sp.label.toList ≠ [] := by
    intro h; rw [h] at hne; simp at hne
  have hlt : labelText (body ++ sp.label.toList) = sp.label := by
    unfold labelText sliceFrom
    rw [List.drop_append_of_le_length (by omega)]
    have : List.drop 60 body = [] := List.drop_eq_nil_of_le (by omega)
    rw [this, List.nil_append, strip_of_clean hc]
    simp [asString]
  refine ⟨rstrip_append_clean hc hne', hlt, ?_, ?_⟩
  · unfold corrLabel
    cases hl : sp.label.toList with
    | nil => exact absurd hl hne'
    | cons c rest =>
      rw [hl] at hfirst
      have h61 : Text.slice 60 61 (body ++ c :: rest) = [c] := by
        have : body ++ c :: rest = body ++ [c] ++ rest := by simp
        rw [this]
        exact slice_cell hb rfl
      rw [h61]
      have hfirst' : (isAlpha c || decide (c = '#')) = true := hfirst
      show (if (isAlpha c || decide (c = '#')) = true then _ else _) = _
      rw [if_pos hfirst', ← hl]
      exact hlt
  · intro w
    rw [slice_append_right (by omega)]
    simp [hb, Text.slice]

theorem spec_COM : spec "COM" = ⟨"COM", "COMMENT", [⟨"comment", 0, 60⟩], [.left]⟩ := by decide +kernel

theorem com_shape (t : Str) (h : t.length ≤ 60) : rec "COM" [t] = ljust 60 t ++ "COMMENT".toList := by
  unfold rec renderLabelled
  rw [spec_COM]
  have h60 : (ljust 60 t).length = 60 := length_ljust h
  simp only [renderA, renderFrom, List.zip_cons_cons, List.zip_nil_right, pad, Field.width, Nat.sub_self, blanks,
    List.replicate_zero, List.nil_append, List.append_nil, Nat.sub_zero]
  have : ljust 60 (ljust 60 t) = ljust 60 t := by
    unfold ljust at h60 ⊢
    rw [h60]; simp [blanks]
  rw [this]

theorem COM_mem : (⟨"COM", "COMMENT", [⟨"comment", 0, 60⟩], [.left]⟩ : RecSpec) ∈ specs := by decide +kernel

theorem comment_lineOk (t : Str) (h : t.length ≤ 60) : LineOk (rec "COM" [t], idFx) := by
  rw [com_shape t h]
  obtain ⟨hr, _, hcl, hsl⟩ := generic_label (ljust 60 t) (length_ljust h) _ COM_mem
  refine ⟨fun n s => ?_, fun n nx => ?_⟩
  · unfold parseLine
    have hr' : rstrip (ljust 60 t ++ "COMMENT".toList) = ljust 60 t ++ "COMMENT".toList := hr
    rw [hr', hr']
    have h1 : corrParser.skipLine (ljust 60 t ++ "COMMENT".toList) = false := by
      show (ljust 60 t ++ "COMMENT".toList).isEmpty = false
      simp
    rw [h1]
    have h2 : corrParser.label (ljust 60 t ++ "COMMENT".toList) n = "COMMENT" := hcl
    simp only [Bool.false_eq_true, if_false, h2]
    have h3 : corrParser.defs.find? (·.label == "COMMENT") = none := by decide +kernel
    rw [h3]; rfl
  · have hr' : rstrip (ljust 60 t ++ "COMMENT".toList) = ljust 60 t ++ "COMMENT".toList := hr
    rw [hr']
    show decide (Text.slice 60 74 (ljust 60 t ++ "COMMENT".toList) = "END OF ANTENNA".toList) = false
    have := hsl 14
    rw [show (74 : Nat) = 60 + 14 from rfl, this]
    decide

theorem inert_lineOk (i : Inert) (h : i.wf = true) : LineOk (inertLine i, idFx) := by
  cases i with
  | comment t =>
    simp only [Inert.wf, Bool.and_eq_true, decide_eq_true_eq] at h
    exact comment_lineOk t h.2
  | meth a b c d => exact lineOk_ignored "METH" (by decide) (by decide +kernel) _ h
  | sinex c => exact lineOk_ignored "SINEX" (by decide) (by decide +kernel) _ h
  | blank => exact blank_lineOk

end Midgard.Antex.File
