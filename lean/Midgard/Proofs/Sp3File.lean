/-
Lemmas for the file-level theorem of C13 (`Props/C13.lean`, `file_roundtrip`): line splitting of a
rendered text, `rstrip` of lines that start with a visible character, the segmentation of the lines
into the header and the epoch blocks by `splitBlocksAux`, the epoch line, the header lines.
Core Lean only.
-/
import Midgard.Spec.Sp3File
import Midgard.Proofs.FixedCol
import Midgard.Proofs.Split
import Midgard.Proofs.NumText

namespace Midgard.Spec.Sp3File
open Midgard.Text Midgard.Decimal Midgard.FixedCol Midgard.Sp3 Midgard.Spec.NumText

/-! ### text -/

/-- a line that starts with a visible character keeps it under `rstrip` -/
theorem rstrip_cons {c : Char} (s : Str) (h : isSpace c = false) : rstrip (c :: s) = c :: rstrip s := by
  unfold rstrip
  rw [List.reverse_cons, List.dropWhile_append]
  by_cases he : (List.dropWhile isSpace s.reverse).isEmpty = true
  · have : List.dropWhile isSpace s.reverse = [] := List.isEmpty_iff.mp he
    simp [this, h]
  · simp [he]

theorem rstrip_append_cons {c : Char} (a s : Str) (h : isSpace c = false) (ha : ∀ x ∈ a, isSpace x = false) :
    rstrip (a ++ c :: s) = a ++ c :: rstrip s := by
  induction a with
  | nil => exact rstrip_cons s h
  | cons x a ih =>
    rw [List.cons_append, rstrip_cons _ (ha x (by simp)), ih (fun y hy => ha y (by simp [hy]))]
    rfl

theorem splitOnAux_line (sep : Char) (l : Str) (hl : ∀ c ∈ l, c ≠ sep) (rest cur : Str) :
    splitOnAux sep (l ++ sep :: rest) cur = (cur.reverse ++ l) :: splitOnAux sep rest [] := by
  induction l generalizing cur with
  | nil => simp [splitOnAux]
  | cons c l ih =>
    have hc : c ≠ sep := hl c (by simp)
    simp only [List.cons_append, splitOnAux, hc, if_false]
    rw [ih (fun x hx => hl x (by simp [hx]))]
    simp

/-- **line splitting**: a text made of lines without line breaks, each closed by a newline, splits
into exactly those lines (plus the empty piece after the last newline) -/
theorem splitOn_joinLines (ls : List Str) (h : ∀ l ∈ ls, ∀ c ∈ l, c ≠ '\n') :
    splitOn '\n' (joinLines ls) = ls ++ [[]] := by
  unfold splitOn
  induction ls with
  | nil => rfl
  | cons l ls ih =>
    simp only [joinLines]
    rw [splitOnAux_line '\n' l (h l (by simp))]
    rw [ih (fun x hx => h x (by simp [hx]))]
    simp

/-! ### segmentation into header and epoch blocks -/

/-- the line opens an epoch block -/
def Star (l : Str) : Prop := l.take 1 = ['*']

theorem splitBlocks_one (body : List Str) : ∀ (l : Str) (cur rest : List Str),
    (∀ x ∈ body, ¬ Star x) → (rest = [] ∨ ∃ s r, rest = s :: r ∧ Star s) →
    splitBlocksAux (l :: body ++ rest) cur = (cur.reverse ++ l :: body) :: splitBlocksAux rest [] := by
  induction body with
  | nil =>
    intro l cur rest _ hrest
    rcases hrest with h | ⟨s, r, h, hs⟩
    · subst h; simp [splitBlocksAux]
    · subst h
      simp only [List.nil_append, List.cons_append]
      rw [splitBlocksAux]
      simp only [Star] at hs
      simp [hs]
  | cons b body ih =>
    intro l cur rest hb hrest
    have hnb : ¬ b.take 1 = ['*'] := hb b (by simp)
    simp only [List.cons_append]
    rw [splitBlocksAux]
    simp only [hnb, if_false]
    have := ih b (l :: cur) rest (fun x hx => hb x (by simp [hx])) hrest
    simp only [List.cons_append] at this
    rw [this]
    simp

/-- the last group takes the trailer -/
def attachLast : List (List Str) → List Str → List (List Str)
  | [], t => [t]
  | [b], t => [b ++ t]
  | b :: b' :: bs, t => b :: attachLast (b' :: bs) t

/-- **segmentation**: header lines, then blocks each opened by a `*` line and otherwise free of them,
then a trailer: `splitBlocksAux` returns the header and the blocks, the trailer joined to the last -/
theorem splitBlocks_groups (bs : List (List Str)) (t : List Str) (ht : ∀ x ∈ t, ¬ Star x)
    (hbs : ∀ b ∈ bs, ∃ s body, b = s :: body ∧ Star s ∧ ∀ x ∈ body, ¬ Star x) :
    ∀ (h0 : Str) (body0 : List Str), (∀ x ∈ body0, ¬ Star x) →
      splitBlocksAux (h0 :: body0 ++ bs.flatten ++ t) [] = attachLast ((h0 :: body0) :: bs) t := by
  induction bs with
  | nil =>
    intro h0 body0 hb0
    have := splitBlocks_one (body0 ++ t) h0 [] [] (by
      intro x hx; rcases List.mem_append.mp hx with h | h
      · exact hb0 x h
      · exact ht x h) (Or.inl rfl)
    simp only [List.append_nil, List.reverse_nil, List.nil_append] at this
    simp only [List.flatten_nil, List.append_nil, attachLast, List.cons_append]
    rw [this]; simp [splitBlocksAux]
  | cons b bs ih =>
    intro h0 body0 hb0
    obtain ⟨s, body, hb, hs, hbody⟩ := hbs b (by simp)
    subst hb
    have h1 := splitBlocks_one body0 h0 [] ((s :: body) ++ bs.flatten ++ t) hb0
      (Or.inr ⟨s, body ++ bs.flatten ++ t, by simp, hs⟩)
    have h2 := ih (fun b' hb' => hbs b' (by simp [hb'])) s body hbody
    simp only [List.flatten_cons, attachLast]
    have e : h0 :: body0 ++ (s :: body ++ bs.flatten) ++ t = h0 :: body0 ++ (s :: body ++ bs.flatten ++ t) := by
      simp [List.append_assoc]
    rw [e, h1, h2]
    simp

theorem head_rstrip {c : Char} {t : Str} (h : isSpace c = false) : (rstrip (c :: t)).take 1 = [c] := by
  rw [rstrip_cons t h]; rfl

theorem not_star_of_head {c : Char} {t : Str} (h : isSpace c = false) (hc : c ≠ '*') : ¬ Star (rstrip (c :: t)) := by
  unfold Star
  rw [head_rstrip h]
  simp [hc]


/-! ### fixed columns behind a label -/

theorem sliceAll_zip (L : Layout) (line : Str) :
    sliceAll L line = (L.map (·.name)).zip (L.map fun f => slice f line) := by
  unfold sliceAll
  induction L with
  | nil => rfl
  | cons f L ih => simp [ih]

/-- the field dictionary of a line `label ++ rendered cells ++ anything`, read after the parser's `rstrip` -/
theorem sliceAll_labelled (L : Layout) (pos : Nat) (cells : List (Align × Str)) (pre post : Str)
    (hs : SortedFrom pos L = true) (hf : Fits L cells = true) (hpre : pre.length = pos) :
    sliceAll L (rstrip (pre ++ renderFrom pos L cells ++ post)) = (L.map (·.name)).zip (cells.map (·.2)) := by
  rw [sliceAll_zip]
  congr 1
  rw [← slice_renderFrom L pos cells pre post hs hf hpre]
  apply List.map_congr_left
  intro f _
  exact slice_rstrip f _

/-! ### the epoch line -/

theorem token_of_numChars {s : Str} (hne : s ≠ []) (h : ∀ c ∈ s, isNumChar c = true) : Token s = true := by
  unfold Token
  have h1 : s.isEmpty = false := by cases s <;> simp_all
  simp only [h1, Bool.not_false, Bool.true_and, List.all_eq_true, Bool.not_eq_eq_eq_not, Bool.not_true]
  exact fun c hc => isSpace_of_isNumChar (h c hc)

theorem token_fmtInt (i : Int) : Token (fmtInt i) = true :=
  token_of_numChars (fmtInt_ne_nil i) (fun _ hc => mem_fmtInt hc)

theorem token_fmtDec (p : Nat) (n : Int) : Token (fmtDec p n) = true :=
  token_of_numChars (fmtDec_ne_nil p n) (fmtDec_noSpace p n)

/-- the epoch line as blank-separated tokens -/
def epochPads (e : Epoch) : List (Str × Str) :=
  [([], ['*']),
   (' ' :: ' ' :: blanks (4 - (fmtInt e.year).length), fmtInt e.year),
   (' ' :: blanks (2 - (fmtInt e.month).length), fmtInt e.month),
   (' ' :: blanks (2 - (fmtInt e.day).length), fmtInt e.day),
   (' ' :: blanks (2 - (fmtInt e.hour).length), fmtInt e.hour),
   (' ' :: blanks (2 - (fmtInt e.minute).length), fmtInt e.minute),
   (' ' :: blanks (11 - (fmtDec 8 (e.sec7 * 10)).length), fmtDec 8 (e.sec7 * 10))]

theorem epochLine_padded (e : Epoch) : epochLine e = padded (epochPads e) := by
  simp [epochLine, epochPads, padded, rjust, List.append_assoc]

theorem isBlank_cons_blanks (n : Nat) : isBlank (' ' :: blanks n) = true := by
  have := isBlank_blanks n
  simp only [isBlank, List.all_cons, Bool.and_eq_true] at this ⊢
  exact ⟨by decide, this⟩

theorem epochPads_ok (e : Epoch) : PadsOk (epochPads e) = true := by
  have b2 : ∀ n, isBlank (' ' :: ' ' :: blanks n) = true := by
    intro n
    have := isBlank_cons_blanks n
    simp only [isBlank, List.all_cons, Bool.and_eq_true] at this ⊢
    exact ⟨by decide, this⟩
  have tstar : Token ['*'] = true := by decide
  have bnil : isBlank ([] : Str) = true := rfl
  simp [epochPads, PadsOk, isBlank_cons_blanks, b2, token_fmtInt, token_fmtDec, tstar, bnil]

theorem split_epochLine (e : Epoch) :
    split (epochLine e) = [['*'], fmtInt e.year, fmtInt e.month, fmtInt e.day, fmtInt e.hour, fmtInt e.minute,
      fmtDec 8 (e.sec7 * 10)] := by
  rw [epochLine_padded, split_padded _ (epochPads_ok e)]
  rfl

theorem sec7_back (n : Int) : roundHalfEven (decVal 8 (n * 10) * 10000000) = n := by
  have h : decVal 8 (n * 10) * 10000000 = (n : Rat) := by
    unfold decVal pow10
    rw [Rat.intCast_mul]
    have : ((10 ^ 8 : Nat) : Rat) = 100000000 := by decide +kernel
    rw [this]
    grind
  rw [h, roundHalfEven_int]

/-- **the epoch line reads back as the epoch it was printed from** (whitespace split, `int()`, `float()`,
`'{:010.7f}'`), also behind the parser's `rstrip` and `strip` -/
theorem parseDate_epochLine (e : Epoch) :
    parseDate [Option.none, some "year", some "month", some "day", some "hour", some "minute", some "second"]
      (strip (rstrip (epochLine e))) = some e := by
  unfold parseDate
  rw [split_strip, split_rstrip, split_epochLine]
  simp [parseInt_fmtInt, parseFloat_fmtDec, sec7_back]

theorem star_epochLine (e : Epoch) : Star (rstrip (epochLine e)) := by
  unfold Star epochLine
  simp only [List.cons_append, List.nil_append]
  exact head_rstrip (by decide)


/-! ### the header -/

/-- the header table of the standard (what `cols_eq_spec` says the parser's table is) -/
def specDefs : List HeaderDef :=
  [⟨"#c", Spec.Sp3.firstLine, .string⟩, ⟨"#d", Spec.Sp3.firstLine, .string⟩, ⟨"##", Spec.Sp3.secondLine, .string⟩,
   ⟨"%c", Spec.Sp3.percentC, .string⟩, ⟨"%f", Spec.Sp3.percentF, .float⟩]

theorem okCells_fits (al : Str → Align × Str) (hal : ∀ s, (al s).2 = s) (L : Layout) :
    ∀ (ss : List Str), okCells (L.map (·.width)) ss = true → Fits L (ss.map al) = true := by
  induction L with
  | nil => intro ss h; cases ss <;> simp_all [okCells, Fits]
  | cons f L ih =>
    intro ss h
    cases ss with
    | nil => simp [okCells] at h
    | cons s ss =>
      simp only [List.map_cons, okCells, okCell, Bool.and_eq_true, decide_eq_true_eq] at h
      have hcell : al s = ((al s).1, s) := Prod.ext rfl (hal s)
      rw [List.map_cons, hcell]
      simp only [Fits, Bool.and_eq_true, decide_eq_true_eq]
      exact ⟨⟨h.1.2, h.1.1.2⟩, ih ss h.2⟩

theorem okCells_length : ∀ (ws : List Nat) (ss : List Str), okCells ws ss = true → ss.length = ws.length
  | [], [], _ => rfl
  | [], _ :: _, h => by simp [okCells] at h
  | _ :: _, [], h => by simp [okCells] at h
  | w :: ws, s :: ss, h => by
    simp only [okCells, Bool.and_eq_true] at h
    simp [okCells_length ws ss h.2]

theorem mset_new (m : Meta) (k : String) (v : MVal) (h : m.any (·.1 = k) = false) : mset m k v = m ++ [(k, v)] := by
  simp [mset, h]

/-- `_parse_string` on fields with new, distinct names: all of them are stored, in order -/
theorem parseStringFields_new (names : List String) : ∀ (vals : List Str) (m : Meta),
    (∀ k ∈ names, m.any (·.1 = k) = false) → names.Nodup →
    (∀ kv ∈ names.zip vals, ¬ (kv.1 = "file_type" ∧ kv.2 = ['c', 'c'])) →
    parseStringFields m (names.zip vals) = m ++ (names.zip vals).map fun kv => (kv.1, MVal.str kv.2) := by
  induction names with
  | nil => intro vals m _ _ _; simp [parseStringFields]
  | cons k ns ih =>
    intro vals m hm hnd hft
    cases vals with
    | nil => simp [parseStringFields]
    | cons v vs =>
      have h1 : ¬ (k = "file_type" ∧ v = ['c', 'c']) := hft (k, v) (by simp)
      simp only [List.zip_cons_cons, parseStringFields, h1, if_false]
      rw [mset_new m k (.str v) (hm k (by simp))]
      have hnd' := List.nodup_cons.mp hnd
      have ih' := ih vs (m ++ [(k, MVal.str v)]) (by
        intro k' hk'
        have : k' ≠ k := fun e => hnd'.1 (e ▸ hk')
        simp only [List.any_append, hm k' (by simp [hk']), List.any_cons, List.any_nil, Bool.or_false, Bool.false_or,
          decide_eq_false_iff_not]
        exact fun e => this e.symm) hnd'.2 (fun kv hkv => hft kv (by simp [hkv]))
      rw [ih']
      simp

theorem find_label (lab : Str) (d : HeaderDef) (hd : specDefs.find? (fun d => d.label.toList = lab) = some d)
    (m : Meta) (line : Str) (hl : line.take 2 = lab) :
    headerLine specDefs m line = match d.kind with
      | .string => some (parseStringFields m (sliceAll d.fields line))
      | .float => parseFloatFields m (sliceAll d.fields line) := by
  unfold headerLine
  rw [hl, hd]
  rfl

/-- a line whose first character is none of `#`, `%` — or that starts `%i` — is no header record -/
theorem headerLine_ignored (m : Meta) (line : Str)
    (h : (line.take 1 ≠ ['#'] ∧ line.take 1 ≠ ['%']) ∨ line.take 2 = ['%', 'i']) :
    headerLine specDefs m line = some m := by
  unfold headerLine
  have : specDefs.find? (fun d => d.label.toList = line.take 2) = Option.none := by
    rw [List.find?_eq_none]
    intro d hd
    simp only [specDefs, List.mem_cons, List.not_mem_nil, or_false] at hd
    rcases h with ⟨h1, h2⟩ | h
    · cases line with
      | nil => rcases hd with rfl | rfl | rfl | rfl | rfl <;> simp
      | cons c t =>
        have c1 : c ≠ '#' := fun e => h1 (by simp [e])
        have c2 : c ≠ '%' := fun e => h2 (by simp [e])
        cases t with
        | nil => rcases hd with rfl | rfl | rfl | rfl | rfl <;> simp
        | cons c' t' =>
          rcases hd with rfl | rfl | rfl | rfl | rfl <;>
            simp [Ne.symm c1, Ne.symm c2]
    · rw [h]
      rcases hd with rfl | rfl | rfl | rfl | rfl <;> decide
  rw [this]

theorem headerLine_other (m : Meta) (x : HdrKind × Str) : headerLine specDefs m (rstrip (hdrOther x)) = some m := by
  apply headerLine_ignored
  obtain ⟨k, t⟩ := x
  cases k with
  | plus =>
    left
    have : rstrip (hdrOther (HdrKind.plus, t)) = '+' :: rstrip (' ' :: t) := rstrip_cons _ (by decide)
    rw [this]; constructor <;> simp
  | plusplus =>
    left
    have : rstrip (hdrOther (HdrKind.plusplus, t)) = '+' :: rstrip ('+' :: t) := rstrip_cons _ (by decide)
    rw [this]; constructor <;> simp
  | comment =>
    left
    have : rstrip (hdrOther (HdrKind.comment, t)) = '/' :: rstrip ('*' :: t) := rstrip_cons _ (by decide)
    rw [this]; constructor <;> simp
  | pci =>
    right
    have : rstrip (hdrOther (HdrKind.pci, t)) = '%' :: 'i' :: rstrip t := by
      show rstrip ('%' :: 'i' :: t) = _
      rw [rstrip_cons _ (by decide), rstrip_cons _ (by decide)]
    rw [this]; rfl

theorem headerLine_eof (m : Meta) : headerLine specDefs m (rstrip eofLine) = some m := by
  apply headerLine_ignored
  left
  have : rstrip eofLine = eofLine := by decide +kernel
  rw [this]; constructor <;> decide

theorem fold_ignored (ls : List Str) (h : ∀ l ∈ ls, ∀ m, headerLine specDefs m l = some m) (m : Meta) :
    ls.foldlM (headerLine specDefs) m = some m := by
  induction ls with
  | nil => rfl
  | cons l ls ih =>
    simp only [List.foldlM_cons, h l (by simp) m, Option.bind_eq_bind, Option.bind_some]
    exact ih (fun l' hl' => h l' (by simp [hl']))


theorem any_zip_keys (g : Str → MVal) (names : List String) (k : String) (hk : k ∉ names) : ∀ (vals : List Str),
    ((names.zip vals).map fun kv => (kv.1, g kv.2)).any (·.1 = k) = false := by
  intro vals
  rw [List.any_eq_false]
  intro x hx
  simp only [List.mem_map] at hx
  obtain ⟨kv, hkv, rfl⟩ := hx
  have : kv.1 ∈ names := (List.of_mem_zip hkv).1
  simp only [decide_eq_true_eq]
  intro e
  exact hk (e ▸ this)

theorem mget_append_skip (m m' : Meta) (k : String) (h : m.any (·.1 = k) = false) : mget (m ++ m') k = mget m' k := by
  unfold mget
  rw [List.find?_append]
  have : m.find? (fun x => decide (x.1 = k)) = Option.none := by
    rw [List.find?_eq_none]
    rw [List.any_eq_false] at h
    exact h
  rw [this]; rfl

theorem mget_none (m : Meta) (k : String) (h : m.any (·.1 = k) = false) : mget m k = Option.none := by
  have := mget_append_skip m [] k h
  simpa [mget] using this

def mstr (kv : String × Str) : String × MVal := (kv.1, MVal.str kv.2)

/-- the four stages of the header dictionary -/
def meta1 (h : Header) : Meta := (("version" :: line1Names).zip ([h.version] :: h.line1)).map mstr
def meta2 (h : Header) : Meta := meta1 h ++ (line2Names.zip h.line2).map mstr
def meta3 (h : Header) : Meta := meta2 h ++ [("file_type", .str h.fileType), ("time_sys", .str h.timeSys)]
def meta4 (h : Header) : Meta :=
  meta3 h ++ [("base_posvel", .num (basePosVal h)), ("base_clkrate", .num (baseClkVal h))]

theorem meta4_eq (h : Header) : meta4 h = expectedMeta h := by
  have hm : mstr = fun (kv : String × Str) => (kv.fst, MVal.str kv.snd) := rfl
  simp [meta4, meta3, meta2, meta1, expectedMeta, hm, List.append_assoc]

theorem meta1_fresh (h : Header) (k : String) (hk : k ∉ "version" :: line1Names) : (meta1 h).any (·.1 = k) = false :=
  any_zip_keys MVal.str _ k hk _

theorem meta2_fresh (h : Header) (k : String) (hk : k ∉ "version" :: line1Names) (hk2 : k ∉ line2Names) :
    (meta2 h).any (·.1 = k) = false := by
  unfold meta2
  rw [List.any_append, meta1_fresh h k hk]
  exact any_zip_keys MVal.str _ k hk2 _

theorem meta3_fresh (h : Header) (k : String) (hk : k ∉ "version" :: line1Names) (hk2 : k ∉ line2Names)
    (hk3 : k ≠ "file_type" ∧ k ≠ "time_sys") : (meta3 h).any (·.1 = k) = false := by
  unfold meta3
  rw [List.any_append, meta2_fresh h k hk hk2]
  simp [Ne.symm hk3.1, Ne.symm hk3.2]

theorem first_line (h : Header) (hv : h.version = 'c' ∨ h.version = 'd')
    (hok : okCells [1, 4, 2, 2, 2, 2, 11, 7, 5, 5, 3, 4] h.line1 = true) :
    headerLine specDefs [] (rstrip ('#' :: renderFrom 1 Spec.Sp3.firstLine (Lft [h.version] :: h.line1.map R))) =
      some (meta1 h) := by
  have hfit : Fits Spec.Sp3.firstLine (Lft [h.version] :: h.line1.map R) = true := by
    have h2 := okCells_fits R (fun _ => rfl) Spec.Sp3.firstLine.tail h.line1 hok
    have hc : Clean [h.version] = true := by rcases hv with e | e <;> rw [e] <;> decide
    unfold Spec.Sp3.firstLine at h2 ⊢
    simp only [List.tail_cons] at h2
    simp [Fits, Lft, h2, hc, Field.width]
  have hsl := sliceAll_labelled Spec.Sp3.firstLine 1 (Lft [h.version] :: h.line1.map R) ['#'] [] (by decide +kernel) hfit rfl
  have hline : ['#'] ++ renderFrom 1 Spec.Sp3.firstLine (Lft [h.version] :: h.line1.map R) ++ [] =
      '#' :: renderFrom 1 Spec.Sp3.firstLine (Lft [h.version] :: h.line1.map R) := by simp
  rw [hline] at hsl
  have hnames : Spec.Sp3.firstLine.map (·.name) = "version" :: line1Names := by decide +kernel
  have hvals : (Lft [h.version] :: h.line1.map R).map (·.2) = [h.version] :: h.line1 := by
    simp [Lft, R, List.map_map, Function.comp_def]
  rw [hnames, hvals] at hsl
  -- the label
  have hr : renderFrom 1 Spec.Sp3.firstLine (Lft [h.version] :: h.line1.map R) =
      h.version :: renderFrom 2 Spec.Sp3.firstLine.tail (h.line1.map R) := by
    simp [Spec.Sp3.firstLine, renderFrom, Lft, pad, ljust, blanks, Field.width]
  have hvs : isSpace h.version = false := by rcases hv with e | e <;> rw [e] <;> decide
  have hl : (rstrip ('#' :: renderFrom 1 Spec.Sp3.firstLine (Lft [h.version] :: h.line1.map R))).take 2 = ['#', h.version] := by
    rw [hr, rstrip_cons _ (by decide), rstrip_cons _ hvs]; rfl
  have hfind : ∃ lab, specDefs.find? (fun d => d.label.toList = ['#', h.version]) = some ⟨lab, Spec.Sp3.firstLine, .string⟩ := by
    rcases hv with e | e <;> rw [e]
    · exact ⟨"#c", by decide +kernel⟩
    · exact ⟨"#d", by decide +kernel⟩
  obtain ⟨lab, hfind⟩ := hfind
  rw [find_label _ _ hfind [] _ hl]
  simp only [hsl]
  have := parseStringFields_new ("version" :: line1Names) ([h.version] :: h.line1) [] (by simp) (by decide +kernel)
    (fun kv hkv hh => by
      have hm : kv.1 ∈ "version" :: line1Names := (List.of_mem_zip hkv).1
      rw [hh.1] at hm
      revert hm; decide)
  rw [this]
  simp [meta1, mstr]

theorem second_line (h : Header) (hok : okCells [4, 15, 14, 5, 15] h.line2 = true) :
    headerLine specDefs (meta1 h) (rstrip ('#' :: '#' :: renderFrom 2 Spec.Sp3.secondLine (h.line2.map R))) =
      some (meta2 h) := by
  have hfit := okCells_fits R (fun _ => rfl) Spec.Sp3.secondLine h.line2 hok
  have hsl := sliceAll_labelled Spec.Sp3.secondLine 2 (h.line2.map R) ['#', '#'] [] (by decide +kernel) hfit rfl
  have hline : ['#', '#'] ++ renderFrom 2 Spec.Sp3.secondLine (h.line2.map R) ++ [] =
      '#' :: '#' :: renderFrom 2 Spec.Sp3.secondLine (h.line2.map R) := by simp
  rw [hline] at hsl
  have hnames : Spec.Sp3.secondLine.map (·.name) = line2Names := by decide +kernel
  have hvals : (h.line2.map R).map (·.2) = h.line2 := by simp [R, List.map_map, Function.comp_def]
  rw [hnames, hvals] at hsl
  have hl : (rstrip ('#' :: '#' :: renderFrom 2 Spec.Sp3.secondLine (h.line2.map R))).take 2 = ['#', '#'] := by
    rw [rstrip_cons _ (by decide), rstrip_cons _ (by decide)]; rfl
  rw [find_label _ ⟨"##", Spec.Sp3.secondLine, .string⟩ (by decide +kernel) _ _ hl]
  simp only [hsl]
  have := parseStringFields_new line2Names h.line2 (meta1 h)
    (fun k hk => meta1_fresh h k (by revert hk; revert k; decide +kernel)) (by decide +kernel)
    (fun kv hkv hh => by
      have hm : kv.1 ∈ line2Names := (List.of_mem_zip hkv).1
      rw [hh.1] at hm
      revert hm; decide)
  rw [this]
  rfl


theorem percent_c_line (h : Header) (hft : okCell 2 h.fileType = true) (hts : okCell 3 h.timeSys = true)
    (hcc : h.fileType ≠ ['c', 'c']) :
    headerLine specDefs (meta2 h)
      (rstrip ('%' :: 'c' :: (renderFrom 2 percentCFull [Lft h.fileType, Lft ['c', 'c'], Lft h.timeSys] ++ percentCTail))) =
      some (meta3 h) := by
  simp only [okCell, Bool.and_eq_true, decide_eq_true_eq] at hft hts
  have hfit : Fits percentCFull [Lft h.fileType, Lft ['c', 'c'], Lft h.timeSys] = true := by
    have hc : Clean ['c', 'c'] = true := by decide
    simp [Fits, percentCFull, Lft, Field.width, hft.1.2, hft.2, hts.1.2, hts.2, hc]
  have hsl := sliceAll_labelled percentCFull 2 [Lft h.fileType, Lft ['c', 'c'], Lft h.timeSys] ['%', 'c'] percentCTail
    (by decide +kernel) hfit rfl
  have hline : ['%', 'c'] ++ renderFrom 2 percentCFull [Lft h.fileType, Lft ['c', 'c'], Lft h.timeSys] ++ percentCTail =
      '%' :: 'c' :: (renderFrom 2 percentCFull [Lft h.fileType, Lft ['c', 'c'], Lft h.timeSys] ++ percentCTail) := by simp
  rw [hline] at hsl
  generalize hL : rstrip ('%' :: 'c' :: (renderFrom 2 percentCFull [Lft h.fileType, Lft ['c', 'c'], Lft h.timeSys] ++ percentCTail)) = line at hsl ⊢
  have hl : line.take 2 = ['%', 'c'] := by
    rw [← hL]
    show (rstrip ('%' :: 'c' :: (renderFrom 2 percentCFull [Lft h.fileType, Lft ['c', 'c'], Lft h.timeSys] ++ percentCTail))).take 2 = _
    rw [rstrip_cons _ (by decide), rstrip_cons _ (by decide)]; rfl
  rw [find_label _ ⟨"%c", Spec.Sp3.percentC, .string⟩ (by decide +kernel) _ _ hl]
  simp only [sliceAll, percentCFull, Lft, List.map_cons, List.map_nil, List.zip_cons_cons, List.zip_nil_right,
    List.cons.injEq, Prod.mk.injEq, true_and, and_true] at hsl
  have hsl2 : sliceAll Spec.Sp3.percentC line = ["file_type", "time_sys"].zip [h.fileType, h.timeSys] := by
    simp [sliceAll, Spec.Sp3.percentC, hsl.1, hsl.2.2]
  simp only [hsl2]
  have := parseStringFields_new ["file_type", "time_sys"] [h.fileType, h.timeSys] (meta2 h)
    (fun k hk => meta2_fresh h k (by revert hk; revert k; decide +kernel) (by revert hk; revert k; decide +kernel))
    (by decide +kernel)
    (fun kv hkv hh => by
      simp only [List.zip_cons_cons, List.zip_nil_right, List.mem_cons, List.not_mem_nil, or_false] at hkv
      rcases hkv with rfl | rfl
      · exact hcc hh.2
      · exact absurd hh.1 (by simp))
  rw [this]
  rfl

theorem percent_c_cont (m : Meta) : headerLine specDefs m (rstrip percentCCont) = some m := by
  have hl : (rstrip percentCCont).take 2 = ['%', 'c'] := by decide +kernel
  rw [find_label _ ⟨"%c", Spec.Sp3.percentC, .string⟩ (by decide +kernel) _ _ hl]
  have : sliceAll Spec.Sp3.percentC (rstrip percentCCont) = [("file_type", ['c', 'c']), ("time_sys", ['c', 'c', 'c'])] := by
    decide +kernel
  simp [this, parseStringFields]

theorem percent_f_line (h : Header) (hbp : h.basePos < 10 ^ 9) (hbc : h.baseClk < 10 ^ 11) :
    headerLine specDefs (meta3 h)
      (rstrip ('%' :: 'f' :: (renderFrom 2 Spec.Sp3.percentF [R (fmtDec 7 h.basePos), R (fmtDec 9 h.baseClk)] ++ percentFTail))) =
      some (meta4 h) := by
  have l1 : (fmtDec 7 (h.basePos : Int)).length ≤ 10 := by
    have := length_fmtDec_le 7 2 (h.basePos : Int) (by decide) (by simpa using hbp)
    have hn : ¬ ((h.basePos : Int) < 0) := by omega
    simp only [hn, if_false] at this
    omega
  have l2 : (fmtDec 9 (h.baseClk : Int)).length ≤ 12 := by
    have := length_fmtDec_le 9 2 (h.baseClk : Int) (by decide) (by simpa using hbc)
    have hn : ¬ ((h.baseClk : Int) < 0) := by omega
    simp only [hn, if_false] at this
    omega
  have hfit : Fits Spec.Sp3.percentF [R (fmtDec 7 h.basePos), R (fmtDec 9 h.baseClk)] = true := by
    simp [Fits, Spec.Sp3.percentF, R, Field.width, l1, l2, clean_of_numChars (fmtDec_noSpace _ _)]
  have hsl := sliceAll_labelled Spec.Sp3.percentF 2 [R (fmtDec 7 h.basePos), R (fmtDec 9 h.baseClk)] ['%', 'f'] percentFTail
    (by decide +kernel) hfit rfl
  have hline : ['%', 'f'] ++ renderFrom 2 Spec.Sp3.percentF [R (fmtDec 7 h.basePos), R (fmtDec 9 h.baseClk)] ++ percentFTail =
      '%' :: 'f' :: (renderFrom 2 Spec.Sp3.percentF [R (fmtDec 7 h.basePos), R (fmtDec 9 h.baseClk)] ++ percentFTail) := by simp
  rw [hline] at hsl
  generalize hL : rstrip ('%' :: 'f' :: (renderFrom 2 Spec.Sp3.percentF [R (fmtDec 7 h.basePos), R (fmtDec 9 h.baseClk)] ++ percentFTail)) = line at hsl ⊢
  have hl : line.take 2 = ['%', 'f'] := by
    rw [← hL]
    show (rstrip ('%' :: 'f' :: (renderFrom 2 Spec.Sp3.percentF [R (fmtDec 7 h.basePos), R (fmtDec 9 h.baseClk)] ++ percentFTail))).take 2 = _
    rw [rstrip_cons _ (by decide), rstrip_cons _ (by decide)]; rfl
  rw [find_label _ ⟨"%f", Spec.Sp3.percentF, .float⟩ (by decide +kernel) _ _ hl]
  have hv : sliceAll Spec.Sp3.percentF line =
      [("base_posvel", fmtDec 7 h.basePos), ("base_clkrate", fmtDec 9 h.baseClk)] := by
    rw [hsl]; simp [Spec.Sp3.percentF, R]
  simp only [hv]
  have f1 : (meta3 h).any (·.1 = "base_posvel") = false :=
    meta3_fresh h _ (by decide +kernel) (by decide +kernel) (by decide)
  have f2 : (meta3 h ++ [("base_posvel", MVal.num (decVal 7 h.basePos))]).any (·.1 = "base_clkrate") = false := by
    rw [List.any_append, meta3_fresh h _ (by decide +kernel) (by decide +kernel) (by decide)]
    simp
  have hne : ¬ ("base_clkrate" = "base_posvel") := by decide
  simp only [parseFloatFields, mget_none _ _ f1, Option.isSome_none, Bool.false_eq_true, false_and, if_false,
    parseFloat_fmtDec, mset_new _ _ _ f1, hne, and_false, mset_new _ _ _ f2]
  simp [meta4, basePosVal, baseClkVal]

theorem percent_f_cont (h : Header) : headerLine specDefs (meta4 h) (rstrip percentFCont) = some (meta4 h) := by
  have hl : (rstrip percentFCont).take 2 = ['%', 'f'] := by decide +kernel
  rw [find_label _ ⟨"%f", Spec.Sp3.percentF, .float⟩ (by decide +kernel) _ _ hl]
  have : sliceAll Spec.Sp3.percentF (rstrip percentFCont) =
      [("base_posvel", "0.0000000".toList), ("base_clkrate", "0.000000000".toList)] := by decide +kernel
  have f1 : (meta3 h).any (·.1 = "base_posvel") = false :=
    meta3_fresh h _ (by decide +kernel) (by decide +kernel) (by decide)
  have hg : (mget (meta4 h) "base_posvel").isSome = true := by
    unfold meta4
    rw [mget_append_skip _ _ _ f1]
    rfl
  simp [this, parseFloatFields, hg]

/-- what `_parse_position` needs from the header -/
theorem meta4_lookup (h : Header) :
    mget (meta4 h) "version" = some (.str [h.version]) ∧
    mget (meta4 h) "base_posvel" = some (.num (basePosVal h)) ∧
    mget (meta4 h) "base_clkrate" = some (.num (baseClkVal h)) := by
  have f1 : (meta3 h).any (·.1 = "base_posvel") = false :=
    meta3_fresh h _ (by decide +kernel) (by decide +kernel) (by decide)
  have f2 : (meta3 h).any (·.1 = "base_clkrate") = false :=
    meta3_fresh h _ (by decide +kernel) (by decide +kernel) (by decide)
  refine ⟨?_, ?_, ?_⟩
  · simp [meta4, meta3, meta2, meta1, mget, mstr]
  · unfold meta4; rw [mget_append_skip _ _ _ f1]; rfl
  · unfold meta4; rw [mget_append_skip _ _ _ f2]; rfl

/-- **the header lines build the header dictionary** — whatever ignorable lines follow -/
theorem header_fold (h : Header) (hwf : h.wf = true) (extra : List Str)
    (hextra : ∀ l ∈ extra, ∀ m, headerLine specDefs m l = some m) :
    ((headerLines h).map rstrip ++ extra).foldlM (headerLine specDefs) [] = some (expectedMeta h) := by
  simp only [Header.wf, Bool.and_eq_true, Bool.or_eq_true, beq_iff_eq, bne_iff_ne, decide_eq_true_eq] at hwf
  obtain ⟨⟨⟨⟨⟨⟨⟨⟨⟨hv, h1⟩, h2⟩, _⟩, _⟩, hft⟩, hcc⟩, hts⟩, hbp⟩, hbc⟩ := hwf
  have ign1 : ∀ l ∈ (h.satLines.map hdrOther).map rstrip, ∀ m, headerLine specDefs m l = some m := by
    intro l hl m
    simp only [List.map_map, List.mem_map, Function.comp] at hl
    obtain ⟨x, _, rfl⟩ := hl
    exact headerLine_other m x
  have ign2 : ∀ l ∈ (h.tailLines.map hdrOther).map rstrip ++ extra, ∀ m, headerLine specDefs m l = some m := by
    intro l hl m
    rcases List.mem_append.mp hl with hl | hl
    · simp only [List.map_map, List.mem_map, Function.comp] at hl
      obtain ⟨x, _, rfl⟩ := hl
      exact headerLine_other m x
    · exact hextra l hl m
  rw [← meta4_eq]
  simp only [headerLines, List.map_append, List.map_cons, List.append_assoc, List.cons_append,
    List.nil_append, List.foldlM_cons, List.foldlM_append, Option.bind_eq_bind]
  rw [first_line h hv h1]
  simp only [Option.bind_some]
  rw [second_line h h2]
  simp only [Option.bind_some]
  rw [fold_ignored _ ign1]
  simp only [Option.bind_some]
  rw [percent_c_line h hft hts hcc]
  simp only [Option.bind_some]
  rw [percent_c_cont]
  simp only [Option.bind_some]
  rw [percent_f_line h hbp hbc]
  simp only [Option.bind_some]
  rw [percent_f_cont]
  simp only [Option.bind_some]
  have := fold_ignored _ ign2 (meta4 h)
  simpa [List.foldlM_append] using this


/-! ### a position record line -/

theorem rstrip_posLine (r : PosRec) : rstrip (posLine r) = rstrip (posFull r) := by
  unfold posLine
  split
  · rfl
  · exact rstrip_idem _

theorem head_posLine (r : PosRec) : (rstrip (posLine r)).take 1 = ['P'] := by
  rw [rstrip_posLine]
  exact head_rstrip (by decide)

theorem noAcc_wf : noAcc.wf = true := by decide

theorem acc_wf_of (r : PosRec) (hr : r.wf = true) : (r.acc.getD noAcc).wf = true := by
  simp only [PosRec.wf, Bool.and_eq_true] at hr
  cases ha : r.acc with
  | none => exact noAcc_wf
  | some a =>
    have := hr.1.2
    rw [ha] at this
    simpa using this

theorem length_f14 {n : Int} (h : okF14 n = true) : (fmtDec 6 n).length ≤ 14 := by
  simp only [okF14, Bool.and_eq_true, decide_eq_true_eq] at h
  by_cases hn : n < 0
  · have := length_fmtDec_le 6 6 n (by decide) (by omega)
    simp only [hn, if_true] at this
    omega
  · have := length_fmtDec_le 6 7 n (by decide) (by omega)
    simp only [hn, if_false] at this
    omega

theorem clean_codeText (c : Option Nat) : Clean (codeText c) = true := by
  cases c with
  | none => rfl
  | some k => exact clean_of_numChars (numChars_natDigits k)

theorem length_codeText {w : Nat} (hw : 0 < w) {c : Option Nat} (h : okCode w c = true) : (codeText c).length ≤ w := by
  cases c with
  | none => simp [codeText]
  | some k =>
    simp only [okCode, decide_eq_true_eq] at h
    exact natDigits_len_le w k hw h

/-- the texts in the thirteen fields of a position record -/
def posTexts (r : PosRec) : List Str :=
  let a := r.acc.getD noAcc
  [r.sat, fmtDec 6 r.x, fmtDec 6 r.y, fmtDec 6 r.z, fmtDec 6 r.clk, codeText a.sx, codeText a.sy, codeText a.sz,
   codeText a.sclk] ++ a.flags

theorem posCells_texts (r : PosRec) : (posCells r).map (·.2) = posTexts r := by
  simp [posCells, posTexts, Lft, R, List.map_map, Function.comp_def]

theorem fits_posCells (r : PosRec) (hr : r.wf = true) : Fits Spec.Sp3.recP (posCells r) = true := by
  have ha := acc_wf_of r hr
  simp only [PosRec.wf, Bool.and_eq_true, okCell, decide_eq_true_eq] at hr
  obtain ⟨⟨⟨⟨⟨⟨⟨⟨_, hsc⟩, hsl⟩, hx⟩, hy⟩, hz⟩, hc⟩, _⟩, _⟩ := hr
  simp only [Acc.wf, Bool.and_eq_true] at ha
  obtain ⟨⟨⟨⟨h1, h2⟩, h3⟩, h4⟩, hfl⟩ := ha
  have hflags := okCells_fits Lft (fun _ => rfl) (Spec.Sp3.recP.drop 9) (r.acc.getD noAcc).flags hfl
  unfold Spec.Sp3.recP at hflags ⊢
  simp only [List.drop_succ_cons, List.drop_zero] at hflags
  simp only [posCells, Lft, R, List.cons_append, List.nil_append, Fits, Field.width, Bool.and_eq_true]
  refine ⟨⟨decide_eq_true hsl, hsc⟩, ⟨decide_eq_true (length_f14 hx), clean_of_numChars (fmtDec_noSpace _ _)⟩,
    ⟨decide_eq_true (length_f14 hy), clean_of_numChars (fmtDec_noSpace _ _)⟩,
    ⟨decide_eq_true (length_f14 hz), clean_of_numChars (fmtDec_noSpace _ _)⟩,
    ⟨decide_eq_true (length_f14 hc), clean_of_numChars (fmtDec_noSpace _ _)⟩,
    ⟨decide_eq_true (length_codeText (by decide) h1), clean_codeText _⟩,
    ⟨decide_eq_true (length_codeText (by decide) h2), clean_codeText _⟩,
    ⟨decide_eq_true (length_codeText (by decide) h3), clean_codeText _⟩,
    ⟨decide_eq_true (length_codeText (by decide) h4), clean_codeText _⟩, hflags⟩

/-- **the field dictionary of a rendered position record** -/
theorem pos_fields (r : PosRec) (hr : r.wf = true) :
    sliceAll Spec.Sp3.recP (rstrip (posLine r)) = (Spec.Sp3.recP.map (·.name)).zip (posTexts r) := by
  rw [rstrip_posLine, ← posCells_texts]
  have := sliceAll_labelled Spec.Sp3.recP 1 (posCells r) ['P'] [] (by decide +kernel) (fits_posCells r hr) rfl
  simpa [posFull] using this


/-! ### no rendered line contains a line break -/

def NoNl (s : Str) : Prop := ∀ c ∈ s, c ≠ '\n'

theorem nonl_nil : NoNl [] := fun _ h => by simp at h

theorem nonl_append {a b : Str} (ha : NoNl a) (hb : NoNl b) : NoNl (a ++ b) := by
  intro c hc
  rcases List.mem_append.mp hc with h | h
  · exact ha c h
  · exact hb c h

theorem nonl_cons {c : Char} {s : Str} (hc : c ≠ '\n') (hs : NoNl s) : NoNl (c :: s) := by
  intro d hd
  rcases List.mem_cons.mp hd with h | h
  · exact h ▸ hc
  · exact hs d h

theorem nonl_blanks (n : Nat) : NoNl (blanks n) := by
  intro c hc
  have : c = ' ' := by simpa [blanks] using (List.mem_replicate.mp hc).2
  rw [this]; decide

theorem nonl_okText {s : Str} (h : okText s = true) : NoNl s := by
  intro c hc e
  simp only [okText, List.all_eq_true, Bool.and_eq_true, decide_eq_true_eq] at h
  have := (h c hc).1
  rw [e] at this
  revert this; decide

theorem nonl_numChars {s : Str} (h : ∀ c ∈ s, isNumChar c = true) : NoNl s :=
  fun c hc => isNumChar_ne_nl (h c hc)

theorem nonl_rstrip {s : Str} (h : NoNl s) : NoNl (rstrip s) := by
  obtain ⟨ws, hs, _⟩ := rstrip_decomp s
  intro c hc
  exact h c (by rw [hs]; exact List.mem_append_left _ hc)

theorem nonl_pad (a : Align) (w : Nat) {v : Str} (h : NoNl v) : NoNl (pad a w v) := by
  cases a
  · exact nonl_append h (nonl_blanks _)
  · exact nonl_append (nonl_blanks _) h

theorem nonl_renderFrom (L : Layout) : ∀ (pos : Nat) (cells : List (Align × Str)),
    (∀ cell ∈ cells, NoNl cell.2) → NoNl (renderFrom pos L cells) := by
  induction L with
  | nil => intro pos cells _; cases cells <;> exact nonl_nil
  | cons f L ih =>
    intro pos cells h
    cases cells with
    | nil => exact nonl_nil
    | cons c cs =>
      obtain ⟨a, v⟩ := c
      simp only [renderFrom]
      exact nonl_append (nonl_append (nonl_blanks _) (nonl_pad a _ (h (a, v) (by simp))))
        (ih _ cs (fun cell hc => h cell (by simp [hc])))

theorem okCells_okText : ∀ (ws : List Nat) (ss : List Str), okCells ws ss = true → ∀ s ∈ ss, okText s = true
  | [], [], _ => fun _ h => by simp at h
  | [], _ :: _, h => by simp [okCells] at h
  | _ :: _, [], h => by simp [okCells] at h
  | w :: ws, s :: ss, h => by
    simp only [okCells, okCell, Bool.and_eq_true] at h
    intro t ht
    rcases List.mem_cons.mp ht with e | e
    · exact e ▸ h.1.1.1
    · exact okCells_okText ws ss h.2 t e

theorem nonl_codeText (c : Option Nat) : NoNl (codeText c) := by
  cases c with
  | none => exact nonl_nil
  | some k => exact nonl_numChars (numChars_natDigits k)

theorem nonl_hdrOther (x : HdrKind × Str) (h : okText x.2 = true) : NoNl (hdrOther x) := by
  obtain ⟨k, t⟩ := x
  have ht : NoNl k.tag := by cases k <;> (intro c hc; revert hc; revert c; decide)
  exact nonl_append ht (nonl_okText h)

theorem nonl_extraLine (x : ExtraKind × Str) (h : okText x.2 = true) : NoNl (extraLine x) := by
  obtain ⟨k, t⟩ := x
  have ht : NoNl k.tag := by cases k <;> (intro c hc; revert hc; revert c; decide)
  exact nonl_append ht (nonl_okText h)

theorem nonl_fmtInt (i : Int) : NoNl (fmtInt i) := nonl_numChars (fun _ hc => mem_fmtInt hc)
theorem nonl_fmtDec (p : Nat) (n : Int) : NoNl (fmtDec p n) := nonl_numChars (fmtDec_noSpace p n)

theorem nonl_rjust (w : Nat) {s : Str} (h : NoNl s) : NoNl (rjust w s) := nonl_append (nonl_blanks _) h

theorem nonl_epochLine (e : Epoch) : NoNl (epochLine e) := by
  unfold epochLine
  have sp : (' ' : Char) ≠ '\n' := by decide
  have st : ('*' : Char) ≠ '\n' := by decide
  refine nonl_append (nonl_append (nonl_append (nonl_append (nonl_append (nonl_append ?_ ?_) ?_) ?_) ?_) ?_) ?_
  · exact nonl_cons st (nonl_cons sp (nonl_cons sp nonl_nil))
  · exact nonl_rjust _ (nonl_fmtInt _)
  · exact nonl_cons sp (nonl_rjust _ (nonl_fmtInt _))
  · exact nonl_cons sp (nonl_rjust _ (nonl_fmtInt _))
  · exact nonl_cons sp (nonl_rjust _ (nonl_fmtInt _))
  · exact nonl_cons sp (nonl_rjust _ (nonl_fmtInt _))
  · exact nonl_cons sp (nonl_rjust _ (nonl_fmtDec _ _))

theorem nonl_posLine (r : PosRec) (hr : r.wf = true) : NoNl (posLine r) := by
  have ha := acc_wf_of r hr
  have hfull : NoNl (posFull r) := by
    simp only [PosRec.wf, Bool.and_eq_true, okCell] at hr
    simp only [Acc.wf, Bool.and_eq_true] at ha
    have hfl := okCells_okText _ _ ha.2
    refine nonl_cons (by decide) (nonl_renderFrom _ _ _ ?_)
    intro cell hc
    simp only [posCells, Lft, R, List.cons_append, List.nil_append, List.mem_cons, List.mem_map] at hc
    rcases hc with rfl | rfl | rfl | rfl | rfl | rfl | rfl | rfl | rfl | ⟨t, ht, rfl⟩
    · exact nonl_okText hr.1.1.1.1.1.1.1.1
    · exact nonl_fmtDec _ _
    · exact nonl_fmtDec _ _
    · exact nonl_fmtDec _ _
    · exact nonl_fmtDec _ _
    · exact nonl_codeText _
    · exact nonl_codeText _
    · exact nonl_codeText _
    · exact nonl_codeText _
    · exact nonl_okText (hfl t ht)
  unfold posLine
  split
  · exact hfull
  · exact nonl_rstrip hfull

theorem nonl_headerLines (h : Header) (hwf : h.wf = true) : ∀ l ∈ headerLines h, NoNl l := by
  simp only [Header.wf, Bool.and_eq_true, Bool.or_eq_true, beq_iff_eq, bne_iff_ne, decide_eq_true_eq, okCell] at hwf
  obtain ⟨⟨⟨⟨⟨⟨⟨⟨⟨hv, h1⟩, h2⟩, hsat⟩, htail⟩, hft⟩, _⟩, hts⟩, _⟩, _⟩ := hwf
  have k1 := okCells_okText _ _ h1
  have k2 := okCells_okText _ _ h2
  have hver : NoNl [h.version] := by
    rcases hv with e | e <;> rw [e] <;> (intro c hc; revert hc; revert c; decide)
  intro l hl
  simp only [headerLines, List.mem_append, List.mem_cons, List.mem_map, List.not_mem_nil, or_false] at hl
  rcases hl with (((rfl | rfl) | ⟨x, hx, rfl⟩) | (rfl | rfl | rfl | rfl)) | ⟨x, hx, rfl⟩
  · refine nonl_cons (by decide) (nonl_renderFrom _ _ _ ?_)
    intro cell hc
    simp only [Lft, R, List.mem_cons, List.mem_map] at hc
    rcases hc with rfl | ⟨t, ht, rfl⟩
    · exact hver
    · exact nonl_okText (k1 t ht)
  · refine nonl_cons (by decide) (nonl_cons (by decide) (nonl_renderFrom _ _ _ ?_))
    intro cell hc
    simp only [R, List.mem_map] at hc
    obtain ⟨t, ht, rfl⟩ := hc
    exact nonl_okText (k2 t ht)
  · exact nonl_hdrOther x (List.all_eq_true.mp hsat x hx)
  · refine nonl_append (nonl_cons (by decide) (nonl_cons (by decide) (nonl_renderFrom _ _ _ ?_))) ?_
    · intro cell hc
      simp only [Lft, List.mem_cons, List.not_mem_nil, or_false] at hc
      rcases hc with rfl | rfl | rfl
      · exact nonl_okText hft.1.1
      · intro c hc; revert hc; revert c; decide
      · exact nonl_okText hts.1.1
    · intro c hc; revert hc; revert c; decide +kernel
  · intro c hc; revert hc; revert c; decide +kernel
  · refine nonl_append (nonl_cons (by decide) (nonl_cons (by decide) (nonl_renderFrom _ _ _ ?_))) ?_
    · intro cell hc
      simp only [R, List.mem_cons, List.not_mem_nil, or_false] at hc
      rcases hc with rfl | rfl
      · exact nonl_fmtDec _ _
      · exact nonl_fmtDec _ _
    · intro c hc; revert hc; revert c; decide +kernel
  · intro c hc; revert hc; revert c; decide +kernel
  · exact nonl_hdrOther x (List.all_eq_true.mp htail x hx)

/-! ### lines of a block that are not position records -/

/-- no position record, no epoch line (possibly empty: the parser skips empty lines) -/
def Inert (l : Str) : Prop := l.take 1 ≠ ['P'] ∧ ¬ Star l

theorem inert_of_head {c : Char} {t : Str} (h : isSpace c = false) (hp : c ≠ 'P') (hs : c ≠ '*') :
    Inert (rstrip (c :: t)) := by
  rw [rstrip_cons t h]
  refine ⟨by simp [hp], ?_⟩
  unfold Star
  simp [hs]

theorem inert_nil : Inert [] := ⟨by decide, by unfold Star; decide⟩

theorem okExtra_okText {x : ExtraKind × Str} (h : okExtra x = true) : okText x.2 = true := by
  simp only [okExtra, Bool.and_eq_true] at h
  exact h.1

/-- a line of blanks is empty after `rstrip` -/
theorem rstrip_allBlank (t : Str) (h : t.all (· == ' ') = true) : rstrip t = [] := by
  unfold rstrip
  have hall : ∀ l : Str, (∀ c ∈ l, c = ' ') → l.dropWhile isSpace = [] := by
    intro l
    induction l with
    | nil => intro _; rfl
    | cons c cs ih =>
      intro hl
      have hc : c = ' ' := hl c (by simp)
      subst hc
      have hs : isSpace ' ' = true := by decide
      simp only [List.dropWhile_cons, hs, if_true]
      exact ih (fun d hd => hl d (by simp [hd]))
  have : t.reverse.dropWhile isSpace = [] := by
    apply hall
    intro c hc
    have hc' := List.all_eq_true.mp h c (List.mem_reverse.mp hc)
    simpa using hc'
  rw [this]
  rfl

/-- what is left of a blank line of a well-formed record -/
theorem rstrip_blankLine (t : Str) (h : okExtra (ExtraKind.blank, t) = true) : rstrip (extraLine (ExtraKind.blank, t)) = [] := by
  simp only [okExtra, Bool.and_eq_true] at h
  simpa [extraLine, ExtraKind.tag] using rstrip_allBlank t h.2

theorem inert_extra (x : ExtraKind × Str) (hx : okExtra x = true) : Inert (rstrip (extraLine x)) := by
  obtain ⟨k, t⟩ := x
  cases k
  · exact inert_of_head (t := t) (c := 'V') (by decide) (by decide) (by decide)
  · exact inert_of_head (t := 'P' :: t) (c := 'E') (by decide) (by decide) (by decide)
  · exact inert_of_head (t := 'V' :: t) (c := 'E') (by decide) (by decide) (by decide)
  · rw [rstrip_blankLine t hx]
    exact inert_nil

theorem inert_eof : Inert (rstrip eofLine) :=
  inert_of_head (t := ['O', 'F']) (c := 'E') (by decide) (by decide) (by decide)

theorem not_star_posLine (r : PosRec) : ¬ Star (rstrip (posLine r)) := by
  unfold Star
  rw [head_posLine]
  decide

end Midgard.Spec.Sp3File
