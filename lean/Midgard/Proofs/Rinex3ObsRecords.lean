/-
Record-level round trips of RINEX observation files (header records with their label, RINEX 3 observation
records) — the lemmas the record theorems of `Props/C11.lean` restate and the file-level proof
(`Proofs/Rinex3ObsFile.lean`) builds on.  Core Lean only.
-/
import Midgard.Model.Rinex3Obs
import Midgard.Spec.Rinex
import Midgard.Proofs.ChainParser
import Midgard.Proofs.RinexObs

namespace Midgard.RinexObs.Records
open Midgard.Text Midgard.FixedCol Midgard.ChainParser Midgard.RinexObs Midgard.Decimal
open Midgard.Spec.Rinex (RecSpec headerSpecs renderLabelled renderCells findLabel epoch3 epoch2 epoch2c obs3 obs2 obsLayout obsTriple)

/-! ### Header records: fixed columns + label -/

def specOk (sp : RecSpec) : Bool :=
  Sorted sp.layout && Within 60 sp.layout && decide (sp.aligns.length = sp.layout.length) &&
  Clean sp.label.toList && !sp.label.toList.isEmpty

theorem specs_ok : headerSpecs.all specOk = true := by decide +kernel

theorem zip_snd {α β} : ∀ (as : List α) (bs : List β), as.length = bs.length → (as.zip bs).map (·.2) = bs
  | [], [], _ => rfl
  | a :: as, b :: bs, h => by simp [zip_snd as bs (by simpa using h)]
  | [], _ :: _, h => by simp at h
  | _ :: _, [], h => by simp at h

/-- **Header record round trip.**  Every header record kind of RINEX 3.04 / 2.11 (including the
continuation-line kinds of the observation-type lists with 13 resp. 9 types per line, the phase-shift
satellite list and the GLONASS slot list) whose cells fit their columns is read back cell by cell from
the right-stripped rendered line, and the header label function returns its label. -/
theorem header_record_roundtrip (sp : RecSpec) (hsp : sp ∈ headerSpecs) (cells : List Str)
    (hlen : cells.length = sp.layout.length) (hf : Fits sp.layout (sp.aligns.zip cells) = true) :
    sp.layout.map (fun f => slice f (rstrip (renderLabelled sp cells))) = cells ∧
    asString (strip (sliceFrom 60 (rstrip (renderLabelled sp cells)))) = sp.label := by
  have hok := List.all_eq_true.mp specs_ok sp hsp
  simp only [specOk, Bool.and_eq_true, decide_eq_true_eq, Bool.not_eq_eq_eq_not, Bool.not_true] at hok
  obtain ⟨⟨⟨⟨hs, hw⟩, hal⟩, hc⟩, hne⟩ := hok
  have hne' : sp.label.toList ≠ [] := by
    intro h; rw [h] at hne; simp at hne
  have hfields := labelled_fields sp.layout (sp.aligns.zip cells) sp.label.toList hs hf
  rw [zip_snd _ _ (by omega)] at hfields
  have hlab := labelled_label sp.layout (sp.aligns.zip cells) sp.label.toList hs hf hw hc hne'
  refine ⟨hfields, ?_⟩
  unfold renderLabelled renderCells
  rw [hlab, strip_of_clean hc]
  simp [asString]

/-! ### Observation records: value, LLI and SNR of the k-th 16-character column -/

def obs3Ok (n : Nat) : Bool :=
  Sorted (obs3 n).layout && decide ((obs3 n).aligns.length = 1 + 3 * n) && decide ((obs3 n).layout.length = 1 + 3 * n)

theorem obs3_ok : (List.range 41).all obs3Ok = true := by decide +kernel

/-- the three texts the parser cuts out of observation field `k` are the standard's value / LLI / SNR columns -/
theorem triple_slices (line : Str) (n k : Nat) :
    let f := Midgard.Rinex3Obs.obsField (ljust (16 * n) (sliceFrom 3 line)) k
    [strip (Text.slice 0 14 f), strip (Text.slice 14 15 f), strip (Text.slice 15 16 f)] =
      (obsTriple k (3 + 16 * k)).map (fun g => FixedCol.slice g line) := by
  simp only [Midgard.Rinex3Obs.obsField, obsTriple, List.map_cons, List.map_nil, FixedCol.slice, sliceRaw, sliceFrom]
  rw [slice_slice, slice_slice, slice_slice, strip_slice_ljust, strip_slice_ljust, strip_slice_ljust,
    slice_drop, slice_drop, slice_drop]
  have e1 : min (16 * k + 14) (16 * k + 16) + 3 = 3 + 16 * k + 14 := by omega
  have e2 : min (16 * k + 15) (16 * k + 16) + 3 = 3 + 16 * k + 15 := by omega
  have e3 : min (16 * k + 16) (16 * k + 16) + 3 = 3 + 16 * k + 16 := by omega
  have e4 : 16 * k + 0 + 3 = 3 + 16 * k := by omega
  have e5 : 16 * k + 14 + 3 = 3 + 16 * k + 14 := by omega
  have e6 : 16 * k + 15 + 3 = 3 + 16 * k + 15 := by omega
  rw [e1, e2, e3, e4, e5, e6]

theorem obs_record (n : Nat) (hn : n ≤ 40) (sat : Str) (cells : List Str) (hlen : cells.length = 3 * n)
    (hf : Fits (obs3 n).layout ((obs3 n).aligns.zip (sat :: cells)) = true) :
    (Midgard.Rinex3Obs.obsTriples n (sliceFrom 3 (rstrip (renderCells (obs3 n) (sat :: cells))))).flatMap
        (fun t => [strip t.1, strip t.2.1, strip t.2.2]) = cells ∧
    strip (Text.slice 0 3 (rstrip (renderCells (obs3 n) (sat :: cells)))) = sat := by
  have hok := List.all_eq_true.mp obs3_ok n (List.mem_range.mpr (by omega))
  simp only [obs3Ok, Bool.and_eq_true, decide_eq_true_eq] at hok
  obtain ⟨⟨hs, hal⟩, hll⟩ := hok
  have hall := slice_renderA_rstrip (obs3 n).layout ((obs3 n).aligns.zip (sat :: cells)) hs hf
  rw [zip_snd _ _ (by simp [hal, hlen]; omega)] at hall
  unfold renderCells
  generalize rstrip (renderA (obs3 n).layout ((obs3 n).aligns.zip (sat :: cells))) = line at hall ⊢
  have hlay : (obs3 n).layout = ⟨"sat", 0, 3⟩ :: obsLayout 3 n := rfl
  rw [hlay, List.map_cons, List.cons.injEq] at hall
  obtain ⟨hsat, hcells⟩ := hall
  refine ⟨?_, hsat⟩
  rw [← hcells]
  unfold Midgard.Rinex3Obs.obsTriples obsLayout
  rw [List.flatMap_map, List.map_flatMap]
  congr 1
  funext k
  exact triple_slices line n k


/-- with `_float` on top: the parsed (value, LLI, SNR) of every observation type are `_float` of the
printed cells — blank or zero cells are absent, trailing blanks of the line may be stripped, a line
may end after the last non-blank field -/
theorem obs_record_values (n : Nat) (hn : n ≤ 40) (sat : Str) (cells : List Str) (hlen : cells.length = 3 * n)
    (hf : Fits (obs3 n).layout ((obs3 n).aligns.zip (sat :: cells)) = true) :
    (Midgard.Rinex3Obs.obsTriples n (sliceFrom 3 (rstrip (renderCells (obs3 n) (sat :: cells))))).flatMap
        (fun t => [floatOpt t.1, floatOpt t.2.1, floatOpt t.2.2]) = cells.map floatOpt := by
  have h := (obs_record n hn sat cells hlen hf).1
  have h2 := congrArg (List.map floatOpt) h
  rw [← h2, List.map_flatMap]
  congr 1
  funext t
  simp [floatOpt_strip]

end Midgard.RinexObs.Records
