/-
C17 — what the reader of a written cell gets back, for every kind of value (helper of Props/C17):
numbers through `parse_fmtFixed` (Proofs/FmtFixed.lean), integers through `parseInt_fmtInt`, text by
stripping.  Also the exact admission condition of a numeric cell (`fitsCell_num_iff`).
-/
import Midgard.Proofs.Writers
import Midgard.Proofs.FmtFixed

namespace Midgard.Writers
open Midgard.Text Midgard.Decimal Midgard.FixedCol Midgard.WriterCells

/-- `float(text)` and `int(text)` only look at the stripped text -/
theorem parseFloat_congr_strip {s t : Str} (h : strip s = strip t) : parseFloat s = parseFloat t := by
  unfold parseFloat parseDecimalWith; rw [h]

theorem parseInt_congr_strip {s t : Str} (h : strip s = strip t) : parseInt? s = parseInt? t := by
  unfold parseInt?; rw [h]

theorem strip_strip_pad (a : Align) (w : Nat) {v : Str} (hv : Clean v = true) : strip (pad a w v) = strip v := by
  rw [strip_pad_cell a w hv, strip_of_clean hv]

/-- what reading a cell back means, per kind of value: a number comes back rounded to the printed
decimals (within half a unit of the last digit, exactly when it has no more decimals than printed), an
integer exactly, `nan` as the text `nan`, `-0.0` as zero, text as itself (if it has no outer blanks) -/
def ReadsBack (spec : Spec) (v : Value) (text : Str) : Prop :=
  match v with
  | .num q => ∃ x, parseFloat text = some x ∧ |x - q| ≤ 1 / 2 / (10 : Rat) ^ (spec.prec.getD 6) ∧
      ∀ z : Int, q * (10 : Rat) ^ (spec.prec.getD 6) = (z : Rat) → x = q
  | .int i => parseInt? text = some i
  | .negz => parseFloat text = some 0
  | .nan => strip text = "nan".toList
  | .str _ => Clean (v.text spec) = true → strip text = v.text spec

theorem parseFloat_negz (p : Nat) : parseFloat ('-' :: fmtFixedCore 0 p) = some 0 := by
  have hq : ¬ ((0 : Rat) < 0) := lt_irrefl 0
  have hs : fixedScaled 0 p = 0 := by
    unfold fixedScaled
    rw [if_neg hq]
    have : (0 : Rat) * pow10 p = ((0 : Int) : Rat) := by simp
    rw [this, rhe_int]; rfl
  have hcore : fmtFixedCore 0 p = fixedBody p 0 := by
    rw [fmtFixedCore_eq, if_neg hq, hs]; rfl
  rw [hcore]
  obtain ⟨ds, hm, hv⟩ := parseMantissa_fixedBody p 0
  have h := parseFloat_body true (fixedBody p 0) ds p hm (fixedBody_chars _ _) (fixedBody_head _ _)
  rw [hv] at h
  simpa using h

theorem clean_negz (p : Nat) : Clean ('-' :: fmtFixedCore 0 p) = true := by
  apply clean_of_no_space
  intro c hc
  rcases List.mem_cons.mp hc with h | h
  · subst h; decide
  · exact no_space_fmtFixedCore 0 p c h

/-- **every formatted cell reads back**, whatever its alignment and width (also when it overflows) -/
theorem readsBack_fmtValue (spec : Spec) (v : Value) : ReadsBack spec v (fmtValue spec v) := by
  unfold fmtValue
  cases v with
  | num q =>
    obtain ⟨x, hx, hb, he⟩ := parse_fmtFixedCore q (spec.prec.getD 6)
    refine ⟨x, ?_, hb, he⟩
    rw [← hx]
    exact parseFloat_congr_strip (strip_strip_pad _ _ (clean_fmtFixedCore q _))
  | int i =>
    show parseInt? _ = some i
    rw [← parseInt_fmtInt i]
    exact parseInt_congr_strip (strip_strip_pad _ _ (clean_of_no_space (no_space_fmtInt i)))
  | negz =>
    show parseFloat _ = some 0
    rw [← parseFloat_negz (spec.prec.getD 6)]
    exact parseFloat_congr_strip (strip_strip_pad _ _ (clean_negz _))
  | nan =>
    show strip _ = _
    exact strip_pad_cell _ _ (show Clean "nan".toList = true by decide)
  | str s =>
    intro hc
    exact strip_pad_cell _ _ hc

/-! ### all cells of a line -/

theorem cellTexts_eq_map (cells : List Cell) : ∀ (vals : List Value), allFit cells vals = true →
    cellTexts cells vals = (cellValues cells vals).map fun sv => fmtValue sv.1 sv.2 := by
  induction cells with
  | nil => intro vals _; rfl
  | cons c cs ih =>
    intro vals h
    cases c with
    | lit t => simp only [allFit] at h; simpa [cellTexts, cellValues] using ih vals h
    | other n => simp [allFit] at h
    | fld n spec =>
      cases vals with
      | nil => simp [allFit] at h
      | cons v vs =>
        simp only [allFit, Bool.and_eq_true] at h
        simp only [cellTexts, cellValues, List.map_cons, List.cons.injEq, true_and]
        exact ih vs h.2

theorem zip_of_map_eq {α β γ} (f : α → γ) (g : β → γ) : ∀ (l1 : List α) (l2 : List β), l1.map f = l2.map g →
    l1.length = l2.length ∧ ∀ p ∈ l1.zip l2, f p.1 = g p.2 := by
  intro l1
  induction l1 with
  | nil =>
    intro l2 h
    cases l2 with
    | nil => exact ⟨rfl, by simp⟩
    | cons b l2 => simp at h
  | cons a l1 ih =>
    intro l2 h
    cases l2 with
    | nil => simp at h
    | cons b l2 =>
      simp only [List.map_cons, List.cons.injEq] at h
      obtain ⟨hl, hz⟩ := ih l2 h.2
      refine ⟨by simp [hl], ?_⟩
      intro p hp
      simp only [List.zip_cons_cons, List.mem_cons] at hp
      rcases hp with rfl | hp
      · exact h.1
      · exact hz p hp

/-- **read-back of every cell of a rendered line at its nominal columns** -/
theorem readback_values_aux (cells : List Cell) (vals : List Value) (h : allFit cells vals = true) :
    ∃ line, renderCells cells vals = some line ∧ (nominal cells).length = (cellValues cells vals).length ∧
      ∀ p ∈ (nominal cells).zip (cellValues cells vals),
        ReadsBack p.2.1 p.2.2 (Text.slice p.1.2.1 p.1.2.2 line) := by
  obtain ⟨line, h1, _, h3⟩ := fields_in_columns_aux cells vals h
  rw [cellTexts_eq_map cells vals h] at h3
  obtain ⟨hl, hz⟩ := zip_of_map_eq _ _ _ _ h3
  refine ⟨line, h1, hl, ?_⟩
  intro p hp
  rw [hz p hp]
  exact readsBack_fmtValue p.2.1 p.2.2

/-! ### when does a number fit its cell -/

/-- **exact admission condition of a numeric cell** `{:w.pf}` (with room for one integer digit): the value
fits iff `|q|·10^p < 10^(w − s − d + p) − 1/2`, `s` the sign column, `d` the point and decimals -/
theorem fitsCell_num_iff (spec : Spec) (q : Rat)
    (hw : (if q < 0 then 1 else 0) + (if spec.prec.getD 6 = 0 then 0 else spec.prec.getD 6 + 1) < spec.width) :
    fitsCell spec (.num q) = true ↔
      |q| * pow10 (spec.prec.getD 6) <
        (10 : Rat) ^ (spec.width - (if q < 0 then 1 else 0) - (if spec.prec.getD 6 = 0 then 0 else spec.prec.getD 6 + 1)
          + spec.prec.getD 6) - 1 / 2 := by
  rw [← fmtFixed_width q spec.width (spec.prec.getD 6) hw, length_fmtFixed_eq_iff]
  unfold fitsCell
  simp only [Value.text]
  exact decide_eq_true_iff

/-- a cell with room (`Spec.hasRoom`) admits every value of either sign below the bound computed with the
sign column reserved -/
theorem fitsCell_of_abs_lt (spec : Spec) (q : Rat) (hroom : spec.hasRoom = true)
    (h : |q| * pow10 (spec.prec.getD 6) <
      (10 : Rat) ^ (spec.width - 1 - (if spec.prec.getD 6 = 0 then 0 else spec.prec.getD 6 + 1) + spec.prec.getD 6) - 1 / 2) :
    fitsCell spec (.num q) = true := by
  simp only [Spec.hasRoom, decide_eq_true_eq] at hroom
  have hs : (if q < 0 then 1 else 0) ≤ 1 := by split <;> omega
  rw [fitsCell_num_iff spec q (by omega)]
  refine lt_of_lt_of_le h ?_
  apply sub_le_sub_right
  apply pow_le_pow_right₀ (by norm_num)
  omega

end Midgard.Writers
