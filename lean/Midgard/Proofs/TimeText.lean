/-
Lemmas for the text formats of C02 (`Model/TimeText.lean`): the `strptime` directives read back what
`strftime` printed, day-of-year range, validity of a printed civil date.
-/
import Midgard.Model.TimeText
import Midgard.Proofs.FmtFixed
import Midgard.Proofs.Calendar

namespace Midgard.TimeFormat
open Midgard.Text
open Midgard.Decimal hiding roundHalfEven

/-! ### directives on digit strings -/

/-- the text does not go on with a digit -/
def NoDigitHead (s : Str) : Prop := ∀ c r, s = c :: r → isDigit c = false

theorem noDigitHead_nil : NoDigitHead [] := by intro c r h; cases h

theorem noDigitHead_cons {c : Char} (h : isDigit c = false) (r : Str) : NoDigitHead (c :: r) := by
  intro d r' e; cases e; exact h

theorem takeDigits_append (ds : Str) : ∀ (rest : Str) (k : Nat), allDigits ds = true → ds.length ≤ k →
    (ds.length = k ∨ NoDigitHead rest) → takeDigits k (ds ++ rest) = (ds, rest) := by
  induction ds with
  | nil =>
    intro rest k _ _ hstop
    cases k with
    | zero => rfl
    | succ k =>
      rcases hstop with h | h
      · simp at h
      · cases rest with
        | nil => rfl
        | cons c r =>
          have := h c r rfl
          simp [takeDigits, this]
  | cons d ds ih =>
    intro rest k hd hlen hstop
    cases k with
    | zero => simp at hlen
    | succ k =>
      have hdd : isDigit d = true := isDigit_of_mem hd (by simp)
      have hds : allDigits ds = true := by
        simp only [allDigits, List.all_cons, Bool.and_eq_true] at hd ⊢; exact hd.2
      have := ih rest k hds (by simpa using hlen) (by
        rcases hstop with h | h
        · left; simpa using h
        · right; exact h)
      simp [takeDigits, hdd, this]

theorem numDir_digits (minw maxw lo hi : Nat) (ds rest : Str) (hd : allDigits ds = true)
    (h1 : minw ≤ ds.length) (h2 : ds.length ≤ maxw) (hstop : ds.length = maxw ∨ NoDigitHead rest)
    (hlo : lo ≤ digitsVal ds) (hhi : digitsVal ds ≤ hi) :
    numDir minw maxw lo hi (ds ++ rest) = some ((digitsVal ds : Int), rest) := by
  unfold numDir
  rw [takeDigits_append ds rest maxw hd h2 hstop]
  simp [h1, hlo, hhi]

/-- a zero-padded field of the directive's full width reads back as its number -/
theorem zpad_eq (w : Nat) (n : Int) (hw : 0 < w) (h0 : 0 ≤ n) (hn : n < 10 ^ w) :
    zpad w n = fixedDigits w n.toNat := by
  unfold zpad
  apply fracDigits_eq_fixedDigits w _ hw
  have : ((n.toNat : Nat) : Int) < ((10 ^ w : Nat) : Int) := by
    rw [Int.toNat_of_nonneg h0]; push_cast; exact hn
  exact_mod_cast this

theorem numDir_zpad (w minw lo hi : Nat) (n : Int) (rest : Str) (hw : 0 < w) (hmin : minw ≤ w)
    (h0 : 0 ≤ n) (hn : n < 10 ^ w) (hlo : (lo : Int) ≤ n) (hhi : n ≤ (hi : Int)) :
    numDir minw w lo hi (zpad w n ++ rest) = some (n, rest) := by
  have hlt : n.toNat < 10 ^ w := by
    have : ((n.toNat : Nat) : Int) < ((10 ^ w : Nat) : Int) := by
      rw [Int.toNat_of_nonneg h0]; push_cast; exact hn
    exact_mod_cast this
  rw [zpad_eq w n hw h0 hn]
  have hv : digitsVal (fixedDigits w n.toNat) = n.toNat := by
    rw [digitsVal_fixedDigits, Nat.mod_eq_of_lt hlt]
  have := numDir_digits minw w lo hi (fixedDigits w n.toNat) rest (allDigits_fixedDigits _ _)
    (by rw [length_fixedDigits]; exact hmin) (by rw [length_fixedDigits])
    (Or.inl (length_fixedDigits _ _)) (by rw [hv]; omega) (by rw [hv]; omega)
  rw [this, hv, Int.toNat_of_nonneg h0]

/-- `%Y` reads back a year that prints with four digits -/
theorem numDir_year (y : Int) (rest : Str) (hlo : 1000 ≤ y) (hhi : y ≤ 9999) :
    numDir 4 4 0 9999 (fmtYear y ++ rest) = some (y, rest) := by
  unfold fmtYear
  have h0 : 0 ≤ y := by omega
  have hlen : (natDigits y.toNat).length = 4 :=
    length_natDigits_eq 3 y.toNat (by omega) (by omega)
  have := numDir_digits 4 4 0 9999 (natDigits y.toNat) rest (allDigits_natDigits' _)
    (by omega) (by omega) (Or.inl hlen) (by omega) (by rw [digitsVal_natDigits']; omega)
  rw [this, digitsVal_natDigits', Int.toNat_of_nonneg h0]

/-- `%Y` refuses a year that prints with fewer than four digits (glibc does not pad) -/
theorem numDir_year_short (y : Int) (c : Char) (rest : Str) (hy : y < 1000) (hc : isDigit c = false) :
    numDir 4 4 0 9999 (fmtYear y ++ c :: rest) = none := by
  unfold fmtYear numDir
  have hlen : (natDigits y.toNat).length ≤ 3 :=
    (length_natDigits_le_iff 3 y.toNat (by decide)).mpr (by omega)
  rw [takeDigits_append _ _ 4 (allDigits_natDigits' _) (by omega) (Or.inr (noDigitHead_cons hc rest))]
  have : ¬ (4 ≤ (natDigits y.toNat).length) := by omega
  simp [this]

@[simp] theorem litDir_cons (c : Char) (r : Str) : litDir c (c :: r) = some r := by simp [litDir]

theorem fracDir_six (n : Nat) : fracDir (fixedDigits 6 n) = some (((n % 10 ^ 6 : Nat) : Int), []) := by
  unfold fracDir
  have := takeDigits_append (fixedDigits 6 n) [] 6 (allDigits_fixedDigits _ _) (by rw [length_fixedDigits])
    (Or.inl (length_fixedDigits _ _))
  rw [List.append_nil] at this
  rw [this]
  simp [length_fixedDigits, digitsVal_fixedDigits]

/-- `str(n).zfill(w)` of a non-negative number is zero padding -/
theorem zfill_natDigits (w n : Nat) : zfill w (natDigits n) = fracDigits w n := by
  obtain ⟨c, r, h, hd⟩ := natDigits_head_digit n
  unfold zfill fracDigits
  rw [h]
  have := isDigit_not_sign hd
  simp [this.1, this.2.1]

/-! ### what is known about the fields of a datetime -/

/-- day of year of a valid month/day is 1…366 -/
theorem doy_range (y m d : Int) (hm1 : 1 ≤ m) (hm2 : m ≤ 12) (hd1 : 1 ≤ d) (hd2 : d ≤ 31) :
    1 ≤ dayOfYear y m d ∧ dayOfYear y m d ≤ 366 := by
  simp only [dayOfYear, daysFromCivil, daysFromCivil1970, doeOfCivil]
  interval_cases m <;> norm_num <;> omega

theorem div_split (D rem : Int) :
    (D * 86400000000 + rem) / 1000000 = D * 86400 + rem / 1000000 := by
  have : D * 86400000000 + rem = rem + 1000000 * (D * 86400) := by omega
  rw [this, Int.add_mul_ediv_left _ _ (by decide)]; omega

theorem secs_split (dt : Int) :
    dt / 86400000000 * 86400000000 + (dt - dt / 86400000000 * 86400000000) / 1000000 * 1000000
      = dt / 1000000 * 1000000 := by
  have h := div_split (dt / 86400000000) (dt - dt / 86400000000 * 86400000000)
  have e : dt / 86400000000 * 86400000000 + (dt - dt / 86400000000 * 86400000000) = dt := by omega
  rw [e] at h
  rw [h]
  omega

/-- everything the text proofs need to know about `x = fieldsOf dt` -/
structure FieldsSpec (dt : DateTime) (x : Fields) : Prop where
  hour : 0 ≤ x.hour ∧ x.hour < 24
  minute : 0 ≤ x.minute ∧ x.minute < 60
  second : 0 ≤ x.second ∧ x.second < 60
  micro : 0 ≤ x.micro ∧ x.micro < 1000000
  month : 1 ≤ x.month ∧ x.month ≤ 12
  day : 1 ≤ x.day ∧ x.day ≤ 31
  valid : civilFromDays (daysFromCivil x.year x.month x.day) = (x.year, x.month, x.day)
  days : daysFromCivil x.year x.month x.day = dt / usPerDay
  back : (ofFields x : Int) = (dt : Int)
  secs : daysFromCivil x.year x.month x.day * usPerDay + secOfDay x * usPerSec = dt / usPerSec * usPerSec
  sod : 0 ≤ secOfDay x ∧ secOfDay x < 86400

theorem fieldsSpec (dt : DateTime) : FieldsSpec dt (fieldsOf dt) := by
  have hd := daysFromCivil_civilFromDays (dt / 86400000000)
  have hc := days_civil (dt / 86400000000 + epoch2000)
  have hm : 1 ≤ (civilFromDays (dt / 86400000000)).2.1 ∧ (civilFromDays (dt / 86400000000)).2.1 ≤ 12 ∧
      1 ≤ (civilFromDays (dt / 86400000000)).2.2 ∧ (civilFromDays (dt / 86400000000)).2.2 ≤ 31 := by
    simpa only [civilFromDays] using hc.2
  have clock : ∀ rem : Int, 0 ≤ rem → rem < 86400000000 →
      (0 ≤ rem / 1000000 / 3600 ∧ rem / 1000000 / 3600 < 24) ∧
      (0 ≤ rem / 1000000 / 60 % 60 ∧ rem / 1000000 / 60 % 60 < 60) ∧
      (0 ≤ rem / 1000000 % 60 ∧ rem / 1000000 % 60 < 60) ∧
      (0 ≤ rem - rem / 1000000 * 1000000 ∧ rem - rem / 1000000 * 1000000 < 1000000) ∧
      (rem / 1000000 / 3600 * 60 + rem / 1000000 / 60 % 60) * 60 + rem / 1000000 % 60 = rem / 1000000 ∧
      (0 ≤ rem / 1000000 ∧ rem / 1000000 < 86400) := by
    intro rem h0 h1
    generalize hsecs : rem / 1000000 = secs
    have s0 : 0 ≤ secs := by omega
    have s1 : secs < 86400 := by omega
    refine ⟨by omega, by omega, by omega, by omega, by omega, by omega⟩
  have e0 := Int.emod_def dt 86400000000
  have r0 := Int.emod_nonneg dt (show (86400000000 : Int) ≠ 0 by decide)
  have r1 := Int.emod_lt_of_pos dt (show (0 : Int) < 86400000000 by decide)
  obtain ⟨c1, c2, c3, c4, c5, c6⟩ := clock (dt - dt / 86400000000 * 86400000000) (by omega) (by omega)
  constructor
  all_goals simp only [fieldsOf, ofFields, secOfDay, usPerDay, usPerSec]
  · exact c1
  · exact c2
  · exact c3
  · exact c4
  · exact ⟨hm.1, hm.2.1⟩
  · exact ⟨hm.2.2.1, hm.2.2.2⟩
  · rw [hd]
  · exact hd
  · rw [hd, c5]
    show (_ : Int) = _
    omega
  · rw [hd, c5]
    exact secs_split dt
  · rw [c5]; exact c6

/-! ### `strptime` reads what `strftime` printed -/

theorem ymdDir_render (x : Fields) (rest : Str) (hy : 1000 ≤ x.year ∧ x.year ≤ 9999)
    (hm : 1 ≤ x.month ∧ x.month ≤ 12) (hd : 1 ≤ x.day ∧ x.day ≤ 31) :
    ymdDir (renderYmd x ++ rest) = some (x.year, x.month, x.day, rest) := by
  unfold ymdDir renderYmd
  simp only [List.append_assoc, List.cons_append]
  rw [numDir_year _ _ hy.1 hy.2]
  simp only [Option.bind_some, litDir_cons]
  rw [numDir_zpad 2 1 1 12 x.month _ (by decide) (by decide) (by omega) (by omega) (by omega) (by omega)]
  simp only [Option.bind_some, litDir_cons]
  rw [numDir_zpad 2 1 1 31 x.day _ (by decide) (by decide) (by omega) (by omega) (by omega) (by omega)]
  simp only [Option.bind_some]

theorem hmsDir_render (x : Fields) (rest : Str) (hh : 0 ≤ x.hour ∧ x.hour < 24)
    (hm : 0 ≤ x.minute ∧ x.minute < 60) (hs : 0 ≤ x.second ∧ x.second < 60) :
    hmsDir (renderHms x ++ rest) = some (x.hour, x.minute, x.second, rest) := by
  unfold hmsDir renderHms
  simp only [List.append_assoc, List.cons_append]
  rw [numDir_zpad 2 1 0 23 x.hour _ (by decide) (by decide) (by omega) (by omega) (by omega) (by omega)]
  simp only [Option.bind_some, litDir_cons]
  rw [numDir_zpad 2 1 0 59 x.minute _ (by decide) (by decide) (by omega) (by omega) (by omega) (by omega)]
  simp only [Option.bind_some, litDir_cons]
  rw [numDir_zpad 2 1 0 61 x.second _ (by decide) (by decide) (by omega) (by omega) (by omega) (by omega)]
  simp only [Option.bind_some]

theorem optFracDir_render (us : Int) (h : 0 ≤ us ∧ us < 1000000) :
    optFracDir true ('.' :: zpad 6 us) = some (us, []) := by
  unfold optFracDir
  simp only [if_true, litDir_cons, Option.bind_some]
  rw [zpad_eq 6 us (by decide) h.1 (by omega), fracDir_six]
  have : us.toNat % 10 ^ 6 = us.toNat := Nat.mod_eq_of_lt (by omega)
  rw [this, Int.toNat_of_nonneg h.1]

theorem mkDateTime_fields {dt : DateTime} {x : Fields} (hx : FieldsSpec dt x) (hy : 1 ≤ x.year) :
    mkDateTime x.year x.month x.day x.hour x.minute x.second x.micro = some dt := by
  unfold mkDateTime
  have h59 : x.second ≤ 59 := by have := hx.second; omega
  rw [if_pos ⟨hy, hx.valid, h59⟩]
  have : (⟨x.year, x.month, x.day, x.hour, x.minute, x.second, x.micro⟩ : Fields) = x := by cases x; rfl
  rw [this, hx.back]

/-! ### `_str2dt`: splitting at the first `.` and normalising the fraction -/

/-- no `.` in the text -/
def NoPoint (s : Str) : Prop := ∀ c ∈ s, (decide (c ≠ '.')) = true

theorem noPoint_nil : NoPoint [] := by intro c hc; cases hc

theorem noPoint_append {a b : Str} (ha : NoPoint a) (hb : NoPoint b) : NoPoint (a ++ b) := by
  intro c hc
  rcases List.mem_append.mp hc with h | h
  · exact ha c h
  · exact hb c h

theorem noPoint_cons {c : Char} {s : Str} (hc : c ≠ '.') (hs : NoPoint s) : NoPoint (c :: s) := by
  intro d hd
  rcases List.mem_cons.mp hd with h | h
  · subst h; simpa using hc
  · exact hs d h

theorem noPoint_of_allDigits {s : Str} (h : allDigits s = true) : NoPoint s :=
  fun _ hc => ne_point_of_digit (isDigit_of_mem h hc)

theorem allDigits_zpad (w : Nat) (n : Int) : allDigits (zpad w n) = true := by
  unfold zpad fracDigits
  rw [allDigits_append, allDigits_replicate_zero, allDigits_natDigits']; rfl

theorem noPoint_zpad (w : Nat) (n : Int) : NoPoint (zpad w n) := noPoint_of_allDigits (allDigits_zpad w n)

theorem noPoint_fmtYear (y : Int) : NoPoint (fmtYear y) := noPoint_of_allDigits (allDigits_natDigits' _)

theorem noPoint_append_iff {a b : Str} : NoPoint (a ++ b) ↔ NoPoint a ∧ NoPoint b := by
  constructor
  · intro h
    exact ⟨fun c hc => h c (List.mem_append.mpr (Or.inl hc)), fun c hc => h c (List.mem_append.mpr (Or.inr hc))⟩
  · intro h; exact noPoint_append h.1 h.2

theorem noPoint_cons_iff {c : Char} {s : Str} : NoPoint (c :: s) ↔ c ≠ '.' ∧ NoPoint s := by
  constructor
  · intro h
    exact ⟨by simpa using h c (by simp), fun d hd => h d (List.mem_cons.mpr (Or.inr hd))⟩
  · intro h; exact noPoint_cons h.1 h.2

theorem noPoint_renderYmd (x : Fields) : NoPoint (renderYmd x) := by
  simp [renderYmd, noPoint_append_iff, noPoint_cons_iff, noPoint_zpad, noPoint_fmtYear]

theorem noPoint_renderHms (x : Fields) : NoPoint (renderHms x) := by
  simp [renderHms, noPoint_append_iff, noPoint_cons_iff, noPoint_zpad]

theorem natDigits_zero : natDigits 0 = ['0'] := by
  rw [natDigits_of_lt (by decide)]; decide

/-- `float("0." + ffffff)` -/
theorem parseFloat_zero_point (n : Nat) :
    parseFloat ('0' :: '.' :: fixedDigits 6 n) = some (((n % 10 ^ 6 : Nat) : Rat) / pow10 6) := by
  have hm := parseMantissa_point (a := ['0']) (b := fixedDigits 6 n) (by decide) (allDigits_fixedDigits _ _) (by simp)
  rw [length_fixedDigits] at hm
  have h := parseFloat_body false (['0'] ++ '.' :: fixedDigits 6 n) (['0'] ++ fixedDigits 6 n) 6 hm
    (by
      intro c hc
      simp only [List.singleton_append, List.mem_cons] at hc
      rcases hc with h | h | h
      · subst h; left; decide
      · right; exact h
      · left; exact isDigit_of_mem (allDigits_fixedDigits _ _) h)
    ⟨'0', '.' :: fixedDigits 6 n, rfl, by decide⟩
  have hv : digitsVal (['0'] ++ fixedDigits 6 n) = n % 10 ^ 6 := by
    rw [digitsVal_app, digitsVal_fixedDigits]
    have : digitsVal ['0'] = 0 := by decide
    rw [this]; omega
  rw [hv] at h
  simpa using h

/-- `f"{frac:8.6f}"[2:]` of a six-digit fraction gives the six digits back -/
theorem fmtFixed_frac (n : Nat) (h : n < 10 ^ 6) : (fmtFixed ((n : Rat) / pow10 6) 8 6).drop 2 = fixedDigits 6 n := by
  have hP := pow10_pos 6
  have hq : ¬ ((n : Rat) / pow10 6 < 0) := by
    have : (0 : Rat) ≤ (n : Rat) / pow10 6 := div_nonneg (by exact_mod_cast Nat.zero_le n) (le_of_lt hP)
    exact not_lt.mpr this
  have hs : fixedScaled ((n : Rat) / pow10 6) 6 = n := by
    unfold fixedScaled
    rw [if_neg hq]
    have e : (n : Rat) / pow10 6 * pow10 6 = ((n : Int) : Rat) := by
      push_cast; field_simp
    rw [e, rhe_int]; rfl
  have hcore : fmtFixedCore ((n : Rat) / pow10 6) 6 = '0' :: '.' :: fixedDigits 6 n := by
    rw [fmtFixedCore_eq, if_neg hq, hs]
    unfold fixedBody
    have : n / 10 ^ 6 = 0 := Nat.div_eq_of_lt h
    rw [this, natDigits_zero]; rfl
  unfold fmtFixed rjust
  rw [hcore]
  simp [length_fixedDigits, blanks]

theorem isEmpty_zpad (w : Nat) (n : Int) : (zpad w n).isEmpty = false := by
  unfold zpad fracDigits
  cases h : List.replicate (w - (natDigits n.toNat).length) '0' ++ natDigits n.toNat with
  | nil =>
    have := natDigits_ne_nil' n.toNat
    simp at h; exact absurd h.2 this
  | cons _ _ => rfl

/-- a text with the six-digit fraction `strftime` prints: `_str2dt` parses it with the full pattern, unchanged -/
theorem str2dt_frac (f : TextFmt) (main : Str) (us : Int) (hmain : NoPoint main)
    (h0 : 0 ≤ us) (h1 : us < 1000000) :
    str2dt f (main ++ '.' :: zpad 6 us) = strptime f true (main ++ '.' :: zpad 6 us) := by
  have hlt : us.toNat < 10 ^ 6 := by omega
  unfold str2dt
  have hpt : (decide ('.' ≠ '.')) = false := by decide
  rw [takeWhile_append_stop _ _ _ _ hmain hpt, dropWhile_append_stop _ _ _ _ hmain hpt]
  simp only [List.drop_succ_cons, List.drop_zero, isEmpty_zpad, Bool.false_eq_true, if_false]
  rw [zpad_eq 6 us (by decide) h0 (by omega), parseFloat_zero_point, Nat.mod_eq_of_lt hlt]
  simp only [fmtFixed_frac _ hlt]

/-- a text without `.` is parsed with the pattern cut at its `.` -/
theorem str2dt_nofrac (f : TextFmt) (s : Str) (h : NoPoint s) : str2dt f s = strptime f false s := by
  unfold str2dt
  rw [takeWhile_eq_self _ _ h, dropWhile_eq_nil _ _ h]
  simp

/-! ### parse ∘ render, per format -/

theorem parse_render_isot (dt : DateTime) (hy : 1000 ≤ (fieldsOf dt).year ∧ (fieldsOf dt).year ≤ 9999) :
    parse? .isot (render .isot dt) = some dt := by
  have hx := fieldsSpec dt
  simp only [parse?, render]
  generalize fieldsOf dt = x at hx hy
  have e : renderYmd x ++ 'T' :: renderHmsF x = (renderYmd x ++ 'T' :: renderHms x) ++ '.' :: zpad 6 x.micro := by
    simp [renderHmsF, List.append_assoc]
  rw [e, str2dt_frac _ _ _ (by simp [noPoint_append_iff, noPoint_cons_iff, noPoint_renderYmd, noPoint_renderHms])
    hx.micro.1 hx.micro.2]
  unfold strptime
  simp only [List.append_assoc, List.cons_append]
  rw [ymdDir_render x _ hy hx.month hx.day]
  simp only [Option.bind_some, if_true, litDir_cons]
  rw [hmsDir_render x _ hx.hour hx.minute hx.second]
  simp only [Option.bind_some]
  rw [optFracDir_render _ hx.micro]
  simp only [Option.bind_some, List.isEmpty_nil, if_true]
  exact mkDateTime_fields hx (by omega)

theorem wsDir_blank (r : Str) (hr : ∀ c r', r = c :: r' → isSpace c = false) :
    wsDir (' ' :: r) = some r := by
  unfold wsDir
  simp only [isSpace_blank, if_true]
  cases r with
  | nil => rfl
  | cons c r' => simp [hr c r' rfl]

theorem zpad_head_digit (w : Nat) (n : Int) : ∃ c r, zpad w n = c :: r ∧ isDigit c = true := by
  cases h : zpad w n with
  | nil => have := isEmpty_zpad w n; simp [h] at this
  | cons c r => exact ⟨c, r, rfl, isDigit_of_mem (h ▸ allDigits_zpad w n) (by simp)⟩

theorem parse_render_iso (dt : DateTime) (hy : 1000 ≤ (fieldsOf dt).year ∧ (fieldsOf dt).year ≤ 9999) :
    parse? .iso (render .iso dt) = some dt := by
  have hx := fieldsSpec dt
  simp only [parse?, render]
  generalize fieldsOf dt = x at hx hy
  have e : renderYmd x ++ ' ' :: renderHmsF x = (renderYmd x ++ ' ' :: renderHms x) ++ '.' :: zpad 6 x.micro := by
    simp [renderHmsF, List.append_assoc]
  rw [e, str2dt_frac _ _ _ (by simp [noPoint_append_iff, noPoint_cons_iff, noPoint_renderYmd, noPoint_renderHms])
    hx.micro.1 hx.micro.2]
  unfold strptime
  simp only [List.append_assoc, List.cons_append]
  rw [ymdDir_render x _ hy hx.month hx.day]
  have hws : wsDir (' ' :: (renderHms x ++ '.' :: zpad 6 x.micro)) = some (renderHms x ++ '.' :: zpad 6 x.micro) := by
    apply wsDir_blank _
    intro c r' hcr
    obtain ⟨d, r, hz, hd⟩ := zpad_head_digit 2 x.hour
    unfold renderHms at hcr
    rw [hz] at hcr
    simp only [List.append_assoc, List.cons_append, List.cons.injEq] at hcr
    rw [← hcr.1]; exact isSpace_of_isDigit hd
  simp only [Option.bind_some, reduceCtorEq, if_false, hws]
  rw [hmsDir_render x _ hx.hour hx.minute hx.second]
  simp only [Option.bind_some]
  rw [optFracDir_render _ hx.micro]
  simp only [Option.bind_some, List.isEmpty_nil, if_true]
  exact mkDateTime_fields hx (by omega)

theorem parse_render_date (dt : DateTime) (hy : 1000 ≤ (fieldsOf dt).year ∧ (fieldsOf dt).year ≤ 9999) :
    parse? .date (render .date dt) = some (dt / usPerDay * usPerDay) := by
  have hx := fieldsSpec dt
  simp only [parse?, render]
  generalize fieldsOf dt = x at hx hy
  rw [str2dt_nofrac _ _ (noPoint_renderYmd x)]
  unfold strptime
  have := ymdDir_render x [] hy hx.month hx.day
  rw [List.append_nil] at this
  rw [this]
  simp only [Option.bind_some, List.isEmpty_nil, if_true]
  unfold mkDateTime
  rw [if_pos ⟨by omega, hx.valid, by decide⟩]
  simp only [ofFields, hx.days]
  congr 1
  simp [usPerSec]

/-- `daysFromCivil y 1 1 + doy − 1` is the day itself -/
theorem ordinal_of_doy (y m d : Int) : daysFromCivil y 1 1 + dayOfYear y m d - 1 = daysFromCivil y m d := by
  unfold dayOfYear; omega

theorem mkOrdinal_fields {dt : DateTime} {x : Fields} (hx : FieldsSpec dt x) (hy : 1 ≤ x.year ∧ x.year ≤ 9999) :
    mkOrdinal x.year (dayOfYear x.year x.month x.day) = some (dt / usPerDay) := by
  unfold mkOrdinal
  simp only [ordinal_of_doy, hx.valid]
  rw [if_pos ⟨hy.1, hy.2⟩, hx.days]

theorem noPoint_renderDoy (x : Fields) : NoPoint (renderDoy x) := noPoint_zpad _ _

theorem parse_render_yday (dt : DateTime) (hy : 1000 ≤ (fieldsOf dt).year ∧ (fieldsOf dt).year ≤ 9999) :
    parse? .yday (render .yday dt) = some dt := by
  have hx := fieldsSpec dt
  simp only [parse?, render]
  generalize fieldsOf dt = x at hx hy
  have hdoy := doy_range x.year x.month x.day hx.month.1 hx.month.2 hx.day.1 hx.day.2
  have e : fmtYear x.year ++ ':' :: renderDoy x ++ ':' :: renderHmsF x
      = (fmtYear x.year ++ ':' :: renderDoy x ++ ':' :: renderHms x) ++ '.' :: zpad 6 x.micro := by
    simp [renderHmsF, List.append_assoc]
  rw [e, str2dt_frac _ _ _ (by simp [noPoint_append_iff, noPoint_cons_iff, noPoint_fmtYear, noPoint_renderDoy,
    noPoint_renderHms]) hx.micro.1 hx.micro.2]
  unfold strptime
  simp only [List.append_assoc, List.cons_append]
  rw [numDir_year _ _ hy.1 hy.2]
  simp only [Option.bind_some, litDir_cons]
  unfold renderDoy
  rw [numDir_zpad 3 1 1 366 _ _ (by decide) (by decide) (by omega) (by omega) (by omega) (by omega)]
  simp only [Option.bind_some, litDir_cons]
  rw [hmsDir_render x _ hx.hour hx.minute hx.second]
  simp only [Option.bind_some]
  rw [optFracDir_render _ hx.micro]
  have h59 : x.second ≤ 59 := by have := hx.second; omega
  simp only [Option.bind_some, List.isEmpty_nil, h59, and_self, if_true]
  rw [mkOrdinal_fields hx ⟨by omega, hy.2⟩]
  simp only [Option.map_some, Option.some.injEq]
  have hb := hx.back
  simp only [ofFields, hx.days] at hb
  exact hb

theorem rheT_int (n : Int) : Midgard.TimeArith.roundHalfEven (n : Rat) = n := by
  simp [Midgard.TimeArith.roundHalfEven, Rat.floor_intCast]

theorem length_zpad (w : Nat) (n : Int) (hw : 0 < w) (h0 : 0 ≤ n) (hn : n < 10 ^ w) : (zpad w n).length = w := by
  rw [zpad_eq w n hw h0 hn, length_fixedDigits]

/-- the seconds-of-day text parses (as `float`) to the seconds of the day -/
theorem parseFloat_renderSod (x : Fields) (h : 0 ≤ secOfDay x ∧ secOfDay x < 86400) :
    parseFloat (renderSod x) = some ((secOfDay x : Int) : Rat) := by
  unfold renderSod
  rw [zfill_natDigits]
  have hlt : (secOfDay x).toNat < 10 ^ 5 := by omega
  rw [fracDigits_eq_fixedDigits 5 _ (by decide) hlt,
    parseFloat_digits (allDigits_fixedDigits _ _) (fixedDigits_ne_nil (by decide) _),
    digitsVal_fixedDigits, Nat.mod_eq_of_lt hlt]
  congr 1
  have : (((secOfDay x).toNat : Nat) : Int) = secOfDay x := Int.toNat_of_nonneg h.1
  rw [← this]; push_cast; rfl

theorem yds_tail {dt : DateTime} {x : Fields} (hx : FieldsSpec dt x) :
    dt / usPerDay * usPerDay + Midgard.TimeArith.roundHalfEven (((secOfDay x : Int) : Rat) * (usPerSec : Rat))
      = dt / usPerSec * usPerSec := by
  have e : ((secOfDay x : Int) : Rat) * (usPerSec : Rat) = ((secOfDay x * usPerSec : Int) : Rat) := by push_cast; rfl
  rw [e, rheT_int, ← hx.days]
  exact hx.secs

theorem parse_render_yyyyddd (dt : DateTime) (hy : 1000 ≤ (fieldsOf dt).year ∧ (fieldsOf dt).year ≤ 9999) :
    parse? .yyyyddd (render .yyyyddd dt) = some (dt / usPerSec * usPerSec) := by
  have hx := fieldsSpec dt
  simp only [parse?, render]
  generalize fieldsOf dt = x at hx hy
  have hdoy := doy_range x.year x.month x.day hx.month.1 hx.month.2 hx.day.1 hx.day.2
  have hlenY : (fmtYear x.year).length = 4 := length_natDigits_eq 3 x.year.toNat (by omega) (by omega)
  have hlenD : (renderDoy x).length = 3 := length_zpad 3 _ (by decide) (by omega) (by omega)
  have hhead : (fmtYear x.year ++ ':' :: renderDoy x ++ ':' :: renderSod x).take 9
      = fmtYear x.year ++ ':' :: renderDoy x ++ [':'] := by
    have : fmtYear x.year ++ ':' :: renderDoy x ++ ':' :: renderSod x
        = (fmtYear x.year ++ ':' :: renderDoy x ++ [':']) ++ renderSod x := by simp [List.append_assoc]
    rw [this, List.take_left' (by simp [hlenY, hlenD])]
  have htail : (fmtYear x.year ++ ':' :: renderDoy x ++ ':' :: renderSod x).drop 9 = renderSod x := by
    have : fmtYear x.year ++ ':' :: renderDoy x ++ ':' :: renderSod x
        = (fmtYear x.year ++ ':' :: renderDoy x ++ [':']) ++ renderSod x := by simp [List.append_assoc]
    rw [this, List.drop_left' (by simp [hlenY, hlenD])]
  unfold yds2dt
  simp only [if_true, hhead, htail]
  unfold ydHead
  simp only [if_true, List.append_assoc, List.cons_append]
  rw [numDir_year _ _ hy.1 hy.2]
  simp only [Option.bind_some, litDir_cons]
  unfold renderDoy
  rw [numDir_zpad 3 1 1 366 _ _ (by decide) (by decide) (by omega) (by omega) (by omega) (by omega)]
  simp only [Option.bind_some, litDir_cons, List.isEmpty_nil, if_true]
  rw [mkOrdinal_fields hx ⟨by omega, hy.2⟩]
  simp only [Option.bind_some, parseFloat_renderSod x hx.sod, Option.map_some, yds_tail hx]

theorem parse_render_yyddd (dt : DateTime) (hy : 1969 ≤ (fieldsOf dt).year ∧ (fieldsOf dt).year ≤ 2068) :
    parse? .yyddd (render .yyddd dt) = some (dt / usPerSec * usPerSec) := by
  have hx := fieldsSpec dt
  simp only [parse?, render]
  generalize fieldsOf dt = x at hx hy
  have hdoy := doy_range x.year x.month x.day hx.month.1 hx.month.2 hx.day.1 hx.day.2
  have hlenY : (zpad 2 (x.year % 100)).length = 2 := length_zpad 2 _ (by decide) (by omega) (by omega)
  have hlenD : (renderDoy x).length = 3 := length_zpad 3 _ (by decide) (by omega) (by omega)
  have hhead : (zpad 2 (x.year % 100) ++ ':' :: renderDoy x ++ ':' :: renderSod x).take 7
      = zpad 2 (x.year % 100) ++ ':' :: renderDoy x ++ [':'] := by
    have : zpad 2 (x.year % 100) ++ ':' :: renderDoy x ++ ':' :: renderSod x
        = (zpad 2 (x.year % 100) ++ ':' :: renderDoy x ++ [':']) ++ renderSod x := by simp [List.append_assoc]
    rw [this, List.take_left' (by simp [hlenY, hlenD])]
  have htail : (zpad 2 (x.year % 100) ++ ':' :: renderDoy x ++ ':' :: renderSod x).drop 7 = renderSod x := by
    have : zpad 2 (x.year % 100) ++ ':' :: renderDoy x ++ ':' :: renderSod x
        = (zpad 2 (x.year % 100) ++ ':' :: renderDoy x ++ [':']) ++ renderSod x := by simp [List.append_assoc]
    rw [this, List.drop_left' (by simp [hlenY, hlenD])]
  have hpiv : pivotYear (x.year % 100) = x.year := by unfold pivotYear; split <;> omega
  unfold yds2dt
  simp only [Bool.false_eq_true, if_false, hhead, htail]
  unfold ydHead
  simp only [Bool.false_eq_true, if_false, List.append_assoc, List.cons_append]
  rw [numDir_zpad 2 2 0 99 _ _ (by decide) (by decide) (by omega) (by omega) (by omega) (by omega)]
  simp only [Option.map_some, Option.bind_some, litDir_cons, hpiv]
  unfold renderDoy
  rw [numDir_zpad 3 1 1 366 _ _ (by decide) (by decide) (by omega) (by omega) (by omega) (by omega)]
  simp only [Option.bind_some, litDir_cons, List.isEmpty_nil, if_true]
  rw [mkOrdinal_fields hx ⟨by omega, by omega⟩]
  simp only [Option.bind_some, parseFloat_renderSod x hx.sod, Option.map_some, yds_tail hx]

/-- below year 1000 the four-digit-year patterns do not survive the round trip: glibc prints the year
without padding and `%Y` needs four digits -/
theorem parse_render_isot_short_year (dt : DateTime) (hy : (fieldsOf dt).year < 1000) :
    parse? .isot (render .isot dt) = none := by
  have hx := fieldsSpec dt
  simp only [parse?, render]
  generalize fieldsOf dt = x at hx hy
  have e : renderYmd x ++ 'T' :: renderHmsF x = (renderYmd x ++ 'T' :: renderHms x) ++ '.' :: zpad 6 x.micro := by
    simp [renderHmsF, List.append_assoc]
  rw [e, str2dt_frac _ _ _ (by simp [noPoint_append_iff, noPoint_cons_iff, noPoint_renderYmd, noPoint_renderHms])
    hx.micro.1 hx.micro.2]
  unfold strptime ymdDir renderYmd
  simp only [List.append_assoc, List.cons_append]
  rw [numDir_year_short _ _ _ hy (by decide)]
  rfl

end Midgard.TimeFormat
