/-
C07 — the other direction of the Kepler round trip over ℝ (`arctan2 y x := arg (x + i y)`):
`kepler2trs GM (trs2kepler GM s) = s` for every bound, inclined, non-circular state `s`
(`KepInv.kepler2trs_trs2kepler`, hypotheses collected in `KepInv.Regular`).

Route (geometric): with `h = r × v`, `ĥ = h/|h|`, the node direction `N = (−ĥ_y, ĥ_x, 0)/sin i` and
`M = ĥ × N`, the angles returned by `trs2kepler` have
  `(cos i, sin i) = (ĥ_z, √(ĥ_x² + ĥ_y²))`                      (`cos_sin_i`)
  `(cos Ω, sin Ω) = (−ĥ_y, ĥ_x)/sin i`                            (`cos_sin_Omega`)
  `(cos u, sin u) = (−x ĥ_y + y ĥ_x, z)/(|r| sin i)`              (`cos_sin_argLat`)
  `(cos E, sin E) = ((1 − |r|/a)/e, r·v/(√(GM a) e))`             (`cos_sin_E`), `|r| = a(1 − e cos E)` (`radius_eq`)
  `(cos f, sin f)` of the true anomaly                            (`cos_sin_trueAnomaly`)
  `ω ≡ u − f (mod 2π)`                                            (`cos_sin_omega`)
and `PQW·(X, Y, 0) = X' N + Y' M` (`pqw_mulVec`), `w = (w·N) N + (w·M) M` for `w ⊥ ĥ` (`frame_recover`);
the scalar algebra is in `anomaly_alg`, `ecc_identity` and `core_inverse`.

The hypothesis `noncircular : 0 < e` is a condition on the state: `e_pos_iff` (`|h|² < GM a`),
`ecc_radicand`, `Regular.of_dot_ne` (`r·v ≠ 0` suffices).  `regular_example` is a concrete regular state.
-/
import Midgard.Proofs.GeoReal
import Midgard.Proofs.KeplerRanges
import Midgard.Model.Kepler

namespace Midgard.Geo.KepInv
open Midgard.Geo

/-! ### cos / sin of an `arctan2` -/

theorem cos_sin_atan2 (y x n : ℝ) (hn : 0 < n) (h : x ^ 2 + y ^ 2 = n ^ 2) :
    Real.cos (Trig.atan2 y x) = x / n ∧ Real.sin (Trig.atan2 y x) = y / n := by
  set w : ℂ := ⟨x, y⟩ with hw
  have hnorm : ‖w‖ = n := by
    rw [Complex.norm_eq_sqrt_sq_add_sq]
    simp only [hw]
    rw [h, Real.sqrt_sq hn.le]
  have hw0 : w ≠ 0 := by
    intro h0
    rw [h0, norm_zero] at hnorm
    linarith
  constructor
  · show Real.cos (Complex.arg w) = _
    rw [Complex.cos_arg hw0, hnorm]
  · show Real.sin (Complex.arg w) = _
    rw [Complex.sin_arg, hnorm]

/-! ### pure algebra -/

theorem pqw_mulVec (cO sO ci si cw sw X Y : ℝ) :
    (((R3cs cO (-sO)).mul (R1cs ci (-si))).mul (R3cs cw (-sw))).mulVec ⟨X, Y, 0⟩
      = ⟨cO * (X * cw - Y * sw) - sO * ci * (X * sw + Y * cw),
         sO * (X * cw - Y * sw) + cO * ci * (X * sw + Y * cw),
         si * (X * sw + Y * cw)⟩ := by
  apply V3.ext' <;> simp only [R3cs, R1cs, M3.mul, M3.mulVec, M3.col1, M3.col2, M3.col3, V3.dot] <;> ring

theorem frame_recover (wx wy wz ux uy uz q : ℝ) (hq : q ≠ 0) (hq2 : q * q = ux * ux + uy * uy)
    (hperp : wx * ux + wy * uy + wz * uz = 0) :
    (-uy / q) * ((-wx * uy + wy * ux) / q) - (ux / q) * uz * (wz / q) = wx ∧
    (ux / q) * ((-wx * uy + wy * ux) / q) + (-uy / q) * uz * (wz / q) = wy ∧
    q * (wz / q) = wz := by
  refine ⟨?_, ?_, ?_⟩
  · field_simp
    linear_combination (-ux) * hperp - wx * hq2
  · field_simp
    linear_combination (-uy) * hperp - wy * hq2
  · field_simp

theorem ecc_identity (GM a R V2 D H2 g e : ℝ) (hGM : GM ≠ 0) (ha : a ≠ 0) (hR : R ≠ 0)
    (hia : 1 / a = 2 / R - V2 / GM) (hg2 : g ^ 2 = GM * a) (he2 : e ^ 2 = 1 - H2 / GM / a)
    (hL : H2 = R ^ 2 * V2 - D ^ 2) : (g * (1 - R / a)) ^ 2 + D ^ 2 = (g * e) ^ 2 := by
  have key : GM * R = a * (2 * GM - V2 * R) := by
    field_simp at hia
    linear_combination hia
  rw [mul_pow, mul_pow, hg2, he2, hL]
  field_simp
  linear_combination R * key

theorem core_inverse (x y z vx vy vz a e fac g cO sO ci si cw sw cE sE R H D q ux uy uz cf sf cu su : ℝ)
    (hR : R ≠ 0) (hq : q ≠ 0) (hH : H ≠ 0)
    (hR2 : R * R = x * x + y * y + z * z)
    (ehx : H * ux = y * vz - z * vy) (ehy : H * uy = z * vx - x * vz) (ehz : H * uz = x * vy - y * vx)
    (hu1 : ux * ux + uy * uy + uz * uz = 1)
    (hq2 : q * q = ux * ux + uy * uy)
    (hD : D = x * vx + y * vy + z * vz)
    (hcO : cO = -uy / q) (hsO : sO = ux / q) (hci : ci = uz) (hsi : si = q)
    (hcu : cu = (-x * uy + y * ux) / (q * R)) (hsu : su = z / (q * R))
    (hcw : cw = cu * cf + su * sf) (hsw : sw = su * cf - cu * sf)
    (hrad : a * (1 - e * cE) = R)
    (hX : a * (cE - e) = R * cf) (hY : a * fac * sE = R * sf)
    (hcf1 : cf ^ 2 + sf ^ 2 = 1)
    (hVx : -g * sE = D * cf - H * sf) (hVy : g * fac * cE = D * sf + H * cf) :
    kepler2trsCore a e fac g cO (-sO) ci (-si) cw (-sw) cE sE = ⟨⟨x, y, z⟩, ⟨vx, vy, vz⟩⟩ := by
  -- r ⊥ h, v ⊥ h
  have hperp_r : x * ux + y * uy + z * uz = 0 := by
    apply mul_left_cancel₀ hH
    linear_combination x * ehx + y * ehy + z * ehz
  have hperp_v : vx * ux + vy * uy + vz * uz = 0 := by
    apply mul_left_cancel₀ hH
    linear_combination vx * ehx + vy * ehy + vz * ehz
  -- in-plane components of the position
  have hXp : a * (cE - e) * cw - a * fac * sE * sw = (-x * uy + y * ux) / q := by
    have h1 : a * (cE - e) * cw - a * fac * sE * sw = R * cu := by
      rw [hX, hY, hcw, hsw]; linear_combination (R * cu) * hcf1
    rw [h1, hcu]; field_simp
  have hYp : a * (cE - e) * sw + a * fac * sE * cw = z / q := by
    have h1 : a * (cE - e) * sw + a * fac * sE * cw = R * su := by
      rw [hX, hY, hcw, hsw]; linear_combination (R * su) * hcf1
    rw [h1, hsu]; field_simp
  -- in-plane components of the velocity
  have hK1 : D * (-x * uy + y * ux) - H * z = R * R * (-vx * uy + vy * ux) := by
    linear_combination (z * H) * hu1 - (z * ux) * ehx - (z * uy) * ehy - (z * uz) * ehz
      - (x * vy - y * vx) * hperp_r + (-x * uy + y * ux) * hD - (-vx * uy + vy * ux) * hR2
  have hK2 : D * z + H * (-x * uy + y * ux) = R * R * vz := by
    linear_combination (-x) * ehy + y * ehx - vz * hR2 + z * hD
  have hXv : -(g / R) * sE * cw - (g / R) * fac * cE * sw = (-vx * uy + vy * ux) / q := by
    have h1 : -(g / R) * sE * cw - (g / R) * fac * cE * sw = (D * cu - H * su) / R := by
      have e1 : -(g / R) * sE = (D * cf - H * sf) / R := by rw [← hVx]; ring
      have e2 : (g / R) * fac * cE = (D * sf + H * cf) / R := by rw [← hVy]; ring
      rw [e1, e2, hcw, hsw]
      field_simp
      linear_combination (D * cu - H * su) * hcf1
    rw [h1, hcu, hsu]
    field_simp
    linear_combination hK1
  have hYv : -(g / R) * sE * sw + (g / R) * fac * cE * cw = vz / q := by
    have h1 : -(g / R) * sE * sw + (g / R) * fac * cE * cw = (D * su + H * cu) / R := by
      have e1 : -(g / R) * sE = (D * cf - H * sf) / R := by rw [← hVx]; ring
      have e2 : (g / R) * fac * cE = (D * sf + H * cf) / R := by rw [← hVy]; ring
      rw [e1, e2, hcw, hsw]
      field_simp
      linear_combination (D * su + H * cu) * hcf1
    rw [h1, hcu, hsu]
    field_simp
    linear_combination hK2
  obtain ⟨fpx, fpy, fpz⟩ := frame_recover x y z ux uy uz q hq hq2 hperp_r
  obtain ⟨fvx, fvy, fvz⟩ := frame_recover vx vy vz ux uy uz q hq hq2 hperp_v
  simp only [kepler2trsCore]
  rw [hrad, pqw_mulVec, pqw_mulVec, hXp, hYp, hXv, hYv, hcO, hsO, hci, hsi]
  rw [fpx, fpy, fpz, fvx, fvy, fvz]


theorem anomaly_alg (a e fac g cE sE cf sf R H D : ℝ) (ha : a ≠ 0) (he : e ≠ 0) (hg : g ≠ 0) (hR : R ≠ 0)
    (hfac2 : fac ^ 2 = 1 - e ^ 2) (hHg : H = g * fac)
    (hcE : cE = (1 - R / a) / e) (hsE : sE = D / (g * e)) (hcs : cE ^ 2 + sE ^ 2 = 1)
    (hcf : cf = (cE - e) / (1 - e * cE)) (hsf : sf = fac * sE / (1 - e * cE)) :
    a * (1 - e * cE) = R ∧ a * (cE - e) = R * cf ∧ a * fac * sE = R * sf ∧
      -g * sE = D * cf - H * sf ∧ g * fac * cE = D * sf + H * cf := by
  have hrad : a * (1 - e * cE) = R := by
    rw [hcE]; field_simp; ring
  have h1 : 1 - e * cE = R / a := by rw [← hrad]; field_simp
  have h1ne : 1 - e * cE ≠ 0 := by rw [h1]; exact div_ne_zero hR ha
  have h1ne' : 1 - cE * e ≠ 0 := by rwa [mul_comm]
  have hDe : D = g * e * sE := by rw [hsE]; field_simp
  refine ⟨hrad, ?_, ?_, ?_, ?_⟩
  · rw [hcf, h1]; field_simp
  · rw [hsf, h1]; field_simp
  · rw [hcf, hsf, hHg, hDe]
    field_simp
    linear_combination sE * hfac2
  · rw [hcf, hsf, hHg, hDe]
    field_simp
    linear_combination (-fac * e) * hcs


/-! ### the quantities `trs2kepler` computes from a state -/

section State
variable (GM : ℝ) (s : V6 ℝ)

/-- angular momentum `h = r × v` -/
noncomputable def hvec : V3 ℝ := V3.cross s.p s.v
/-- `h / |h|` -/
noncomputable def hU : V3 ℝ := (hvec s).sdiv (hvec s).norm
/-- `sqrt(ĥ_x² + ĥ_y²)` (the sine of the inclination) -/
noncomputable def sinI : ℝ := Real.sqrt ((hU s).x * (hU s).x + (hU s).y * (hU s).y)
/-- the argument of latitude `u = arctan2(z, -x ĥ_y + y ĥ_x)` -/
noncomputable def argLat : ℝ := Trig.atan2 s.p.z (-s.p.x * (hU s).y + s.p.y * (hU s).x)

theorem k_i : (trs2kepler GM s).i = Trig.atan2 (sinI s) (hU s).z := rfl
theorem k_Omega : (trs2kepler GM s).Omega = Trig.atan2 (hU s).x (-(hU s).y) := rfl
theorem k_E : (trs2kepler GM s).E = Trig.atan2 (V3.dot s.p s.v)
    ((trs2kepler GM s).a * (trs2kepler GM s).a * Real.sqrt (GM / cube (trs2kepler GM s).a)
      * (1 - s.p.norm / (trs2kepler GM s).a)) := rfl
theorem k_omega : (trs2kepler GM s).omega =
    if argLat s - trueAnomaly (trs2kepler GM s).e (trs2kepler GM s).E < 0
    then argLat s - trueAnomaly (trs2kepler GM s).e (trs2kepler GM s).E + (1 + 1) * Real.pi
    else argLat s - trueAnomaly (trs2kepler GM s).e (trs2kepler GM s).E := rfl

end State

section Angles
variable (GM : ℝ) (s : V6 ℝ)

theorem cross_lagrange (r v : V3 ℝ) :
    (V3.cross r v).norm2 = r.norm2 * v.norm2 - (V3.dot r v) ^ 2 := by
  simp only [V3.cross, V3.norm2, V3.dot]; ring

theorem norm_mul_self (u : V3 ℝ) : u.norm * u.norm = u.norm2 := by
  rw [← pow_two, V3.norm_sq]

theorem hvec_norm2_ne (hincl : (hvec s).x ^ 2 + (hvec s).y ^ 2 ≠ 0) : (hvec s).norm2 ≠ 0 := by
  have h0 : 0 < (hvec s).x ^ 2 + (hvec s).y ^ 2 :=
    lt_of_le_of_ne (by positivity) (Ne.symm hincl)
  have : 0 < (hvec s).norm2 := by
    simp only [V3.norm2, V3.dot]; nlinarith [mul_self_nonneg (hvec s).z]
  exact this.ne'

theorem hU_mul (hincl : (hvec s).x ^ 2 + (hvec s).y ^ 2 ≠ 0) :
    (hvec s).norm * (hU s).x = (hvec s).x ∧ (hvec s).norm * (hU s).y = (hvec s).y ∧
    (hvec s).norm * (hU s).z = (hvec s).z := by
  have hp := (V3.norm_pos (hvec_norm2_ne s hincl)).ne'
  simp only [hU, V3.sdiv]
  refine ⟨?_, ?_, ?_⟩ <;> field_simp

theorem hU_unit (hincl : (hvec s).x ^ 2 + (hvec s).y ^ 2 ≠ 0) :
    (hU s).x * (hU s).x + (hU s).y * (hU s).y + (hU s).z * (hU s).z = 1 :=
  V3.unit_norm2 (hvec_norm2_ne s hincl)

theorem sinI_sq : sinI s * sinI s = (hU s).x * (hU s).x + (hU s).y * (hU s).y :=
  Real.mul_self_sqrt (by nlinarith [mul_self_nonneg (hU s).x, mul_self_nonneg (hU s).y])

theorem sinI_pos (hincl : (hvec s).x ^ 2 + (hvec s).y ^ 2 ≠ 0) : 0 < sinI s := by
  have hp := V3.norm_pos (hvec_norm2_ne s hincl)
  obtain ⟨ex, ey, _⟩ := hU_mul s hincl
  apply Real.sqrt_pos.mpr
  by_contra hcon
  have h0 : (hU s).x * (hU s).x + (hU s).y * (hU s).y = 0 :=
    le_antisymm (not_lt.mp hcon) (by nlinarith [mul_self_nonneg (hU s).x, mul_self_nonneg (hU s).y])
  have hx : (hU s).x = 0 := by nlinarith [mul_self_nonneg (hU s).x, mul_self_nonneg (hU s).y]
  have hy : (hU s).y = 0 := by nlinarith [mul_self_nonneg (hU s).x, mul_self_nonneg (hU s).y]
  apply hincl
  rw [← ex, ← ey, hx, hy]; ring

/-- `(cos i, sin i) = (ĥ_z, sqrt(ĥ_x² + ĥ_y²))` -/
theorem cos_sin_i (hincl : (hvec s).x ^ 2 + (hvec s).y ^ 2 ≠ 0) :
    Real.cos (trs2kepler GM s).i = (hU s).z ∧ Real.sin (trs2kepler GM s).i = sinI s := by
  have h := cos_sin_atan2 (sinI s) (hU s).z 1 one_pos (by
    have h1 := hU_unit s hincl
    have h2 := sinI_sq s
    linear_combination h1 + h2)
  rw [k_i]
  simpa using h

/-- `(cos Ω, sin Ω) = (−ĥ_y, ĥ_x) / sin i` -/
theorem cos_sin_Omega (hincl : (hvec s).x ^ 2 + (hvec s).y ^ 2 ≠ 0) :
    Real.cos (trs2kepler GM s).Omega = -(hU s).y / sinI s ∧
    Real.sin (trs2kepler GM s).Omega = (hU s).x / sinI s := by
  rw [k_Omega]
  exact cos_sin_atan2 (hU s).x (-(hU s).y) (sinI s) (sinI_pos s hincl) (by
    have h2 := sinI_sq s
    linear_combination -h2)

/-- `r ⊥ ĥ` and `v ⊥ ĥ` -/
theorem perp_hU (hincl : (hvec s).x ^ 2 + (hvec s).y ^ 2 ≠ 0) :
    s.p.x * (hU s).x + s.p.y * (hU s).y + s.p.z * (hU s).z = 0 ∧
    s.v.x * (hU s).x + s.v.y * (hU s).y + s.v.z * (hU s).z = 0 := by
  have hp := (V3.norm_pos (hvec_norm2_ne s hincl)).ne'
  obtain ⟨ex, ey, ez⟩ := hU_mul s hincl
  rw [show (hvec s).x = s.p.y * s.v.z - s.p.z * s.v.y from rfl] at ex
  rw [show (hvec s).y = s.p.z * s.v.x - s.p.x * s.v.z from rfl] at ey
  rw [show (hvec s).z = s.p.x * s.v.y - s.p.y * s.v.x from rfl] at ez
  constructor
  · apply mul_left_cancel₀ hp
    linear_combination s.p.x * ex + s.p.y * ey + s.p.z * ez
  · apply mul_left_cancel₀ hp
    linear_combination s.v.x * ex + s.v.y * ey + s.v.z * ez

/-- argument of latitude: `(cos u, sin u) = (−x ĥ_y + y ĥ_x, z) / (|r| sin i)` -/
theorem cos_sin_argLat (hr : s.p.norm2 ≠ 0) (hincl : (hvec s).x ^ 2 + (hvec s).y ^ 2 ≠ 0) :
    Real.cos (argLat s) = (-s.p.x * (hU s).y + s.p.y * (hU s).x) / (sinI s * s.p.norm) ∧
    Real.sin (argLat s) = s.p.z / (sinI s * s.p.norm) := by
  have hR := V3.norm_pos hr
  have hR2 : s.p.norm * s.p.norm = s.p.x * s.p.x + s.p.y * s.p.y + s.p.z * s.p.z := norm_mul_self s.p
  have hq := sinI_pos s hincl
  have hq2 := sinI_sq s
  have hu1 := hU_unit s hincl
  obtain ⟨hperp, _⟩ := perp_hU s hincl
  refine cos_sin_atan2 s.p.z _ (sinI s * s.p.norm) (mul_pos hq hR) ?_
  linear_combination (-(s.p.norm * s.p.norm)) * hq2 - ((hU s).x * (hU s).x + (hU s).y * (hU s).y) * hR2
    - (s.p.x * (hU s).x + s.p.y * (hU s).y - s.p.z * (hU s).z) * hperp - (s.p.z * s.p.z) * hu1

end Angles

/-! ### the hypotheses and the anomalies -/

/-- a bound (negative energy), inclined (`h` not along the z axis), non-circular state -/
structure Regular (GM : ℝ) (s : V6 ℝ) : Prop where
  hGM : 0 < GM
  hr : s.p.norm2 ≠ 0
  bound : s.v.norm2 < 2 * GM / s.p.norm
  inclined : (V3.cross s.p s.v).x ^ 2 + (V3.cross s.p s.v).y ^ 2 ≠ 0
  noncircular : 0 < (trs2kepler GM s).e

/-- `a² n = sqrt(GM a)` for `a > 0` -/
theorem a2n (GM a : ℝ) (ha : 0 < a) : a * a * Real.sqrt (GM / cube a) = Real.sqrt (GM * a) := by
  have h2 : a * a = Real.sqrt ((a * a) ^ 2) := by rw [Real.sqrt_sq (by positivity)]
  rw [h2, ← Real.sqrt_mul (by positivity)]
  congr 1
  simp only [cube]
  field_simp

section Anomaly
variable {GM : ℝ} {s : V6 ℝ}

theorem Regular.r_pos (h : Regular GM s) : 0 < s.p.norm := V3.norm_pos h.hr

theorem Regular.h_pos (h : Regular GM s) : 0 < (hvec s).norm :=
  V3.norm_pos (hvec_norm2_ne s h.inclined)

theorem Regular.a_pos (h : Regular GM s) : 0 < (trs2kepler GM s).a :=
  trs2kepler_bound GM s h.hGM h.r_pos (by rw [norm_mul_self]; exact h.bound)

theorem Regular.e_lt_one (h : Regular GM s) : (trs2kepler GM s).e < 1 :=
  trs2kepler_e_lt_one GM s h.hGM h.a_pos h.h_pos.ne'

theorem inv_a (GM : ℝ) (s : V6 ℝ) :
    1 / (trs2kepler GM s).a = 2 / s.p.norm - s.v.norm2 / GM := by
  rw [trs2kepler_a, one_div_one_div, norm_mul_self]
  norm_num

theorem Regular.e_sq (h : Regular GM s) :
    (trs2kepler GM s).e ^ 2 = 1 - (hvec s).norm2 / GM / (trs2kepler GM s).a := by
  have hpos := h.noncircular
  rw [trs2kepler_e] at hpos ⊢
  rw [Real.sq_sqrt (Real.sqrt_pos.mp hpos).le, norm_mul_self]
  rfl

/-- eccentric anomaly: `cos E = (1 − |r|/a)/e`, `sin E = r·v / (sqrt(GM a) e)` -/
theorem cos_sin_E (h : Regular GM s) :
    Real.cos (trs2kepler GM s).E = (1 - s.p.norm / (trs2kepler GM s).a) / (trs2kepler GM s).e ∧
    Real.sin (trs2kepler GM s).E
      = V3.dot s.p s.v / (Real.sqrt (GM * (trs2kepler GM s).a) * (trs2kepler GM s).e) := by
  have ha := h.a_pos
  have hGM := h.hGM
  have he := h.noncircular
  have hg : 0 < Real.sqrt (GM * (trs2kepler GM s).a) := Real.sqrt_pos.mpr (by positivity)
  have hid := ecc_identity GM (trs2kepler GM s).a s.p.norm s.v.norm2 (V3.dot s.p s.v) (hvec s).norm2
    (Real.sqrt (GM * (trs2kepler GM s).a)) (trs2kepler GM s).e hGM.ne' ha.ne' h.r_pos.ne' (inv_a GM s)
    (Real.sq_sqrt (by positivity)) h.e_sq (by rw [hvec, cross_lagrange, V3.norm_sq])
  obtain ⟨hc, hs⟩ := cos_sin_atan2 (V3.dot s.p s.v) _ _ (mul_pos hg he) hid
  rw [k_E, a2n GM _ ha]
  refine ⟨?_, hs⟩
  rw [hc]
  field_simp

/-- `|r| = a (1 − e cos E)` -/
theorem radius_eq (h : Regular GM s) :
    (trs2kepler GM s).a * (1 - (trs2kepler GM s).e * Real.cos (trs2kepler GM s).E) = s.p.norm := by
  have ha := h.a_pos.ne'
  have he := h.noncircular.ne'
  rw [(cos_sin_E h).1]
  field_simp
  ring

/-- true anomaly `f = arctan2(sqrt(1 − e²) sin E, cos E − e)` for `0 ≤ e < 1` -/
theorem cos_sin_trueAnomaly (e E : ℝ) (he0 : 0 ≤ e) (he1 : e < 1) :
    Real.cos (trueAnomaly e E) = (Real.cos E - e) / (1 - e * Real.cos E) ∧
    Real.sin (trueAnomaly e E) = Real.sqrt (1 - e * e) * Real.sin E / (1 - e * Real.cos E) := by
  have h1 : 0 ≤ 1 - e * e := by nlinarith
  have hs : Real.sqrt (1 - e * e) ^ 2 = 1 - e * e := Real.sq_sqrt h1
  have hpos : 0 < 1 - e * Real.cos E := by
    have hc := Real.cos_le_one E
    nlinarith
  simp only [trueAnomaly, trig_sqrt, trig_sin, trig_cos]
  refine cos_sin_atan2 _ _ _ hpos ?_
  have := Real.cos_sq_add_sin_sq E
  rw [mul_pow, hs]
  linear_combination (1 - e * e) * this

/-- the code's wrap `if ω < 0: ω += 2π` does not change cosine and sine -/
theorem cos_sin_wrap (t : ℝ) :
    Real.cos (if t < 0 then t + (1 + 1) * Real.pi else t) = Real.cos t ∧
    Real.sin (if t < 0 then t + (1 + 1) * Real.pi else t) = Real.sin t := by
  have h2 : (1 + 1) * Real.pi = 2 * Real.pi := by ring
  split_ifs
  · rw [h2, Real.cos_add_two_pi, Real.sin_add_two_pi]; exact ⟨rfl, rfl⟩
  · exact ⟨rfl, rfl⟩

/-- argument of perigee: `ω ≡ u − f (mod 2π)` -/
theorem cos_sin_omega (GM : ℝ) (s : V6 ℝ) :
    Real.cos (trs2kepler GM s).omega
      = Real.cos (argLat s) * Real.cos (trueAnomaly (trs2kepler GM s).e (trs2kepler GM s).E)
        + Real.sin (argLat s) * Real.sin (trueAnomaly (trs2kepler GM s).e (trs2kepler GM s).E) ∧
    Real.sin (trs2kepler GM s).omega
      = Real.sin (argLat s) * Real.cos (trueAnomaly (trs2kepler GM s).e (trs2kepler GM s).E)
        - Real.cos (argLat s) * Real.sin (trueAnomaly (trs2kepler GM s).e (trs2kepler GM s).E) := by
  rw [k_omega, (cos_sin_wrap _).1, (cos_sin_wrap _).2, Real.cos_sub, Real.sin_sub]
  exact ⟨rfl, rfl⟩

end Anomaly

/-! ### the inverse -/

section Main
variable (GM : ℝ) (s : V6 ℝ)

local notation "𝐤" => trs2kepler GM s

/-- `|h| = sqrt(GM a) sqrt(1 − e²)` -/
theorem h_norm_eq (h : Regular GM s) :
    (hvec s).norm = Real.sqrt (GM * 𝐤.a) * Real.sqrt ((1 - 𝐤.e) * (1 + 𝐤.e)) := by
  have hGM := h.hGM
  have ha := h.a_pos
  have he := h.noncircular
  have he1 := h.e_lt_one
  have hg2 : Real.sqrt (GM * 𝐤.a) ^ 2 = GM * 𝐤.a := Real.sq_sqrt (by positivity)
  have hfac2 : Real.sqrt ((1 - 𝐤.e) * (1 + 𝐤.e)) ^ 2 = 1 - 𝐤.e ^ 2 := by
    rw [Real.sq_sqrt (by nlinarith)]; ring
  apply (sq_eq_sq₀ h.h_pos.le (by positivity)).mp
  rw [V3.norm_sq, mul_pow, hg2, hfac2, h.e_sq]
  field_simp
  ring

/-- **`kepler2trs ∘ trs2kepler = id`** over ℝ for every bound, inclined, non-circular state -/
theorem kepler2trs_trs2kepler (h : Regular GM s) : kepler2trs GM (trs2kepler GM s) = s := by
  have hGM := h.hGM
  have ha := h.a_pos
  have he := h.noncircular
  have he1 := h.e_lt_one
  have hR := h.r_pos
  have hH := h.h_pos
  have hq := sinI_pos s h.inclined
  have hgpos : 0 < Real.sqrt (GM * 𝐤.a) := Real.sqrt_pos.mpr (by positivity)
  have hfac2 : Real.sqrt ((1 - 𝐤.e) * (1 + 𝐤.e)) ^ 2 = 1 - 𝐤.e ^ 2 := by
    rw [Real.sq_sqrt (by nlinarith)]; ring
  have hfac' : Real.sqrt (1 - 𝐤.e * 𝐤.e) = Real.sqrt ((1 - 𝐤.e) * (1 + 𝐤.e)) := by
    congr 1; ring
  obtain ⟨hcE, hsE⟩ := cos_sin_E h
  obtain ⟨hcf, hsf⟩ := cos_sin_trueAnomaly 𝐤.e 𝐤.E he.le he1
  rw [hfac'] at hsf
  obtain ⟨hci, hsi⟩ := cos_sin_i GM s h.inclined
  obtain ⟨hcO, hsO⟩ := cos_sin_Omega GM s h.inclined
  obtain ⟨hcu, hsu⟩ := cos_sin_argLat s h.hr h.inclined
  obtain ⟨hcw, hsw⟩ := cos_sin_omega GM s
  obtain ⟨ex, ey, ez⟩ := hU_mul s h.inclined
  obtain ⟨hrad, hX, hY, hVx, hVy⟩ := anomaly_alg 𝐤.a 𝐤.e (Real.sqrt ((1 - 𝐤.e) * (1 + 𝐤.e)))
    (Real.sqrt (GM * 𝐤.a)) (Real.cos 𝐤.E) (Real.sin 𝐤.E)
    (Real.cos (trueAnomaly 𝐤.e 𝐤.E)) (Real.sin (trueAnomaly 𝐤.e 𝐤.E))
    s.p.norm (hvec s).norm (V3.dot s.p s.v) ha.ne' he.ne' hgpos.ne' hR.ne' hfac2 (h_norm_eq GM s h)
    hcE hsE (Real.cos_sq_add_sin_sq _) hcf hsf
  have key := core_inverse s.p.x s.p.y s.p.z s.v.x s.v.y s.v.z 𝐤.a 𝐤.e
    (Real.sqrt ((1 - 𝐤.e) * (1 + 𝐤.e))) (Real.sqrt (GM * 𝐤.a))
    (Real.cos 𝐤.Omega) (Real.sin 𝐤.Omega) (Real.cos 𝐤.i) (Real.sin 𝐤.i)
    (Real.cos 𝐤.omega) (Real.sin 𝐤.omega) (Real.cos 𝐤.E) (Real.sin 𝐤.E)
    s.p.norm (hvec s).norm (V3.dot s.p s.v) (sinI s) (hU s).x (hU s).y (hU s).z
    (Real.cos (trueAnomaly 𝐤.e 𝐤.E)) (Real.sin (trueAnomaly 𝐤.e 𝐤.E))
    (Real.cos (argLat s)) (Real.sin (argLat s))
    hR.ne' hq.ne' hH.ne' (norm_mul_self s.p) ex ey ez (hU_unit s h.inclined) (sinI_sq s) rfl
    hcO hsO hci hsi hcu hsu hcw hsw hrad hX hY (Real.cos_sq_add_sin_sq _) hVx hVy
  simp only [kepler2trs, trig_cos, trig_sin, trig_sqrt, Real.cos_neg, Real.sin_neg]
  exact key

/-- the position half, as a corollary -/
theorem kepler2trs_trs2kepler_pos (h : Regular GM s) : (kepler2trs GM (trs2kepler GM s)).p = s.p := by
  rw [kepler2trs_trs2kepler GM s h]

/-- the velocity half, as a corollary -/
theorem kepler2trs_trs2kepler_vel (h : Regular GM s) : (kepler2trs GM (trs2kepler GM s)).v = s.v := by
  rw [kepler2trs_trs2kepler GM s h]

/-! ### the non-circularity hypothesis as a condition on the state -/

/-- `e > 0` exactly when `|h|² < GM a` (for `GM > 0`, `a > 0`) -/
theorem e_pos_iff (hGM : 0 < GM) (ha : 0 < 𝐤.a) :
    0 < 𝐤.e ↔ (V3.cross s.p s.v).norm2 < GM * 𝐤.a := by
  rw [trs2kepler_e, Real.sqrt_pos, norm_mul_self, sub_pos, div_div, div_lt_one (by positivity)]

/-- `GM a (1 − p/a) = GM a (1 − |r|/a)² + (r·v)²`: the quantity under the square root of `e` is
non-negative for every bound state, and positive as soon as `r·v ≠ 0` or `|r| ≠ a` -/
theorem ecc_radicand (hGM : 0 < GM) (hr : s.p.norm2 ≠ 0) (ha : 0 < 𝐤.a) :
    GM * 𝐤.a * (1 - (V3.cross s.p s.v).norm2 / GM / 𝐤.a)
      = GM * 𝐤.a * (1 - s.p.norm / 𝐤.a) ^ 2 + (V3.dot s.p s.v) ^ 2 := by
  have hR := (V3.norm_pos hr).ne'
  have hia := inv_a GM s
  have key : GM * s.p.norm = 𝐤.a * (2 * GM - s.v.norm2 * s.p.norm) := by
    field_simp at hia
    linear_combination hia
  rw [cross_lagrange, ← V3.norm_sq s.p]
  field_simp
  linear_combination (-s.p.norm) * key

/-- a bound inclined state with `r·v ≠ 0` (not at an apsis) is regular -/
theorem Regular.of_dot_ne (hGM : 0 < GM) (hr : s.p.norm2 ≠ 0) (hbound : s.v.norm2 < 2 * GM / s.p.norm)
    (hincl : (V3.cross s.p s.v).x ^ 2 + (V3.cross s.p s.v).y ^ 2 ≠ 0) (hdot : V3.dot s.p s.v ≠ 0) :
    Regular GM s := by
  have ha : 0 < 𝐤.a := trs2kepler_bound GM s hGM (V3.norm_pos hr) (by rw [norm_mul_self]; exact hbound)
  refine ⟨hGM, hr, hbound, hincl, ?_⟩
  rw [trs2kepler_e, Real.sqrt_pos, norm_mul_self]
  have h1 := ecc_radicand GM s hGM hr ha
  have h2 : 0 < (V3.dot s.p s.v) ^ 2 := by positivity
  have h3 : 0 ≤ GM * 𝐤.a * (1 - s.p.norm / 𝐤.a) ^ 2 := by positivity
  have h4 : 0 < GM * 𝐤.a := by positivity
  by_contra hcon
  have := mul_nonpos_of_nonneg_of_nonpos h4.le (not_lt.mp hcon)
  linarith

end Main

/-! ### non-vacuity: a concrete regular state -/

/-- `GM = 1`, `r = (1, 0, 0)`, `v = (0, 1/2, 1/2)`: `a = 2/3`, `|h|² = 1/2`, `e = 1/2`, `i = 45°` -/
theorem regular_example : Regular 1 (⟨⟨1, 0, 0⟩, ⟨0, 1 / 2, 1 / 2⟩⟩ : V6 ℝ) := by
  have hpn : (⟨1, 0, 0⟩ : V3 ℝ).norm = 1 := by simp [V3.norm]
  have hv2 : (⟨0, 1 / 2, 1 / 2⟩ : V3 ℝ).norm2 = 1 / 2 := by norm_num [V3.norm2, V3.dot]
  have ha : (trs2kepler (1 : ℝ) ⟨⟨1, 0, 0⟩, ⟨0, 1 / 2, 1 / 2⟩⟩).a = 2 / 3 := by
    rw [trs2kepler_a, norm_mul_self]
    simp only [hpn, hv2]
    norm_num
  refine ⟨one_pos, ?_, ?_, ?_, ?_⟩
  · norm_num [V3.norm2, V3.dot]
  · simp only [hpn, hv2]; norm_num
  · norm_num [V3.cross]
  · rw [e_pos_iff 1 _ one_pos (by rw [ha]; norm_num), ha]
    norm_num [V3.cross, V3.norm2, V3.dot]

example : kepler2trs 1 (trs2kepler 1 (⟨⟨1, 0, 0⟩, ⟨0, 1 / 2, 1 / 2⟩⟩ : V6 ℝ)) = ⟨⟨1, 0, 0⟩, ⟨0, 1 / 2, 1 / 2⟩⟩ :=
  kepler2trs_trs2kepler 1 _ regular_example

end Midgard.Geo.KepInv

#print axioms Midgard.Geo.KepInv.kepler2trs_trs2kepler
#print axioms Midgard.Geo.KepInv.kepler2trs_trs2kepler_pos
#print axioms Midgard.Geo.KepInv.kepler2trs_trs2kepler_vel
#print axioms Midgard.Geo.KepInv.Regular.of_dot_ne
#print axioms Midgard.Geo.KepInv.regular_example
#print axioms Midgard.Geo.KepInv.cos_sin_E
#print axioms Midgard.Geo.KepInv.radius_eq
