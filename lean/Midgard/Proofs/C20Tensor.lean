/-
C20 — rect_bivariate_spline specified as the tensor product of not-a-knot splines: nodes, tensor cubics.
-/
import Midgard.Model.Numeric
import Midgard.Proofs.C20Spline

namespace Midgard.Proofs.C20
open Midgard.Numeric

/-- the spline of a sorted column reproduces the column at the nodes -/
theorem nakValue_node (sx col : List ℚ) (k : ℕ) (v : ℚ) (hp : sx.Pairwise (· < ·)) (hn : 2 ≤ sx.length) (hk : k < sx.length)
    (h : nakValue sx col (sx.getD k 0) = some v) : v = col.getD k 0 := by
  unfold nakValue at h
  cases hm : nakMoments sx col with
  | none => simp [hm] at h
  | some ms =>
    simp only [hm, Option.map_some, Option.some.injEq] at h
    rw [← h, nakAt_node sx col ms k hp hn hk]

/-- … and every cubic -/
theorem nakValue_cubic (sx col : List ℚ) (x v : ℚ) (hp : sx.Pairwise (· < ·)) (hn : 4 ≤ sx.length) (c0 c1 c2 c3 : ℚ)
    (hdata : ∀ k, k < sx.length → col.getD k 0 = cubicAt c0 c1 c2 c3 (sx.getD k 0))
    (h : nakValue sx col x = some v) : v = cubicAt c0 c1 c2 c3 x := by
  unfold nakValue at h
  cases hm : nakMoments sx col with
  | none => simp [hm] at h
  | some ms =>
    simp only [hm, Option.map_some, Option.some.injEq] at h
    have hms := nakMoments_spec sx col ms hm
    have hstrict := getD_strict sx hp
    have hcub := nakEqs_cubic sx.length (fun i => sx.getD i 0) c0 c1 c2 c3 (fun i hi => ne_of_gt (hstrict i hi))
    have hcub' : NakEqs sx.length (fun i => sx.getD i 0) (fun i => col.getD i 0) (fun i => cubicDD c2 c3 (sx.getD i 0)) :=
      nakEqs_congr _ _ _ _ _ _ (by omega) (fun i hi => (hdata i hi).symm) (fun _ _ => rfl) hcub
    have huniq := nakEqs_unique sx.length _ _ _ _ (by omega) hstrict hms hcub'
    rw [← h]
    simp only [nakAt]
    obtain ⟨i1, i2⟩ := nakAt_idx sx x (by omega)
    generalize max 1 (min (searchLeft sx x) (sx.length - 1)) = idx at *
    have ha := huniq (idx - 1) (by omega)
    have hb := huniq idx i2
    rw [ha, hb, hdata (idx - 1) (by omega), hdata idx i2]
    have hne : sx.getD idx 0 ≠ sx.getD (idx - 1) 0 := by
      have := hstrict (idx - 1) (by omega)
      rw [Nat.sub_add_cancel i1] at this
      exact ne_of_gt this
    exact pieceEval_cubic _ _ c0 c1 c2 c3 _ hne

theorem bicubic_form (xs ys : List ℚ) (grid : List (List ℚ)) (x y v : ℚ) (h : bicubicAt xs ys grid x y = some v) :
    (∀ k, k < grid.length → ∃ w, nakValue xs (grid.getD k []) x = some w) ∧
    nakValue ys (grid.map (fun row => (nakValue xs row x).getD 0)) y = some v := by
  simp only [bicubicAt] at h
  split at h
  · exact absurd h (by simp)
  rename_i hany
  refine ⟨?_, ?_⟩
  · intro k hk
    simp only [List.any_eq_true, not_exists, not_and, List.mem_map] at hany
    have hg : grid.getD k [] = grid[k] := by simp [List.getD_eq_getElem?_getD, hk]
    have := hany _ ⟨grid[k], List.getElem_mem hk, rfl⟩
    rw [← hg] at this
    cases hv : nakValue xs (grid.getD k []) x with
    | none => rw [hv] at this; exact absurd rfl this
    | some w => exact ⟨w, rfl⟩
  · rw [List.map_map] at h
    exact h

theorem rowvals_getD (xs : List ℚ) (grid : List (List ℚ)) (x : ℚ) (k : ℕ) (hk : k < grid.length) :
    (grid.map (fun row => (nakValue xs row x).getD 0)).getD k 0 = (nakValue xs (grid.getD k []) x).getD 0 := by
  simp [List.getD_eq_getElem?_getD, hk]

/-- the tensor spline reproduces the grid values at the grid nodes -/
theorem bicubic_node (xs ys : List ℚ) (grid : List (List ℚ)) (hx : xs.Pairwise (· < ·)) (hy : ys.Pairwise (· < ·))
    (hnx : 2 ≤ xs.length) (hny : 2 ≤ ys.length) (hg : grid.length = ys.length) (k i : ℕ) (hk : k < ys.length)
    (hi : i < xs.length) (v : ℚ) (h : bicubicAt xs ys grid (xs.getD i 0) (ys.getD k 0) = some v) :
    v = (grid.getD k []).getD i 0 := by
  obtain ⟨hrows, hout⟩ := bicubic_form _ _ _ _ _ _ h
  have e := nakValue_node ys _ k v hy hny hk hout
  rw [e, rowvals_getD xs grid _ k (by omega)]
  obtain ⟨w, hw⟩ := hrows k (by omega)
  rw [hw, Option.getD_some]
  exact nakValue_node xs _ i w hx hnx hi hw

/-- … and every tensor cubic `Σ cₐᵦ xᵃ yᵇ` (a, b ≤ 3), written as a cubic in `x` whose coefficients are cubics in `y` -/
theorem bicubic_exact (xs ys : List ℚ) (grid : List (List ℚ)) (hx : xs.Pairwise (· < ·)) (hy : ys.Pairwise (· < ·))
    (hnx : 4 ≤ xs.length) (hny : 4 ≤ ys.length) (hg : grid.length = ys.length)
    (a0 a1 a2 a3 b0 b1 b2 b3 c0 c1 c2 c3 d0 d1 d2 d3 x y v : ℚ)
    (hdata : ∀ k i, k < ys.length → i < xs.length → (grid.getD k []).getD i 0 =
      cubicAt (cubicAt a0 a1 a2 a3 (ys.getD k 0)) (cubicAt b0 b1 b2 b3 (ys.getD k 0)) (cubicAt c0 c1 c2 c3 (ys.getD k 0))
        (cubicAt d0 d1 d2 d3 (ys.getD k 0)) (xs.getD i 0))
    (h : bicubicAt xs ys grid x y = some v) :
    v = cubicAt (cubicAt a0 a1 a2 a3 y) (cubicAt b0 b1 b2 b3 y) (cubicAt c0 c1 c2 c3 y) (cubicAt d0 d1 d2 d3 y) x := by
  obtain ⟨hrows, hout⟩ := bicubic_form _ _ _ _ _ _ h
  -- as a function of y the row values are a cubic
  have e : cubicAt (cubicAt a0 a1 a2 a3 y) (cubicAt b0 b1 b2 b3 y) (cubicAt c0 c1 c2 c3 y) (cubicAt d0 d1 d2 d3 y) x
      = cubicAt (cubicAt a0 b0 c0 d0 x) (cubicAt a1 b1 c1 d1 x) (cubicAt a2 b2 c2 d2 x) (cubicAt a3 b3 c3 d3 x) y := by
    unfold cubicAt; ring
  rw [e]
  apply nakValue_cubic ys _ y v hy hny _ _ _ _ _ hout
  intro k hk
  rw [rowvals_getD xs grid _ k (by omega)]
  obtain ⟨w, hw⟩ := hrows k (by omega)
  rw [hw, Option.getD_some]
  have := nakValue_cubic xs _ x w hx hnx _ _ _ _ (fun i hi => hdata k i hk hi) hw
  rw [this]
  unfold cubicAt; ring

end Midgard.Proofs.C20
