import Midgard.Proofs.CalendarEra.Check

namespace Midgard.TimeFormat

theorem era_chunk_06 : chunkOK 6 9132 = true := by decide +kernel

end Midgard.TimeFormat
