import Midgard.Proofs.CalendarEra.Check

namespace Midgard.TimeFormat

theorem era_chunk_10 : chunkOK 10 9132 = true := by decide +kernel

end Midgard.TimeFormat
