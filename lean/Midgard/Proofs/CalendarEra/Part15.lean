import Midgard.Proofs.CalendarEra.Check

namespace Midgard.TimeFormat

-- the last chunk ends with the era: 15 * 9132 + 9117 = 146097
theorem era_chunk_15 : chunkOK 15 9117 = true := by decide +kernel

end Midgard.TimeFormat
