import Midgard.Proofs.CalendarEra.Check

namespace Midgard.TimeFormat

theorem era_chunk_09 : chunkOK 9 9132 = true := by decide +kernel

end Midgard.TimeFormat
