import Midgard.Proofs.CalendarEra.Check

namespace Midgard.TimeFormat

theorem era_chunk_02 : chunkOK 2 9132 = true := by decide +kernel

end Midgard.TimeFormat
