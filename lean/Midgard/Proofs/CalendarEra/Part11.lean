import Midgard.Proofs.CalendarEra.Check

namespace Midgard.TimeFormat

theorem era_chunk_11 : chunkOK 11 9132 = true := by decide +kernel

end Midgard.TimeFormat
