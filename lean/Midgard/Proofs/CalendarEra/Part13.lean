import Midgard.Proofs.CalendarEra.Check

namespace Midgard.TimeFormat

theorem era_chunk_13 : chunkOK 13 9132 = true := by decide +kernel

end Midgard.TimeFormat
