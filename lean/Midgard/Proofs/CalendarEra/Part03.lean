import Midgard.Proofs.CalendarEra.Check

namespace Midgard.TimeFormat

theorem era_chunk_03 : chunkOK 3 9132 = true := by decide +kernel

end Midgard.TimeFormat
