import Midgard.Proofs.CalendarEra.Check

namespace Midgard.TimeFormat

theorem era_chunk_01 : chunkOK 1 9132 = true := by decide +kernel

end Midgard.TimeFormat
