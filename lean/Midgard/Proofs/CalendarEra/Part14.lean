import Midgard.Proofs.CalendarEra.Check

namespace Midgard.TimeFormat

theorem era_chunk_14 : chunkOK 14 9132 = true := by decide +kernel

end Midgard.TimeFormat
