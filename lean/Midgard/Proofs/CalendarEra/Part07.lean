import Midgard.Proofs.CalendarEra.Check

namespace Midgard.TimeFormat

theorem era_chunk_07 : chunkOK 7 9132 = true := by decide +kernel

end Midgard.TimeFormat
