import Midgard.Proofs.CalendarEra.Check

namespace Midgard.TimeFormat

theorem era_chunk_08 : chunkOK 8 9132 = true := by decide +kernel

end Midgard.TimeFormat
