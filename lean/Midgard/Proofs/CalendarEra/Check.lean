/-
The finite part of the calendar theorem: for every day `doe` of a 400-year era the civil date
computed by `civilOfDoe` maps back to the same day of the era through `doeOfCivil`, the March-based
year-of-era stays inside the era, and month / day are valid.
Checked by kernel evaluation (`decide +kernel`, no axioms) in 16 chunks so that lake builds them
in parallel.
-/
import Midgard.Model.TimeFormat

namespace Midgard.TimeFormat

/-- the check for day `doe` of an era -/
def eraOK (doe : Nat) : Bool :=
  let c := civilOfDoe (doe : Int)
  -- March-based year of era: January and February belong to the previous one
  let yoe := if c.2.1 ≤ 2 then c.1 - 1 else c.1
  doeOfCivil yoe c.2.1 c.2.2 == (doe : Int) && decide (0 ≤ yoe) && decide (yoe < 400)
    && decide (1 ≤ c.2.1) && decide (c.2.1 ≤ 12) && decide (1 ≤ c.2.2) && decide (c.2.2 ≤ 31)

def chunkOK (k n : Nat) : Bool := (List.range n).all (fun i => eraOK (k * 9132 + i))

end Midgard.TimeFormat
