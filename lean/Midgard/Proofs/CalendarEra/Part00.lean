import Midgard.Proofs.CalendarEra.Check

namespace Midgard.TimeFormat

theorem era_chunk_00 : chunkOK 0 9132 = true := by decide +kernel

end Midgard.TimeFormat
