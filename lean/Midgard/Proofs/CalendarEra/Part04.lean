import Midgard.Proofs.CalendarEra.Check

namespace Midgard.TimeFormat

theorem era_chunk_04 : chunkOK 4 9132 = true := by decide +kernel

end Midgard.TimeFormat
