import Midgard.Proofs.CalendarEra.Check

namespace Midgard.TimeFormat

theorem era_chunk_05 : chunkOK 5 9132 = true := by decide +kernel

end Midgard.TimeFormat
