import Midgard.Proofs.CalendarEra.Check

namespace Midgard.TimeFormat

theorem era_chunk_12 : chunkOK 12 9132 = true := by decide +kernel

end Midgard.TimeFormat
