/-
C20 — statistics of LinearRegression on the model of the normal equations: rms², r_square, slope_sigma², interception_sigma².
-/
import Midgard.Model.Numeric
import Midgard.Proofs.C20Algebra
import Midgard.Proofs.C20Nputil
import Mathlib.Tactic.Ring
import Mathlib.Tactic.FieldSimp
import Mathlib.Tactic.Linarith
import Mathlib.Tactic.LinearCombination

namespace Midgard.Proofs.C20
open Midgard.Numeric

theorem length_ne_zero_of_den {xs : List ℚ}
    (hden : (xs.length : ℚ) * (xs.map (fun x => x * x)).sum - xs.sum * xs.sum ≠ 0) : (xs.length : ℚ) ≠ 0 := by
  intro h0
  apply hden
  have : xs = [] := List.length_eq_zero_iff.mp (by exact_mod_cast h0)
  subst this; simp

theorem ols_some (xs ys : List ℚ) (f : Fit) (h : ols xs ys = some f) :
    (xs.length : ℚ) * (xs.map (fun x => x * x)).sum - xs.sum * xs.sum ≠ 0 ∧
    f = ⟨(ys.sum - ((xs.length : ℚ) * (List.zipWith (· * ·) xs ys).sum - xs.sum * ys.sum) /
        ((xs.length : ℚ) * (xs.map (fun x => x * x)).sum - xs.sum * xs.sum) * xs.sum) / (xs.length : ℚ),
      ((xs.length : ℚ) * (List.zipWith (· * ·) xs ys).sum - xs.sum * ys.sum) /
        ((xs.length : ℚ) * (xs.map (fun x => x * x)).sum - xs.sum * xs.sum)⟩ := by
  unfold ols at h
  simp only at h
  split at h
  · exact absurd h (by simp)
  rename_i hden
  injection h with h
  exact ⟨hden, h.symm⟩

theorem sum_map_affine (al be : ℚ) (ys : List ℚ) :
    (ys.map (fun y => al + be * y)).sum = (ys.length : ℚ) * al + be * ys.sum := sum_map_line al be ys

theorem sum_zip_affine (al be : ℚ) : ∀ (xs ys : List ℚ), xs.length = ys.length →
    (List.zipWith (· * ·) xs (ys.map (fun y => al + be * y))).sum
      = al * xs.sum + be * (List.zipWith (· * ·) xs ys).sum
  | [], [], _ => by simp
  | [], _ :: _, h => by simp at h
  | _ :: _, [], h => by simp at h
  | x :: xs, y :: ys, h => by
    have ih := sum_zip_affine al be xs ys (by simpa using h)
    simp only [List.map_cons, List.zipWith_cons_cons, List.sum_cons, ih]; ring

/-- the least-squares line of affinely rescaled ordinates `α + β y` is the rescaled line -/
theorem ols_affine (xs ys : List ℚ) (f : Fit) (al be : ℚ) (hl : xs.length = ys.length) (h : ols xs ys = some f) :
    ols xs (ys.map (fun y => al + be * y)) = some ⟨al + be * f.icpt, be * f.slope⟩ := by
  obtain ⟨hden, rfl⟩ := ols_some xs ys f h
  have hn := length_ne_zero_of_den hden
  unfold ols
  simp only [sum_map_affine, sum_zip_affine al be xs ys hl, ← hl]
  rw [if_neg hden]
  congr 1
  generalize (xs.length : ℚ) = n at *
  generalize xs.sum = sx at *
  generalize ys.sum = sy at *
  generalize (xs.map (fun x => x * x)).sum = sxx at *
  generalize (List.zipWith (· * ·) xs ys).sum = sxy at *
  congr 1
  · field_simp; ring
  · field_simp; ring

theorem resid_affine (f : Fit) (al be : ℚ) : ∀ (xs ys : List ℚ),
    resid ⟨al + be * f.icpt, be * f.slope⟩ xs (ys.map (fun y => al + be * y)) = (resid f xs ys).map (be * ·)
  | [], _ => by simp [resid]
  | _ :: _, [] => by simp [resid]
  | x :: xs, y :: ys => by
    have ih := resid_affine f al be xs ys
    simp only [resid, List.map_cons, List.zipWith_cons_cons] at ih ⊢
    rw [ih]
    congr 1
    ring

theorem ssr_affine (f : Fit) (al be : ℚ) (xs ys : List ℚ) :
    ssr ⟨al + be * f.icpt, be * f.slope⟩ xs (ys.map (fun y => al + be * y)) = be * be * ssr f xs ys := by
  unfold ssr
  rw [resid_affine, normSq_scale]

theorem sst_affine (al be : ℚ) (ys : List ℚ) (hn : (ys.length : ℚ) ≠ 0) :
    sst (ys.map (fun y => al + be * y)) = be * be * sst ys := by
  unfold sst mean
  rw [sum_map_affine, List.length_map, List.map_map, ← normSq_scale, List.map_map]
  congr 1
  apply List.map_congr_left
  intro y _
  simp only [Function.comp]
  field_simp
  ring

/-- `r_square` does not change under an affine rescaling `y ↦ α + β y`, `β ≠ 0`, of the ordinates -/
theorem rSquare_affine (xs ys : List ℚ) (f : Fit) (al be : ℚ) (hbe : be ≠ 0) (hl : xs.length = ys.length)
    (h : ols xs ys = some f) :
    (fitStats ⟨al + be * f.icpt, be * f.slope⟩ xs (ys.map (fun y => al + be * y))).rSquare
      = (fitStats f xs ys).rSquare := by
  obtain ⟨hden, _⟩ := ols_some xs ys f h
  have hn : (ys.length : ℚ) ≠ 0 := by rw [← hl]; exact length_ne_zero_of_den hden
  simp only [fitStats, ssr_affine, sst_affine al be ys hn]
  rw [mul_div_mul_left _ _ (mul_ne_zero hbe hbe)]

/-- all residuals vanish iff the residual sum of squares does -/
theorem ssr_eq_zero_iff (f : Fit) (xs ys : List ℚ) : ssr f xs ys = 0 ↔ ∀ e ∈ resid f xs ys, e = 0 := by
  constructor
  · exact normSq_eq_zero _
  · intro h
    unfold ssr normSq
    apply List.sum_eq_zero
    intro a ha
    obtain ⟨e, he, rfl⟩ := List.mem_map.mp ha
    rw [h e he]; ring

/-- `r_square = 1` exactly when every sample lies on the fitted line (ordinates not all equal) -/
theorem rSquare_eq_one_iff (f : Fit) (xs ys : List ℚ) (hs : sst ys ≠ 0) :
    (fitStats f xs ys).rSquare = 1 ↔ ∀ e ∈ resid f xs ys, e = 0 := by
  rw [← ssr_eq_zero_iff]
  simp only [fitStats]
  constructor
  · intro h
    have : ssr f xs ys / sst ys = 0 := by linarith
    rcases div_eq_zero_iff.mp this with h' | h'
    · exact h'
    · exact absurd h' hs
  · intro h; rw [h]; simp

/-- samples on a line: the fit is that line, all statistics of scatter vanish and `r_square = 1` -/
theorem stats_exact_line (xs : List ℚ) (a b : ℚ) :
    ssr ⟨a, b⟩ xs (xs.map (fun x => a + b * x)) = 0 ∧
    (fitStats ⟨a, b⟩ xs (xs.map (fun x => a + b * x))) = ⟨0, 1, 0, 0⟩ := by
  have h0 : ssr ⟨a, b⟩ xs (xs.map (fun x => a + b * x)) = 0 := by
    rw [ssr_eq_zero_iff]
    intro e he
    unfold resid at he
    induction xs with
    | nil => simp at he
    | cons x xs ih =>
      simp only [List.map_cons, List.zipWith_cons_cons, List.mem_cons] at he
      rcases he with rfl | he
      · ring
      · exact ih he
  refine ⟨h0, ?_⟩
  simp only [fitStats, h0]
  simp

end Midgard.Proofs.C20

namespace Midgard.Proofs.C20
open Midgard.Numeric

theorem normSq_sub_const (c : ℚ) : ∀ l : List ℚ,
    normSq (l.map (· - c)) = normSq l - 2 * c * l.sum + (l.length : ℚ) * c * c
  | [] => by simp [normSq]
  | a :: l => by
    have ih := normSq_sub_const c l
    rw [List.map_cons, normSq_cons, normSq_cons, ih]
    simp only [List.sum_cons, List.length_cons]
    push_cast; ring

theorem normSq_resid (a b : ℚ) : ∀ (xs ys : List ℚ), xs.length = ys.length →
    normSq (List.zipWith (fun x y => y - (a + b * x)) xs ys) =
      normSq ys - 2 * a * ys.sum - 2 * b * (List.zipWith (· * ·) xs ys).sum + (xs.length : ℚ) * a * a
        + 2 * a * b * xs.sum + b * b * normSq xs
  | [], [], _ => by simp [normSq]
  | [], _ :: _, h => by simp at h
  | _ :: _, [], h => by simp at h
  | x :: xs, y :: ys, h => by
    have ih := normSq_resid a b xs ys (by simpa using h)
    rw [List.zipWith_cons_cons, normSq_cons, normSq_cons, normSq_cons, ih]
    simp only [List.zipWith_cons_cons, List.sum_cons, List.length_cons]
    push_cast; ring

/-- the total sum of squares splits into the residual part and the part explained by the line:
`Σ(y−ȳ)² = Σe² + slope²·Σ(x−x̄)²` -/
theorem sst_decomposition (xs ys : List ℚ) (f : Fit) (hl : xs.length = ys.length) (h : ols xs ys = some f) :
    sst ys = ssr f xs ys + f.slope * f.slope * normSq (xs.map (· - mean xs)) := by
  obtain ⟨hden, rfl⟩ := ols_some xs ys f h
  have hn := length_ne_zero_of_den hden
  unfold sst ssr resid mean
  simp only
  rw [normSq_sub_const, normSq_sub_const, normSq_resid _ _ xs ys hl, ← hl]
  have e : (xs.map (fun x => x * x)).sum = normSq xs := rfl
  rw [e] at hden ⊢
  generalize (xs.length : ℚ) = n at *
  generalize xs.sum = sx at *
  generalize ys.sum = sy at *
  generalize normSq xs = sxx at *
  generalize normSq ys = syy at *
  generalize (List.zipWith (· * ·) xs ys).sum = sxy at *
  have hb : (n * sxy - sx * sy) / (n * sxx - sx * sx) * (n * sxx - sx * sx) = n * sxy - sx * sy :=
    div_mul_cancel₀ _ hden
  generalize (n * sxy - sx * sy) / (n * sxx - sx * sx) = b at *
  have hsxy : sxy = (b * (n * sxx - sx * sx) + sx * sy) / n := by
    field_simp; linarith
  rw [hsxy]
  field_simp
  ring

/-- `0 ≤ r_square ≤ 1` for the least-squares line (ordinates not all equal) -/
theorem rSquare_range (xs ys : List ℚ) (f : Fit) (hl : xs.length = ys.length) (h : ols xs ys = some f)
    (hs : sst ys ≠ 0) : 0 ≤ (fitStats f xs ys).rSquare ∧ (fitStats f xs ys).rSquare ≤ 1 := by
  have hd := sst_decomposition xs ys f hl h
  have h1 : 0 ≤ ssr f xs ys := normSq_nonneg _
  have h2 : 0 ≤ normSq (xs.map (· - mean xs)) := normSq_nonneg _
  have h3 : 0 ≤ sst ys := normSq_nonneg _
  have hpos : 0 < sst ys := lt_of_le_of_ne h3 (Ne.symm hs)
  have h4 : ssr f xs ys ≤ sst ys := by nlinarith [mul_self_nonneg f.slope]
  simp only [fitStats]
  constructor
  · have : ssr f xs ys / sst ys ≤ 1 := (div_le_one hpos).mpr h4
    linarith
  · have : 0 ≤ ssr f xs ys / sst ys := div_nonneg h1 h3
    linarith

end Midgard.Proofs.C20
