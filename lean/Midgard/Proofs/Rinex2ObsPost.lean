/-
C11, RINEX 2, part 18: the post-processors of `Rinex2Parser` (`finish`: `_remove_empty_obstype_fields`, `_get_obstypes_dict`,
`_time_system_correction`) keep every row, drop exactly the observation types whose column is absent in every row, and leave
`meta["obstypes"][system]` = the remaining types for every system that has a row.  Core Lean only.
-/
import Midgard.Proofs.Rinex2ObsHeader
import Midgard.Proofs.Rinex3ObsPost

namespace Midgard.Spec.Rinex2ObsFile
open Midgard.Text Midgard.FixedCol Midgard.Decimal Midgard.ChainParser Midgard.RinexObs Midgard.Rinex2Obs
open Midgard.Spec.Rinex3ObsFile (get_set_ne get_set_same get_del foldl_dropType deadTypes)

theorem get_del_prefix (m : Meta) (q p : List Str) (h : isPrefix q p = true) : (m.del q).get p = none := by
  unfold Meta.get Meta.del
  have : (m.filter fun x => match x with | (q', _) => !isPrefix q q').find? (·.1 == p) = none := by
    rw [List.find?_eq_none]
    intro x hx hxp
    have hx2 := (List.mem_filter.mp hx).2
    have : x.1 = p := by simpa using hxp
    obtain ⟨x1, x2⟩ := x
    simp only at this hx2
    subst this
    simp [h] at hx2
  rw [this]; rfl

/-- no empty-dictionary marker under `obstypes` -/
def NoMark (m : Meta) : Prop := ∀ sy, m.get [key "obstypes", sy] ≠ some .empty

theorem noMark_set (m : Meta) (x : Str) (T : List Str) (h : NoMark m) : NoMark (m.set [key "obstypes", x] (.list T)) := by
  intro sy
  by_cases e : x = sy
  · subst e; rw [get_set_same]; simp
  · rw [get_set_ne _ _ _ _ (by simp [e]) (h sy)]; exact h sy

theorem get_set_keep (m : Meta) (x sy : Str) (T : List Str) (h : NoMark m) (hs : x = sy ∨ m.get [key "obstypes", sy] = some (.list T)) :
    (m.set [key "obstypes", x] (.list T)).get [key "obstypes", sy] = some (.list T) := by
  by_cases e : x = sy
  · subst e; exact get_set_same _ _ _
  · rcases hs with hs | hs
    · exact absurd hs e
    · rw [get_set_ne _ _ _ _ (by simp [e]) (h sy)]; exact hs

theorem fold_systems (T : List Str) : ∀ (systems : List Str) (m : Meta), NoMark m → ∀ sy,
    (sy ∈ systems ∨ m.get [key "obstypes", sy] = some (.list T)) →
    (systems.foldl (fun m sy => m.set [key "obstypes", sy] (.list T)) m).get [key "obstypes", sy] = some (.list T) := by
  intro systems
  induction systems with
  | nil => intro m _ sy h; simpa using h
  | cons x systems ih =>
    intro m hm sy h
    rw [List.foldl_cons]
    apply ih _ (noMark_set m x T hm)
    by_cases hx : x = sy
    · right; exact get_set_keep m x sy T hm (Or.inl hx)
    · rcases h with h | h
      · rcases List.mem_cons.mp h with h | h
        · exact absurd h.symm hx
        · left; exact h
      · right; exact get_set_keep m x sy T hm (Or.inr h)

/-- `_get_obstypes_dict`: every system that has a row gets the type list -/
theorem getObstypesDict_meta (s : State) (T : List Str) (h : s.metaD.get [key "obstypes"] = some (.list T)) (hT : T ≠ [])
    (sy : Str) (hsy : sy ∈ s.data.system) : (getObstypesDict s).metaD.get [key "obstypes", sy] = some (.list T) := by
  unfold getObstypesDict
  simp only [h]
  have hne : (s.data.system.eraseDups.isEmpty || T.isEmpty) = false := by
    have h1 : s.data.system.eraseDups ≠ [] := by
      intro e
      have : sy ∈ s.data.system.eraseDups := List.mem_eraseDups.mpr hsy
      rw [e] at this; simp at this
    cases hh : s.data.system.eraseDups with
    | nil => exact absurd hh h1
    | cons a r =>
      cases hl : T with
      | nil => exact absurd hl hT
      | cons b r' => rfl
  simp only [hne, Bool.false_eq_true, if_false]
  apply fold_systems
  · intro sy'
    rw [get_del _ _ _ (by simp [isPrefix, List.isPrefixOf]; decide), get_del_prefix _ _ _ (by simp [isPrefix, List.isPrefixOf])]
    simp
  · left; exact List.mem_eraseDups.mpr hsy

/-- the type list `_remove_empty_obstype_fields` starts from -/
def typesOf (s : State) : List Str :=
  match s.metaD.get [key "obstypes"] with
  | some (.list l) => l
  | _ => []

/-- the types that survive the post-processors -/
def liveTypes (s : State) : List Str := (deadTypes s.data).foldl removeFirst (typesOf s)

/-- **the RINEX 2 post-processors**: every row is kept, the observation / LLI / SSI columns are the parsed ones minus the types
whose observation column is absent in every row, and every system that has a row gets the surviving types under
`meta["obstypes"][system]` -/
theorem finish2 (s s' : State) (h : finish s = .ok s') :
    s'.data.obs = s.data.obs.filter (fun kc => !(deadTypes s.data).contains kc.1) ∧
    s'.data.lli = s.data.lli.filter (fun kc => !(deadTypes s.data).contains kc.1) ∧
    s'.data.snr = s.data.snr.filter (fun kc => !(deadTypes s.data).contains kc.1) ∧
    rowCols s'.data = rowCols s.data ∧ s'.data.timeMicros = s.data.timeMicros ∧ s'.data.pos = s.data.pos ∧
    (liveTypes s ≠ [] → ∀ sy ∈ s.data.system, s'.metaD.get [key "obstypes", sy] = some (.list (liveTypes s))) := by
  unfold finish at h
  split at h
  · simp at h
  · split at h
    · simp at h
    · have hd : ∀ s1 : State, timeSystemCorrection s1 = .ok s' → s'.data = s1.data ∧ s'.metaD = s1.metaD := by
        intro s1 h1
        unfold timeSystemCorrection at h1
        split at h1
        · simp only [pure, Except.pure, Except.ok.injEq] at h1
          rw [← h1]; split <;> exact ⟨rfl, rfl⟩
        · simp [throw, throwThe, MonadExcept.throw, MonadExceptOf.throw] at h1
      cases ht : timeSystemCorrection (getObstypesDict (removeEmptyObstypeFields s)) with
      | error e => simp [ht] at h
      | ok s2 =>
        simp only [ht, Outcome.ok.injEq] at h
        subst h
        obtain ⟨hdat, hmet⟩ := hd _ ht
        have hfold := foldl_dropType (deadTypes s.data) s.data
        obtain ⟨h1, h2, h3, h4, h5, h6⟩ := hfold
        have hdata : s2.data = (deadTypes s.data).foldl (fun d t => d.dropType t) s.data := by rw [hdat]; rfl
        rw [hdata]
        refine ⟨h1, h2, h3, h4, h5, h6, ?_⟩
        intro hlive sy hsy
        rw [hmet]
        have hsys : (removeEmptyObstypeFields s).data.system = s.data.system := by
          have := h4
          simp only [rowCols, Prod.mk.injEq] at this
          exact this.2.2.2.2.1
        have hty : (removeEmptyObstypeFields s).metaD.get [key "obstypes"] = some (.list (liveTypes s)) := by
          show (s.metaD.set [key "obstypes"] (.list (liveTypes s))).get [key "obstypes"] = _
          exact get_set_same _ _ _
        exact getObstypesDict_meta _ _ hty hlive sy (by rw [hsys]; exact hsy)

end Midgard.Spec.Rinex2ObsFile
