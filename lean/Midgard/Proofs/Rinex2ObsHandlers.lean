/-
C11, RINEX 2, part 15: the header handlers at value level, first half — the `meta` keys the data section reads
(`num_obstypes`, `obstypes`, `marker_name`, `time_first_obs`) are left alone by every handler of the plain record kinds
(`Frame2`, `plain_frame2`).  Core Lean only.
-/
import Midgard.Proofs.Rinex2ObsFile

namespace Midgard.Spec.Rinex2ObsFile
open Midgard.Text Midgard.FixedCol Midgard.Decimal Midgard.ChainParser Midgard.RinexObs Midgard.Rinex2Obs
open Midgard.Spec.Rinex3ObsFile (get_set_ne get_set_same bind_ok' mapM_mem foldl_error)

/-! ### the protected keys -/

/-- the `meta` keys the data section reads -/
def Prot2 (p : List Str) : Prop :=
  p = [key "num_obstypes"] ∨ p = [key "obstypes"] ∨ p = [key "marker_name"] ∨ p = [key "time_first_obs"]

def Unprot2 (q : List Str) : Prop := ∀ p, Prot2 p → q ≠ p

/-- the protected keys read the same (empty-dictionary markers aside; RINEX 2 never writes one) -/
def MSame2 (m m' : Meta) : Prop := ∀ p, Prot2 p → m.get p ≠ some .empty → m'.get p = m.get p

theorem MSame2.refl (m : Meta) : MSame2 m m := fun _ _ _ => rfl

theorem MSame2.trans {a b c : Meta} (h1 : MSame2 a b) (h2 : MSame2 b c) : MSame2 a c := by
  intro p hp he
  have e1 := h1 p hp he
  rw [← e1]
  exact h2 p hp (by rw [e1]; exact he)

theorem MSame2_set (m : Meta) (q : List Str) (v : Leaf) (h : Unprot2 q) : MSame2 m (m.set q v) :=
  fun p hp he => get_set_ne m q p v (h p hp) he

theorem MSame2_foldl {α} (st : Meta → α → Meta) : ∀ (l : List α) (m : Meta), (∀ m x, x ∈ l → MSame2 m (st m x)) →
    MSame2 m (l.foldl st m) := by
  intro l
  induction l with
  | nil => intro m _; exact MSame2.refl m
  | cons a l ih =>
    intro m h
    exact (h m a (by simp)).trans (ih _ (fun m x hx => h m x (by simp [hx])))

/-- a field name that is none of the protected keys -/
def freeName (k : String) : Bool :=
  key k != key "num_obstypes" && key k != key "obstypes" && key k != key "marker_name" && key k != key "time_first_obs"

theorem unprot2_single (a : Str) (h1 : a ≠ key "num_obstypes") (h2 : a ≠ key "obstypes") (h3 : a ≠ key "marker_name")
    (h4 : a ≠ key "time_first_obs") : Unprot2 [a] := by
  intro p hp e
  rcases hp with rfl | rfl | rfl | rfl <;> simp only [List.cons.injEq, and_true] at e
  · exact h1 e
  · exact h2 e
  · exact h3 e
  · exact h4 e

theorem unprot2_free (k : String) (h : freeName k = true) : Unprot2 [key k] := by
  simp only [freeName, Bool.and_eq_true, bne_iff_ne, ne_eq] at h
  exact unprot2_single _ h.1.1.1 h.1.1.2 h.1.2 h.2

theorem unprot2_pair (a b : Str) : Unprot2 [a, b] := by
  intro p hp
  rcases hp with rfl | rfl | rfl | rfl <;> simp

/-! ### handlers that write only unprotected keys -/

structure Frame2 (s s' : State) : Prop where
  rate : s'.rate = s.rate
  obs : s'.data.obs = s.data.obs
  lli : s'.data.lli = s.data.lli
  snr : s'.data.snr = s.data.snr
  rows : rowCols s'.data = rowCols s.data
  micros : s'.data.timeMicros = s.data.timeMicros
  metaS : MSame2 s.metaD s'.metaD

theorem Frame2.refl (s : State) : Frame2 s s := ⟨rfl, rfl, rfl, rfl, rfl, rfl, MSame2.refl _⟩

theorem Frame2.trans {a b c : State} (h1 : Frame2 a b) (h2 : Frame2 b c) : Frame2 a c :=
  ⟨h2.rate.trans h1.rate, h2.obs.trans h1.obs, h2.lli.trans h1.lli, h2.snr.trans h1.snr,
   h2.rows.trans h1.rows, h2.micros.trans h1.micros, h1.metaS.trans h2.metaS⟩

theorem frame2_meta (s : State) (m' : Meta) (h : MSame2 s.metaD m') : Frame2 s { s with metaD := m' } :=
  ⟨rfl, rfl, rfl, rfl, rfl, rfl, h⟩

theorem frame2_pos (s : State) (p : Option (List Rat)) : Frame2 s { s with data := { s.data with pos := p } } :=
  ⟨rfl, rfl, rfl, rfl, rfl, rfl, MSame2.refl _⟩

def keysOk2 (v : Values) : Prop := ∀ kv ∈ v, freeName kv.1 = true

theorem frame2_parseString (v : Values) (s : State) (hv : keysOk2 v) : Frame2 s (parseString v s) := by
  unfold parseString
  apply frame2_meta
  apply MSame2_foldl
  intro m x hx
  obtain ⟨k, t⟩ := x
  exact MSame2_set m _ _ (unprot2_free _ (hv (k, t) hx))

theorem frame2_parseVersionType (v : Values) (s : State) (hv : keysOk2 v) : Frame2 s (parseVersionType v s) := by
  unfold parseVersionType
  have h1 := frame2_parseString v s hv
  simp only
  split
  · exact h1.trans (frame2_meta _ _ (MSame2_set _ _ _ (unprot2_free "sat_sys" (by decide))))
  · exact h1

theorem frame2_parseFloatFields (v : Values) (s s' : State) (hv : keysOk2 v) (h : parseFloatFields v s = .ok s') : Frame2 s s' := by
  unfold parseFloatFields at h
  obtain ⟨nums, hn, h⟩ := bind_ok' h
  simp only [pure, Except.pure, Except.ok.injEq] at h
  subst h
  apply frame2_meta
  apply MSame2_foldl
  intro m x hx
  obtain ⟨a, ha, hf⟩ := mapM_mem _ _ _ hn x hx
  obtain ⟨k, t⟩ := a
  obtain ⟨q, _, hq⟩ := bind_ok' hf
  simp only [pure, Except.pure, Except.ok.injEq] at hq
  subst hq
  exact MSame2_set m _ _ (unprot2_free _ (hv (k, t) ha))

theorem frame2_parseIntegerFields (v : Values) (s s' : State) (hv : keysOk2 v) (h : parseIntegerFields v s = .ok s') : Frame2 s s' := by
  unfold parseIntegerFields at h
  obtain ⟨nums, hn, h⟩ := bind_ok' h
  simp only [pure, Except.pure, Except.ok.injEq] at h
  subst h
  apply frame2_meta
  apply MSame2_foldl
  intro m x hx
  obtain ⟨a, ha, hf⟩ := mapM_mem _ _ _ hn x hx
  obtain ⟨k, t⟩ := a
  obtain ⟨q, _, hq⟩ := bind_ok' hf
  simp only [pure, Except.pure, Except.ok.injEq] at hq
  subst hq
  exact MSame2_set m _ _ (unprot2_free _ (hv (k, t) ha))

theorem frame2_parseComment (v : Values) (s s' : State) (h : parseComment v s = .ok s') : Frame2 s s' := by
  unfold parseComment at h
  obtain ⟨t, _, h⟩ := bind_ok' h
  simp only [pure, Except.pure, Except.ok.injEq] at h
  subst h
  exact frame2_meta s _ (MSame2_set _ _ _ (unprot2_free "comment" (by decide)))

theorem frame2_parseApproxPosition (v : Values) (s s' : State) (hv : keysOk2 v) (h : parseApproxPosition v s = .ok s') : Frame2 s s' := by
  unfold parseApproxPosition at h
  obtain ⟨_, _, h⟩ := bind_ok' h
  obtain ⟨x, _, h⟩ := bind_ok' h
  obtain ⟨_, _, h⟩ := bind_ok' h
  obtain ⟨y, _, h⟩ := bind_ok' h
  obtain ⟨_, _, h⟩ := bind_ok' h
  obtain ⟨z, _, h⟩ := bind_ok' h
  exact (frame2_pos s (some [x, y, z])).trans (frame2_parseFloatFields v _ s' hv h)

theorem frame2_parseLeapSeconds (v : Values) (s : State) : Frame2 s (parseLeapSeconds v s) := by
  unfold parseLeapSeconds
  apply frame2_meta
  apply MSame2_foldl
  intro m x _
  obtain ⟨k, t⟩ := x
  exact MSame2_set m _ _ (unprot2_pair _ _)

theorem MSame2_timeSys (ts : Str) (m : Meta) : MSame2 m (if ts ≠ [] then m.set [key "time_sys"] (.text ts) else m) := by
  split
  · exact MSame2_set _ _ _ (unprot2_free "time_sys" (by decide))
  · exact MSame2.refl m

theorem frame2_parseTimeOfLast (v : Values) (s s' : State) (h : parseTimeOf "time_last_obs" v s = .ok s') : Frame2 s s' := by
  unfold parseTimeOf at h
  obtain ⟨ts, _, h⟩ := bind_ok' h
  obtain ⟨y, _, h⟩ := bind_ok' h
  split at h
  · obtain ⟨t, _, h⟩ := bind_ok' h
    simp only [pure, Except.pure, Except.ok.injEq] at h
    subst h
    exact frame2_meta s _ ((MSame2_timeSys ts _).trans (MSame2_set _ _ _ (unprot2_free "time_last_obs" (by decide))))
  · simp only [pure, Except.pure, Except.ok.injEq] at h
    subst h
    exact frame2_meta s _ (MSame2_timeSys ts _)

theorem foldl_except_MSame2 {α} (step : Except Err Meta → α → Except Err Meta)
    (hstep : ∀ m x m', step (.ok m) x = .ok m' → MSame2 m m') (herr : ∀ e x, step (.error e) x = .error e) :
    ∀ (l : List α) (m0 m' : Meta), l.foldl step (.ok m0) = .ok m' → MSame2 m0 m' := by
  intro l
  induction l with
  | nil => intro m0 m' h; simp only [List.foldl_nil, Except.ok.injEq] at h; subst h; exact MSame2.refl _
  | cons x l ih =>
    intro m0 m' h
    rw [List.foldl_cons] at h
    cases hx : step (.ok m0) x with
    | error e => rw [hx, foldl_error step herr] at h; simp at h
    | ok m1 => rw [hx] at h; exact (hstep m0 x m1 hx).trans (ih m1 m' h)

theorem frame2_parseWavelengthFact (v : Values) (s s' : State) (h : parseWavelengthFact v s = .ok s') : Frame2 s s' := by
  unfold parseWavelengthFact at h
  obtain ⟨n, _, h⟩ := bind_ok' h
  obtain ⟨l1, _, h⟩ := bind_ok' h
  obtain ⟨l2, _, h⟩ := bind_ok' h
  obtain ⟨m, hm, h⟩ := bind_ok' h
  simp only [pure, Except.pure, Except.ok.injEq] at h
  subst h
  apply frame2_meta
  have h0 : MSame2 s.metaD (if n ≠ [] then
      ((s.metaD.set [key "l1_wave_fact_prn"] (.text l1)).set [key "l2_wave_fact_prn"] (.text l2)).set [key "wave_fact_prn"] (.list [])
    else (s.metaD.set [key "l1_wave_fact_default"] (.text l1)).set [key "l2_wave_fact_default"] (.text l2)) := by
    split
    · exact ((MSame2_set _ _ _ (unprot2_free "l1_wave_fact_prn" (by decide))).trans
        (MSame2_set _ _ _ (unprot2_free "l2_wave_fact_prn" (by decide)))).trans
        (MSame2_set _ _ _ (unprot2_free "wave_fact_prn" (by decide)))
    · exact (MSame2_set _ _ _ (unprot2_free "l1_wave_fact_default" (by decide))).trans
        (MSame2_set _ _ _ (unprot2_free "l2_wave_fact_default" (by decide)))
  refine h0.trans ?_
  refine foldl_except_MSame2 _ ?_ ?_ _ _ _ hm
  · intro m0 x m1 hx
    simp only [bind, Except.bind, pure, Except.pure] at hx
    split at hx
    · simp only [Except.ok.injEq] at hx; subst hx; exact MSame2.refl _
    · split at hx
      · simp only [Except.ok.injEq] at hx
        subst hx
        exact MSame2_set _ _ _ (unprot2_free "wave_fact_prn" (by decide))
      · simp [throw, throwThe, MonadExcept.throw, MonadExceptOf.throw] at hx
  · intro e x; rfl

/-! ### the plain record kinds -/

/-- every kind but `MARKER NAME`, `TIME OF FIRST OBS` and `# / TYPES OF OBSERV` -/
def plainKinds2 : List (String × String) :=
  kinds.filter fun kh => kh.1 != "MNAME" && kh.1 != "TFIRST" && kh.1 != "TYPES2" && kh.1 != "TYPES2C"

def eight : List String := ["_parse_string", "_parse_rinex_version_type", "_parse_comment", "_parse_approx_position", "_parse_float",
  "_parse_time_of_last_obs", "_parse_leap_seconds", "_parse_integer", "_parse_wavelength_fact"]

def plainOk2 (kh : String × String) : Bool :=
  handlerOf kh.1 == kh.2 && eight.contains kh.2 && (names kh.1).all freeName && kh.1 != "TYPES2C"

theorem plain_table2 : plainKinds2.all plainOk2 = true := by decide +kernel

theorem keysOk2_zip (ns : List String) (cells : List Str) (h : ns.all freeName = true) : keysOk2 (ns.zip cells) := by
  intro kv hkv
  have : kv.1 ∈ ns := (List.of_mem_zip (by rw [show kv = (kv.1, kv.2) from rfl] at hkv; exact hkv)).1
  exact List.all_eq_true.mp h kv.1 this

theorem plain_frame2 (k : String) (hk : plainKinds2.any (·.1 == k) = true) (cells : List Str) (s s' : State)
    (h : handle (handlerOf k) (valuesOf k cells) s = .ok s') : Frame2 s s' := by
  obtain ⟨kh, hmem, hkk⟩ := List.any_eq_true.mp hk
  simp only [beq_iff_eq] at hkk
  subst hkk
  have ht := List.all_eq_true.mp plain_table2 kh hmem
  simp only [plainOk2, Bool.and_eq_true, beq_iff_eq, bne_iff_ne, ne_eq] at ht
  obtain ⟨⟨⟨hh, h9⟩, hkeys⟩, hnc⟩ := ht
  have hv := keysOk2_zip (names kh.1) cells hkeys
  rw [hh, valuesOf_plain _ _ hnc] at h
  generalize (names kh.1).zip cells = v at h hv
  have h9' : kh.2 ∈ eight := by simpa using h9
  simp only [eight, List.mem_cons, List.not_mem_nil, or_false] at h9'
  rcases h9' with e | e | e | e | e | e | e | e | e <;> rw [e] at h <;>
    simp only [handle, String.reduceEq, if_false, if_true] at h
  · simp only [pure, Except.pure, Except.ok.injEq] at h; subst h; exact frame2_parseString v s hv
  · simp only [pure, Except.pure, Except.ok.injEq] at h; subst h; exact frame2_parseVersionType v s hv
  · exact frame2_parseComment v s s' h
  · exact frame2_parseApproxPosition v s s' hv h
  · exact frame2_parseFloatFields v s s' hv h
  · exact frame2_parseTimeOfLast v s s' h
  · simp only [pure, Except.pure, Except.ok.injEq] at h; subst h; exact frame2_parseLeapSeconds v s
  · exact frame2_parseIntegerFields v s s' hv h
  · exact frame2_parseWavelengthFact v s s' h

end Midgard.Spec.Rinex2ObsFile
