/-
C11 file level, part 5: the text.  No rendered line of a well-formed RINEX 3 observation file contains a line
break, so the lines Python's text-mode iteration yields for `render F` are `fileLines F`.  Core Lean only.
-/
import Midgard.Proofs.Rinex3ObsFile

namespace Midgard.Spec.Rinex3ObsFile
open Midgard.Text Midgard.FixedCol Midgard.Decimal Midgard.ChainParser Midgard.RinexObs Midgard.Rinex3Obs
open Midgard.Spec.Rinex (RecSpec headerSpecs renderLabelled renderCells findKind epoch3 obs3)

/-! ### the text: no rendered line contains a line break -/

theorem joinLines_eq (ls : List Str) : joinLines ls = joinNl ls := by
  induction ls with
  | nil => rfl
  | cons l ls ih => simp [joinLines, joinNl, ih]

theorem fileLines_joinLines (ls : List Str) (h : ∀ l ∈ ls, NoNl l) : ChainParser.fileLines (joinLines ls) = ls := by
  unfold ChainParser.fileLines
  rw [joinLines_eq, splitOn_joinNl ls h]
  simp

theorem nonl_okText' {s : Str} (h : okText s = true) : NoNl s := by
  intro c hc e
  simp only [okText, List.all_eq_true, Bool.and_eq_true, decide_eq_true_eq] at h
  have := (h c hc).1
  rw [e] at this
  revert this; decide

theorem nonl_numText {s : Str} (h : numText s = true) : NoNl s := by
  intro c hc e
  have := numChar_not_space (List.all_eq_true.mp h c hc)
  rw [e] at this
  revert this; decide

theorem nonl_renderA (L : Layout) (cells : List (Align × Str)) (h : ∀ cell ∈ cells, NoNl cell.2) : NoNl (renderA L cells) := by
  intro c hc
  rcases mem_renderFrom L 0 cells c hc with rfl | ⟨cell, hcell, hcc⟩
  · decide
  · exact h cell hcell c hcc

theorem nonl_zip (as : List Align) (cells : List Str) (h : ∀ t ∈ cells, NoNl t) : ∀ cell ∈ as.zip cells, NoNl cell.2 := by
  intro cell hc
  exact h _ (List.of_mem_zip (by rw [show cell = (cell.1, cell.2) from rfl] at hc; exact hc)).2

def labelOk (sp : RecSpec) : Bool := sp.label.toList.all fun c => c != '\n'

theorem labels_ok : headerSpecs.all labelOk = true := by decide +kernel

theorem nonl_label (k : String) : NoNl (spec k).label.toList := by
  unfold spec
  cases hk : findKind k with
  | none => intro c hc; simp at hc
  | some sp =>
    have := List.all_eq_true.mp labels_ok sp (List.mem_of_find?_eq_some hk)
    simp only [labelOk, List.all_eq_true, bne_iff_ne] at this
    exact fun c hc => this c hc

theorem nonl_rec (k : String) (cells : List Str) (hok : okCells k cells = true) : NoNl (rec k cells) := by
  simp only [okCells, Bool.and_eq_true] at hok
  unfold rec renderLabelled renderCells ljust
  refine nonl_append (nonl_append (nonl_renderA _ _ (nonl_zip _ _ ?_)) (nonl_blanks _)) (nonl_label k)
  exact fun t ht => nonl_okText' (List.all_eq_true.mp hok.2 t ht)

theorem nonl_eoh : NoNl eohLine := by
  have : eohLine.all (fun c => c != '\n') = true := by decide +kernel
  intro c hc
  simpa using List.all_eq_true.mp this c hc

theorem nonl_digits {s : Str} (h : allDigits s = true) : NoNl s := by
  intro c hc e
  have := isSpace_of_isDigit (Midgard.Spec.NumText.mem_allDigits h hc)
  rw [e] at this
  revert this; decide

theorem nonl_epochLine (hdr : List HdrRec) (e : Epoch) (h : e.wf hdr = true) : NoNl (epochLine e) := by
  simp only [Epoch.wf, IntCell.wf, NumCell.wf, Cell.wf, Bool.and_eq_true] at h
  obtain ⟨⟨⟨⟨⟨⟨⟨⟨⟨⟨⟨_, hy⟩, hmo⟩, hd⟩, hh⟩, hmi⟩, hs⟩, hf⟩, hns⟩, _⟩, hc⟩, _⟩ := h
  unfold epochLine renderCells
  apply nonl_renderA
  apply nonl_zip
  intro t ht
  simp only [epochCells, List.mem_cons, List.not_mem_nil, or_false] at ht
  rcases ht with rfl | rfl | rfl | rfl | rfl | rfl | rfl | rfl | rfl | rfl
  · intro c hc; simp at hc; subst hc; decide
  · exact nonl_digits hy.1.1.2
  · exact nonl_digits hmo.1.1.2
  · exact nonl_digits hd.1.1.2
  · exact nonl_digits hh.1.1.2
  · exact nonl_digits hmi.1.1.2
  · exact nonl_numText hs.1.1.2
  · exact nonl_digits hf.1.1.2
  · exact nonl_numText hns
  · exact nonl_numText hc.1.1

theorem nonl_satLine (hdr : List HdrRec) (r : SatRec) (hr : r.wf hdr = true) : NoNl (satLine r) := by
  simp only [SatRec.wf, Bool.and_eq_true, decide_eq_true_eq] at hr
  obtain ⟨⟨⟨⟨hsat, _⟩, _⟩, _⟩, hobs⟩ := hr
  match hsm : r.sat, hsat with
  | [c, d1, d2], hsat =>
  simp only [Bool.and_eq_true] at hsat
  obtain ⟨⟨hca, hd1⟩, hd2⟩ := hsat
  rw [satLine_eq r c d1 d2 hsm]
  have hb : NoNl (satBody r) := by
    intro x hx
    rcases satBody_chars r hobs x hx with rfl | hn
    · decide
    · intro e
      have := numChar_not_space hn
      rw [e] at this; revert this; decide
  refine nonl_cons (alpha_facts hca).2.2 (nonl_cons ?_ (nonl_cons ?_ hb))
  · intro e; have := isSpace_of_isDigit hd1; rw [e] at this; revert this; decide
  · intro e; have := isSpace_of_isDigit hd2; rw [e] at this; revert this; decide

theorem nonl_styled (st : Style) {l : Str} (h : NoNl l) : NoNl (styled st l) := by
  cases st
  · exact h
  · exact nonl_rstrip h
  · exact nonl_append h (nonl_blanks _)

theorem nonl_fileLines (F : File) (hwf : F.wf = true) : ∀ l ∈ fileLines F, NoNl l := by
  simp only [File.wf, Bool.and_eq_true] at hwf
  obtain ⟨⟨⟨⟨hhdr, _⟩, _⟩, _⟩, heps⟩ := hwf
  have hok := hdrPairs_ok F.hdr hhdr
  intro l hl
  simp only [fileLines, List.mem_map] at hl
  obtain ⟨l0, hl0, rfl⟩ := hl
  apply nonl_styled
  simp only [rawLines, List.mem_append, List.mem_flatMap, List.mem_cons, List.not_mem_nil, or_false] at hl0
  rcases hl0 with (⟨r, hr, hl0⟩ | rfl) | ⟨e, he, hl0⟩
  · simp only [hdrLines, List.mem_map] at hl0
    obtain ⟨kc, hkc, rfl⟩ := hl0
    have : kc ∈ hdrPairs F.hdr := by
      simp only [hdrPairs, List.mem_flatMap]; exact ⟨r, hr, hkc⟩
    exact nonl_rec kc.1 kc.2 (hok kc this).1
  · exact nonl_eoh
  · have hew := List.all_eq_true.mp heps e he
    obtain ⟨hsp, hsats⟩ := epoch_parts F.hdr e hew
    simp only [blockLines, List.mem_cons, List.mem_append, List.mem_map] at hl0
    rcases hl0 with rfl | ⟨kc, hkc, rfl⟩ | ⟨r, hr, rfl⟩
    · exact nonl_epochLine F.hdr e hew
    · have := hsp kc hkc
      simp only [specialOk, Bool.and_eq_true] at this
      exact nonl_rec kc.1 kc.2 this.1.1.2
    · exact nonl_satLine F.hdr r (hsats r hr)

/-- the lines Python's text-mode iteration yields for the rendered text are the rendered lines -/
theorem lines_render (F : File) (hwf : F.wf = true) : ChainParser.fileLines (render F) = fileLines F :=
  fileLines_joinLines _ (nonl_fileLines F hwf)

end Midgard.Spec.Rinex3ObsFile
