/-
C09 — the field-level steps of `extend` under the semantic memo invariant (`DatasetExtendInv.lean`): a time / time-delta /
sigma / plain leaf extended by the leaf of the other dataset, and the padding of a leaf only one dataset has — each
leaves an array holding what the table demands (`LeafPost`), registered in the memo, and keeps the invariant.
-/
import Midgard.Proofs.DatasetExtendInv
namespace Midgard.Dataset

/-- the leaf a unit of work leaves behind: an array holding what the table demands, `num_obs` = its length -/
def LeafPost (us : Units) (h0 : Heap) (n m : Nat) (s' : St) (it : Item) (nm : String) (k : Kind)
    (u : Option (List String)) (l : Nat) (f' : Field) : Prop :=
  ∃ r no' e, f' = .leaf nm k r no' u l ∧ it.exp us h0 n m = some e ∧ IsRes s'.heap r e ∧ no' = e.1.length ∧
    (it.kind.isPlain = false → ∃ o ∈ it.objs, s'.find o = some r)

/-- a time / time-delta leaf of self extended by the leaf of other, under the invariant -/
theorem extendLeaf_time_step (us : Units) (h0 : Heap) (n m : Nat) (W : Item → Prop) (hI : Items h0 W)
    (hC : Consistent us h0 n m W) (hO : ObjsAgree W) (nm : String) (k : Kind) (hk : k = .time ∨ k = .timeDelta)
    (o no : Nat) (u : Option (List String)) (l : Nat)
    (nm2 : String) (o2 no2 : Nat) (u2 : Option (List String)) (l2 : Nat) (s : St) (f' : Field) (s' : St)
    (ms : MemoSem us h0 n m W s) (hcv : s.conv = us.conv) (hit : W (.both k o u o2 u2))
    (oa : Obj) (hoa : h0[o]? = some oa) (hno : no = oa.rows.length)
    (h : extendLeaf us nm k o no u l (.leaf nm2 k o2 no2 u2 l2) s = .ok (f', s')) :
    LeafPost us h0 n m s' (.both k o u o2 u2) nm k u l f' ∧ HeapExt s.heap s'.heap ∧
      MemoSem us h0 n m W s' ∧ s'.conv = us.conv ∧ PersistW W s s' := by
  have hoa' := ms.heap_get hoa
  simp only [extendLeaf, bne_self_eq_false, Bool.false_eq_true, if_false] at h
  split at h
  · rename_i oa1 ob hoa1 hob
    rw [hoa'] at hoa1; cases hoa1
    split at h
    · simp at h
    · rename_i hkinds
      have hka : oa.kind = k := by
        have : ¬ (oa.kind != k) = true := fun hc => hkinds (by simp [hc])
        simpa using this
      split at h
      · simp at h
      · rename_i o' s1 hr1
        simp only [Except.ok.injEq, Prod.mk.injEq] at h
        obtain ⟨rfl, rfl⟩ := h
        have hr2 : insertObj (s.heap.length + 1) o no o2 s = .ok (o', s1) := by
          rcases hk with rfl | rfl <;>
          · simp only [Kind.isDelta, Kind.isPlain, Bool.false_eq_true, if_false] at hr1
            split at hr1
            · simp at hr1
            · simpa using hr1
        have hflat : oa.kind.flat = true := by rw [hka]; rcases hk with rfl | rfl <;> rfl
        have hnp : (Item.both k o u o2 u2).kind.isPlain = false := by rcases hk with rfl | rfl <;> rfl
        have hns : (k == Kind.sigma) = false := by rcases hk with rfl | rfl <;> rfl
        obtain ⟨ob0, hob0, _⟩ := hI.lt _ hit o2 (by simp [Item.objs, hns])
        have hobeq : ob0 = ob := by have := ms.heap_get hob0; rw [hob] at this; cases this; rfl
        subst hobeq
        have hexp : (Item.both k o u o2 u2).exp us h0 n m =
            some (insertAt oa.rows no (convRows us.conv oa.tag ob0), oa.tag) := by
          rw [hno, insertAt_end]
          rcases hk with rfl | rfl <;> simp [Item.exp, hoa, hob0, Kind.isPlain]
        obtain ⟨r1, e1, ms1, c1, ow, pw⟩ := insert_step us h0 n m W hI hC hO _ hit hnp _ o no o2 s oa ob0 ms hcv
          (by simp [Item.objs, hns]) hoa' hob hflat (Or.inl (by simp [Item.objs, hns])) (by simp [Item.objs, hns]) hexp o' s1 hr2
        refine ⟨⟨o', _, _, rfl, hexp, r1, ?_, fun _ => ow⟩, e1, ms1, c1, pw⟩
        obtain ⟨ov, hv, hrows, _⟩ := r1
        simp [objLen, hv, hrows]
  · simp at h
theorem convRows_empty (cv : Conv) (t : String) (k : Kind) (nd c cnt : Nat) :
    convRows cv t (emptyObj k nd c cnt) = List.replicate cnt (emptyRow k c) := by
  simp [convRows, needsConv, emptyObj]

/-- padding a time / time-delta / sigma leaf (`append_empty` of a leaf only self has: `front = false`, `cnt = m`;
`prepend_empty` of a leaf only other has: `front = true`, `cnt = n`), under the invariant -/
theorem padField_memo_step (us : Units) (h0 : Heap) (n m : Nat) (W : Item → Prop) (hI : Items h0 W)
    (hC : Consistent us h0 n m W) (hO : ObjsAgree W) (front : Bool) (nm : String) (k : Kind)
    (hk : k = .time ∨ k = .timeDelta ∨ k = .sigma)
    (o no : Nat) (u : Option (List String)) (l : Nat) (s : St) (f' : Field) (s' : St)
    (ms : MemoSem us h0 n m W s) (hcv : s.conv = us.conv)
    (hit : W (if front then .otherOnly k o else .selfOnly k o))
    (oa : Obj) (hoa : h0[o]? = some oa) (hno : front = false → no = oa.rows.length)
    (cnt : Nat) (hcnt : cnt = if front then n else m)
    (h : padField front cnt (.leaf nm k o no u l) s = .ok (f', s')) :
    LeafPost us h0 n m s' (if front then .otherOnly k o else .selfOnly k o) nm k u l f' ∧ HeapExt s.heap s'.heap ∧
      MemoSem us h0 n m W s' ∧ s'.conv = us.conv ∧ PersistW W s s' := by
  have hoa' := ms.heap_get hoa
  have hnpl : k.isPlain = false := by rcases hk with rfl | rfl | rfl <;> rfl
  have hnd : k.isDelta = false := by rcases hk with rfl | rfl | rfl <;> rfl
  simp only [padField, hoa'] at h
  split at h
  · split at h <;> simp at h
  · rename_i hguard
    have hka : oa.kind = k := by
      have : ¬ (oa.kind != k) = true := fun hc => hguard (by simp [hc])
      simpa using this
    simp only [hnpl, hnd, Bool.false_eq_true, if_false] at h
    split at h
    · simp at h
    · rename_i o' s1 hr1
      simp only [Except.ok.injEq, Prod.mk.injEq] at h
      obtain ⟨rfl, rfl⟩ := h
      split at hr1
      · simp at hr1
      · rename_i r s2 hins
        simp only [Except.ok.injEq, Prod.mk.injEq] at hr1
        obtain ⟨rfl, rfl⟩ := hr1
        let pos := if front then 0 else no
        let eo := emptyObj k oa.ndim oa.cols cnt
        have hflat : oa.kind.flat = true := by rw [hka]; rcases hk with rfl | rfl | rfl <;> rfl
        have hnp : (if front then Item.otherOnly k o else Item.selfOnly k o).kind.isPlain = false := by
          cases front <;> simpa [Item.kind] using hnpl
        have hmem : o ∈ (if front then Item.otherOnly k o else Item.selfOnly k o).objs := by
          cases front <;> simp [Item.objs]
        have hexp : (if front then Item.otherOnly k o else Item.selfOnly k o).exp us h0 n m =
            some (insertAt oa.rows pos (convRows us.conv oa.tag eo), oa.tag) := by
          simp only [eo, convRows_empty]
          cases front with
          | true => simp [Item.exp, hoa, pos, hcnt, insertAt_zero]
          | false =>
            have := hno rfl
            simp [Item.exp, hoa, pos, hcnt, this, insertAt_end]
        have ms0 := ms.alloc eo
        have hlen : h0.length ≤ s.heap.length := by
          obtain ⟨l', hl'⟩ := ms.ext
          rw [hl']; simp
        have hfe : (s.alloc eo).2.find s.heap.length = none := by
          rw [find_alloc]; exact find_none_of_ge s _ ms.bound (Nat.le_refl _)
        have hsub : ∀ x ∈ (if front then Item.otherOnly k o else Item.selfOnly k o).objs, x = o ∨ x = s.heap.length := by
          cases front <;> simp [Item.objs]
        obtain ⟨r1, e1, ms1, c1, ⟨oo, hoo, hfo⟩, pw⟩ := insert_step us h0 n m W hI hC hO _ hit hnp _ o pos s.heap.length
          (s.alloc eo).2 oa eo ms0
          (by simpa [St.alloc] using hcv) hmem ((HeapExt.alloc s eo).get hoa') (alloc_get s eo) hflat
          (Or.inr ⟨hfe, hlen⟩) hsub hexp r s2 hins
        have e0 := HeapExt.alloc s eo
        obtain ⟨ms2, pw2⟩ := ms1.pop hI s.heap.length hlen
        have pw0 : PersistW W s (s.alloc eo).2 := fun _ _ _ _ _ _ h => h
        refine ⟨⟨r, _, _, rfl, hexp, r1, ?_, fun _ => ⟨oo, hoo, pw2 _ hit hnp oo hoo r hfo⟩⟩, e0.trans e1, ms2,
          by simpa [St.pop] using c1, (pw0.trans pw).trans pw2⟩
        obtain ⟨ov, hv, hrows, _⟩ := r1
        simp [objLen, St.pop, hv, hrows]
/-- a sigma leaf of self extended by the leaf of other (`other.data * factors` is a fresh array), under the invariant -/
theorem extendLeaf_sigma_step (us : Units) (h0 : Heap) (n m : Nat) (W : Item → Prop) (hI : Items h0 W)
    (hC : Consistent us h0 n m W) (hO : ObjsAgree W) (nm : String)
    (o no : Nat) (u : Option (List String)) (l : Nat)
    (nm2 : String) (o2 no2 : Nat) (u2 : Option (List String)) (l2 : Nat) (s : St) (f' : Field) (s' : St)
    (ms : MemoSem us h0 n m W s) (hcv : s.conv = us.conv) (hit : W (.both .sigma o u o2 u2))
    (oa ob0 : Obj) (hoa : h0[o]? = some oa) (hob0 : h0[o2]? = some ob0) (hno : no = oa.rows.length)
    (h : extendLeaf us nm .sigma o no u l (.leaf nm2 .sigma o2 no2 u2 l2) s = .ok (f', s')) :
    LeafPost us h0 n m s' (.both .sigma o u o2 u2) nm .sigma u l f' ∧ HeapExt s.heap s'.heap ∧
      MemoSem us h0 n m W s' ∧ s'.conv = us.conv ∧ PersistW W s s' := by
  have hoa' := ms.heap_get hoa
  simp only [extendLeaf, bne_self_eq_false, Bool.false_eq_true, if_false] at h
  split at h
  · rename_i oa1 ob hoa1 hob
    rw [hoa'] at hoa1; cases hoa1
    split at h
    · simp at h
    · rename_i hkinds
      have hka : oa.kind = .sigma := by
        have : ¬ (oa.kind != .sigma) = true := fun hc => hkinds (by simp [hc])
        simpa using this
      split at h
      · simp at h
      · rename_i o' s1 hr1
        simp only [Except.ok.injEq, Prod.mk.injEq] at h
        obtain ⟨rfl, rfl⟩ := h
        simp only [Kind.isDelta, Bool.false_eq_true, if_false] at hr1
        split at hr1
        · simp at hr1
        · have hsf : (Kind.sigma == Kind.float) = false := by decide
          simp only [hsf, Bool.false_eq_true, if_false, beq_self_eq_true, if_true] at hr1
          split at hr1
          · simp at hr1
          · rename_i fs hfs
            have hobeq : ob0 = ob := by have := ms.heap_get hob0; rw [hob] at this; cases this; rfl
            subst hobeq
            let t : Obj := { ob0 with rows := ob0.rows.map (scaleRow fs) }
            have hflat : oa.kind.flat = true := by rw [hka]; rfl
            have hexp : (Item.both .sigma o u o2 u2).exp us h0 n m =
                some (insertAt oa.rows no (convRows us.conv oa.tag t), oa.tag) := by
              rw [hno, insertAt_end]
              simp [Item.exp, hoa, hob0, hfs, t]
            have ms0 := ms.alloc t
            have hlen : h0.length ≤ s.heap.length := by
              obtain ⟨l', hl'⟩ := ms.ext
              rw [hl']; simp
            have hfe : (s.alloc t).2.find s.heap.length = none := by
              rw [find_alloc]; exact find_none_of_ge s _ ms.bound (Nat.le_refl _)
            obtain ⟨r1, e1, ms1, c1, ow, pw⟩ := insert_step us h0 n m W hI hC hO _ hit rfl _ o no s.heap.length (s.alloc t).2 oa t ms0
              (by simpa [St.alloc] using hcv) (by simp [Item.objs]) ((HeapExt.alloc s t).get hoa') (alloc_get s t) hflat
              (Or.inr ⟨hfe, hlen⟩) (by simp [Item.objs]) hexp o' s1 hr1
            have pw0 : PersistW W s (s.alloc t).2 := fun _ _ _ _ _ _ h => h
            refine ⟨⟨o', _, _, rfl, hexp, r1, ?_, fun _ => ow⟩, (HeapExt.alloc s t).trans e1, ms1, c1, pw0.trans pw⟩
            obtain ⟨ov, hv, hrows, _⟩ := r1
            simp [objLen, hv, hrows]
  · simp at h
/-- `np.insert` of a plain array under the invariant -/
theorem insertPlain_step (us : Units) (h0 : Heap) (n m : Nat) (W : Item → Prop) (hI : Items h0 W)
    (a pos : Nat) (brows : List Row) (s : St) (oa : Obj) (ms : MemoSem us h0 n m W s) (hcv : s.conv = us.conv)
    (hoa : s.heap[a]? = some oa) (r : Nat) (s' : St) (h : insertPlain a pos brows s = .ok (r, s')) :
    IsRes s'.heap r (insertAt oa.rows pos brows, oa.tag) ∧ HeapExt s.heap s'.heap ∧ MemoSem us h0 n m W s' ∧
      s'.conv = us.conv ∧ PersistW W s s' := by
  simp only [insertPlain, hoa] at h
  split at h
  · simp at h
  · rename_i hp
    simp only [Except.ok.injEq, Prod.mk.injEq] at h
    obtain ⟨rfl, rfl⟩ := h
    have hp' : oa.kind.isPlain = true := by simpa using hp
    let new : Obj := { oa with rows := insertAt oa.rows pos brows }
    obtain ⟨m1, p1⟩ := ms.setPlain hI a oa new hoa hp'
    exact ⟨⟨new, alloc_get s new, rfl, rfl⟩, HeapExt.alloc s new, m1, hcv, p1⟩

/-- a plain leaf (bool / float / text) of self extended by the leaf of other, under the invariant -/
theorem extendLeaf_plain_step (us : Units) (h0 : Heap) (n m : Nat) (W : Item → Prop) (hI : Items h0 W)
    (nm : String) (k : Kind) (hk : k.isPlain = true)
    (o no : Nat) (u : Option (List String)) (l : Nat)
    (nm2 : String) (o2 no2 : Nat) (u2 : Option (List String)) (l2 : Nat) (s : St) (f' : Field) (s' : St)
    (ms : MemoSem us h0 n m W s) (hcv : s.conv = us.conv)
    (oa ob : Obj) (hoa : h0[o]? = some oa) (hob : h0[o2]? = some ob) (hno : no = oa.rows.length)
    (h : extendLeaf us nm k o no u l (.leaf nm2 k o2 no2 u2 l2) s = .ok (f', s')) :
    LeafPost us h0 n m s' (.both k o u o2 u2) nm k u l f' ∧ HeapExt s.heap s'.heap ∧
      MemoSem us h0 n m W s' ∧ s'.conv = us.conv ∧ PersistW W s s' := by
  have hoa' := ms.heap_get hoa
  have hob' := ms.heap_get hob
  have hnd : k.isDelta = false := by cases k <;> simp_all [Kind.isPlain, Kind.isDelta]
  have hns : (k == Kind.sigma) = false := by cases k <;> simp_all [Kind.isPlain]
  simp only [extendLeaf, bne_self_eq_false, Bool.false_eq_true, if_false, hoa', hob'] at h
  split at h
  · simp at h
  · split at h
    · simp at h
    · rename_i o' s1 hr1
      simp only [Except.ok.injEq, Prod.mk.injEq] at h
      obtain ⟨rfl, rfl⟩ := h
      simp only [hnd, Bool.false_eq_true, if_false] at hr1
      split at hr1
      · simp at hr1
      · by_cases hf : (k == Kind.float) = true
        · simp only [hf, if_true] at hr1
          split at hr1
          · simp at hr1
          · rename_i fs hfs
            split at hr1
            · simp at hr1
            · obtain ⟨r1, e1, ms1, c1, pw⟩ := insertPlain_step us h0 n m W hI o no _ s oa ms hcv hoa' o' s1 hr1
              have hexp : (Item.both k o u o2 u2).exp us h0 n m = some (insertAt oa.rows no (ob.rows.map (scaleRow fs)), oa.tag) := by
                rw [hno, insertAt_end]; simp [Item.exp, hoa, hob, hf, hfs]
              refine ⟨⟨o', _, _, rfl, hexp, r1, ?_, ?_⟩, e1, ms1, c1, pw⟩
              obtain ⟨ov, hv, hrows, _⟩ := id r1
              · simp [objLen, hv, hrows]
              · intro hc; simp [Item.kind, hk] at hc
        · have hf' : (k == Kind.float) = false := by simpa using hf
          simp only [hf', hns, Bool.false_eq_true, if_false] at hr1
          split at hr1
          · simp at hr1
          · obtain ⟨r1, e1, ms1, c1, pw⟩ := insertPlain_step us h0 n m W hI o no _ s oa ms hcv hoa' o' s1 hr1
            have hexp : (Item.both k o u o2 u2).exp us h0 n m = some (insertAt oa.rows no ob.rows, oa.tag) := by
              rw [hno, insertAt_end]; simp [Item.exp, hoa, hob, hf', hns, hk]
            refine ⟨⟨o', _, _, rfl, hexp, r1, ?_, ?_⟩, e1, ms1, c1, pw⟩
            obtain ⟨ov, hv, hrows, _⟩ := id r1
            · simp [objLen, hv, hrows]
            · intro hc; simp [Item.kind, hk] at hc

/-- padding a plain leaf, under the invariant -/
theorem padField_plain_step (us : Units) (h0 : Heap) (n m : Nat) (W : Item → Prop) (hI : Items h0 W)
    (front : Bool) (nm : String) (k : Kind) (hk : k.isPlain = true)
    (o no : Nat) (u : Option (List String)) (l : Nat) (s : St) (f' : Field) (s' : St)
    (ms : MemoSem us h0 n m W s) (hcv : s.conv = us.conv)
    (oa : Obj) (hoa : h0[o]? = some oa) (hno : front = false → no = oa.rows.length)
    (cnt : Nat) (hcnt : cnt = if front then n else m)
    (h : padField front cnt (.leaf nm k o no u l) s = .ok (f', s')) :
    LeafPost us h0 n m s' (if front then .otherOnly k o else .selfOnly k o) nm k u l f' ∧ HeapExt s.heap s'.heap ∧
      MemoSem us h0 n m W s' ∧ s'.conv = us.conv ∧ PersistW W s s' := by
  have hoa' := ms.heap_get hoa
  simp only [padField, hoa'] at h
  split at h
  · split at h <;> simp at h
  · split at h
    · simp at h
    · rename_i o' s1 hr1
      simp only [Except.ok.injEq, Prod.mk.injEq] at h
      obtain ⟨rfl, rfl⟩ := h
      obtain ⟨r1, e1, ms1, c1, pw⟩ := insertPlain_step us h0 n m W hI o _ _ s oa ms hcv hoa' o' s1 hr1
      have hexp : (if front then Item.otherOnly k o else Item.selfOnly k o).exp us h0 n m =
          some (insertAt oa.rows (if front then 0 else no) (List.replicate cnt (emptyRow k oa.cols)), oa.tag) := by
        cases front with
        | true => simp [Item.exp, hoa, hcnt, insertAt_zero]
        | false =>
          have := hno rfl
          simp [Item.exp, hoa, hcnt, this, insertAt_end]
      refine ⟨⟨o', _, _, rfl, hexp, r1, ?_, ?_⟩, e1, ms1, c1, pw⟩
      obtain ⟨ov, hv, hrows, _⟩ := id r1
      · simp [objLen, hv, hrows]
      · intro hc; cases front <;> simp [Item.kind, hk] at hc
end Midgard.Dataset
