/-
C11, RINEX 2, part 12: chunks, continuation records in sequence, one epoch group (`block_run2`), all epochs (`blocks_run2`).
Core Lean only.
-/
import Midgard.Proofs.Rinex2ObsBlock

namespace Midgard.Spec.Rinex2ObsFile
open Midgard.Text Midgard.FixedCol Midgard.Decimal Midgard.ChainParser Midgard.RinexObs Midgard.Rinex2Obs
open Midgard.Spec.Rinex3ObsFile (Obs Style styled rstrip_styled)

/-! ### chunks -/

theorem chunks_flatten {α} (k : Nat) (hk : 0 < k) : ∀ (fuel : Nat) (l : List α), l.length ≤ fuel → (chunks k fuel l).flatten = l := by
  intro fuel
  induction fuel with
  | zero => intro l h; cases l <;> simp_all [chunks]
  | succ fuel ih =>
    intro l h
    unfold chunks
    cases hl : l.isEmpty with
    | true => simp [List.isEmpty_iff.mp hl]
    | false =>
      simp only [Bool.false_eq_true, if_false, List.flatten_cons]
      rw [ih (l.drop k) (by
        have : 0 < l.length := by cases l <;> simp_all
        simp; omega), List.take_append_drop]

theorem chunks_ne {α} (k : Nat) (hk : 0 < k) : ∀ (fuel : Nat) (l : List α), ∀ c ∈ chunks k fuel l, c ≠ [] := by
  intro fuel
  induction fuel with
  | zero => intro l c hc; simp [chunks] at hc
  | succ fuel ih =>
    intro l c hc
    unfold chunks at hc
    cases hl : l.isEmpty with
    | true => rw [hl] at hc; simp at hc
    | false =>
      rw [hl] at hc
      simp only [Bool.false_eq_true, if_false] at hc
      rcases List.mem_cons.mp hc with rfl | hc
      · cases l with
        | nil => simp at hl
        | cons a l => cases k <;> simp_all
      · exact ih _ c hc

theorem chunks_sub {α} (k : Nat) : ∀ (fuel : Nat) (l : List α), ∀ c ∈ chunks k fuel l, ∀ x ∈ c, x ∈ l := by
  intro fuel
  induction fuel with
  | zero => intro l c hc; simp [chunks] at hc
  | succ fuel ih =>
    intro l c hc x hx
    unfold chunks at hc
    split at hc
    · simp at hc
    · rcases List.mem_cons.mp hc with rfl | hc
      · exact List.mem_of_mem_take hx
      · exact List.mem_of_mem_drop (ih _ c hc x hx)

/-! ### continuation records in sequence -/

theorem conts_run (st : Style) (H : State) (d : Data) (info : EpochInfo) (ns : Option Int) :
    ∀ (cs : List (List Str)) (old : List Str) (len : Option Nat),
      (∀ c ∈ cs, c ≠ [] ∧ c.length ≤ 12 ∧ (∀ s ∈ c, SatOk s) ∧ SysStyle c) →
      ∃ len', runObs (cs.map fun c => styled st (contLine c)) (mk2 H d (cacheOf old info ns len)) =
        .ok (mk2 H d (cacheOf (old ++ cs.flatten.map normSat) info ns len')) := by
  intro cs
  induction cs with
  | nil => intro old len _; exact ⟨len, by simp [runObs, pure, Except.pure]⟩
  | cons c cs ih =>
    intro old len h
    obtain ⟨hne, hl, hok, hsty⟩ := h c (by simp)
    have hfx := cont_line_fx st c hne hl hok hsty 0 (mk2 H d (cacheOf old info ns len)) old rfl
    obtain ⟨len', hrest⟩ := ih (old ++ c.map normSat) (some (old ++ c.map normSat).length) (fun c' hc' => h c' (by simp [hc']))
    refine ⟨len', ?_⟩
    rw [List.map_cons, runObs_cons, hfx]
    have : afterCont (mk2 H d (cacheOf old info ns len)) (old ++ c.map normSat) =
        mk2 H d (cacheOf (old ++ c.map normSat) info ns (some (old ++ c.map normSat).length)) := rfl
    rw [this]
    simp only
    rw [hrest]
    simp [List.append_assoc]


/-! ### one epoch group -/

def contChunks (e : Epoch) : List (List Str) :=
  chunks 12 (e.sats.map (·.sat)).length ((e.sats.map (·.sat)).drop 12)

/-- the lines of an epoch group as the proofs see them -/
def blockLinesR (e : Epoch) : List Str := epochLine e :: ((contChunks e).map contLine ++ e.sats.flatMap satLinesR)

theorem epochLines_eq (e : Epoch) : epochLines e = epochLine e :: (contChunks e).map contLine := by
  unfold epochLines contChunks
  simp only []
  rw [epochLines_head]
  congr 1
  apply List.map_congr_left
  intro c hc
  have hl := chunks_len 12 _ _ c hc
  simp [Spec.Rinex.renderRecord, contLine, hl]

theorem blockLines_eq (e : Epoch) : blockLines e = blockLinesR e := by
  unfold blockLines blockLinesR
  rw [epochLines_eq, List.cons_append]
  congr 2
  exact Midgard.Spec.Rinex3ObsFile.flatMap_congr' (fun r _ => satLines_eq r)

structure EpochWf (ts : List Str) (e : Epoch) : Prop where
  ok : EpochOk e
  sats : ∀ r ∈ e.sats, SatOk r.sat ∧ r.obs.length = ts.length ∧ r.obs ≠ [] ∧ r.obs.all Obs.wf = true ∧ r.obs.all obsShape = true
  style : SysStyle (e.sats.map (·.sat))

/-- **one epoch group of RINEX 2**: epoch record, continuation records of the satellite list, the observation lines of
every satellite — one row per satellite, none when the sampling rate decimates the epoch -/
theorem block_run2 (st : Style) (ts : List Str) (hnd : ts.Nodup) (m t : Str) (H : State) (hH : HF ts m t H)
    (e : Epoch) (he : EpochWf ts e) (y : Int) (hy : pyInt (t.take 2 ++ zfill 2 e.yy.text) = .ok y) (rows : List Row) :
    ∃ c, runObs ((blockLinesR e).map (styled st)) (mk2 H (dataOf2 ts (lower m) rows H.data) {}) =
      .ok (mk2 H (dataOf2 ts (lower m) (rows ++ if kept H.rate e then e.sats.map (rowOfSat (info2 H.rate y e)) else []) H.data) c) := by
  have hfx := epoch_line_fx st e he.ok 0 (mk2 H (dataOf2 ts (lower m) rows H.data) {}) t y hH.hfirst hy
  have hids : ∀ s ∈ e.sats.map (·.sat), SatOk s := he.ok.ids
  have hcs : ∀ c ∈ contChunks e, c ≠ [] ∧ c.length ≤ 12 ∧ (∀ s ∈ c, SatOk s) ∧ SysStyle c := by
    intro c hc
    have hsub := chunks_sub 12 _ _ c hc
    refine ⟨chunks_ne 12 (by omega) _ _ c hc, chunks_len 12 _ _ c hc, fun s hs => hids s (List.mem_of_mem_drop (hsub s hs)), ?_⟩
    rcases he.style with h | h
    · exact Or.inl fun s hs => h s (List.mem_of_mem_drop (hsub s hs))
    · exact Or.inr fun s hs => h s (List.mem_of_mem_drop (hsub s hs))
  have hafter : afterEpoch (mk2 H (dataOf2 ts (lower m) rows H.data) {}) (info2 H.rate y e) (digitsVal e.numSat : Int) ((ids12 e).map normSat) =
      mk2 H (dataOf2 ts (lower m) rows H.data)
        (cacheOf ((ids12 e).map normSat) (info2 H.rate y e) (some (digitsVal e.numSat : Int)) (some ((ids12 e).map normSat).length)) := rfl
  obtain ⟨len', hconts⟩ := conts_run st H (dataOf2 ts (lower m) rows H.data) (info2 H.rate y e) (some (digitsVal e.numSat : Int))
    (contChunks e) ((ids12 e).map normSat) (some ((ids12 e).map normSat).length) hcs
  have hall : (ids12 e).map normSat ++ (contChunks e).flatten.map normSat = e.sats.map fun r => normSat r.sat := by
    unfold contChunks
    rw [chunks_flatten 12 (by omega) _ _ (by simp), ← List.map_append]
    unfold ids12
    rw [List.take_append_drop, List.map_map]
    rfl
  rw [hall] at hconts
  simp only [blockLinesR, List.map_cons, List.map_append, List.map_map, Function.comp_def]
  rw [runObs_cons, hfx]
  simp only
  have hrate : (mk2 H (dataOf2 ts (lower m) rows H.data) {}).rate = H.rate := rfl
  rw [hrate, hafter, runObs_append, hconts]
  simp only
  by_cases hk : kept H.rate e = true
  · have hq : (info2 H.rate y e).obsSec = some (obsSec e) := by simp [info2, hk]
    have := sats_run2 st ts hnd m t H hH (info2 H.rate y e) (obsSec e) hq (some (digitsVal e.numSat : Int)) len' e.sats rows he.sats
    rw [this]
    exact ⟨cacheOf [] (info2 H.rate y e) (some (digitsVal e.numSat : Int)) len', by simp [hk]⟩
  · have hk' : kept H.rate e = false := by simpa using hk
    have hq : (info2 H.rate y e).obsSec = none := by simp [info2, hk']
    have := sats_skip2 st H (dataOf2 ts (lower m) rows H.data)
      (cacheOf (e.sats.map fun r => normSat r.sat) (info2 H.rate y e) (some (digitsVal e.numSat : Int)) len') (info2 H.rate y e) rfl hq
      e.sats (fun r hr => ⟨(he.sats r hr).2.2.2.1, (he.sats r hr).2.2.2.2⟩)
    rw [this]
    exact ⟨cacheOf (e.sats.map fun r => normSat r.sat) (info2 H.rate y e) (some (digitsVal e.numSat : Int)) len', by simp [hk']⟩


/-! ### all epochs -/

def yearOf (t : Str) (e : Epoch) : Int :=
  match pyInt (t.take 2 ++ zfill 2 e.yy.text) with
  | .ok y => y
  | .error _ => 0

def rowsOf2 (rate : Option Rat) (t : Str) (eps : List Epoch) : List Row :=
  eps.flatMap fun e => if kept rate e then e.sats.map (rowOfSat (info2 rate (yearOf t e) e)) else []

def blockTailR (e : Epoch) : List Str := (contChunks e).map contLine ++ e.sats.flatMap satLinesR

theorem blockLinesR_eq (e : Epoch) : blockLinesR e = epochLine e :: blockTailR e := rfl

theorem resetCache_mk2 (H : State) (d : Data) (c : Cache) : resetCache (mk2 H d c) = mk2 H d {} := rfl

/-- **the data section of RINEX 2**, by induction over the epochs -/
theorem blocks_run2 (st : Style) (ts : List Str) (hnd : ts.Nodup) (m t : Str) (H : State) (hH : HF ts m t H) :
    ∀ (eps : List Epoch) (rows : List Row), (∀ e ∈ eps, EpochWf ts e) →
      (∀ e ∈ eps, ∃ y, pyInt (t.take 2 ++ zfill 2 e.yy.text) = .ok y) →
      readData headerParser obsParser resetCache ((eps.flatMap blockLinesR).map (styled st)) false 0
          (mk2 H (dataOf2 ts (lower m) rows H.data) {}) =
        .ok (mk2 H (dataOf2 ts (lower m) (rows ++ rowsOf2 H.rate t eps) H.data) {}) := by
  intro eps
  induction eps with
  | nil => intro rows _ _; simp [readData, rowsOf2, pure, Except.pure]
  | cons e eps ih =>
    intro rows hw hy
    have he := hw e (by simp)
    obtain ⟨y, hye⟩ := hy e (by simp)
    have hyo : yearOf t e = y := by simp [yearOf, hye]
    obtain ⟨c, hb⟩ := block_run2 st ts hnd m t H hH e he y hye rows
    have hbl : ((e :: eps).flatMap blockLinesR).map (styled st) =
        styled st (epochLine e) :: ((blockTailR e).map (styled st) ++ (eps.flatMap blockLinesR).map (styled st)) := by
      simp [List.flatMap_cons, blockLinesR_eq]
    have hmore : ((eps.flatMap blockLinesR).map (styled st)) = [] ∨ ∃ m' ms, ((eps.flatMap blockLinesR).map (styled st)) = m' :: ms ∧
        isEnd (m' ++ ['\n']) = true := by
      cases eps with
      | nil => left; rfl
      | cons e' eps' =>
        right
        exact ⟨styled st (epochLine e'), List.map (styled st) (blockTailR e' ++ eps'.flatMap blockLinesR),
          by simp [List.flatMap_cons, blockLinesR_eq], epochLine_end st e' (hw e' (by simp)).ok⟩
    have hls : ∀ l ∈ (blockTailR e).map (styled st), isEnd (l ++ ['\n']) = false := by
      intro l hl
      simp only [blockTailR, List.map_append, List.map_map, List.mem_append, List.mem_map, Function.comp, List.mem_flatMap, satLinesR] at hl
      rcases hl with ⟨cc, hcc, rfl⟩ | ⟨l0, ⟨r, hr, ck, hck, rfl⟩, rfl⟩
      · have hsub := chunks_sub 12 _ _ cc hcc
        exact contLine_not_end st cc (chunks_ne 12 (by omega) _ _ cc hcc) (chunks_len 12 _ _ cc hcc)
          (fun s hs => he.ok.ids s (List.mem_of_mem_drop (hsub s hs)))
      · have hsub := chunks_sub 5 _ _ ck hck
        exact obsLine_not_end st ck (List.all_eq_true.mpr fun o ho => List.all_eq_true.mp (he.sats r hr).2.2.2.1 o (hsub o ho))
    rw [hbl, readData_block2 _ _ _ hls hmore 0]
    simp only [blockLinesR_eq, List.map_cons] at hb
    rw [hb]
    simp only [resetCache_mk2]
    have hrows : rowsOf2 H.rate t (e :: eps) =
        (if kept H.rate e then e.sats.map (rowOfSat (info2 H.rate y e)) else []) ++ rowsOf2 H.rate t eps := by
      simp [rowsOf2, List.flatMap_cons, hyo]
    have ih' := ih (rows ++ if kept H.rate e then e.sats.map (rowOfSat (info2 H.rate y e)) else [])
      (fun e' he' => hw e' (by simp [he'])) (fun e' he' => hy e' (by simp [he']))
    rw [hrows, ← List.append_assoc]
    cases hm : (eps.flatMap blockLinesR).map (styled st) with
    | nil =>
      have hnil : eps = [] := by
        cases eps with
        | nil => rfl
        | cons e' eps' => simp [List.flatMap_cons, blockLinesR_eq] at hm
      subst hnil
      simp [rowsOf2]
    | cons m' ms =>
      simp only
      rw [← hm]
      exact ih'

end Midgard.Spec.Rinex2ObsFile
