import Midgard.Proofs.GeoBoundCore
namespace Midgard.Geo.Acc

theorem scaled_lower (e x B emax : ℝ) (he0 : 0 ≤ e) (he : e ≤ emax) (hB : 0 ≤ B) (hx : -B ≤ x) : -(emax * B) ≤ e * x := by
  have h1 : e * (-B) ≤ e * x := mul_le_mul_of_nonneg_left hx he0
  have h2 : e * B ≤ emax * B := mul_le_mul_of_nonneg_right he hB
  linarith

/-- lower bounds of the cofactors on the box -/
theorem K_lower (q P A : ℝ) (hq : 0.9966 ≤ q) (hq1 : q ≤ 1) (he : 1 - q ^ 2 ≤ 0.0067) (hP : 0 ≤ P) (hP' : P ≤ 1.02)
    (hAlo : 0.9804 ≤ A) (hA' : A ≤ 1.0165) :
    0 ≤ K0 A P q ∧ (1.6967 : ℝ) ≤ K1 A P q ∧ (1.6737 : ℝ) ≤ K2 A P q := by
  have hq0 : 0 < q := by linarith
  have hA0 : 0 < A := by linarith
  have he0 : 0 ≤ 1 - q ^ 2 := by nlinarith
  have hA6 : (0.888 : ℝ) ≤ A ^ 6 := by
    have := pow_le_pow_left₀ (by norm_num : (0:ℝ) ≤ 0.9804) hAlo 6
    have h2 : (0.888 : ℝ) ≤ (0.9804 : ℝ) ^ 6 := by norm_num
    linarith
  have hA5 : (0.9 : ℝ) ≤ A ^ 5 := by
    have := pow_le_pow_left₀ (by norm_num : (0:ℝ) ≤ 0.9804) hAlo 5
    have h2 : (0.9 : ℝ) ≤ (0.9804 : ℝ) ^ 5 := by norm_num
    linarith
  obtain ⟨hk0, hk1, hk2⟩ := K_decomp A P q
  have b0 := K0r_bounds A P q hA0.le hP hq0.le hA' hP' hq1
  have b1 := K1r_bounds A P q hA0.le hP hq0.le hA' hP' hq1
  have b2 := K2r_bounds A P q hA0.le hP hq0.le hA' hP' hq1
  have s0 := scaled_lower (1 - q ^ 2) (K0r A P q) (327 / 25) 0.0067 he0 he (by norm_num) b0.1
  have s1 := scaled_lower (1 - q ^ 2) (K1r A P q) (1093 / 100) 0.0067 he0 he (by norm_num) b1.1
  have s2 := scaled_lower (1 - q ^ 2) (K2r A P q) (763 / 50) 0.0067 he0 he (by norm_num) b2.1
  have h2 : 2 * (0.888 : ℝ) * 0.9966 ≤ 2 * A ^ 6 * q := by
    have := mul_le_mul hA6 hq (by norm_num) (by positivity)
    linarith
  refine ⟨?_, ?_, ?_⟩
  · rw [hk0]; norm_num at s0 ⊢; linarith
  · rw [hk1]; norm_num at s1 h2 ⊢; linarith
  · rw [hk2]; norm_num at s2 ⊢; linarith

/-- upper bound of `|H|` on the box -/
theorem H_upper (q P A : ℝ) (hq0 : 0 ≤ q) (hq1 : q ≤ 1) (he0 : 0 ≤ 1 - q ^ 2) (he : 1 - q ^ 2 ≤ 0.0067) (hP : 0 ≤ P) (hP1 : P ≤ 1.0197)
    (hA0 : 0 ≤ A) (hAhi : A ≤ 1.0162) : |HH A P q| ≤ (111.2 : ℝ) := by
  have hA' : A ≤ 1.0165 := by linarith
  have hP' : P ≤ 1.02 := by linarith
  have c1 := Hr1_bounds A P q hA0 hP hq0 hA' hP' hq1
  have c2 := Hr2_bounds A P q hA0 hP hq0 hA' hP' hq1
  have hA15 : A ^ 15 ≤ (1.2726 : ℝ) := by
    have := pow_le_pow_left₀ hA0 hAhi 15
    have h2 : (1.0162 : ℝ) ^ 15 ≤ 1.2726 := by norm_num
    linarith
  rw [H_decomp]
  set e := 1 - q ^ 2
  have hAsq : A ^ 2 ≤ 1.0162 ^ 2 := pow_le_pow_left₀ hA0 hAhi 2
  have hPsq : P ^ 2 ≤ 1.0197 ^ 2 := pow_le_pow_left₀ hP hP1 2
  have h0 : |16 * A ^ 15 * (4 * A ^ 2 - 5 * P ^ 2)| ≤ 16 * 1.2726 * 5.2 := by
    rw [abs_mul, abs_of_nonneg (by positivity : (0:ℝ) ≤ 16 * A ^ 15)]
    have h4 : |4 * A ^ 2 - 5 * P ^ 2| ≤ 5.2 := by
      rw [abs_le]; norm_num at hAsq hPsq ⊢; constructor <;> linarith [sq_nonneg A, sq_nonneg P]
    have : 16 * A ^ 15 ≤ 16 * 1.2726 := by linarith
    exact mul_le_mul this h4 (abs_nonneg _) (by norm_num)
  have h1 : |e * Hr1 A P q| ≤ 0.0067 * (35693 / 50) := by
    rw [abs_mul, abs_of_nonneg he0]
    have : |Hr1 A P q| ≤ 35693 / 50 := by rw [abs_le]; constructor <;> linarith [c1.1, c1.2]
    exact mul_le_mul he this (abs_nonneg _) (by norm_num)
  have h2 : |e ^ 2 * Hr2 A P q| ≤ 0.0067 ^ 2 * (210863 / 20) := by
    rw [abs_mul, abs_of_nonneg (by positivity : (0:ℝ) ≤ e ^ 2)]
    have : |Hr2 A P q| ≤ 210863 / 20 := by rw [abs_le]; constructor <;> linarith [c2.1, c2.2]
    have he2 : e ^ 2 ≤ 0.0067 ^ 2 := pow_le_pow_left₀ he0 he 2
    exact mul_le_mul he2 this (abs_nonneg _) (by norm_num)
  calc |16 * A ^ 15 * (4 * A ^ 2 - 5 * P ^ 2) + e * Hr1 A P q + e ^ 2 * Hr2 A P q|
      ≤ |16 * A ^ 15 * (4 * A ^ 2 - 5 * P ^ 2)| + |e * Hr1 A P q| + |e ^ 2 * Hr2 A P q| := abs_add_three _ _ _
    _ ≤ 111.2 := by norm_num at h0 h1 h2 ⊢; linarith

/-- the numbers: on the box `0.9966 ≤ q ≤ 1`, `e = 1 − q² ≤ 0.0067`, `|A − q| ≤ 0.0162`, the normalised offset is below
`1.2949e-13` -/
theorem offset_near_normalised (q P S A s1 cc D W : ℝ)
    (hq : 0.9966 ≤ q) (hq1 : q ≤ 1) (he : 1 - q ^ 2 ≤ 0.0067) (hP : 0 < P) (hS : 0 < S) (hA0 : 0 < A)
    (hAA : A * A = q * P * (q * P) + S * S) (hnear : |A - q| ≤ 0.0162)
    (hs1 : s1 = P * S * K1 A P q / 2) (hcc : cc = P ^ 2 * q * K2 A P q / 2)
    (hD : D = Real.sqrt (s1 * s1 + cc * cc)) (hW : W = Real.sqrt (q ^ 2 * (s1 * s1) + cc * cc)) :
    |(S * cc - P * s1) / D + (1 - q ^ 2) * s1 * cc / (D * W)| ≤ 1.2949e-13 := by
  have hq0 : 0 < q := by linarith
  obtain ⟨hlo, hhi⟩ := abs_le.1 hnear
  have hAlo : 0.9804 ≤ A := by linarith
  have hAhi : A ≤ 1.0162 := by linarith
  have hA' : A ≤ 1.0165 := by linarith
  set e := 1 - q ^ 2 with hed
  have he0 : 0 ≤ e := by rw [hed]; nlinarith
  -- P ≤ 1.02, S ≤ A
  have hqP : q * P ≤ A := by
    by_contra h
    have h' : A < q * P := not_le.1 h
    have := mul_lt_mul'' h' h' hA0.le hA0.le
    nlinarith [mul_self_nonneg S]
  have hP1 : P ≤ 1.0197 := by nlinarith
  have hP' : P ≤ 1.02 := by linarith
  have hSA : S ≤ A := by
    by_contra h
    have h' : A < S := not_le.1 h
    have := mul_lt_mul'' h' h' hA0.le hA0.le
    nlinarith [mul_self_nonneg (q * P)]
  have hP1 : P ≤ 1.0197 := by nlinarith
  obtain ⟨hK0, hK1, hK2⟩ := K_lower q P A hq hq1 he hP.le hP' hAlo hA'
  have hH := H_upper q P A hq0.le hq1 he0 he hP.le hP1 hA0.le hAhi
  have core := offset_core q P S A s1 cc D W 111.2 1.6967 1.6737 hq0 hq1 hP hS hAA hs1 hcc hD hW hH hK1 hK2
    (by norm_num) (by norm_num) hK0
  -- the numbers
  set X := |(S * cc - P * s1) / D + (1 - q ^ 2) * s1 * cc / (D * W)| with hX
  have hX0 : 0 ≤ X := abs_nonneg _
  have hq3 : (0.9898 : ℝ) ≤ q ^ 3 := by
    have := pow_le_pow_left₀ (by norm_num : (0:ℝ) ≤ 0.9966) hq 3
    have h2 : (0.9898 : ℝ) ≤ (0.9966 : ℝ) ^ 3 := by norm_num
    linarith
  have hden : (7.873 : ℝ) ≤ q ^ 3 * 1.6967 * 1.6737 ^ 3 := by
    have : (0.9898 : ℝ) * 1.6967 * 1.6737 ^ 3 ≤ q ^ 3 * 1.6967 * 1.6737 ^ 3 := by
      have h1 : (0.9898 : ℝ) * 1.6967 ≤ q ^ 3 * 1.6967 := by linarith
      exact mul_le_mul_of_nonneg_right h1 (by norm_num)
    have h2 : (7.873 : ℝ) ≤ 0.9898 * 1.6967 * 1.6737 ^ 3 := by norm_num
    linarith
  have he4 : e ^ 4 ≤ 0.0067 ^ 4 := pow_le_pow_left₀ he0 he 4
  have hS3 : S ^ 3 ≤ 1.0162 ^ 3 := pow_le_pow_left₀ hS.le (le_trans hSA hAhi) 3
  have hd3 : |A - q| ^ 3 ≤ 0.0162 ^ 3 := pow_le_pow_left₀ (abs_nonneg _) hnear 3
  have hrhs : e ^ 4 * P * S ^ 3 * |A - q| ^ 3 * 111.2 ≤ 0.0067 ^ 4 * 1.0197 * 1.0162 ^ 3 * 0.0162 ^ 3 * 111.2 := by
    have := mul_le_mul (mul_le_mul (mul_le_mul he4 hP1 hP.le (by norm_num)) hS3 (by positivity) (by norm_num)) hd3
      (by positivity) (by norm_num)
    linarith
  have h7 : X * 7.873 ≤ X * (q ^ 3 * 1.6967 * 1.6737 ^ 3) := mul_le_mul_of_nonneg_left hden hX0
  have hnum : (0.0067 : ℝ) ^ 4 * 1.0197 * 1.0162 ^ 3 * 0.0162 ^ 3 * 111.2 ≤ 1.2949e-13 * 7.873 := by norm_num
  have : X * 7.873 ≤ 1.2949e-13 * 7.873 := by linarith
  linarith

end Midgard.Geo.Acc
