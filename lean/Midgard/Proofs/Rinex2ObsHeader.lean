/-
C11, RINEX 2, part 17: the header state machine at value level — `MARKER NAME`, `TIME OF FIRST OBS` (a year ≥ 10 leaves a time
string that starts with two digits, so the century of every epoch is readable), the invariant `HI` record by record
(`hinv2_fold`), `facts2_of_wf`: what the data section needs from the header holds for every well-formed header, hence
`hdrOk2_of_wf` and the file-level round trip `file2` without a header hypothesis.  Core Lean only.
-/
import Midgard.Proofs.Rinex2ObsTypes
import Midgard.Proofs.Digits
import Midgard.Proofs.NumText

namespace Midgard.Spec.Rinex2ObsFile
open Midgard.Text Midgard.FixedCol Midgard.Decimal Midgard.ChainParser Midgard.RinexObs Midgard.Rinex2Obs
open Midgard.Spec.Rinex3ObsFile (get_set_ne get_set_same bind_ok' addType EmptyCols Cols marker_not_empty nodup_of IntCell spec)
open Midgard.Spec.NumText (mem_allDigits)

/-! ### two leading digits -/

def TwoDig (t : Str) : Prop := ∃ a b, t.take 2 = [a, b] ∧ isDigit a = true ∧ isDigit b = true

theorem twoDig_iso (n : Nat) (hn : 10 ≤ n) (mo d h mi : Int) (sec : Rat) : TwoDig (isoTime (n : Int) mo d h mi sec) := by
  have hf : fmtInt (n : Int) = natDigits n := by
    unfold fmtInt
    have : ¬ ((n : Int) < 0) := by omega
    simp [this]
  have hd := allDigits_natDigits' n
  have hlen : ¬ (natDigits n).length ≤ 1 := by
    rw [length_natDigits_le_iff 1 n (by omega)]
    omega
  cases hD : natDigits n with
  | nil => rw [hD] at hlen; simp at hlen
  | cons a r =>
    cases r with
    | nil => rw [hD] at hlen; simp at hlen
    | cons b r =>
      rw [hD] at hd
      simp only [allDigits, List.all_cons, Bool.and_eq_true] at hd
      refine ⟨a, b, ?_, hd.1, hd.2.1⟩
      simp [isoTime, hf, hD]

theorem zfill_digits (w : Nat) (s : Str) (hne : s ≠ []) (hd : allDigits s = true) : allDigits (zfill w s) = true := by
  cases s with
  | nil => exact absurd rfl hne
  | cons c r =>
    have hc : isDigit c = true := mem_allDigits hd (by simp)
    obtain ⟨h1, h2, _⟩ := isDigit_not_sign hc
    simp only [zfill, h1, h2, decide_false, Bool.or_self, Bool.false_eq_true, if_false]
    rw [allDigits_append, allDigits_replicate_zero, hd]
    rfl

/-- the century in front of a printed two-digit year is a readable year -/
theorem year_readable (t : Str) (ht : TwoDig t) (yy : IntCell) (hw : yy.wf 2 = true) :
    ∃ y, pyInt (t.take 2 ++ zfill 2 yy.text) = .ok y := by
  obtain ⟨a, b, htk, ha, hb⟩ := ht
  simp only [IntCell.wf, Bool.and_eq_true, Bool.not_eq_eq_eq_not, Bool.not_true, List.isEmpty_eq_false_iff] at hw
  obtain ⟨⟨⟨hne, hd⟩, _⟩, _⟩ := hw
  refine ⟨_, pyInt_digits _ (by rw [htk]; simp) ?_⟩
  rw [htk, allDigits_append, zfill_digits 2 _ hne hd]
  simp [allDigits, ha, hb]

/-! ### the invariant -/

/-- the parser state inside the header: `seen` = a first `# / TYPES OF OBSERV` record has been read, `ts` the types so far,
`hasM` / `hasT` = a `MARKER NAME` / `TIME OF FIRST OBS` record has been read -/
structure HI (rate : Option Rat) (n : Nat) (seen : Bool) (ts : List Str) (hasM hasT : Bool) (s : State) : Prop where
  rate : s.rate = rate
  rows : rowCols s.data = ([], [], [], [], [], [], [])
  micros : s.data.timeMicros = []
  marker : ∃ o : Option Str, s.metaD.get [key "marker_name"] = o.map Leaf.text ∧ (hasM = true → o.isSome = true)
  tfirst : ∃ o : Option Str, s.metaD.get [key "time_first_obs"] = o.map Leaf.text ∧ (hasT = true → o.isSome = true) ∧
    ∀ t, o = some t → TwoDig t
  num : s.metaD.get [key "num_obstypes"] = if seen = true then some (.int (n : Int)) else none
  typ : s.metaD.get [key "obstypes"] = if seen = true then some (.list ts) else none
  fresh : seen = false → ts = []
  cols : EmptyCols s.data (ts.foldl addType [])

theorem HI.ne {rate n seen ts hasM hasT s} (h : HI rate n seen ts hasM hasT s) :
    ∀ p, Prot2 p → s.metaD.get p ≠ some .empty := by
  intro p hp
  rcases hp with rfl | rfl | rfl | rfl
  · rw [h.num]; split <;> simp
  · rw [h.typ]; split <;> simp
  · obtain ⟨o, ho, _⟩ := h.marker; rw [ho]; exact marker_not_empty o
  · obtain ⟨o, ho, _⟩ := h.tfirst; rw [ho]; exact marker_not_empty o

theorem prot_num : Prot2 [key "num_obstypes"] := Or.inl rfl
theorem prot_typ : Prot2 [key "obstypes"] := Or.inr (Or.inl rfl)
theorem prot_mark : Prot2 [key "marker_name"] := Or.inr (Or.inr (Or.inl rfl))
theorem prot_first : Prot2 [key "time_first_obs"] := Or.inr (Or.inr (Or.inr rfl))

/-- a plain record -/
theorem hi_frame {rate n seen ts hasM hasT s s'} (h : HI rate n seen ts hasM hasT s) (f : Frame2 s s') :
    HI rate n seen ts hasM hasT s' := by
  have hk : ∀ p, Prot2 p → s'.metaD.get p = s.metaD.get p := fun p hp => f.metaS p hp (h.ne p hp)
  obtain ⟨c1, c2, c3⟩ := h.cols
  exact ⟨by rw [f.rate, h.rate], by rw [f.rows, h.rows], by rw [f.micros, h.micros],
    by rw [hk _ prot_mark]; exact h.marker, by rw [hk _ prot_first]; exact h.tfirst,
    by rw [hk _ prot_num]; exact h.num, by rw [hk _ prot_typ]; exact h.typ, h.fresh,
    ⟨by rw [f.obs, c1], by rw [f.lli, c2], by rw [f.snr, c3]⟩⟩

/-- `MARKER NAME` -/
theorem hi_marker {rate n seen ts hasM hasT s} (h : HI rate n seen ts hasM hasT s) (m : Str) :
    HI rate n seen ts true hasT { s with metaD := s.metaD.set [key "marker_name"] (.text m) } := by
  have hk : ∀ p, Prot2 p → p ≠ [key "marker_name"] →
      (s.metaD.set [key "marker_name"] (.text m)).get p = s.metaD.get p :=
    fun p hp hne => get_set_ne _ _ _ _ (Ne.symm hne) (h.ne p hp)
  refine ⟨h.rate, h.rows, h.micros, ⟨some m, get_set_same _ _ _, fun _ => rfl⟩, ?_, ?_, ?_, h.fresh, h.cols⟩
  · show ∃ o, (s.metaD.set [key "marker_name"] (.text m)).get _ = _ ∧ _
    rw [hk _ prot_first (by decide)]; exact h.tfirst
  · show (s.metaD.set [key "marker_name"] (.text m)).get _ = _
    rw [hk _ prot_num (by decide)]; exact h.num
  · show (s.metaD.set [key "marker_name"] (.text m)).get _ = _
    rw [hk _ prot_typ (by decide)]; exact h.typ

theorem names_tfirst : names "TFIRST" = ["year", "month", "day", "hour", "minute", "second", "time_sys"] ∧
    handlerOf "TFIRST" = "_parse_time_of_first_obs" ∧ names "MNAME" = ["marker_name"] ∧ handlerOf "MNAME" = "_parse_string" ∧
    (spec "TFIRST").layout.length = 7 ∧ (spec "MNAME").layout.length = 1 ∧ (spec "TYPES2").layout.length = 10 ∧
    (spec "TYPES2C").layout.length = 9 := by
  decide +kernel

/-- `TIME OF FIRST OBS` with a year of at least 10 -/
theorem hi_tfirst {rate n seen ts hasM hasT s} (h : HI rate n seen ts hasM hasT s) (y : Str) (rest : List Str)
    (hy : y ≠ []) (hyd : allDigits y = true) (hy10 : 10 ≤ digitsVal y) (s' : State)
    (he : parseTimeOf "time_first_obs" (["year", "month", "day", "hour", "minute", "second", "time_sys"].zip (y :: rest)) s = .ok s') :
    HI rate n seen ts hasM true s' := by
  unfold parseTimeOf at he
  obtain ⟨tsys, _, he⟩ := bind_ok' he
  obtain ⟨y1, hy1, he⟩ := bind_ok' he
  have hyy : y1 = y := by
    have : getv (["year", "month", "day", "hour", "minute", "second", "time_sys"].zip (y :: rest)) "year" = .ok y := by
      simp [getv, Values.get, req]
      rfl
    rw [this] at hy1
    exact (Except.ok.inj hy1).symm
  subst hyy
  simp only [hy, ne_eq, not_false_eq_true, if_true] at he
  obtain ⟨t, ht, he⟩ := bind_ok' he
  simp only [pure, Except.pure, Except.ok.injEq] at he
  have htd : TwoDig t := by
    unfold timeString at ht
    obtain ⟨y2, hy2, ht⟩ := bind_ok' ht
    rw [hy1] at hy2
    have := Except.ok.inj hy2
    subst this
    obtain ⟨Y, hY, ht⟩ := bind_ok' ht
    rw [pyInt_digits y1 hy hyd] at hY
    have := Except.ok.inj hY
    subst this
    obtain ⟨_, _, ht⟩ := bind_ok' ht
    obtain ⟨mo, _, ht⟩ := bind_ok' ht
    obtain ⟨_, _, ht⟩ := bind_ok' ht
    obtain ⟨d, _, ht⟩ := bind_ok' ht
    obtain ⟨_, _, ht⟩ := bind_ok' ht
    obtain ⟨hh, _, ht⟩ := bind_ok' ht
    obtain ⟨_, _, ht⟩ := bind_ok' ht
    obtain ⟨mi, _, ht⟩ := bind_ok' ht
    obtain ⟨_, _, ht⟩ := bind_ok' ht
    obtain ⟨sec, _, ht⟩ := bind_ok' ht
    simp only [pure, Except.pure, Except.ok.injEq] at ht
    subst ht
    exact twoDig_iso _ hy10 mo d hh mi sec
  subst he
  have hm1 := MSame2_timeSys tsys s.metaD
  generalize (if tsys ≠ [] then s.metaD.set [key "time_sys"] (Leaf.text tsys) else s.metaD) = m1 at hm1
  have hk : ∀ p, Prot2 p → p ≠ [key "time_first_obs"] →
      (m1.set [key "time_first_obs"] (.text t)).get p = s.metaD.get p := by
    intro p hp hne
    have e := hm1 p hp (h.ne p hp)
    rw [get_set_ne _ _ _ _ (Ne.symm hne) (by rw [e]; exact h.ne p hp), e]
  refine ⟨h.rate, h.rows, h.micros, ?_, ⟨some t, get_set_same _ _ _, fun _ => rfl, ?_⟩, ?_, ?_, h.fresh, h.cols⟩
  · show ∃ o, (m1.set [key "time_first_obs"] (.text t)).get _ = _ ∧ _
    rw [hk _ prot_mark (by decide)]; exact h.marker
  · intro t' ht'
    have := Option.some.inj ht'
    subst this
    exact htd
  · show (m1.set [key "time_first_obs"] (.text t)).get _ = _
    rw [hk _ prot_num (by decide)]; exact h.num
  · show (m1.set [key "time_first_obs"] (.text t)).get _ = _
    rw [hk _ prot_typ (by decide)]; exact h.typ

/-- what a `TInv` of a `# / TYPES OF OBSERV` record gives -/
theorem hi_of_tinv {rate n ts hasM hasT} {seen : Bool} {s s' : State} {m0 : Meta} {l : List Str}
    (h : HI rate n seen ts hasM hasT s) (t : TInv s m0 l s')
    (hnum : m0.get [key "num_obstypes"] = some (.int (n : Int)))
    (hmark : m0.get [key "marker_name"] = s.metaD.get [key "marker_name"])
    (hfirst : m0.get [key "time_first_obs"] = s.metaD.get [key "time_first_obs"]) :
    HI rate n true l hasM hasT s' := by
  refine ⟨by rw [t.rate, h.rate], by rw [t.rows, h.rows], by rw [t.micros, h.micros], ?_, ?_, ?_, ?_, fun e => by simp at e, t.cols⟩
  · rw [t.others _ prot_mark (by decide) (by rw [hmark]; exact h.ne _ prot_mark), hmark]; exact h.marker
  · rw [t.others _ prot_first (by decide) (by rw [hfirst]; exact h.ne _ prot_first), hfirst]; exact h.tfirst
  · rw [t.others _ prot_num (by decide) (by rw [hnum]; simp), hnum]; rfl
  · rw [t.typ]; rfl

/-! ### the header, record by record -/

def seenT (pre : List (String × List Str)) : Bool := pre.any (·.1 == "TYPES2")
def hasM (pre : List (String × List Str)) : Bool := pre.any (·.1 == "MNAME")
def hasT (pre : List (String × List Str)) : Bool := pre.any (·.1 == "TFIRST")

def HInv2 (rate : Option Rat) (n : Nat) (pre : List (String × List Str)) (s : State) : Prop :=
  HI rate n (seenT pre) (types pre) (hasM pre) (hasT pre) s

theorem types_snoc (pre : List (String × List Str)) (kc : String × List Str) :
    types (pre ++ [kc]) = types pre ++
      (if kc.1 = "TYPES2" then nonEmpty (kc.2.drop 1) else if kc.1 = "TYPES2C" then nonEmpty kc.2 else []) := by
  simp only [types, List.flatMap_append, List.flatMap_cons, List.flatMap_nil, List.append_nil, nonEmpty]

theorem any_snoc (pre : List (String × List Str)) (kc : String × List Str) (k : String) :
    (pre ++ [kc]).any (·.1 == k) = (pre.any (·.1 == k) || kc.1 == k) := by
  simp [List.any_append]

theorem kinds_split (k : String) (h : kinds.any (·.1 == k) = true) :
    k = "MNAME" ∨ k = "TFIRST" ∨ k = "TYPES2" ∨ k = "TYPES2C" ∨ plainKinds2.any (·.1 == k) = true := by
  by_cases h1 : k = "MNAME"
  · exact Or.inl h1
  by_cases h2 : k = "TFIRST"
  · exact Or.inr (Or.inl h2)
  by_cases h3 : k = "TYPES2"
  · exact Or.inr (Or.inr (Or.inl h3))
  by_cases h4 : k = "TYPES2C"
  · exact Or.inr (Or.inr (Or.inr (Or.inl h4)))
  refine Or.inr (Or.inr (Or.inr (Or.inr ?_)))
  obtain ⟨x, hx, hxk⟩ := List.any_eq_true.mp h
  simp only [beq_iff_eq] at hxk
  rw [List.any_eq_true]
  refine ⟨x, ?_, by simpa using hxk⟩
  unfold plainKinds2
  rw [List.mem_filter]
  exact ⟨hx, by simp [hxk, h1, h2, h3, h4]⟩

theorem plain_not_special (k : String) (h : plainKinds2.any (·.1 == k) = true) :
    k ≠ "MNAME" ∧ k ≠ "TFIRST" ∧ k ≠ "TYPES2" ∧ k ≠ "TYPES2C" := by
  obtain ⟨x, hx, hxk⟩ := List.any_eq_true.mp h
  simp only [beq_iff_eq] at hxk
  unfold plainKinds2 at hx
  rw [List.mem_filter] at hx
  have := hx.2
  simp only [Bool.and_eq_true, bne_iff_ne, ne_eq] at this
  rw [hxk] at this
  exact ⟨this.1.1.1, this.1.1.2, this.1.2, this.2⟩

theorem cells_len (kc : String × List Str) (h : okCells kc.1 kc.2 = true) : kc.2.length = (spec kc.1).layout.length := by
  simp only [okCells, Bool.and_eq_true, decide_eq_true_eq] at h
  exact h.1.1

theorem hinv2_step (rate : Option Rat) (n : Nat) (pre : List (String × List Str)) (kc : String × List Str) (s s' : State)
    (h : HInv2 rate n pre s) (hp : PairOk kc) (htf : tfirstOk kc = true)
    (h2 : kc.1 = "TYPES2" → seenT pre = false ∧ countOk n kc.2 = true) (h2c : kc.1 = "TYPES2C" → seenT pre = true)
    (he : pairFx2 kc s = .ok s') : HInv2 rate n (pre ++ [kc]) s' := by
  obtain ⟨k, cells⟩ := kc
  obtain ⟨hk, hok, _⟩ := hp
  have hlen := cells_len (k, cells) hok
  simp only at hk hok htf h2 h2c hlen
  unfold pairFx2 at he
  simp only at he
  unfold HInv2 at h ⊢
  unfold seenT hasM hasT at *
  rw [types_snoc, any_snoc, any_snoc, any_snoc]
  simp only
  rcases kinds_split k hk with rfl | rfl | rfl | rfl | hpl
  · -- MARKER NAME
    rw [names_tfirst.2.2.2.2.2.1] at hlen
    match cells, hlen with
    | [m], _ =>
      have : handle (handlerOf "MNAME") (valuesOf "MNAME" [m]) s =
          .ok { s with metaD := s.metaD.set [key "marker_name"] (.text m) } := by
        rw [names_tfirst.2.2.2.1, valuesOf_plain _ _ (by decide), names_tfirst.2.2.1]
        simp [handle, parseString, pure, Except.pure]
      rw [this] at he
      have := Except.ok.inj he
      subst this
      simpa using hi_marker h m
  · -- TIME OF FIRST OBS
    rw [names_tfirst.2.2.2.2.1] at hlen
    match cells, hlen with
    | y :: rest, _ =>
      simp only [tfirstOk, if_true, Bool.and_eq_true, Bool.not_eq_eq_eq_not, Bool.not_true, List.isEmpty_eq_false_iff,
        decide_eq_true_eq] at htf
      rw [names_tfirst.2.1, valuesOf_plain _ _ (by decide), names_tfirst.1] at he
      have he' : parseTimeOf "time_first_obs" (["year", "month", "day", "hour", "minute", "second", "time_sys"].zip (y :: rest)) s = .ok s' := by
        simpa [handle] using he
      simpa using hi_tfirst h y rest htf.1.1 htf.1.2 htf.2 s' he'
  · -- # / TYPES OF OBSERV
    rw [names_tfirst.2.2.2.2.2.2.1] at hlen
    obtain ⟨hns, hc⟩ := h2 rfl
    match cells, hlen with
    | c :: tcs, hl =>
      have hl9 : tcs.length = 9 := by simpa using hl
      rw [hns] at h
      have hts : types pre = [] := h.fresh rfl
      rw [hts] at h ⊢
      have t := types2_first n c tcs hc hl9 s s' (by simpa using h.cols) he
      have hne := h.ne
      have hi := hi_of_tinv h t
        (by rw [get_set_ne _ _ _ _ (by decide) (by rw [get_set_same]; simp), get_set_same])
        (by rw [get_set_ne _ _ _ _ (by decide) (by rw [get_set_ne _ _ _ _ (by decide) (hne _ prot_mark)]; exact hne _ prot_mark),
              get_set_ne _ _ _ _ (by decide) (hne _ prot_mark)])
        (by rw [get_set_ne _ _ _ _ (by decide) (by rw [get_set_ne _ _ _ _ (by decide) (hne _ prot_first)]; exact hne _ prot_first),
              get_set_ne _ _ _ _ (by decide) (hne _ prot_first)])
      simpa using hi
  · -- continuation record
    rw [names_tfirst.2.2.2.2.2.2.2] at hlen
    have hs := h2c rfl
    rw [hs] at h
    have htyp : s.metaD.get [key "obstypes"] = some (.list (types pre)) := by rw [h.typ]; rfl
    have hnum : s.metaD.get [key "num_obstypes"] = some (.int (n : Int)) := by rw [h.num]; rfl
    have t := types2_cont cells hlen (types pre) s s' htyp h.cols he
    have hi := hi_of_tinv h t hnum rfl rfl
    simpa [hs] using hi
  · -- a plain record
    obtain ⟨n1, n2, n3, n4⟩ := plain_not_special k hpl
    have f := plain_frame2 k hpl cells s s' he
    have b1 : (k == "MNAME") = false := beq_eq_false_iff_ne.mpr n1
    have b2 : (k == "TFIRST") = false := beq_eq_false_iff_ne.mpr n2
    have b3 : (k == "TYPES2") = false := beq_eq_false_iff_ne.mpr n3
    simpa [n1, n2, n3, n4, b1, b2, b3] using hi_frame h f

theorem hinv2_fold (rate : Option Rat) (n : Nat) : ∀ (hdr pre : List (String × List Str)) (s H : State), HInv2 rate n pre s →
    (∀ kc ∈ hdr, PairOk kc ∧ tfirstOk kc = true) → typesRecsOk n (seenT pre) hdr = true →
    hdr.foldlM (fun s kc => pairFx2 kc s) s = .ok H → HInv2 rate n (pre ++ hdr) H ∧ seenT (pre ++ hdr) = true := by
  intro hdr
  induction hdr with
  | nil =>
    intro pre s H h _ ht hf
    simp only [List.foldlM_nil, pure, Except.pure, Except.ok.injEq] at hf
    subst hf
    simp only [typesRecsOk] at ht
    simpa using ⟨h, ht⟩
  | cons kc hdr ih =>
    intro pre s H h hw ht hf
    simp only [List.foldlM_cons, bind, Except.bind] at hf
    cases he : pairFx2 kc s with
    | error e => simp [he] at hf
    | ok s1 =>
      simp only [he] at hf
      obtain ⟨hp, htf⟩ := hw kc (by simp)
      have hrec : (kc.1 = "TYPES2" → seenT pre = false ∧ countOk n kc.2 = true) ∧ (kc.1 = "TYPES2C" → seenT pre = true) ∧
          typesRecsOk n (seenT (pre ++ [kc])) hdr = true := by
        unfold typesRecsOk at ht
        have hsn : seenT (pre ++ [kc]) = (seenT pre || kc.1 == "TYPES2") := any_snoc pre kc "TYPES2"
        by_cases h1 : kc.1 = "TYPES2"
        · simp only [h1, if_true, Bool.and_eq_true, Bool.not_eq_eq_eq_not, Bool.not_true] at ht
          refine ⟨fun _ => ⟨ht.1.1, ht.1.2⟩, fun e => by rw [h1] at e; exact absurd e (by decide), ?_⟩
          rw [hsn, h1]; simpa using ht.2
        · by_cases h2 : kc.1 = "TYPES2C"
          · simp only [h2, String.reduceEq, if_false, if_true, Bool.and_eq_true] at ht
            refine ⟨fun e => absurd e h1, fun _ => ht.1, ?_⟩
            rw [hsn, h2]; simpa using ht.2
          · simp only [h1, h2, if_false] at ht
            refine ⟨fun e => absurd e h1, fun e => absurd e h2, ?_⟩
            have b3 : (kc.1 == "TYPES2") = false := beq_eq_false_iff_ne.mpr h1
            rw [hsn, b3]; simpa using ht
      have hstep := hinv2_step rate n pre kc s s1 h hp htf hrec.1 hrec.2.1 he
      have := ih (pre ++ [kc]) s1 H hstep (fun kc' hkc' => hw kc' (by simp [hkc'])) hrec.2.2 hf
      simpa [List.append_assoc] using this

theorem hinv2_init (rate : Option Rat) (n : Nat) : HInv2 rate n [] { rate := rate } :=
  ⟨rfl, rfl, rfl, ⟨none, rfl, fun e => by simp [hasM] at e⟩, ⟨none, rfl, fun e => by simp [hasT] at e, fun _ e => by simp at e⟩,
   rfl, rfl, fun _ => rfl, ⟨rfl, rfl, rfl⟩⟩

theorem foldl_addType_self : ∀ (l acc : List Str), (acc ++ l).Nodup → l.foldl addType acc = acc ++ l := by
  intro l
  induction l with
  | nil => intro acc _; simp
  | cons t l ih =>
    intro acc h
    have hnot : acc.contains t = false := by
      have := (List.nodup_append.mp h).2.2
      cases hc : acc.contains t with
      | false => rfl
      | true =>
        have hm : t ∈ acc := by simpa using hc
        exact absurd rfl (this t hm t (by simp))
    have : addType acc t = acc ++ [t] := by unfold addType; rw [hnot]; rfl
    rw [List.foldl_cons, this, ih (acc ++ [t]) (by simpa [List.append_assoc] using h)]
    simp [List.append_assoc]

/-- **the header of a well-formed RINEX 2 file leaves what the data section relies on** -/
theorem facts2_of_hdr (rate : Option Rat) (F : File) (hpairs : ∀ kc ∈ F.hdr, PairOk kc) (hnd : (types F.hdr).Nodup)
    (htf : F.hdr.all tfirstOk = true) (hrec : typesRecsOk (types F.hdr).length false F.hdr = true)
    (hm : F.hdr.any (·.1 == "MNAME") = true) (ht : F.hdr.any (·.1 == "TFIRST") = true)
    (heps : ∀ e ∈ F.epochs, e.yy.wf 2 = true)
    (H : State) (hH : headerState rate F.hdr = .ok H) : ∃ m t, Facts2 rate F H m t := by
  have hfold := hinv2_fold rate (types F.hdr).length F.hdr [] _ H (hinv2_init rate _)
    (fun kc hkc => ⟨hpairs kc hkc, List.all_eq_true.mp htf kc hkc⟩) (by simpa [seenT] using hrec) hH
  simp only [List.nil_append] at hfold
  obtain ⟨hi, hseen⟩ := hfold
  unfold HInv2 at hi
  rw [hseen] at hi
  obtain ⟨om, hom, homs⟩ := hi.marker
  obtain ⟨ot, hot, hots, hotd⟩ := hi.tfirst
  obtain ⟨m, rfl⟩ := Option.isSome_iff_exists.mp (homs hm)
  obtain ⟨t, rfl⟩ := Option.isSome_iff_exists.mp (hots ht)
  refine ⟨m, t, ⟨by rw [hi.num]; rfl, by rw [hi.typ]; rfl, hom, hot⟩, hi.rate, ?_, ?_⟩
  · intro e he
    exact year_readable t (hotd t rfl) e.yy (heps e he)
  · obtain ⟨c1, c2, c3⟩ := hi.cols
    rw [foldl_addType_self _ [] (by simpa using hnd)] at c1 c2 c3
    simp only [List.nil_append] at c1 c2 c3
    have hr := hi.rows
    have hmi := hi.micros
    simp only [rowCols, Prod.mk.injEq] at hr
    obtain ⟨r1, r2, r3, r4, r5, r6, r7⟩ := hr
    cases hd : H.data with
    | mk hasObs obs lli snr time timeMicros epochFlag clk station system satellite satnum pos =>
      rw [hd] at c1 c2 c3 r1 r2 r3 r4 r5 r6 r7 hmi
      simp only at c1 c2 c3 r1 r2 r3 r4 r5 r6 r7 hmi
      subst c1 c2 c3 r1 r2 r3 r4 r5 r6 r7 hmi
      rfl

/-- … for every well-formed file -/
theorem facts2_of_wf (rate : Option Rat) (F : File) (hwf : F.wf = true) (H : State) (hH : headerState rate F.hdr = .ok H) :
    ∃ m t, Facts2 rate F H m t := by
  obtain ⟨hnd, hpairs, heps⟩ := epochWf_of_wf F hwf
  simp only [File.wf, Bool.and_eq_true] at hwf
  obtain ⟨⟨⟨⟨⟨_, hm⟩, ht⟩, _⟩, hrec⟩, htf⟩ := hwf
  exact facts2_of_hdr rate F hpairs hnd htf hrec hm ht (fun e he => (heps e he).ok.yy) H hH

/-- **the RINEX 2 file-level round trip** for every well-formed file -/
theorem file2 (rate : Option Rat) (F : File) (hwf : F.wf = true) :
    readData headerParser obsParser resetCache (fileLines F) true 0 { rate := rate } = expected rate F :=
  file2_of_facts rate F hwf (facts2_of_wf rate F hwf)

/-- the evaluated header test of the earlier partial theorem holds for every well-formed file -/
theorem hdrOk2_of_wf (rate : Option Rat) (F : File) (hwf : F.wf = true) : hdrOk2 rate F = true := by
  unfold hdrOk2
  cases hH : headerState rate F.hdr with
  | error e => rfl
  | ok H =>
    obtain ⟨m, t, f⟩ := facts2_of_wf rate F hwf H hH
    simp only [Bool.and_eq_true, beq_iff_eq]
    refine ⟨⟨⟨⟨⟨f.hrate, f.hf.hnum⟩, f.hf.htyp⟩, by rw [f.hf.hmark]⟩, ?_⟩, ?_⟩
    · rw [f.hf.hfirst]
      simp only
      rw [List.all_eq_true]
      intro e he
      obtain ⟨y, hy⟩ := f.hyears e he
      rw [hy]
    · exact f.hdata.trans rfl

end Midgard.Spec.Rinex2ObsFile
