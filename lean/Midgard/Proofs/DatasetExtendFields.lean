/-
C09 — `extend` at the level of fields: padding a field tree of `n` rows by `k` empty rows gives a
rectangular tree of `n + k` rows of the same shape; extending a leaf of `n` rows by one of `m` rows
gives `n + m` rows; `Collection._extend` of a rectangular `n`-row tree by a rectangular `m`-row tree
gives a rectangular `n + m`-row tree.
-/
import Midgard.Proofs.DatasetShape

namespace Midgard.Dataset

theorem rect_zero {h : Heap} {n : Nat} {f : Field} (hr : RectField h n f) : RectField h (n + 0) f := by
  simpa using hr

theorem leaf_rect_of_good {h : Heap} {k : Nat} {nm : String} {kd : Kind} {o : Nat} {u : Option (List String)} {l : Nat}
    (g : Good h k o) : RectField h k (.leaf nm kd o (objLen h o) u l) := by
  simp only [RectField]; exact ⟨g, g.objLen⟩

/-! **`FieldType.prepend_empty` / `append_empty`** -/
mutual
theorem padField_spec (front : Bool) (n k : Nat) : ∀ (f : Field) (s : St) (f' : Field) (s' : St),
    padField front k f s = .ok (f', s') → MemoGood (n + k) s → RectField s.heap n f → WFF f →
    ExtOK (n + k) s s' ∧ RectField s'.heap (n + k) f' ∧ SameShape f f'
  | .leaf nm kd o no u l, s, f', s', h, hm, hr, _ => by
    simp only [padField] at h
    split at h
    · rename_i hk
      simp only [Except.ok.injEq, Prod.mk.injEq] at h
      obtain ⟨rfl, rfl⟩ := h
      have : k = 0 := by simpa using hk
      subst this
      exact ⟨⟨HeapExt.refl _, hm⟩, rect_zero hr, SameShape.refl _⟩
    · simp only [RectField] at hr
      obtain ⟨go, _⟩ := hr
      split at h
      · simp at h
      · rename_i ob hob
        split at h
        · simp at h
        · split at h
          · simp at h
          · rename_i o' s1 hr1
            simp only [Except.ok.injEq, Prod.mk.injEq] at h
            obtain ⟨rfl, rfl⟩ := h
            have key : ExtOK (n + k) s s1 ∧ Good s1.heap (n + k) o' := by
              split at hr1
              · -- plain: np.insert of `k` empty rows
                exact insertPlain_spec n k (n + k) o _ _ s o' s1 hr1 hm go (by simp) rfl
              · split at hr1
                · -- delta kinds: an empty delta on an empty reference position
                  rename_i hdelta
                  split at hr1
                  · simp at hr1
                  · rename_i r s2 hins
                    simp only [Except.ok.injEq, Prod.mk.injEq] at hr1
                    obtain ⟨rfl, rfl⟩ := hr1
                    let er : Obj := emptyObj kd.refKind 2 (if kd == .posvelDelta then 6 else 3) k
                    let e : Obj := { emptyObj kd ob.ndim ob.cols k with refPos := some (s.alloc er).1 }
                    have e0 := HeapExt.alloc s er
                    have e1 := HeapExt.alloc (s.alloc er).2 e
                    have ger : Good (s.alloc er).2.heap k (s.alloc er).1 := good_empty s _ _ _ _
                    have ge : Good ((s.alloc er).2.alloc e).2.heap k ((s.alloc er).2.alloc e).1 := by
                      refine Good.mk (ob := e) (alloc_get _ e) (by simp [e, emptyObj]) ?_ ?_
                      · intro x _ hx; simp [e, emptyObj] at hx
                      · intro x _ hx
                        have : x = (s.alloc er).1 := by simpa [e, emptyObj] using hx.symm
                        subst this; exact ger.ext e1
                    obtain ⟨⟨e2, m2⟩, g2⟩ := insertObj_spec n k _ o _ _ _ r s2 hins
                      ((hm.alloc er).alloc e) ((go.ext e0).ext e1) ge
                    exact ⟨⟨(e0.trans e1).trans e2, m2.pop.pop⟩, g2⟩
                · split at hr1
                  · simp at hr1
                  · rename_i r s2 hins
                    simp only [Except.ok.injEq, Prod.mk.injEq] at hr1
                    obtain ⟨rfl, rfl⟩ := hr1
                    have e0 := HeapExt.alloc s (emptyObj kd ob.ndim ob.cols k)
                    obtain ⟨⟨e2, m2⟩, g2⟩ := insertObj_spec n k _ o _ _ _ r s2 hins
                      (hm.alloc _) (go.ext e0) (good_empty s _ _ _ _)
                    exact ⟨⟨e0.trans e2, m2.pop⟩, g2⟩
            exact ⟨key.1, leaf_rect_of_good key.2, by simp [SameShape]⟩
  | .coll nm no l fs, s, f', s', h, hm, hr, hw => by
    simp only [padField] at h
    split at h
    · rename_i hk
      simp only [Except.ok.injEq, Prod.mk.injEq] at h
      obtain ⟨rfl, rfl⟩ := h
      have : k = 0 := by simpa using hk
      subst this
      exact ⟨⟨HeapExt.refl _, hm⟩, rect_zero hr, SameShape.refl _⟩
    · split at h
      · simp at h
      · rename_i fs' s1 hr1
        simp only [Except.ok.injEq, Prod.mk.injEq] at h
        obtain ⟨rfl, rfl⟩ := h
        simp only [RectField] at hr
        have hw' := hw
        simp only [WFF] at hw
        obtain ⟨e, r1, sh⟩ := padFields_spec front n k fs s fs' s1 hr1 hm hr.1 hw.2
        refine ⟨e, ?_, by simp only [SameShape]; exact ⟨_, _, fs', rfl, sh⟩⟩
        simp only [RectField]
        refine ⟨r1, ?_⟩
        by_cases he : fs' = []
        · simp [he, hr.2]
        · have hne : fs'.isEmpty = false := by cases fs' <;> simp_all
          simp only [hne, Bool.false_eq_true, if_false, collLen]
          have hfs : fs ≠ [] := fun h0 => he ((SameShapes.nil_iff sh).mpr h0)
          have hd : Field.lenDef.headDef fs' = true :=
            WFFs.headDef fs' (SameShapes.wffs fs fs' sh hw.2) he
          exact RectFields.len fs' r1 hd
theorem padFields_spec (front : Bool) (n k : Nat) : ∀ (fs : List Field) (s : St) (fs' : List Field) (s' : St),
    padField.padFields front k fs s = .ok (fs', s') → MemoGood (n + k) s → RectField.RectFields s.heap n fs →
    WFF.WFFs fs →
    ExtOK (n + k) s s' ∧ RectField.RectFields s'.heap (n + k) fs' ∧ SameShape.SameShapes fs fs'
  | [], s, fs', s', h, hm, _, _ => by
    simp only [padField.padFields, Except.ok.injEq, Prod.mk.injEq] at h
    obtain ⟨rfl, rfl⟩ := h
    exact ⟨⟨HeapExt.refl _, hm⟩, by simp [RectField.RectFields], by simp [SameShape.SameShapes]⟩
  | f :: fs, s, fs', s', h, hm, hr, hw => by
    simp only [padField.padFields] at h
    split at h
    · simp at h
    · rename_i f1 s1 h1
      split at h
      · simp at h
      · rename_i fs1 s2 h2
        simp only [Except.ok.injEq, Prod.mk.injEq] at h
        obtain ⟨rfl, rfl⟩ := h
        simp only [RectField.RectFields] at hr
        simp only [WFF.WFFs] at hw
        obtain ⟨⟨e1, m1⟩, r1, sh1⟩ := padField_spec front n k f s f1 s1 h1 hm hr.1 hw.1.1
        obtain ⟨⟨e2, m2⟩, r2, sh2⟩ := padFields_spec front n k fs s1 fs1 s2 h2 m1 (RectFields.ext e1 fs hr.2) hw.2
        refine ⟨⟨e1.trans e2, m2⟩, ?_, ?_⟩
        · simp only [RectField.RectFields]; exact ⟨RectField.ext e2 f1 r1, r2⟩
        · simp only [SameShape.SameShapes]; exact ⟨f1, fs1, rfl, sh1, sh2⟩
end

/-- **`FieldType.extend` of a leaf**: `n` rows extended by `m` rows are `n + m` rows -/
theorem extendLeaf_spec (us : Units) (n m : Nat) (nm : String) (k : Kind) (o no : Nat) (u : Option (List String))
    (l : Nat) (g : Field) (s : St) (f' : Field) (s' : St)
    (h : extendLeaf us nm k o no u l g s = .ok (f', s')) (hm : MemoGood (n + m) s)
    (hr : RectField s.heap n (.leaf nm k o no u l)) (hg : RectField s.heap m g) :
    ExtOK (n + m) s s' ∧ RectField s'.heap (n + m) f' ∧ (∃ o' no', f' = .leaf nm k o' no' u l) := by
  simp only [extendLeaf] at h
  split at h
  · simp at h
  · rename_i nm2 k2 o2 no2 u2 l2
    split at h
    · simp at h
    · simp only [RectField] at hr hg
      obtain ⟨go, _⟩ := hr
      obtain ⟨go2, _⟩ := hg
      split at h
      · rename_i oa ob hoa hob
        split at h
        · simp at h
        · rename_i hkinds
          have hka : oa.kind = k ∧ ob.kind = k := by
            have h0 : ¬ ((oa.kind != k || ob.kind != k) = true) := hkinds
            simp only [Bool.or_eq_true, bne_iff_ne, ne_eq, not_or, Decidable.not_not] at h0
            exact h0
          obtain ⟨ob', hb1, hb2, _, _⟩ := go2.dest
          rw [hob] at hb1; cases hb1
          split at h
          · simp at h
          · rename_i o' s1 hr1
            simp only [Except.ok.injEq, Prod.mk.injEq] at h
            obtain ⟨rfl, rfl⟩ := h
            have key : ExtOK (n + m) s s1 ∧ Good s1.heap (n + m) o' := by
              split at hr1
              · exact insertObj_spec n m _ o no o2 s o' s1 hr1 hm go go2
              · split at hr1
                · simp at hr1
                · split at hr1
                  · -- float: unit factors, then np.insert
                    split at hr1
                    · simp at hr1
                    · split at hr1
                      · simp at hr1
                      · exact insertPlain_spec n m (n + m) o no _ s o' s1 hr1 hm go (by simp [hb2]) rfl
                  · split at hr1
                    · -- sigma: `other.data * factors` is a fresh array, then SigmaArray.insert
                      rename_i hsig
                      split at hr1
                      · simp at hr1
                      · rename_i fs _
                        let t : Obj := { ob with rows := ob.rows.map (scaleRow fs) }
                        have e0 := HeapExt.alloc s t
                        have hks : k = .sigma := by simpa using hsig
                        have gt : Good (s.alloc t).2.heap m (s.alloc t).1 := by
                          refine Good.mk (ob := t) (alloc_get s t) (by simp [t, hb2]) ?_ ?_
                          · intro x hx
                            rw [show t.kind = ob.kind from rfl, hka.2, hks] at hx
                            simp [Kind.hasOther] at hx
                          · intro x hx
                            rw [show t.kind = ob.kind from rfl, hka.2, hks] at hx
                            simp [Kind.isDelta] at hx
                        obtain ⟨⟨e1, m1⟩, g1⟩ := insertObj_spec n m _ o no _ _ o' s1 hr1 (hm.alloc t) (go.ext e0) gt
                        exact ⟨⟨e0.trans e1, m1⟩, g1⟩
                    · split at hr1
                      · split at hr1
                        · simp at hr1
                        · exact insertPlain_spec n m (n + m) o no _ s o' s1 hr1 hm go hb2 rfl
                      · exact insertObj_spec n m _ o no o2 s o' s1 hr1 hm go go2
            exact ⟨key.1, leaf_rect_of_good key.2, ⟨_, _, rfl⟩⟩
      · simp at h

end Midgard.Dataset
