/-
C09 — `extend` at the level of fields: padding a field tree of `n` rows by `k` empty rows gives a
rectangular tree of `n + k` rows of the same shape; extending a leaf of `n` rows by one of `m` rows
gives `n + m` rows; `Collection._extend` of a rectangular `n`-row tree by a rectangular `m`-row tree
gives a rectangular `n + m`-row tree.
-/
import Midgard.Proofs.DatasetShape

namespace Midgard.Dataset

theorem rect_zero {h : Heap} {n : Nat} {f : Field} (hr : RectField h n f) : RectField h (n + 0) f := by
  simpa using hr

theorem leaf_rect_of_good {h : Heap} {k : Nat} {nm : String} {kd : Kind} {o : Nat} {u : Option (List String)} {l : Nat}
    (g : Good h k o) : RectField h k (.leaf nm kd o (objLen h o) u l) := by
  simp only [RectField]; exact ⟨g, g.objLen⟩

/-! **`FieldType.prepend_empty` / `append_empty`** -/
mutual
theorem padField_spec (front : Bool) (n k : Nat) : ∀ (f : Field) (s : St) (f' : Field) (s' : St),
    padField front k f s = .ok (f', s') → MemoGood (n + k) s → RectField s.heap n f → WFF f →
    ExtOK (n + k) s s' ∧ RectField s'.heap (n + k) f' ∧ SameShape f f'
  | .leaf nm kd o no u l, s, f', s', h, hm, hr, _ => by
    simp only [padField] at h
    · simp only [RectField] at hr
      obtain ⟨go, _⟩ := hr
      split at h
      · simp at h
      · rename_i ob hob
        split at h
        · split at h <;> simp at h
        · split at h
          · simp at h
          · rename_i o' s1 hr1
            simp only [Except.ok.injEq, Prod.mk.injEq] at h
            obtain ⟨rfl, rfl⟩ := h
            have key : ExtOK (n + k) s s1 ∧ Good s1.heap (n + k) o' := by
              split at hr1
              · -- plain: np.insert of `k` empty rows
                exact insertPlain_spec n k (n + k) o _ _ s o' s1 hr1 hm go (by simp) rfl
              · split at hr1
                · -- delta kinds: an empty delta on an empty reference position
                  rename_i hdelta
                  split at hr1
                  · simp at hr1
                  · rename_i r s2 hins
                    simp only [Except.ok.injEq, Prod.mk.injEq] at hr1
                    obtain ⟨rfl, rfl⟩ := hr1
                    let er : Obj := emptyObj kd.refKind 2 (if kd == .posvelDelta then 6 else 3) k
                    let e : Obj := { emptyObj kd ob.ndim ob.cols k with refPos := some (s.alloc er).1 }
                    have e0 := HeapExt.alloc s er
                    have e1 := HeapExt.alloc (s.alloc er).2 e
                    have ger : Good (s.alloc er).2.heap k (s.alloc er).1 := good_empty s _ _ _ _
                    have ge : Good ((s.alloc er).2.alloc e).2.heap k ((s.alloc er).2.alloc e).1 := by
                      refine Good.mk (ob := e) (alloc_get _ e) (by simp [e, emptyObj]) ?_ ?_
                      · intro x _ hx; simp [e, emptyObj] at hx
                      · intro x _ hx
                        have : x = (s.alloc er).1 := by simpa [e, emptyObj] using hx.symm
                        subst this; exact ger.ext e1
                    obtain ⟨⟨e2, m2⟩, g2⟩ := insertObj_spec n k _ o _ _ _ r s2 hins
                      ((hm.alloc er).alloc e) ((go.ext e0).ext e1) ge
                    exact ⟨⟨(e0.trans e1).trans e2, m2.pop.pop⟩, g2⟩
                · split at hr1
                  · simp at hr1
                  · rename_i r s2 hins
                    simp only [Except.ok.injEq, Prod.mk.injEq] at hr1
                    obtain ⟨rfl, rfl⟩ := hr1
                    have e0 := HeapExt.alloc s (emptyObj kd ob.ndim ob.cols k)
                    obtain ⟨⟨e2, m2⟩, g2⟩ := insertObj_spec n k _ o _ _ _ r s2 hins
                      (hm.alloc _) (go.ext e0) (good_empty s _ _ _ _)
                    exact ⟨⟨e0.trans e2, m2.pop⟩, g2⟩
            exact ⟨key.1, leaf_rect_of_good key.2, by simp [SameShape]⟩
  | .coll nm no l fs, s, f', s', h, hm, hr, hw => by
    simp only [padField] at h
    · split at h
      · simp at h
      · rename_i fs' s1 hr1
        simp only [Except.ok.injEq, Prod.mk.injEq] at h
        obtain ⟨rfl, rfl⟩ := h
        simp only [RectField] at hr
        have hw' := hw
        simp only [WFF] at hw
        obtain ⟨e, r1, sh⟩ := padFields_spec front n k fs s fs' s1 hr1 hm hr.1 hw.2
        refine ⟨e, ?_, by simp only [SameShape]; exact ⟨_, _, fs', rfl, sh⟩⟩
        simp only [RectField]
        refine ⟨r1, ?_⟩
        by_cases he : fs' = []
        · simp [he, hr.2]
        · have hne : fs'.isEmpty = false := by cases fs' <;> simp_all
          simp only [hne, Bool.false_eq_true, if_false, collLen]
          exact RectFields.len fs' r1 he
theorem padFields_spec (front : Bool) (n k : Nat) : ∀ (fs : List Field) (s : St) (fs' : List Field) (s' : St),
    padField.padFields front k fs s = .ok (fs', s') → MemoGood (n + k) s → RectField.RectFields s.heap n fs →
    WFF.WFFs fs →
    ExtOK (n + k) s s' ∧ RectField.RectFields s'.heap (n + k) fs' ∧ SameShape.SameShapes fs fs'
  | [], s, fs', s', h, hm, _, _ => by
    simp only [padField.padFields, Except.ok.injEq, Prod.mk.injEq] at h
    obtain ⟨rfl, rfl⟩ := h
    exact ⟨⟨HeapExt.refl _, hm⟩, by simp [RectField.RectFields], by simp [SameShape.SameShapes]⟩
  | f :: fs, s, fs', s', h, hm, hr, hw => by
    simp only [padField.padFields] at h
    split at h
    · simp at h
    · rename_i f1 s1 h1
      split at h
      · simp at h
      · rename_i fs1 s2 h2
        simp only [Except.ok.injEq, Prod.mk.injEq] at h
        obtain ⟨rfl, rfl⟩ := h
        simp only [RectField.RectFields] at hr
        simp only [WFF.WFFs] at hw
        obtain ⟨⟨e1, m1⟩, r1, sh1⟩ := padField_spec front n k f s f1 s1 h1 hm hr.1 hw.1
        obtain ⟨⟨e2, m2⟩, r2, sh2⟩ := padFields_spec front n k fs s1 fs1 s2 h2 m1 (RectFields.ext e1 fs hr.2) hw.2
        refine ⟨⟨e1.trans e2, m2⟩, ?_, ?_⟩
        · simp only [RectField.RectFields]; exact ⟨RectField.ext e2 f1 r1, r2⟩
        · simp only [SameShape.SameShapes]; exact ⟨f1, fs1, rfl, sh1, sh2⟩
end

/-- **`FieldType.extend` of a leaf**: `n` rows extended by `m` rows are `n + m` rows -/
theorem extendLeaf_spec (us : Units) (n m : Nat) (nm : String) (k : Kind) (o no : Nat) (u : Option (List String))
    (l : Nat) (g : Field) (s : St) (f' : Field) (s' : St)
    (h : extendLeaf us nm k o no u l g s = .ok (f', s')) (hm : MemoGood (n + m) s)
    (hr : RectField s.heap n (.leaf nm k o no u l)) (hg : RectField s.heap m g) :
    ExtOK (n + m) s s' ∧ RectField s'.heap (n + m) f' ∧ (∃ o' no', f' = .leaf nm k o' no' u l) := by
  simp only [extendLeaf] at h
  split at h
  · simp at h
  · rename_i nm2 k2 o2 no2 u2 l2
    split at h
    · simp at h
    · simp only [RectField] at hr hg
      obtain ⟨go, _⟩ := hr
      obtain ⟨go2, _⟩ := hg
      split at h
      · rename_i oa ob hoa hob
        split at h
        · simp at h
        · rename_i hkinds
          have hka : oa.kind = k ∧ ob.kind = k := by
            have h0 : ¬ ((oa.kind != k || ob.kind != k) = true) := hkinds
            simp only [Bool.or_eq_true, bne_iff_ne, ne_eq, not_or, Decidable.not_not] at h0
            exact h0
          obtain ⟨ob', hb1, hb2, _, _⟩ := go2.dest
          rw [hob] at hb1; cases hb1
          split at h
          · simp at h
          · rename_i o' s1 hr1
            simp only [Except.ok.injEq, Prod.mk.injEq] at h
            obtain ⟨rfl, rfl⟩ := h
            have key : ExtOK (n + m) s s1 ∧ Good s1.heap (n + m) o' := by
              split at hr1
              · exact insertObj_spec n m _ o no o2 s o' s1 hr1 hm go go2
              · split at hr1
                · simp at hr1
                · split at hr1
                  · -- float: unit factors, then np.insert
                    split at hr1
                    · simp at hr1
                    · split at hr1
                      · simp at hr1
                      · exact insertPlain_spec n m (n + m) o no _ s o' s1 hr1 hm go (by simp [hb2]) rfl
                  · split at hr1
                    · -- sigma: `other.data * factors` is a fresh array, then SigmaArray.insert
                      rename_i hsig
                      split at hr1
                      · simp at hr1
                      · rename_i fs _
                        let t : Obj := { ob with rows := ob.rows.map (scaleRow fs) }
                        have e0 := HeapExt.alloc s t
                        have hks : k = .sigma := by simpa using hsig
                        have gt : Good (s.alloc t).2.heap m (s.alloc t).1 := by
                          refine Good.mk (ob := t) (alloc_get s t) (by simp [t, hb2]) ?_ ?_
                          · intro x hx
                            rw [show t.kind = ob.kind from rfl, hka.2, hks] at hx
                            simp [Kind.hasOther] at hx
                          · intro x hx
                            rw [show t.kind = ob.kind from rfl, hka.2, hks] at hx
                            simp [Kind.isDelta] at hx
                        obtain ⟨⟨e1, m1⟩, g1⟩ := insertObj_spec n m _ o no _ _ o' s1 hr1 (hm.alloc t) (go.ext e0) gt
                        exact ⟨⟨e0.trans e1, m1⟩, g1⟩
                    · split at hr1
                      · split at hr1
                        · simp at hr1
                        · exact insertPlain_spec n m (n + m) o no _ s o' s1 hr1 hm go hb2 rfl
                      · exact insertObj_spec n m _ o no o2 s o' s1 hr1 hm go go2
            exact ⟨key.1, leaf_rect_of_good key.2, ⟨_, _, rfl⟩⟩
      · simp at h

/-! ### the dict of fields -/

theorem getField_some : ∀ {fs : List Field} {n : String} {f : Field}, getField fs n = some f → f ∈ fs ∧ f.name = n := by
  intro fs n f h
  simp only [getField] at h
  have h1 := List.find?_some h
  have h2 := List.mem_of_find?_eq_some h
  exact ⟨h2, by simpa using h1⟩

theorem mem_setField : ∀ {acc : List Field} {f x : Field}, x ∈ setField acc f → x = f ∨ (x ∈ acc ∧ x ≠ f)  ∨ x ∈ acc
  | [], f, x, h => by simp [setField] at h; exact Or.inl h
  | g :: gs, f, x, h => by
    simp only [setField] at h
    split at h
    · rcases List.mem_cons.mp h with h | h
      · exact Or.inl h
      · exact Or.inr (Or.inr (List.mem_cons_of_mem _ h))
    · rcases List.mem_cons.mp h with h | h
      · exact Or.inr (Or.inr (by simp [h]))
      · rcases mem_setField h with h | h | h
        · exact Or.inl h
        · exact Or.inr (Or.inr (List.mem_cons_of_mem _ h.1))
        · exact Or.inr (Or.inr (List.mem_cons_of_mem _ h))

/-- with unique names, `dict[name] = f` keeps exactly the entries under other names -/
theorem mem_setField_nodup : ∀ {acc : List Field} {f x : Field}, (names acc).Nodup → x ∈ setField acc f →
    x = f ∨ (x ∈ acc ∧ x.name ≠ f.name)
  | [], f, x, _, h => by simp [setField] at h; exact Or.inl h
  | g :: gs, f, x, hn, h => by
    simp only [names, List.map_cons, List.nodup_cons] at hn
    simp only [setField] at h
    split at h
    · rename_i heq
      have heq' : g.name = f.name := by simpa using heq
      rcases List.mem_cons.mp h with h | h
      · exact Or.inl h
      · refine Or.inr ⟨List.mem_cons_of_mem _ h, ?_⟩
        intro hx
        apply hn.1
        rw [heq', ← hx]
        exact List.mem_map_of_mem h
    · rename_i hne
      have hne' : g.name ≠ f.name := by simpa using hne
      rcases List.mem_cons.mp h with h | h
      · subst h; exact Or.inr ⟨by simp, hne'⟩
      · rcases mem_setField_nodup (by simpa [names] using hn.2) h with h | h
        · exact Or.inl h
        · exact Or.inr ⟨List.mem_cons_of_mem _ h.1, h.2⟩

theorem self_mem_setField : ∀ (acc : List Field) (f : Field), f ∈ setField acc f
  | [], f => by simp [setField]
  | g :: gs, f => by
    simp only [setField]
    split
    · simp
    · exact List.mem_cons_of_mem _ (self_mem_setField gs f)

theorem names_setField : ∀ (acc : List Field) (f : Field),
    names (setField acc f) = if f.name ∈ names acc then names acc else names acc ++ [f.name]
  | [], f => by simp [setField, names]
  | g :: gs, f => by
    simp only [setField]
    split
    · rename_i heq
      have heq' : g.name = f.name := by simpa using heq
      simp [names, heq']
    · rename_i hne
      have hne' : g.name ≠ f.name := by simpa using hne
      have ih := names_setField gs f
      simp only [names] at ih ⊢
      simp only [List.map_cons, ih, List.mem_cons]
      by_cases hm : f.name ∈ List.map Field.name gs
      · simp [hm]
      · simp [hm, Ne.symm hne']

theorem nodup_setField {acc : List Field} {f : Field} (hn : (names acc).Nodup) : (names (setField acc f)).Nodup := by
  rw [names_setField]
  split
  · exact hn
  · rename_i hm
    exact List.nodup_append.mpr ⟨hn, by simp, by intro a ha b hb; simp at hb; subst hb; intro he; exact hm (he ▸ ha)⟩

theorem setField_ne_nil (acc : List Field) (f : Field) : setField acc f ≠ [] := by
  cases acc with
  | nil => simp [setField]
  | cons g gs => simp only [setField]; split <;> simp

/-! ### the invariant of the loop over `other._fields` -/

/-- `done` names have been handled (their fields have `n + m` rows), the others are still the
`n`-row fields of `self` -/
structure AccInv (h : Heap) (n m : Nat) (selfKeys : List String) (done : String → Prop)
    (acc : List Field) : Prop where
  nodup : (names acc).Nodup
  each : ∀ f ∈ acc, WFF f ∧
    (done f.name → RectField h (n + m) f) ∧ (¬ done f.name → RectField h n f ∧ f.name ∈ selfKeys)

theorem AccInv.ext {h h' n m sk done acc} (a : AccInv h n m sk done acc) (e : HeapExt h h') :
    AccInv h' n m sk done acc :=
  ⟨a.nodup, fun f hf => by
    obtain ⟨h1, h3, h4⟩ := a.each f hf
    exact ⟨h1, fun hd => RectField.ext e f (h3 hd), fun hd => ⟨RectField.ext e f (h4 hd).1, (h4 hd).2⟩⟩⟩

/-- one step of the loop: the field `f'` made for the name `nm` replaces / joins the dict -/
theorem AccInv.step {h n m sk} {done : String → Prop} {acc : List Field} {f' : Field} {nm : String}
    (a : AccInv h n m sk done acc) (hname : f'.name = nm)
    (hw : WFF f') (hr : RectField h (n + m) f') :
    AccInv h n m sk (fun x => done x ∨ x = nm) (setField acc f') := by
  refine ⟨nodup_setField a.nodup, ?_⟩
  intro f hf
  rcases mem_setField_nodup a.nodup hf with rfl | ⟨hin, hneq⟩
  · exact ⟨hw, fun _ => hr, fun hd => absurd (Or.inr hname) hd⟩
  · obtain ⟨h1, h3, h4⟩ := a.each f hin
    have hx : f.name ≠ nm := by rw [← hname]; exact hneq
    refine ⟨h1, ?_, ?_⟩
    · intro hd
      rcases hd with hd | hd
      · exact h3 hd
      · exact absurd hd hx
    · intro hd
      exact h4 (fun h0 => hd (Or.inl h0))

/-- **the second loop of `Collection._extend`**: the fields the other collection lacks get `m` empty rows -/
theorem appendLoop_spec (n m : Nat) (p : String → Bool) : ∀ (acc : List Field) (s : St)
    (acc' : List Field) (s' : St), appendLoop p m acc s = .ok (acc', s') → MemoGood (n + m) s →
    (∀ f ∈ acc, WFF f ∧ (p f.name = true → RectField s.heap n f) ∧
      (p f.name = false → RectField s.heap (n + m) f)) →
    ExtOK (n + m) s s' ∧ (∀ f ∈ acc', WFF f ∧ RectField s'.heap (n + m) f) ∧
      names acc' = names acc
  | [], s, acc', s', h, hm, _ => by
    simp only [appendLoop, Except.ok.injEq, Prod.mk.injEq] at h
    obtain ⟨rfl, rfl⟩ := h
    exact ⟨⟨HeapExt.refl _, hm⟩, by simp, rfl⟩
  | f :: fs, s, acc', s', h, hm, hall => by
    simp only [appendLoop] at h
    split at h
    · simp at h
    · rename_i f1 s1 hstep
      split at h
      · simp at h
      · rename_i fs1 s2 hrest
        simp only [Except.ok.injEq, Prod.mk.injEq] at h
        obtain ⟨rfl, rfl⟩ := h
        obtain ⟨w, hp1, hp0⟩ := hall f (by simp)
        have key : ExtOK (n + m) s s1 ∧ RectField s1.heap (n + m) f1 ∧ SameShape f f1 := by
          split at hstep
          · rename_i hp
            exact padField_spec false n m f s f1 s1 hstep hm (hp1 hp) w
          · rename_i hp
            simp only [Except.ok.injEq, Prod.mk.injEq] at hstep
            obtain ⟨rfl, rfl⟩ := hstep
            exact ⟨⟨HeapExt.refl _, hm⟩, hp0 (by simpa using hp), SameShape.refl _⟩
        obtain ⟨⟨e1, m1⟩, r1, sh1⟩ := key
        obtain ⟨⟨e2, m2⟩, hall2, hn2⟩ := appendLoop_spec n m p fs s1 fs1 s2 hrest m1 (fun c hc => by
          obtain ⟨a, c1, c0⟩ := hall c (List.mem_cons_of_mem _ hc)
          exact ⟨a, fun hp => RectField.ext e1 c (c1 hp), fun hp => RectField.ext e1 c (c0 hp)⟩)
        refine ⟨⟨e1.trans e2, m2⟩, ?_, ?_⟩
        · intro c hc
          rcases List.mem_cons.mp hc with rfl | hc
          · exact ⟨SameShape.wff f c sh1 w, RectField.ext e2 c r1⟩
          · exact hall2 c hc
        · simp only [names, List.map_cons] at hn2 ⊢
          rw [hn2, sh1.name]

/-! **`Collection._extend`: the loop over the other collection, and `FieldType.extend`** -/
mutual
theorem extendField_spec (us : Units) (n m : Nat) : ∀ (g f : Field) (s : St) (f' : Field) (s' : St),
    extendField us f g s = .ok (f', s') → MemoGood (n + m) s →
    RectField s.heap n f → RectField s.heap m g → WFF f → WFF g →
    ExtOK (n + m) s s' ∧ RectField s'.heap (n + m) f' ∧ WFF f' ∧ f'.name = f.name
  | g, .leaf nm k o no u l, s, f', s', h, hm, hrf, hrg, _, _ => by
    simp only [extendField] at h
    obtain ⟨e, r, ⟨o', no', rfl⟩⟩ := extendLeaf_spec us n m nm k o no u l g s f' s' h hm hrf hrg
    exact ⟨e, r, by simp [WFF], rfl⟩
  | .leaf .., .coll .., s, f', s', h, _, _, _, _, _ => by
    simp [extendField] at h
  | .coll nm2 no2 l2 gs, .coll nm no l fs, s, f', s', h, hm, hrf, hrg, hwf, hwg => by
    simp only [extendField] at h
    split at h
    · simp at h
    · rename_i fs' s2 hfin
      simp only [Except.ok.injEq, Prod.mk.injEq] at h
      obtain ⟨rfl, rfl⟩ := h
      have hsl : collRows s.heap no fs = n := collRows_eq hrf
      have hol : collRows s.heap no2 gs = m := collRows_eq hrg
      rw [hsl, hol] at hfin
      simp only [extendFinish] at hfin
      split at hfin
      · simp at hfin
      · rename_i acc1 s1 hloop
        simp only [RectField] at hrf hrg
        have hwf' := hwf; have hwg' := hwg
        simp only [WFF] at hwf hwg
        have hf_each := (WFFs_iff fs).mp hwf.2
        have hg_each := (WFFs_iff gs).mp hwg.2
        have hf_rect := (rectFields_iff fs).mp hrf.1
        have hg_rect := (rectFields_iff gs).mp hrg.1
        have inv0 : AccInv s.heap n m (names fs) (fun _ => False) fs :=
          ⟨hwf.1, fun c hc => ⟨hf_each c hc, fun hd => absurd hd id,
            fun _ => ⟨hf_rect c hc, List.mem_map_of_mem hc⟩⟩⟩
        obtain ⟨⟨e1, m1⟩, inv1⟩ := loop1_spec us n m (names fs) gs (fun _ => False) fs s acc1 s1 hloop hm inv0
          (fun g hg => ⟨hg_rect g hg, hg_each g hg⟩) hwg.1 (fun g _ hd => hd)
        obtain ⟨⟨e2, m2⟩, hall, hnames⟩ := appendLoop_spec n m _ acc1 s1 fs' s2 hfin m1 (by
          intro c hc
          obtain ⟨c1, c3, c4⟩ := inv1.each c hc
          refine ⟨c1, ?_, ?_⟩
          · intro hp
            by_cases hd : (False ∨ c.name ∈ names gs)
            · have hd' : c.name ∈ names gs := by simpa using hd
              exfalso
              simp only [onlyInSelf, Bool.and_eq_true, Bool.not_eq_true',
                List.contains_eq_mem, decide_eq_true_eq, decide_eq_false_iff_not] at hp
              exact hp.2 hd'
            · exact (c4 hd).1
          · intro hp
            by_cases hd : (False ∨ c.name ∈ names gs)
            · exact c3 hd
            · exfalso
              have hd' : c.name ∉ names gs := by simpa using hd
              have hin := (c4 hd).2
              simp only [onlyInSelf, Bool.and_eq_false_iff, Bool.not_eq_false',
                List.contains_eq_mem, decide_eq_false_iff_not, decide_eq_true_eq] at hp
              rcases hp with h0 | h0
              · exact h0 hin
              · exact hd' h0)
        have hnd : (names fs').Nodup := by rw [hnames]; exact inv1.nodup
        have hwffs : WFF.WFFs fs' := (WFFs_iff fs').mpr (fun c hc => (hall c hc).1)
        have hrects : RectField.RectFields s2.heap (n + m) fs' := (rectFields_iff fs').mpr (fun c hc => (hall c hc).2)
        refine ⟨⟨e1.trans e2, m2⟩, ?_, ?_, rfl⟩
        · simp only [RectField]
          refine ⟨hrects, ?_⟩
          by_cases he : fs' = []
          · simp [he, hsl, hol]
          · have : fs'.isEmpty = false := by cases fs' <;> simp_all
            simp only [this, Bool.false_eq_true, if_false, collLen]
            exact RectFields.len fs' hrects he
        · simp only [WFF]; exact ⟨hnd, hwffs⟩
theorem loop1_spec (us : Units) (n m : Nat) (selfKeys : List String) :
    ∀ (gs : List Field) (done : String → Prop) (acc : List Field) (s : St) (acc' : List Field) (s' : St),
    extendField.loop1 us selfKeys n acc gs s = .ok (acc', s') → MemoGood (n + m) s →
    AccInv s.heap n m selfKeys done acc →
    (∀ g ∈ gs, RectField s.heap m g ∧ WFF g) → (names gs).Nodup →
    (∀ g ∈ gs, ¬ done g.name) →
    ExtOK (n + m) s s' ∧ AccInv s'.heap n m selfKeys (fun x => done x ∨ x ∈ names gs) acc'
  | [], done, acc, s, acc', s', h, hm, inv, _, _, _ => by
    simp only [extendField.loop1, Except.ok.injEq, Prod.mk.injEq] at h
    obtain ⟨rfl, rfl⟩ := h
    refine ⟨⟨HeapExt.refl _, hm⟩, ?_⟩
    have : (fun x => done x ∨ x ∈ names ([] : List Field)) = done := by funext x; simp [names]
    rw [this]; exact inv
  | g :: gs, done, acc, s, acc', s', h, hm, inv, hgs, hnd, hdone => by
    simp only [extendField.loop1] at h
    split at h
    · simp at h
    · rename_i f1 s1 hstep
      obtain ⟨hg_rect, hg_wff⟩ := hgs g (by simp)
      have hgd : ¬ done g.name := hdone g (by simp)
      simp only [names, List.map_cons, List.nodup_cons] at hnd
      -- the field made for the name of `g`
      have key : ExtOK (n + m) s s1 ∧ RectField s1.heap (n + m) f1 ∧ WFF f1 ∧ f1.name = g.name := by
        split at hstep
        · -- only in other (or self has no rows): a copy of `g` with `n` empty rows in front
          have hm' : MemoGood (m + n) s := by rw [Nat.add_comm]; exact hm
          obtain ⟨⟨e, mm⟩, r, sh⟩ := padField_spec true m n g s f1 s1 hstep hm' hg_rect hg_wff
          rw [Nat.add_comm] at mm r
          exact ⟨⟨e, mm⟩, r, SameShape.wff g f1 sh hg_wff, sh.name⟩
        · split at hstep
          · simp at hstep
          · rename_i f hget
            obtain ⟨hfin, hfname⟩ := getField_some hget
            obtain ⟨c1, _, c4⟩ := inv.each f hfin
            have hfd : ¬ done f.name := by rw [hfname]; exact hgd
            obtain ⟨e, r, w, nmq⟩ := extendField_spec us n m g f s f1 s1 hstep hm (c4 hfd).1 hg_rect c1 hg_wff
            exact ⟨e, r, w, by rw [nmq, hfname]⟩
      obtain ⟨⟨e1, m1⟩, r1, w1, nm1⟩ := key
      have inv1 := (inv.ext e1).step (f' := f1) (nm := g.name) nm1 w1 r1
      obtain ⟨⟨e2, m2⟩, inv2⟩ := loop1_spec us n m selfKeys gs _ (setField acc f1) s1 acc' s' h m1 inv1
        (fun g' hg' => by
          obtain ⟨a, b⟩ := hgs g' (List.mem_cons_of_mem _ hg')
          exact ⟨RectField.ext e1 g' a, b⟩)
        (by simpa [names] using hnd.2)
        (fun g' hg' hd => by
          rcases hd with hd | hd
          · exact hdone g' (List.mem_cons_of_mem _ hg') hd
          · exact hnd.1 (hd ▸ List.mem_map_of_mem hg'))
      refine ⟨⟨e1.trans e2, m2⟩, ?_⟩
      have : (fun x => (done x ∨ x = g.name) ∨ x ∈ names gs) = (fun x => done x ∨ x ∈ names (g :: gs)) := by
        funext x; simp [names, or_assoc]
      rw [← this]; exact inv2
end

end Midgard.Dataset
