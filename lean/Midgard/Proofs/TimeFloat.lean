/-
C03 — rounding-error budget of the two-part arithmetic ("to better than 1 ns for durations up to decades").

`Rounding` states the two facts about IEEE-754 binary64 round-to-nearest that the budget needs: the relative error of one
operation is at most `u` (= 2⁻⁵³ for doubles; addition and subtraction never underflow), and multiples of 1/2 up to 2⁵² are
doubles.  `flPw R σ a b` is the model's part-by-part `a ± b` (`pw σ`, σ = ±1: `tAddD`, `tSubD`, `tSubT`, `dAddD`, `dSubD`,
`dAddT` are `pw 1` / `pw (-1)`, see `pw_ops`) with the result of each part rounded.  For operands whose day part is a
multiple of 1/2 (what every constructor stores, C02 `jd_int_frac` / C03 `toJds_normalised`) the day part of every result is
computed *exactly*, and the error sits in the fraction parts only, whose size is bounded by the normalisation invariant.
-/
import Midgard.Model.TimeArith
import Mathlib.Tactic.Linarith
import Mathlib.Tactic.Ring
import Mathlib.Tactic.NormNum
import Mathlib.Algebra.Order.Field.Rat
import Mathlib.Algebra.Order.Ring.Abs

namespace Midgard.TimeArith

structure Rounding where
  rnd : Rat → Rat
  u : Rat
  u_nonneg : 0 ≤ u
  /-- standard model of one rounded operation -/
  rel : ∀ x : Rat, |rnd x - x| ≤ u * |x|
  /-- multiples of 1/2 of magnitude ≤ 2⁵² are representable -/
  grid : ∀ k : Int, |((k : Rat) / 2)| ≤ 2 ^ 52 → rnd ((k : Rat) / 2) = (k : Rat) / 2

/-- exact arithmetic is a rounding (u = 0): the hypotheses below are satisfiable and the exact model is an instance -/
def Rounding.exact : Rounding := ⟨id, 0, le_refl 0, fun x => by simp, fun _ _ => rfl⟩

def HalfInt (x : Rat) : Prop := ∃ k : Int, x = (k : Rat) / 2

/-- part-by-part `a + σ·b` -/
def pw (σ : Rat) (a b : JD) : JD := ⟨a.jd1 + σ * b.jd1, a.jd2 + σ * b.jd2⟩

/-- the same with each part of the result rounded (what the NumPy expression `self.jd1 ± other.jd1`, `self.jd2 ± other.jd2` computes) -/
def flPw (R : Rounding) (σ : Rat) (a b : JD) : JD := ⟨R.rnd (a.jd1 + σ * b.jd1), R.rnd (a.jd2 + σ * b.jd2)⟩

theorem pw_ops (a b : JD) :
    tAddD a b = pw 1 a b ∧ dAddD a b = pw 1 a b ∧ dAddT a b = pw 1 a b ∧
    tSubD a b = pw (-1) a b ∧ tSubT a b = pw (-1) a b ∧ dSubD a b = pw (-1) a b := by
  simp only [tAddD, dAddD, dAddT, tSubD, tSubT, dSubD, pw, JD.mk.injEq]
  refine ⟨⟨?_, ?_⟩, ⟨?_, ?_⟩, ⟨?_, ?_⟩, ⟨?_, ?_⟩, ⟨?_, ?_⟩, ⟨?_, ?_⟩⟩ <;> ring

theorem flPw_exact (σ : Rat) (a b : JD) : flPw Rounding.exact σ a b = pw σ a b := rfl

/-- what a stored epoch / duration looks like: day part a multiple of 1/2 bounded by `B1`, fraction part bounded by `B2` -/
def Stored (B1 B2 : Rat) (j : JD) : Prop := HalfInt j.jd1 ∧ |j.jd1| ≤ B1 ∧ |j.jd2| ≤ B2

theorem halfInt_pm {x y σ : Rat} (hx : HalfInt x) (hy : HalfInt y) (hσ : σ = 1 ∨ σ = -1) : HalfInt (x + σ * y) := by
  obtain ⟨k, rfl⟩ := hx
  obtain ⟨l, rfl⟩ := hy
  rcases hσ with rfl | rfl
  · exact ⟨k + l, by push_cast; ring⟩
  · exact ⟨k - l, by push_cast; ring⟩

theorem abs_pm_le {x y σ : Rat} (hσ : σ = 1 ∨ σ = -1) : |x + σ * y| ≤ |x| + |y| := by
  rcases hσ with rfl | rfl
  · simpa using abs_add_le x y
  · have := abs_add_le x (-y); simpa [abs_neg, sub_eq_add_neg] using this

theorem rnd_halfInt (R : Rounding) {z : Rat} (hz : HalfInt z) (hb : |z| ≤ 2 ^ 52) : R.rnd z = z := by
  obtain ⟨k, rfl⟩ := hz
  exact R.grid k hb

/-- **the day part is exact**: no rounding happens in `jd1 ± jd1'` -/
theorem flPw_jd1 (R : Rounding) {σ B1 B2 C1 C2 : Rat} (hσ : σ = 1 ∨ σ = -1) {a b : JD}
    (ha : Stored B1 B2 a) (hb : Stored C1 C2 b) (hB : B1 + C1 ≤ 2 ^ 52) :
    (flPw R σ a b).jd1 = (pw σ a b).jd1 := by
  have h1 : |a.jd1 + σ * b.jd1| ≤ 2 ^ 52 := le_trans (abs_pm_le hσ) (by linarith [ha.2.1, hb.2.1])
  exact rnd_halfInt R (halfInt_pm ha.1 hb.1 hσ) h1

/-- **error of one operation**: at most `u` times the size of the fraction parts -/
theorem flPw_err (R : Rounding) {σ B1 B2 C1 C2 : Rat} (hσ : σ = 1 ∨ σ = -1) {a b : JD}
    (ha : Stored B1 B2 a) (hb : Stored C1 C2 b) (hB : B1 + C1 ≤ 2 ^ 52) :
    |(flPw R σ a b).inst - (pw σ a b).inst| ≤ R.u * (B2 + C2) := by
  have h1 := flPw_jd1 R hσ ha hb hB
  have h2 : |a.jd2 + σ * b.jd2| ≤ B2 + C2 := le_trans (abs_pm_le hσ) (by linarith [ha.2.2, hb.2.2])
  have h3 := R.rel (a.jd2 + σ * b.jd2)
  have : (flPw R σ a b).inst - (pw σ a b).inst = R.rnd (a.jd2 + σ * b.jd2) - (a.jd2 + σ * b.jd2) := by
    simp only [JD.inst, h1]; simp only [flPw, pw]; ring
  rw [this]
  exact le_trans h3 (mul_le_mul_of_nonneg_left h2 R.u_nonneg)

/-- **normalisation invariant of results**: a result is stored again (day part on the half-integer grid, bounded by the sum
of the bounds; fraction part bounded by the sum of the bounds, inflated by one rounding) — in exact arithmetic (`u = 0`) the
bounds just add -/
theorem flPw_stored (R : Rounding) {σ B1 B2 C1 C2 : Rat} (hσ : σ = 1 ∨ σ = -1) {a b : JD}
    (ha : Stored B1 B2 a) (hb : Stored C1 C2 b) (hB : B1 + C1 ≤ 2 ^ 52) :
    Stored (B1 + C1) ((1 + R.u) * (B2 + C2)) (flPw R σ a b) := by
  have h1 := flPw_jd1 R hσ ha hb hB
  have hh := halfInt_pm ha.1 hb.1 hσ
  have hb1 : |a.jd1 + σ * b.jd1| ≤ B1 + C1 := le_trans (abs_pm_le hσ) (by linarith [ha.2.1, hb.2.1])
  have h2 : |a.jd2 + σ * b.jd2| ≤ B2 + C2 := le_trans (abs_pm_le hσ) (by linarith [ha.2.2, hb.2.2])
  have h3 := R.rel (a.jd2 + σ * b.jd2)
  have h4 : R.u * |a.jd2 + σ * b.jd2| ≤ R.u * (B2 + C2) := mul_le_mul_of_nonneg_left h2 R.u_nonneg
  refine ⟨?_, ?_, ?_⟩
  · rw [h1]; exact hh
  · rw [h1]; exact hb1
  · show |R.rnd (a.jd2 + σ * b.jd2)| ≤ _
    have : |R.rnd (a.jd2 + σ * b.jd2)| ≤ |R.rnd (a.jd2 + σ * b.jd2) - (a.jd2 + σ * b.jd2)| + |a.jd2 + σ * b.jd2| := by
      have := abs_add_le (R.rnd (a.jd2 + σ * b.jd2) - (a.jd2 + σ * b.jd2)) (a.jd2 + σ * b.jd2)
      simpa using this
    nlinarith

/-- **error of two chained operations** `(a ± b) ± c`, all three operands stored with fraction parts of size ≤ 1 and day
parts ≤ 2⁵⁰: at most `6u` days (the day part is exact, the two roundings of the fraction part add up) -/
theorem flPw_two_ops (R : Rounding) (hu : R.u ≤ 1 / 2) {σ τ : Rat} (hσ : σ = 1 ∨ σ = -1) (hτ : τ = 1 ∨ τ = -1) {a b c : JD}
    (ha : Stored (2 ^ 50) 1 a) (hb : Stored (2 ^ 50) 1 b) (hc : Stored (2 ^ 50) 1 c) :
    |(flPw R τ (flPw R σ a b) c).inst - (pw τ (pw σ a b) c).inst| ≤ 6 * R.u := by
  have hB : (2 : Rat) ^ 50 + 2 ^ 50 ≤ 2 ^ 52 := by norm_num
  have hs := flPw_stored R hσ ha hb hB
  have hB' : ((2 : Rat) ^ 50 + 2 ^ 50) + 2 ^ 50 ≤ 2 ^ 52 := by norm_num
  have e2 := flPw_err R hτ hs hc hB'
  have e1 := flPw_err R hσ ha hb hB
  -- exact second operation applied to the rounded and to the exact first result differ by the first error
  have hlin : (pw τ (flPw R σ a b) c).inst - (pw τ (pw σ a b) c).inst = (flPw R σ a b).inst - (pw σ a b).inst := by
    simp only [pw, JD.inst]; ring
  have htri : |(flPw R τ (flPw R σ a b) c).inst - (pw τ (pw σ a b) c).inst|
      ≤ |(flPw R τ (flPw R σ a b) c).inst - (pw τ (flPw R σ a b) c).inst| + |(flPw R σ a b).inst - (pw σ a b).inst| := by
    rw [← hlin]
    have := abs_add_le ((flPw R τ (flPw R σ a b) c).inst - (pw τ (flPw R σ a b) c).inst)
      ((pw τ (flPw R σ a b) c).inst - (pw τ (pw σ a b) c).inst)
    simpa using this
  have hu0 := R.u_nonneg
  have hsq : R.u * R.u ≤ R.u * (1 / 2) := mul_le_mul_of_nonneg_left hu hu0
  have hexp : R.u * ((1 + R.u) * (1 + 1) + 1) = 3 * R.u + 2 * (R.u * R.u) := by ring
  rw [hexp] at e2
  linarith

/-- 6u days with u = 2⁻⁵³ is 5.8·10⁻¹¹ s: well below the nanosecond of the property -/
theorem budget_below_ns : 6 * ((1 : Rat) / 2 ^ 53) * 86400 < 1 / 10 ^ 9 := by norm_num

end Midgard.TimeArith
