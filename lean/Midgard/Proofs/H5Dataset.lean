/-
C10 — facts about the abstract store model: which fields `write` puts into the file, and that the
array of a reference-free field is read back bit for bit.
-/
import Midgard.Model.H5Dataset

namespace Midgard.H5
open Midgard.Dataset

def fieldType : Field → Option Kind
  | .leaf _ k _ _ _ _ => some k
  | .coll .. => none

/-- **level filter, write side**: the groups and the `fields` attribute written for a list of fields are
exactly — in order — the fields whose write level is at least the requested one -/
theorem writeFields_names (h : Heap) (lvl : Nat) : ∀ (fs : List Field) (pre : Path) (memo : WMemo)
    (groups : List (String × Grp)) (mem : List (String × Option Kind)) (memo' : WMemo),
    writeField.writeFields h lvl fs pre memo = .ok (groups, mem, memo') →
    groups.map (·.1) = (restrictFields lvl fs).map Field.name ∧
    mem = (restrictFields lvl fs).map (fun f => (f.name, fieldType f))
  | [], pre, memo, groups, mem, memo', hw => by
    simp only [writeField.writeFields, Except.ok.injEq, Prod.mk.injEq] at hw
    obtain ⟨rfl, rfl, _⟩ := hw
    simp [restrictFields]
  | f :: fs, pre, memo, groups, mem, memo', hw => by
    simp only [writeField.writeFields] at hw
    split at hw
    · rename_i hlt
      have ih := writeFields_names h lvl fs pre memo groups mem memo' hw
      have : restrictFields lvl (f :: fs) = restrictFields lvl fs := by
        cases f <;> simp [restrictFields, hlt]
      rw [this]; exact ih
    · rename_i hlt
      split at hw
      · simp at hw
      · rename_i g memo1 _
        split at hw
        · simp at hw
        · rename_i subs mem2 memo2 hrest
          simp only [Except.ok.injEq, Prod.mk.injEq] at hw
          obtain ⟨rfl, rfl, _⟩ := hw
          have ih := writeFields_names h lvl fs pre memo1 subs mem2 memo2 hrest
          cases f with
          | leaf nm k o no u l =>
            have : restrictFields lvl (Field.leaf nm k o no u l :: fs) =
                Field.leaf nm k o no u l :: restrictFields lvl fs := by simp [restrictFields, hlt]
            rw [this]
            simp only [List.map_cons, ih.1, ih.2, Field.name, fieldType, and_self]
          | coll nm no l sub =>
            have : restrictFields lvl (Field.coll nm no l sub :: fs) =
                Field.coll nm no l (restrictFields lvl sub) :: restrictFields lvl fs := by simp [restrictFields, hlt]
            rw [this]
            simp only [List.map_cons, ih.1, ih.2, Field.name, fieldType, and_self]

/-- the file written for a dataset lists exactly the fields of the requested level -/
theorem writeDS_members (h : Heap) (d : DS) (lvl : Nat) (file : File) (hw : writeDS h d lvl = .ok file) :
    file.numObs = d.numObs ∧
    file.members = (restrictFields lvl d.fields).map (fun f => (f.name, fieldType f)) ∧
    file.groups.map (·.1) = (restrictFields lvl d.fields).map Field.name := by
  simp only [writeDS] at hw
  split at hw
  · simp at hw
  · rename_i groups mem memo' hwf
    simp only [Except.ok.injEq] at hw; subst hw
    obtain ⟨a, b⟩ := writeFields_names h lvl d.fields [] _ groups mem memo' hwf
    exact ⟨rfl, b, a⟩

/-- `restrict` keeps exactly the fields of the level, recursively -/
theorem restrict_level (lvl : Nat) : ∀ (fs : List Field), ∀ f ∈ restrictFields lvl fs, lvl ≤ Field.level f
  | [], f, hf => by simp [restrictFields] at hf
  | .leaf nm k o no u l :: gs, f, hf => by
    simp only [restrictFields] at hf
    split at hf
    · exact restrict_level lvl gs f hf
    · rename_i hlt
      rcases List.mem_cons.mp hf with rfl | hf
      · exact Nat.le_of_not_lt hlt
      · exact restrict_level lvl gs f hf
  | .coll nm no l sub :: gs, f, hf => by
    simp only [restrictFields] at hf
    split at hf
    · exact restrict_level lvl gs f hf
    · rename_i hlt
      rcases List.mem_cons.mp hf with rfl | hf
      · simp only [Field.level] at hlt ⊢; exact Nat.le_of_not_lt hlt
      · exact restrict_level lvl gs f hf

/-- **an array without references is read back bit for bit**: writing a plain / sigma / time(-delta)
array and reading the group allocates exactly the array that was written — same kind, shape and rows —
whatever the read memo holds -/
theorem readArr_writeArr (h : Heap) (u : Option (List String)) (l : Nat) (file : File) (o : Nat) (ob : Obj) (p : Path) (wm : WMemo)
    (g : Grp) (wm' : WMemo) (fw fr : Nat) (s : RSt)
    (hob : h[o]? = some ob) (hk : attrName ob.kind = none)
    (hw : writeArr h u l (fw + 1) o p wm = .ok (g, wm')) :
    wm' = wm ∧ g.attrs.fieldname = p ∧
    ∃ s', readArr file (fr + 1) g s = .ok (s.heap.length, s') ∧ s'.heap = s.heap ++ [ob.strip] := by
  simp only [writeArr, hob, hk, Except.ok.injEq, Prod.mk.injEq] at hw
  obtain ⟨rfl, rfl⟩ := hw
  refine ⟨rfl, rfl, ?_⟩
  have hk' : attrName ob.strip.kind = none := hk
  simp only [readArr, hk', RSt.alloc]
  split <;> exact ⟨_, rfl, rfl⟩

/-- units survive (`None ↔ ""`): a unit tuple with a non-empty entry is read back as it is, no unit as
no unit -/
theorem readUnit_id (u : Option (List String)) (hu : ∀ us, u = some us → us.any (fun x => !x.isEmpty) = true) :
    readUnit u = u := by
  cases u with
  | none => rfl
  | some us => simp [readUnit, hu us rfl]

end Midgard.H5
