/-
C09 — what `extend` does to row counts: `insert(a, pos, b, memo)` of two objects whose attachment
trees have `n` and `m` rows yields an object whose whole attachment tree has `n + m` rows, the memo
only ever holds such objects, and the heap only grows.
Core Lean only.
-/
import Midgard.Proofs.DatasetSubsetFields

namespace Midgard.Dataset

/-- the memo of an `extend` of `n` rows by `m` rows only holds finished (`n + m`-row) objects -/
def MemoGood (k : Nat) (s : St) : Prop := ∀ a v, (a, v) ∈ s.memo → Good s.heap k v

theorem MemoGood.find {k s a v} (hm : MemoGood k s) (hf : s.find a = some v) : Good s.heap k v :=
  hm a v (lookup_mem _ _ _ hf)

theorem MemoGood.set {k} {s : St} {a v} (hm : MemoGood k s) (hg : Good s.heap k v) : MemoGood k (s.set a v) := by
  intro x y hxy
  simp only [St.set, List.mem_cons] at hxy
  rcases hxy with h | h
  · cases h; exact hg
  · exact hm x y h

theorem MemoGood.pop {k} {s : St} {a} (hm : MemoGood k s) : MemoGood k (s.pop a) := by
  intro x y hxy
  simp only [St.pop, List.mem_filter] at hxy
  exact hm x y hxy.1

theorem MemoGood.ext {k} {s : St} {h' : Heap} (hm : MemoGood k s) (e : HeapExt s.heap h') :
    MemoGood k { s with heap := h' } := fun a v hav => (hm a v hav).ext e

theorem MemoGood.alloc {k} {s : St} (hm : MemoGood k s) (o : Obj) : MemoGood k (s.alloc o).2 :=
  hm.ext (HeapExt.alloc s o)

def ExtOK (k : Nat) (s s' : St) : Prop := HeapExt s.heap s'.heap ∧ MemoGood k s'

theorem GoodF.succ {h : Heap} {n : Nat} : ∀ {f o}, GoodF h n f o → GoodF h n (f + 1) o
  | 0, _, hh => by simp [GoodF] at hh
  | f + 1, o, hh => by
    obtain ⟨ob, a1, a2, a3, a4⟩ := hh
    exact ⟨ob, a1, a2, fun a hk ha => (a3 a hk ha).succ, fun a hk ha => (a4 a hk ha).succ⟩

theorem GoodF.le {h : Heap} {n o : Nat} : ∀ {f g}, f ≤ g → GoodF h n f o → GoodF h n g o := by
  intro f g hle hh
  induction hle with
  | refl => exact hh
  | step _ ih => exact ih.succ

theorem Good.mk {h : Heap} {n o : Nat} {ob : Obj} (h1 : h[o]? = some ob) (h2 : ob.rows.length = n)
    (h3 : ∀ a, ob.kind.hasOther = true → ob.other = some a → Good h n a)
    (h4 : ∀ a, ob.kind.isDelta = true → ob.refPos = some a → Good h n a) : Good h n o := by
  have fo : ∃ f, ∀ a, ob.kind.hasOther = true → ob.other = some a → GoodF h n f a := by
    by_cases hk : ob.kind.hasOther = true
    · cases ho : ob.other with
      | none => exact ⟨0, by simp⟩
      | some a => obtain ⟨f, hf⟩ := h3 a hk ho; exact ⟨f, by intro a' _ ha'; cases ha'; exact hf⟩
    · exact ⟨0, fun a h' => absurd h' hk⟩
  have fr : ∃ f, ∀ a, ob.kind.isDelta = true → ob.refPos = some a → GoodF h n f a := by
    by_cases hk : ob.kind.isDelta = true
    · cases hr : ob.refPos with
      | none => exact ⟨0, by simp⟩
      | some a => obtain ⟨f, hf⟩ := h4 a hk hr; exact ⟨f, by intro a' _ ha'; cases ha'; exact hf⟩
    · exact ⟨0, fun a h' => absurd h' hk⟩
  obtain ⟨f1, g1⟩ := fo
  obtain ⟨f2, g2⟩ := fr
  exact ⟨max f1 f2 + 1, ob, h1, h2, fun a hk ha => GoodF.le (Nat.le_max_left _ _) (g1 a hk ha),
    fun a hk ha => GoodF.le (Nat.le_max_right _ _) (g2 a hk ha)⟩

theorem Good.dest {h : Heap} {n o : Nat} (g : Good h n o) : ∃ ob, h[o]? = some ob ∧ ob.rows.length = n ∧
    (∀ a, ob.kind.hasOther = true → ob.other = some a → Good h n a) ∧
    (∀ a, ob.kind.isDelta = true → ob.refPos = some a → Good h n a) := by
  obtain ⟨f, hf⟩ := g
  cases f with
  | zero => simp [GoodF] at hf
  | succ f =>
    obtain ⟨ob, h1, h2, h3, h4⟩ := hf
    exact ⟨ob, h1, h2, fun a hk ha => ⟨f, h3 a hk ha⟩, fun a hk ha => ⟨f, h4 a hk ha⟩⟩

theorem good_empty (s : St) (k : Kind) (ndim cols n : Nat) :
    Good (s.alloc (emptyObj k ndim cols n)).2.heap n (s.alloc (emptyObj k ndim cols n)).1 :=
  Good.mk (alloc_get s _) (by simp [emptyObj]) (by simp [emptyObj]) (by simp [emptyObj])

/-- converting the epochs of `b` to the scale / format of `a` keeps their number -/
theorem convRows_length (cv : Conv) (t : String) (ob : Obj) : (convRows cv t ob).length = ob.rows.length := by
  unfold convRows
  split <;> simp

/-- **`insert` adds row counts.**  `a` (with everything attached) has `n` rows, `b` has `m`: the result
has `n + m`, the memo keeps holding only finished objects, the heap only grows. -/
theorem insertObj_spec (n m : Nat) : ∀ (fuel a pos b : Nat) (s : St) (r : Nat) (s' : St),
    insertObj fuel a pos b s = .ok (r, s') → MemoGood (n + m) s → Good s.heap n a → Good s.heap m b →
    ExtOK (n + m) s s' ∧ Good s'.heap (n + m) r
  | 0, _, _, _, _, _, _, h, _, _, _ => by simp [insertObj] at h
  | fuel + 1, a, pos, b, s, r, s', h, hm, ga, gb => by
    simp only [insertObj] at h
    split at h
    · rename_i v hf
      simp only [Except.ok.injEq, Prod.mk.injEq] at h
      obtain ⟨rfl, rfl⟩ := h
      exact ⟨⟨HeapExt.refl _, hm⟩, hm.find hf⟩
    · split at h
      · rename_i v hf
        simp only [Except.ok.injEq, Prod.mk.injEq] at h
        obtain ⟨rfl, rfl⟩ := h
        exact ⟨⟨HeapExt.refl _, hm⟩, hm.find hf⟩
      · split at h
        · rename_i oa ob hoa hob
          obtain ⟨oa', ha1, ha2, ha3, ha4⟩ := ga.dest
          obtain ⟨ob', hb1, hb2, hb3, hb4⟩ := gb.dest
          rw [hoa] at ha1; cases ha1
          rw [hob] at hb1; cases hb1
          split at h
          · simp at h
          · rename_i hkind
            have hkeq : ob.kind = oa.kind := by
              have h0 : ¬ (oa.kind != ob.kind) = true := fun hc => hkind (by simp [hc])
              have h1 : oa.kind = ob.kind := by simpa using h0
              exact h1.symm
            -- the `other` attribute
            split at h
            · simp at h
            · rename_i oth s1 hoth
              have key1 : ExtOK (n + m) s s1 ∧ (∀ x, oth = some x → Good s1.heap (n + m) x) := by
                split at hoth
                · simp only [Except.ok.injEq, Prod.mk.injEq] at hoth
                  obtain ⟨rfl, rfl⟩ := hoth
                  exact ⟨⟨HeapExt.refl _, hm⟩, by simp⟩
                · rename_i hho
                  have hoA : oa.kind.hasOther = true := by simpa using hho
                  have hoB : ob.kind.hasOther = true := by rw [hkeq]; exact hoA
                  split at hoth
                  · simp only [Except.ok.injEq, Prod.mk.injEq] at hoth
                    obtain ⟨rfl, rfl⟩ := hoth
                    exact ⟨⟨HeapExt.refl _, hm⟩, by simp⟩
                  · split at hoth
                    · rename_i v hv
                      simp only [Except.ok.injEq, Prod.mk.injEq] at hoth
                      obtain ⟨rfl, rfl⟩ := hoth
                      refine ⟨⟨HeapExt.refl _, hm⟩, ?_⟩
                      intro x hx; cases hx
                      cases hao : oa.other with
                      | none => simp [hao] at hv
                      | some ao => simp only [hao, Option.bind_some] at hv; exact hm.find hv
                    · split at hoth
                      · rename_i v hv
                        simp only [Except.ok.injEq, Prod.mk.injEq] at hoth
                        obtain ⟨rfl, rfl⟩ := hoth
                        refine ⟨⟨HeapExt.refl _, hm⟩, ?_⟩
                        intro x hx; cases hx
                        cases hbo : ob.other with
                        | none => simp [hbo] at hv
                        | some bo => simp only [hbo, Option.bind_some] at hv; exact hm.find hv
                      · split at hoth
                        · -- both sides have the attribute
                          rename_i x y hxo hyo
                          split at hoth
                          · simp at hoth
                          · rename_i r1 s1' hr1
                            simp only [Except.ok.injEq, Prod.mk.injEq] at hoth
                            obtain ⟨rfl, rfl⟩ := hoth
                            obtain ⟨e1, g1⟩ := insertObj_spec n m fuel x pos y s r1 s1' hr1 hm
                              (ha3 x hoA hxo) (hb3 y hoB hyo)
                            exact ⟨e1, by intro z hz; cases hz; exact g1⟩
                        · simp only [Except.ok.injEq, Prod.mk.injEq] at hoth
                          obtain ⟨rfl, rfl⟩ := hoth
                          exact ⟨⟨HeapExt.refl _, hm⟩, by simp⟩
                        · -- only `b` has it
                          rename_i y hxo hyo
                          split at hoth
                          · simp at hoth
                          · rename_i oy hoy
                            split at hoth
                            · simp at hoth
                            · rename_i r1 s1' hr1
                              simp only [Except.ok.injEq, Prod.mk.injEq] at hoth
                              obtain ⟨rfl, rfl⟩ := hoth
                              have e0 := HeapExt.alloc s (emptyObj oy.kind oy.ndim oy.cols oa.rows.length)
                              have ge : Good (s.alloc (emptyObj oy.kind oy.ndim oy.cols oa.rows.length)).2.heap n
                                  (s.alloc (emptyObj oy.kind oy.ndim oy.cols oa.rows.length)).1 := by
                                rw [← ha2]; exact good_empty s _ _ _ _
                              obtain ⟨⟨e1, m1⟩, g1⟩ := insertObj_spec n m fuel _ pos y _ r1 s1' hr1
                                (hm.alloc _) ge ((hb3 y hoB hyo).ext e0)
                              exact ⟨⟨e0.trans e1, m1.pop⟩, by intro z hz; cases hz; exact g1⟩
                        · -- only `a` has it
                          rename_i x hxo hyo
                          split at hoth
                          · simp at hoth
                          · rename_i ox hox
                            split at hoth
                            · simp at hoth
                            · rename_i r1 s1' hr1
                              simp only [Except.ok.injEq, Prod.mk.injEq] at hoth
                              obtain ⟨rfl, rfl⟩ := hoth
                              have e0 := HeapExt.alloc s (emptyObj ox.kind ox.ndim ox.cols ob.rows.length)
                              have ge : Good (s.alloc (emptyObj ox.kind ox.ndim ox.cols ob.rows.length)).2.heap m
                                  (s.alloc (emptyObj ox.kind ox.ndim ox.cols ob.rows.length)).1 := by
                                rw [← hb2]; exact good_empty s _ _ _ _
                              obtain ⟨⟨e1, m1⟩, g1⟩ := insertObj_spec n m fuel x pos _ _ r1 s1' hr1
                                (hm.alloc _) ((ha3 x hoA hxo).ext e0) ge
                              exact ⟨⟨e0.trans e1, m1.pop⟩, by intro z hz; cases hz; exact g1⟩
              obtain ⟨⟨e1, m1⟩, go⟩ := key1
              -- `ref_pos`
              split at h
              · simp at h
              · rename_i rp s2 hrp
                have key2 : ExtOK (n + m) s1 s2 ∧ (∀ x, rp = some x → Good s2.heap (n + m) x) := by
                  split at hrp
                  · simp only [Except.ok.injEq, Prod.mk.injEq] at hrp
                    obtain ⟨rfl, rfl⟩ := hrp
                    exact ⟨⟨HeapExt.refl _, m1⟩, by simp⟩
                  · rename_i hdd
                    have hdA : oa.kind.isDelta = true := by simpa using hdd
                    have hdB : ob.kind.isDelta = true := by rw [hkeq]; exact hdA
                    split at hrp
                    · simp at hrp
                    · rename_i ra hra
                      split at hrp
                      · rename_i v hv
                        simp only [Except.ok.injEq, Prod.mk.injEq] at hrp
                        obtain ⟨rfl, rfl⟩ := hrp
                        exact ⟨⟨HeapExt.refl _, m1⟩, by intro x hx; cases hx; exact m1.find hv⟩
                      · split at hrp
                        · simp at hrp
                        · rename_i rb hrb
                          split at hrp
                          · simp at hrp
                          · rename_i r2 s2' hr2
                            simp only [Except.ok.injEq, Prod.mk.injEq] at hrp
                            obtain ⟨rfl, rfl⟩ := hrp
                            obtain ⟨⟨e2, m2⟩, g2⟩ := insertObj_spec n m fuel ra pos rb s1 r2 s2' hr2 m1
                              ((ha4 ra hdA hra).ext e1) ((hb4 rb hdB hrb).ext e1)
                            exact ⟨⟨e2, m2.set g2⟩, by intro x hx; cases hx; exact g2⟩
                obtain ⟨⟨e2, m2⟩, gr⟩ := key2
                simp only [Except.ok.injEq, Prod.mk.injEq] at h
                obtain ⟨rfl, rfl⟩ := h
                let new : Obj := { oa with rows := insertAt oa.rows pos (convRows s.conv oa.tag ob), other := oth, refPos := rp }
                have e3 := HeapExt.alloc s2 new
                have gnew : Good (s2.alloc new).2.heap (n + m) (s2.alloc new).1 := by
                  refine Good.mk (ob := new) (alloc_get s2 new) ?_ ?_ ?_
                  · show (insertAt oa.rows pos (convRows s.conv oa.tag ob)).length = n + m
                    rw [insertAt_length, convRows_length, ha2, hb2]
                  · intro x _ hx; exact ((go x hx).ext e2).ext e3
                  · intro x _ hx; exact (gr x hx).ext e3
                refine ⟨⟨(e1.trans e2).trans e3, ?_⟩, gnew⟩
                exact MemoGood.set (s := ((s2.alloc new).2.set a (s2.alloc new).1))
                  (MemoGood.set (s := (s2.alloc new).2) (m2.alloc new) gnew) gnew
        · simp at h

/-- `insertPlain` adds row counts (plain arrays have no references) -/
theorem insertPlain_spec (n m k : Nat) (a pos : Nat) (brows : List Row) (s : St) (r : Nat) (s' : St)
    (h : insertPlain a pos brows s = .ok (r, s')) (hm : MemoGood k s) (ga : Good s.heap n a)
    (hb : brows.length = m) (hk : k = n + m) :
    ExtOK k s s' ∧ Good s'.heap k r := by
  simp only [insertPlain] at h
  split at h
  · simp at h
  · rename_i oa hoa
    split at h
    · simp at h
    · rename_i hkind
      simp only [Except.ok.injEq, Prod.mk.injEq] at h
      obtain ⟨rfl, rfl⟩ := h
      obtain ⟨oa', ha1, ha2, _, _⟩ := ga.dest
      rw [hoa] at ha1; cases ha1
      have hkk : oa.kind.hasOther = false ∧ oa.kind.isDelta = false := by
        cases hc : oa.kind <;> simp [hc, Kind.isPlain] at hkind <;> simp [Kind.hasOther, Kind.isDelta]
      let new : Obj := { oa with rows := insertAt oa.rows pos brows }
      have e := HeapExt.alloc s new
      have hlen : (insertAt oa.rows pos brows).length = k := by rw [insertAt_length, ha2, hb, hk]
      have gnew : Good (s.alloc new).2.heap k (s.alloc new).1 := by
        refine Good.mk (ob := new) (alloc_get s new) hlen ?_ ?_
        · intro x hx; rw [show new.kind = oa.kind from rfl, hkk.1] at hx; cases hx
        · intro x hx; rw [show new.kind = oa.kind from rfl, hkk.2] at hx; cases hx
      exact ⟨⟨e, MemoGood.set (s := (s.alloc new).2) (hm.alloc new) gnew⟩, gnew⟩

end Midgard.Dataset
