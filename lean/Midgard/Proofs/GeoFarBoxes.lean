import Midgard.Proofs.GeoFarBox
import Midgard.Proofs.GeoFarScaledBox
import Midgard.Proofs.GeoFar1D
namespace Midgard.Geo.Acc

theorem abs_le_max_of_bounds (x p n : ℝ) (h : -n ≤ x ∧ x ≤ p) (B : ℝ) (hp : p ≤ B) (hn : n ≤ B) : |x| ≤ B := by
  rw [abs_le]; constructor <;> linarith [h.1, h.2]

theorem Hr2s_bounds_b (x t q : ℝ) (hx : 0 ≤ x) (ht : 0 ≤ t) (hq : 0 ≤ q) (hx' : x ≤ 0.25) (ht' : t ≤ 1.0035) (hq' : q ≤ 1) :
    |Hr2s x t q| ≤ 1293 := by
  have h0 := Hr2c0s_bounds_b x t q hx ht hq hx' ht' hq'
  have h1 := Hr2c1s_bounds_b x t q hx ht hq hx' ht' hq'
  have h2 := Hr2c2s_bounds_b x t q hx ht hq hx' ht' hq'
  have h3 := Hr2c3s_bounds_b x t q hx ht hq hx' ht' hq'
  have h4 := Hr2c4s_bounds_b x t q hx ht hq hx' ht' hq'
  have h5 := Hr2c5s_bounds_b x t q hx ht hq hx' ht' hq'
  have h6 := Hr2c6s_bounds_b x t q hx ht hq hx' ht' hq'
  unfold Hr2s; rw [abs_le]
  constructor <;> linarith [h0.1, h0.2, h1.1, h1.2, h2.1, h2.2, h3.1, h3.2, h4.1, h4.2, h5.1, h5.2, h6.1, h6.2]

theorem Hr2s_bounds_a (x t q : ℝ) (hx : 0 ≤ x) (ht : 0 ≤ t) (hq : 0 ≤ q) (hx' : x ≤ 0.9874) (ht' : t ≤ 1.0035) (hq' : q ≤ 1) :
    |Hr2s x t q| ≤ 8048 := by
  have h0 := Hr2c0s_bounds_a x t q hx ht hq hx' ht' hq'
  have h1 := Hr2c1s_bounds_a x t q hx ht hq hx' ht' hq'
  have h2 := Hr2c2s_bounds_a x t q hx ht hq hx' ht' hq'
  have h3 := Hr2c3s_bounds_a x t q hx ht hq hx' ht' hq'
  have h4 := Hr2c4s_bounds_a x t q hx ht hq hx' ht' hq'
  have h5 := Hr2c5s_bounds_a x t q hx ht hq hx' ht' hq'
  have h6 := Hr2c6s_bounds_a x t q hx ht hq hx' ht' hq'
  unfold Hr2s; rw [abs_le]
  constructor <;> linarith [h0.1, h0.2, h1.1, h1.2, h2.1, h2.2, h3.1, h3.2, h4.1, h4.2, h5.1, h5.2, h6.1, h6.2]

/-- common preparation: `t = P/A ≤ 1.0035`, `u = S/A`, `q²t² + u² = 1` -/
theorem far_prep (q P S A : ℝ) (hq : 0.9966 ≤ q) (hP : 0 < P) (hS : 0 < S) (hA0 : 0 < A)
    (hAA : A * A = q * P * (q * P) + S * S) :
    0 < P / A ∧ P / A ≤ 1.0035 ∧ 0 < S / A ∧ q ^ 2 * (P / A) ^ 2 + (S / A) ^ 2 = 1 ∧ P = A * (P / A) := by
  have hq0 : 0 < q := by linarith
  have hqP : q * P ≤ A := by
    by_contra h
    have h' : A < q * P := not_le.1 h
    have := mul_lt_mul'' h' h' hA0.le hA0.le
    nlinarith [mul_self_nonneg S]
  have hA2 : A ^ 2 = q * P * (q * P) + S * S := by rw [← hAA]; ring
  refine ⟨div_pos hP hA0, ?_, div_pos hS hA0, ?_, by field_simp⟩
  · rw [div_le_iff₀ hA0]
    have : 0.9966 * P ≤ q * P := mul_le_mul_of_nonneg_right hq hP.le
    nlinarith
  · have h1 : q ^ 2 * (P / A) ^ 2 + (S / A) ^ 2 = (q * P * (q * P) + S * S) / A ^ 2 := by field_simp
    rw [h1, ← hA2]; field_simp

theorem far_finish (X q c2 cm F ρ bound : ℝ) (hX0 : 0 ≤ X) (hq : 0.9966 ≤ q) (he0 : 0 ≤ 1 - q ^ 2) (he : 1 - q ^ 2 ≤ 0.0067)
    (hc2 : 0 < c2) (hcm : 0 < cm) (hF0 : 0 ≤ F) (hρ0 : 0 ≤ ρ)
    (key : X * (q ^ 3 * c2 * cm ^ 2) ≤ (1 - q ^ 2) ^ 4 * ρ ^ 3 * F)
    (hnum : 0.0067 ^ 4 * ρ ^ 3 * F ≤ bound * (0.9898 * c2 * cm ^ 2)) : X ≤ bound := by
  have hq3 : (0.9898 : ℝ) ≤ q ^ 3 := by
    have := pow_le_pow_left₀ (by norm_num : (0:ℝ) ≤ 0.9966) hq 3
    have h2 : (0.9898 : ℝ) ≤ (0.9966 : ℝ) ^ 3 := by norm_num
    linarith
  have he4 : (1 - q ^ 2) ^ 4 ≤ 0.0067 ^ 4 := pow_le_pow_left₀ he0 he 4
  have hden : (0.9898 : ℝ) * c2 * cm ^ 2 ≤ q ^ 3 * c2 * cm ^ 2 :=
    mul_le_mul_of_nonneg_right (mul_le_mul_of_nonneg_right hq3 hc2.le) (by positivity)
  have hrhs : (1 - q ^ 2) ^ 4 * ρ ^ 3 * F ≤ 0.0067 ^ 4 * ρ ^ 3 * F :=
    mul_le_mul_of_nonneg_right (mul_le_mul_of_nonneg_right he4 (by positivity)) hF0
  have h7 : X * ((0.9898 : ℝ) * c2 * cm ^ 2) ≤ X * (q ^ 3 * c2 * cm ^ 2) := mul_le_mul_of_nonneg_left hden hX0
  have hpos : (0:ℝ) < (0.9898 : ℝ) * c2 * cm ^ 2 := by positivity
  have : X * ((0.9898 : ℝ) * c2 * cm ^ 2) ≤ bound * ((0.9898 : ℝ) * c2 * cm ^ 2) := by linarith
  exact le_of_mul_le_mul_right this hpos

/-- altitude box `b` (`4 ≤ A ≤ 8.86`): the normalised offset is below `2.85e-10` -/
theorem offset_far_b (q P S A s1 cc D W : ℝ)
    (hq : 0.9966 ≤ q) (hq1 : q ≤ 1) (he : 1 - q ^ 2 ≤ 0.0067) (hP : 0 < P) (hS : 0 < S)
    (hAA : A * A = q * P * (q * P) + S * S) (hAlo : 4 ≤ A) (hAhi : A ≤ 8.86)
    (hs1 : s1 = P * S * K1 A P q / 2) (hcc : cc = P ^ 2 * q * K2 A P q / 2)
    (hD : D = Real.sqrt (s1 * s1 + cc * cc)) (hW : W = Real.sqrt (q ^ 2 * (s1 * s1) + cc * cc)) :
    |(S * cc - P * s1) / D + (1 - q ^ 2) * s1 * cc / (D * W)| ≤ 2.85e-10 := by
  have hq0 : 0 < q := by linarith
  have hA0 : 0 < A := by linarith
  have he0 : 0 ≤ 1 - q ^ 2 := by nlinarith
  obtain ⟨ht0, ht1, hu0, htu, hPt⟩ := far_prep q P S A hq hP hS hA0 hAA
  set t := P / A with ht
  set u := S / A with hu
  have hx0 : 0 ≤ 1 / A := by positivity
  have hx1 : 1 / A ≤ 0.25 := by rw [div_le_iff₀ hA0]; nlinarith
  -- scaled bounds of the remainders
  have b0 := K0rs_bounds_b (1 / A) t q hx0 ht0.le hq0.le hx1 ht1 hq1
  have b1 := K1rs_bounds_b (1 / A) t q hx0 ht0.le hq0.le hx1 ht1 hq1
  have b2 := K2rs_bounds_b (1 / A) t q hx0 ht0.le hq0.le hx1 ht1 hq1
  have c1 := Hr1s_bounds_b (1 / A) t q hx0 ht0.le hq0.le hx1 ht1 hq1
  have c2 := Hr2s_bounds_b (1 / A) t q hx0 ht0.le hq0.le hx1 ht1 hq1
  obtain ⟨k0, k1, k2⟩ := K_scaled_lower A t q 0.25 (909 / 100) (859 / 100) (1111 / 100) hq hq1 he hA0 hx1 (by norm_num) (by norm_num) (by norm_num)
    b0.1 b1.1 b2.1
  have hH := H_scaled_upper A t q 305.94 1293 hq1 he0 he hA0
    (abs_le_max_of_bounds _ _ _ c1 _ (by norm_num) (by norm_num)) c2
  rw [← hPt] at k0 k1 k2 hH
  have hA5 : 0 ≤ A ^ 5 := by positivity
  have hA6 : 0 ≤ A ^ 6 := by positivity
  have hK0 : (1.939 : ℝ) * A ^ 5 ≤ K0 A P q := le_trans (mul_le_mul_of_nonneg_right (by norm_num) hA5) k0
  have hK1 : (1.9788 : ℝ) * A ^ 6 ≤ K1 A P q := le_trans (mul_le_mul_of_nonneg_right (by norm_num) hA6) k1
  have hK2 : (1.9813 : ℝ) * A ^ 6 ≤ K2 A P q := le_trans (mul_le_mul_of_nonneg_right (by norm_num) hA6) k2
  have hH' : |HH A P q| ≤ A ^ 17 * (|64 - 80 * t ^ 2| + 2.108) := by
    refine le_trans hH (mul_le_mul_of_nonneg_left ?_ (by positivity))
    have hnn : (0.0067 : ℝ) * 305.94 + 0.0067 ^ 2 * 1293 ≤ 2.108 := by norm_num
    linarith
  have h1D := oneD_b t u q ht0 ht1 hu0 hq htu
  have hρ : |A - q| ≤ (1 - 0.9966 / 8.86) * A := by
    rw [abs_of_nonneg (by linarith)]
    have : 0.9966 / 8.86 * A ≤ 0.9966 := by
      rw [div_mul_eq_mul_div, div_le_iff₀ (by norm_num)]; nlinarith
    linarith
  have key := far_box q P S A s1 cc D W 1.939 1.9788 1.9813 1.9788 (|64 - 80 * t ^ 2| + 2.108) 1.55 (1 - 0.9966 / 8.86)
    hq0 hq1 hP hS hA0 hAA hs1 hcc hD hW (by norm_num) (by norm_num) (by norm_num) (by norm_num) (by norm_num) (by norm_num)
    hK0 hK1 hK2 hH' (by norm_num) (by norm_num) (by rw [← ht, ← hu]; convert h1D using 2 <;> norm_num) hρ
  exact far_finish _ q 1.9813 1.9788 1.55 (1 - 0.9966 / 8.86) 2.85e-10 (abs_nonneg _) hq he0 he (by norm_num) (by norm_num) (by norm_num)
    (by norm_num) key (by norm_num)

/-- altitude box `a` (`1.0128 ≤ A ≤ 4`): the normalised offset is below `2.85e-10` -/
theorem offset_far_a (q P S A s1 cc D W : ℝ)
    (hq : 0.9966 ≤ q) (hq1 : q ≤ 1) (he : 1 - q ^ 2 ≤ 0.0067) (hP : 0 < P) (hS : 0 < S)
    (hAA : A * A = q * P * (q * P) + S * S) (hAlo : 1.0128 ≤ A) (hAhi : A ≤ 4)
    (hs1 : s1 = P * S * K1 A P q / 2) (hcc : cc = P ^ 2 * q * K2 A P q / 2)
    (hD : D = Real.sqrt (s1 * s1 + cc * cc)) (hW : W = Real.sqrt (q ^ 2 * (s1 * s1) + cc * cc)) :
    |(S * cc - P * s1) / D + (1 - q ^ 2) * s1 * cc / (D * W)| ≤ 2.85e-10 := by
  have hq0 : 0 < q := by linarith
  have hA0 : 0 < A := by linarith
  have he0 : 0 ≤ 1 - q ^ 2 := by nlinarith
  obtain ⟨ht0, ht1, hu0, htu, hPt⟩ := far_prep q P S A hq hP hS hA0 hAA
  set t := P / A with ht
  set u := S / A with hu
  have hx0 : 0 ≤ 1 / A := by positivity
  have hx1 : 1 / A ≤ 0.9874 := by rw [div_le_iff₀ hA0]; nlinarith
  -- scaled bounds of the remainders
  have b0 := K0rs_bounds_a (1 / A) t q hx0 ht0.le hq0.le hx1 ht1 hq1
  have b1 := K1rs_bounds_a (1 / A) t q hx0 ht0.le hq0.le hx1 ht1 hq1
  have b2 := K2rs_bounds_a (1 / A) t q hx0 ht0.le hq0.le hx1 ht1 hq1
  have c1 := Hr1s_bounds_a (1 / A) t q hx0 ht0.le hq0.le hx1 ht1 hq1
  have c2 := Hr2s_bounds_a (1 / A) t q hx0 ht0.le hq0.le hx1 ht1 hq1
  obtain ⟨k0, k1, k2⟩ := K_scaled_lower A t q 0.9874 (1207 / 100) (252 / 25) (352 / 25) hq hq1 he hA0 hx1 (by norm_num) (by norm_num) (by norm_num)
    b0.1 b1.1 b2.1
  have hH := H_scaled_upper A t q 541.74 8048 hq1 he0 he hA0
    (abs_le_max_of_bounds _ _ _ c1 _ (by norm_num) (by norm_num)) c2
  rw [← hPt] at k0 k1 k2 hH
  have hA5 : 0 ≤ A ^ 5 := by positivity
  have hA6 : 0 ≤ A ^ 6 := by positivity
  have hK0 : (1.9191 : ℝ) * A ^ 5 ≤ K0 A P q := le_trans (mul_le_mul_of_nonneg_right (by norm_num) hA5) k0
  have hK1 : (1.9265 : ℝ) * A ^ 6 ≤ K1 A P q := le_trans (mul_le_mul_of_nonneg_right (by norm_num) hA6) k1
  have hK2 : (1.9068 : ℝ) * A ^ 6 ≤ K2 A P q := le_trans (mul_le_mul_of_nonneg_right (by norm_num) hA6) k2
  have hH' : |HH A P q| ≤ A ^ 17 * (|64 - 80 * t ^ 2| + 3.991) := by
    refine le_trans hH (mul_le_mul_of_nonneg_left ?_ (by positivity))
    have hnn : (0.0067 : ℝ) * 541.74 + 0.0067 ^ 2 * 8048 ≤ 3.991 := by norm_num
    linarith
  have h1D := oneD_a t u q ht0 ht1 hu0 hq htu
  have hρ : |A - q| ≤ (1 - 0.9966 / 4) * A := by
    rw [abs_of_nonneg (by linarith)]
    have : 0.9966 / 4 * A ≤ 0.9966 := by
      rw [div_mul_eq_mul_div, div_le_iff₀ (by norm_num)]; nlinarith
    linarith
  have key := far_box q P S A s1 cc D W 1.9191 1.9265 1.9068 1.9068 (|64 - 80 * t ^ 2| + 3.991) 2.2 (1 - 0.9966 / 4)
    hq0 hq1 hP hS hA0 hAA hs1 hcc hD hW (by norm_num) (by norm_num) (by norm_num) (by norm_num) (by norm_num) (by norm_num)
    hK0 hK1 hK2 hH' (by norm_num) (by norm_num) (by rw [← ht, ← hu]; convert h1D using 2 <;> norm_num) hρ
  exact far_finish _ q 1.9068 1.9068 2.2 (1 - 0.9966 / 4) 2.85e-10 (abs_nonneg _) hq he0 he (by norm_num) (by norm_num) (by norm_num)
    (by norm_num) key (by norm_num)

end Midgard.Geo.Acc
