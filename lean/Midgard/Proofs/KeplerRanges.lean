/-
C07 — ranges of the elements returned by `trs2kepler` and of `KeplerPosVel.f` over ℝ
(`arctan2 y x := arg (x + i y)`): every angle is in the principal range the code's `arctan2`
produces, `omega` in `[0, 2π)` after the code's wrap, `e ≥ 0`; bound orbit ⇒ `a > 0`, `e < 1`;
the sign of the true anomaly is the sign of `sin E`.
-/
import Midgard.Proofs.GeoReal
import Midgard.Model.Kepler
import Mathlib.Analysis.SpecialFunctions.Complex.Arg

namespace Midgard.Geo

/-! ### range and sign of `arctan2` -/

/-- `arctan2` takes its values in `(−π, π]` -/
theorem atan2_mem_Ioc (y x : ℝ) : Trig.atan2 y x ∈ Set.Ioc (-Real.pi) Real.pi := by
  rw [trig_atan2]
  exact ⟨Complex.neg_pi_lt_arg _, Complex.arg_le_pi _⟩

theorem atan2_nonneg_of_nonneg {y : ℝ} (x : ℝ) (hy : 0 ≤ y) : 0 ≤ Trig.atan2 y x := by
  rw [trig_atan2, Complex.arg_nonneg_iff]
  exact hy

theorem atan2_neg_of_neg {y : ℝ} (x : ℝ) (hy : y < 0) : Trig.atan2 y x < 0 := by
  rw [trig_atan2, Complex.arg_neg_iff]
  exact hy

theorem atan2_pos_of_pos {y : ℝ} (x : ℝ) (hy : 0 < y) : 0 < Trig.atan2 y x := by
  refine lt_of_le_of_ne (atan2_nonneg_of_nonneg x hy.le) (fun h => ?_)
  have h0 : Complex.arg ⟨x, y⟩ = 0 := by rw [← trig_atan2]; exact h.symm
  rw [Complex.arg_eq_zero_iff] at h0
  exact hy.ne' h0.2

/-- `arctan2 y x < 0` exactly when `y < 0` -/
theorem atan2_neg_iff (y x : ℝ) : Trig.atan2 y x < 0 ↔ y < 0 := by
  rw [trig_atan2, Complex.arg_neg_iff]

/-- `0 ≤ arctan2 y x` exactly when `0 ≤ y` -/
theorem atan2_nonneg_iff (y x : ℝ) : 0 ≤ Trig.atan2 y x ↔ 0 ≤ y := by
  rw [trig_atan2, Complex.arg_nonneg_iff]

/-! ### `trs2kepler`: ranges of the returned elements, for all inputs -/

/-- the code's wrap `if ω < 0: ω += 2π` maps `(−2π, 2π)` into `[0, 2π)` -/
theorem wrap_range {u v : ℝ} (hu : u ∈ Set.Ioc (-Real.pi) Real.pi) (hv : v ∈ Set.Ioc (-Real.pi) Real.pi) :
    0 ≤ (if u - v < 0 then u - v + (1 + 1) * Real.pi else u - v) ∧
    (if u - v < 0 then u - v + (1 + 1) * Real.pi else u - v) < 2 * Real.pi := by
  obtain ⟨hu1, hu2⟩ := hu
  obtain ⟨hv1, hv2⟩ := hv
  split_ifs with h
  · constructor <;> linarith
  · constructor <;> linarith

/-- **ranges of `trs2kepler`**, unconditionally: `i ∈ [0, π]`, `Ω ∈ (−π, π]`, `ω ∈ [0, 2π)`,
`E ∈ (−π, π]`, `e ≥ 0` -/
theorem trs2kepler_ranges (GM : ℝ) (w : V6 ℝ) :
    0 ≤ (trs2kepler GM w).i ∧ (trs2kepler GM w).i ≤ Real.pi ∧
    -Real.pi < (trs2kepler GM w).Omega ∧ (trs2kepler GM w).Omega ≤ Real.pi ∧
    0 ≤ (trs2kepler GM w).omega ∧ (trs2kepler GM w).omega < 2 * Real.pi ∧
    -Real.pi < (trs2kepler GM w).E ∧ (trs2kepler GM w).E ≤ Real.pi ∧
    0 ≤ (trs2kepler GM w).e := by
  simp only [trs2kepler, trig_sqrt, trig_sin, trig_cos, trig_pi]
  refine ⟨atan2_nonneg_of_nonneg _ (Real.sqrt_nonneg _), (atan2_mem_Ioc _ _).2,
    (atan2_mem_Ioc _ _).1, (atan2_mem_Ioc _ _).2, ?_, ?_,
    (atan2_mem_Ioc _ _).1, (atan2_mem_Ioc _ _).2, Real.sqrt_nonneg _⟩
  · exact (wrap_range (atan2_mem_Ioc _ _) (atan2_mem_Ioc _ _)).1
  · exact (wrap_range (atan2_mem_Ioc _ _) (atan2_mem_Ioc _ _)).2

/-! ### bound orbit ⇒ `a > 0`, `e < 1` -/

theorem trs2kepler_a (GM : ℝ) (w : V6 ℝ) :
    (trs2kepler GM w).a = 1 / ((1 + 1) / w.p.norm - w.v.norm * w.v.norm / GM) := rfl

theorem trs2kepler_e (GM : ℝ) (w : V6 ℝ) :
    (trs2kepler GM w).e
      = Real.sqrt (1 - (V3.cross w.p w.v).norm * (V3.cross w.p w.v).norm / GM / (trs2kepler GM w).a) := rfl

/-- negative specific energy (`‖v‖² < 2 GM/‖r‖`) ⇒ positive semi-major axis -/
theorem trs2kepler_bound (GM : ℝ) (w : V6 ℝ) (hGM : 0 < GM) (hr : 0 < w.p.norm)
    (hbound : w.v.norm * w.v.norm < 2 * GM / w.p.norm) : 0 < (trs2kepler GM w).a := by
  rw [trs2kepler_a]
  apply one_div_pos.mpr
  have h1 : w.v.norm * w.v.norm / GM < 2 * GM / w.p.norm / GM := div_lt_div_of_pos_right hbound hGM
  have h2 : 2 * GM / w.p.norm / GM = (1 + 1) / w.p.norm := by
    field_simp
    ring
  linarith

/-- `a > 0` and `h ≠ 0` ⇒ `e < 1` -/
theorem trs2kepler_e_lt_one (GM : ℝ) (w : V6 ℝ) (hGM : 0 < GM) (ha : 0 < (trs2kepler GM w).a)
    (hh : (V3.cross w.p w.v).norm ≠ 0) : (trs2kepler GM w).e < 1 := by
  rw [trs2kepler_e]
  have hp : 0 < (V3.cross w.p w.v).norm * (V3.cross w.p w.v).norm / GM :=
    div_pos (mul_self_pos.mpr hh) hGM
  have hq := div_pos hp ha
  rw [Real.sqrt_lt' one_pos]
  linarith

/-! ### true anomaly -/

theorem trueAnomaly_mem_Ioc (e E : ℝ) : trueAnomaly e E ∈ Set.Ioc (-Real.pi) Real.pi :=
  atan2_mem_Ioc _ _

theorem sqrt_one_sub_sq_pos {e : ℝ} (he0 : 0 ≤ e) (he1 : e < 1) : 0 < Real.sqrt (1 - e * e) := by
  apply Real.sqrt_pos.mpr
  nlinarith

/-- ascending arc (`sin E > 0`): `f > 0` -/
theorem trueAnomaly_pos {e E : ℝ} (he0 : 0 ≤ e) (he1 : e < 1) (hs : 0 < Real.sin E) :
    0 < trueAnomaly e E := by
  simp only [trueAnomaly, trig_sqrt, trig_sin, trig_cos]
  exact atan2_pos_of_pos _ (mul_pos (sqrt_one_sub_sq_pos he0 he1) hs)

/-- descending arc (`sin E < 0`): `f < 0` -/
theorem trueAnomaly_neg {e E : ℝ} (he0 : 0 ≤ e) (he1 : e < 1) (hs : Real.sin E < 0) :
    trueAnomaly e E < 0 := by
  simp only [trueAnomaly, trig_sqrt, trig_sin, trig_cos]
  exact atan2_neg_of_neg _ (mul_neg_of_pos_of_neg (sqrt_one_sub_sq_pos he0 he1) hs)

/-- at the apsides (`sin E = 0`) `f` is `0` (perigee, `cos E ≥ e`) or `π` (apogee) -/
theorem trueAnomaly_zero_or_pi {e E : ℝ} (hs : Real.sin E = 0) :
    trueAnomaly e E = 0 ∨ trueAnomaly e E = Real.pi := by
  simp only [trueAnomaly, trig_sqrt, trig_sin, trig_cos, hs, mul_zero, trig_atan2]
  by_cases h : 0 ≤ Real.cos E - e
  · left
    rw [Complex.arg_eq_zero_iff]
    exact ⟨h, rfl⟩
  · right
    rw [Complex.arg_eq_pi_iff]
    exact ⟨lt_of_not_ge h, rfl⟩

/-- on `(−π, π]` with `0 ≤ e < 1`: the true anomaly has the sign of the eccentric anomaly -/
theorem trueAnomaly_pos_of_E_pos {e E : ℝ} (he0 : 0 ≤ e) (he1 : e < 1) (hE0 : 0 < E) (hE1 : E < Real.pi) :
    0 < trueAnomaly e E :=
  trueAnomaly_pos he0 he1 (Real.sin_pos_of_pos_of_lt_pi hE0 hE1)

theorem trueAnomaly_neg_of_E_neg {e E : ℝ} (he0 : 0 ≤ e) (he1 : e < 1) (hE0 : -Real.pi < E) (hE1 : E < 0) :
    trueAnomaly e E < 0 :=
  trueAnomaly_neg he0 he1 (Real.sin_neg_of_neg_of_neg_pi_lt hE1 hE0)

/-! ### non-vacuity of the hypotheses -/

/-- `e = 1/2`, `E = π/2`: ascending arc -/
example : 0 < trueAnomaly (1 / 2 : ℝ) (Real.pi / 2) :=
  trueAnomaly_pos (by norm_num) (by norm_num) (by rw [Real.sin_pi_div_two]; norm_num)

/-- `e = 1/2`, `E = −π/2`: descending arc -/
example : trueAnomaly (1 / 2 : ℝ) (-(Real.pi / 2)) < 0 :=
  trueAnomaly_neg (by norm_num) (by norm_num) (by rw [Real.sin_neg, Real.sin_pi_div_two]; norm_num)

example : trueAnomaly (1 / 2 : ℝ) 0 = 0 ∨ trueAnomaly (1 / 2 : ℝ) 0 = Real.pi :=
  trueAnomaly_zero_or_pi Real.sin_zero

/-- the circular orbit `GM = 1`, `r = (1,0,0)`, `v = (0,1,0)` satisfies the hypotheses of
`trs2kepler_bound` and `trs2kepler_e_lt_one` -/
theorem circular_hyps :
    let w : V6 ℝ := ⟨⟨1, 0, 0⟩, ⟨0, 1, 0⟩⟩
    w.p.norm = 1 ∧ w.v.norm = 1 ∧ (V3.cross w.p w.v).norm = 1 := by
  simp [V3.norm, V3.cross]

example : 0 < (trs2kepler (1 : ℝ) ⟨⟨1, 0, 0⟩, ⟨0, 1, 0⟩⟩).a := by
  obtain ⟨hp, hv, _⟩ := circular_hyps
  apply trs2kepler_bound 1 _ one_pos
  · rw [hp]; exact one_pos
  · rw [hp, hv]; norm_num

example : (trs2kepler (1 : ℝ) ⟨⟨1, 0, 0⟩, ⟨0, 1, 0⟩⟩).e < 1 := by
  obtain ⟨hp, hv, hh⟩ := circular_hyps
  apply trs2kepler_e_lt_one 1 _ one_pos
  · apply trs2kepler_bound 1 _ one_pos
    · rw [hp]; exact one_pos
    · rw [hp, hv]; norm_num
  · rw [hh]; exact one_ne_zero

end Midgard.Geo

#print axioms Midgard.Geo.atan2_mem_Ioc
#print axioms Midgard.Geo.trs2kepler_ranges
#print axioms Midgard.Geo.trs2kepler_bound
#print axioms Midgard.Geo.trs2kepler_e_lt_one
#print axioms Midgard.Geo.trueAnomaly_pos
#print axioms Midgard.Geo.trueAnomaly_neg
#print axioms Midgard.Geo.trueAnomaly_zero_or_pi
