/-
C06 — helper lemmas for the object / array level of the local-frame model (`Model/Frames.lean`): row conversions that
cancel row by row cancel on arrays, selecting rows commutes with converting, and — composed with the C05 model of
`trs2llh` — the height of a surface point is exactly 0 (so the frame taken at `trs2llh v` is the frame at the foot point
`v` itself).
-/
import Midgard.Props.C05
import Midgard.Model.Frames

namespace Midgard.Geo
open Midgard.Props.C05

/-- generic: a pair of row conversions that cancel row by row cancel on arrays of equal length -/
theorem rowsWith_cancel {β : Type} (f g : PosObj ℝ → β → β) (P : PosObj ℝ → Prop)
    (h : ∀ r, P r → ∀ d, g r (f r d) = d) :
    ∀ (refs : List (PosObj ℝ)) (ds : List β), refs.length = ds.length → (∀ r ∈ refs, P r) →
      rowsWith g refs (rowsWith f refs ds) = ds := by
  intro refs
  induction refs with
  | nil => intro ds hl _; cases ds <;> simp_all [rowsWith]
  | cons r rs ih =>
    intro ds hl hP
    cases ds with
    | nil => simp at hl
    | cons d ds =>
      simp only [rowsWith, List.zipWith_cons_cons, List.cons.injEq]
      refine ⟨h r (hP r (by simp)) d, ?_⟩
      exact ih ds (by simpa using hl) (fun r' hr' => hP r' (by simp [hr']))

/-- selecting rows and converting commute (arrays of equal length) -/
theorem takeRows_rowsWith {β : Type} (f : PosObj ℝ → β → β) (refs : List (PosObj ℝ)) (ds : List β)
    (hl : refs.length = ds.length) (idx : List Nat) :
    takeRows (rowsWith f refs ds) idx = rowsWith f (takeRows refs idx) (takeRows ds idx) := by
  induction idx with
  | nil => simp [takeRows, rowsWith]
  | cons i is ih =>
    simp only [takeRows, List.filterMap_cons] at ih ⊢
    by_cases hi : i < refs.length
    · have hd : i < ds.length := hl ▸ hi
      simp only [rowsWith, List.getElem?_zipWith, List.getElem?_eq_getElem hi, List.getElem?_eq_getElem hd,
        List.zipWith_cons_cons] at ih ⊢
      rw [ih]
    · have hd : ¬ i < ds.length := hl ▸ hi
      have h1 : refs[i]? = none := List.getElem?_eq_none (not_lt.1 hi)
      have h2 : ds[i]? = none := List.getElem?_eq_none (not_lt.1 hd)
      simp only [rowsWith, List.getElem?_zipWith, h1, h2] at ih ⊢
      exact ih

/-- on the ellipsoid surface (off the pole branch) the height returned by `trs2llh` is exactly 0 (over the reals):
the one-step Halley scheme is exact there (`Props.C05.halley_exact_on_surface`) -/
theorem surface_height_zero (E : Ellipsoid ℝ) (ha : 0 < E.a) (hf1 : E.f < 1) (v : V3 ℝ)
    (hon : (v.x * v.x + v.y * v.y) / (E.a * E.a) + (v.z * v.z) / (E.b * E.b) = 1)
    (hoff : ¬ v.x * v.x + v.y * v.y ≤ E.a * E.a * 1e-32) :
    (trs2llh E v).h = 0 := by
  have hq : 0 < 1 - E.f := by linarith
  have hb : 0 < E.b := by unfold Ellipsoid.b; positivity
  have hp2 : 0 < v.x * v.x + v.y * v.y := by
    have : (0:ℝ) ≤ E.a * E.a * 1e-32 := by positivity
    linarith [not_le.1 hoff]
  set p := Real.sqrt (v.x * v.x + v.y * v.y) with hpd
  have hp : 0 < p := Real.sqrt_pos.2 hp2
  have hpp : p * p = v.x * v.x + v.y * v.y := Real.mul_self_sqrt hp2.le
  set C := p / E.a with hC
  set S := absOf v.z / E.b with hS
  clear_value C S
  have hCpos : 0 < C := by rw [hC]; exact div_pos hp ha
  have hzz : absOf v.z * absOf v.z = v.z * v.z := by unfold absOf; split <;> ring
  have hCS : C ^ 2 + S ^ 2 = 1 := by
    rw [hC, hS, div_pow, div_pow, pow_two p, hpp, pow_two (absOf v.z), hzz, pow_two, pow_two]; exact hon
  have hpa : p = E.a * C := by rw [hC]; field_simp
  have hza : absOf v.z = E.b * S := by rw [hS]; field_simp
  obtain ⟨_, _, h3⟩ := halley_exact_on_surface E ha hf1 C S hCS hCpos
  rw [← hpa, ← hza] at h3
  set sc := halley E p (absOf v.z) with hsc
  simp only [trs2llh, latHeightOf, hoff, if_false, trig_sqrt, ← hpd, ← hsc, h3]

/-- a vector parallel to a unit vector `n` is perpendicular to everything `n` is perpendicular to -/
theorem dot_zero_of_parallel (g n e : V3 ℝ) (hc : V3.cross g n = V3.zero) (hn : n.norm2 = 1) (he : V3.dot e n = 0) :
    V3.dot g e = 0 := by
  simp only [V3.cross, V3.zero, V3.mk.injEq] at hc
  obtain ⟨c1, c2, c3⟩ := hc
  simp only [V3.norm2, V3.dot] at hn he ⊢
  linear_combination (-(g.x * e.x + g.y * e.y + g.z * e.z)) * hn + (g.x * n.x + g.y * n.y + g.z * n.z) * he
    - (n.y * e.z - n.z * e.y) * c1 - (n.z * e.x - n.x * e.z) * c2 - (n.x * e.y - n.y * e.x) * c3

theorem zipWith_replicate_l {β γ δ : Type} (f : β → γ → δ) (r : β) (ds : List γ) :
    List.zipWith f (List.replicate ds.length r) ds = ds.map (f r) := by
  induction ds with
  | nil => rfl
  | cons d ds ih => simp [List.replicate_succ, ih]

theorem zipWith_replicate_r {β γ δ : Type} (f : β → γ → δ) (d : γ) (rs : List β) :
    List.zipWith f rs (List.replicate rs.length d) = rs.map (fun r => f r d) := by
  induction rs with
  | nil => rfl
  | cons r rs ih => simp [List.replicate_succ, ih]

end Midgard.Geo
