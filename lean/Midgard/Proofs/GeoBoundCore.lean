import Midgard.Proofs.GeoBound
import Mathlib.Analysis.SpecialFunctions.Pow.Real
import Mathlib.Tactic.FieldSimp
namespace Midgard.Geo.Acc

/-- core of the accuracy bound, in the normalised quantities of the Halley step: with `s1 = P·S·K1/2`,
`cc = P²·q·K2/2`, `D = √(s1²+cc²)`, `W = √(q²s1²+cc²)`, `e = 1 − q²` and bounds `|H| ≤ Hb`, `K1 ≥ k1 > 0`, `K2 ≥ k2 > 0`,
`K0 ≥ 0`:  `|R/a|·q³·k1·k2³ ≤ e⁴·P·S³·|A − q|³·Hb` -/
theorem offset_core (q P S A s1 cc D W Hb k1 k2 : ℝ)
    (hq0 : 0 < q) (hq1 : q ≤ 1) (hP : 0 < P) (hS : 0 < S)
    (hAA : A * A = q * P * (q * P) + S * S)
    (hs1 : s1 = P * S * K1 A P q / 2) (hcc : cc = P ^ 2 * q * K2 A P q / 2)
    (hD : D = Real.sqrt (s1 * s1 + cc * cc)) (hW : W = Real.sqrt (q ^ 2 * (s1 * s1) + cc * cc))
    (hH : |HH A P q| ≤ Hb) (hk1 : k1 ≤ K1 A P q) (hk2 : k2 ≤ K2 A P q) (hk1p : 0 < k1) (hk2p : 0 < k2)
    (hK0 : 0 ≤ K0 A P q) :
    |(S * cc - P * s1) / D + (1 - q ^ 2) * s1 * cc / (D * W)| * (q ^ 3 * k1 * k2 ^ 3)
      ≤ (1 - q ^ 2) ^ 4 * P * S ^ 3 * |A - q| ^ 3 * Hb := by
  set e := 1 - q ^ 2 with he
  have he0 : 0 ≤ e := by rw [he]; nlinarith
  have hK1 : 0 < K1 A P q := lt_of_lt_of_le hk1p hk1
  have hK2 : 0 < K2 A P q := lt_of_lt_of_le hk2p hk2
  have hs1p : 0 < s1 := by rw [hs1]; positivity
  have hccp : 0 < cc := by rw [hcc]; positivity
  have hM : P * s1 - S * cc = e * P ^ 2 * S * K0 A P q / 2 := by
    rw [hs1, hcc]; exact M_as_cofactor q P S A
  have hM0 : 0 ≤ P * s1 - S * cc := by rw [hM]; positivity
  have hDp : 0 < D := by rw [hD]; exact Real.sqrt_pos.2 (by positivity)
  have hWp : 0 < W := by rw [hW]; exact Real.sqrt_pos.2 (by positivity)
  have hWW : W * W = q ^ 2 * (s1 * s1) + cc * cc := by rw [hW]; exact Real.mul_self_sqrt (by positivity)
  have hDD : D * D = s1 * s1 + cc * cc := by rw [hD]; exact Real.mul_self_sqrt (by positivity)
  have hDcc : cc ≤ D := by
    rw [hD]; apply Real.le_sqrt_of_sq_le; nlinarith [mul_self_nonneg s1]
  have hWcc : cc ≤ W := by
    rw [hW]; apply Real.le_sqrt_of_sq_le; nlinarith [mul_self_nonneg (q * s1)]
  -- R/a = N/(D W)
  set M := P * s1 - S * cc with hMd
  set N := e * s1 * cc - M * W with hN
  have hR : (S * cc - P * s1) / D + e * s1 * cc / (D * W) = N / (D * W) := by
    rw [hN, hMd]; field_simp; ring
  rw [hR]
  -- N (e s1 cc + M W) = (e s1 cc)^2 - M^2 W^2
  have hthird := third_order q P S A s1 cc hAA hs1 hcc hM
  have hprod : N * (e * s1 * cc + M * W) = -(e ^ 5 * P ^ 8 * (S * S) ^ 2 * (A - q) ^ 3 * HH A P q / 16) := by
    have : N * (e * s1 * cc + M * W) = (e * s1 * cc) ^ 2 - M ^ 2 * (W * W) := by rw [hN]; ring
    rw [this, hWW]; exact hthird
  rcases he0.eq_or_lt with he00 | hepos
  · -- the sphere: M = 0, N = 0
    have hM00 : M = 0 := by rw [hM, ← he00]; ring
    have hN0 : N = 0 := by rw [hN, hM00, ← he00]; ring
    rw [hN0, ← he00]; simp
  · have hden : 0 < e * s1 * cc + M * W := by
      have : 0 ≤ M * W := mul_nonneg hM0 hWp.le
      have : 0 < e * s1 * cc := by positivity
      linarith
    have hden' : e * s1 * cc ≤ e * s1 * cc + M * W := by
      have : 0 ≤ M * W := mul_nonneg hM0 hWp.le
      linarith
    -- |N| (e s1 cc) ≤ e^5 P^8 S^4 |A-q|^3 Hb/16
    have habsN : |N| * (e * s1 * cc) ≤ e ^ 5 * P ^ 8 * (S * S) ^ 2 * |A - q| ^ 3 * Hb / 16 := by
      have h1 : |N| * (e * s1 * cc + M * W) = e ^ 5 * P ^ 8 * (S * S) ^ 2 * |A - q| ^ 3 * |HH A P q| / 16 := by
        rw [← abs_of_pos hden, ← abs_mul, hprod, abs_neg, abs_div, abs_mul, abs_mul, abs_mul, abs_mul, abs_pow, abs_pow, abs_pow,
          abs_pow, abs_of_pos hepos, abs_of_pos hP, abs_of_nonneg (mul_self_nonneg S)]
        norm_num
      have h2 : |N| * (e * s1 * cc) ≤ |N| * (e * s1 * cc + M * W) := mul_le_mul_of_nonneg_left hden' (abs_nonneg _)
      have h3 : e ^ 5 * P ^ 8 * (S * S) ^ 2 * |A - q| ^ 3 * |HH A P q| / 16 ≤ e ^ 5 * P ^ 8 * (S * S) ^ 2 * |A - q| ^ 3 * Hb / 16 := by
        have hc : 0 ≤ e ^ 5 * P ^ 8 * (S * S) ^ 2 * |A - q| ^ 3 := by positivity
        have := mul_le_mul_of_nonneg_left hH hc
        linarith
      linarith
    -- lower bounds of s1, cc
    have hs1lo : P * S * k1 / 2 ≤ s1 := by
      rw [hs1]; have : P * S * k1 ≤ P * S * K1 A P q := mul_le_mul_of_nonneg_left hk1 (by positivity)
      linarith
    have hcclo : P ^ 2 * q * k2 / 2 ≤ cc := by
      rw [hcc]; have : P ^ 2 * q * k2 ≤ P ^ 2 * q * K2 A P q := mul_le_mul_of_nonneg_left hk2 (by positivity)
      linarith
    have hcclo0 : 0 < P ^ 2 * q * k2 / 2 := by positivity
    have hs1lo0 : 0 < P * S * k1 / 2 := by positivity
    -- |N/(D W)| ≤ |N| / cc²
    have hDW : cc * cc ≤ D * W := mul_le_mul hDcc hWcc hccp.le hDp.le
    have hstep : |N / (D * W)| * (cc * cc) ≤ |N| := by
      rw [abs_div, abs_of_pos (mul_pos hDp hWp), div_mul_eq_mul_div, div_le_iff₀ (mul_pos hDp hWp)]
      exact mul_le_mul_of_nonneg_left hDW (abs_nonneg _)
    -- combine:  |R'| cc² e s1 cc ≤ |N| e s1 cc ≤ bound
    have hX : |N / (D * W)| * (cc * cc * (e * s1 * cc)) ≤ e ^ 5 * P ^ 8 * (S * S) ^ 2 * |A - q| ^ 3 * Hb / 16 := by
      have : |N / (D * W)| * (cc * cc) * (e * s1 * cc) ≤ |N| * (e * s1 * cc) :=
        mul_le_mul_of_nonneg_right hstep (by positivity)
      calc |N / (D * W)| * (cc * cc * (e * s1 * cc)) = |N / (D * W)| * (cc * cc) * (e * s1 * cc) := by ring
        _ ≤ |N| * (e * s1 * cc) := this
        _ ≤ _ := habsN
    -- cc³ s1 ≥ P⁷ S q³ k1 k2³ / 16
    have hlow : (P ^ 2 * q * k2 / 2) ^ 3 * (P * S * k1 / 2) ≤ cc * cc * cc * s1 := by
      have h3 : (P ^ 2 * q * k2 / 2) ^ 3 ≤ cc ^ 3 := pow_le_pow_left₀ hcclo0.le hcclo 3
      have := mul_le_mul h3 hs1lo hs1lo0.le (by positivity)
      calc _ ≤ cc ^ 3 * s1 := this
        _ = _ := by ring
    have hY : |N / (D * W)| * (e * ((P ^ 2 * q * k2 / 2) ^ 3 * (P * S * k1 / 2))) ≤ |N / (D * W)| * (cc * cc * (e * s1 * cc)) := by
      apply mul_le_mul_of_nonneg_left _ (abs_nonneg _)
      have := mul_le_mul_of_nonneg_left hlow hepos.le
      calc _ ≤ e * (cc * cc * cc * s1) := this
        _ = _ := by ring
    have hZ := le_trans hY hX
    -- divide by e P⁷ S / 16
    have hfac : 0 < e * P ^ 7 * S / 16 := by positivity
    have e1 : |N / (D * W)| * (e * ((P ^ 2 * q * k2 / 2) ^ 3 * (P * S * k1 / 2)))
        = (|N / (D * W)| * (q ^ 3 * k1 * k2 ^ 3)) * (e * P ^ 7 * S / 16) := by ring
    have e2 : e ^ 5 * P ^ 8 * (S * S) ^ 2 * |A - q| ^ 3 * Hb / 16
        = (e ^ 4 * P * S ^ 3 * |A - q| ^ 3 * Hb) * (e * P ^ 7 * S / 16) := by ring
    rw [e1, e2] at hZ
    exact le_of_mul_le_mul_right hZ hfac

end Midgard.Geo.Acc
