/-
C10 — `read (write d ℓ) = restrict d ℓ` for the model with the `time` attribute of positions.
-/
import Midgard.Proofs.H5XRFields

namespace Midgard.H5
open Midgard.Dataset

theorem tmOKB_spec {h : Heap} {tm : TM} (hk : tmOKB h tm = true) : ∀ o t, tmE h tm o = some t → IsTime h t := by
  intro o t ht
  simp only [tmE] at ht
  cases hob : h[o]? with
  | none => rw [hob] at ht; cases ht
  | some ob =>
    rw [hob] at ht
    simp only at ht
    have ho : o < h.length := (List.getElem?_eq_some_iff.mp hob).1
    simp only [tmOKB, List.all_eq_true, List.mem_range] at hk
    have := hk o ho
    rw [hob] at this
    simp only at this
    split at ht
    · rename_i hko
      simp only [hko, if_true, ht] at this
      cases htb : h[t]? with
      | none => rw [htb] at this; cases this
      | some tb =>
        rw [htb] at this
        exact ⟨tb, htb, by simpa using this⟩
    · cases ht

/-- the objects reachable from the fields through `other` / `ref_pos` and `time` -/
inductive ReachX (h : Heap) (tm : TM) (fs : List Field) : Nat → Prop
  | field {o : Nat} : o ∈ leafObjs fs → ReachX h tm fs o
  | ref {x y : Nat} {ob : Obj} : ReachX h tm fs x → h[x]? = some ob → ob.ref = some y → ReachX h tm fs y
  | time {x t : Nat} : ReachX h tm fs x → tmE h tm x = some t → ReachX h tm fs t

theorem ReachX.known {h : Heap} {tm : TM} {file : File} {fs : List Field} {ρ : Rho} {s : RSt} (inv : RInvX h tm file ρ s)
    (hdom : ∀ o ∈ leafObjs fs, ρ.lookup o ≠ none) {x : Nat} (hx : ReachX h tm fs x) : ρ.lookup x ≠ none := by
  induction hx with
  | field ho => exact hdom _ ho
  | @ref x y ob _ hob hr ih =>
    cases hl : ρ.lookup x with
    | none => exact absurd hl ih
    | some n =>
      obtain ⟨ob', r', h1, _, h3, _⟩ := inv.img x n hl
      rw [hob] at h1
      cases h1
      rw [hr] at h3
      obtain ⟨m, _, hm⟩ := h3
      rw [hm]; simp
  | @time x t _ ht ih =>
    cases hl : ρ.lookup x with
    | none => exact absurd hl ih
    | some n =>
      obtain ⟨ob', r', _, _, _, h4⟩ := inv.img x n hl
      rw [ht] at h4
      obtain ⟨m, _, hm⟩ := h4
      rw [hm]; simp

theorem refRel_map {ρ : Rho} {r r' : Option Nat} (hr : RefRel ρ r r') : r' = r.map (phi ρ) := by
  cases r with
  | none => exact hr
  | some y =>
    obtain ⟨m, h1, h2⟩ := hr
    rw [h1]
    simp [phi_of_lookup h2]

/-- **`read (write d ℓ) = restrict d ℓ`** with the `time` attribute: fields as in `roundTrip_core2`; every reachable object
(now also through `time`) is mapped to an object of the same kind, shape and rows whose `other` / `ref_pos` *and* `time` are
the images of the old ones; the map is injective on the reachable objects -/
theorem roundTrip_coreX (h : Heap) (tm : TM) (d : DS) (lvl : Nat) (hw : WritableX h tm d lvl) :
    ∃ (file : File) (h' : Heap) (tm' : TM) (φ : Nat → Nat), writeDSX h tm d lvl = .ok file ∧
      readBackX h d file = .ok (h', tm', { numObs := d.numObs, fields := renameFields φ (restrictFields lvl d.fields) }) ∧
      (∀ x, ReachX h tm (restrictFields lvl d.fields) x → ∃ ob, h[x]? = some ob ∧ h'[φ x]? = some (ob.rename φ) ∧
        tmOf tm' (φ x) = (tmE h tm x).map φ) ∧
      (∀ x y, ReachX h tm (restrictFields lvl d.fields) x → ReachX h tm (restrictFields lvl d.fields) y → φ x = φ y → x = y) := by
  simp only [WritableX, writableXB, writableSB, Bool.and_eq_true] at hw
  obtain ⟨⟨⟨hheap, hok⟩, hnames⟩, htm⟩ := hw
  have hwf := heapOK_wf hheap
  have hh : HeapWFX h tm := ⟨hwf, tmOKB_spec htm⟩
  have hx : HeapX h tm := ⟨hwf.below, tmOKB_spec htm⟩
  have hlt := leafObjs_lt h d.numObs _ hok
  obtain ⟨file, hwr, hno, hmem, hrep, fo⟩ := writeDS_okX h tm hx d lvl hnames hlt
  have hok' : fieldsOK h file.numObs (restrictFields lvl d.fields) = true := by rw [hno]; exact hok
  obtain ⟨s', ρ, hrd, post⟩ := readTop_specX h tm file hh fo (h.length + 1) (by omega) (constructMemo lvl d.fields [] [])
    (restrictFields lvl d.fields) {} [] (fieldsDepth d.fields + 1) [] (RInvX.empty h tm file) (RepGL_mem _ _ _ hrep) hok'
    (by intro x _ hx; simp [List.lookup] at hx)
    (by rw [List.append_nil]; exact leafPaths_nodup _ [] hnames)
    (aliasOrd_constructMemo lvl d.fields) (by have := fieldsDepth_restrict lvl d.fields; omega)
  refine ⟨file, s'.heap, s'.tm, phi ρ, hwr, ?_, ?_, ?_⟩
  · simp only [readBackX, hmem, hrd, hno]
  · intro x hx
    have hk := ReachX.known post.inv post.dom hx
    cases hl : ρ.lookup x with
    | none => exact absurd hl hk
    | some n =>
      obtain ⟨ob, r', h1, h2, h3, h4⟩ := post.inv.img x n hl
      refine ⟨ob, h1, ?_, ?_⟩
      · rw [phi_of_lookup hl, h2, image_eq_rename (hwf.normal x ob h1) h3]
      · rw [phi_of_lookup hl]; exact refRel_map h4
  · intro x y hx hy hxy
    have hkx := ReachX.known post.inv post.dom hx
    have hky := ReachX.known post.inv post.dom hy
    cases hlx : ρ.lookup x with
    | none => exact absurd hlx hkx
    | some n =>
      cases hly : ρ.lookup y with
      | none => exact absurd hly hky
      | some m =>
        rw [phi_of_lookup hlx, phi_of_lookup hly] at hxy
        subst hxy
        exact post.inv.inj x y n hlx hly

end Midgard.H5
