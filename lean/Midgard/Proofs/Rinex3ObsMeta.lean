/-
C11 file level, part 6a: the flat `meta` dictionary — reading a key after writing / deleting another one — and the
relation "the keys the data section reads are untouched" (`MSame`).  Core Lean only.
-/
import Midgard.Proofs.Rinex3ObsFile

namespace Midgard.Spec.Rinex3ObsFile
open Midgard.Text Midgard.FixedCol Midgard.Decimal Midgard.ChainParser Midgard.RinexObs Midgard.Rinex3Obs

/-! ### `self.meta`: reading a key after writing another -/

theorem find_filter_some {α} (pr keep : α → Bool) : ∀ (l : List α) (x : α),
    l.find? pr = some x → keep x = true → (l.filter keep).find? pr = some x := by
  intro l
  induction l with
  | nil => intro x h; simp at h
  | cons a l ih =>
    intro x h hk
    by_cases ha : pr a = true
    · have : a = x := by simpa [List.find?_cons, ha] using h
      subst this
      simp [List.filter_cons, hk, List.find?_cons, ha]
    · have ha' : pr a = false := by simpa using ha
      have h' : l.find? pr = some x := by simpa [List.find?_cons, ha'] using h
      by_cases hka : keep a = true
      · simp [List.filter_cons, hka, List.find?_cons, ha', ih x h' hk]
      · simp [List.filter_cons, hka, ih x h' hk]

theorem find_filter_none {α} (pr keep : α → Bool) (l : List α) (h : l.find? pr = none) : (l.filter keep).find? pr = none := by
  rw [List.find?_eq_none] at h ⊢
  intro x hx
  exact h x (List.mem_filter.mp hx).1

theorem get_filter (m : Meta) (keep : List Str × Leaf → Bool) (p : List Str)
    (hk : ∀ l, m.get p = some l → ∀ q, (q == p) = true → keep (q, l) = true) : Meta.get (m.filter keep) p = m.get p := by
  unfold Meta.get at hk ⊢
  cases hf : m.find? (·.1 == p) with
  | none => rw [find_filter_none _ _ _ hf]
  | some x =>
    have hx := List.find?_some hf
    have := hk x.2 (by rw [hf]; rfl) x.1 hx
    rw [find_filter_some _ _ _ x hf this]

theorem get_append_ne (m : Meta) (q p : List Str) (v : Leaf) (h : q ≠ p) : Meta.get (m ++ [(q, v)]) p = m.get p := by
  unfold Meta.get
  rw [List.find?_append]
  cases m.find? (·.1 == p) with
  | some x => rfl
  | none =>
    have : (q == p) = false := by simp [h]
    simp [List.find?_cons, this]

theorem get_map_ne (m : Meta) (q p : List Str) (v : Leaf) (h : q ≠ p) :
    Meta.get (m.map fun ql => if ql.1 == q then (ql.1, v) else (ql.1, ql.2)) p = m.get p := by
  unfold Meta.get
  induction m with
  | nil => rfl
  | cons a m ih =>
    obtain ⟨a1, a2⟩ := a
    by_cases ha : a1 = p
    · subst ha
      have hne : (a1 == q) = false := by simp [Ne.symm h]
      simp only [List.map_cons, hne, Bool.false_eq_true, if_false, List.find?_cons, beq_self_eq_true, Option.map_some]
    · have hb : (a1 == p) = false := by simp [ha]
      by_cases hq : a1 = q
      · simp only [List.map_cons, hq, beq_self_eq_true, if_true, List.find?_cons]
        have : (q == p) = false := by simp [h]
        simp only [this]
        rw [← hq] at ih ⊢
        simpa [hb] using ih
      · have hq' : (a1 == q) = false := by simp [hq]
        simp only [List.map_cons, hq', Bool.false_eq_true, if_false, List.find?_cons, hb]
        exact ih

/-- writing `q` leaves a different key `p` alone (unless `p` held an empty-dictionary marker) -/
theorem get_set_ne (m : Meta) (q p : List Str) (v : Leaf) (h : q ≠ p) (he : m.get p ≠ some .empty) :
    (m.set q v).get p = m.get p := by
  unfold Meta.set
  have hfl := get_filter m (fun ql => !(ql.2 == Leaf.empty && isPrefix ql.1 q && ql.1 != q)) p (by
    intro l hl q' _
    have : l ≠ Leaf.empty := fun e => he (e ▸ hl)
    simp [this])
  simp only
  split
  · have := get_map_ne (m.filter fun ql => !(ql.2 == Leaf.empty && isPrefix ql.1 q && ql.1 != q)) q p v h
    rw [← hfl, ← this]
  · rw [get_append_ne _ q p v h]
    exact hfl

theorem get_map_same (q : List Str) (v : Leaf) : ∀ (m : Meta), m.any (·.1 == q) = true →
    Meta.get (m.map fun ql => if ql.1 == q then (ql.1, v) else (ql.1, ql.2)) q = some v := by
  intro m
  unfold Meta.get
  induction m with
  | nil => intro h; simp at h
  | cons a m ih =>
    intro h
    by_cases ha : a.1 = q
    · simp [List.find?_cons, ha]
    · have hb : (a.1 == q) = false := by simp [ha]
      simp only [List.any_cons, hb, Bool.false_or] at h
      simp only [List.map_cons, hb, Bool.false_eq_true, if_false, List.find?_cons]
      exact ih h

theorem get_set_same (m : Meta) (q : List Str) (v : Leaf) : (m.set q v).get q = some v := by
  unfold Meta.set
  simp only
  split
  · rename_i h
    exact get_map_same q v _ h
  · rename_i h
    unfold Meta.get
    rw [List.find?_append]
    have hn : (m.filter fun ql => !(ql.2 == Leaf.empty && isPrefix ql.1 q && ql.1 != q)).find? (·.1 == q) = none := by
      rw [List.find?_eq_none]
      intro x hx hxq
      apply h
      rw [List.any_eq_true]
      exact ⟨x, hx, hxq⟩
    rw [hn]
    simp [List.find?_cons]

theorem get_setdefault_ne (m : Meta) (q p : List Str) (h : q ≠ p) : (m.setdefaultDict q).get p = m.get p := by
  unfold Meta.setdefaultDict
  split
  · rfl
  · exact get_append_ne m q p _ h

theorem get_del (m : Meta) (q p : List Str) (h : isPrefix q p = false) : (m.del q).get p = m.get p := by
  unfold Meta.del
  apply get_filter
  intro l _ q' hq'
  have : q' = p := by simpa using hq'
  subst this
  simp [h]

/-! ### what the header handlers leave alone -/

/-- the keys the data section reads -/
def Prot (p : List Str) : Prop := p = [key "marker_name"] ∨ ∃ sy, p = [key "obstypes", sy]

/-- a key none of the protected ones -/
def Unprot (q : List Str) : Prop := ∀ p, Prot p → q ≠ p

/-- the protected keys read the same (empty-dictionary markers aside) -/
def MSame (m m' : Meta) : Prop := ∀ p, Prot p → m.get p ≠ some .empty → m'.get p = m.get p

theorem MSame.refl (m : Meta) : MSame m m := fun _ _ _ => rfl

theorem MSame.trans {a b c : Meta} (h1 : MSame a b) (h2 : MSame b c) : MSame a c := by
  intro p hp he
  have e1 := h1 p hp he
  rw [← e1]
  exact h2 p hp (by rw [e1]; exact he)

theorem MSame_set (m : Meta) (q : List Str) (v : Leaf) (h : Unprot q) : MSame m (m.set q v) :=
  fun p hp he => get_set_ne m q p v (h p hp) he

theorem MSame_foldl_set {α} (f : α → List Str) (g : α → Leaf) : ∀ (l : List α) (m : Meta), (∀ x ∈ l, Unprot (f x)) →
    MSame m (l.foldl (fun m x => m.set (f x) (g x)) m) := by
  intro l
  induction l with
  | nil => intro m _; exact MSame.refl m
  | cons a l ih =>
    intro m h
    exact (MSame_set m (f a) (g a) (h a (by simp))).trans (ih _ (fun x hx => h x (by simp [hx])))

theorem unprot_len3 (a b c : Str) : Unprot [a, b, c] := by
  intro p hp
  rcases hp with rfl | ⟨sy, rfl⟩ <;> simp

theorem unprot_pair (a b : Str) (h : a ≠ key "obstypes") : Unprot [a, b] := by
  intro p hp
  rcases hp with rfl | ⟨sy, rfl⟩
  · simp
  · intro e
    simp only [List.cons.injEq] at e
    exact h e.1

theorem unprot_single (a : Str) (h : a ≠ key "marker_name") : Unprot [a] := by
  intro p hp
  rcases hp with rfl | ⟨sy, rfl⟩
  · intro e
    simp only [List.cons.injEq, and_true] at e
    exact h e
  · simp

end Midgard.Spec.Rinex3ObsFile
