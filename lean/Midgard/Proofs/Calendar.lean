/-
Calendar theorem for all dates: `daysFromCivil1970 (civilFromDays1970 z) = z` with a valid month
and day, for every day number `z` (no bound on the year).  One 400-year era is a finite table
checked by the kernel (`CalendarEra/Part00 … Part15`); the lift to every era is linear arithmetic.
-/
import Midgard.Proofs.CalendarEra.Part00
import Midgard.Proofs.CalendarEra.Part01
import Midgard.Proofs.CalendarEra.Part02
import Midgard.Proofs.CalendarEra.Part03
import Midgard.Proofs.CalendarEra.Part04
import Midgard.Proofs.CalendarEra.Part05
import Midgard.Proofs.CalendarEra.Part06
import Midgard.Proofs.CalendarEra.Part07
import Midgard.Proofs.CalendarEra.Part08
import Midgard.Proofs.CalendarEra.Part09
import Midgard.Proofs.CalendarEra.Part10
import Midgard.Proofs.CalendarEra.Part11
import Midgard.Proofs.CalendarEra.Part12
import Midgard.Proofs.CalendarEra.Part13
import Midgard.Proofs.CalendarEra.Part14
import Midgard.Proofs.CalendarEra.Part15
import Mathlib.Tactic.IntervalCases

namespace Midgard.TimeFormat

theorem chunk_get {k n : Nat} (h : chunkOK k n = true) {i : Nat} (hi : i < n) : eraOK (k * 9132 + i) = true := by
  simp only [chunkOK, List.all_eq_true] at h
  exact h i (List.mem_range.mpr hi)

/-- every day of the era passes the check -/
theorem eraOK_all (doe : Nat) (h : doe < 146097) : eraOK doe = true := by
  obtain ⟨k, i, hk, hi, rfl⟩ : ∃ k i, k < 16 ∧ i < 9132 ∧ doe = k * 9132 + i :=
    ⟨doe / 9132, doe % 9132, by omega, by omega, by omega⟩
  interval_cases k
  · exact chunk_get era_chunk_00 hi
  · exact chunk_get era_chunk_01 hi
  · exact chunk_get era_chunk_02 hi
  · exact chunk_get era_chunk_03 hi
  · exact chunk_get era_chunk_04 hi
  · exact chunk_get era_chunk_05 hi
  · exact chunk_get era_chunk_06 hi
  · exact chunk_get era_chunk_07 hi
  · exact chunk_get era_chunk_08 hi
  · exact chunk_get era_chunk_09 hi
  · exact chunk_get era_chunk_10 hi
  · exact chunk_get era_chunk_11 hi
  · exact chunk_get era_chunk_12 hi
  · exact chunk_get era_chunk_13 hi
  · exact chunk_get era_chunk_14 hi
  · exact chunk_get era_chunk_15 (by omega)

/-- **Calendar round trip for every day number.** -/
theorem days_civil (z : Int) :
    daysFromCivil1970 (civilFromDays1970 z).1 (civilFromDays1970 z).2.1 (civilFromDays1970 z).2.2 = z ∧
    1 ≤ (civilFromDays1970 z).2.1 ∧ (civilFromDays1970 z).2.1 ≤ 12 ∧
    1 ≤ (civilFromDays1970 z).2.2 ∧ (civilFromDays1970 z).2.2 ≤ 31 := by
  -- split the day number into era and day of era
  have hdoe0 : 0 ≤ (z + 719468) % 146097 := Int.emod_nonneg _ (by decide)
  have hdoe1 : (z + 719468) % 146097 < 146097 := Int.emod_lt_of_pos _ (by decide)
  have hdoe : (z + 719468) - (z + 719468) / 146097 * 146097 = (z + 719468) % 146097 := by
    have := Int.emod_def (z + 719468) 146097
    rw [this, Int.mul_comm]
  obtain ⟨n, hn⟩ : ∃ n : Nat, ((z + 719468) % 146097) = (n : Int) := ⟨((z + 719468) % 146097).toNat, by omega⟩
  have hnlt : n < 146097 := by omega
  have hok := eraOK_all n hnlt
  simp only [eraOK, Bool.and_eq_true, beq_iff_eq, decide_eq_true_eq] at hok
  obtain ⟨⟨⟨⟨⟨⟨h1, h2⟩, h3⟩, h4⟩, h5⟩, h6⟩, h7⟩ := hok
  simp only [civilFromDays1970, hdoe, hn]
  refine ⟨?_, h4, h5, h6, h7⟩
  -- the year of the result is (year of era) + 400·era; January/February adjustment commutes with the shift
  simp only [daysFromCivil1970]
  set c := civilOfDoe (n : Int) with hc
  set era := (z + 719468) / 146097 with hera
  by_cases hm : c.2.1 ≤ 2
  · simp only [hm, if_true] at h1 h2 h3 ⊢
    have e1 : (c.1 + era * 400 - 1) / 400 = era := by omega
    rw [e1]
    have e2 : c.1 + era * 400 - 1 - era * 400 = c.1 - 1 := by omega
    rw [e2, h1]; omega
  · simp only [hm, if_false] at h1 h2 h3 ⊢
    have e1 : (c.1 + era * 400) / 400 = era := by omega
    rw [e1]
    have e2 : c.1 + era * 400 - era * 400 = c.1 := by omega
    rw [e2, h1]; omega

/-- the same from 2000-01-01, as the format model uses it -/
theorem daysFromCivil_civilFromDays (n : Int) :
    daysFromCivil (civilFromDays n).1 (civilFromDays n).2.1 (civilFromDays n).2.2 = n := by
  simp only [daysFromCivil, civilFromDays]
  have := (days_civil (n + epoch2000)).1
  omega

end Midgard.TimeFormat
