/-
C10 — stage B of the round trip: `Dataset.read` of a faithful file (`FileOK`).  The invariant `RInv`
relates the read state (new heap, memo `field name ↦ new object`) to the heap that was written through a
growing partial injection `ρ : old object ↦ new object`: every new object is the image of its old one
(same kind, shape, rows; its reference is the image of the old reference), the memo names only array
groups of the file and gives the image of the object the group was written for, and an object of a
registering class that has been read is known to the memo under the path of its group — so that no
group is read twice and an attached object is the very object read for its field.
-/
import Midgard.Proofs.H5WriteAll

namespace Midgard.H5
open Midgard.Dataset

abbrev Rho := List (Nat × Nat)

theorem lookup_cons_ite {α β} [BEq α] [LawfulBEq α] [DecidableEq α] (k a : α) (b : β) (es : List (α × β)) :
    List.lookup a ((k, b) :: es) = if a = k then some b else es.lookup a := by
  simp only [List.lookup]
  by_cases h : a = k
  · subst h; simp
  · have : (a == k) = false := by simpa using h
    simp [this, h]

/-- the new reference is the image of the old one -/
def RefRel (ρ : Rho) (r r' : Option Nat) : Prop :=
  match r with
  | none => r' = none
  | some y => ∃ m, r' = some m ∧ ρ.lookup y = some m

def Ext (ρ ρ' : Rho) : Prop := ∀ x n, ρ.lookup x = some n → ρ'.lookup x = some n

theorem Ext.refl (ρ : Rho) : Ext ρ ρ := fun _ _ h => h
theorem Ext.trans {a b c : Rho} (h1 : Ext a b) (h2 : Ext b c) : Ext a c := fun x n h => h2 x n (h1 x n h)

theorem Ext.cons {ρ : Rho} {x : Nat} (n : Nat) (hx : ρ.lookup x = none) : Ext ρ ((x, n) :: ρ) := by
  intro z m hz
  rw [lookup_cons_ite]
  by_cases hzx : z = x
  · subst hzx; rw [hx] at hz; cases hz
  · simp [hzx, hz]

theorem RefRel.mono {ρ ρ' : Rho} (he : Ext ρ ρ') {r r' : Option Nat} (h : RefRel ρ r r') : RefRel ρ' r r' := by
  cases r with
  | none => exact h
  | some y =>
    obtain ⟨m, h1, h2⟩ := h
    exact ⟨m, h1, he y m h2⟩

def Registers (h : Heap) (x : Nat) : Prop := ∃ ob, h[x]? = some ob ∧ ob.kind.registers = true

/-- the heap conditions of `Writable` as propositions -/
structure HeapWF (h : Heap) : Prop where
  below : Below h
  delta : ∀ (o : Nat) (ob : Obj), h[o]? = some ob → ob.kind.isDelta = true → ob.ref ≠ none
  refReg : ∀ (o : Nat) (ob : Obj) (x : Nat), h[o]? = some ob → ob.ref = some x → Registers h x
  normal : ∀ (o : Nat) (ob : Obj), h[o]? = some ob → ob.normal = true

structure RInv (h : Heap) (file : File) (ρ : Rho) (s : RSt) : Prop where
  lt : ∀ x n, ρ.lookup x = some n → n < s.heap.length
  inj : ∀ x x' n, ρ.lookup x = some n → ρ.lookup x' = some n → x = x'
  img : ∀ x n, ρ.lookup x = some n → ∃ ob r', h[x]? = some ob ∧ s.heap[n]? = some (ob.strip.withRef r') ∧ RefRel ρ ob.ref r'
  memo : ∀ q n, s.memo.lookup q = some n → ∃ g, lookupGrp file.groups q = some g ∧ ρ.lookup g.src = some n
  reg : ∀ x n, ρ.lookup x = some n → Registers h x → ∀ q g, lookupGrp file.groups q = some g → g.isArr = true →
    g.src = x → s.memo.lookup q = some n

theorem RInv.empty (h : Heap) (file : File) : RInv h file [] {} where
  lt := by intro x n hx; simp [List.lookup] at hx
  inj := by intro x x' n hx; simp [List.lookup] at hx
  img := by intro x n hx; simp [List.lookup] at hx
  memo := by intro q n hq; simp [List.lookup] at hq
  reg := by intro x n hx; simp [List.lookup] at hx

/-- `memo[name] = obj` for the array group of that name and the image of its object -/
theorem RInv.set {h : Heap} {file : File} {ρ : Rho} {s : RSt} (inv : RInv h file ρ s) {q : Path} {g : Grp} {n : Nat}
    (hl : lookupGrp file.groups q = some g) (hr : ρ.lookup g.src = some n) :
    RInv h file ρ (s.set q n) where
  lt := inv.lt
  inj := inv.inj
  img := inv.img
  memo := by
    intro q' n' hq
    simp only [RSt.set] at hq
    rw [lookup_cons_ite] at hq
    by_cases hqq : q' = q
    · subst hqq
      simp only [if_true, Option.some.injEq] at hq
      subst hq
      exact ⟨g, hl, hr⟩
    · simp only [hqq, if_false] at hq
      exact inv.memo q' n' hq
  reg := by
    intro x0 n0 hx0 hreg q' g' hl' ha' hs'
    simp only [RSt.set]
    rw [lookup_cons_ite]
    by_cases hqq : q' = q
    · subst hqq
      rw [hl] at hl'
      cases hl'
      rw [hs'] at hr
      rw [hr] at hx0
      simp [hx0]
    · simp only [hqq, if_false]
      exact inv.reg x0 n0 hx0 hreg q' g' hl' ha' hs'

/-- a new array is made for an object not read so far, and (if its class does that) registered -/
theorem RInv.alloc {h : Heap} {file : File} {ρ : Rho} {s : RSt} (fo : FileOK h file) (inv : RInv h file ρ s)
    {x : Nat} {ob : Obj} {r' : Option Nat} {q : Path} {g : Grp} (hx : ρ.lookup x = none) (hob : h[x]? = some ob)
    (hrr : RefRel ρ ob.ref r') (hl : lookupGrp file.groups q = some g) (ha : g.isArr = true) (hs : g.src = x)
    {s' : RSt} (hheap : s'.heap = s.heap ++ [ob.strip.withRef r'])
    (hmemo : s'.memo = s.memo ∨ s'.memo = (q, s.heap.length) :: s.memo)
    (hreg : ob.kind.registers = true → s'.memo = (q, s.heap.length) :: s.memo) :
    RInv h file ((x, s.heap.length) :: ρ) s' := by
  have hext : Ext ρ ((x, s.heap.length) :: ρ) := Ext.cons _ hx
  refine ⟨?_, ?_, ?_, ?_, ?_⟩
  · intro z n hz
    rw [lookup_cons_ite] at hz
    rw [hheap, List.length_append, List.length_singleton]
    by_cases hzx : z = x
    · simp only [hzx, if_true, Option.some.injEq] at hz; omega
    · simp only [hzx, if_false] at hz
      have := inv.lt z n hz; omega
  · intro z z' n hz hz'
    rw [lookup_cons_ite] at hz hz'
    by_cases hzx : z = x <;> by_cases hzx' : z' = x
    · rw [hzx, hzx']
    · simp only [hzx, if_true, Option.some.injEq] at hz
      simp only [hzx', if_false] at hz'
      have := inv.lt z' n hz'; omega
    · simp only [hzx', if_true, Option.some.injEq] at hz'
      simp only [hzx, if_false] at hz
      have := inv.lt z n hz; omega
    · simp only [hzx, if_false] at hz
      simp only [hzx', if_false] at hz'
      exact inv.inj z z' n hz hz'
  · intro z n hz
    rw [lookup_cons_ite] at hz
    by_cases hzx : z = x
    · simp only [hzx, if_true, Option.some.injEq] at hz
      subst hz
      refine ⟨ob, r', hzx ▸ hob, ?_, hrr.mono hext⟩
      rw [hheap]
      simp
    · simp only [hzx, if_false] at hz
      obtain ⟨ob0, r0, h1, h2, h3⟩ := inv.img z n hz
      refine ⟨ob0, r0, h1, ?_, h3.mono hext⟩
      rw [hheap, List.getElem?_append_left (inv.lt z n hz)]
      exact h2
  · intro q' n' hq
    rcases hmemo with hm | hm
    · rw [hm] at hq
      obtain ⟨g', a1, a3⟩ := inv.memo q' n' hq
      exact ⟨g', a1, hext _ _ a3⟩
    · rw [hm, lookup_cons_ite] at hq
      by_cases hqq : q' = q
      · simp only [hqq, if_true, Option.some.injEq] at hq
        subst hq
        refine ⟨g, hqq ▸ hl, ?_⟩
        rw [hs, lookup_cons_ite]; simp
      · simp only [hqq, if_false] at hq
        obtain ⟨g', a1, a3⟩ := inv.memo q' n' hq
        exact ⟨g', a1, hext _ _ a3⟩
  · intro z n hz hregz q' g' hl' ha' hs'
    rw [lookup_cons_ite] at hz
    by_cases hzx : z = x
    · simp only [hzx, if_true, Option.some.injEq] at hz
      subst hz
      have hqq : q' = q := fo.uniq q' g' q g hl' hl ha' ha (by rw [hs', hs, hzx])
      obtain ⟨obz, hobz, hrz⟩ := hregz
      rw [hzx, hob] at hobz
      cases hobz
      rw [hreg hrz, hqq, lookup_cons_ite]; simp
    · simp only [hzx, if_false] at hz
      have hold := inv.reg z n hz hregz q' g' hl' ha' hs'
      rcases hmemo with hm | hm
      · rw [hm]; exact hold
      · rw [hm, lookup_cons_ite]
        have hqq : q' ≠ q := by
          intro hqq
          rw [hqq, hl] at hl'
          cases hl'
          exact hzx (hs'.symm.trans hs)
        simp only [hqq, if_false]
        exact hold

/-! ### `_read` of one array group -/

@[simp] theorem strip_kind (ob : Obj) : ob.strip.kind = ob.kind := rfl

theorem strip_withRef_none (ob : Obj) : ob.strip.withRef none = ob.strip := by
  cases ob with
  | mk k nd c rows ot rp =>
    simp only [Obj.withRef, Obj.strip]
    by_cases hk : k.hasOther = true <;> simp [hk]

theorem registers_of_attr {k : Kind} {nm : String} (hk : attrName k = some nm) : k.registers = true := by
  simp [Kind.registers, hk]

theorem registers_plain {k : Kind} (hk : attrName k = none) : k.registers = (k == .time || k == .timeDelta) := by
  simp [Kind.registers, hk]

theorem readRef_none (rd : Grp → RSt → M (Nat × RSt)) (s : RSt) : readRef rd none s = .ok (none, s) := rfl

theorem readArr_spec (h : Heap) (file : File) (hh : HeapWF h) (fo : FileOK h file) :
    ∀ (fuel : Nat) (q : Path) (g : Grp) (s : RSt) (ρ : Rho),
    RInv h file ρ s → lookupGrp file.groups q = some g → g.isArr = true → g.src < fuel → ρ.lookup g.src = none →
    ∃ n s' ρ', readArr file fuel g s = .ok (n, s') ∧ RInv h file ρ' s' ∧ Ext ρ ρ' ∧ ρ'.lookup g.src = some n ∧
      (∀ z, ρ'.lookup z ≠ none → ρ.lookup z ≠ none ∨ z = g.src ∨ (z < g.src ∧ Registers h z))
  | 0, _, _, _, _, _, _, _, hf, _ => by omega
  | fuel + 1, q, g, s, ρ, inv, hl, ha, hf, hx => by
    obtain ⟨a, ob, subs, rfl, hob, hfn, hcase⟩ := fo.node q g hl ha
    simp only [Grp.src_mk] at hf hx ⊢
    cases hat : attrName ob.kind with
    | none =>
      -- an array without attribute
      have hrn : ob.ref = none := ref_none_of_attrName_none hat
      have hinv := RInv.alloc (s' := if ob.kind == .time || ob.kind == .timeDelta
          then ((s.alloc ob.strip).2).set a.fieldname s.heap.length else (s.alloc ob.strip).2)
        fo inv hx hob (r' := none) (by rw [hrn]; rfl) hl ha rfl
        (by rw [strip_withRef_none]; split <;> rfl)
        (by rw [hfn]; split <;> simp [RSt.set, RSt.alloc])
        (by
          intro hr
          rw [registers_plain hat] at hr
          rw [hfn]; simp [hr, RSt.set, RSt.alloc])
      refine ⟨s.heap.length, _, (a.src, s.heap.length) :: ρ, ?_, hinv, Ext.cons _ hx, ?_, ?_⟩
      · simp only [readArr, strip_kind, hat, RSt.alloc]
        rfl
      · rw [lookup_cons_ite]; simp
      · intro z hz
        rw [lookup_cons_ite] at hz
        by_cases hzx : z = a.src
        · exact Or.inr (Or.inl hzx)
        · simp only [hzx, if_false] at hz; exact Or.inl hz
    | some nm =>
      -- the attribute first
      have hrefpart : ∃ r s1 ρ1, readRef (readArr file fuel) (refTarget file a subs nm) s = .ok (r, s1) ∧
          RInv h file ρ1 s1 ∧ Ext ρ ρ1 ∧ RefRel ρ1 ob.ref r ∧ ρ1.lookup a.src = none ∧
          (∀ z, ρ1.lookup z ≠ none → ρ.lookup z ≠ none ∨ (z < a.src ∧ Registers h z)) := by
        rcases hcase with ⟨hrn, htn⟩ | ⟨nm', y, qy, gy, hat', hry, htg, hly, hay, hsy⟩
        · refine ⟨none, s, ρ, ?_, inv, Ext.refl ρ, by rw [hrn]; rfl, hx, fun z hz => Or.inl hz⟩
          rw [htn nm hat]; rfl
        · rw [hat] at hat'
          cases hat'
          have hylt : y < a.src := hh.below a.src ob y hob hry
          have hyreg : Registers h y := hh.refReg a.src ob y hob hry
          rw [htg]
          simp only [readRef]
          cases hml : s.memo.lookup qy with
          | some m =>
            obtain ⟨g'', h1, h3⟩ := inv.memo qy m hml
            rw [hly] at h1
            cases h1
            rw [hsy] at h3
            exact ⟨some m, s, ρ, rfl, inv, Ext.refl ρ, by rw [hry]; exact ⟨m, rfl, h3⟩, hx, fun z hz => Or.inl hz⟩
          | none =>
            have hyn : ρ.lookup y = none := by
              cases hyl : ρ.lookup y with
              | none => rfl
              | some m =>
                have := inv.reg y m hyl hyreg qy gy hly hay hsy
                rw [hml] at this
                cases this
            obtain ⟨m, s1, ρ1, hrd, inv1, hext1, hlk1, hnew1⟩ := readArr_spec h file hh fo fuel qy gy s ρ inv hly hay
              (by rw [hsy]; omega) (by rw [hsy]; exact hyn)
            rw [hsy] at hlk1 hnew1
            have hxn1 : ρ1.lookup a.src = none := by
              cases hxl : ρ1.lookup a.src with
              | none => rfl
              | some m' =>
                rcases hnew1 a.src (by rw [hxl]; simp) with h0 | h0 | h0
                · exact absurd hx h0
                · omega
                · omega
            refine ⟨some m, s1.set qy m, ρ1, ?_, inv1.set hly (by rw [hsy]; exact hlk1), hext1,
              by rw [hry]; exact ⟨m, rfl, hlk1⟩, hxn1, ?_⟩
            · simp only [hrd]
            · intro z hz
              rcases hnew1 z hz with h0 | h0 | h0
              · exact Or.inl h0
              · exact Or.inr ⟨h0 ▸ hylt, h0 ▸ hyreg⟩
              · exact Or.inr ⟨by omega, h0.2⟩
      obtain ⟨r, s1, ρ1, hrr, inv1, hext1, hrel1, hxn1, hnew1⟩ := hrefpart
      have hdelta : (ob.kind.isDelta && r.isNone) = false := by
        cases hd : ob.kind.isDelta with
        | false => rfl
        | true =>
          have := hh.delta a.src ob hob hd
          cases hro : ob.ref with
          | none => exact absurd hro this
          | some y =>
            rw [hro] at hrel1
            obtain ⟨m, hm, _⟩ := hrel1
            simp [hm]
      have hinv := RInv.alloc (s' := ((s1.alloc (ob.strip.withRef r)).2).set a.fieldname s1.heap.length)
        fo inv1 hxn1 hob hrel1 hl ha rfl (by simp [RSt.set, RSt.alloc])
        (by rw [hfn]; right; simp [RSt.set, RSt.alloc])
        (by intro _; rw [hfn]; simp [RSt.set, RSt.alloc])
      refine ⟨s1.heap.length, _, (a.src, s1.heap.length) :: ρ1, ?_, hinv, hext1.trans (Ext.cons _ hxn1), ?_, ?_⟩
      · simp only [readArr, strip_kind, hat, hrr, hdelta, RSt.alloc]
        simp
      · rw [lookup_cons_ite]; simp
      · intro z hz
        rw [lookup_cons_ite] at hz
        by_cases hzx : z = a.src
        · exact Or.inr (Or.inl hzx)
        · simp only [hzx, if_false] at hz
          rcases hnew1 z hz with h0 | h0
          · exact Or.inl h0
          · exact Or.inr (Or.inr h0)

end Midgard.H5
