/-
Lemmas for labelled 80-column records (ANTEX / RINEX headers): 60 data columns rendered by a
fixed-column layout, then the record label.  Core Lean only.
-/
import Midgard.Model.ChainParser
import Midgard.Proofs.FixedCol

namespace Midgard.ChainParser
open Midgard.Text Midgard.FixedCol

/-- `rstrip` leaves a line alone that ends in a clean non-empty text -/
theorem rstrip_append_clean {a v : Str} (hv : Clean v = true) (hne : v ≠ []) : rstrip (a ++ v) = a ++ v := by
  have h1 : rstrip v = v := clean_rstrip hv
  unfold rstrip at h1 ⊢
  rw [List.reverse_append]
  cases hr : v.reverse with
  | nil => simp at hr; exact absurd hr hne
  | cons d r =>
    rw [hr] at h1
    simp only [List.cons_append, List.dropWhile_cons] at h1 ⊢
    by_cases hd : isSpace d = true
    · -- then dropWhile would shorten v: impossible
      simp only [hd, if_true] at h1
      have hl := congrArg List.length h1
      have hle : (List.dropWhile isSpace r).length ≤ r.length := (List.dropWhile_sublist isSpace).length_le
      have hv' : v.length = r.length + 1 := by
        have := congrArg List.length hr; simpa using this
      simp at hl; omega
    · simp only [hd] 
      simp only [Bool.false_eq_true, if_false]
      rw [← List.cons_append, ← hr]; simp

theorem renderA_length_le {L : Layout} {cells : List (Align × Str)} {n : Nat}
    (hs : Sorted L = true) (hf : Fits L cells = true) (hw : Within n L = true) :
    (renderA L cells).length ≤ n := by
  have h := length_renderFrom L 0 cells hs hf
  simp only [Nat.zero_add] at h
  unfold renderA
  rw [h]
  cases hl : L.getLast? with
  | none => simp
  | some z =>
    simp only [Option.map_some, Option.getD_some]
    have hz : z ∈ L := List.mem_of_getLast? hl
    simp only [Within, List.all_eq_true, decide_eq_true_eq] at hw
    exact hw z hz

/-- the data columns of a labelled record read back as the cells, also after the parser's `rstrip` -/
theorem labelled_fields (L : Layout) (cells : List (Align × Str)) (label : Str)
    (hs : Sorted L = true) (hf : Fits L cells = true) :
    L.map (fun f => slice f (rstrip (ljust 60 (renderA L cells) ++ label))) = cells.map (·.2) := by
  have h := slice_renderA_append L cells (blanks (60 - (renderA L cells).length) ++ label) hs hf
  rw [← h]
  apply List.map_congr_left
  intro f _
  rw [slice_rstrip]
  simp [ljust, List.append_assoc]

/-- columns 61.. of a labelled record are the label -/
theorem labelled_label (L : Layout) (cells : List (Align × Str)) (label : Str)
    (hs : Sorted L = true) (hf : Fits L cells = true) (hw : Within 60 L = true)
    (hc : Clean label = true) (hne : label ≠ []) :
    sliceFrom 60 (rstrip (ljust 60 (renderA L cells) ++ label)) = label := by
  rw [rstrip_append_clean hc hne]
  have hlen : (ljust 60 (renderA L cells)).length = 60 := length_ljust (renderA_length_le hs hf hw)
  unfold sliceFrom
  rw [List.drop_append_of_le_length (by omega)]
  simp [hlen]

theorem labelled_rstrip (L : Layout) (cells : List (Align × Str)) (label : Str)
    (hc : Clean label = true) (hne : label ≠ []) :
    rstrip (ljust 60 (renderA L cells) ++ label) = ljust 60 (renderA L cells) ++ label :=
  rstrip_append_clean hc hne


/-! ### `read_data` over a group of lines whose effects are known -/

/-- the effects of a group of lines applied in order -/
def runFx {S} : List (S → Except Err S) → S → Except Err S
  | [], s => pure s
  | f :: fs, s =>
    match f s with
    | .ok s' => runFx fs s'
    | .error e => .error e

theorem runFx_append {S} (a b : List (S → Except Err S)) (s : S) :
    runFx (a ++ b) s = match runFx a s with
      | .ok s' => runFx b s'
      | .error e => .error e := by
  induction a generalizing s with
  | nil => rfl
  | cons f fs ih =>
    simp only [List.cons_append, runFx]
    cases f s with
    | error e => rfl
    | ok s' => exact ih s'

/-- **Group lemma.**  A run of lines of which only the last one satisfies the end marker (whatever the
next line is): `read_data` applies their effects in order, resets the cache and goes on with the
repeated parser and line number 0 — also when the file ends there. -/
theorem readData_group {S} (first rest : ParserDef S) (reset : S → S) (inFirst : Bool)
    (g : List (Str × (S → Except Err S))) (last : Str × (S → Except Err S)) (more : List Str)
    (heff : ∀ x ∈ g ++ [last], ∀ n s, parseLine (if inFirst then first else rest) (rstrip x.1) n s = x.2 s)
    (hno : ∀ x ∈ g, ∀ n nx, (if inFirst then first else rest).endMarker (rstrip x.1) n nx = false)
    (hend : ∀ n nx, (if inFirst then first else rest).endMarker (rstrip last.1) n nx = true) :
    ∀ (n : Nat) (s : S),
    readData first rest reset ((g ++ [last]).map (·.1) ++ more) inFirst n s =
      match runFx ((g ++ [last]).map (·.2)) s with
      | .error e => .error e
      | .ok s' => readData first rest reset more false 0 (reset s') := by
  induction g with
  | nil =>
    intro n s
    have h1 := heff last (by simp) (n + 1) s
    simp only [List.nil_append, List.map_cons, List.map_nil, List.cons_append, readData, h1, runFx]
    cases hl : last.2 s with
    | error e => rfl
    | ok s' =>
      simp only
      cases more with
      | nil => simp [readData, runFx, pure, Except.pure]
      | cons nx more' => simp [hend, runFx, pure, Except.pure]
  | cons x g ih =>
    intro n s
    have h1 := heff x (by simp) (n + 1) s
    have ih' := ih (fun y hy => heff y (by simp at hy ⊢; rcases hy with h | h; exact Or.inr (Or.inl h); exact Or.inr (Or.inr h)))
      (fun y hy => hno y (by simp [hy]))
    simp only [List.cons_append, List.map_cons, readData, h1, runFx]
    cases hx : x.2 s with
    | error e => rfl
    | ok s' =>
      simp only
      have hne : (List.map (fun x => x.1) (g ++ [last]) ++ more) ≠ [] := by simp
      cases hm : (List.map (fun x => x.1) (g ++ [last]) ++ more) with
      | nil => exact absurd hm hne
      | cons nx rest' =>
        simp only [hno x (by simp)]
        rw [← hm]
        simp only [Bool.false_eq_true, if_false]
        exact ih' (n + 1) s'

end Midgard.ChainParser
