/-
C20 — midgard.math.nputil: norm / unit_vector / take along the last axis.
-/
import Midgard.Model.Numeric
import Mathlib.Tactic.Ring
import Mathlib.Tactic.FieldSimp
import Mathlib.Tactic.Linarith
import Mathlib.Algebra.Order.Field.Rat

namespace Midgard.Proofs.C20
open Midgard.Numeric

theorem normSq_nil : normSq [] = 0 := rfl
theorem normSq_cons (a : ℚ) (v : List ℚ) : normSq (a :: v) = a * a + normSq v := by simp [normSq]

theorem normSq_nonneg : ∀ v : List ℚ, 0 ≤ normSq v
  | [] => by simp [normSq]
  | a :: v => by rw [normSq_cons]; have := normSq_nonneg v; linarith [mul_self_nonneg a]

theorem normSq_eq_zero : ∀ v : List ℚ, normSq v = 0 → ∀ a ∈ v, a = 0
  | [], _ => by simp
  | b :: v, h => by
    rw [normSq_cons] at h
    have h1 := normSq_nonneg v
    have h2 := mul_self_nonneg b
    have hb : b * b = 0 := by linarith
    have hv : normSq v = 0 := by linarith
    intro a ha
    rcases List.mem_cons.mp ha with rfl | ha
    · exact mul_self_eq_zero.mp hb
    · exact normSq_eq_zero v hv a ha

theorem normSq_scale (a : ℚ) : ∀ v : List ℚ, normSq (v.map (a * ·)) = a * a * normSq v
  | [] => by simp [normSq]
  | b :: v => by rw [List.map_cons, normSq_cons, normSq_cons, normSq_scale a v]; ring

theorem normSq_div (n : ℚ) (hn : n ≠ 0) : ∀ v : List ℚ, normSq (v.map (· / n)) = normSq v / (n * n)
  | [] => by simp [normSq]
  | b :: v => by rw [List.map_cons, normSq_cons, normSq_cons, normSq_div n hn v]; field_simp

/-- the result of `unit_vector` has norm 1 -/
theorem unitVector_normSq (v : List ℚ) (n : ℚ) (hn : n ≠ 0) (h : n * n = normSq v) :
    normSq (unitVector v n) = 1 := by
  unfold unitVector
  rw [normSq_div n hn, ← h]
  field_simp

/-- … and is parallel to the vector: `norm(v) * unit_vector(v) = v` -/
theorem unitVector_parallel (v : List ℚ) (n : ℚ) (hn : n ≠ 0) : (unitVector v n).map (n * ·) = v := by
  unfold unitVector
  rw [List.map_map]
  conv_rhs => rw [← List.map_id v]
  apply List.map_congr_left
  intro a _
  simp only [Function.comp, id]
  field_simp

theorem takeLast_getD (rows : List (List ℚ)) (i k : ℕ) (hk : k < rows.length) :
    (takeLast rows i).getD k 0 = (rows.getD k []).getD i 0 := by
  simp [takeLast, List.getD_eq_getElem?_getD, hk]

theorem takeLast_length (rows : List (List ℚ)) (i : ℕ) : (takeLast rows i).length = rows.length := by
  simp [takeLast]

end Midgard.Proofs.C20
