/-
C10 — stage A of the round trip, whole dataset: `Dataset.write` of a writable dataset succeeds and the
file it makes is a faithful representation (`FileOK`, `RepL`): sibling names are unique, no object is
written twice, every array group is what `_write` makes of its heap object, every reference by name
names an array group of the file written for the very object referred to, and the groups follow the
fields of `restrict d ℓ` one by one.
-/
import Midgard.Proofs.H5Write

namespace Midgard.H5
open Midgard.Dataset

/-! ### `restrictFields`, one step -/

/-- what `restrictFields` makes of a field it keeps -/
def restrictField (lvl : Nat) : Field → Field
  | .leaf nm k o no u l => .leaf nm k o no u l
  | .coll nm no l sub => .coll nm no l (restrictFields lvl sub)

theorem restrict_skip {lvl : Nat} {f : Field} {fs : List Field} (h : Field.level f < lvl) :
    restrictFields lvl (f :: fs) = restrictFields lvl fs := by
  cases f <;> simp [restrictFields, h]

theorem restrict_keep {lvl : Nat} {f : Field} {fs : List Field} (h : ¬ Field.level f < lvl) :
    restrictFields lvl (f :: fs) = restrictField lvl f :: restrictFields lvl fs := by
  cases f <;> simp [restrictFields, restrictField, h]

@[simp] theorem restrictField_name (lvl : Nat) (f : Field) : (restrictField lvl f).name = f.name := by
  cases f <;> rfl

/-! ### the fields with their full names -/

/-- `(array object, full field name)` of every leaf field, collections flattened, in field order -/
def leafPaths : List Field → Path → List (Nat × Path)
  | [], _ => []
  | .leaf nm _ o _ _ _ :: fs, pre => (o, pre ++ [nm]) :: leafPaths fs pre
  | .coll nm _ _ sub :: fs, pre => leafPaths sub (pre ++ [nm]) ++ leafPaths fs pre

theorem leafPaths_fst : ∀ (fs : List Field) (pre : Path), (leafPaths fs pre).map Prod.fst = leafObjs fs
  | [], _ => by simp [leafPaths, leafObjs]
  | .leaf nm k o no u l :: fs, pre => by simp [leafPaths, leafObjs, leafPaths_fst fs pre]
  | .coll nm no l sub :: fs, pre => by
    simp [leafPaths, leafObjs, leafPaths_fst fs pre, leafPaths_fst sub (pre ++ [nm])]

theorem leafPaths_cons (f : Field) (fs : List Field) (pre : Path) :
    leafPaths (f :: fs) pre = leafPaths [f] pre ++ leafPaths fs pre := by
  cases f <;> simp [leafPaths]

theorem leafObjs_cons (f : Field) (fs : List Field) : leafObjs (f :: fs) = leafObjs [f] ++ leafObjs fs := by
  cases f <;> simp [leafObjs]

/-- `_construct_memo` registers exactly the fields that will be written, under their full names -/
theorem constructMemo_mem (lvl : Nat) : ∀ (fs : List Field) (pre : Path) (memo : WMemo) (e : Nat × Path),
    e ∈ constructMemo lvl fs pre memo ↔ e ∈ memo ∨ e ∈ leafPaths (restrictFields lvl fs) pre
  | [], pre, memo, e => by simp [constructMemo, restrictFields, leafPaths]
  | .leaf nm k o no u l :: fs, pre, memo, e => by
    simp only [constructMemo, Field.level]
    by_cases hlt : l < lvl
    · simp only [hlt, if_true]
      rw [restrict_skip (by simpa [Field.level] using hlt)]
      exact constructMemo_mem lvl fs pre memo e
    · simp only [hlt, if_false]
      rw [restrict_keep (by simpa [Field.level] using hlt), constructMemo_mem lvl fs pre _ e]
      simp only [restrictField, leafPaths, List.mem_cons]
      constructor
      · rintro ((h | h) | h)
        · exact Or.inr (Or.inl h)
        · exact Or.inl h
        · exact Or.inr (Or.inr h)
      · rintro (h | h | h)
        · exact Or.inl (Or.inr h)
        · exact Or.inl (Or.inl h)
        · exact Or.inr h
  | .coll nm no l sub :: fs, pre, memo, e => by
    simp only [constructMemo, Field.level]
    by_cases hlt : l < lvl
    · simp only [hlt, if_true]
      rw [restrict_skip (by simpa [Field.level] using hlt)]
      exact constructMemo_mem lvl fs pre memo e
    · simp only [hlt, if_false]
      rw [restrict_keep (by simpa [Field.level] using hlt), constructMemo_mem lvl fs pre _ e,
        constructMemo_mem lvl sub (pre ++ [nm]) memo e]
      simp only [restrictField, leafPaths, List.mem_append]
      constructor
      · rintro ((h | h) | h)
        · exact Or.inl h
        · exact Or.inr (Or.inl h)
        · exact Or.inr (Or.inr h)
      · rintro (h | h | h)
        · exact Or.inl (Or.inl h)
        · exact Or.inl (Or.inr h)
        · exact Or.inr h

/-! ### `_write` of one array always succeeds on a well-formed heap -/

theorem writeArr_total (h : Heap) (hb : Below h) : ∀ (fuel : Nat) (u : Option (List String)) (l : Nat) (o : Nat) (p : Path)
    (memo : WMemo), o < h.length → o < fuel → ∃ g memo', writeArr h u l fuel o p memo = .ok (g, memo')
  | 0, _, _, _, _, _, _, hf => by omega
  | fuel + 1, u, l, o, p, memo, ho, hf => by
    simp only [writeArr]
    have hob : h[o]? = some h[o] := List.getElem?_eq_getElem ho
    rw [hob]
    simp only
    split
    · exact ⟨_, _, rfl⟩
    · rename_i nm hat
      split
      · exact ⟨_, _, rfl⟩
      · rename_i x hr
        split
        · exact ⟨_, _, rfl⟩
        · have hx : x < o := hb o _ x hob hr
          obtain ⟨g, m', hw⟩ := writeArr_total h hb fuel none 3 x (p ++ [nm]) ((x, p ++ [nm]) :: memo)
            (by omega) (by omega)
          rw [hw]
          exact ⟨_, _, rfl⟩

/-! ### the groups follow the fields -/

/-- the group `g` is what `FieldType.write` / `CollectionField.write` make of the field, located below
the path `pre` -/
def RepF : Field → Path → Grp → Prop
  | .leaf nm _ o _ u l, pre, g =>
    g.isArr = true ∧ g.src = o ∧ g.attrs.fieldname = pre ++ [nm] ∧ g.attrs.unit = u ∧ g.attrs.level = l ∧
      g.attrs.sameAs = none
  | .coll nm _ l sub, pre, g =>
    ∃ subs, g = .mk { fieldname := [nm], level := l, members := sub.map (fun f => (f.name, fieldType f)) } none subs ∧
      RepL sub (pre ++ [nm]) subs
where RepL : List Field → Path → List (String × Grp) → Prop
  | [], _, gs => gs = []
  | f :: fs, pre, gs => ∃ g r, gs = (f.name, g) :: r ∧ RepF f pre g ∧ RepL fs pre r

theorem RepL_names : ∀ (fs : List Field) (pre : Path) (gs : List (String × Grp)),
    RepF.RepL fs pre gs → gs.map (·.1) = names fs
  | [], _, gs, h => by simp only [RepF.RepL] at h; subst h; rfl
  | f :: fs, pre, gs, h => by
    simp only [RepF.RepL] at h
    obtain ⟨g, r, rfl, _, hr⟩ := h
    have := RepL_names fs pre r hr
    simp only [names] at this
    simp [names, this]

/-- membership form: every field has its group among the groups -/
theorem RepL_mem : ∀ (fs : List Field) (pre : Path) (gs : List (String × Grp)),
    RepF.RepL fs pre gs → ∀ f ∈ fs, ∃ g, (f.name, g) ∈ gs ∧ RepF f pre g
  | [], _, _, _, f, hf => by simp at hf
  | f0 :: fs, pre, gs, h, f, hf => by
    simp only [RepF.RepL] at h
    obtain ⟨g, r, rfl, h0, hr⟩ := h
    rcases List.mem_cons.mp hf with rfl | hf
    · exact ⟨g, by simp, h0⟩
    · obtain ⟨g', hg', hr'⟩ := RepL_mem fs pre r hr f hf
      exact ⟨g', List.mem_cons_of_mem _ hg', hr'⟩

/-! ### what the loop over the fields guarantees -/

abbrev srcs (l : List (Path × Grp)) : List Nat := l.map (fun x => x.2.src)

structure WL (h : Heap) (fs : List Field) (pre : Path) (memo : WMemo) (groups : List (String × Grp)) (memo' : WMemo) :
    Prop where
  rep : RepF.RepL fs pre groups
  sub : ∀ e ∈ memo, e ∈ memo'
  newIn : ∀ x q, (x, q) ∈ memo' → (x, q) ∈ memo ∨ ∃ g', (q, g') ∈ Grp.nodes.nodesL pre groups ∧ g'.src = x
  tree : ∀ q g', (q, g') ∈ Grp.nodes.nodesL pre groups → ArrTree (fun q x => (x, q) ∈ memo') h q g'
  fresh : ∀ q g', (q, g') ∈ Grp.nodes.nodesL pre groups → g'.src ∈ leafObjs fs ∨ g'.src ∉ keys memo
  known : ∀ q g', (q, g') ∈ Grp.nodes.nodesL pre groups → g'.src ∈ keys memo'
  nodup : (srcs (Grp.nodes.nodesL pre groups)).Nodup
  names : NamesOKG.NamesOKL groups
  written : ∀ e ∈ leafPaths fs pre, ∃ g', (e.2, g') ∈ Grp.nodes.nodesL pre groups ∧ g'.src = e.1

theorem nodesL_single (pre : Path) (n : String) (g : Grp) :
    Grp.nodes.nodesL pre [(n, g)] = Grp.nodes (pre ++ [n]) g := by
  simp [Grp.nodes.nodesL]

theorem nodesL_cons (pre : Path) (n : String) (g : Grp) (r : List (String × Grp)) :
    Grp.nodes.nodesL pre ((n, g) :: r) = Grp.nodes.nodesL pre [(n, g)] ++ Grp.nodes.nodesL pre r := by
  simp [Grp.nodes.nodesL]

theorem keys_sub {m m' : WMemo} (hs : ∀ e ∈ m, e ∈ m') {x : Nat} (hx : x ∈ keys m) : x ∈ keys m' := by
  obtain ⟨⟨a, q⟩, he, rfl⟩ := List.mem_map.mp hx
  exact mem_keys (hs _ he)

theorem WL.nil (h : Heap) (pre : Path) (memo : WMemo) : WL h [] pre memo [] memo where
  rep := by simp [RepF.RepL]
  sub := fun _ he => he
  newIn := fun _ _ hx => Or.inl hx
  tree := by intro q g' hm; simp [Grp.nodes.nodesL] at hm
  fresh := by intro q g' hm; simp [Grp.nodes.nodesL] at hm
  known := by intro q g' hm; simp [Grp.nodes.nodesL] at hm
  nodup := by simp [Grp.nodes.nodesL]
  names := by simp [NamesOKG.NamesOKL]
  written := by intro e he; simp [leafPaths] at he

/-- one field, then the others -/
theorem WL.cons {h : Heap} {f : Field} {fs : List Field} {pre : Path} {memo memo1 memo2 : WMemo} {g : Grp}
    {groups : List (String × Grp)}
    (w1 : WL h [f] pre memo [(f.name, g)] memo1) (w2 : WL h fs pre memo1 groups memo2)
    (hnd : (leafObjs (f :: fs)).Nodup) (hprom : ∀ o ∈ leafObjs fs, o ∈ keys memo)
    (hname : f.name ∉ Midgard.Dataset.names fs) : WL h (f :: fs) pre memo ((f.name, g) :: groups) memo2 := by
  have hno : ∀ x, x ∈ leafObjs [f] → x ∉ leafObjs fs := by
    rw [leafObjs_cons] at hnd
    intro x h1 h2
    exact (List.nodup_append.mp hnd).2.2 x h1 x h2 rfl
  have hg1 : ∃ g1 r1, [(f.name, g)] = (f.name, g1) :: r1 ∧ RepF f pre g1 ∧ RepF.RepL [] pre r1 := by
    simpa only [RepF.RepL] using w1.rep
  obtain ⟨g1, r1, he, hrf, _⟩ := hg1
  have : g1 = g := by simp at he; exact he.1.symm
  subst this
  refine ⟨?_, ?_, ?_, ?_, ?_, ?_, ?_, ?_, ?_⟩
  · simp only [RepF.RepL]
    exact ⟨g1, groups, rfl, hrf, w2.rep⟩
  · exact fun e he => w2.sub e (w1.sub e he)
  · intro x q hx
    rw [nodesL_cons]
    rcases w2.newIn x q hx with hx | ⟨g', hg', hs⟩
    · rcases w1.newIn x q hx with hx | ⟨g', hg', hs⟩
      · exact Or.inl hx
      · exact Or.inr ⟨g', List.mem_append_left _ hg', hs⟩
    · exact Or.inr ⟨g', List.mem_append_right _ hg', hs⟩
  · intro q g' hm
    rw [nodesL_cons] at hm
    rcases List.mem_append.mp hm with hm | hm
    · exact (w1.tree q g' hm).mono (fun q x hx => w2.sub _ hx)
    · exact w2.tree q g' hm
  · intro q g' hm
    rw [nodesL_cons] at hm
    rw [leafObjs_cons]
    rcases List.mem_append.mp hm with hm | hm
    · rcases w1.fresh q g' hm with hf | hf
      · exact Or.inl (List.mem_append_left _ hf)
      · exact Or.inr hf
    · rcases w2.fresh q g' hm with hf | hf
      · exact Or.inl (List.mem_append_right _ hf)
      · exact Or.inr (fun hx => hf (keys_sub w1.sub hx))
  · intro q g' hm
    rw [nodesL_cons] at hm
    rcases List.mem_append.mp hm with hm | hm
    · exact keys_sub w2.sub (w1.known q g' hm)
    · exact w2.known q g' hm
  · rw [nodesL_cons]
    simp only [srcs, List.map_append]
    refine List.nodup_append.mpr ⟨w1.nodup, w2.nodup, ?_⟩
    intro a ha b hb hab
    subst hab
    obtain ⟨⟨q1, n1⟩, hm1, hs1⟩ := List.mem_map.mp ha
    obtain ⟨⟨q2, n2⟩, hm2, hs2⟩ := List.mem_map.mp hb
    simp only at hs1 hs2
    have hk1 : a ∈ keys memo1 := hs1 ▸ w1.known q1 n1 hm1
    rcases w2.fresh q2 n2 hm2 with hf | hf
    · rw [hs2] at hf
      rcases w1.fresh q1 n1 hm1 with hf1 | hf1
      · rw [hs1] at hf1; exact hno a hf1 hf
      · rw [hs1] at hf1; exact hf1 (hprom a hf)
    · rw [hs2] at hf; exact hf hk1
  · simp only [NamesOKG.NamesOKL]
    have hn1 : NamesOKG g1 := by
      have := w1.names
      simp only [NamesOKG.NamesOKL] at this
      exact this.1
    refine ⟨hn1, ?_, w2.names⟩
    intro e he heq
    apply hname
    rw [← RepL_names fs pre groups w2.rep]
    exact List.mem_map.mpr ⟨e, he, heq⟩
  · intro e he
    rw [leafPaths_cons] at he
    rw [nodesL_cons]
    rcases List.mem_append.mp he with he | he
    · obtain ⟨g', hg', hs⟩ := w1.written e he
      exact ⟨g', List.mem_append_left _ hg', hs⟩
    · obtain ⟨g', hg', hs⟩ := w2.written e he
      exact ⟨g', List.mem_append_right _ hg', hs⟩

/-! ### one field -/

theorem namesOK_cons (f : Field) (fs : List Field) (hn : namesOK (f :: fs) = true) :
    f.name ∉ Midgard.Dataset.names fs ∧ namesOK [f] = true ∧ namesOK fs = true := by
  cases f with
  | leaf nm k o no u l =>
    simp only [namesOK, Bool.and_eq_true, Bool.not_eq_true', List.contains_eq_mem, decide_eq_false_iff_not] at hn
    simp only [namesOK, Field.name, Midgard.Dataset.names, List.map_nil, List.contains_nil, Bool.not_false, Bool.and_self]
    exact ⟨hn.1, trivial, hn.2⟩
  | coll nm no l sub =>
    simp only [namesOK, Bool.and_eq_true, Bool.not_eq_true', List.contains_eq_mem, decide_eq_false_iff_not] at hn
    simp only [namesOK, Field.name, Midgard.Dataset.names, List.map_nil, List.contains_nil, Bool.not_false, Bool.and_true,
      Bool.true_and]
    exact ⟨hn.1.1, hn.1.2, hn.2⟩

theorem promise_keys {fs : List Field} {pre : Path} {memo : WMemo} (hp : ∀ e ∈ leafPaths fs pre, e ∈ memo) :
    ∀ o ∈ leafObjs fs, o ∈ keys memo := by
  intro o ho
  rw [← leafPaths_fst fs pre] at ho
  obtain ⟨⟨a, q⟩, he, rfl⟩ := List.mem_map.mp ho
  exact mem_keys (hp _ he)

/-- a group made by `_write` of an array class is no alias -/
theorem writeArr_sameAs (h : Heap) : ∀ (fuel : Nat) (u : Option (List String)) (l : Nat) (o : Nat) (p : Path)
    (memo : WMemo) (g : Grp) (memo' : WMemo), writeArr h u l fuel o p memo = .ok (g, memo') → g.attrs.sameAs = none
  | 0, _, _, _, _, _, _, _, hw => by simp [writeArr] at hw
  | fuel + 1, u, l, o, p, memo, g, memo', hw => by
    simp only [writeArr] at hw
    split at hw
    · simp at hw
    · split at hw
      · cases hw; rfl
      · split at hw
        · cases hw; rfl
        · split at hw
          · cases hw; rfl
          · split at hw
            · simp at hw
            · cases hw; rfl

/-- an array known to the memo under the field's own name only is no alias -/
theorem aliasOf_none {memo : WMemo} {o : Nat} {p : Path} (hown : ∀ q, (o, q) ∈ memo → q = p) : aliasOf memo o p = none := by
  unfold aliasOf
  cases hl : memo.lookup o with
  | none => rfl
  | some name =>
    have := hown name (wlookup_mem memo o name hl)
    subst this
    simp

/-- the hypothesis under which no field is written as an alias: the memo knows the array of every field that is to be
written under that field's name only -/
def OwnNames (fs : List Field) (pre : Path) (memo : WMemo) : Prop :=
  ∀ e ∈ leafPaths fs pre, ∀ q, (e.1, q) ∈ memo → q = e.2

theorem writeLeaf_spec (h : Heap) (hb : Below h) (lvl : Nat) (nm : String) (k : Kind) (o no : Nat) (u : Option (List String))
    (l : Nat) (pre : Path) (memo : WMemo) (ho : o < h.length) (hk : o ∈ keys memo)
    (hown : ∀ q, (o, q) ∈ memo → q = pre ++ [nm]) :
    ∃ g memo', writeField h lvl (.leaf nm k o no u l) pre memo = .ok (g, memo') ∧
      WL h [.leaf nm k o no u l] pre memo [(nm, g)] memo' := by
  have hal : aliasOf memo o (pre ++ [nm]) = none := aliasOf_none hown
  obtain ⟨g, m', hw⟩ := writeArr_total h hb (h.length + 1) u l o (pre ++ [nm]) memo ho (by omega)
  obtain ⟨sp, hu, hl, hf⟩ := writeArr_spec h hb _ u l o (pre ++ [nm]) memo g m' hw hk
  have hk' : o ∈ keys m' := keys_sub sp.sub hk
  have hlk : (m'.lookup o).isNone = false := by
    cases hlo : m'.lookup o with
    | none => exact absurd hk' ((lookup_none_iff m' o).mp hlo)
    | some _ => rfl
  refine ⟨g, m', ?_, ?_⟩
  · simp only [writeField, hal, hw, hlk, Bool.false_eq_true, if_false]
  · refine ⟨?_, sp.sub, ?_, ?_, ?_, ?_, ?_, ?_, ?_⟩
    · simp only [RepF.RepL, RepF, Field.name]
      exact ⟨g, [], rfl, ⟨sp.tree.isArr, sp.src, hf, hu, hl, writeArr_sameAs h _ u l o _ memo g m' hw⟩, rfl⟩
    · rw [nodesL_single]; exact sp.newIn
    · rw [nodesL_single]; exact sp.tree.nodes
    · rw [nodesL_single]
      intro q g' hm
      rcases sp.fresh q g' hm with hs | hs
      · left; simp [leafObjs, hs]
      · exact Or.inr hs
    · rw [nodesL_single]; exact sp.known
    · rw [nodesL_single]; exact sp.nodup
    · simp only [NamesOKG.NamesOKL]
      exact ⟨sp.names, by simp, trivial⟩
    · intro e he
      simp only [leafPaths, List.mem_singleton] at he
      subst he
      rw [nodesL_single]
      exact ⟨g, root_mem_nodes _ sp.tree.isArr, sp.src⟩

theorem nodes_coll (p : Path) (a : GAttrs) (subs : List (String × Grp)) :
    Grp.nodes p (Grp.mk a none subs) = Grp.nodes.nodesL p subs := by
  simp [Grp.nodes]

/-! ### all fields -/

mutual
theorem writeField_spec (h : Heap) (hb : Below h) (lvl : Nat) : ∀ (f : Field) (pre : Path) (memo : WMemo),
    (∀ e ∈ leafPaths [restrictField lvl f] pre, e ∈ memo) → (leafObjs [restrictField lvl f]).Nodup →
    namesOK [restrictField lvl f] = true → (∀ o ∈ leafObjs [restrictField lvl f], o < h.length) →
    OwnNames [restrictField lvl f] pre memo →
    ∃ g memo', writeField h lvl f pre memo = .ok (g, memo') ∧
      WL h [restrictField lvl f] pre memo [((restrictField lvl f).name, g)] memo'
  | .leaf nm k o no u l, pre, memo, hp, _, _, hlt, hown => by
    have ho : o < h.length := hlt o (by simp [restrictField, leafObjs])
    have hk : o ∈ keys memo := promise_keys hp o (by simp [restrictField, leafObjs])
    exact writeLeaf_spec h hb lvl nm k o no u l pre memo ho hk
      (fun q hq => hown (o, pre ++ [nm]) (by simp [restrictField, leafPaths]) q hq)
  | .coll nm no l sub, pre, memo, hp, hnd, hn, hlt, hown => by
    have hown' : OwnNames (restrictFields lvl sub) (pre ++ [nm]) memo := by
      intro e he; apply hown; simpa [restrictField, leafPaths] using he
    have hp' : ∀ e ∈ leafPaths (restrictFields lvl sub) (pre ++ [nm]), e ∈ memo := by
      intro e he; apply hp; simpa [restrictField, leafPaths] using he
    have hnd' : (leafObjs (restrictFields lvl sub)).Nodup := by simpa [restrictField, leafObjs] using hnd
    have hn' : namesOK (restrictFields lvl sub) = true := by
      simp only [restrictField, namesOK, Midgard.Dataset.names, List.map_nil, List.contains_nil, Bool.not_false,
        Bool.and_true, Bool.true_and] at hn
      exact hn
    have hlt' : ∀ o ∈ leafObjs (restrictFields lvl sub), o < h.length := by
      intro o ho; apply hlt; simpa [restrictField, leafObjs] using ho
    obtain ⟨subs, mem, memo', hw, w⟩ := writeFields_spec h hb lvl sub (pre ++ [nm]) memo hp' hnd' hn' hlt' hown'
    have hmem := (writeFields_names h lvl sub (pre ++ [nm]) memo subs mem memo' hw).2
    refine ⟨Grp.mk { fieldname := [nm], level := l, members := mem } none subs, memo', by simp only [writeField, hw], ?_⟩
    simp only [restrictField, Field.name]
    refine ⟨?_, w.sub, ?_, ?_, ?_, ?_, ?_, ?_, ?_⟩
    · simp only [RepF.RepL, RepF]
      exact ⟨_, [], rfl, ⟨subs, by rw [hmem], w.rep⟩, rfl⟩
    · rw [nodesL_single, nodes_coll]; exact w.newIn
    · rw [nodesL_single, nodes_coll]; exact w.tree
    · rw [nodesL_single, nodes_coll]
      intro q g' hm
      rcases w.fresh q g' hm with hs | hs
      · left; simpa [leafObjs] using hs
      · exact Or.inr hs
    · rw [nodesL_single, nodes_coll]; exact w.known
    · rw [nodesL_single, nodes_coll]; exact w.nodup
    · simp only [NamesOKG.NamesOKL, NamesOKG]
      exact ⟨w.names, by simp, trivial⟩
    · intro e he
      rw [nodesL_single, nodes_coll]
      apply w.written
      simpa [leafPaths] using he
theorem writeFields_spec (h : Heap) (hb : Below h) (lvl : Nat) : ∀ (fs : List Field) (pre : Path) (memo : WMemo),
    (∀ e ∈ leafPaths (restrictFields lvl fs) pre, e ∈ memo) → (leafObjs (restrictFields lvl fs)).Nodup →
    namesOK (restrictFields lvl fs) = true → (∀ o ∈ leafObjs (restrictFields lvl fs), o < h.length) →
    OwnNames (restrictFields lvl fs) pre memo →
    ∃ groups mem memo', writeField.writeFields h lvl fs pre memo = .ok (groups, mem, memo') ∧
      WL h (restrictFields lvl fs) pre memo groups memo'
  | [], pre, memo, _, _, _, _, _ => by
    refine ⟨[], [], memo, by simp [writeField.writeFields], ?_⟩
    simp only [restrictFields]
    exact WL.nil h pre memo
  | f :: fs, pre, memo, hp, hnd, hn, hlt, hown => by
    by_cases hlv : Field.level f < lvl
    · rw [restrict_skip hlv] at hp hnd hn hlt hown ⊢
      obtain ⟨groups, mem, memo', hw, w⟩ := writeFields_spec h hb lvl fs pre memo hp hnd hn hlt hown
      exact ⟨groups, mem, memo', by simp only [writeField.writeFields, hlv, if_true, hw], w⟩
    · rw [restrict_keep hlv] at hp hnd hn hlt hown ⊢
      obtain ⟨hname, hn1, hn2⟩ := namesOK_cons _ _ hn
      have hnd0 := hnd
      rw [leafObjs_cons] at hnd
      obtain ⟨hnd1, hnd2, hdisj⟩ := List.nodup_append.mp hnd
      have hown1 : OwnNames [restrictField lvl f] pre memo := by
        intro e he; apply hown; rw [leafPaths_cons]; exact List.mem_append_left _ he
      have hown2 : OwnNames (restrictFields lvl fs) pre memo := by
        intro e he; apply hown; rw [leafPaths_cons]; exact List.mem_append_right _ he
      have hp1 : ∀ e ∈ leafPaths [restrictField lvl f] pre, e ∈ memo := by
        intro e he; apply hp; rw [leafPaths_cons]; exact List.mem_append_left _ he
      have hp2 : ∀ e ∈ leafPaths (restrictFields lvl fs) pre, e ∈ memo := by
        intro e he; apply hp; rw [leafPaths_cons]; exact List.mem_append_right _ he
      have hlt1 : ∀ o ∈ leafObjs [restrictField lvl f], o < h.length := by
        intro o ho; apply hlt; rw [leafObjs_cons]; exact List.mem_append_left _ ho
      have hlt2 : ∀ o ∈ leafObjs (restrictFields lvl fs), o < h.length := by
        intro o ho; apply hlt; rw [leafObjs_cons]; exact List.mem_append_right _ ho
      obtain ⟨g, memo1, hw1, w1⟩ := writeField_spec h hb lvl f pre memo hp1 hnd1 hn1 hlt1 hown1
      have hown2' : OwnNames (restrictFields lvl fs) pre memo1 := by
        intro e he q hq
        rcases w1.newIn e.1 q hq with hq | ⟨g', hg', hs⟩
        · exact hown2 e he q hq
        · exfalso
          have he1 : e.1 ∈ leafObjs (restrictFields lvl fs) := by
            rw [← leafPaths_fst _ pre]; exact List.mem_map.mpr ⟨e, he, rfl⟩
          rcases w1.fresh q g' hg' with hf | hf
          · rw [hs] at hf
            exact hdisj e.1 hf e.1 he1 rfl
          · rw [hs] at hf
            exact hf (promise_keys hp2 e.1 he1)
      obtain ⟨groups, mem, memo2, hw2, w2⟩ := writeFields_spec h hb lvl fs pre memo1
        (fun e he => w1.sub e (hp2 e he)) hnd2 hn2 hlt2 hown2'
      refine ⟨(f.name, g) :: groups, _, memo2, by simp only [writeField.writeFields, hlv, if_false, hw1, hw2]; rfl, ?_⟩
      have := WL.cons w1 w2 hnd0 (promise_keys hp2) hname
      rw [restrictField_name] at this
      exact this
end

/-! ### the file as `Dataset.read` will see it -/

theorem ref_none_of_attrName_none {ob : Obj} (hk : attrName ob.kind = none) : ob.ref = none := by
  simp only [attrName] at hk
  simp only [Obj.ref]
  split at hk
  · simp at hk
  · split at hk
    · simp at hk
    · rename_i h1 h2; simp [h1, h2]

/-- the array group `g` found at the path `q` holds a heap object, stripped of its reference, under
its own name, and `_read` will find the attached object (if any) in an array group of the file that
was written for that very object -/
def NodeOK (h : Heap) (file : File) (q : Path) (g : Grp) : Prop :=
  ∃ a ob subs, g = .mk a (some ob.strip) subs ∧ h[a.src]? = some ob ∧ a.fieldname = q ∧
    ((ob.ref = none ∧ ∀ nm, attrName ob.kind = some nm → refTarget file a subs nm = none) ∨
     (∃ nm y qy gy, attrName ob.kind = some nm ∧ ob.ref = some y ∧ refTarget file a subs nm = some (qy, some gy) ∧
        lookupGrp file.groups qy = some gy ∧ gy.isArr = true ∧ gy.src = y))

structure FileOK (h : Heap) (file : File) : Prop where
  names : NamesOKG.NamesOKL file.groups
  uniq : ∀ q1 g1 q2 g2, lookupGrp file.groups q1 = some g1 → lookupGrp file.groups q2 = some g2 → g1.isArr = true →
    g2.isArr = true → g1.src = g2.src → q1 = q2
  node : ∀ q g, lookupGrp file.groups q = some g → g.isArr = true → NodeOK h file q g

theorem NodeOK.of_tree {h : Heap} {file : File} {q : Path} {g : Grp}
    (t : ArrTree (fun qx x => ∃ g', lookupGrp file.groups qx = some g' ∧ g'.isArr = true ∧ g'.src = x) h q g)
    (hl : lookupGrp file.groups q = some g) : NodeOK h file q g := by
  cases t with
  | plain hob hat hf hr =>
    rename_i a ob
    refine ⟨a, ob, [], rfl, hob, hf, Or.inl ⟨ref_none_of_attrName_none hat, ?_⟩⟩
    intro nm hnm; rw [hat] at hnm; cases hnm
  | noref hob hat hrf hf hr =>
    rename_i a ob nm
    refine ⟨a, ob, [], rfl, hob, hf, Or.inl ⟨hrf, ?_⟩⟩
    intro nm' _
    simp [refTarget, hr, List.lookup]
  | named hob hat hrf hf hr hH =>
    rename_i a ob nm x qx
    obtain ⟨g', hg', ha', hs'⟩ := hH
    refine ⟨a, ob, [], rfl, hob, hf, Or.inr ⟨nm, x, qx, g', hat, hrf, ?_, hg', ha', hs'⟩⟩
    simp [refTarget, hr, hg']
  | embedded hob hat hrf hf hr hs t' =>
    rename_i a ob nm x g'
    refine ⟨a, ob, [(nm, g')], rfl, hob, hf, Or.inr ⟨nm, x, q ++ [nm], g', hat, hrf, ?_, ?_, t'.isArr, hs⟩⟩
    · simp [refTarget, hr, List.lookup, hf]
    · rw [lookupGrp_snoc q file.groups _ nm hl]
      simp

/-- **`Dataset.write` of a writable dataset succeeds, and the file is a faithful representation of
`restrict d ℓ`** -/
theorem writeDS_ok (h : Heap) (hb : Below h) (d : DS) (lvl : Nat)
    (hnd : (leafObjs (restrictFields lvl d.fields)).Nodup) (hn : namesOK (restrictFields lvl d.fields) = true)
    (hlt : ∀ o ∈ leafObjs (restrictFields lvl d.fields), o < h.length) :
    ∃ file, writeDS h d lvl = .ok file ∧ file.numObs = d.numObs ∧
      file.members = (restrictFields lvl d.fields).map (fun f => (f.name, fieldType f)) ∧
      RepF.RepL (restrictFields lvl d.fields) [] file.groups ∧ FileOK h file := by
  have hp : ∀ e ∈ leafPaths (restrictFields lvl d.fields) [], e ∈ constructMemo lvl d.fields [] [] :=
    fun e he => (constructMemo_mem lvl d.fields [] [] e).mpr (Or.inr he)
  have hown : OwnNames (restrictFields lvl d.fields) [] (constructMemo lvl d.fields [] []) := by
    intro e he q hq
    rcases (constructMemo_mem lvl d.fields [] [] (e.1, q)).mp hq with hq | hq
    · simp at hq
    · have hnd' : ((leafPaths (restrictFields lvl d.fields) []).map Prod.fst).Nodup := by rw [leafPaths_fst]; exact hnd
      have := nodup_map_inj hnd' hq he rfl
      rw [← this]
  obtain ⟨groups, mem, memo', hw, w⟩ := writeFields_spec h hb lvl d.fields [] _ hp hnd hn hlt hown
  have hmem := (writeFields_names h lvl d.fields [] _ groups mem memo' hw).2
  refine ⟨{ numObs := d.numObs, members := mem, groups := groups }, by simp only [writeDS, hw], rfl, hmem, w.rep, ?_⟩
  have real : ∀ x qx, (x, qx) ∈ memo' → ∃ g', lookupGrp groups qx = some g' ∧ g'.isArr = true ∧ g'.src = x := by
    intro x qx hx
    have hnode : ∃ g', (qx, g') ∈ Grp.nodes.nodesL [] groups ∧ g'.src = x := by
      rcases w.newIn x qx hx with hx | hx
      · rcases (constructMemo_mem lvl d.fields [] [] (x, qx)).mp hx with hx | hx
        · simp at hx
        · exact w.written (x, qx) hx
      · exact hx
    obtain ⟨g', hg', hs⟩ := hnode
    obtain ⟨rel, _, hq, hl, ha⟩ := lookup_of_nodesL groups [] qx g' w.names hg'
    simp only [List.nil_append] at hq
    subst hq
    exact ⟨g', hl, ha, hs⟩
  refine ⟨w.names, fun q1 g1 q2 g2 h1 h2 a1 a2 hs => path_of_src w.names w.nodup h1 h2 a1 a2 hs, ?_⟩
  intro q g hl ha
  have hm := nodes_of_lookup q groups [] g hl ha
  simp only [List.nil_append] at hm
  exact NodeOK.of_tree ((w.tree q g hm).mono (fun qx x hx => real x qx hx)) hl

end Midgard.H5
