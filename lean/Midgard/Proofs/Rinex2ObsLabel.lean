/-
C11, RINEX 2, part 4: characters of a rendered observation line by position (16-column blocks, right-aligned numbers)
and the label heuristic on observation lines (`obs_label`).  Core Lean only.
-/
import Midgard.Proofs.Rinex2ObsLine

namespace Midgard.Spec.Rinex2ObsFile
open Midgard.Text Midgard.FixedCol Midgard.Decimal Midgard.ChainParser Midgard.RinexObs Midgard.Rinex2Obs
open Midgard.Spec.Rinex (renderCells obs2 obsLayout obsTriple obsAligns)
open Midgard.Spec.Rinex3ObsFile (Obs Cell Style styled rstrip_styled cell_fits numChar numText numChar_not_space numChar_not_alpha)

/-! ### characters of a line by position -/

theorem charAt_get (l : Str) (i : Nat) : charAt l i = l[i]? := by
  unfold charAt Text.slice
  rw [List.head?_drop, List.getElem?_take]
  simp

theorem get_rstrip_some {l : Str} {i : Nat} {x : Char} (h : (rstrip l)[i]? = some x) : l[i]? = some x := by
  obtain ⟨ws, hl, _⟩ := rstrip_decomp l
  have hi : i < (rstrip l).length := by
    rcases Nat.lt_or_ge i (rstrip l).length with hh | hh
    · exact hh
    · rw [List.getElem?_eq_none hh] at h; simp at h
  rw [hl, List.getElem?_append_left hi]; exact h

theorem get_rstrip_of_visible {l : Str} {i : Nat} {x : Char} (h : l[i]? = some x) (hx : isSpace x = false) :
    (rstrip l)[i]? = some x := by
  obtain ⟨ws, hl, hb⟩ := rstrip_decomp l
  rcases Nat.lt_or_ge i (rstrip l).length with hh | hh
  · rw [hl, List.getElem?_append_left hh] at h; exact h
  · rw [hl, List.getElem?_append_right hh] at h
    have hm : x ∈ ws := List.mem_of_getElem? h
    have := List.all_eq_true.mp hb x hm
    rw [hx] at this; simp at this

theorem rjust_get_blank (w : Nat) (v : Str) (i : Nat) (h : i < w - v.length) : (rjust w v)[i]? = some ' ' := by
  unfold rjust blanks
  rw [List.getElem?_append_left (by simpa using h)]
  simp [h]

theorem rjust_get_text (w : Nat) (v : Str) (i : Nat) (h : w - v.length ≤ i) : (rjust w v)[i]? = v[i - (w - v.length)]? := by
  unfold rjust blanks
  rw [List.getElem?_append_right (by simpa using h)]
  simp

/-! ### the 16-column blocks of an observation line -/

def field16 (o : Obs) : Str := rjust 14 o.value.text ++ (ljust 1 o.lli.text ++ ljust 1 o.ssi.text)

theorem field16_length (o : Obs) (h : o.wf = true) : (field16 o).length = 16 := by
  simp only [Obs.wf, Bool.and_eq_true] at h
  have v := (cell_fits h.1.1).1
  have l := (cell_fits h.1.2).1
  have s := (cell_fits h.2).1
  simp [field16, length_rjust v, length_ljust l, length_ljust s]

theorem render_blocks : ∀ (os : List Obs) (k : Nat),
    renderFrom (16 * k) ((List.range' k os.length).flatMap fun j => obsTriple j (0 + 16 * j))
      (((List.range' k os.length).flatMap fun _ => [Spec.Rinex.R, Spec.Rinex.L, Spec.Rinex.L]).zip
        (os.flatMap fun o => [o.value.text, o.lli.text, o.ssi.text])) = (os.map field16).flatten := by
  intro os
  induction os with
  | nil => intro k; rfl
  | cons o os ih =>
    intro k
    have := ih (k + 1)
    simp only [List.length_cons, List.range'_succ, List.flatMap_cons, obsTriple, List.cons_append, List.nil_append,
      List.zip_cons_cons, renderFrom, Field.width, pad, Spec.Rinex.R, Spec.Rinex.L, List.map_cons, List.flatten_cons, field16]
    have e1 : 16 * (k + 1) = 0 + 16 * k + 16 := by omega
    rw [e1] at this
    simp only [obsTriple, Spec.Rinex.R, Spec.Rinex.L] at this
    rw [this]
    have w0 : 0 + 16 * k - 16 * k = 0 := by omega
    have w1 : 0 + 16 * k + 14 - (0 + 16 * k) = 14 := by omega
    have w2 : 0 + 16 * k + 14 - (0 + 16 * k + 14) = 0 := by omega
    have w3 : 0 + 16 * k + 15 - (0 + 16 * k + 14) = 1 := by omega
    have w4 : 0 + 16 * k + 15 - (0 + 16 * k + 15) = 0 := by omega
    have w5 : 0 + 16 * k + 16 - (0 + 16 * k + 15) = 1 := by omega
    rw [w0, w1, w2, w3, w4, w5]
    simp [blanks, List.append_assoc]

theorem obsLine_flat (c : List Obs) : obsLine c = (c.map field16).flatten := by
  have := render_blocks c 0
  simp only [obsLine, renderCells, renderA, obs2, obsLayout, obsAligns, obsCells]
  rw [List.range_eq_range']
  simpa using this


/-! ### the label of an observation line -/

/-- the observations of a line as the file model allows them -/
def ChunkOk (c : List Obs) : Prop := c.all Obs.wf = true ∧ c.all obsShape = true

theorem obsLine_noalpha (c : List Obs) (h : c.all Obs.wf = true) (l : Str) (hl : ∀ x ∈ l, x ∈ obsLine c) (i : Nat) :
    alphaAt l i = false := by
  unfold alphaAt
  rw [charAt_get]
  cases hx : l[i]? with
  | none => rfl
  | some x =>
    have hm : x ∈ l := List.mem_of_getElem? hx
    rcases obsLine_chars c h x (hl x hm) with rfl | hn
    · rfl
    · simpa using numChar_not_alpha hn

theorem numText_visible {v : Str} (h : numText v = true) {x : Char} (hx : x ∈ v) : isSpace x = false :=
  numChar_not_space (List.all_eq_true.mp h x hx)

theorem isDigit_not_space' {x : Char} (h : isDigit x = true) : x ≠ ' ' := by
  intro e; subst e; revert h; decide

/-- in a right-aligned number a digit is never followed by a blank: if column `i` of the field holds a digit, column
`i + 1` (still inside the field) holds a visible character of the number -/
theorem rjust_digit_next (w : Nat) (v : Str) (hv : numText v = true) (hl : v.length ≤ w) (i : Nat) (hi : i + 1 < w) (d : Char)
    (hd : (rjust w v)[i]? = some d) (hdig : isDigit d = true) :
    ∃ y, (rjust w v)[i + 1]? = some y ∧ isSpace y = false := by
  have hge : w - v.length ≤ i := by
    rcases Nat.lt_or_ge i (w - v.length) with hh | hh
    · rw [rjust_get_blank w v i hh] at hd
      simp only [Option.some.injEq] at hd
      exact absurd hd.symm (isDigit_not_space' hdig)
    · exact hh
  have hidx : i + 1 - (w - v.length) < v.length := by omega
  refine ⟨v[i + 1 - (w - v.length)], ?_, numText_visible hv (List.getElem_mem _)⟩
  rw [rjust_get_text w v (i + 1) (by omega)]
  exact List.getElem?_eq_getElem hidx

theorem field16_get_value (o : Obs) (h : o.wf = true) (i : Nat) (hi : i < 14) : (field16 o)[i]? = (rjust 14 o.value.text)[i]? := by
  simp only [Obs.wf, Bool.and_eq_true] at h
  have v := (cell_fits h.1.1).1
  unfold field16
  rw [List.getElem?_append_left (by rw [length_rjust v]; exact hi)]

theorem obs_value_num (o : Obs) (h : o.wf = true) : numText o.value.text = true ∧ o.value.text.length ≤ 14 := by
  simp only [Obs.wf, Cell.wf, Bool.and_eq_true, decide_eq_true_eq] at h
  exact ⟨h.1.1.1.1, h.1.1.1.2⟩

theorem flatten_get_block (bs : List Str) (hb : ∀ b ∈ bs, b.length = 16) : ∀ (k i : Nat), i < 16 →
    (bs.flatten)[16 * k + i]? = (bs[k]?).bind (·[i]?) := by
  induction bs with
  | nil => intro k i _; simp
  | cons b bs ih =>
    intro k i hi
    have hbl := hb b (by simp)
    cases k with
    | zero =>
      simp only [List.flatten_cons, Nat.mul_zero, Nat.zero_add, List.getElem?_cons_zero, Option.bind_some]
      rw [List.getElem?_append_left (by omega)]
    | succ k =>
      simp only [List.flatten_cons, List.getElem?_cons_succ]
      rw [List.getElem?_append_right (by omega)]
      have : 16 * (k + 1) + i - b.length = 16 * k + i := by omega
      rw [this]
      exact ih (fun b' hb' => hb b' (by simp [hb'])) k i hi

theorem obsLine_get (c : List Obs) (h : c.all Obs.wf = true) (k i : Nat) (hi : i < 16) :
    (obsLine c)[16 * k + i]? = (c[k]?).bind fun o => (field16 o)[i]? := by
  rw [obsLine_flat, flatten_get_block _ (by
    intro b hb
    simp only [List.mem_map] at hb
    obtain ⟨o, ho, rfl⟩ := hb
    exact field16_length o (List.all_eq_true.mp h o ho)) k i hi]
  simp only [List.getElem?_map]
  cases c[k]? <;> rfl

/-- a digit in column `16 k + i` (`i + 1 < 14`) of an observation line is followed by a visible character -/
theorem obsLine_digit_next (c : List Obs) (h : c.all Obs.wf = true) (k i : Nat) (hi : i + 1 < 14) (d : Char)
    (hd : (obsLine c)[16 * k + i]? = some d) (hdig : isDigit d = true) :
    ∃ y, (obsLine c)[16 * k + (i + 1)]? = some y ∧ isSpace y = false := by
  rw [obsLine_get c h k i (by omega)] at hd
  rw [obsLine_get c h k (i + 1) (by omega)]
  cases hk : c[k]? with
  | none => rw [hk] at hd; simp at hd
  | some o =>
    rw [hk] at hd
    simp only [Option.bind_some] at hd ⊢
    have ho : o.wf = true := List.all_eq_true.mp h o (List.mem_of_getElem? hk)
    rw [field16_get_value o ho i (by omega)] at hd
    rw [field16_get_value o ho (i + 1) (by omega)]
    obtain ⟨hn, hl⟩ := obs_value_num o ho
    exact rjust_digit_next 14 _ hn hl i (by omega) d hd hdig

theorem digitAt_get (l : Str) (i : Nat) (h : digitAt l i = true) : ∃ d, l[i]? = some d ∧ isDigit d = true := by
  unfold digitAt at h
  rw [charAt_get] at h
  cases hx : l[i]? with
  | none => rw [hx] at h; simp at h
  | some d => rw [hx] at h; exact ⟨d, rfl, by simpa using h⟩

theorem slice_one (l : Str) (i : Nat) : Text.slice i (i + 1) l = (l[i]?).toList := by
  unfold Text.slice
  rw [List.drop_take]
  simp only [Nat.add_sub_cancel_left]
  cases h : l[i]? with
  | none =>
    have : l.length ≤ i := by simpa using h
    rw [List.drop_eq_nil_of_le this]; rfl
  | some x =>
    have hi : i < l.length := by
      rcases Nat.lt_or_ge i l.length with hh | hh
      · exact hh
      · rw [List.getElem?_eq_none hh] at h; simp at h
    rw [List.drop_eq_getElem_cons hi]
    have : l[i] = x := by
      have := List.getElem?_eq_getElem hi
      rw [h] at this; exact (Option.some.inj this).symm
    simp [this]

/-- condition 3 of the label heuristic never fires on an observation line: a digit in column 35 is not followed by a
blank or the end of the line -/
theorem obs_cond3 (c : List Obs) (h : c.all Obs.wf = true) :
    (digitAt (rstrip (obsLine c)) 34 && blankOrEndAt (rstrip (obsLine c)) 35) = false := by
  cases hdg : digitAt (rstrip (obsLine c)) 34 with
  | false => rfl
  | true =>
    obtain ⟨d, hd, hdig⟩ := digitAt_get _ _ hdg
    have hd' := get_rstrip_some hd
    obtain ⟨y, hy, hys⟩ := obsLine_digit_next c h 2 2 (by omega) d hd' hdig
    have hy' := get_rstrip_of_visible hy hys
    simp only [Bool.true_and]
    unfold blankOrEndAt
    rw [slice_one]
    have e35 : 16 * 2 + (2 + 1) = 35 := rfl
    rw [e35] at hy'
    rw [hy']
    simp [isBlank, hys]


theorem rstrip_append_visible (a b : Str) (h : rstrip b ≠ []) : rstrip (a ++ b) = a ++ rstrip b := by
  unfold rstrip at h ⊢
  rw [List.reverse_append, List.dropWhile_append]
  have he : (List.dropWhile isSpace b.reverse).isEmpty = false := by
    cases hd : List.dropWhile isSpace b.reverse with
    | nil => rw [hd] at h; simp at h
    | cons x xs => rfl
  simp [he]

theorem rstrip_blank_append (a b : Str) (ha : isBlank a = true) (h : rstrip (a ++ b) ≠ []) : rstrip b ≠ [] := by
  intro hb
  apply h
  have : isBlank b = true := by
    obtain ⟨ws, hws, hbl⟩ := rstrip_decomp b
    rw [hb] at hws
    simpa [hws] using hbl
  exact rstrip_isBlank (by rw [isBlank_append, ha, this]; rfl)

/-- condition 1 of the label heuristic: the decimal point of the first value stands in column 11, or the first 16
columns are blank -/
theorem obs_cond1 (o1 : Obs) (rest : List Obs) (h : (o1 :: rest).all Obs.wf = true) (hs : obsShape o1 = true)
    (hnb : rstrip (obsLine (o1 :: rest)) ≠ []) :
    (charAt (rstrip (obsLine (o1 :: rest))) 10 = some '.' || pyIsSpace (Text.slice 0 16 (rstrip (obsLine (o1 :: rest))))) = true := by
  have ho : o1.wf = true := by simp only [List.all_cons, Bool.and_eq_true] at h; exact h.1
  obtain ⟨hn, hl⟩ := obs_value_num o1 ho
  unfold obsShape at hs
  cases hv : o1.value.text.isEmpty with
  | false =>
    rw [hv] at hs
    simp only [Bool.false_eq_true, if_false, dot3, Bool.and_eq_true, decide_eq_true_eq, beq_iff_eq] at hs
    have hget : (obsLine (o1 :: rest))[10]? = some '.' := by
      have := obsLine_get (o1 :: rest) h 0 10 (by omega)
      simp only [Nat.mul_zero, Nat.zero_add, List.getElem?_cons_zero, Option.bind_some] at this
      rw [this, field16_get_value o1 ho 10 (by omega), rjust_get_text 14 _ 10 (by omega)]
      have : 10 - (14 - o1.value.text.length) = o1.value.text.length - 4 := by omega
      rw [this]; exact hs.2
    have := get_rstrip_of_visible hget (by decide)
    rw [charAt_get, this]
    rfl
  | true =>
    rw [hv] at hs
    simp only [if_true, Bool.and_eq_true, List.isEmpty_iff] at hs
    have hve : o1.value.text = [] := List.isEmpty_iff.mp hv
    have hf : field16 o1 = blanks 16 := by
      simp [field16, hve, hs.1, hs.2, rjust, ljust, blanks]
    have hline : obsLine (o1 :: rest) = blanks 16 ++ (rest.map field16).flatten := by
      rw [obsLine_flat]; simp [hf]
    rw [hline] at hnb ⊢
    have hr := rstrip_blank_append _ _ (isBlank_blanks 16) hnb
    rw [rstrip_append_visible _ _ hr]
    have hsl : Text.slice 0 16 (blanks 16 ++ rstrip (rest.map field16).flatten) = blanks 16 := by
      rw [slice_append_left (by simp [blanks])]
      simp [Text.slice, blanks]
    rw [hsl]
    have hp : pyIsSpace (blanks 16) = true := by decide
    rw [hp, Bool.or_true]

/-- **an observation line is labelled an observation line** (unless it is all blank) -/
theorem obs_label (c : List Obs) (h : c.all Obs.wf = true) (hs : c.all obsShape = true) (hnb : rstrip (obsLine c) ≠ []) :
    obsLabel (rstrip (obsLine c)) = "True" := by
  cases c with
  | nil => exact absurd (by decide) hnb
  | cons o1 rest =>
    have h1 := obs_cond1 o1 rest h (by simp only [List.all_cons, Bool.and_eq_true] at hs; exact hs.1) hnb
    have h3 := obs_cond3 (o1 :: rest) h
    have ha : ∀ i, alphaAt (rstrip (obsLine (o1 :: rest))) i = false :=
      fun i => obsLine_noalpha (o1 :: rest) h _ (fun x hx => Midgard.Spec.Rinex3ObsFile.mem_rstrip hx) i
    unfold obsLabel
    rw [h1, h3, ha 32, ha 60]
    rfl

end Midgard.Spec.Rinex2ObsFile
