/-
`fmtFixed_width` and `parse_fmtFixed` at full strength (DESIGN.md §4): rounding bounds of
`Decimal.fmtFixed` — the model of Python's `'{:w.pf}'.format(x)` / `'%w.pf' % x` on the exact value,
round-half-even on the decimal expansion — for all `w`, `p`, `x`.

The digit-level part (`parseFloat (fmtFixed q w p) = some (fixedValue q p)`, exact length) is in
`Proofs/Digits.lean` (core Lean); this file adds the order-theoretic facts about `roundHalfEven`
(single Mathlib modules for `linarith`/`abs`).

  rhe_close            `|roundHalfEven x − x| ≤ 1/2`
  rhe_int              integers are fixed points
  rhe_lt_even_iff      `roundHalfEven x < M ↔ x < M − 1/2` for even `M` (a tie at `M − 1/2` goes up to `M`)
  fixedValue_close     `|fixedValue q p − q| ≤ 10⁻ᵖ/2`
  fixedValue_exact     `q·10ᵖ ∈ ℤ → fixedValue q p = q`
  fmtFixed_width       exact width condition incl. the sign column
  parse_fmtFixed       the rendered cell parses to the value rounded to `p` decimals
-/
import Midgard.Proofs.Digits
import Mathlib.Tactic.Linarith
import Mathlib.Tactic.FieldSimp
import Mathlib.Tactic.Ring
import Mathlib.Algebra.Order.Field.Rat
import Mathlib.Algebra.Order.Floor.Ring
import Mathlib.Data.Rat.Floor

namespace Midgard.Decimal
open Midgard.Text

theorem floor_le' (x : Rat) : (x.floor : Rat) ≤ x := Rat.floor_le x
theorem lt_floor_add_one' (x : Rat) : x < (x.floor : Rat) + 1 := by
  have := Rat.lt_floor_add_one x; rwa [Rat.intCast_add] at this

/-- round-half-even is within half a unit -/
theorem rhe_close (x : Rat) : |((roundHalfEven x : Int) : Rat) - x| ≤ 1 / 2 := by
  have h1 := floor_le' x; have h2 := lt_floor_add_one' x
  unfold roundHalfEven
  simp only
  split_ifs with a b c
  · rw [abs_le]; constructor <;> linarith
  · rw [abs_le]; push_cast; constructor <;> linarith
  · have : x - (x.floor : Rat) = 1 / 2 := le_antisymm (not_lt.mp b) (not_lt.mp a)
    rw [abs_le]; constructor <;> linarith
  · have : x - (x.floor : Rat) = 1 / 2 := le_antisymm (not_lt.mp b) (not_lt.mp a)
    rw [abs_le]; push_cast; constructor <;> linarith

theorem rhe_int (n : Int) : roundHalfEven (n : Rat) = n := by
  have h0 : ((n : Rat) - (n : Rat)) = 0 := sub_self _
  have h1 : (0 : Rat) < 1 / 2 := by norm_num
  simp [roundHalfEven, Rat.floor_intCast]

theorem rhe_nonneg {x : Rat} (h : 0 ≤ x) : 0 ≤ roundHalfEven x := by
  have hf : 0 ≤ x.floor := by
    have h2 := lt_floor_add_one' x
    have : (-1 : Rat) < (x.floor : Rat) := by linarith
    have : ((-1 : Int) : Rat) < (x.floor : Rat) := by simpa using this
    have : (-1 : Int) < x.floor := by exact_mod_cast this
    omega
  unfold roundHalfEven
  simp only
  split_ifs <;> omega

/-- for an even bound `M`: the rounded value stays below `M` exactly when `x < M − 1/2` (the tie
`M − 1/2` rounds up to the even `M`) -/
theorem rhe_lt_even_iff (x : Rat) (M : Int) (hM : M % 2 = 0) : roundHalfEven x < M ↔ x < (M : Rat) - 1 / 2 := by
  have h1 := floor_le' x; have h2 := lt_floor_add_one' x
  constructor
  · intro h
    by_contra hx
    have hx : (M : Rat) - 1 / 2 ≤ x := not_lt.mp hx
    -- floor x ≥ M − 1
    have hf : M - 1 ≤ x.floor := by
      have : ((M - 1 : Int) : Rat) < (x.floor : Rat) + 1 := by push_cast; linarith
      have : ((M - 1 : Int) : Rat) < ((x.floor + 1 : Int) : Rat) := by push_cast; linarith
      have : M - 1 < x.floor + 1 := by exact_mod_cast this
      omega
    revert h
    unfold roundHalfEven
    simp only
    split_ifs with a b c
    · -- r < 1/2: then floor x ≥ M
      intro h
      have : x.floor = M - 1 := by omega
      rw [this] at a; push_cast at a; linarith
    · intro h; omega
    · intro h
      have : x.floor = M - 1 := by omega
      omega
    · intro h; omega
  · intro hx
    have hf : x.floor ≤ M - 1 := by
      have : (x.floor : Rat) < ((M : Int) : Rat) := by linarith
      have : x.floor < M := by exact_mod_cast this
      omega
    unfold roundHalfEven
    simp only
    split_ifs with a b c
    · omega
    · -- r > 1/2 forces floor ≤ M − 2
      by_contra hcon
      have : x.floor = M - 1 := by omega
      rw [this] at b; push_cast at b; linarith
    · omega
    · by_contra hcon
      have hfe : x.floor = M - 1 := by omega
      have : x - (x.floor : Rat) = 1 / 2 := le_antisymm (not_lt.mp b) (not_lt.mp a)
      rw [hfe] at this; push_cast at this; linarith

/-! ### the magnitude `|q|` as the model writes it -/

theorem ite_neg_eq_abs (q : Rat) : (if q < 0 then -q else q) = |q| := by
  split_ifs with h
  · rw [abs_of_neg h]
  · rw [abs_of_nonneg (not_lt.mp h)]

theorem pow10_eq (p : Nat) : pow10 p = (10 : Rat) ^ p := by
  unfold pow10; push_cast; rfl

theorem pow10_pos (p : Nat) : 0 < pow10 p := by rw [pow10_eq]; positivity

/-- the scaled integer of the text, as a rational -/
theorem fixedScaled_cast (q : Rat) (p : Nat) :
    ((fixedScaled q p : Nat) : Rat) = ((roundHalfEven (|q| * pow10 p) : Int) : Rat) := by
  unfold fixedScaled
  rw [ite_neg_eq_abs]
  have h : 0 ≤ roundHalfEven (|q| * pow10 p) :=
    rhe_nonneg (mul_nonneg (abs_nonneg q) (le_of_lt (pow10_pos p)))
  have : ((roundHalfEven (|q| * pow10 p)).toNat : Int) = roundHalfEven (|q| * pow10 p) := Int.toNat_of_nonneg h
  have e : (((roundHalfEven (|q| * pow10 p)).toNat : Nat) : Rat)
      = (((roundHalfEven (|q| * pow10 p)).toNat : Int) : Rat) := by push_cast; rfl
  rw [e, this]

/-- the value of the text is the signed rounded magnitude -/
theorem fixedValue_eq (q : Rat) (p : Nat) :
    fixedValue q p = (if q < 0 then -1 else 1) * (((roundHalfEven (|q| * pow10 p) : Int) : Rat) / pow10 p) := by
  unfold fixedValue
  rw [fixedScaled_cast]
  split_ifs <;> ring

/-- **the printed number is within half a unit of the last printed digit** -/
theorem fixedValue_close (q : Rat) (p : Nat) : |fixedValue q p - q| ≤ 1 / 2 / pow10 p := by
  have hP := pow10_pos p
  have hc := rhe_close (|q| * pow10 p)
  rw [fixedValue_eq]
  set R : Rat := ((roundHalfEven (|q| * pow10 p) : Int) : Rat) with hR
  rw [abs_le] at hc ⊢
  have key : ∀ s : Rat, (s = 1 ∨ s = -1) → s * |q| = q →
      -(1 / 2 / pow10 p) ≤ s * (R / pow10 p) - q ∧ s * (R / pow10 p) - q ≤ 1 / 2 / pow10 p := by
    intro s hs hq
    have e : s * (R / pow10 p) - q = s * ((R - |q| * pow10 p) / pow10 p) := by
      calc s * (R / pow10 p) - q = s * (R / pow10 p) - s * |q| := by rw [hq]
        _ = s * ((R - |q| * pow10 p) / pow10 p) := by field_simp
    rw [e]
    rcases hs with rfl | rfl
    · rw [one_mul, div_le_div_iff_of_pos_right hP, le_div_iff₀ hP]
      constructor
      · have : -(1 / 2 / pow10 p) * pow10 p = -(1 / 2) := by field_simp
        rw [this]; exact hc.1
      · exact hc.2
    · have e2 : (-1 : Rat) * ((R - |q| * pow10 p) / pow10 p) = (|q| * pow10 p - R) / pow10 p := by ring
      rw [e2, div_le_div_iff_of_pos_right hP, le_div_iff₀ hP]
      constructor
      · have : -(1 / 2 / pow10 p) * pow10 p = -(1 / 2) := by field_simp
        rw [this]; linarith [hc.2]
      · linarith [hc.1]
  split_ifs with h
  · exact key (-1) (Or.inr rfl) (by rw [abs_of_neg h]; ring)
  · exact key 1 (Or.inl rfl) (by rw [abs_of_nonneg (not_lt.mp h)]; ring)

/-- **a value with at most `p` decimals is printed exactly** -/
theorem fixedValue_exact (q : Rat) (p : Nat) (z : Int) (h : q * pow10 p = (z : Rat)) : fixedValue q p = q := by
  have hP := pow10_pos p
  rw [fixedValue_eq]
  split_ifs with hq
  · have e : |q| * pow10 p = ((-z : Int) : Rat) := by rw [abs_of_neg hq]; push_cast; linarith
    rw [e, rhe_int]; push_cast
    rw [← h]; field_simp
  · have e : |q| * pow10 p = ((z : Int) : Rat) := by rw [abs_of_nonneg (not_lt.mp hq)]; exact h
    rw [e, rhe_int, ← h]; field_simp

/-- **`fmtFixed_width`: the exact width condition, including the sign column.**  Let `s` be the sign
column (`1` for `q < 0`, also when the value rounds to `-0.00`), `d` the point and decimals (`p + 1`, or
`0` for `p = 0`).  A cell `'{:w.pf}'` with room for at least one integer digit (`w > s + d`) is exactly
`w` characters wide iff `|q|·10^p < 10^(w − s − d + p) − 1/2`; otherwise the text is longer than `w`
(Python never truncates) and pushes everything after it to the right. -/
theorem fmtFixed_width (q : Rat) (w p : Nat)
    (hw : (if q < 0 then 1 else 0) + (if p = 0 then 0 else p + 1) < w) :
    (fmtFixed q w p).length = w ↔
      |q| * pow10 p < (10 : Rat) ^ (w - (if q < 0 then 1 else 0) - (if p = 0 then 0 else p + 1) + p) - 1 / 2 := by
  rw [length_fmtFixed_eq_iff_scaled q w p hw]
  generalize hs : (if q < 0 then 1 else 0) = s at hw ⊢
  generalize hd : (if p = 0 then 0 else p + 1) = d at hw ⊢
  set e := w - s - d + p with he
  have he1 : 1 ≤ e := by omega
  have hev : ((10 ^ e : Nat) : Int) % 2 = 0 := by
    obtain ⟨e', he'⟩ : ∃ e', e = e' + 1 := ⟨e - 1, by omega⟩
    rw [he']
    push_cast
    rw [pow_succ]
    omega
  have h := rhe_lt_even_iff (|q| * pow10 p) ((10 ^ e : Nat) : Int) hev
  have hc : (((10 ^ e : Nat) : Int) : Rat) = (10 : Rat) ^ e := by push_cast; rfl
  rw [hc] at h
  rw [← h]
  have hn : 0 ≤ roundHalfEven (|q| * pow10 p) :=
    rhe_nonneg (mul_nonneg (abs_nonneg q) (le_of_lt (pow10_pos p)))
  unfold fixedScaled
  rw [ite_neg_eq_abs]
  omega

/-- when the text does not fit, the cell is *longer* than `w`, never cut -/
theorem fmtFixed_overflow (q : Rat) (w p : Nat) : w ≤ (fmtFixed q w p).length := by
  unfold fmtFixed rjust
  simp only [List.length_append, length_blanks]
  omega

/-- **`parse_fmtFixed`.**  Parsing the rendered cell (Python `float(text)`, exact) returns the value
rounded to `p` decimals: within `10⁻ᵖ/2` of `q`, and exactly `q` when `q·10ᵖ` is an integer — for all
`w`, `p`, `q` (whether or not the cell overflows its width). -/
theorem parse_fmtFixed (q : Rat) (w p : Nat) :
    ∃ v, parseFloat (fmtFixed q w p) = some v ∧ |v - q| ≤ 1 / 2 / (10 : Rat) ^ p ∧
      (∀ z : Int, q * (10 : Rat) ^ p = (z : Rat) → v = q) := by
  refine ⟨fixedValue q p, parseFloat_fmtFixed q w p, ?_, ?_⟩
  · rw [← pow10_eq]; exact fixedValue_close q p
  · intro z hz; rw [← pow10_eq] at hz; exact fixedValue_exact q p z hz

/-- the same for the unpadded text `'{:.pf}'` -/
theorem parse_fmtFixedCore (q : Rat) (p : Nat) :
    ∃ v, parseFloat (fmtFixedCore q p) = some v ∧ |v - q| ≤ 1 / 2 / (10 : Rat) ^ p ∧
      (∀ z : Int, q * (10 : Rat) ^ p = (z : Rat) → v = q) := by
  refine ⟨fixedValue q p, parseFloat_fmtFixedCore q p, ?_, ?_⟩
  · rw [← pow10_eq]; exact fixedValue_close q p
  · intro z hz; rw [← pow10_eq] at hz; exact fixedValue_exact q p z hz

end Midgard.Decimal
