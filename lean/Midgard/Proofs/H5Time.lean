/-
C10 — the model with the `time` attribute of positions (`Model/H5Time.lean`) is a conservative extension: when no object
has a `time`, `writeDSX` is `writeDS`, the file has no `time` reference and no `time` sub-group in any array group, and on
such files `readTopX` is `readTop`.
-/
import Midgard.Model.H5Time

namespace Midgard.H5
open Midgard.Dataset

/-! ### write -/

theorem writeArrX_eq (h : Heap) (tm : TM) (htm : ∀ o, tmOf tm o = none) : ∀ (fuel : Nat) (u : Option (List String)) (l : Nat)
    (o : Nat) (p : Path) (memo : WMemo), writeArrX h tm u l fuel o p memo = writeArr h u l fuel o p memo
  | 0, _, _, _, _, _ => rfl
  | fuel + 1, u, l, o, p, memo => by
    simp only [writeArrX, writeArr, htm, ite_self]
    cases h[o]? with
    | none => rfl
    | some ob =>
      simp only
      cases attrName ob.kind with
      | none => rfl
      | some nm =>
        simp only
        cases ob.ref with
        | none => simp [slotWrite]
        | some x =>
          simp only [slotWrite]
          cases memo.lookup x with
          | some name => simp
          | none =>
            simp only [writeArrX_eq h tm htm fuel none 3 x (p ++ [nm])]
            cases writeArr h none 3 fuel x (p ++ [nm]) ((x, p ++ [nm]) :: memo) with
            | error e => rfl
            | ok r => simp

mutual
theorem writeFieldX_eq (h : Heap) (tm : TM) (htm : ∀ o, tmOf tm o = none) (lvl : Nat) : ∀ (f : Field) (pre : Path) (memo : WMemo),
    writeFieldX h tm lvl f pre memo = writeField h lvl f pre memo
  | .leaf nm k o no u l, pre, memo => by
    simp only [writeFieldX, writeField, writeArrX_eq h tm htm]
    rfl
  | .coll nm no l sub, pre, memo => by
    simp only [writeFieldX, writeField, writeFieldsX_eq h tm htm lvl sub]
    rfl
theorem writeFieldsX_eq (h : Heap) (tm : TM) (htm : ∀ o, tmOf tm o = none) (lvl : Nat) : ∀ (fs : List Field) (pre : Path) (memo : WMemo),
    writeFieldX.writeFieldsX h tm lvl fs pre memo = writeField.writeFields h lvl fs pre memo
  | [], _, _ => by simp only [writeFieldX.writeFieldsX, writeField.writeFields]
  | f :: fs, pre, memo => by
    simp only [writeFieldX.writeFieldsX, writeField.writeFields, writeFieldX_eq h tm htm lvl f]
    split
    · exact writeFieldsX_eq h tm htm lvl fs pre memo
    · cases writeField h lvl f pre memo with
      | error e => rfl
      | ok r =>
        simp only [writeFieldsX_eq h tm htm lvl fs]
        rfl
end

theorem writeDSX_eq (h : Heap) (tm : TM) (htm : ∀ o, tmOf tm o = none) (d : DS) (lvl : Nat) :
    writeDSX h tm d lvl = writeDS h d lvl := by
  simp only [writeDSX, writeDS, writeFieldsX_eq h tm htm]
  rfl

/-! ### files without `time` -/

/-- no array group of the subtree has a `time` reference or a `time` sub-group -/
def NoTimeG : Grp → Prop
  | .mk a pl subs => (pl.isSome = true → a.tref = none ∧ subs.lookup "time" = none) ∧ NoTimeL subs
where NoTimeL : List (String × Grp) → Prop
  | [] => True
  | (_, g) :: r => NoTimeG g ∧ NoTimeL r

theorem noTime_lookup : ∀ (gs : List (String × Grp)) (n : String) (g : Grp), NoTimeG.NoTimeL gs → gs.lookup n = some g → NoTimeG g
  | [], _, _, _, h => by simp [List.lookup] at h
  | (m, g0) :: r, n, g, hn, h => by
    simp only [NoTimeG.NoTimeL] at hn
    simp only [List.lookup] at h
    split at h
    · cases h; exact hn.1
    · exact noTime_lookup r n g hn.2 h

theorem noTime_lookupGrp : ∀ (p : Path) (gs : List (String × Grp)) (g : Grp), NoTimeG.NoTimeL gs → lookupGrp gs p = some g → NoTimeG g
  | [], _, _, _, h => by simp [lookupGrp] at h
  | n :: rest, gs, g, hn, h => by
    simp only [lookupGrp] at h
    split at h
    · simp at h
    · rename_i g0 hl
      have h0 := noTime_lookup gs n g0 hn hl
      split at h
      · cases h; exact h0
      · cases g0 with
        | mk a pl subs =>
          simp only [NoTimeG] at h0
          exact noTime_lookupGrp rest subs g h0.2 h

theorem attrName_ne_time {k : Kind} {nm : String} (h : attrName k = some nm) : ("time" == nm) = false := by
  simp only [attrName] at h
  split at h
  · cases h; decide
  · split at h
    · cases h; decide
    · cases h

theorem writeArr_noTime (h : Heap) : ∀ (fuel : Nat) (u : Option (List String)) (l : Nat) (o : Nat) (p : Path)
    (memo : WMemo) (g : Grp) (memo' : WMemo), writeArr h u l fuel o p memo = .ok (g, memo') → NoTimeG g
  | 0, _, _, _, _, _, _, _, hw => by simp [writeArr] at hw
  | fuel + 1, u, l, o, p, memo, g, memo', hw => by
    simp only [writeArr] at hw
    split at hw
    · simp at hw
    · split at hw
      · cases hw; simp [NoTimeG, NoTimeG.NoTimeL, List.lookup]
      · rename_i nm hat
        split at hw
        · cases hw; simp [NoTimeG, NoTimeG.NoTimeL, List.lookup]
        · split at hw
          · cases hw; simp [NoTimeG, NoTimeG.NoTimeL, List.lookup]
          · split at hw
            · simp at hw
            · rename_i gc memoc hrec
              cases hw
              have ih := writeArr_noTime h fuel none 3 _ _ _ gc memoc hrec
              simp only [NoTimeG, NoTimeG.NoTimeL, List.lookup, attrName_ne_time hat, and_true]
              exact ⟨fun _ => trivial, ih⟩

mutual
theorem writeField_noTime (h : Heap) (lvl : Nat) : ∀ (f : Field) (pre : Path) (memo : WMemo) (g : Grp) (memo' : WMemo),
    writeField h lvl f pre memo = .ok (g, memo') → NoTimeG g
  | .leaf nm k o no u l, pre, memo, g, memo', hw => by
    simp only [writeField] at hw
    split at hw
    · cases hw; simp [NoTimeG, NoTimeG.NoTimeL]
    · split at hw
      · simp at hw
      · rename_i g0 m0 hwa
        cases hw
        exact writeArr_noTime h _ u l o _ memo _ _ hwa
  | .coll nm no l sub, pre, memo, g, memo', hw => by
    simp only [writeField] at hw
    split at hw
    · simp at hw
    · rename_i subs mem m1 hws
      cases hw
      simp only [NoTimeG]
      exact ⟨by simp, writeFields_noTime h lvl sub _ memo subs mem _ hws⟩
theorem writeFields_noTime (h : Heap) (lvl : Nat) : ∀ (fs : List Field) (pre : Path) (memo : WMemo)
    (groups : List (String × Grp)) (mem : List (String × Option Kind)) (memo' : WMemo),
    writeField.writeFields h lvl fs pre memo = .ok (groups, mem, memo') → NoTimeG.NoTimeL groups
  | [], _, _, groups, _, _, hw => by
    simp only [writeField.writeFields, Except.ok.injEq, Prod.mk.injEq] at hw
    obtain ⟨rfl, _, _⟩ := hw
    trivial
  | f :: fs, pre, memo, groups, mem, memo', hw => by
    simp only [writeField.writeFields] at hw
    split at hw
    · exact writeFields_noTime h lvl fs pre memo groups mem memo' hw
    · split at hw
      · simp at hw
      · rename_i g memo1 hw1
        split at hw
        · simp at hw
        · rename_i subs mem2 memo2 hw2
          simp only [Except.ok.injEq, Prod.mk.injEq] at hw
          obtain ⟨rfl, _, _⟩ := hw
          exact ⟨writeField_noTime h lvl f pre memo g memo1 hw1, writeFields_noTime h lvl fs pre memo1 subs mem2 memo2 hw2⟩
end

theorem writeDS_noTime (h : Heap) (d : DS) (lvl : Nat) (file : File) (hw : writeDS h d lvl = .ok file) :
    NoTimeG.NoTimeL file.groups := by
  simp only [writeDS] at hw
  split at hw
  · simp at hw
  · rename_i groups mem memo' hws
    cases hw
    exact writeFields_noTime h lvl d.fields [] _ groups mem memo' hws

/-! ### read -/

theorem allocX_none (s : RSt) (ob : Obj) : allocX s ob none = s.alloc ob := rfl

theorem readRef_congr {rd rd' : Grp → RSt → M (Nat × RSt)} (t : Option (Path × Option Grp)) (s : RSt)
    (h : ∀ name g, t = some (name, some g) → rd g s = rd' g s) : readRef rd t s = readRef rd' t s := by
  cases t with
  | none => rfl
  | some x =>
    obtain ⟨name, og⟩ := x
    simp only [readRef]
    cases s.memo.lookup name with
    | some o => rfl
    | none =>
      cases og with
      | none => rfl
      | some g => simp only [h name g rfl]

theorem readArrX_eq (file : File) (hf : NoTimeG.NoTimeL file.groups) : ∀ (fuel : Nat) (g : Grp) (s : RSt), NoTimeG g →
    readArrX file fuel g s = readArr file fuel g s
  | 0, _, _, _ => rfl
  | fuel + 1, .mk a payload subs, s, hg => by
    simp only [readArrX, readArr]
    cases payload with
    | none => rfl
    | some ob =>
      simp only [NoTimeG, Option.isSome_some, forall_const] at hg
      obtain ⟨⟨htr, hts⟩, hsubs⟩ := hg
      simp only
      cases hat : attrName ob.kind with
      | none => simp only [allocX_none]
      | some nm =>
        simp only
        have hT : (if ob.kind.hasOther then refTargetT file a subs else none) = none := by
          simp only [refTargetT, htr, hts, ite_self]
        have h1 : readRef (readArrX file fuel) (refTarget file a subs nm) s = readRef (readArr file fuel) (refTarget file a subs nm) s := by
          apply readRef_congr
          intro name g ht
          apply readArrX_eq file hf fuel g s
          simp only [refTarget] at ht
          split at ht
          · rename_i nm0 _
            simp only [Option.some.injEq, Prod.mk.injEq] at ht
            exact noTime_lookupGrp _ _ g hf ht.2
          · split at ht
            · rename_i g0 hl
              simp only [Option.some.injEq, Prod.mk.injEq] at ht
              have := noTime_lookup subs nm g0 hsubs hl
              rw [← ht.2]; exact this
            · cases ht
        rw [h1, hT]
        cases readRef (readArr file fuel) (refTarget file a subs nm) s with
        | error e => rfl
        | ok r =>
          obtain ⟨r, s1⟩ := r
          simp only [readRef, allocX_none]

theorem fieldReadX_eq (file : File) (hf : NoTimeG.NoTimeL file.groups) (fa : Nat) (g : Grp) (s : RSt) (hg : NoTimeG g) :
    fieldReadX file fa g s = fieldRead file fa g s := by
  simp only [fieldReadX, fieldRead, readArrX_eq file hf fa g s hg]
  rfl

theorem resolveAliasX_eq (file : File) (hf : NoTimeG.NoTimeL file.groups) (fa : Nat) (a : GAttrs) (s : RSt) :
    resolveAliasX file fa a s = resolveAlias file fa a s := by
  simp only [resolveAliasX, resolveAlias]
  cases a.sameAs with
  | none => rfl
  | some name =>
    simp only
    cases s.memo.lookup name with
    | some o => rfl
    | none =>
      simp only
      cases hl : lookupGrp file.groups name with
      | none => rfl
      | some g =>
        simp only [fieldReadX_eq file hf fa g s (noTime_lookupGrp _ _ g hf hl)]
        rfl

theorem readMembers_congr {rd rd' : Option Kind → Grp → RSt → M (Field × RSt)} :
    ∀ (ms : List (String × Option Kind)) (subs : List (String × Grp)) (s : RSt),
    (∀ ty n g s, subs.lookup n = some g → rd ty g s = rd' ty g s) → readMembers rd ms subs s = readMembers rd' ms subs s
  | [], _, _, _ => rfl
  | (nm, ty) :: rest, subs, s, hc => by
    simp only [readMembers]
    cases hl : subs.lookup nm with
    | none => rfl
    | some g =>
      simp only [hc ty nm g s hl]
      cases rd' ty g s with
      | error e => rfl
      | ok r =>
        obtain ⟨f, s1⟩ := r
        simp only [readMembers_congr rest subs s1 hc]

theorem readFieldX_eq (file : File) (hf : NoTimeG.NoTimeL file.groups) (fa : Nat) : ∀ (depth : Nat) (ty : Option Kind) (g : Grp)
    (s : RSt), NoTimeG g → readFieldX file fa depth ty g s = readField file fa depth ty g s
  | 0, _, _, _, _ => rfl
  | d + 1, some k, .mk a p subs, s, hg => by
    simp only [readFieldX, readField, resolveAliasX_eq file hf]
    cases resolveAlias file fa a s with
    | error e => rfl
    | ok s1 =>
      simp only [readArrX_eq file hf fa _ s1 hg]
      rfl
  | d + 1, none, .mk a p subs, s, hg => by
    simp only [readFieldX, readField]
    have hsubs : NoTimeG.NoTimeL subs := by simp only [NoTimeG] at hg; exact hg.2
    rw [readMembers_congr a.members subs s (fun ty n g s hl => readFieldX_eq file hf fa d ty g s (noTime_lookup subs n g hsubs hl))]
    rfl

theorem readTopX_eq (file : File) (hf : NoTimeG.NoTimeL file.groups) (fa fd : Nat) : ∀ (ms : List (String × Option Kind)) (s : RSt),
    readTopX file fa fd ms s = readTop file fa fd ms s
  | [], _ => rfl
  | (nm, ty) :: rest, s => by
    simp only [readTopX, readTop]
    cases hl : file.groups.lookup nm with
    | none => rfl
    | some g =>
      simp only [readFieldX_eq file hf fa fd ty g s (noTime_lookup _ nm g hf hl)]
      cases readField file fa fd ty g s with
      | error e => rfl
      | ok r =>
        obtain ⟨f, s1⟩ := r
        simp only [readTopX_eq file hf fa fd rest]
        rfl

/-- **conservative extension**: without a `time` attached to any object the model with the `time` attribute writes the file
of `writeDS`, and reads that file as `readBack` does (same heap, same dataset) -/
theorem timeFree_conservative (h : Heap) (tm : TM) (htm : ∀ o, tmOf tm o = none) (d : DS) (lvl : Nat) :
    writeDSX h tm d lvl = writeDS h d lvl ∧
    ∀ file, writeDS h d lvl = .ok file →
      (readBackX h d file).map (fun r => (r.1, r.2.2)) = readBack h d file := by
  refine ⟨writeDSX_eq h tm htm d lvl, fun file hw => ?_⟩
  have hf := writeDS_noTime h d lvl file hw
  simp only [readBackX, readBack, readDS, readTopX_eq file hf]
  cases readTop file (h.length + 1) (fieldsDepth d.fields + 1) file.members {} with
  | error e => rfl
  | ok r => rfl

end Midgard.H5
