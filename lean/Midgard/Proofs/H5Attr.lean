/-
C10 — the attribute codec is the identity on meta trees.
-/
import Midgard.Model.H5Attr

namespace Midgard.H5Attr

theorem evalAst_atomAst (a : Atom) : evalAst (atomAst a) = some (.atom a) := by
  cases a with
  | int i =>
    simp only [atomAst]
    split
    · rename_i h
      simp only [evalAst]
      congr 3
      omega
    · rename_i h
      simp only [evalAst]
      congr 3
      omega
  | flt q =>
    simp only [atomAst]
    split
    · simp [evalAst]
    · simp [evalAst]
  | nan => simp [atomAst, evalAst]
  | inf => simp [atomAst, evalAst]
  | ninf => simp [atomAst, evalAst]
  | str s => simp [atomAst, evalAst]
  | bool b => cases b <;> simp [atomAst, evalAst]
  | none => simp [atomAst, evalAst]

mutual
theorem evalAst_toAst : ∀ (m : Meta), evalAst (toAst m) = some m
  | .atom a => by simp only [toAst]; exact evalAst_atomAst a
  | .list xs => by simp only [toAst, evalAst, evalAsts_toAsts xs, Option.map_some]
  | .tuple xs => by simp only [toAst, evalAst, evalAsts_toAsts xs, Option.map_some]
  | .set xs => by
    cases xs with
    | nil => simp [toAst, evalAst]
    | cons x xs =>
      have := evalAsts_toAsts (x :: xs)
      simp only [toAst, evalAst, this, Option.map_some]
  | .dict kvs => by simp only [toAst, evalAst, evalKVs_toAstKVs kvs, Option.map_some]
theorem evalAsts_toAsts : ∀ (xs : List Meta), evalAst.evalAsts (toAst.toAsts xs) = some xs
  | [] => by simp [toAst.toAsts, evalAst.evalAsts]
  | x :: xs => by simp only [toAst.toAsts, evalAst.evalAsts, evalAst_toAst x, evalAsts_toAsts xs]
theorem evalKVs_toAstKVs : ∀ (kvs : List (Meta × Meta)), evalAst.evalKVs (toAst.toAstKVs kvs) = some kvs
  | [] => by simp [toAst.toAstKVs, evalAst.evalKVs]
  | (k, v) :: r => by
    simp only [toAst.toAstKVs, evalAst.evalKVs, evalAst_toAst k, evalAst_toAst v, evalKVs_toAstKVs r]
end

/-- **`decode_h5attr (encode_h5attr m) = m`** for every meta tree that can be saved -/
theorem decode_encode (m : Meta) (a : Attr) (h : encode m = some a) : decode a = some m := by
  cases m with
  | atom x =>
    cases x <;> simp [encode] at h <;> subst h <;> simp [decode]
  | list xs => simp only [encode, Option.some.injEq] at h; subst h; exact evalAst_toAst _
  | tuple xs => simp only [encode, Option.some.injEq] at h; subst h; exact evalAst_toAst _
  | set xs => simp only [encode, Option.some.injEq] at h; subst h; exact evalAst_toAst _
  | dict kvs => simp only [encode, Option.some.injEq] at h; subst h; exact evalAst_toAst _

/-- everything but a bare `None` can be saved -/
theorem encode_isSome (m : Meta) (h : m ≠ .atom .none) : (encode m).isSome = true := by
  cases m with
  | atom x => cases x <;> simp [encode] at h ⊢
  | _ => simp [encode]

end Midgard.H5Attr
