/-
Digit-level lemmas about `Midgard.Core.Decimal` over `List Char`, for all numbers (general induction
on the digits; core Lean only).  Used by C02 (time text formats) and C17 (writer cells).

  natDigits            `parseNat_natDigits`, `parseInt_natDigits`, `length_natDigits_le_iff`,
                       `length_natDigits_eq`
  fixedDigits          `fixedDigits_eq_pad` (= zero padding of `natDigits` when the number has at most
                       `p` digits), `fracDigits_eq_fixedDigits`, `parseNat_fracDigits`
  fmtInt / fmtIntW     `parseInt_fmtInt`, `parseInt_fmtIntW`, `length_fmtInt`
  fmtFixedCore         `fmtFixedCore_eq` (shape), `length_fmtFixedCore` (exact length),
                       `parseFloat_fmtFixedCore`, `parseFloat_fmtFixed` (the text parses to the rounded
                       scaled integer over `10^p`, with the sign)
  parseFloat           `parseFloat_digits` (an all-digit text is its number)

The rounding bounds (`|parse (fmtFixed q w p) − q| ≤ 10⁻ᵖ/2`, exact width condition) are in
`Proofs/FmtFixed.lean`.
-/
import Midgard.Proofs.Decimal

namespace Midgard.Decimal
open Midgard.Text

/-! ### lists -/

theorem takeWhile_eq_self {α} (p : α → Bool) (l : List α) (h : ∀ x ∈ l, p x = true) : l.takeWhile p = l := by
  induction l with
  | nil => rfl
  | cons a l ih =>
    simp only [List.takeWhile_cons, h a (by simp), if_true]
    rw [ih (fun x hx => h x (by simp [hx]))]

theorem dropWhile_eq_nil {α} (p : α → Bool) (l : List α) (h : ∀ x ∈ l, p x = true) : l.dropWhile p = [] := by
  induction l with
  | nil => rfl
  | cons a l ih =>
    simp only [List.dropWhile_cons, h a (by simp), if_true]
    exact ih (fun x hx => h x (by simp [hx]))

theorem takeWhile_append_stop {α} (p : α → Bool) (a : List α) (c : α) (b : List α)
    (ha : ∀ x ∈ a, p x = true) (hc : p c = false) : (a ++ c :: b).takeWhile p = a := by
  induction a with
  | nil => simp [hc]
  | cons x a ih =>
    simp only [List.cons_append, List.takeWhile_cons, ha x (by simp), if_true]
    rw [ih (fun y hy => ha y (by simp [hy]))]

theorem dropWhile_append_stop {α} (p : α → Bool) (a : List α) (c : α) (b : List α)
    (ha : ∀ x ∈ a, p x = true) (hc : p c = false) : (a ++ c :: b).dropWhile p = c :: b := by
  induction a with
  | nil => simp [hc]
  | cons x a ih =>
    simp only [List.cons_append, List.dropWhile_cons, ha x (by simp), if_true]
    exact ih (fun y hy => ha y (by simp [hy]))

/-! ### digit strings and their value -/

theorem digitsValAux_nil' (acc : Nat) : digitsValAux acc [] = acc := by
  show acc = acc
  rfl

theorem digitsValAux_cons' (acc : Nat) (c : Char) (r : Str) :
    digitsValAux acc (c :: r) = digitsValAux (acc * 10 + digitVal c) r := by
  show digitsValAux (acc * 10 + digitVal c) r = digitsValAux (acc * 10 + digitVal c) r
  rfl

theorem digitsValAux_append' (acc : Nat) (a b : Str) :
    digitsValAux acc (a ++ b) = digitsValAux (digitsValAux acc a) b := by
  induction a generalizing acc with
  | nil => rw [List.nil_append, digitsValAux_nil']
  | cons d a ih => rw [List.cons_append, digitsValAux_cons', digitsValAux_cons']; exact ih _

theorem digitsValAux_shift (acc : Nat) (b : Str) :
    digitsValAux acc b = acc * 10 ^ b.length + digitsValAux 0 b := by
  induction b generalizing acc with
  | nil => simp [digitsValAux_nil']
  | cons d b ih =>
    rw [digitsValAux_cons', digitsValAux_cons', List.length_cons]
    rw [ih (acc * 10 + digitVal d), ih (0 * 10 + digitVal d), Nat.pow_succ]
    simp only [Nat.zero_mul, Nat.zero_add, Nat.add_mul]
    have : acc * 10 * 10 ^ b.length = acc * (10 ^ b.length * 10) := by
      rw [Nat.mul_assoc, Nat.mul_comm 10]
    omega

/-- value of a concatenation of digit strings -/
theorem digitsVal_app (a b : Str) : digitsVal (a ++ b) = digitsVal a * 10 ^ b.length + digitsVal b := by
  unfold digitsVal
  rw [digitsValAux_append', digitsValAux_shift]

theorem digitsVal_cons (c : Char) (r : Str) : digitsVal (c :: r) = digitVal c * 10 ^ r.length + digitsVal r := by
  have := digitsVal_app [c] r
  simpa [digitsVal, digitsValAux_cons', digitsValAux_nil'] using this

theorem digitsVal_nil : digitsVal [] = 0 := rfl

theorem digitsVal_replicate_zero (k : Nat) : digitsVal (List.replicate k '0') = 0 := by
  induction k with
  | zero => rfl
  | succ k ih =>
    rw [List.replicate_succ, digitsVal_cons, ih]
    have : digitVal '0' = 0 := by decide
    simp [this]

theorem allDigits_replicate_zero (k : Nat) : allDigits (List.replicate k '0') = true := by
  have : isDigit '0' = true := by decide
  simp [allDigits, this]

theorem allDigits_append (a b : Str) : allDigits (a ++ b) = (allDigits a && allDigits b) := by
  simp [allDigits, List.all_append]

theorem isDigit_of_mem {s : Str} (h : allDigits s = true) {c : Char} (hc : c ∈ s) : isDigit c = true := by
  simp only [allDigits, List.all_eq_true] at h
  exact h c hc

/-- the value of a digit string is below `10^length` -/
theorem digitsVal_lt (s : Str) (h : allDigits s = true) : digitsVal s < 10 ^ s.length := by
  induction s with
  | nil => simp [digitsVal_nil]
  | cons c r ih =>
    have hc : isDigit c = true := isDigit_of_mem h (by simp)
    have hr : allDigits r = true := by
      simp only [allDigits, List.all_cons, Bool.and_eq_true] at h ⊢; exact h.2
    have hv : digitVal c ≤ 9 := by
      simp only [isDigit, Bool.and_eq_true, decide_eq_true_eq] at hc
      have h2 : c.toNat ≤ 57 := hc.2
      unfold digitVal; omega
    have := ih hr
    rw [digitsVal_cons, List.length_cons, Nat.pow_succ]
    have h9 : digitVal c * 10 ^ r.length ≤ 9 * 10 ^ r.length := Nat.mul_le_mul_right _ hv
    omega

/-! ### `natDigits` = `str(n)` -/

theorem natDigits_of_lt {n : Nat} (h : n < 10) : natDigits n = [digitChar n] := by
  rw [natDigits]; simp [h]

theorem natDigits_of_ge {n : Nat} (h : ¬ n < 10) : natDigits n = natDigits (n / 10) ++ [digitChar (n % 10)] := by
  rw [natDigits]; simp [h]

theorem digitChar_mod (n : Nat) : digitChar (n % 10) = digitChar n := by
  unfold digitChar; rw [Nat.mod_mod]

theorem allDigits_natDigits' (n : Nat) : allDigits (natDigits n) = true := by
  induction n using Nat.strongRecOn with
  | _ n ih =>
    by_cases h : n < 10
    · rw [natDigits_of_lt h]; simp [allDigits, isDigit_digitChar]
    · rw [natDigits_of_ge h, allDigits_append, ih (n / 10) (by omega)]
      simp [allDigits, isDigit_digitChar]

theorem digitsVal_natDigits' (n : Nat) : digitsVal (natDigits n) = n := by
  induction n using Nat.strongRecOn with
  | _ n ih =>
    by_cases h : n < 10
    · rw [natDigits_of_lt h, digitsVal_cons, digitsVal_nil, digitVal_digitChar]
      simp; omega
    · rw [natDigits_of_ge h, digitsVal_append_digit, ih (n / 10) (by omega), digitVal_digitChar]
      omega

theorem natDigits_ne_nil' (n : Nat) : natDigits n ≠ [] := by
  by_cases h : n < 10
  · rw [natDigits_of_lt h]; simp
  · rw [natDigits_of_ge h]; simp

theorem isEmpty_natDigits (n : Nat) : (natDigits n).isEmpty = false := by
  cases h : natDigits n with
  | nil => exact absurd h (natDigits_ne_nil' n)
  | cons _ _ => rfl

theorem natDigits_head_digit (n : Nat) : ∃ c r, natDigits n = c :: r ∧ isDigit c = true := by
  cases h : natDigits n with
  | nil => exact absurd h (natDigits_ne_nil' n)
  | cons c r =>
    refine ⟨c, r, rfl, ?_⟩
    have := allDigits_natDigits' n
    rw [h] at this
    exact isDigit_of_mem this (by simp)

/-- **`parseNat (renderNat n) = some n`, for every `n`.** -/
theorem parseNat_natDigits' (n : Nat) : parseNat? (natDigits n) = some n := by
  unfold parseNat?
  simp [isEmpty_natDigits, allDigits_natDigits', digitsVal_natDigits']

/-- an all-digit, non-empty text parses to its value -/
theorem parseNat_of_allDigits {s : Str} (h : allDigits s = true) (hne : s ≠ []) :
    parseNat? s = some (digitsVal s) := by
  unfold parseNat?
  have : s.isEmpty = false := by cases s with
    | nil => exact absurd rfl hne
    | cons _ _ => rfl
  simp [this, h]

/-- `int(str(n)) = n` -/
theorem parseInt_natDigits' (n : Nat) : parseInt? (natDigits n) = some (n : Int) := by
  unfold parseInt?
  rw [strip_of_allDigits (allDigits_natDigits' n)]
  obtain ⟨c, r, h, hd⟩ := natDigits_head_digit n
  rw [h, takeSign_of_digit hd, ← h]
  simp [parseNat_natDigits']

/-- number of digits: `str(n)` has at most `k` characters iff `n < 10^k` (`k ≥ 1`) -/
theorem length_natDigits_le_iff (k n : Nat) (hk : 0 < k) : (natDigits n).length ≤ k ↔ n < 10 ^ k := by
  induction k generalizing n with
  | zero => omega
  | succ k ih =>
    by_cases h10 : n < 10
    · rw [natDigits_of_lt h10]
      have : 10 ≤ 10 ^ (k + 1) := by
        have := Nat.pow_le_pow_right (show 0 < 10 by decide) (show 1 ≤ k + 1 by omega)
        simpa using this
      simp; omega
    · rw [natDigits_of_ge h10]
      simp only [List.length_append, List.length_singleton, Nat.add_le_add_iff_right]
      rcases Nat.eq_zero_or_pos k with h0 | h0
      · subst h0
        have := List.length_pos_iff.mpr (natDigits_ne_nil' (n / 10))
        simp only [Nat.zero_add, Nat.pow_one]
        omega
      · rw [ih (n / 10) h0, Nat.div_lt_iff_lt_mul (by decide), Nat.pow_succ]

/-- exactly `k+1` digits iff `10^k ≤ n < 10^(k+1)` (for `n ≥ 1`; `0` has one digit) -/
theorem length_natDigits_eq (k n : Nat) (hlo : 10 ^ k ≤ n) (hhi : n < 10 ^ (k + 1)) :
    (natDigits n).length = k + 1 := by
  have h1 := (length_natDigits_le_iff (k + 1) n (by omega)).mpr hhi
  rcases Nat.eq_zero_or_pos k with h0 | h0
  · subst h0
    have := List.length_pos_iff.mpr (natDigits_ne_nil' n)
    omega
  · have h2 : ¬ (natDigits n).length ≤ k := by
      rw [length_natDigits_le_iff k n h0]; omega
    omega

/-! ### `fixedDigits` = zero padding -/

theorem fixedDigits_zero (p : Nat) : fixedDigits p 0 = List.replicate p '0' := by
  induction p with
  | zero => rfl
  | succ p ih =>
    have : digitChar 0 = '0' := by decide
    rw [fixedDigits, Nat.zero_div, ih, this, ← List.replicate_succ']

theorem fixedDigits_mod (p n : Nat) : fixedDigits p (n % 10 ^ p) = fixedDigits p n := by
  induction p generalizing n with
  | zero => rfl
  | succ p ih =>
    rw [fixedDigits, fixedDigits]
    have h1 : n % 10 ^ (p + 1) / 10 = (n / 10) % 10 ^ p := by
      rw [Nat.pow_succ, Nat.mul_comm, Nat.mod_mul_right_div_self]
    have h2 : digitChar (n % 10 ^ (p + 1)) = digitChar n := by
      unfold digitChar
      have : n % 10 ^ (p + 1) % 10 = n % 10 := by
        rw [Nat.pow_succ]; exact Nat.mod_mul_left_mod n (10 ^ p) 10
      rw [this]
    rw [h1, ih, h2]

/-- **zero-padded fixed width.**  For `n < 10^p` (`p ≥ 1`), the `p` digits are `str(n)` padded with zeros on
the left (Python `'%0pd' % n`, `str(n).zfill(p)`). -/
theorem fixedDigits_eq_pad (p n : Nat) (hp : 0 < p) (h : n < 10 ^ p) :
    fixedDigits p n = List.replicate (p - (natDigits n).length) '0' ++ natDigits n := by
  induction p generalizing n with
  | zero => omega
  | succ p ih =>
    rw [fixedDigits]
    by_cases h10 : n < 10
    · rw [natDigits_of_lt h10]
      have : n / 10 = 0 := by omega
      rw [this, fixedDigits_zero]
      simp
    · have hp0 : 0 < p := by
        rcases Nat.eq_zero_or_pos p with h0 | h0
        · subst h0; simp at h; omega
        · exact h0
      have hdiv : n / 10 < 10 ^ p := by
        rw [Nat.div_lt_iff_lt_mul (by decide)]
        rw [Nat.pow_succ] at h; exact h
      rw [ih (n / 10) hp0 hdiv, natDigits_of_ge h10, digitChar_mod]
      simp only [List.length_append, List.length_singleton, List.append_assoc]
      have : p + 1 - ((natDigits (n / 10)).length + 1) = p - (natDigits (n / 10)).length := by omega
      rw [this]

/-- `fracDigits` (pad, never cut) and `fixedDigits` (exactly `p` digits) agree on numbers that have at most
`p` digits -/
theorem fracDigits_eq_fixedDigits (p n : Nat) (hp : 0 < p) (h : n < 10 ^ p) : fracDigits p n = fixedDigits p n := by
  rw [fixedDigits_eq_pad p n hp h]; rfl

/-- **`renderNatPad w n` has exactly `w` characters and parses back to `n`** (`n < 10^w`, `w ≥ 1`) -/
theorem length_fracDigits' (p n : Nat) (hp : 0 < p) (h : n < 10 ^ p) : (fracDigits p n).length = p := by
  rw [fracDigits_eq_fixedDigits p n hp h, length_fixedDigits]

theorem parseNat_fracDigits (p n : Nat) (hp : 0 < p) (h : n < 10 ^ p) : parseNat? (fracDigits p n) = some n := by
  rw [fracDigits_eq_fixedDigits p n hp h, parseNat_fixedDigits hp, Nat.mod_eq_of_lt h]

theorem parseInt_fracDigits (p n : Nat) (hp : 0 < p) (h : n < 10 ^ p) : parseInt? (fracDigits p n) = some (n : Int) := by
  rw [fracDigits_eq_fixedDigits p n hp h, parseInt_fixedDigits hp, Nat.mod_eq_of_lt h]

/-- a number wider than the pad width is not cut by `fracDigits` -/
theorem fracDigits_of_ge (p n : Nat) (h : p ≤ (natDigits n).length) : fracDigits p n = natDigits n := by
  unfold fracDigits
  have : p - (natDigits n).length = 0 := by omega
  simp [this]

/-! ### signed integers: `fmtInt` = `'{:d}'`, `parseInt?` = `int` -/

theorem isDigit_not_sign {c : Char} (h : isDigit c = true) : c ≠ '-' ∧ c ≠ '+' ∧ c ≠ '.' := by
  refine ⟨?_, ?_, ?_⟩ <;> (intro hc; subst hc; revert h; decide)

theorem no_space_natDigits (n : Nat) : ∀ c ∈ natDigits n, isSpace c = false :=
  fun _ hc => isSpace_of_isDigit (isDigit_of_mem (allDigits_natDigits' n) hc)

theorem no_space_fmtInt (i : Int) : ∀ c ∈ fmtInt i, isSpace c = false := by
  intro c hc
  unfold fmtInt at hc
  split at hc
  · simp only [List.mem_cons] at hc
    rcases hc with rfl | hc
    · decide
    · exact no_space_natDigits _ c hc
  · exact no_space_natDigits _ c hc

theorem fmtInt_ne_nil (i : Int) : fmtInt i ≠ [] := by
  unfold fmtInt; split
  · simp
  · exact natDigits_ne_nil' _

/-- text without blanks is `Clean` -/
theorem clean_of_no_space {s : Str} (h : ∀ c ∈ s, isSpace c = false) : Clean s = true := by
  cases s with
  | nil => rfl
  | cons c r =>
    simp only [Clean, Bool.and_eq_true, Bool.not_eq_eq_eq_not, Bool.not_true]
    refine ⟨h c (by simp), ?_⟩
    cases hl : (c :: r).getLast? with
    | none => simp at hl
    | some d => exact h d (List.mem_of_getLast? hl)

/-- **`int('{:d}'.format(i)) = i`, for every integer** -/
theorem parseInt_fmtInt (i : Int) : parseInt? (fmtInt i) = some i := by
  unfold parseInt?
  rw [strip_of_no_space (no_space_fmtInt i)]
  unfold fmtInt
  by_cases hi : i < 0
  · simp only [hi, if_true]
    have hts : takeSign ('-' :: natDigits i.natAbs) = (true, natDigits i.natAbs) := rfl
    rw [hts]
    simp [parseNat_natDigits']
    omega
  · simp only [hi, if_false]
    obtain ⟨c, r, h, hd⟩ := natDigits_head_digit i.natAbs
    rw [h, takeSign_of_digit hd, ← h]
    simp [parseNat_natDigits']
    omega

/-- the same through a right-justified cell of any width (`'{:wd}'`) -/
theorem parseInt_fmtIntW (w : Nat) (i : Int) : parseInt? (fmtIntW w i) = some i := by
  have h1 : parseInt? (fmtIntW w i) = parseInt? (fmtInt i) := by
    unfold parseInt? fmtIntW
    rw [strip_rjust (clean_of_no_space (no_space_fmtInt i)), strip_of_no_space (no_space_fmtInt i)]
  rw [h1, parseInt_fmtInt]

/-- width of a printed integer: sign column + digits -/
theorem length_fmtInt (i : Int) : (fmtInt i).length = (if i < 0 then 1 else 0) + (natDigits i.natAbs).length := by
  unfold fmtInt; split <;> simp <;> omega

/-- `'{:wd}'` has exactly `w` characters iff the number fits: `|i| < 10^(w − sign column)` -/
theorem length_fmtIntW_eq_iff (w : Nat) (i : Int) (hw : (if i < 0 then 1 else 0) < w) :
    (fmtIntW w i).length = w ↔ i.natAbs < 10 ^ (w - (if i < 0 then 1 else 0)) := by
  rw [← length_natDigits_le_iff _ _ (by omega)]
  unfold fmtIntW rjust
  simp only [List.length_append, length_blanks, length_fmtInt]
  omega

/-! ### `parseFloat` on plain digit strings -/

theorem not_exp_of_digit_or_point {c : Char} (h : isDigit c = true ∨ c = '.') :
    (!['e', 'E'].contains c) = true := by
  rcases h with h | h
  · have : c ≠ 'e' ∧ c ≠ 'E' := by
      constructor <;> (intro hc; subst hc; revert h; decide)
    simp [this.1, this.2]
  · subst h; decide

theorem scale10_zero' (q : Rat) : scale10 q 0 = q := by
  simp [scale10, pow10]

theorem pow10_zero : pow10 0 = 1 := by simp [pow10]

theorem ne_point_of_digit {c : Char} (h : isDigit c = true) : (decide (c ≠ '.')) = true := by
  simpa using (isDigit_not_sign h).2.2

/-- `parseMantissa?` of an integer text -/
theorem parseMantissa_digits {s : Str} (h : allDigits s = true) (hne : s ≠ []) :
    parseMantissa? s = some (s, 0) := by
  unfold parseMantissa?
  have hall : ∀ x ∈ s, (decide (x ≠ '.')) = true := fun x hx => ne_point_of_digit (isDigit_of_mem h hx)
  have he : s.isEmpty = false := by
    cases s with
    | nil => exact absurd rfl hne
    | cons _ _ => rfl
  simp only [takeWhile_eq_self _ _ hall, dropWhile_eq_nil _ _ hall]
  simp [he, h]

/-- `parseMantissa?` of `digits.digits` -/
theorem parseMantissa_point {a b : Str} (ha : allDigits a = true) (hb : allDigits b = true) (hne : a ≠ []) :
    parseMantissa? (a ++ '.' :: b) = some (a ++ b, b.length) := by
  unfold parseMantissa?
  have hall : ∀ x ∈ a, (decide (x ≠ '.')) = true := fun x hx => ne_point_of_digit (isDigit_of_mem ha hx)
  have hpt : (decide ('.' ≠ '.')) = false := by decide
  have he : a.isEmpty = false := by
    cases a with
    | nil => exact absurd rfl hne
    | cons _ _ => rfl
  rw [takeWhile_append_stop _ _ _ _ hall hpt, dropWhile_append_stop _ _ _ _ hall hpt]
  simp [he, ha, hb]

/-- the unsigned body of a decimal text (`digits` or `digits.digits`) parses to the value of its digits over
`10^(number of fraction digits)`; `neg` is an optional leading minus -/
theorem parseFloat_body (neg : Bool) (body ds : Str) (k : Nat)
    (hm : parseMantissa? body = some (ds, k))
    (hchars : ∀ c ∈ body, isDigit c = true ∨ c = '.')
    (hhead : ∃ c r, body = c :: r ∧ isDigit c = true) :
    parseFloat ((if neg then ['-'] else []) ++ body) =
      some (if neg then -((digitsVal ds : Rat) / pow10 k) else (digitsVal ds : Rat) / pow10 k) := by
  unfold parseFloat parseDecimalWith
  have hns : ∀ c ∈ (if neg then ['-'] else []) ++ body, isSpace c = false := by
    intro c hc
    simp only [List.mem_append] at hc
    rcases hc with hc | hc
    · cases neg
      · simp at hc
      · simp at hc; subst hc; decide
    · rcases hchars c hc with h | h
      · exact isSpace_of_isDigit h
      · subst h; decide
  rw [strip_of_no_space hns]
  have hts : takeSign ((if neg then ['-'] else []) ++ body) = (neg, body) := by
    cases neg with
    | true => rfl
    | false =>
      obtain ⟨c, r, h, hd⟩ := hhead
      simp only [Bool.false_eq_true, if_false, List.nil_append]
      rw [h]; exact takeSign_of_digit hd
  rw [hts]
  have hall : ∀ x ∈ body, (!['e', 'E'].contains x) = true := fun x hx => not_exp_of_digit_or_point (hchars x hx)
  simp only [takeWhile_eq_self _ _ hall, dropWhile_eq_nil _ _ hall, hm, scale10_zero']

/-- **`float` of an all-digit text is its number** -/
theorem parseFloat_digits {s : Str} (h : allDigits s = true) (hne : s ≠ []) :
    parseFloat s = some (digitsVal s : Rat) := by
  have hhead : ∃ c r, s = c :: r ∧ isDigit c = true := by
    cases s with
    | nil => exact absurd rfl hne
    | cons c r => exact ⟨c, r, rfl, isDigit_of_mem h (by simp)⟩
  have := parseFloat_body false s s 0 (parseMantissa_digits h hne)
    (fun c hc => Or.inl (isDigit_of_mem h hc)) hhead
  have e : (digitsVal s : Rat) / 1 = (digitsVal s : Rat) := by grind
  simpa [pow10_zero, e] using this

/-! ### `fmtFixedCore` = `'{:.pf}'`: shape, exact length, read-back -/

/-- the integer the text of `'{:.pf}'.format(q)` is made of: `round_half_even(|q| · 10^p)` -/
def fixedScaled (q : Rat) (p : Nat) : Nat :=
  (roundHalfEven ((if q < 0 then -q else q) * pow10 p)).toNat

/-- digits of the unsigned body -/
def fixedBody (p n : Nat) : Str :=
  natDigits (n / 10 ^ p) ++ (if p = 0 then [] else '.' :: fixedDigits p n)

/-- shape of the text: sign, integer digits, and (for `p > 0`) the point and exactly `p` digits -/
theorem fmtFixedCore_eq (q : Rat) (p : Nat) :
    fmtFixedCore q p = (if q < 0 then ['-'] else []) ++ fixedBody p (fixedScaled q p) := by
  unfold fmtFixedCore fixedBody fixedScaled
  simp only [List.append_assoc]
  by_cases hp : p = 0
  · simp [hp]
  · have hp' : 0 < p := by omega
    simp only [hp, if_false]
    rw [fracDigits_eq_fixedDigits p _ hp' (Nat.mod_lt _ (Nat.pow_pos (by decide))), fixedDigits_mod]

theorem length_fixedBody (p n : Nat) :
    (fixedBody p n).length = (natDigits (n / 10 ^ p)).length + (if p = 0 then 0 else p + 1) := by
  unfold fixedBody
  by_cases hp : p = 0
  · simp [hp]
  · simp [hp, length_fixedDigits]

/-- **exact length of `'{:.pf}'.format(q)`**: sign column + integer digits + point and `p` decimals -/
theorem length_fmtFixedCore (q : Rat) (p : Nat) :
    (fmtFixedCore q p).length =
      (if q < 0 then 1 else 0) + (natDigits (fixedScaled q p / 10 ^ p)).length + (if p = 0 then 0 else p + 1) := by
  rw [fmtFixedCore_eq, List.length_append, length_fixedBody]
  by_cases hq : q < 0 <;> simp [hq] <;> omega

theorem fixedBody_chars (p n : Nat) : ∀ c ∈ fixedBody p n, isDigit c = true ∨ c = '.' := by
  intro c hc
  unfold fixedBody at hc
  simp only [List.mem_append] at hc
  rcases hc with hc | hc
  · exact Or.inl (isDigit_of_mem (allDigits_natDigits' _) hc)
  · by_cases hp : p = 0
    · simp [hp] at hc
    · simp only [hp, if_false, List.mem_cons] at hc
      rcases hc with hc | hc
      · exact Or.inr hc
      · exact Or.inl (isDigit_of_mem (allDigits_fixedDigits _ _) hc)

theorem fixedBody_head (p n : Nat) : ∃ c r, fixedBody p n = c :: r ∧ isDigit c = true := by
  obtain ⟨c, r, h, hd⟩ := natDigits_head_digit (n / 10 ^ p)
  exact ⟨c, r ++ (if p = 0 then [] else '.' :: fixedDigits p n), by simp [fixedBody, h], hd⟩

theorem parseMantissa_fixedBody (p n : Nat) :
    ∃ ds, parseMantissa? (fixedBody p n) = some (ds, p) ∧ digitsVal ds = n := by
  unfold fixedBody
  by_cases hp : p = 0
  · subst hp
    refine ⟨natDigits (n / 10 ^ 0), ?_, ?_⟩
    · simp only [if_true, List.append_nil]
      exact parseMantissa_digits (allDigits_natDigits' _) (natDigits_ne_nil' _)
    · rw [digitsVal_natDigits']; simp
  · simp only [hp, if_false]
    refine ⟨natDigits (n / 10 ^ p) ++ fixedDigits p n, ?_, ?_⟩
    · have := parseMantissa_point (allDigits_natDigits' (n / 10 ^ p)) (allDigits_fixedDigits p n) (natDigits_ne_nil' _)
      rw [length_fixedDigits] at this
      exact this
    · rw [digitsVal_app, digitsVal_natDigits', digitsVal_fixedDigits, length_fixedDigits]
      exact Nat.div_add_mod' n (10 ^ p)

/-- the value a printed fixed-point text denotes -/
def fixedValue (q : Rat) (p : Nat) : Rat :=
  if q < 0 then -((fixedScaled q p : Rat) / pow10 p) else (fixedScaled q p : Rat) / pow10 p

/-- **`float('{:.pf}'.format(q))`** is `± round_half_even(|q|·10^p) / 10^p`, for all `q`, `p` -/
theorem parseFloat_fmtFixedCore (q : Rat) (p : Nat) : parseFloat (fmtFixedCore q p) = some (fixedValue q p) := by
  rw [fmtFixedCore_eq]
  obtain ⟨ds, hm, hv⟩ := parseMantissa_fixedBody p (fixedScaled q p)
  have h := parseFloat_body (decide (q < 0)) _ ds p hm (fixedBody_chars _ _) (fixedBody_head _ _)
  rw [hv] at h
  unfold fixedValue
  by_cases hq : q < 0
  · simpa [hq] using h
  · simpa [hq] using h

theorem no_space_fmtFixedCore (q : Rat) (p : Nat) : ∀ c ∈ fmtFixedCore q p, isSpace c = false := by
  intro c hc
  rw [fmtFixedCore_eq] at hc
  simp only [List.mem_append] at hc
  rcases hc with hc | hc
  · split at hc
    · simp at hc; subst hc; decide
    · simp at hc
  · rcases fixedBody_chars _ _ c hc with h | h
    · exact isSpace_of_isDigit h
    · subst h; decide

theorem clean_fmtFixedCore (q : Rat) (p : Nat) : Clean (fmtFixedCore q p) = true :=
  clean_of_no_space (no_space_fmtFixedCore q p)

theorem fmtFixedCore_ne_nil (q : Rat) (p : Nat) : fmtFixedCore q p ≠ [] := by
  rw [fmtFixedCore_eq]
  obtain ⟨c, r, h, _⟩ := fixedBody_head p (fixedScaled q p)
  rw [h]; simp

/-- the padded cell `'{:w.pf}'` strips to the unpadded text, for every width -/
theorem strip_fmtFixed (q : Rat) (w p : Nat) : strip (fmtFixed q w p) = fmtFixedCore q p :=
  strip_rjust (clean_fmtFixedCore q p)

/-- **`float('{:w.pf}'.format(q))`**, for every width (also when the text overflows the width) -/
theorem parseFloat_fmtFixed (q : Rat) (w p : Nat) : parseFloat (fmtFixed q w p) = some (fixedValue q p) := by
  have h : parseFloat (fmtFixed q w p) = parseFloat (fmtFixedCore q p) := by
    unfold parseFloat parseDecimalWith
    rw [strip_fmtFixed, strip_of_no_space (no_space_fmtFixedCore q p)]
  rw [h, parseFloat_fmtFixedCore]

/-- the cell is exactly `w` wide iff the unpadded text is at most `w` wide -/
theorem length_fmtFixed_eq_iff (q : Rat) (w p : Nat) :
    (fmtFixed q w p).length = w ↔ (fmtFixedCore q p).length ≤ w := by
  unfold fmtFixed rjust
  simp only [List.length_append, length_blanks]
  omega

/-- **exact width condition on the digits**: with `s` the sign column (1 for `q < 0`) and `d` the point and
decimals (`p + 1`, or `0` for `p = 0`), the cell `'{:w.pf}'` of width `w > s + d` is exactly `w` wide iff the
rounded scaled magnitude has at most `w − s − d` integer digits, i.e. is below `10^(w − s − d + p)` -/
theorem length_fmtFixed_eq_iff_scaled (q : Rat) (w p : Nat)
    (hw : (if q < 0 then 1 else 0) + (if p = 0 then 0 else p + 1) < w) :
    (fmtFixed q w p).length = w ↔
      fixedScaled q p < 10 ^ (w - (if q < 0 then 1 else 0) - (if p = 0 then 0 else p + 1) + p) := by
  rw [length_fmtFixed_eq_iff, length_fmtFixedCore]
  generalize hs : (if q < 0 then 1 else 0) = s at hw ⊢
  generalize hd : (if p = 0 then 0 else p + 1) = d at hw ⊢
  have hk : 0 < w - s - d := by omega
  have := length_natDigits_le_iff (w - s - d) (fixedScaled q p / 10 ^ p) hk
  rw [Nat.div_lt_iff_lt_mul (Nat.pow_pos (by decide)), ← Nat.pow_add] at this
  rw [← this]
  omega

end Midgard.Decimal
