/-
C11 file level, part 4: the header group of a rendered RINEX 3 observation file through `readData_group` (every
header line calls its handler with the cells; `END OF HEADER` ends the group), and the whole file given what the
header leaves in the parser state.  Core Lean only.
-/
import Midgard.Proofs.Rinex3ObsData

namespace Midgard.Spec.Rinex3ObsFile
open Midgard.Text Midgard.FixedCol Midgard.Decimal Midgard.ChainParser Midgard.RinexObs Midgard.Rinex3Obs

/-! ### the header group -/

def hdrPairs (hdr : List HdrRec) : List (String × List Str) := hdr.flatMap hdrCells

def pairFx (kc : String × List Str) : State → Except Err State :=
  fun s => handle (handlerOf kc.1) ((names kc.1).zip kc.2) s

theorem foldlM_flatMap {α β} (f : State → β → Except Err State) (g : α → List β) : ∀ (l : List α) (s : State),
    (l.flatMap g).foldlM f s = l.foldlM (fun s x => (g x).foldlM f s) s := by
  intro l
  induction l with
  | nil => intro s; rfl
  | cons a l ih =>
    intro s
    simp only [List.flatMap_cons, List.foldlM_append, List.foldlM_cons]
    cases (g a).foldlM f s with
    | error e => rfl
    | ok s' => exact ih s'

theorem runFx_map {β} (f : β → State → Except Err State) : ∀ (l : List β) (s : State),
    runFx (l.map f) s = l.foldlM (fun s x => f x s) s := by
  intro l
  induction l with
  | nil => intro s; rfl
  | cons a l ih =>
    intro s
    simp only [List.map_cons, runFx, List.foldlM_cons, bind, Except.bind]
    cases f a s with
    | error e => rfl
    | ok s' => exact ih s'

theorem headerState_eq (rate : Option Rat) (hdr : List HdrRec) :
    headerState rate hdr = runFx ((hdrPairs hdr).map pairFx) { rate := rate } := by
  rw [runFx_map]
  unfold headerState hdrPairs
  rw [foldlM_flatMap]
  rfl

theorem pair_ok (r : HdrRec) (hr : r.wf = true) : ∀ kc ∈ hdrCells r,
    okCells kc.1 kc.2 = true ∧ (kc.1 = "VER3" ∨ ∃ h, (kc.1, h) ∈ lineKinds) := by
  intro kc hkc
  cases r with
  | plain k cells =>
    simp only [hdrCells, List.mem_cons, List.not_mem_nil, or_false] at hkc
    subst hkc
    simp only [HdrRec.wf, Bool.and_eq_true] at hr
    refine ⟨hr.2, ?_⟩
    by_cases hv : k = "VER3"
    · left; exact hv
    · right
      obtain ⟨x, hx, hxk⟩ := List.any_eq_true.mp hr.1
      simp only [beq_iff_eq] at hxk
      refine ⟨x.2, ?_⟩
      have : x ∈ plainKinds.filter (·.1 != "VER3") := by
        rw [List.mem_filter]
        exact ⟨hx, by simp [hxk, hv]⟩
      have hx2 : (k, x.2) = x := by rw [← hxk]
      rw [hx2]
      exact List.mem_cons_of_mem _ (List.mem_cons_of_mem _ this)
  | marker n =>
    simp only [hdrCells, List.mem_cons, List.not_mem_nil, or_false] at hkc
    subst hkc
    exact ⟨hr, Or.inr ⟨"_parse_string", by simp [lineKinds]⟩⟩
  | sysObs s c ls =>
    simp only [hdrCells, List.mem_map] at hkc
    obtain ⟨cells, hcells, rfl⟩ := hkc
    simp only [HdrRec.wf, Bool.and_eq_true] at hr
    exact ⟨List.all_eq_true.mp hr.2 cells hcells, Or.inr ⟨"_parse_sys_obs_types", by simp [lineKinds]⟩⟩

theorem pair_line (kc : String × List Str) (hok : okCells kc.1 kc.2 = true)
    (hk : kc.1 = "VER3" ∨ ∃ h, (kc.1, h) ∈ lineKinds) (st : Style) (n : Nat) (s : State) :
    parseLine headerParser (rstrip (styled st (rec kc.1 kc.2))) n s = pairFx kc s := by
  rw [rstrip_styled]
  rcases hk with hv | ⟨h, hm⟩
  · obtain ⟨k, cells⟩ := kc
    simp only at hv
    subst hv
    exact ver3_parsed cells hok n s
  · exact rec_parsed kc.1 h hm kc.2 hok n s

theorem ver3_not_end (cells : List Str) (hok : okCells "VER3" cells = true) (n : Nat) (nx : Str) :
    headerParser.endMarker (rstrip (rec "VER3" cells)) n nx = false := by
  simp only [okCells, Bool.and_eq_true, decide_eq_true_eq] at hok
  obtain ⟨⟨_, hf⟩, _⟩ := hok
  unfold rec
  rw [ver3_spec] at hf ⊢
  show decide (Text.slice 60 73 (rstrip (Spec.Rinex.renderLabelled ver3Spec cells)) = "END OF HEADER".toList) = false
  rw [show (73 : Nat) = 60 + 13 from rfl, slice_label ver3Spec ver3_mem cells hf 13]
  decide +kernel

theorem pair_not_end (kc : String × List Str) (hok : okCells kc.1 kc.2 = true)
    (hk : kc.1 = "VER3" ∨ ∃ h, (kc.1, h) ∈ lineKinds) (st : Style) (n : Nat) (nx : Str) :
    headerParser.endMarker (rstrip (styled st (rec kc.1 kc.2))) n nx = false := by
  rw [rstrip_styled]
  rcases hk with hv | ⟨h, hm⟩
  · obtain ⟨k, cells⟩ := kc
    simp only at hv
    subst hv
    exact ver3_not_end cells hok n nx
  · exact rec_not_end kc.1 h hm kc.2 hok n nx

theorem hdrPairs_ok (hdr : List HdrRec) (hwf : hdr.all HdrRec.wf = true) : ∀ kc ∈ hdrPairs hdr,
    okCells kc.1 kc.2 = true ∧ (kc.1 = "VER3" ∨ ∃ h, (kc.1, h) ∈ lineKinds) := by
  intro kc hkc
  simp only [hdrPairs, List.mem_flatMap] at hkc
  obtain ⟨r, hr, hkc⟩ := hkc
  exact pair_ok r (List.all_eq_true.mp hwf r hr) kc hkc

def hdrG (st : Style) (hdr : List HdrRec) : List (Str × (State → Except Err State)) :=
  (hdrPairs hdr).map fun (kc : String × List Str) => (styled st (rec kc.1 kc.2), pairFx kc)

def lastG (st : Style) : Str × (State → Except Err State) := (styled st eohLine, fun s => Except.ok s)

theorem rawLines_eq (F : File) :
    fileLines F = (hdrG F.style F.hdr ++ [lastG F.style]).map (·.1) ++ (F.epochs.flatMap blockLines).map (styled F.style) := by
  simp [fileLines, rawLines, hdrG, lastG, hdrPairs, hdrLines, List.map_flatMap, List.flatMap_map, Function.comp_def, List.map_append,
    List.flatMap_def, List.map_map]


/-! ### the type lists of a well-formed header -/

theorem addType_nodup {l : List Str} (h : l.Nodup) (t : Str) : (addType l t).Nodup := by
  unfold addType
  cases hc : l.contains t with
  | true => simpa using h
  | false =>
    have hn : t ∉ l := by simpa using hc
    simp only [Bool.false_eq_true, if_false]
    rw [List.nodup_append]
    refine ⟨h, by simp, ?_⟩
    intro a ha b hb
    simp only [List.mem_cons, List.not_mem_nil, or_false] at hb
    subst hb
    intro e; exact hn (e ▸ ha)

theorem foldl_addType_nodup : ∀ (ts acc : List Str), acc.Nodup → (ts.foldl addType acc).Nodup := by
  intro ts
  induction ts with
  | nil => intro acc h; exact h
  | cons t ts ih => intro acc h; exact ih _ (addType_nodup h t)

theorem mem_addType {l : List Str} {t x : Str} (h : x ∈ l ∨ x = t) : x ∈ addType l t := by
  unfold addType
  cases hc : l.contains t with
  | true =>
    simp only [if_true]
    rcases h with h | h
    · exact h
    · subst h; simpa using hc
  | false =>
    simp only [Bool.false_eq_true, if_false, List.mem_append, List.mem_cons, List.not_mem_nil, or_false]
    exact h

theorem mem_foldl_addType : ∀ (ts acc : List Str) (x : Str), x ∈ acc ∨ x ∈ ts → x ∈ ts.foldl addType acc := by
  intro ts
  induction ts with
  | nil => intro acc x h; simpa using h
  | cons t ts ih =>
    intro acc x h
    apply ih
    rcases h with h | h
    · left; exact mem_addType (Or.inl h)
    · rcases List.mem_cons.mp h with rfl | h'
      · left; exact mem_addType (Or.inr rfl)
      · right; exact h'

theorem nodup_of {l : List Str} (h : nodup l = true) : l.Nodup := by
  induction l with
  | nil => exact List.nodup_nil
  | cons x xs ih =>
    simp only [nodup, Bool.and_eq_true, Bool.not_eq_eq_eq_not, Bool.not_true] at h
    rw [List.nodup_cons]
    exact ⟨by simpa using h.1, ih h.2⟩

theorem typeFacts (hdr : List HdrRec) (h : (sysTypes hdr).all (fun st => nodup st.2) = true) : TypeFacts hdr where
  all := foldl_addType_nodup _ [] List.nodup_nil
  each := by
    intro st hst
    refine ⟨nodup_of (List.all_eq_true.mp h st hst), ?_⟩
    intro t ht
    apply mem_foldl_addType
    right
    rw [List.mem_flatMap]
    exact ⟨st, hst, ht⟩

/-- **the file**, given what the header leaves in the parser state -/
theorem file_of_header (rate : Option Rat) (F : File) (hwf : F.wf = true) (hT : TypeFacts F.hdr)
    (hH : ∀ H, headerState rate F.hdr = .ok H → HdrFacts F.hdr rate H) :
    readData headerParser obsParser resetCache (fileLines F) true 0 { rate := rate } = expected rate F := by
  simp only [File.wf, Bool.and_eq_true] at hwf
  obtain ⟨⟨⟨⟨hhdr, _⟩, _⟩, _⟩, heps⟩ := hwf
  have hok := hdrPairs_ok F.hdr hhdr
  rw [rawLines_eq]
  rw [readData_group headerParser obsParser resetCache true (hdrG F.style F.hdr) (lastG F.style)
    ((F.epochs.flatMap blockLines).map (styled F.style))]
  · -- the header state, then the data section
    have hfx : (hdrG F.style F.hdr ++ [lastG F.style]).map (·.2) = (hdrPairs F.hdr).map pairFx ++ [fun s => Except.ok s] := by
      simp [hdrG, lastG, List.map_map, Function.comp_def]
    rw [hfx, runFx_append, ← headerState_eq]
    unfold expected
    cases hhs : headerState rate F.hdr with
    | error e => rfl
    | ok H =>
      simp only [runFx, pure, Except.pure]
      have hf := hH H hhs
      have hreset : resetCache H = mk H (dataOf F.hdr rate [] H.data) {} := by
        rw [← hf.hdata]; rfl
      rw [hreset]
      have hb := blocks_run F.hdr rate H hf hT F.style F.epochs [] (fun e he => List.all_eq_true.mp heps e he)
      cases hl : (F.epochs.flatMap blockLines).map (styled F.style) with
      | nil =>
        have hnil : F.epochs = [] := by
          cases hE : F.epochs with
          | nil => rfl
          | cons e' eps' => rw [hE] at hl; simp [List.flatMap_cons, blockLines] at hl
        simp only [expectedData_eq, rows, hnil, List.filter_nil, List.flatMap_nil]
        rfl
      | cons m ms =>
        rw [← hl, hb]
        simp only [List.nil_append, expectedData_eq]
        rfl
  · intro x hx n s
    simp only [hdrG, lastG, if_true, List.mem_append, List.mem_map, List.mem_cons, List.not_mem_nil, or_false] at hx ⊢
    rcases hx with ⟨kc, hkc, rfl⟩ | rfl
    · exact pair_line kc (hok kc hkc).1 (hok kc hkc).2 F.style n s
    · simp only [rstrip_styled]
      exact eoh_parsed n s
  · intro x hx n nx
    simp only [hdrG, if_true, List.mem_map] at hx ⊢
    obtain ⟨kc, hkc, rfl⟩ := hx
    exact pair_not_end kc (hok kc hkc).1 (hok kc hkc).2 F.style n nx
  · intro n nx
    simp only [lastG, if_true, rstrip_styled]
    exact eoh_end n nx

end Midgard.Spec.Rinex3ObsFile
