/-
C09 helper lemmas about the list-level primitives of `Model/Dataset.lean`:
NumPy row selection (`pick`), `np.insert` (`insertAt`) and the stable argsort.
Core Lean only.
-/
import Midgard.Model.DatasetOps

namespace Midgard.Dataset

/-! ### pick -/

theorem pickMask_length {α} : ∀ (m : List Bool) (xs : List α), m.length = xs.length →
    (pickMask m xs).length = (m.filter id).length
  | [], [], _ => by simp [pickMask]
  | [], _ :: _, h => by simp at h
  | _ :: _, [], h => by simp at h
  | b :: bs, x :: xs, h => by
    have ih := pickMask_length bs xs (by simpa using h)
    cases b <;> simp [pickMask, ih]

theorem pickInts_length {α} (xs : List α) : ∀ (is : List Int) (r : List α),
    pickInts xs is = some r → r.length = is.length
  | [], r, h => by simp [pickInts] at h; simp [← h]
  | i :: is, r, h => by
    simp only [pickInts] at h
    split at h
    · simp at h
    · split at h
      · rename_i x r' _ hr
        simp at h
        have := pickInts_length xs is r' hr
        simp [← h, this]
      · simp at h

/-- a successful selection has exactly `idx.count` rows, whatever it is applied to -/
theorem pick_length {α} (idx : Index) (xs r : List α) (h : pick idx xs = .ok r) : r.length = idx.count := by
  cases idx with
  | mask m =>
    simp only [pick] at h
    split at h
    · rename_i hl
      simp only [Except.ok.injEq] at h
      simp [← h, Index.count, pickMask_length m xs hl]
    · simp at h
  | ints is =>
    simp only [pick] at h
    split at h
    · rename_i r' hr
      simp only [Except.ok.injEq] at h
      simp [← h, Index.count, pickInts_length xs is r' hr]
    · simp at h

/-- whether a selection succeeds depends only on the length of the array -/
theorem pickInts_isSome_of_length {α β} (xs : List α) (ys : List β) (hl : xs.length = ys.length) :
    ∀ (is : List Int) (r : List α), pickInts xs is = some r → ∃ r', pickInts ys is = some r'
  | [], _, _ => ⟨[], by simp [pickInts]⟩
  | i :: is, r, h => by
    simp only [pickInts] at h ⊢
    rw [← hl]
    split at h
    · simp at h
    · rename_i k hk
      split at h
      · rename_i x r' hx hr
        obtain ⟨r'', hr''⟩ := pickInts_isSome_of_length xs ys hl is r' hr
        have hk' : k < ys.length := by
          have : k < xs.length := by
            rcases Nat.lt_or_ge k xs.length with h' | h'
            · exact h'
            · simp [List.getElem?_eq_none h'] at hx
          omega
        simp [hr'', List.getElem?_eq_getElem hk']
      · simp at h

theorem pick_ok_of_length {α β} (idx : Index) (xs : List α) (ys : List β) (hl : xs.length = ys.length)
    (r : List α) (h : pick idx xs = .ok r) : ∃ r', pick idx ys = .ok r' := by
  cases idx with
  | mask m =>
    simp only [pick] at h ⊢
    split at h
    · rename_i hm; simp [← hl, hm]
    · simp at h
  | ints is =>
    simp only [pick] at h ⊢
    split at h
    · rename_i r' hr
      obtain ⟨r'', hr''⟩ := pickInts_isSome_of_length xs ys hl is r' hr
      simp [hr'']
    · simp at h

/-- "subset keeps the selected rows in order", boolean mask: the result is the sub-list of the
rows whose mask entry is true -/
theorem pickMask_sublist {α} : ∀ (m : List Bool) (xs : List α), (pickMask m xs).Sublist xs
  | [], xs => by simp [pickMask]
  | _ :: _, [] => by simp [pickMask]
  | b :: bs, x :: xs => by
    have ih := pickMask_sublist bs xs
    cases b
    · simpa [pickMask] using List.Sublist.cons x ih
    · simpa [pickMask] using List.Sublist.cons_cons x ih

theorem pickMask_eq_zip_filter {α} : ∀ (m : List Bool) (xs : List α),
    pickMask m xs = ((m.zip xs).filter (fun p => p.1)).map (·.2)
  | [], xs => by simp [pickMask]
  | _ :: _, [] => by simp [pickMask]
  | b :: bs, x :: xs => by
    have ih := pickMask_eq_zip_filter bs xs
    cases b <;> simp [pickMask, ih]

/-- "subset keeps the selected rows in order", integer index: entry `k` of the result is the row
`is[k]` (Python-normalised) of the input -/
theorem pickInts_get {α} (xs : List α) : ∀ (is : List Int) (r : List α), pickInts xs is = some r →
    ∀ k (hk : k < is.length), ∃ j, normIdx xs.length is[k] = some j ∧ r[k]? = xs[j]?
  | [], _, _, k, hk => by simp at hk
  | i :: is, r, h, k, hk => by
    simp only [pickInts] at h
    split at h
    · simp at h
    · rename_i j hj
      split at h
      · rename_i x r' hx hr
        simp only [Option.some.injEq] at h
        subst h
        cases k with
        | zero => exact ⟨j, by simpa using hj, by simp [hx]⟩
        | succ k =>
          have hk' : k < is.length := by simpa using hk
          obtain ⟨j', hj', hr'⟩ := pickInts_get xs is r' hr k hk'
          exact ⟨j', by simpa using hj', by simpa using hr'⟩
      · simp at h

/-! ### insertAt -/

theorem insertAt_length {α} (a b : List α) (pos : Nat) : (insertAt a pos b).length = a.length + b.length := by
  simp [insertAt]; omega

/-- inserting at the end appends: "extend appends the other rows" -/
theorem insertAt_end {α} (a b : List α) : insertAt a a.length b = a ++ b := by
  simp [insertAt]

theorem insertAt_zero {α} (a b : List α) : insertAt a 0 b = b ++ a := by
  simp [insertAt]

/-! ### stable argsort -/

theorem Scalar.le_total (a b : Scalar) : a.le b = true ∨ b.le a = true := by
  cases a <;> cases b <;> simp [Scalar.le, Scalar.rank]
  · exact Rat.le_total
  · exact String.le_total _ _
  · rename_i x y; cases x <;> cases y <;> simp

theorem Scalar.le_trans {a b c : Scalar} (h1 : a.le b = true) (h2 : b.le c = true) : a.le c = true := by
  cases a <;> cases b <;> cases c <;> simp_all [Scalar.le, Scalar.rank]
  · exact Rat.le_trans h1 h2
  · exact String.le_trans h1 h2
  · rename_i x y z; cases x <;> cases y <;> cases z <;> simp_all

theorem insertStable_perm (key : Nat → Scalar) (i : Nat) : ∀ l : List Nat, (insertStable key i l).Perm (i :: l)
  | [] => by simp [insertStable]
  | j :: js => by
    simp only [insertStable]
    split
    · exact ((insertStable_perm key i js).cons j).trans (List.Perm.swap i j js)
    · exact List.Perm.refl _

def SortedBy (key : Nat → Scalar) : List Nat → Prop
  | [] => True
  | [_] => True
  | a :: b :: rest => (key a).le (key b) = true ∧ SortedBy key (b :: rest)

theorem SortedBy.tail {key : Nat → Scalar} {a : Nat} {l : List Nat} (h : SortedBy key (a :: l)) : SortedBy key l := by
  cases l with
  | nil => trivial
  | cons b rest => exact h.2

theorem sortedBy_cons {key : Nat → Scalar} {a : Nat} {l : List Nat}
    (hl : SortedBy key l) (ha : ∀ b, l.head? = some b → (key a).le (key b) = true) : SortedBy key (a :: l) := by
  cases l with
  | nil => trivial
  | cons b rest => exact ⟨ha b rfl, hl⟩

theorem insertStable_head (key : Nat → Scalar) (i : Nat) : ∀ l : List Nat, ∀ b,
    (insertStable key i l).head? = some b → b = i ∨ l.head? = some b
  | [], b, h => by simp [insertStable] at h; exact Or.inl h.symm
  | j :: js, b, h => by
    simp only [insertStable] at h
    split at h
    · simp at h; exact Or.inr (by simp [h])
    · simp at h; exact Or.inl h.symm

theorem insertStable_sorted (key : Nat → Scalar) (i : Nat) : ∀ l : List Nat, SortedBy key l →
    SortedBy key (insertStable key i l)
  | [], _ => by simp [insertStable, SortedBy]
  | j :: js, h => by
    simp only [insertStable]
    split
    · rename_i hji
      apply sortedBy_cons (insertStable_sorted key i js h.tail)
      intro b hb
      rcases insertStable_head key i js b hb with rfl | hb'
      · exact hji
      · cases js with
        | nil => simp at hb'
        | cons c rest =>
          simp at hb'; subst hb'
          exact h.1
    · rename_i hji
      refine ⟨?_, h⟩
      rcases Scalar.le_total (key i) (key j) with h' | h'
      · exact h'
      · exact absurd h' hji

/-- the row numbers of equal-key rows keep their relative order: the sorted list, restricted to
any key value, is increasing.  Stated through the invariant "a larger row number with a key ≤
never precedes": for `a` before `b` in the result with `key b ≤ key a`, `a < b`. -/
def StableBy (key : Nat → Scalar) (l : List Nat) : Prop :=
  List.Pairwise (fun a b => (key b).le (key a) = true → a < b) l

theorem insertStable_stable (key : Nat → Scalar) (i : Nat) : ∀ l : List Nat,
    StableBy key l → (∀ a ∈ l, a < i) → SortedBy key l → StableBy key (insertStable key i l)
  | [], _, _, _ => by simp [insertStable, StableBy]
  | j :: js, hs, hlt, hsorted => by
    simp only [insertStable]
    have hs' : StableBy key js := (List.pairwise_cons.mp hs).2
    have hj : ∀ b ∈ js, (key b).le (key j) = true → j < b := (List.pairwise_cons.mp hs).1
    split
    · rename_i hji
      refine List.pairwise_cons.mpr ⟨?_, insertStable_stable key i js hs' (fun a ha => hlt a (by simp [ha])) hsorted.tail⟩
      intro b hb hle
      have : b ∈ i :: js := (insertStable_perm key i js).subset hb
      rcases List.mem_cons.mp this with rfl | hb'
      · exact hlt j (by simp)
      · exact hj b hb' hle
    · rename_i hji
      refine List.pairwise_cons.mpr ⟨?_, hs⟩
      intro b hb hle
      -- `i` goes in front of `j` only when `key j ≤ key i` fails; every later element has a key ≥ key j
      exfalso
      rcases List.mem_cons.mp hb with rfl | hb'
      · exact hji hle
      · -- key j ≤ key b (sorted) and key b ≤ key i, so key j ≤ key i
        have hjb : (key j).le (key b) = true := by
          clear hle hb hs hlt hs' hj hji
          induction js generalizing j with
          | nil => simp at hb'
          | cons c rest ih =>
            rcases List.mem_cons.mp hb' with rfl | hin
            · exact hsorted.1
            · exact Scalar.le_trans hsorted.1 (ih c hsorted.2 hin)
        exact hji (Scalar.le_trans hjb hle)

theorem foldl_insertStable (key : Nat → Scalar) : ∀ (n : Nat),
    let r := (List.range n).foldl (fun acc i => insertStable key i acc) []
    r.Perm (List.range n) ∧ SortedBy key r ∧ StableBy key r
  | 0 => by simp [SortedBy, StableBy]
  | n + 1 => by
    have ih := foldl_insertStable key n
    simp only [List.range_succ, List.foldl_append, List.foldl_cons, List.foldl_nil] at ih ⊢
    obtain ⟨hp, hs, hst⟩ := ih
    refine ⟨?_, insertStable_sorted key n _ hs, insertStable_stable key n _ hst ?_ hs⟩
    · exact (insertStable_perm key n _).trans ((hp.cons n).trans (List.perm_append_singleton n _).symm)
    · intro a ha
      have := hp.subset ha
      simpa using this

/-- `np.argsort(keys, kind="stable")` as modelled is a permutation of the row numbers -/
theorem argsortStable_perm (keys : List Scalar) : (argsortStable keys).Perm (List.range keys.length) :=
  (foldl_insertStable _ keys.length).1

/-- … sorted by key … -/
theorem argsortStable_sorted (keys : List Scalar) :
    SortedBy (fun i => keys.getD i .nan) (argsortStable keys) :=
  (foldl_insertStable _ keys.length).2.1

/-- … and stable: of two rows with `key b ≤ key a` where `a` comes first in the result, `a` is
the earlier row (so equal keys keep their order). -/
theorem argsortStable_stable (keys : List Scalar) :
    StableBy (fun i => keys.getD i .nan) (argsortStable keys) :=
  (foldl_insertStable _ keys.length).2.2

end Midgard.Dataset
