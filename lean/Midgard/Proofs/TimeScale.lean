/-
Helper lemmas for C01 (table lookup by counting started rows; per-hop instant functions).
-/
import Midgard.Model.TimeScale
import Mathlib.Tactic.Linarith
import Mathlib.Tactic.FieldSimp
import Mathlib.Tactic.Ring
import Mathlib.Algebra.Order.Field.Rat

namespace Midgard.TimeScale
open Midgard.TimeArith (JD Scale)

/-! ### Counting the started rows of an ascending key list -/

/-- strictly ascending (checked on consecutive elements; decidable on a concrete table) -/
def ascending : List Rat → Bool
  | a :: b :: rest => decide (a < b) && ascending (b :: rest)
  | _ => true

theorem ascending_tail {a : Rat} {l : List Rat} (h : ascending (a :: l) = true) : ascending l = true := by
  cases l with
  | nil => rfl
  | cons b rest => simp [ascending] at h; exact h.2

theorem ascending_head_lt {a : Rat} {l : List Rat} (h : ascending (a :: l) = true) :
    ∀ x ∈ l, a < x := by
  induction l generalizing a with
  | nil => intro x hx; cases hx
  | cons b rest ih =>
    intro x hx
    simp [ascending] at h
    rcases List.mem_cons.mp hx with rfl | hx
    · exact h.1
    · exact lt_trans h.1 (ih h.2 x hx)

theorem countP_zero_of_lt_head {x : Rat} {l : List Rat} (h : ascending l = true)
    (hx : ∀ hl : 0 < l.length, x < l[0]) : l.countP (fun k => decide (k ≤ x)) = 0 := by
  cases l with
  | nil => rfl
  | cons a rest =>
    have ha : x < a := hx (by simp)
    rw [List.countP_eq_zero]
    intro k hk
    simp only [decide_eq_true_eq, not_le]
    rcases List.mem_cons.mp hk with rfl | hk
    · exact ha
    · exact lt_trans ha (ascending_head_lt h k hk)

/-- In an ascending key list, if key `i` has been reached and key `i+1` has not, exactly
`i + 1` keys have been reached. -/
theorem countP_ascending (ks : List Rat) (h : ascending ks = true) (x : Rat) :
    ∀ (i : Nat) (hi : i < ks.length), ks[i] ≤ x → (∀ h' : i + 1 < ks.length, x < ks[i + 1]) →
      ks.countP (fun k => decide (k ≤ x)) = i + 1 := by
  induction ks with
  | nil => intro i hi; simp at hi
  | cons a rest ih =>
    intro i hi h1 h2
    cases i with
    | zero =>
      simp only [List.getElem_cons_zero] at h1
      rw [List.countP_cons]
      have : rest.countP (fun k => decide (k ≤ x)) = 0 := by
        apply countP_zero_of_lt_head (ascending_tail h)
        intro hl
        have := h2 (by simpa using hl)
        simpa using this
      simp [this, h1]
    | succ j =>
      have hj : j < rest.length := by simpa using hi
      have h1' : rest[j] ≤ x := by simpa using h1
      have ha : a ≤ x := le_trans (le_of_lt (ascending_head_lt h _ (List.getElem_mem hj))) h1'
      rw [List.countP_cons]
      have := ih (ascending_tail h) j hj h1' (by
        intro h'
        have := h2 (by simpa using h')
        simpa using this)
      simp [this, ha]

/-! ### Well-formedness of a TAI−UTC table (all decidable) -/

/-- each row ends where the next begins -/
def contiguous : List Row → Bool
  | r :: s :: rest => decide (r.stop = s.start) && contiguous (s :: rest)
  | _ => true

def taiStart (r : Row) : Rat := r.start + r.startDelta

/-- sorted UTC starts, sorted TAI-side starts, contiguous, non-empty rows, non-negative drift -/
def WF (tbl : List Row) : Bool :=
  ascending (tbl.map (·.start)) && ascending (tbl.map taiStart) && contiguous tbl
    && tbl.all (fun r => decide (r.start < r.stop) && decide (0 ≤ r.rate))

theorem contiguous_next {tbl : List Row} (h : contiguous tbl = true) :
    ∀ (i : Nat) (h1 : i + 1 < tbl.length), (tbl[i]'(by omega)).stop = tbl[i + 1].start := by
  induction tbl with
  | nil => intro i h1; simp at h1
  | cons r rest ih =>
    intro i h1
    cases rest with
    | nil => simp at h1
    | cons s rest' =>
      simp [contiguous] at h
      cases i with
      | zero => simpa using h.1
      | succ j =>
        have := ih h.2 j (by simpa using h1)
        simpa using this

theorem startedUtc_eq (tbl : List Row) (tol : Rat) (j : JD) :
    startedUtc tbl tol j = (tbl.map (·.start)).countP (fun k => decide (k ≤ j.inst + tol)) := by
  unfold startedUtc
  rw [List.countP_map]
  congr 1
  funext r
  simp only [Function.comp, JD.inst]
  congr 1
  apply propext
  constructor <;> intro h <;> linarith

theorem startedTai_eq (tbl : List Row) (tol : Rat) (j : JD) :
    startedTai tbl tol j = (tbl.map taiStart).countP (fun k => decide (k ≤ j.inst + tol)) := by
  unfold startedTai
  rw [List.countP_map]
  congr 1
  funext r
  simp only [Function.comp, JD.inst, taiStart]
  congr 1
  apply propext
  constructor <;> intro h <;> linarith

/-- The lookup by counting finds the row whose validity interval contains the UTC instant. -/
theorem rowAt_utc {tbl : List Row} (hwf : WF tbl = true) (tol : Rat) (j : JD) (i : Nat) (hi : i < tbl.length)
    (h1 : tbl[i].start ≤ j.inst + tol) (h2 : j.inst + tol < tbl[i].stop) :
    rowAt tbl (startedUtc tbl tol j) = tbl[i] := by
  simp only [WF, Bool.and_eq_true] at hwf
  obtain ⟨⟨⟨hasc, _⟩, hcont⟩, _⟩ := hwf
  have hc : startedUtc tbl tol j = i + 1 := by
    rw [startedUtc_eq]
    apply countP_ascending _ hasc _ i (by simpa using hi)
    · simpa using h1
    · intro h'
      have h'' : i + 1 < tbl.length := by simpa using h'
      have := contiguous_next hcont i h''
      simp only [List.getElem_map]
      rw [← this]; exact h2
  rw [hc]
  simp [rowAt, List.getD, hi]

/-- The TAI-side lookup finds the row whose TAI-side interval contains the TAI instant. -/
theorem rowAt_tai {tbl : List Row} (hwf : WF tbl = true) (tol : Rat) (j : JD) (i : Nat) (hi : i < tbl.length)
    (h1 : taiStart tbl[i] ≤ j.inst + tol) (h2 : ∀ h' : i + 1 < tbl.length, j.inst + tol < taiStart tbl[i + 1]) :
    rowAt tbl (startedTai tbl tol j) = tbl[i] := by
  simp only [WF, Bool.and_eq_true] at hwf
  obtain ⟨⟨⟨_, hasc⟩, _⟩, _⟩ := hwf
  have hc : startedTai tbl tol j = i + 1 := by
    rw [startedTai_eq]
    apply countP_ascending _ hasc _ i (by simpa using hi)
    · simpa using h1
    · intro h'
      have h'' : i + 1 < tbl.length := by simpa using h'
      simpa using h2 h''
  rw [hc]
  simp [rowAt, List.getD, hi]

theorem wf_row {tbl : List Row} (hwf : WF tbl = true) (i : Nat) (hi : i < tbl.length) :
    tbl[i].start < tbl[i].stop ∧ 0 ≤ tbl[i].rate := by
  simp only [WF, Bool.and_eq_true, List.all_eq_true, decide_eq_true_eq] at hwf
  exact hwf.2 _ (List.getElem_mem hi)

/-! ### The UTC ↔ TAI pair on instants -/

/-- TAI−UTC in days from row `r` at UTC instant `u` (a Julian date) -/
def Row.deltaDays (r : Row) (u : Rat) : Rat := r.deltaAt (u - mjd0) / secPerDay

theorem mjdOf_eq (j : JD) : mjdOf j = j.inst - mjd0 := by
  simp only [mjdOf, JD.inst]; ring

theorem utc2tai_inst_row (tbl : List Row) (tol : Rat) (j : JD) (r : Row)
    (hr : rowAt tbl (startedUtc tbl tol j) = r) : (utc2tai tbl tol j).inst = j.inst + r.deltaDays j.inst := by
  simp only [utc2tai, deltaUtc, JD.inst, hr, Row.deltaDays, mjdOf_eq]
  ring

theorem tai2utc_inst_row (tbl : List Row) (tol : Rat) (j : JD) (r : Row)
    (hr : rowAt tbl (startedTai tbl tol j) = r) :
    (tai2utc tbl tol j).inst =
      j.inst - ((r.offset + (j.inst - mjd0 - r.refMjd) * r.rate) / (1 + r.rate / secPerDay)) / secPerDay := by
  simp only [tai2utc, deltaTai, JD.inst, hr, mjdOf_eq]
  ring

theorem one_add_rate_pos {r : Row} (h : 0 ≤ r.rate) : 0 < 1 + r.rate / secPerDay := by
  have : 0 ≤ r.rate / secPerDay := div_nonneg h (by norm_num [secPerDay])
  linarith

/-- within one row the closed-form inverse undoes the forward conversion exactly -/
theorem inverse_in_row (r : Row) (h : 0 ≤ r.rate) (u : Rat) :
    (u + r.deltaDays u)
      - ((r.offset + ((u + r.deltaDays u) - mjd0 - r.refMjd) * r.rate) / (1 + r.rate / secPerDay)) / secPerDay = u := by
  have hp := one_add_rate_pos h
  have hne : (1 + r.rate / secPerDay) ≠ 0 := ne_of_gt hp
  simp only [Row.deltaDays, Row.deltaAt, secPerDay] at *
  field_simp
  ring

/-- and the forward conversion undoes the closed-form inverse exactly -/
theorem forward_in_row (r : Row) (h : 0 ≤ r.rate) (τ : Rat) :
    let u := τ - ((r.offset + (τ - mjd0 - r.refMjd) * r.rate) / (1 + r.rate / secPerDay)) / secPerDay
    u + r.deltaDays u = τ := by
  have hp := one_add_rate_pos h
  have hne : (1 + r.rate / secPerDay) ≠ 0 := ne_of_gt hp
  simp only [Row.deltaDays, Row.deltaAt, secPerDay] at *
  field_simp
  ring

/-- `u ↦ u + Δ_r(u)` is strictly increasing -/
theorem forward_mono (r : Row) (h : 0 ≤ r.rate) {u v : Rat} (huv : u < v) :
    u + r.deltaDays u < v + r.deltaDays v := by
  simp only [Row.deltaDays, Row.deltaAt, secPerDay]
  have : (r.offset + (u - mjd0 - r.refMjd) * r.rate) / 86400 ≤ (r.offset + (v - mjd0 - r.refMjd) * r.rate) / 86400 := by
    apply div_le_div_of_nonneg_right _ (by norm_num)
    nlinarith
  linarith

theorem forward_mono_le (r : Row) (h : 0 ≤ r.rate) {u v : Rat} (huv : u ≤ v) :
    u + r.deltaDays u ≤ v + r.deltaDays v := by
  rcases lt_or_eq_of_le huv with h' | h'
  · exact le_of_lt (forward_mono r h h')
  · rw [h']

theorem taiStart_eq (r : Row) : taiStart r = r.start + r.deltaDays r.start := by
  simp [taiStart, Row.startDelta, Row.deltaDays]

/-- the closed-form inverse of row `r`, as a function of the TAI instant -/
def Row.invDays (r : Row) (τ : Rat) : Rat :=
  τ - ((r.offset + (τ - mjd0 - r.refMjd) * r.rate) / (1 + r.rate / secPerDay)) / secPerDay

theorem inv_mono_le (r : Row) (h : 0 ≤ r.rate) {a b : Rat} (hab : a ≤ b) : r.invDays a ≤ r.invDays b := by
  by_contra hc
  rw [not_le] at hc
  have := forward_mono r h hc
  have e1 := forward_in_row r h a
  have e2 := forward_in_row r h b
  simp only [Row.invDays] at *
  linarith

theorem inv_mono_lt (r : Row) (h : 0 ≤ r.rate) {a b : Rat} (hab : a < b) : r.invDays a < r.invDays b := by
  by_contra hc
  rw [not_lt] at hc
  have := forward_mono_le r h hc
  have e1 := forward_in_row r h a
  have e2 := forward_in_row r h b
  simp only [Row.invDays] at *
  linarith

theorem inv_forward (r : Row) (h : 0 ≤ r.rate) (u : Rat) : r.invDays (u + r.deltaDays u) = u := by
  simpa [Row.invDays] using inverse_in_row r h u

theorem forward_inv (r : Row) (h : 0 ≤ r.rate) (τ : Rat) : r.invDays τ + r.deltaDays (r.invDays τ) = τ := by
  simpa [Row.invDays] using forward_in_row r h τ

end Midgard.TimeScale

namespace Midgard.TimeScale
open Midgard.TimeArith (JD Scale)

/-! ### Every hop acts on the instant only, and keeps `jd1` -/

theorem startedUtc_congr (tbl : List Row) (tol : Rat) {j k : JD} (h : j.inst = k.inst) :
    startedUtc tbl tol j = startedUtc tbl tol k := by rw [startedUtc_eq, startedUtc_eq, h]

theorem startedTai_congr (tbl : List Row) (tol : Rat) {j k : JD} (h : j.inst = k.inst) :
    startedTai tbl tol j = startedTai tbl tol k := by rw [startedTai_eq, startedTai_eq, h]

/-- instant-level action of a registered hop -/
def hopI (tbl : List Row) (c : Consts) (h : Hop) (x : Rat) : Rat :=
  match hopFn tbl c h with
  | some f => (f ⟨x, 0⟩).inst
  | none => x

theorem hop_inst (tbl : List Row) (c : Consts) (h : Hop) (f : JD → JD) (hf : hopFn tbl c h = some f) (j : JD) :
    (f j).jd1 = j.jd1 ∧ (f j).inst = hopI tbl c h j.inst := by
  have hj : (⟨j.inst, 0⟩ : JD).inst = j.inst := by simp [JD.inst]
  unfold hopI
  rw [hf]
  rcases h with ⟨a, b⟩
  cases a <;> cases b <;> simp only [hopFn, Option.some.injEq, reduceCtorEq] at hf <;> subst hf
  · -- utc → tai
    refine ⟨rfl, ?_⟩
    show (utc2tai tbl c.tol j).inst = (utc2tai tbl c.tol ⟨j.inst, 0⟩).inst
    rw [utc2tai_inst_row tbl c.tol j _ rfl, utc2tai_inst_row tbl c.tol ⟨j.inst, 0⟩ _ rfl, startedUtc_congr tbl c.tol hj, hj]
  · refine ⟨rfl, ?_⟩
    show (tai2utc tbl c.tol j).inst = (tai2utc tbl c.tol ⟨j.inst, 0⟩).inst
    rw [tai2utc_inst_row tbl c.tol j _ rfl, tai2utc_inst_row tbl c.tol ⟨j.inst, 0⟩ _ rfl, startedTai_congr tbl c.tol hj, hj]
  · exact ⟨rfl, by simp only [tai2gps, JD.inst]; ring⟩
  · exact ⟨rfl, by simp only [tai2tt, JD.inst]; ring⟩
  · exact ⟨rfl, by simp only [gps2tai, JD.inst]; ring⟩
  · exact ⟨rfl, by simp only [tt2tai, JD.inst]; ring⟩
  · exact ⟨rfl, by simp only [tt2tcg, tcgDt, JD.inst]; ring⟩
  · exact ⟨rfl, by simp only [tcg2tt, tcgDt, JD.inst]; ring⟩

/-- instant-level action of a route -/
def routeI (tbl : List Row) (c : Consts) : List Hop → Rat → Rat
  | [], x => x
  | h :: hs, x => routeI tbl c hs (hopI tbl c h x)

theorem foldlM_route (tbl : List Row) (c : Consts) (r : List Hop)
    (hall : ∀ h ∈ r, (hopFn tbl c h).isSome = true) (j : JD) :
    ∃ j', r.foldlM (fun acc h => (hopFn tbl c h).map (· acc)) j = some j' ∧ j'.jd1 = j.jd1
      ∧ j'.inst = routeI tbl c r j.inst := by
  induction r generalizing j with
  | nil => exact ⟨j, rfl, rfl, rfl⟩
  | cons h hs ih =>
    have hh := hall h (List.mem_cons_self)
    obtain ⟨f, hf⟩ := Option.isSome_iff_exists.mp hh
    obtain ⟨e1, e2⟩ := hop_inst tbl c h f hf j
    obtain ⟨j', h1, h2, h3⟩ := ih (fun g hg => hall g (List.mem_cons_of_mem _ hg)) (f j)
    refine ⟨j', ?_, by rw [h2, e1], ?_⟩
    · simp only [List.foldlM_cons, hf, Option.map_some, Option.bind_eq_bind, Option.bind_some]
      exact h1
    · rw [h3, e2]; rfl

/-! ### Which instants survive the UTC ↔ TAI round trip -/

/-- `u` is a UTC label inside the table that really occurred and is not within the rounding
tolerance `tol` before a boundary: it lies in row `i`, more than `tol` before its end, and its TAI
instant comes more than `tol` before the next row starts on the TAI side (the latter is false
only for the labels skipped by a *negative* step). -/
def UtcOK (tbl : List Row) (tol : Rat) (u : Rat) : Prop :=
  ∃ i, ∃ hi : i < tbl.length, tbl[i].start ≤ u ∧ u + tol < tbl[i].stop ∧
    ∀ h' : i + 1 < tbl.length, u + tbl[i].deltaDays u + tol < taiStart tbl[i + 1]

/-- `τ` is a TAI instant inside the table that does not fall inside an inserted step (leap
second) nor within `tol` before a boundary: it lies in row `i` on the TAI side and the UTC label
it denotes lies more than `tol` before that row's UTC end. -/
def TaiOK (tbl : List Row) (tol : Rat) (τ : Rat) : Prop :=
  ∃ i, ∃ hi : i < tbl.length, taiStart tbl[i] ≤ τ ∧ tbl[i].invDays τ + tol < tbl[i].stop ∧
    ∀ h' : i + 1 < tbl.length, τ + tol < taiStart tbl[i + 1]

theorem tai2utc_utc2tai_inst {tbl : List Row} (hwf : WF tbl = true) {tol : Rat} (htol : 0 ≤ tol) (j : JD)
    (hok : UtcOK tbl tol j.inst) : (tai2utc tbl tol (utc2tai tbl tol j)).inst = j.inst := by
  obtain ⟨i, hi, h1, h2, h3⟩ := hok
  obtain ⟨_, hrate⟩ := wf_row hwf i hi
  have hrow := rowAt_utc hwf tol j i hi (by linarith) h2
  have e1 := utc2tai_inst_row tbl tol j _ hrow
  have hrow2 : rowAt tbl (startedTai tbl tol (utc2tai tbl tol j)) = tbl[i] := by
    apply rowAt_tai hwf tol _ i hi
    · rw [e1, taiStart_eq]
      have := forward_mono_le _ hrate h1
      linarith
    · intro h'; rw [e1]; exact h3 h'
  rw [tai2utc_inst_row tbl tol _ _ hrow2, e1]
  exact inverse_in_row _ hrate _

theorem utc2tai_tai2utc_inst {tbl : List Row} (hwf : WF tbl = true) {tol : Rat} (htol : 0 ≤ tol) (j : JD)
    (hok : TaiOK tbl tol j.inst) : (utc2tai tbl tol (tai2utc tbl tol j)).inst = j.inst := by
  obtain ⟨i, hi, h1, h2, h3⟩ := hok
  obtain ⟨_, hrate⟩ := wf_row hwf i hi
  have hrow := rowAt_tai hwf tol j i hi (by linarith) h3
  have e1 := tai2utc_inst_row tbl tol j _ hrow
  have e1' : (tai2utc tbl tol j).inst = tbl[i].invDays j.inst := by rw [e1]; rfl
  have hlo : tbl[i].start ≤ (tai2utc tbl tol j).inst := by
    rw [e1', ← inv_forward tbl[i] hrate tbl[i].start, ← taiStart_eq]
    exact inv_mono_le _ hrate h1
  have hrow2 := rowAt_utc hwf tol (tai2utc tbl tol j) i hi (by linarith) (by rw [e1']; exact h2)
  rw [utc2tai_inst_row tbl tol _ _ hrow2, e1']
  exact forward_inv _ hrate _

/-- a row followed by a non-negative step has only real labels -/
theorem utcOK_of_step_nonneg {tbl : List Row} (hwf : WF tbl = true) (tol : Rat) (i : Nat) (hi : i < tbl.length)
    (hstep : ∀ h' : i + 1 < tbl.length, tbl[i].stop + tbl[i].deltaDays tbl[i].stop ≤ taiStart tbl[i + 1])
    (u : Rat) (h1 : tbl[i].start ≤ u) (h2 : u + tol < tbl[i].stop) (h3 : 0 ≤ tol) : UtcOK tbl tol u := by
  refine ⟨i, hi, h1, h2, fun h' => lt_of_lt_of_le ?_ (hstep h')⟩
  have hr := (wf_row hwf i hi).2
  have hm := forward_mono_le tbl[i] hr (le_of_lt h2)
  -- (u + tol) + Δ(u + tol) ≥ u + Δ(u) + tol because Δ is non-decreasing
  have hd : tbl[i].deltaDays u ≤ tbl[i].deltaDays (u + tol) := by
    simp only [Row.deltaDays, Row.deltaAt, secPerDay]
    apply div_le_div_of_nonneg_right _ (by norm_num)
    nlinarith
  rcases lt_or_eq_of_le hm with hlt | heq
  · linarith
  · have := forward_mono tbl[i] hr h2; linarith

end Midgard.TimeScale
