/-
C09 — `Dataset.extend` of datasets of flat leaf fields, dataset level: content (`dsExtend_flat`) and preservation of
sharing (`dsExtend_flat_sharing`) under the semantic memo invariant.  Plan and open part: `DatasetExtendNOTES.md`.
-/
import Midgard.Proofs.DatasetExtendLoops
namespace Midgard.Dataset

/-- **the second loop** (`append_empty` of the fields only self has), leaf-only collections -/
theorem appendLoop_leaf (us : Units) (h0 : Heap) (n m : Nat) (W : Item → Prop) (sf other : List Field)
    (cx : LCtx us h0 n m W sf other) :
    ∀ (acc : List Field) (s : St) (acc' : List Field) (s' : St),
      appendLoop (onlyInSelf (names sf) (names other) m) m acc s = .ok (acc', s') →
      (∀ x ∈ acc, (x ∈ sf ∧ x.name ∉ names other) ∨ (x.name ∈ names other ∧ DoneLeaf us h0 n m W sf s x)) →
      MemoSem us h0 n m W s → s.conv = us.conv →
      names acc' = names acc ∧ (∀ x ∈ acc', DoneLeaf us h0 n m W sf s' x) ∧
        HeapExt s.heap s'.heap ∧ MemoSem us h0 n m W s' ∧ s'.conv = us.conv ∧ PersistW W s s'
  | [], s, acc', s', h, _, ms, hcv => by
    simp only [appendLoop, Except.ok.injEq, Prod.mk.injEq] at h
    obtain ⟨rfl, rfl⟩ := h
    exact ⟨rfl, by simp, HeapExt.refl _, ms, hcv, PersistW.refl _ _⟩
  | f :: fs, s, acc', s', h, hall, ms, hcv => by
    simp only [appendLoop] at h
    split at h
    · simp at h
    · rename_i f1 s1 hstep
      split at h
      · simp at h
      · rename_i fs1 s2 hrest
        simp only [Except.ok.injEq, Prod.mk.injEq] at h
        obtain ⟨rfl, rfl⟩ := h
        have key : f1.name = f.name ∧ DoneLeaf us h0 n m W sf s1 f1 ∧ HeapExt s.heap s1.heap ∧
            MemoSem us h0 n m W s1 ∧ s1.conv = us.conv ∧ PersistW W s s1 := by
          rcases hall f (by simp) with ⟨hfs, hno⟩ | ⟨hin, hd⟩
          · obtain ⟨nm, k, o, no, u, l, oa, rfl, hk, hoa, hoar, hnoo⟩ := cx.selfFlat f hfs
            have hp : onlyInSelf (names sf) (names other) m nm = true := by
              simp only [onlyInSelf, Bool.and_eq_true, Bool.not_eq_true', List.contains_iff_mem]
              refine ⟨List.mem_map_of_mem (f := Field.name) hfs, ?_⟩
              cases hc : (names other).contains nm with
              | false => rfl
              | true => exact absurd (List.contains_iff_mem.mp hc) hno
            simp only [Field.name, hp, if_true] at hstep
            obtain ⟨lp, e1, ms1, c1, pw⟩ := padField_flat_step us h0 n m W cx.hI cx.hC cx.hO false nm k hk o no u l
              s f1 s1 ms hcv (by simpa using cx.ws nm k o no u l hfs hno) oa hoa (by intro _; omega) m rfl hstep
            have hname : f1.name = nm := by obtain ⟨r, no', ex, h1, _⟩ := lp; rw [h1]; rfl
            refine ⟨hname, ⟨_, nm, k, u, l, by simpa using cx.ws nm k o no u l hfs hno, lp, ?_⟩, e1, ms1, c1, pw⟩
            intro nm' k' o' no' u' l' hin' hnm
            have : Field.leaf nm' k' o' no' u' l' = Field.leaf nm k o no u l :=
              leaf_name_unique cx.nodupS hin' hfs (by show nm' = nm; rw [hnm, hname])
            cases this
            simp [Item.objs]
          · have hp : onlyInSelf (names sf) (names other) m f.name = false := by
              simp only [onlyInSelf, Bool.and_eq_false_iff, Bool.not_eq_false']
              exact Or.inr (List.contains_iff_mem.mpr hin)
            simp only [hp, Bool.false_eq_true, if_false, Except.ok.injEq, Prod.mk.injEq] at hstep
            obtain ⟨rfl, rfl⟩ := hstep
            exact ⟨rfl, hd, HeapExt.refl _, ms, hcv, PersistW.refl _ _⟩
        obtain ⟨hname, hd1, e1, ms1, c1, pw1⟩ := key
        obtain ⟨hn2, hd2, e2, ms2, c2, pw2⟩ := appendLoop_leaf us h0 n m W sf other cx fs s1 fs1 s2 hrest
          (fun x hx => by
            rcases hall x (List.mem_cons_of_mem _ hx) with hh | ⟨hh, hd⟩
            · exact Or.inl hh
            · exact Or.inr ⟨hh, hd.mono e1 pw1⟩) ms1 c1
        refine ⟨by simp [names, hname] at hn2 ⊢; exact hn2, ?_, e1.trans e2, ms2, c2, pw1.trans pw2⟩
        intro x hx
        rcases List.mem_cons.mp hx with rfl | hx
        · exact hd1.mono e2 pw2
        · exact hd2 x hx
theorem names_sub_setField (acc : List Field) (f : Field) (x : String) (hx : x ∈ names acc) : x ∈ names (setField acc f) := by
  rw [names_setField]; split
  · exact hx
  · exact List.mem_append_left _ hx

theorem loop1_names_sub (us : Units) (sk : List String) (n : Nat) : ∀ (gs acc : List Field) (s : St) (acc' : List Field) (s' : St),
    extendField.loop1 us sk n acc gs s = .ok (acc', s') → ∀ x ∈ names acc, x ∈ names acc'
  | [], acc, s, acc', s', h, x, hx => by
    simp only [extendField.loop1, Except.ok.injEq, Prod.mk.injEq] at h
    obtain ⟨rfl, rfl⟩ := h; exact hx
  | g :: gs, acc, s, acc', s', h, x, hx => by
    simp only [extendField.loop1] at h
    split at h
    · simp at h
    · exact loop1_names_sub us sk n gs _ _ acc' s' h x (names_sub_setField acc _ x hx)

/-- the units of work of two leaf-only collections -/
def itemsOf (sf other : List Field) (it : Item) : Prop :=
  (∃ nm k o no u l nm2 o2 no2 u2 l2, Field.leaf nm k o no u l ∈ sf ∧ Field.leaf nm2 k o2 no2 u2 l2 ∈ other ∧ nm = nm2 ∧
    it = .both k o u o2 u2) ∨
  (∃ nm k o no u l, Field.leaf nm k o no u l ∈ sf ∧ nm ∉ names other ∧ it = .selfOnly k o) ∨
  (∃ nm k o no u l, Field.leaf nm k o no u l ∈ other ∧ nm ∉ names sf ∧ it = .otherOnly k o)

/-- **`Dataset.extend` of two datasets of flat leaf fields (bool, float, text, sigma, time, time delta; self not empty),
dataset level**: under `Consistent` and `ObjsAgree` of the units of work (no array under a name the other lacks and
under a name it has; common names share arrays alike; shared sigma arrays with equal units) every field of the result
holds exactly what the table demands of its unit of work (`DoneLeaf`: rows and scale/format of `Item.exp`, registered in
the final memo), every name of self is still there, and the final memo satisfies the invariant -/
theorem dsExtend_flat (us : Units) (h : Heap) (d e : DS) (h' : Heap) (d' : DS)
    (hok : dsExtend us h d e = .ok (h', d'))
    (hn : d.numObs ≠ 0)
    (hS : ∀ f ∈ d.fields, FlatLeaf h d.numObs f) (hE : ∀ g ∈ e.fields, FlatLeaf h e.numObs g)
    (hkS : ∀ f ∈ d.fields, KindsOK h f) (hkE : ∀ g ∈ e.fields, KindsOK h g)
    (ndS : (names d.fields).Nodup) (ndE : (names e.fields).Nodup)
    (hC : Consistent us h d.numObs e.numObs (itemsOf d.fields e.fields))
    (hO : ObjsAgree (itemsOf d.fields e.fields)) :
    ∃ s', s'.heap = h' ∧ MemoSem us h d.numObs e.numObs (itemsOf d.fields e.fields) s' ∧
      (∀ x ∈ d'.fields, DoneLeaf us h d.numObs e.numObs (itemsOf d.fields e.fields) d.fields s' x) ∧
      (∀ x ∈ names d.fields, x ∈ names d'.fields) ∧ d'.numObs = d.numObs + e.numObs ∧
      Items h (itemsOf d.fields e.fields) := by
  have kindOf : ∀ fs : List Field, (∀ f ∈ fs, KindsOK h f) → ∀ nm k o no u l, Field.leaf nm k o no u l ∈ fs →
      ∃ ob, h[o]? = some ob ∧ ob.kind = k := by
    intro fs hk nm k o no u l hin
    have := hk _ hin
    simpa [KindsOK] using this
  have cx : LCtx us h d.numObs e.numObs (itemsOf d.fields e.fields) d.fields e.fields := by
    refine ⟨⟨?_⟩, hC, hO, hn, hS, hE, ndS, ndE, ?_, ?_, ?_⟩
    · intro it hit o ho
      rcases hit with ⟨nm, k, a, no, u, l, nm2, b, no2, u2, l2, h1, h2, _, rfl⟩ | ⟨nm, k, a, no, u, l, h1, _, rfl⟩ |
        ⟨nm, k, b, no, u, l, h1, _, rfl⟩
      · have ha := kindOf _ hkS _ _ _ _ _ _ h1
        have hb := kindOf _ hkE _ _ _ _ _ _ h2
        simp only [Item.objs] at ho
        split at ho
        · simp only [List.mem_cons, List.not_mem_nil, or_false] at ho; subst ho; exact ha
        · simp only [List.mem_cons, List.not_mem_nil, or_false] at ho
          rcases ho with rfl | rfl
          · exact ha
          · exact hb
      · simp only [Item.objs, List.mem_cons, List.not_mem_nil, or_false] at ho; subst ho
        exact kindOf _ hkS _ _ _ _ _ _ h1
      · simp only [Item.objs, List.mem_cons, List.not_mem_nil, or_false] at ho; subst ho
        exact kindOf _ hkE _ _ _ _ _ _ h1
    · intro nm k o no u l nm2 o2 no2 u2 l2 h1 h2 h3
      exact Or.inl ⟨nm, k, o, no, u, l, nm2, o2, no2, u2, l2, h1, h2, h3, rfl⟩
    · intro nm k o no u l h1 h2
      exact Or.inr (Or.inl ⟨nm, k, o, no, u, l, h1, h2, rfl⟩)
    · intro nm k o no u l h1 h2
      exact Or.inr (Or.inr ⟨nm, k, o, no, u, l, h1, h2, rfl⟩)
  simp only [dsExtend] at hok
  split at hok
  · simp at hok
  · rename_i fs' s2 hfin
    simp only [Except.ok.injEq, Prod.mk.injEq] at hok
    obtain ⟨rfl, rfl⟩ := hok
    simp only [extendFields, extendFinish] at hfin
    split at hfin
    · simp at hfin
    · rename_i acc1 s1 hloop
      have ms0 : MemoSem us h d.numObs e.numObs (itemsOf d.fields e.fields) { heap := h, conv := us.conv } :=
        ⟨by intro k v hh; simp at hh, HeapExt.refl _, by intro it _ _ o _ v hh; simp [St.find] at hh,
         by intro it _ _ o _ o' _ v v' hh; simp [St.find] at hh⟩
      have li0 : LInv us h d.numObs e.numObs (itemsOf d.fields e.fields) d.fields (fun _ => False) d.fields
          { heap := h, conv := us.conv } := ⟨ndS, fun f hf _ => hf, fun x hx => Or.inl ⟨hx, fun hc => hc⟩⟩
      obtain ⟨done', li1, hiff, e1, ms1, c1, pw1⟩ := loop1_leaf us h d.numObs e.numObs _ d.fields e.fields cx e.fields
        (fun _ => False) d.fields _ acc1 s1 hloop (fun g hg => hg) ndE (fun g _ hc => hc) ms0 rfl li0
      obtain ⟨hnames, hall, e2, ms2, c2, pw2⟩ := appendLoop_leaf us h d.numObs e.numObs _ d.fields e.fields cx acc1 s1 fs' s2 hfin
        (fun x hx => by
          rcases li1.each x hx with ⟨h1, h2⟩ | ⟨h1, h2⟩
          · exact Or.inl ⟨h1, fun hc => h2 ((hiff _).mpr (Or.inr hc))⟩
          · rcases (hiff _).mp h1 with hc | hc
            · exact absurd hc id
            · exact Or.inr ⟨hc, h2⟩) ms1 c1
      refine ⟨s2, rfl, ms2, hall, ?_, rfl, cx.hI⟩
      intro x hx
      rw [hnames]
      exact loop1_names_sub us _ _ e.fields d.fields _ acc1 s1 hloop x hx

/-- **`extend_keeps_sharing`, flat leaf datasets**: two fields of self that hold ONE array (of a kind whose `insert`
uses the memo) hold ONE array after `Dataset.extend` -/
theorem dsExtend_flat_sharing (us : Units) (h : Heap) (d e : DS) (h' : Heap) (d' : DS)
    (hok : dsExtend us h d e = .ok (h', d'))
    (hn : d.numObs ≠ 0)
    (hS : ∀ f ∈ d.fields, FlatLeaf h d.numObs f) (hE : ∀ g ∈ e.fields, FlatLeaf h e.numObs g)
    (hkS : ∀ f ∈ d.fields, KindsOK h f) (hkE : ∀ g ∈ e.fields, KindsOK h g)
    (ndS : (names d.fields).Nodup) (ndE : (names e.fields).Nodup)
    (hC : Consistent us h d.numObs e.numObs (itemsOf d.fields e.fields))
    (hO : ObjsAgree (itemsOf d.fields e.fields))
    (nm1 nm2 : String) (k1 k2 : Kind) (o no1 no2 : Nat) (u1 u2 : Option (List String)) (l1 l2 : Nat)
    (h1 : Field.leaf nm1 k1 o no1 u1 l1 ∈ d.fields) (h2 : Field.leaf nm2 k2 o no2 u2 l2 ∈ d.fields)
    (hnp : k1.isPlain = false) :
    ∃ x1 x2 r no1' no2' k1' k2' u1' u2' l1' l2', x1 ∈ d'.fields ∧ x2 ∈ d'.fields ∧
      x1 = .leaf nm1 k1' r no1' u1' l1' ∧ x2 = .leaf nm2 k2' r no2' u2' l2' := by
  obtain ⟨s', _, ms, hall, hsub, _, hI⟩ := dsExtend_flat us h d e h' d' hok hn hS hE hkS hkE ndS ndE hC hO
  obtain ⟨ob, hob, hk1⟩ : ∃ ob, h[o]? = some ob ∧ ob.kind = k1 := by
    have := hkS _ h1; simpa [KindsOK] using this
  have getx : ∀ nm k no u l, Field.leaf nm k o no u l ∈ d.fields → ∃ x ∈ d'.fields, x.name = nm := by
    intro nm k no u l hin
    have := hsub nm (List.mem_map_of_mem (f := Field.name) hin)
    obtain ⟨x, hx, hxn⟩ := List.mem_map.mp this
    exact ⟨x, hx, hxn⟩
  obtain ⟨x1, hx1, hn1⟩ := getx _ _ _ _ _ h1
  obtain ⟨x2, hx2, hn2⟩ := getx _ _ _ _ _ h2
  obtain ⟨it1, a1, b1, c1, d1, hw1, lp1, src1⟩ := hall x1 hx1
  obtain ⟨it2, a2, b2, c2, d2, hw2, lp2, src2⟩ := hall x2 hx2
  have ho1 : o ∈ it1.objs := src1 _ _ _ _ _ _ h1 hn1.symm
  have ho2 : o ∈ it2.objs := src2 _ _ _ _ _ _ h2 hn2.symm
  have kind_it : ∀ it, itemsOf d.fields e.fields it → o ∈ it.objs → it.kind.isPlain = false := by
    intro it hw ho
    obtain ⟨ob', hob', hk'⟩ := hI.lt it hw o ho
    rw [hob] at hob'; cases hob'
    rw [← hk', hk1]; exact hnp
  have np1 := kind_it it1 hw1 ho1
  have np2 := kind_it it2 hw2 ho2
  obtain ⟨r1, n1, e1, hx1e, _, _, _, ow1⟩ := lp1
  obtain ⟨r2, n2, e2, hx2e, _, _, _, ow2⟩ := lp2
  obtain ⟨p1, hp1, hf1⟩ := ow1 np1
  obtain ⟨p2, hp2, hf2⟩ := ow2 np2
  have hp2' : p2 ∈ it1.objs := ((hO it1 it2 hw1 hw2 np1 np2 ⟨o, ho1, ho2⟩) p2).mpr hp2
  have hr : r1 = r2 := ms.agree it1 hw1 np1 p1 hp1 p2 hp2' r1 r2 hf1 hf2
  subst hr
  subst hx1e; subst hx2e
  simp only [Field.name] at hn1 hn2
  subst hn1; subst hn2
  exact ⟨_, _, r1, n1, n2, b1, b2, c1, c2, d1, d2, hx1, hx2, rfl, rfl⟩
end Midgard.Dataset
