/-
General text lemmas used by the C11 file-level proof (`rstrip` of a line that starts with a visible character,
line splitting of a rendered text, "no line break" bookkeeping).  Core Lean only; independent of the other
properties' files.
-/
import Midgard.Core.Text
import Midgard.Proofs.Text

namespace Midgard.Spec.Rinex3ObsFile
open Midgard.Text

/-- a line that starts with a visible character keeps it under `rstrip` -/
theorem rstrip_cons {c : Char} (s : Str) (h : isSpace c = false) : rstrip (c :: s) = c :: rstrip s := by
  unfold rstrip
  rw [List.reverse_cons, List.dropWhile_append]
  by_cases he : (List.dropWhile isSpace s.reverse).isEmpty = true
  · have : List.dropWhile isSpace s.reverse = [] := List.isEmpty_iff.mp he
    simp [this, h]
  · simp [he]

/-- every line followed by a newline -/
def joinNl : List Str → Str
  | [] => []
  | l :: ls => l ++ '\n' :: joinNl ls

theorem splitOnAux_line (sep : Char) (l : Str) (hl : ∀ c ∈ l, c ≠ sep) (rest cur : Str) :
    splitOnAux sep (l ++ sep :: rest) cur = (cur.reverse ++ l) :: splitOnAux sep rest [] := by
  induction l generalizing cur with
  | nil => simp [splitOnAux]
  | cons c l ih =>
    have hc : c ≠ sep := hl c (by simp)
    simp only [List.cons_append, splitOnAux, hc, if_false]
    rw [ih (fun x hx => hl x (by simp [hx]))]
    simp

/-- **line splitting**: a text made of lines without line breaks, each closed by a newline, splits
into exactly those lines (plus the empty piece after the last newline) -/
theorem splitOn_joinNl (ls : List Str) (h : ∀ l ∈ ls, ∀ c ∈ l, c ≠ '\n') :
    splitOn '\n' (joinNl ls) = ls ++ [[]] := by
  unfold splitOn
  induction ls with
  | nil => rfl
  | cons l ls ih =>
    simp only [joinNl]
    rw [splitOnAux_line '\n' l (h l (by simp))]
    rw [ih (fun x hx => h x (by simp [hx]))]
    simp

def NoNl (s : Str) : Prop := ∀ c ∈ s, c ≠ '\n'

theorem nonl_nil : NoNl [] := fun _ h => by simp at h

theorem nonl_append {a b : Str} (ha : NoNl a) (hb : NoNl b) : NoNl (a ++ b) := by
  intro c hc
  rcases List.mem_append.mp hc with h | h
  · exact ha c h
  · exact hb c h

theorem nonl_cons {c : Char} {s : Str} (hc : c ≠ '\n') (hs : NoNl s) : NoNl (c :: s) := by
  intro d hd
  rcases List.mem_cons.mp hd with h | h
  · exact h ▸ hc
  · exact hs d h

theorem nonl_blanks (n : Nat) : NoNl (blanks n) := by
  intro c hc
  have : c = ' ' := by simpa [blanks] using (List.mem_replicate.mp hc).2
  rw [this]; decide

theorem nonl_rstrip {s : Str} (h : NoNl s) : NoNl (rstrip s) := by
  obtain ⟨ws, hs, _⟩ := rstrip_decomp s
  intro c hc
  exact h c (by rw [hs]; exact List.mem_append_left _ hc)

end Midgard.Spec.Rinex3ObsFile
