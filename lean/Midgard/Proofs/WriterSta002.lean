/-
C17 — parser column tables against writer lines, table-driven (`columnReads` + `columns_roundtrip`), and Bernese STA TYPE 002
through the column tables of parsers/bernese_sta_v52.py and parsers/bernese_sta.py (helper of Props/C17).
-/
import Midgard.Proofs.WriterColumns

namespace Midgard.WriterFiles
open Midgard.Text Midgard.Decimal Midgard.FixedCol Midgard.WriterCells Midgard.Writers
open Midgard.Generated.WriterLayouts

/-- table check for one parser column: the cell is the `i`-th cell of the line, pads its text on the right iff `right`,
its text has at most `m` characters -/
def columnReads (cells : List Cell) (i : Nat) (right : Bool) (m a b : Nat) : Bool :=
  match cells.drop i with
  | .fld _ sp :: post =>
    let pre := cells.take i
    let s := nominalWidth pre
    blankFrom a 0 pre && blankUpTo b (s + sp.width) post &&
      (if right then decide (a + m ≤ s + sp.width) && decide (s + sp.width ≤ b) else decide (a ≤ s) && decide (s + m ≤ b))
  | _ => false

theorem columnReads_sem (cells : List Cell) (i : Nat) (right : Bool) (m a b : Nat)
    (h : columnReads cells i right m a b = true) (vals : List Value) (line : Str)
    (hfit : allFit (cells.take (i + 1)) vals = true) (hr : renderCells cells vals = some line) :
    ∃ n sp v rest, cells[i]? = some (.fld n sp) ∧ vals.drop (fieldCount (cells.take i)) = v :: rest ∧
      (Clean (v.text sp) = true → padsRight sp v = right → (v.text sp).length ≤ m →
        strip (Text.slice a b line) = v.text sp) := by
  unfold columnReads at h
  cases hd : cells.drop i with
  | nil => simp [hd] at h
  | cons c post =>
    cases c with
    | lit t => simp [hd] at h
    | other n => simp [hd] at h
    | fld n sp =>
      simp only [hd, Bool.and_eq_true] at h
      obtain ⟨⟨hpre, hpost⟩, hcond⟩ := h
      have hsplit : cells = cells.take i ++ .fld n sp :: post := by rw [← hd, List.take_append_drop]
      have hi : cells[i]? = some (.fld n sp) := by
        have := List.getElem?_drop (xs := cells) (i := i) (j := 0)
        rw [hd] at this; simpa using this.symm
      have htake : cells.take (i + 1) = cells.take i ++ [.fld n sp] := by
        rw [List.take_add_one, hi]; rfl
      rw [htake] at hfit
      rw [hsplit] at hr
      obtain ⟨v, rest, hv, hread⟩ := column_reads_cell (cells.take i) post n sp vals line a b hfit hr hpre hpost
      refine ⟨n, sp, v, rest, hi, hv, ?_⟩
      intro hc hp hm
      apply hread hc
      rw [hp]
      cases right
      · simp only [Bool.false_eq_true, if_false, Bool.and_eq_true, decide_eq_true_eq] at hcond ⊢
        exact ⟨hcond.1, by omega⟩
      · simp only [if_true, Bool.and_eq_true, decide_eq_true_eq] at hcond ⊢
        exact ⟨by omega, hcond.2⟩

/-- the last, open-ended column (`line[a:]`): the zero-width cell at the end of the line and what follows it -/
theorem open_column_reads (pre : List Cell) (vals : List Value) (P R Q : Str) (a : Nat)
    (hfit : allFit pre vals = true) (hP : renderCells pre vals = some P) (hpre : blankFrom a 0 pre = true)
    (ha : a ≤ nominalWidth pre) (hR : Clean R = true) (hQ : isBlank Q = true) :
    strip (sliceFrom a (rstrip (P ++ R ++ Q))) = R := by
  have hPb := blankFrom_sem a pre 0 vals P hpre hfit hP
  simp only [Nat.sub_zero] at hPb
  have hlen := render_length pre vals P hfit hP
  obtain ⟨ws, hws, hb⟩ := rstrip_decomp (P ++ R ++ Q)
  have h1 : strip (sliceFrom a (rstrip (P ++ R ++ Q))) = strip (sliceFrom a (P ++ R ++ Q)) := by
    conv => rhs; rw [hws]
    unfold sliceFrom
    rw [List.drop_append, strip_append_isBlank (isBlank_drop hb _)]
  rw [h1]
  unfold sliceFrom
  rw [List.append_assoc, List.drop_append]
  have h0 : a - P.length = 0 := by omega
  rw [h0, List.drop_zero, ← List.append_assoc, strip_append_isBlank hQ, strip_blank_append hPb, strip_of_clean hR]

abbrev ColEntry := Nat × Bool × Nat × Nat × Nat   -- cell index, pads right, max text length, column start, column stop

theorem allFit_take (cells : List Cell) (vals : List Value) (j k : Nat) (hjk : j ≤ k) (h : allFit (cells.take k) vals = true) :
    allFit (cells.take j) vals = true := by
  have e : cells.take k = cells.take j ++ (cells.take k).drop j := by
    conv => lhs; rw [← List.take_append_drop j (cells.take k)]
    rw [List.take_take, Nat.min_eq_left hjk]
  rw [e] at h
  exact (allFit_append _ _ vals h).1

/-- **all columns of a parser table at once**: when the table check holds for every entry, every column of a written line
(the parser looks at `line.rstrip()`) is the text of its cell -/
theorem columns_roundtrip (cells : List Cell) (entries : List ColEntry)
    (hall : (entries.all fun e => columnReads cells e.1 e.2.1 e.2.2.1 e.2.2.2.1 e.2.2.2.2) = true)
    (k : Nat) (hk : ∀ e ∈ entries, e.1 < k) (vals : List Value) (line : Str)
    (hfit : allFit (cells.take k) vals = true) (hr : renderCells cells vals = some line) :
    ∀ e ∈ entries, ∃ n sp v rest, cells[e.1]? = some (.fld n sp) ∧
      vals.drop (fieldCount (cells.take e.1)) = v :: rest ∧
      (Clean (v.text sp) = true → padsRight sp v = e.2.1 → (v.text sp).length ≤ e.2.2.1 →
        strip (Text.slice e.2.2.2.1 e.2.2.2.2 (rstrip line)) = v.text sp) := by
  intro e he
  have h := List.all_eq_true.mp hall e he
  obtain ⟨n, sp, v, rest, h1, h2, h3⟩ := columnReads_sem cells e.1 e.2.1 e.2.2.1 e.2.2.2.1 e.2.2.2.2 h vals line
    (allFit_take cells vals (e.1 + 1) k (hk e he) hfit) hr
  refine ⟨n, sp, v, rest, h1, h2, ?_⟩
  intro a b c
  rw [strip_slice_rstrip]
  exact h3 a b c

/-! ### Bernese STA, TYPE 002 -/

/-- parser field ↦ writer cell and the greatest text length the parser's column still contains -/
def sta002Map : List (String × String × Nat) :=
  [("station", "station", 4), ("domes", "domes", 9), ("flag", "flag", 10), ("date_from", "date_from", 20),
   ("date_to", "date_to", 20), ("receiver_type", "rcv", 20), ("receiver_serial_number", "rcv_serial", 21),
   ("receiver_serial_number_short", "rcv_serial_short", 7), ("antenna_type", "ant", 15), ("radome_type", "radome", 4),
   ("antenna_serial_number", "ant_serial", 21), ("antenna_serial_number_short", "ant_serial_short", 7),
   ("eccentricity_north", "north", 9), ("eccentricity_east", "east", 9), ("eccentricity_up", "up", 9),
   ("description", "description", 22)]

def cellIndex (cells : List Cell) (name : String) : Nat :=
  cells.findIdx fun c => match c with | .fld n _ => n == name | _ => false

def colEntry (cells : List Cell) (fields : List (String × Nat × Nat)) (m : String × String × Nat) : ColEntry :=
  let i := cellIndex cells m.2.1
  let right := match cells[i]? with | some (.fld _ sp) => sp.align == some Align.right | _ => false
  let ab := (fields.lookup m.1).getD (0, 0)
  (i, right, m.2.2, ab.1, ab.2)

/-- the TYPE 002 line of writers/bernese_sta.py -/
def sta002Row : List Cell := rowWith "bernese_sta" "rcv_serial"

theorem sta_v52_table : ((sta002Map.map (colEntry sta002Row staV52ParserFields)).all fun e =>
    columnReads sta002Row e.1 e.2.1 e.2.2.1 e.2.2.2.1 e.2.2.2.2) = true ∧
    (∀ e ∈ sta002Map.map (colEntry sta002Row staV52ParserFields), e.1 < 22) := by decide +kernel

theorem sta_54_table : (((sta002Map.take 15).map (colEntry sta002Row staParserFields)).all fun e =>
    columnReads sta002Row e.1 e.2.1 e.2.2.1 e.2.2.2.1 e.2.2.2.2) = true ∧
    (∀ e ∈ (sta002Map.take 15).map (colEntry sta002Row staParserFields), e.1 < 22) := by decide +kernel

/-- the map names the cells it means; the remark cell is the last but one cell, zero wide, left-aligned, followed by the
newline only, and the columns from 226 / 245 on contain nothing else -/
theorem sta_002_names : (sta002Map.all fun m => match sta002Row[cellIndex sta002Row m.2.1]? with
      | some (.fld n _) => n == m.2.1 | _ => false) = true ∧
    sta002Row.drop 22 = [.fld "remark" ⟨none, 0, none, .any⟩, .lit "\n"] ∧
    blankFrom 226 0 (sta002Row.take 22) = true ∧ 226 ≤ nominalWidth (sta002Row.take 22) ∧
    fieldCount (sta002Row.take 22) = 16 := by decide +kernel

theorem sta_002_columns_aux (fields : List (String × Nat × Nat)) (map : List (String × String × Nat))
    (htab : ((map.map (colEntry sta002Row fields)).all fun e =>
      columnReads sta002Row e.1 e.2.1 e.2.2.1 e.2.2.2.1 e.2.2.2.2) = true ∧
      (∀ e ∈ map.map (colEntry sta002Row fields), e.1 < 22))
    (vals : List Value) (line : Str) (hfit : allFit (sta002Row.take 22) vals = true)
    (hr : renderCells sta002Row vals = some line) :
    ∀ m ∈ map, ∃ n sp v rest, sta002Row[cellIndex sta002Row m.2.1]? = some (.fld n sp) ∧
      vals.drop (fieldCount (sta002Row.take (cellIndex sta002Row m.2.1))) = v :: rest ∧
      (Clean (v.text sp) = true → padsRight sp v = (sp.align == some Align.right) → (v.text sp).length ≤ m.2.2 →
        strip (Text.slice ((fields.lookup m.1).getD (0, 0)).1 ((fields.lookup m.1).getD (0, 0)).2 (rstrip line)) = v.text sp) := by
  intro m hm
  have he : colEntry sta002Row fields m ∈ map.map (colEntry sta002Row fields) := List.mem_map.mpr ⟨m, hm, rfl⟩
  obtain ⟨n, sp, v, rest, h1, h2, h3⟩ := columns_roundtrip sta002Row _ htab.1 22 htab.2 vals line hfit hr _ he
  refine ⟨n, sp, v, rest, h1, h2, ?_⟩
  intro a b c
  have hright : (colEntry sta002Row fields m).2.1 = (sp.align == some Align.right) := by
    simp only [colEntry]
    simp only [colEntry] at h1
    rw [h1]
  exact h3 a (by rw [hright]; exact b) c

/-- the open-ended `remark` column of the Bernese 5.2 parser -/
theorem sta_002_remark_aux (vals : List Value) (line : Str) (hfit : allFit (sta002Row.take 22) vals = true)
    (hr : renderCells sta002Row vals = some line) :
    ∃ v rest, vals.drop 16 = v :: rest ∧
      (Clean (v.text ⟨none, 0, none, .any⟩) = true → v.okFor ⟨none, 0, none, .any⟩ = true → padsRight ⟨none, 0, none, .any⟩ v = false →
        strip (sliceFrom 226 (rstrip line)) = v.text ⟨none, 0, none, .any⟩) := by
  obtain ⟨_, hdrop, hblank, hge, hcount⟩ := sta_002_names
  have hsplit : sta002Row = sta002Row.take 22 ++ [.fld "remark" ⟨none, 0, none, .any⟩, .lit "\n"] := by
    rw [← hdrop, List.take_append_drop]
  rw [hsplit] at hr
  obtain ⟨P, R, hP, hR, rfl⟩ := render_append_some _ _ vals line hr
  rw [hcount] at hR
  cases hd : vals.drop 16 with
  | nil => rw [hd] at hR; simp [renderCells] at hR
  | cons v rest =>
    refine ⟨v, rest, rfl, ?_⟩
    intro hc hok hleft
    rw [hd] at hR
    simp only [renderCells, hok, if_true, Option.map_some, Option.some.injEq] at hR
    subst hR
    have hfv : fmtValue ⟨none, 0, none, .any⟩ v = v.text ⟨none, 0, none, .any⟩ := by
      unfold fmtValue; unfold padsRight at hleft
      have : (⟨none, 0, none, .any⟩ : Spec).align.getD v.defaultAlign = Align.left := by
        cases h : (⟨none, 0, none, .any⟩ : Spec).align.getD v.defaultAlign
        · rfl
        · rw [h] at hleft; simp at hleft
      rw [this]; simp [pad, ljust, blanks]
    rw [hfv]
    have := open_column_reads (sta002Row.take 22) vals P (v.text ⟨none, 0, none, .any⟩) "\n".toList 226 hfit hP hblank hge hc (by decide)
    simpa [List.append_assoc] using this

end Midgard.WriterFiles
