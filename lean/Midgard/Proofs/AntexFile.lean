/-
C15 file level: the parser model on a rendered well-formed ANTEX file (`Spec/AntexFile.lean`) stores
exactly what the file says.  Line effects → frequency sections → antennas → file, through
`ChainParser.readData_group`.
-/
import Midgard.Spec.AntexFile
import Midgard.Proofs.AntexRecords
import Midgard.Proofs.Split

namespace Midgard.Antex.File
open Midgard.Text Midgard.FixedCol Midgard.ChainParser Midgard.Antex Midgard.Decimal Midgard.Antex.Records
open Midgard.Spec.Antex14 (RecSpec specs renderLabelled renderRow findKind findLabel)
open Midgard.Spec.AntexFile

/-! ### Labelled records the parser reads -/

theorem map_pair_zip {α β γ} (l : List α) (f : α → β) (g : α → γ) :
    l.map (fun a => (f a, g a)) = (l.map f).zip (l.map g) := by
  induction l with
  | nil => rfl
  | cons a l ih => simp [ih]

/-- a record of a kind the antenna-section parser reads: the registered handler is called with the cells -/
theorem corr_parsed_line (sp : RecSpec) (hsp : sp ∈ specs) (d : LabelDef)
    (hd : Midgard.Generated.AntexCols.records.find? (·.label == sp.label) = some d)
    (hfl : d.fields = sp.layout) (hop : d.openFields = []) (hst : d.strip = .whitespace)
    (cells : List Str) (hlen : cells.length = sp.layout.length) (hf : Fits sp.layout (sp.aligns.zip cells) = true)
    (n : Nat) (s : State) :
    parseLine corrParser (rstrip (renderLabelled sp cells)) n s =
      handle d.handler ((sp.layout.map (·.name)).zip cells) s := by
  unfold parseLine
  have h1 : corrParser.skipLine (rstrip (renderLabelled sp cells)) = false := rstrip_ne_nil_of_label sp hsp cells
  rw [h1]
  simp only [Bool.false_eq_true, if_false]
  have hrt := record_roundtrip sp hsp cells hlen hf
  have h2 : corrParser.label (rstrip (rstrip (renderLabelled sp cells))) n = sp.label := by
    rw [rstrip_idem]; exact hrt.2.2
  rw [h2]
  have h3 : corrParser.defs = Midgard.Generated.AntexCols.records := rfl
  rw [h3, hd]
  simp only
  have hv : d.values (rstrip (renderLabelled sp cells)) = (sp.layout.map (·.name)).zip cells := by
    unfold LabelDef.values
    rw [hop, hst, hfl]
    simp only [List.map_nil, List.append_nil, StripOpt.apply]
    have := map_pair_zip sp.layout (·.name) (fun f => FixedCol.slice f (rstrip (renderLabelled sp cells)))
    simp only [FixedCol.slice] at this hrt
    rw [this, hrt.1]
  rw [hv]
  rfl


/-- kinds the antenna-section parser reads, with the handler registered for them -/
def parsedKinds : List (String × String) :=
  [("TYP", "parse_section_string"), ("DAZI", "parse_section_float"), ("ZEN", "parse_section_float"),
   ("NFREQ", "parse_num_of_frequencies"), ("VFROM", "parse_valid_from"), ("VUNTIL", "parse_valid_until"),
   ("SOF", "parse_start_of_frequency"), ("NEU", "parse_section_float"), ("EOF", "save_correction")]

def parsedOk (kh : String × String) : Bool :=
  match findKind kh.1 with
  | some sp =>
    (match Midgard.Generated.AntexCols.records.find? (·.label == sp.label) with
     | some d => d.fields == sp.layout && d.openFields.isEmpty && d.strip == .whitespace && d.handler == kh.2
     | none => false)
  | none => false

theorem parsed_table : parsedKinds.all parsedOk = true := by decide +kernel

theorem findKind_mem {k : String} {sp : RecSpec} (h : findKind k = some sp) : sp ∈ specs :=
  List.mem_of_find?_eq_some h

theorem spec_eq {k : String} {sp : RecSpec} (h : findKind k = some sp) : spec k = sp := by
  simp [spec, h]

/-- the effect of a rendered record of a parsed kind -/
theorem rec_parsed (k h : String) (hmem : (k, h) ∈ parsedKinds) (cells : List Str)
    (hlen : cells.length = (spec k).layout.length) (hf : Fits (spec k).layout ((spec k).aligns.zip cells) = true)
    (n : Nat) (s : State) :
    parseLine corrParser (rstrip (rec k cells)) n s = handle h (((spec k).layout.map (·.name)).zip cells) s := by
  have hok := List.all_eq_true.mp parsed_table (k, h) hmem
  unfold parsedOk at hok
  simp only at hok
  cases hk : findKind k with
  | none => simp [hk] at hok
  | some sp =>
    simp only [hk] at hok
    cases hd : Midgard.Generated.AntexCols.records.find? (·.label == sp.label) with
    | none => simp [hd] at hok
    | some d =>
      simp only [hd, Bool.and_eq_true, beq_iff_eq, List.isEmpty_iff] at hok
      obtain ⟨⟨⟨hfl, hop⟩, hst⟩, hh⟩ := hok
      have hs := spec_eq hk
      unfold rec
      rw [hs] at hlen hf ⊢
      rw [corr_parsed_line sp (findKind_mem hk) d hd hfl hop hst cells hlen hf n s, hh]

/-- a rendered record of a kind the parser does not read leaves the state alone -/
theorem rec_ignored (k : String) (sp : RecSpec) (hk : findKind k = some sp)
    (hun : Midgard.Generated.AntexCols.records.find? (·.label == sp.label) = none) (cells : List Str)
    (hlen : cells.length = sp.layout.length) (hf : Fits sp.layout (sp.aligns.zip cells) = true)
    (n : Nat) (s : State) :
    parseLine corrParser (rstrip (rec k cells)) n s = .ok s := by
  unfold rec
  rw [spec_eq hk]
  exact comments_ignored sp (findKind_mem hk) cells hlen hf hun n s

/-! ### End markers of labelled records -/

theorem slice_label (sp : RecSpec) (hsp : sp ∈ specs) (cells : List Str)
    (hf : Fits sp.layout (sp.aligns.zip cells) = true) (w : Nat) :
    Text.slice 60 (60 + w) (rstrip (renderLabelled sp cells)) = sp.label.toList.take w := by
  have hok := List.all_eq_true.mp specs_ok sp hsp
  simp only [specOk, Bool.and_eq_true, decide_eq_true_eq, Bool.not_eq_eq_eq_not, Bool.not_true] at hok
  obtain ⟨⟨⟨⟨⟨hs, hw⟩, _⟩, hc⟩, hne⟩, _⟩ := hok
  have hne' : sp.label.toList ≠ [] := by
    intro h; rw [h] at hne; simp at hne
  unfold renderLabelled
  rw [labelled_rstrip _ _ _ hc hne']
  have hlen60 : (ljust 60 (renderA sp.layout (sp.aligns.zip cells))).length = 60 :=
    length_ljust (renderA_length_le hs hf hw)
  rw [slice_append_right (by omega)]
  simp [hlen60, Text.slice]

/-- within an antenna section only `END OF ANTENNA` ends the group -/
theorem corr_endMarker_rec (k : String) (sp : RecSpec) (hk : findKind k = some sp) (cells : List Str)
    (hf : Fits sp.layout (sp.aligns.zip cells) = true) (n : Nat) (nx : Str) :
    corrParser.endMarker (rstrip (rec k cells)) n nx = decide (sp.label.toList.take 14 = "END OF ANTENNA".toList) := by
  unfold rec
  rw [spec_eq hk]
  show decide (Text.slice 60 74 (rstrip (renderLabelled sp cells)) = "END OF ANTENNA".toList) = _
  rw [show (74 : Nat) = 60 + 14 from rfl, slice_label sp (findKind_mem hk) cells hf 14]


/-! ### Correction rows (`NOAZI` and azimuth rows): whitespace-split, no label -/

/-- a printed number as it may appear in a correction row: a token without letters or `#` -/
def NumText (t : Str) : Bool := Token t && t.all (fun c => !(isAlpha c || c == '#'))

def rowPads (first : Str) (vals : List Str) : List (Str × Str) :=
  (blanks (8 - first.length), first) :: vals.map (fun v => (blanks (8 - v.length), v))

theorem renderRow_padded (first : Str) (vals : List Str) : renderRow first vals = padded (rowPads first vals) := by
  unfold renderRow rowPads
  simp only [padded, rjust]
  congr 1
  induction vals with
  | nil => rfl
  | cons v vs ih => simp [padded, rjust, ih]

theorem rowPads_ok (first : Str) (vals : List Str) (hfirst : Token first = true)
    (hvals : ∀ v ∈ vals, Token v = true ∧ v.length ≤ 7) : PadsOk (rowPads first vals) = true := by
  unfold rowPads
  simp only [PadsOk, Bool.and_eq_true]
  refine ⟨⟨⟨isBlank_blanks _, hfirst⟩, ?_⟩, ?_⟩
  · rw [List.all_eq_true]
    intro x hx
    rw [List.mem_map] at hx
    obtain ⟨v, hv, rfl⟩ := hx
    have := (hvals v hv).2
    simp [blanks]; omega
  · induction vals with
    | nil => rfl
    | cons v vs ih =>
      have hv := hvals v (by simp)
      have hrest : ∀ w ∈ vs, Token w = true ∧ w.length ≤ 7 := fun w hw => hvals w (by simp [hw])
      simp only [List.map_cons, PadsOk, Bool.and_eq_true]
      refine ⟨⟨⟨isBlank_blanks _, hv.1⟩, ?_⟩, ih hrest⟩
      rw [List.all_eq_true]
      intro x hx
      rw [List.mem_map] at hx
      obtain ⟨w, hw, rfl⟩ := hx
      have := (hrest w hw).2
      simp [blanks]; omega

/-- a padded line with at least one token ends in a token -/
theorem padded_last (l : List (Str × Str)) (hne : l ≠ []) (hok : PadsOk l = true) :
    ∃ pre t, padded l = pre ++ t ∧ Clean t = true ∧ t ≠ [] := by
  induction l with
  | nil => exact absurd rfl hne
  | cons x xs ih =>
    obtain ⟨p, t⟩ := x
    simp only [PadsOk, Bool.and_eq_true] at hok
    cases xs with
    | nil =>
      have ht := hok.1.1.2
      have hne' : t ≠ [] := by intro h; subst h; simp [Token] at ht
      exact ⟨p, t, by simp [padded], token_clean ht, hne'⟩
    | cons z zs =>
      obtain ⟨pre, t', h1, h2, h3⟩ := ih (by simp) hok.2
      exact ⟨p ++ t ++ pre, t', by simp only [padded] at h1 ⊢; rw [h1]; simp [List.append_assoc], h2, h3⟩

/-- … so `rstrip` does not change it -/
theorem rstrip_padded (l : List (Str × Str)) (hne : l ≠ []) (hok : PadsOk l = true) : rstrip (padded l) = padded l := by
  obtain ⟨pre, t, h1, h2, h3⟩ := padded_last l hne hok
  rw [h1]
  exact rstrip_append_clean h2 h3


theorem mem_slice_drop {c : Char} {a b k : Nat} {l : Str} (h : c ∈ Text.slice a b l) (hk : k ≤ a) : c ∈ l.drop k := by
  unfold Text.slice at h
  have h1 : c ∈ l.drop a := by
    have : (List.take b l).drop a = (l.drop a).take (b - a) := by rw [List.drop_take]
    rw [this] at h
    exact List.mem_of_mem_take h
  have : l.drop a = (l.drop k).drop (a - k) := by rw [List.drop_drop]; congr 1; omega
  rw [this] at h1
  exact List.mem_of_mem_drop h1

def plainChar (c : Char) : Bool := !(isAlpha c || decide (c = '#'))

/-- a line whose characters from column 9 on are not letters or `#` is a CORRECTION line … -/
theorem corrLabel_of_tail (line : Str) (h : ∀ c ∈ line.drop 8, plainChar c = true) : corrLabel line = "CORRECTION" := by
  unfold corrLabel
  cases hs : Text.slice 60 61 line with
  | nil => rfl
  | cons c r =>
    cases r with
    | cons d r' => rfl
    | nil =>
      have hc : c ∈ line.drop 8 := mem_slice_drop (by rw [hs]; simp) (by omega)
      have := h c hc
      simp only [plainChar, Bool.not_eq_eq_eq_not, Bool.not_true] at this
      simp [this]

/-- … and never ends an antenna section -/
theorem corr_endMarker_of_tail (line : Str) (h : ∀ c ∈ line.drop 8, plainChar c = true) (n : Nat) (nx : Str) :
    corrParser.endMarker line n nx = false := by
  show decide (Text.slice 60 74 line = "END OF ANTENNA".toList) = false
  rw [decide_eq_false_iff_not]
  intro heq
  have hc : 'E' ∈ line.drop 8 := mem_slice_drop (a := 60) (b := 74) (by rw [heq]; decide) (by omega)
  have := h 'E' hc
  revert this
  decide

theorem row_tail_plain (first : Str) (vals : List Str) (hlen : first.length ≤ 8)
    (hvals : ∀ v ∈ vals, NumText v = true) : ∀ c ∈ (renderRow first vals).drop 8, plainChar c = true := by
  unfold renderRow
  have h8 : (rjust 8 first).length = 8 := length_rjust hlen
  rw [List.drop_append]
  have : List.drop 8 (rjust 8 first) = [] := List.drop_eq_nil_of_le (by omega)
  rw [this, h8]
  simp only [List.nil_append, Nat.sub_self, List.drop_zero]
  intro c hc
  rw [List.mem_flatten] at hc
  obtain ⟨cell, hcell, hcc⟩ := hc
  rw [List.mem_map] at hcell
  obtain ⟨v, hv, rfl⟩ := hcell
  unfold rjust at hcc
  rw [List.mem_append] at hcc
  cases hcc with
  | inl hb =>
    have : c = ' ' := by
      have hb' : c ∈ List.replicate (8 - v.length) ' ' := hb
      exact (List.mem_replicate.mp hb').2
    subst this; decide
  | inr hv' =>
    have hn := hvals v hv
    simp only [NumText, Bool.and_eq_true] at hn
    have := List.all_eq_true.mp hn.2 c hv'
    simpa [plainChar] using this


theorem correction_def :
    Midgard.Generated.AntexCols.records.find? (·.label == "CORRECTION") =
      some ⟨"CORRECTION", "parse_correction", .whitespace, [], [("values", 0)]⟩ := by decide +kernel

/-- **Effect of a correction row.**  `first` is `NOAZI` or the printed azimuth, `vals` the printed
values (at most 7 characters each, so that a blank separates them), `nums` what they denote. -/
theorem row_line (first : Str) (vals : List Str) (nums : List Rat)
    (hfirst : Token first = true) (hlen : first.length ≤ 8)
    (hvals : ∀ v ∈ vals, NumText v = true ∧ v.length ≤ 7)
    (hnums : vals.mapM (fun t => req (parseFloat t)) = .ok nums) (n : Nat) (s : State) :
    parseLine corrParser (rstrip (renderRow first vals)) n s =
      .ok { s with cache :=
        if first = "NOAZI".toList then { s.cache with noazi := some nums }
        else { s.cache with azi := some (s.cache.azi.getD [] ++ [nums]) } } := by
  have htok : ∀ v ∈ vals, Token v = true ∧ v.length ≤ 7 := fun v hv => by
    have := hvals v hv
    simp only [NumText, Bool.and_eq_true] at this
    exact ⟨this.1.1, this.2⟩
  have hpad := renderRow_padded first vals
  have hok := rowPads_ok first vals hfirst htok
  have hrs : rstrip (renderRow first vals) = renderRow first vals := by
    rw [hpad]; exact rstrip_padded _ (by simp [rowPads]) hok
  rw [hrs]
  have htail := row_tail_plain first vals hlen (fun v hv => (hvals v hv).1)
  have hne : (renderRow first vals).isEmpty = false := by
    rw [hpad]
    have hf : first ≠ [] := by intro h; subst h; simp [Token] at hfirst
    cases first with
    | nil => exact absurd rfl hf
    | cons c r => simp [rowPads, padded]
  have hsplit : split (strip (renderRow first vals)) = first :: vals := by
    rw [split_strip, hpad, split_padded _ hok]
    simp [rowPads, List.map_map, Function.comp_def]
  unfold parseLine
  have h1 : corrParser.skipLine (renderRow first vals) = false := hne
  rw [h1]
  simp only [Bool.false_eq_true, if_false]
  have h2 : corrParser.label (rstrip (renderRow first vals)) n = "CORRECTION" := by
    rw [hrs]; exact corrLabel_of_tail _ htail
  rw [h2]
  have h3 : corrParser.defs = Midgard.Generated.AntexCols.records := rfl
  rw [h3, correction_def]
  simp only [LabelDef.values, List.map_nil, List.nil_append, List.map_cons, StripOpt.apply, sliceFrom, List.drop_zero]
  show handle "parse_correction" _ s = _
  simp only [handle, String.reduceEq, if_false, if_true]
  simp only [parseCorrection, Values.get, List.find?, beq_self_eq_true, Option.map_some, req_some, hsplit, hnums,
    bind, Except.bind, pure, Except.pure]
  by_cases hN : first = "NOAZI".toList
  · simp [hN]
  · have hN' : ¬ first = ['N', 'O', 'A', 'Z', 'I'] := by simpa using hN
    simp [hN']

end Midgard.Antex.File
