/-
C10 — bit patterns are copied verbatim (lemmas for `Props.C10.bits_identical`).
-/
import Midgard.Proofs.H5RoundTrip
import Midgard.Model.H5Bits
namespace Midgard.H5
open Midgard.Dataset

theorem cellBits_bitsCell (w : UInt64) : cellBits (bitsCell w) = some w := by
  have hlt : w.toNat < 18446744073709551616 := by
    have := w.toNat_lt
    simpa using this
  have h1 : ((w.toNat : Int) : Rat).den = 1 := by simp
  have h2 : ((w.toNat : Int) : Rat).num = (w.toNat : Int) := by simp
  simp only [bitsCell, cellBits, h1, h2]
  have h3 : (0 : Int) ≤ (w.toNat : Int) := Int.natCast_nonneg _
  have h4 : (w.toNat : Int) < 18446744073709551616 := by omega
  simp [h3, h4]

theorem mapM_cellBits (r : List UInt64) : (r.map bitsCell).mapM cellBits = some r := by
  induction r with
  | nil => rfl
  | cons w r ih => simp [List.mapM_cons, cellBits_bitsCell, ih]

theorem rowsBits_bitsRows (ws : List (List UInt64)) : rowsBits (bitsRows ws) = ws.map some := by
  induction ws with
  | nil => rfl
  | cons r ws ih =>
    simp only [rowsBits, bitsRows, List.map_cons, List.map_map] at ih ⊢
    rw [mapM_cellBits]
    congr 1

theorem rename_rows (φ : Nat → Nat) (ob : Obj) : (ob.rename φ).rows = ob.rows := rfl
end Midgard.H5
