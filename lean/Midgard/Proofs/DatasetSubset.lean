/-
C09 — what `subset` does to the heap: every object reached from a field is re-created exactly once
with the selected rows (`Img`), references are re-wired to the re-created objects, the memo only
ever holds such images, and old objects are untouched (the heap only grows).
Core Lean only.
-/
import Midgard.Proofs.DatasetLists

namespace Midgard.Dataset

/-! ### relations on optional references -/

inductive OptRel {α β} (R : α → β → Prop) : Option α → Option β → Prop
  | none : OptRel R none none
  | some {a b} : R a b → OptRel R (some a) (some b)

theorem OptRel.of_some_right {α β} {R : α → β → Prop} {x : Option α} {b : β} (h : OptRel R x (Option.some b)) :
    ∃ a, x = Option.some a ∧ R a b := by
  generalize hy : Option.some b = y at h
  cases h with
  | none => cases hy
  | some r => cases hy; exact ⟨_, rfl, r⟩

theorem OptRel.of_none_left {α β} {R : α → β → Prop} {y : Option β} (h : OptRel R Option.none y) : y = Option.none := by
  generalize hx : (Option.none : Option α) = x at h
  cases h with
  | none => rfl
  | some r => cases hx

theorem OptRel.mono {α β} {R S : α → β → Prop} (h : ∀ a b, R a b → S a b) :
    ∀ {x y}, OptRel R x y → OptRel S x y
  | _, _, .none => .none
  | _, _, .some r => .some (h _ _ r)

/-! ### heap facts -/

theorem getElem?_append_of_some {h l : Heap} {o : Nat} {ob : Obj} (hh : h[o]? = some ob) :
    (h ++ l)[o]? = some ob := by
  have : o < h.length := by
    rcases Nat.lt_or_ge o h.length with h' | h'
    · exact h'
    · simp [List.getElem?_eq_none h'] at hh
  rw [List.getElem?_append_left this]; exact hh

/-- the heap only grows: old objects keep their identity and their contents -/
structure HeapExt (h h' : Heap) : Prop where
  ex : ∃ l, h' = h ++ l

theorem HeapExt.refl (h : Heap) : HeapExt h h := ⟨[], by simp⟩
theorem HeapExt.trans {a b c : Heap} (h1 : HeapExt a b) (h2 : HeapExt b c) : HeapExt a c := by
  obtain ⟨l1, rfl⟩ := h1.ex; obtain ⟨l2, rfl⟩ := h2.ex; exact ⟨l1 ++ l2, by simp⟩
theorem HeapExt.get {h h' : Heap} (e : HeapExt h h') {o : Nat} {ob : Obj} (hh : h[o]? = some ob) :
    h'[o]? = some ob := by
  obtain ⟨l, rfl⟩ := e.ex; exact getElem?_append_of_some hh
theorem HeapExt.alloc (s : St) (o : Obj) : HeapExt s.heap (s.alloc o).2.heap := ⟨[o], rfl⟩

theorem alloc_get (s : St) (o : Obj) : (s.alloc o).2.heap[(s.alloc o).1]? = some o := by
  simp [St.alloc]

theorem lookup_mem : ∀ (m : List (Nat × Nat)) (k v : Nat), m.lookup k = some v → (k, v) ∈ m
  | [], _, _, h => by simp [List.lookup] at h
  | (a, b) :: m, k, v, h => by
    simp only [List.lookup] at h
    split at h
    · rename_i heq
      simp at h
      have : k = a := by simpa using heq
      simp [this, h]
    · exact List.mem_cons_of_mem _ (lookup_mem m k v h)

/-! ### the image of an object under a row selection -/

/-- `o'` is `o` with the rows `idx` selects, and its references are images of `o`'s references
(unfolded to depth `fuel`) -/
def ImgF (idx : Index) (h : Heap) : Nat → Nat → Nat → Prop
  | 0, _, _ => False
  | f + 1, o, o' => ∃ ob ob', h[o]? = some ob ∧ h[o']? = some ob' ∧ pick idx ob.rows = .ok ob'.rows ∧
      ob'.kind = ob.kind ∧ ob'.ndim = ob.ndim ∧ ob'.cols = ob.cols ∧
      (ob.kind.hasOther = true → OptRel (ImgF idx h f) ob.other ob'.other) ∧
      (ob.kind.isDelta = true → OptRel (ImgF idx h f) ob.refPos ob'.refPos)

def Img (idx : Index) (h : Heap) (o o' : Nat) : Prop := ∃ f, ImgF idx h f o o'

theorem ImgF.succ {idx h} : ∀ {f o o'}, ImgF idx h f o o' → ImgF idx h (f + 1) o o'
  | 0, _, _, hh => by simp [ImgF] at hh
  | f + 1, o, o', hh => by
    obtain ⟨ob, ob', h1, h2, h3, h4, h5, h6, h7, h8⟩ := hh
    exact ⟨ob, ob', h1, h2, h3, h4, h5, h6, fun hk => (h7 hk).mono (fun _ _ => ImgF.succ),
      fun hk => (h8 hk).mono (fun _ _ => ImgF.succ)⟩

theorem ImgF.le {idx h o o'} : ∀ {f g}, f ≤ g → ImgF idx h f o o' → ImgF idx h g o o' := by
  intro f g hle hh
  induction hle with
  | refl => exact hh
  | step _ ih => exact ih.succ

theorem ImgF.ext {idx h h'} (e : HeapExt h h') : ∀ {f o o'}, ImgF idx h f o o' → ImgF idx h' f o o'
  | 0, _, _, hh => by simp [ImgF] at hh
  | f + 1, o, o', hh => by
    obtain ⟨ob, ob', h1, h2, h3, h4, h5, h6, h7, h8⟩ := hh
    exact ⟨ob, ob', e.get h1, e.get h2, h3, h4, h5, h6, fun hk => (h7 hk).mono (fun _ _ => ImgF.ext e),
      fun hk => (h8 hk).mono (fun _ _ => ImgF.ext e)⟩

theorem Img.ext {idx h h' o o'} (e : HeapExt h h') (hh : Img idx h o o') : Img idx h' o o' := by
  obtain ⟨f, hf⟩ := hh; exact ⟨f, hf.ext e⟩

theorem OptRel_Img_fuel {idx h} : ∀ {r r'}, OptRel (Img idx h) r r' → ∃ f, OptRel (ImgF idx h f) r r'
  | _, _, .none => ⟨0, .none⟩
  | _, _, .some ⟨f, hf⟩ => ⟨f, .some hf⟩

theorem OptRel_Img_fuel' {idx h} {P : Prop} {r r'} (hr : P → OptRel (Img idx h) r r') :
    ∃ f, P → OptRel (ImgF idx h f) r r' := by
  by_cases hp : P
  · obtain ⟨f, hf⟩ := OptRel_Img_fuel (hr hp); exact ⟨f, fun _ => hf⟩
  · exact ⟨0, fun h => absurd h hp⟩

/-- assemble an image from the images of the references its kind has -/
theorem Img.mk {idx h o o' ob ob'} (h1 : h[o]? = some ob) (h2 : h[o']? = some ob')
    (h3 : pick idx ob.rows = .ok ob'.rows) (h4 : ob'.kind = ob.kind) (h5 : ob'.ndim = ob.ndim)
    (h6 : ob'.cols = ob.cols) (h7 : ob.kind.hasOther = true → OptRel (Img idx h) ob.other ob'.other)
    (h8 : ob.kind.isDelta = true → OptRel (Img idx h) ob.refPos ob'.refPos) : Img idx h o o' := by
  obtain ⟨f1, g1⟩ := OptRel_Img_fuel' h7
  obtain ⟨f2, g2⟩ := OptRel_Img_fuel' h8
  refine ⟨max f1 f2 + 1, ob, ob', h1, h2, h3, h4, h5, h6, ?_, ?_⟩
  · exact fun hk => (g1 hk).mono (fun _ _ => ImgF.le (Nat.le_max_left _ _))
  · exact fun hk => (g2 hk).mono (fun _ _ => ImgF.le (Nat.le_max_right _ _))

/-- the memo of a `subset` only ever maps an object to its image -/
def MemoInv (idx : Index) (s : St) : Prop := ∀ k v, (k, v) ∈ s.memo → Img idx s.heap k v

theorem MemoInv.find {idx s k v} (hm : MemoInv idx s) (hf : s.find k = some v) : Img idx s.heap k v :=
  hm k v (lookup_mem _ _ _ hf)

theorem MemoInv.set {idx} {s : St} {k v} (hm : MemoInv idx s) (hi : Img idx s.heap k v) : MemoInv idx (s.set k v) := by
  intro a b hab
  simp only [St.set, List.mem_cons] at hab
  rcases hab with h | h
  · cases h; exact hi
  · exact hm a b h

theorem MemoInv.ext {idx} {s : St} {h' : Heap} (hm : MemoInv idx s) (e : HeapExt s.heap h') :
    MemoInv idx { s with heap := h' } := fun k v hkv => (hm k v hkv).ext e

/-- what a successful recursive call guarantees -/
def StepOK (idx : Index) (s s' : St) : Prop := HeapExt s.heap s'.heap ∧ MemoInv idx s'

theorem viaMemo_spec {idx : Index} {rec : Nat → St → M (Nat × St)}
    (hrec : ∀ a s a' s', rec a s = .ok (a', s') → MemoInv idx s → StepOK idx s s' ∧ Img idx s'.heap a a')
    {r : Option Nat} {s : St} {r' : Option Nat} {s' : St}
    (h : viaMemo rec r s = .ok (r', s')) (hm : MemoInv idx s) :
    StepOK idx s s' ∧ OptRel (Img idx s'.heap) r r' := by
  cases r with
  | none =>
    simp only [viaMemo, Except.ok.injEq, Prod.mk.injEq] at h
    obtain ⟨rfl, rfl⟩ := h
    exact ⟨⟨HeapExt.refl _, hm⟩, .none⟩
  | some a =>
    simp only [viaMemo] at h
    split at h
    · rename_i a' hf
      simp only [Except.ok.injEq, Prod.mk.injEq] at h
      obtain ⟨rfl, rfl⟩ := h
      exact ⟨⟨HeapExt.refl _, hm⟩, .some (hm.find hf)⟩
    · split at h
      · simp at h
      · rename_i a' s1 hr
        simp only [Except.ok.injEq, Prod.mk.injEq] at h
        obtain ⟨rfl, rfl⟩ := h
        obtain ⟨⟨he, hm1⟩, hi⟩ := hrec _ _ _ _ hr hm
        exact ⟨⟨he, hm1.set hi⟩, .some hi⟩

/-- **`subsetObj` builds images.**  Whatever the fuel and the state, a successful call returns the
image of `o`, keeps the memo invariant and only appends to the heap. -/
theorem subsetObj_spec (idx : Index) : ∀ (fuel o : Nat) (s : St) (o' : Nat) (s' : St),
    subsetObj idx fuel o s = .ok (o', s') → MemoInv idx s → StepOK idx s s' ∧ Img idx s'.heap o o'
  | 0, _, _, _, _, h, _ => by simp [subsetObj] at h
  | fuel + 1, o, s, o', s', h, hm => by
    simp only [subsetObj] at h
    split at h
    · rename_i v hf
      simp only [Except.ok.injEq, Prod.mk.injEq] at h
      obtain ⟨rfl, rfl⟩ := h
      exact ⟨⟨HeapExt.refl _, hm⟩, hm.find hf⟩
    · split at h
      · simp at h
      · rename_i obj hobj
        split at h
        · simp at h
        · rename_i rows hrows
          split at h
          · simp at h
          · rename_i oth s1 h1
            split at h
            · simp at h
            · rename_i rp s2 h2
              simp only [Except.ok.injEq, Prod.mk.injEq] at h
              obtain ⟨rfl, rfl⟩ := h
              have k1 : StepOK idx s s1 ∧ (obj.kind.hasOther = true → OptRel (Img idx s1.heap) obj.other oth) := by
                by_cases hk : obj.kind.hasOther = true
                · simp only [hk, if_true] at h1
                  obtain ⟨a, b⟩ := viaMemo_spec (subsetObj_spec idx fuel) h1 hm
                  exact ⟨a, fun _ => b⟩
                · simp only [hk] at h1
                  simp only [Bool.false_eq_true, if_false, Except.ok.injEq, Prod.mk.injEq] at h1
                  obtain ⟨rfl, rfl⟩ := h1
                  exact ⟨⟨HeapExt.refl _, hm⟩, fun h' => absurd h' hk⟩
              obtain ⟨⟨e1, m1⟩, r1⟩ := k1
              have k2 : StepOK idx s1 s2 ∧ (obj.kind.isDelta = true → OptRel (Img idx s2.heap) obj.refPos rp) := by
                by_cases hk : obj.kind.isDelta = true
                · simp only [hk, if_true] at h2
                  obtain ⟨a, b⟩ := viaMemo_spec (subsetObj_spec idx fuel) h2 m1
                  exact ⟨a, fun _ => b⟩
                · simp only [hk] at h2
                  simp only [Bool.false_eq_true, if_false, Except.ok.injEq, Prod.mk.injEq] at h2
                  obtain ⟨rfl, rfl⟩ := h2
                  exact ⟨⟨HeapExt.refl _, m1⟩, fun h' => absurd h' hk⟩
              obtain ⟨⟨e2, m2⟩, r2⟩ := k2
              let new : Obj := { obj with rows := rows, other := oth, refPos := rp }
              have e3 : HeapExt s2.heap (s2.alloc new).2.heap := HeapExt.alloc s2 new
              have e13 : HeapExt s.heap (s2.alloc new).2.heap := (e1.trans e2).trans e3
              have himg : Img idx (s2.alloc new).2.heap o (s2.alloc new).1 := by
                refine Img.mk (ob := obj) (ob' := new) (e13.get hobj) (alloc_get s2 new) hrows rfl rfl rfl ?_ ?_
                · exact fun hk => ((r1 hk).mono (fun _ _ => Img.ext e2)).mono (fun _ _ => Img.ext e3)
                · exact fun hk => (r2 hk).mono (fun _ _ => Img.ext e3)
              refine ⟨⟨e13, ?_⟩, himg⟩
              exact MemoInv.set (s := (s2.alloc new).2) (m2.ext e3) himg

/-- `subsetPlain` builds an image too (plain and sigma arrays have no references) -/
theorem subsetPlain_spec (idx : Index) (o : Nat) (s : St) (o' : Nat) (s' : St)
    (h : subsetPlain idx o s = .ok (o', s')) (hm : MemoInv idx s) :
    StepOK idx s s' ∧ Img idx s'.heap o o' := by
  simp only [subsetPlain] at h
  split at h
  · simp at h
  · rename_i obj hobj
    split at h
    · simp at h
    · rename_i hkind
      split at h
      · simp at h
      · rename_i rows hrows
        simp only [Except.ok.injEq, Prod.mk.injEq] at h
        obtain ⟨rfl, rfl⟩ := h
        have hk : obj.kind.hasOther = false ∧ obj.kind.isDelta = false := by
          cases hc : obj.kind <;> simp [hc, Kind.isPlain] at hkind <;> simp [Kind.hasOther, Kind.isDelta]
        let new : Obj := { obj with rows := rows }
        have e : HeapExt s.heap (s.alloc new).2.heap := HeapExt.alloc s new
        have himg : Img idx (s.alloc new).2.heap o (s.alloc new).1 := by
          refine Img.mk (ob := obj) (ob' := new) (e.get hobj) (alloc_get s new) hrows rfl rfl rfl ?_ ?_
          · intro h'; rw [hk.1] at h'; cases h'
          · intro h'; rw [hk.2] at h'; cases h'
        exact ⟨⟨e, MemoInv.set (s := (s.alloc new).2) (hm.ext e) himg⟩, himg⟩

/-! ### everything reachable has `n` rows -/

def GoodF (h : Heap) (n : Nat) : Nat → Nat → Prop
  | 0, _ => False
  | f + 1, o => ∃ ob, h[o]? = some ob ∧ ob.rows.length = n ∧
      (∀ a, ob.kind.hasOther = true → ob.other = some a → GoodF h n f a) ∧
      (∀ a, ob.kind.isDelta = true → ob.refPos = some a → GoodF h n f a)

/-- object `o` and every object attached to it (`other`, `ref_pos`, recursively) has `n` rows -/
def Good (h : Heap) (n : Nat) (o : Nat) : Prop := ∃ f, GoodF h n f o

theorem GoodF.ext {h h' n} (e : HeapExt h h') : ∀ {f o}, GoodF h n f o → GoodF h' n f o
  | 0, _, hh => by simp [GoodF] at hh
  | f + 1, o, hh => by
    obtain ⟨ob, h1, h2, h3, h4⟩ := hh
    exact ⟨ob, e.get h1, h2, fun a hk ha => (h3 a hk ha).ext e, fun a hk ha => (h4 a hk ha).ext e⟩

theorem Good.ext {h h' n o} (e : HeapExt h h') (g : Good h n o) : Good h' n o := by
  obtain ⟨f, hf⟩ := g; exact ⟨f, hf.ext e⟩

theorem ImgF.good {idx h} : ∀ {f o o'}, ImgF idx h f o o' → GoodF h idx.count f o'
  | 0, _, _, hh => by simp [ImgF] at hh
  | f + 1, o, o', hh => by
    obtain ⟨ob, ob', _, h2, h3, h4, _, _, h7, h8⟩ := hh
    refine ⟨ob', h2, pick_length idx _ _ h3, ?_, ?_⟩
    · intro a hk ha
      have h7' := h7 (by rw [← h4]; exact hk)
      rw [ha] at h7'
      obtain ⟨_, _, r⟩ := h7'.of_some_right
      exact r.good
    · intro a hk ha
      have h8' := h8 (by rw [← h4]; exact hk)
      rw [ha] at h8'
      obtain ⟨_, _, r⟩ := h8'.of_some_right
      exact r.good

/-- the image of anything under a successful selection is rectangular with `idx.count` rows —
no assumption on the object it came from -/
theorem Img.good {idx h o o'} (hi : Img idx h o o') : Good h idx.count o' := by
  obtain ⟨f, hf⟩ := hi; exact ⟨f, hf.good⟩

theorem Good.objLen {h n o} (g : Good h n o) : objLen h o = n := by
  obtain ⟨f, hf⟩ := g
  cases f with
  | zero => simp [GoodF] at hf
  | succ f =>
    obtain ⟨ob, h1, h2, _, _⟩ := hf
    simp [Midgard.Dataset.objLen, h1, h2]

end Midgard.Dataset
