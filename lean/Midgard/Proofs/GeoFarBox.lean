import Midgard.Proofs.GeoFarCore
namespace Midgard.Geo.Acc

theorem far_sum_lower (q P S A t u cm c1 c2 k1 k2 : ℝ) (hq0 : 0 < q) (hq1 : q ≤ 1) (hP : 0 < P) (hS : 0 < S) (hA0 : 0 < A)
    (hcm : 0 < cm) (hcm1 : cm ≤ c1) (hcm2 : cm ≤ c2) (hK1 : c1 * A ^ 6 ≤ k1) (hK2 : c2 * A ^ 6 ≤ k2)
    (hPt : P = A * t) (hSu : S = A * u) (htu : q ^ 2 * t ^ 2 + u ^ 2 = 1) :
    A ^ 14 * (q ^ 2 * cm ^ 2) ≤ q * S ^ 2 * k1 ^ 2 + P ^ 2 * q ^ 2 * k2 ^ 2 := by
  have a1 : (cm * A ^ 6) ^ 2 ≤ k1 ^ 2 := pow_le_pow_left₀ (by positivity) (le_trans (mul_le_mul_of_nonneg_right hcm1 (by positivity)) hK1) 2
  have a2 : (cm * A ^ 6) ^ 2 ≤ k2 ^ 2 := pow_le_pow_left₀ (by positivity) (le_trans (mul_le_mul_of_nonneg_right hcm2 (by positivity)) hK2) 2
  have b1 : q * S ^ 2 * (cm * A ^ 6) ^ 2 ≤ q * S ^ 2 * k1 ^ 2 := mul_le_mul_of_nonneg_left a1 (by positivity)
  have b2 : P ^ 2 * q ^ 2 * (cm * A ^ 6) ^ 2 ≤ P ^ 2 * q ^ 2 * k2 ^ 2 := mul_le_mul_of_nonneg_left a2 (by positivity)
  have hqq : q ^ 2 ≤ q := by nlinarith
  have c1' : q ^ 2 * S ^ 2 * (cm * A ^ 6) ^ 2 ≤ q * S ^ 2 * (cm * A ^ 6) ^ 2 :=
    mul_le_mul_of_nonneg_right (mul_le_mul_of_nonneg_right hqq (by positivity)) (by positivity)
  have e1 : q ^ 2 * S ^ 2 * (cm * A ^ 6) ^ 2 + P ^ 2 * q ^ 2 * (cm * A ^ 6) ^ 2
      = A ^ 14 * (q ^ 2 * cm ^ 2) * (u ^ 2 + t ^ 2) := by rw [hPt, hSu]; ring
  have hut : 1 ≤ u ^ 2 + t ^ 2 := by
    have : (1 - q ^ 2) * t ^ 2 ≥ 0 := mul_nonneg (by nlinarith) (sq_nonneg t)
    nlinarith
  have hpos : 0 ≤ A ^ 14 * (q ^ 2 * cm ^ 2) := by positivity
  have : A ^ 14 * (q ^ 2 * cm ^ 2) * 1 ≤ A ^ 14 * (q ^ 2 * cm ^ 2) * (u ^ 2 + t ^ 2) := mul_le_mul_of_nonneg_left hut hpos
  linarith

/-- assembly for one altitude box: from scaled lower bounds of the cofactors (`K0 ≥ c0·A⁵`, `K1 ≥ c1·A⁶`, `K2 ≥ c2·A⁶`),
a scaled upper bound `|H| ≤ A¹⁷·hh`, the one-dimensional inequality `t³u³·hh ≤ F·(c1 + t·c0)` (`t = P/A`, `u = S/A`) and
`|A − q| ≤ ρ·A`:  `|R/a|·q³·c2·cm² ≤ e⁴·ρ³·F` -/
theorem far_box (q P S A s1 cc D W c0 c1 c2 cm hh F ρ : ℝ)
    (hq0 : 0 < q) (hq1 : q ≤ 1) (hP : 0 < P) (hS : 0 < S) (hA0 : 0 < A)
    (hAA : A * A = q * P * (q * P) + S * S)
    (hs1 : s1 = P * S * K1 A P q / 2) (hcc : cc = P ^ 2 * q * K2 A P q / 2)
    (hD : D = Real.sqrt (s1 * s1 + cc * cc)) (hW : W = Real.sqrt (q ^ 2 * (s1 * s1) + cc * cc))
    (hc0 : 0 < c0) (hc1 : 0 < c1) (hc2 : 0 < c2) (hcm : 0 < cm) (hcm1 : cm ≤ c1) (hcm2 : cm ≤ c2)
    (hK0 : c0 * A ^ 5 ≤ K0 A P q) (hK1 : c1 * A ^ 6 ≤ K1 A P q) (hK2 : c2 * A ^ 6 ≤ K2 A P q)
    (hH : |HH A P q| ≤ A ^ 17 * hh) (hF : 0 ≤ F) (hρ0 : 0 ≤ ρ)
    (h1D : (P / A) ^ 3 * (S / A) ^ 3 * hh ≤ F * (c1 + P / A * c0)) (hρ : |A - q| ≤ ρ * A) :
    |(S * cc - P * s1) / D + (1 - q ^ 2) * s1 * cc / (D * W)| * (q ^ 3 * c2 * cm ^ 2) ≤ (1 - q ^ 2) ^ 4 * ρ ^ 3 * F := by
  have hK0p : 0 ≤ K0 A P q := le_trans (by positivity) hK0
  have hK1p : 0 < K1 A P q := lt_of_lt_of_le (by positivity) hK1
  have hK2p : 0 < K2 A P q := lt_of_lt_of_le (by positivity) hK2
  have core := offset_core2 q P S A s1 cc D W hq0 hq1 hP hS hAA hs1 hcc hD hW hK1p hK2p hK0p
  set X := |(S * cc - P * s1) / D + (1 - q ^ 2) * s1 * cc / (D * W)| with hX
  have hX0 : 0 ≤ X := abs_nonneg _
  set e := 1 - q ^ 2 with he
  have he0 : 0 ≤ e := by rw [he]; nlinarith
  set t := P / A with ht
  set u := S / A with hu
  have ht0 : 0 < t := div_pos hP hA0
  have hu0 : 0 < u := div_pos hS hA0
  have hPt : P = A * t := by rw [ht]; field_simp
  have hSu : S = A * u := by rw [hu]; field_simp
  have hA2 : A ^ 2 = q * P * (q * P) + S * S := by rw [← hAA]; ring
  have htu : q ^ 2 * t ^ 2 + u ^ 2 = 1 := by
    have h1 : q ^ 2 * t ^ 2 + u ^ 2 = (q * P * (q * P) + S * S) / A ^ 2 := by rw [ht, hu]; field_simp
    rw [h1, ← hA2]; field_simp
  -- lower bound of the cofactor product
  have hL1 : c2 * A ^ 6 * q ≤ q * K2 A P q := by
    have := mul_le_mul_of_nonneg_left hK2 hq0.le
    linarith
  have hL2 : A ^ 14 * (q ^ 2 * cm ^ 2) ≤ q * S ^ 2 * K1 A P q ^ 2 + P ^ 2 * q ^ 2 * K2 A P q ^ 2 :=
    far_sum_lower q P S A t u cm c1 c2 (K1 A P q) (K2 A P q) hq0 hq1 hP hS hA0 hcm hcm1 hcm2 hK1 hK2 hPt hSu htu
  have hL3 : A ^ 6 * (c1 + t * c0) ≤ K1 A P q + P * K0 A P q := by
    have : P * (c0 * A ^ 5) ≤ P * K0 A P q := mul_le_mul_of_nonneg_left hK0 hP.le
    have e2 : A ^ 6 * (c1 + t * c0) = c1 * A ^ 6 + P * (c0 * A ^ 5) := by rw [hPt]; ring
    linarith
  have hprod : A ^ 26 * (q ^ 3 * c2 * cm ^ 2 * (c1 + t * c0))
      ≤ q * K2 A P q * (q * S ^ 2 * K1 A P q ^ 2 + P ^ 2 * q ^ 2 * K2 A P q ^ 2) * (K1 A P q + P * K0 A P q) := by
    have m1 := mul_le_mul hL1 hL2 (by positivity) (by positivity)
    have m2 := mul_le_mul m1 hL3 (by positivity) (by positivity)
    calc _ = c2 * A ^ 6 * q * (A ^ 14 * (q ^ 2 * cm ^ 2)) * (A ^ 6 * (c1 + t * c0)) := by ring
      _ ≤ _ := m2
  -- upper bound of the right-hand side
  have hR1 : e ^ 4 * P ^ 3 * S ^ 3 * |A - q| ^ 3 * |HH A P q| ≤ e ^ 4 * P ^ 3 * S ^ 3 * (ρ * A) ^ 3 * (A ^ 17 * hh) := by
    have hpow : |A - q| ^ 3 ≤ (ρ * A) ^ 3 := pow_le_pow_left₀ (abs_nonneg _) hρ 3
    have hhh : 0 ≤ A ^ 17 * hh := le_trans (abs_nonneg _) hH
    have := mul_le_mul (mul_le_mul_of_nonneg_left hpow (by positivity : 0 ≤ e ^ 4 * P ^ 3 * S ^ 3)) hH (abs_nonneg _) (by positivity)
    exact this
  have hR2 : e ^ 4 * P ^ 3 * S ^ 3 * (ρ * A) ^ 3 * (A ^ 17 * hh) = A ^ 26 * (e ^ 4 * ρ ^ 3 * (t ^ 3 * u ^ 3 * hh)) := by
    rw [hPt, hSu]; ring
  have hR3 : A ^ 26 * (e ^ 4 * ρ ^ 3 * (t ^ 3 * u ^ 3 * hh)) ≤ A ^ 26 * (e ^ 4 * ρ ^ 3 * (F * (c1 + t * c0))) := by
    apply mul_le_mul_of_nonneg_left _ (by positivity)
    exact mul_le_mul_of_nonneg_left h1D (by positivity)
  -- combine
  have hmain : X * (A ^ 26 * (q ^ 3 * c2 * cm ^ 2 * (c1 + t * c0))) ≤ A ^ 26 * (e ^ 4 * ρ ^ 3 * (F * (c1 + t * c0))) := by
    have := mul_le_mul_of_nonneg_left hprod hX0
    rw [hR2] at hR1
    linarith [core, hR1, hR3]
  have hfac : 0 < A ^ 26 * (c1 + t * c0) := by positivity
  have e3 : X * (A ^ 26 * (q ^ 3 * c2 * cm ^ 2 * (c1 + t * c0))) = (X * (q ^ 3 * c2 * cm ^ 2)) * (A ^ 26 * (c1 + t * c0)) := by ring
  have e4 : A ^ 26 * (e ^ 4 * ρ ^ 3 * (F * (c1 + t * c0))) = (e ^ 4 * ρ ^ 3 * F) * (A ^ 26 * (c1 + t * c0)) := by ring
  rw [e3, e4] at hmain
  exact le_of_mul_le_mul_right hmain hfac

end Midgard.Geo.Acc
