/-
C19 (text round trip), part F: writing a configuration with `as_str` and reading the text with
`update_from_file` gives the configuration back.  Mathlib-free.
-/
import Midgard.Proofs.ConfigStore

namespace Midgard.Proofs.ConfigText
open Midgard.Config

/-- the updates `update_from_file` issues for the options read from a written configuration -/
theorem fileUpdates_raw (lower : Bool) (w kw : Nat) (src : String) (allowNew : Bool) (secs : Sections)
    (hsec : ∀ ns ∈ secs, wfSectionB lower w kw ns.1 ns.2 = true) :
    ∀ raw, RawSecs raw (secs.map (fun ns => (ns.1, sectionItems ns.2))) →
      fileUpdates src allowNew raw = secs.flatMap (fun ns => ns.2.map (updOf src allowNew ns.1)) := by
  induction secs with
  | nil =>
    intro raw h
    cases raw with
    | nil => rfl
    | cons a t => exact absurd h (by simp [RawSecs])
  | cons ns t ih =>
    intro raw h
    cases raw with
    | nil => exact absurd h (by simp [RawSecs])
    | cons so rest =>
      obtain ⟨h1, h2, h3⟩ := h
      simp only at h1 h2
      obtain ⟨hn, _, hs, hk⟩ := wfSection_parts (hsec ns (by simp))
      have hsu : sectionUpdates src allowNew so.1 so.2 = ns.2.map (updOf src allowNew ns.1) := by
        rw [sectionUpdates_norm, h1, normOpt_items so.2 _ h2 (words_of_entryItems lower w kw ns.2 hs),
          itemNorm_section lower w kw ns.2 hs, sectionUpdatesN_flatOpts lower w kw src allowNew ns.1 ns.2 hn hs hk]
      have := ih (fun x hx => hsec x (List.mem_cons_of_mem _ hx)) rest h3
      simp only [fileUpdates, List.flatMap_cons] at this ⊢
      rw [hsu, this]

/-- the empty configuration: the written text is one line break, nothing is read -/
theorem readIniRaw_empty (lower : Bool) (w kw : Nat) : readIniRaw lower (asStr w kw [] ++ "\n") = .ok [] := by
  have h : (asStr w kw [] ++ "\n").toList = ['\n'] := by
    simp only [asStr, String.toList_append, String.toList_ofList]
    rfl
  rw [readIniRaw_eq, h]
  have hs : splitLines ['\n'] = [[], []] := rfl
  rw [hs, readLines_cons lower _ _ [] _ (readLine_blank lower _), readLines_cons lower _ _ [] _ (readLine_blank lower _)]
  rfl

/-- **text round trip** (see `Props/C19.lean` for the statement in words) -/
theorem text_roundtrip_main (caseSensitive : Bool) (w kw : Nat) (secs : Sections)
    (hwf : WfText (!caseSensitive) w kw secs = true) (name src : String) :
    ∃ c', (Cfg.new name).updateFromText (asStr w kw secs ++ "\n") src true caseSensitive = .ok (c', none) ∧
      c'.name = name ∧ c'.profiles = [none] ∧ c'.master = none ∧ c'.vars = [] ∧
      (∀ p, storeView c'.profileSections p = readBack src p secs) ∧
      c'.sections = readBack src none secs := by
  obtain ⟨hsec, hnd⟩ := wfText_parts hwf
  -- 1. what the reader returns
  have hread : ∃ raw, readIniRaw (!caseSensitive) (asStr w kw secs ++ "\n") = .ok raw ∧
      RawSecs raw (secs.map (fun ns => (ns.1, sectionItems ns.2))) := by
    cases secs with
    | nil => exact ⟨[], readIniRaw_empty _ w kw, by simp [RawSecs]⟩
    | cons a t => exact read_asStr _ w kw (a :: t) (by simp) hwf
  obtain ⟨raw, hraw, hrs⟩ := hread
  -- 2. the updates
  have hups := fileUpdates_raw (!caseSensitive) w kw src true secs hsec raw hrs
  -- 3. all of them go through
  obtain ⟨n, hc, he⟩ := updateMany_ok (fileUpdates src true raw)
    (by rw [hups]; intro tu htu
        obtain ⟨ns, _, htu'⟩ := List.mem_flatMap.1 htu
        obtain ⟨ke, _, rfl⟩ := List.mem_map.1 htu'
        rfl) (Cfg.new name) []
  -- 4. the store
  have hstore : ∀ q, storeView ((fileUpdates src true raw).foldl (fun ps tu => putU ps tu.2) []) q =
      readBack src q secs := by
    intro q
    rw [hups]
    have := store_file src true secs [] [] (fun q => by simp [storeView, readBack, dget?]) (by simpa using hnd)
      (fun ns hns => by
        obtain ⟨_, h2, _, h4⟩ := wfSection_parts (hsec ns hns)
        exact ⟨h2, h4⟩) q
    simpa using this
  have hinner : ∀ ns ∈ secs, (ns.2.map (·.1)).Nodup := fun ns hns => (wfSection_parts (hsec ns hns)).2.2.2
  refine ⟨((Cfg.new name).updateMany false (fileUpdates src true raw) []).1, ?_, ?_, ?_, ?_, ?_, ?_, ?_⟩
  · simp only [Cfg.updateFromText, hraw, Except.map]
    rw [← he]
  · rw [hc]; rfl
  · rw [hc]; rfl
  · rw [hc]; rfl
  · rw [hc]; rfl
  · intro p; rw [hc]; exact hstore p
  · rw [hc]
    show flatten [none] ((fileUpdates src true raw).foldl (fun ps tu => putU ps tu.2) []) = _
    rw [flatten_none _ (by rw [hstore]; exact readBack_nodup src none secs hnd)
      (by rw [hstore]; exact readBack_inner_nodup src none secs hinner), hstore]

/-- a section name without `__` stands for itself, in no profile -/
theorem partDunder_plain (l : List Char) (h : (partDunder l).2.1 = false) : (partDunder l).1 = l := by
  have := partDunder_spec l
  rw [h] at this
  simpa using this.symm

/-- **text round trip, no profile sections**: when no section name contains `__`, the configuration read
back has exactly the sections, keys, values and metadata written, in the same order (the source of
every entry is the file) -/
theorem text_roundtrip_plain_main (caseSensitive : Bool) (w kw : Nat) (secs : Sections)
    (hwf : WfText (!caseSensitive) w kw secs = true)
    (hplain : ∀ ns ∈ secs, (partDunder ns.1.toList).2.1 = false) (name src : String) :
    ∃ c', (Cfg.new name).updateFromText (asStr w kw secs ++ "\n") src true caseSensitive = .ok (c', none) ∧
      c'.sections = secs.map (fun ns => (ns.1, ns.2.map (fun ke => (ke.1, ⟨ke.2.value, src, ke.2.metas⟩)))) := by
  obtain ⟨c', h1, _, _, _, _, _, h7⟩ := text_roundtrip_main caseSensitive w kw secs hwf name src
  refine ⟨c', h1, ?_⟩
  rw [h7, readBack]
  have hf : secs.filter (fun ns => decide (profileOf ns.1 = none)) = secs := by
    apply List.filter_eq_self.2
    intro ns hns
    simp [profileOf, hplain ns hns]
  rw [hf]
  apply List.map_congr_left
  intro ns hns
  simp only [baseOf, partDunder_plain _ (hplain ns hns), String.ofList_toList, readEntry, sourceFor]

end Midgard.Proofs.ConfigText
