/-
C17 — Bernese STA, TYPE 002: the records the writer emits name equipment installed at their start (helper of Props/C17;
core Lean only).
-/
import Midgard.Model.WriterSta

namespace Midgard.WriterSta
open Midgard.Writers

theorem mem_insertBy (le : Entry → Entry → Bool) (x a : Entry) : ∀ (l : List Entry), x ∈ insertBy le a l → x = a ∨ x ∈ l := by
  intro l
  induction l with
  | nil => intro h; simpa [insertBy] using h
  | cons y r ih =>
    intro h
    simp only [insertBy] at h
    split at h
    · simpa using h
    · rcases List.mem_cons.mp h with h | h
      · exact Or.inr (by simp [h])
      · rcases ih h with h | h
        · exact Or.inl h
        · exact Or.inr (by simp [h])

theorem mem_sortBy (le : Entry → Entry → Bool) (x : Entry) : ∀ (l : List Entry), x ∈ sortBy le l → x ∈ l := by
  intro l
  induction l with
  | nil => intro h; simp [sortBy] at h
  | cons a r ih =>
    intro h
    have h' : x ∈ insertBy le a (sortBy le r) := by simpa [sortBy] using h
    rcases mem_insertBy le x a _ h' with h | h
    · simp [h]
    · simp [ih h]

theorem mem_insertBy_iff (le : Entry → Entry → Bool) (x a : Entry) : ∀ (l : List Entry), x ∈ insertBy le a l ↔ x = a ∨ x ∈ l := by
  intro l
  refine ⟨mem_insertBy le x a l, ?_⟩
  induction l with
  | nil => intro h; simpa [insertBy] using h
  | cons y r ih =>
    intro h
    simp only [insertBy]
    split
    · simpa using h
    · rcases h with h | h
      · exact List.mem_cons_of_mem _ (ih (Or.inl h))
      · rcases List.mem_cons.mp h with h | h
        · simp [h]
        · exact List.mem_cons_of_mem _ (ih (Or.inr h))

theorem mem_sortBy_of_mem (le : Entry → Entry → Bool) (x : Entry) : ∀ (l : List Entry), x ∈ l → x ∈ sortBy le l := by
  intro l
  induction l with
  | nil => intro h; simp at h
  | cons a r ih =>
    intro h
    have e : sortBy le (a :: r) = insertBy le a (sortBy le r) := rfl
    rw [e, mem_insertBy_iff]
    rcases List.mem_cons.mp h with h | h
    · exact Or.inl h
    · exact Or.inr (ih h)

/-- **the entry found for a date is an entry of the history that contains the date** -/
theorem objectForDate_sound (d : Int) (h : Hist) (e : Entry) (he : objectForDate d h = some e) :
    e ∈ h ∧ e.from_ ≤ d ∧ d < e.to_ := by
  unfold objectForDate at he
  have hm := List.mem_of_find?_eq_some he
  have hp := List.find?_some he
  simp only [Bool.and_eq_true, decide_eq_true_eq] at hp
  exact ⟨mem_sortBy _ _ _ hm, hp.1, hp.2⟩

/-- **a date inside some entry is never left without one** -/
theorem objectForDate_complete (d : Int) (h : Hist) (e : Entry) (he : e ∈ h) (h1 : e.from_ ≤ d) (h2 : d < e.to_) :
    (objectForDate d h).isSome = true := by
  unfold objectForDate
  rw [List.find?_isSome]
  exact ⟨e, mem_sortBy_of_mem _ _ _ he, by simp [h1, h2]⟩

/-- a date in an interruption of the history (inside no entry) has no entry -/
theorem objectForDate_none_in_gap (d : Int) (h : Hist) (hg : ∀ e ∈ h, ¬ (e.from_ ≤ d ∧ d < e.to_)) :
    objectForDate d h = none := by
  cases ho : objectForDate d h with
  | none => rfl
  | some e =>
    obtain ⟨hm, h1, h2⟩ := objectForDate_sound d h e ho
    exact absurd ⟨h1, h2⟩ (hg e hm)

/-- **every TYPE 002 record names equipment that is installed at its start**: receiver, antenna and eccentricity are
entries of the site information's histories whose period contains the record's start date -/
theorem staRecords_sound (sf : Bool) (rcv ant ecc : Hist) (r : Record) (hr : r ∈ staRecords sf rcv ant ecc) :
    (r.rcv ∈ rcv ∧ r.rcv.from_ ≤ r.from_ ∧ r.from_ < r.rcv.to_) ∧
    (r.ant ∈ ant ∧ r.ant.from_ ≤ r.from_ ∧ r.from_ < r.ant.to_) ∧
    (r.ecc ∈ ecc ∧ r.ecc.from_ ≤ r.from_ ∧ r.from_ < r.ecc.to_) := by
  simp only [staRecords, List.mem_filterMap] at hr
  obtain ⟨p, _, hp⟩ := hr
  cases h1 : objectForDate p.1 rcv with
  | none => simp [h1] at hp
  | some a =>
    cases h2 : objectForDate p.1 ant with
    | none => simp [h1, h2] at hp
    | some b =>
      cases h3 : objectForDate p.1 ecc with
      | none => simp [h1, h2, h3] at hp
      | some c =>
        simp only [h1, h2, h3, Option.some.injEq] at hp
        subst hp
        exact ⟨objectForDate_sound _ _ _ h1, objectForDate_sound _ _ _ h2, objectForDate_sound _ _ _ h3⟩

/-- … and no record starts in an interruption of one of the histories -/
theorem staRecords_none_in_gap (sf : Bool) (rcv ant ecc : Hist) (r : Record) (hr : r ∈ staRecords sf rcv ant ecc) :
    (∃ e ∈ rcv, e.from_ ≤ r.from_ ∧ r.from_ < e.to_) ∧ (∃ e ∈ ant, e.from_ ≤ r.from_ ∧ r.from_ < e.to_) ∧
    (∃ e ∈ ecc, e.from_ ≤ r.from_ ∧ r.from_ < e.to_) := by
  obtain ⟨a, b, c⟩ := staRecords_sound sf rcv ant ecc r hr
  exact ⟨⟨_, a⟩, ⟨_, b⟩, ⟨_, c⟩⟩

/-- **every pair of consecutive equipment-change dates at whose start receiver, antenna and eccentricity are installed has
its record** -/
theorem staRecords_complete (sf : Bool) (rcv ant ecc : Hist) (p : Int × Int)
    (hp : p ∈ pairwise (recordDates sf rcv ant ecc))
    (h1 : ∃ e ∈ rcv, e.from_ ≤ p.1 ∧ p.1 < e.to_) (h2 : ∃ e ∈ ant, e.from_ ≤ p.1 ∧ p.1 < e.to_)
    (h3 : ∃ e ∈ ecc, e.from_ ≤ p.1 ∧ p.1 < e.to_) :
    ∃ r ∈ staRecords sf rcv ant ecc, r.from_ = p.1 ∧ r.to_ = p.2 := by
  obtain ⟨e1, m1, a1, b1⟩ := h1
  obtain ⟨e2, m2, a2, b2⟩ := h2
  obtain ⟨e3, m3, a3, b3⟩ := h3
  have s1 := objectForDate_complete p.1 rcv e1 m1 a1 b1
  have s2 := objectForDate_complete p.1 ant e2 m2 a2 b2
  have s3 := objectForDate_complete p.1 ecc e3 m3 a3 b3
  obtain ⟨r1, hr1⟩ := Option.isSome_iff_exists.mp s1
  obtain ⟨r2, hr2⟩ := Option.isSome_iff_exists.mp s2
  obtain ⟨r3, hr3⟩ := Option.isSome_iff_exists.mp s3
  refine ⟨⟨p.1, p.2, r1, r2, r3⟩, ?_, rfl, rfl⟩
  simp only [staRecords, List.mem_filterMap]
  exact ⟨p, hp, by simp [hr1, hr2, hr3]⟩

/-! ### the event dates are strictly ascending, so every record has `from < to` -/

def ascending : List Int → Bool
  | a :: b :: r => decide (a < b) && ascending (b :: r)
  | _ => true

theorem ascending_insertDate (d : Int) : ∀ (l : List Int), ascending l = true →
    ascending (insertDate d l) = true ∧ (∀ x, l.head? = some x → (insertDate d l).head? = some (min d x)) := by
  intro l
  induction l with
  | nil => intro _; exact ⟨rfl, by simp⟩
  | cons x r ih =>
    intro h
    simp only [insertDate]
    by_cases h1 : d < x
    · simp only [h1, if_true]
      refine ⟨by simp [ascending, h1, h], ?_⟩
      intro y hy; simp at hy; subst hy; simp [Int.min_def]; omega
    · simp only [h1, if_false]
      by_cases h2 : d = x
      · simp only [h2, if_true]
        refine ⟨h, ?_⟩
        intro y hy; simp at hy; subst hy; simp
      · simp only [h2, if_false]
        have hr : ascending r = true := by
          cases r with
          | nil => rfl
          | cons y r' => simp only [ascending, Bool.and_eq_true] at h; exact h.2
        obtain ⟨ha, hh⟩ := ih hr
        refine ⟨?_, ?_⟩
        · cases hins : insertDate d r with
          | nil => rfl
          | cons z r'' =>
            simp only [ascending, Bool.and_eq_true, decide_eq_true_eq]
            rw [hins] at ha
            refine ⟨?_, ha⟩
            cases r with
            | nil => simp [insertDate] at hins; omega
            | cons y r' =>
              have := hh y rfl
              rw [hins] at this
              simp at this
              simp only [ascending, Bool.and_eq_true, decide_eq_true_eq] at h
              rw [this, Int.min_def]; split <;> omega
        · intro y hy; simp at hy; subst hy; simp [Int.min_def]; omega

theorem ascending_sortDates (l : List Int) : ascending (sortDates l) = true := by
  induction l with
  | nil => rfl
  | cons a r ih => exact (ascending_insertDate a _ ih).1

theorem pairwise_lt : ∀ (l : List Int), ascending l = true → ∀ p ∈ pairwise l, p.1 < p.2 := by
  intro l
  induction l with
  | nil => intro _ p hp; simp [pairwise] at hp
  | cons a r ih =>
    intro h p hp
    cases r with
    | nil => simp [pairwise] at hp
    | cons b r' =>
      simp only [ascending, Bool.and_eq_true, decide_eq_true_eq] at h
      simp only [pairwise, List.mem_cons] at hp
      rcases hp with rfl | hp
      · exact h.1
      · exact ih h.2 p hp

/-- **every TYPE 002 record covers a non-empty interval** -/
theorem staRecords_from_lt_to (sf : Bool) (rcv ant ecc : Hist) (r : Record) (hr : r ∈ staRecords sf rcv ant ecc) :
    r.from_ < r.to_ := by
  simp only [staRecords, List.mem_filterMap] at hr
  obtain ⟨p, hp, hpr⟩ := hr
  have hlt := pairwise_lt _ (ascending_sortDates _) p hp
  cases h1 : objectForDate p.1 rcv <;> cases h2 : objectForDate p.1 ant <;> cases h3 : objectForDate p.1 ecc <;>
    simp [h1, h2, h3] at hpr
  subst hpr
  exact hlt

/-! ### a record does not outlast the entries it names -/

theorem mem_insertDate (d x : Int) : ∀ (l : List Int), x ∈ insertDate d l ↔ x = d ∨ x ∈ l := by
  intro l
  induction l with
  | nil => simp [insertDate]
  | cons y r ih =>
    simp only [insertDate]
    by_cases h1 : d < y
    · simp [h1]
    · by_cases h2 : d = y
      · subst h2; simp
      · simp only [h1, h2, if_false, List.mem_cons, ih]
        constructor
        · rintro (h | h | h)
          · exact Or.inr (Or.inl h)
          · exact Or.inl h
          · exact Or.inr (Or.inr h)
        · rintro (h | h | h)
          · exact Or.inr (Or.inl h)
          · exact Or.inl h
          · exact Or.inr (Or.inr h)

theorem mem_sortDates (x : Int) : ∀ (l : List Int), x ∈ sortDates l ↔ x ∈ l := by
  intro l
  induction l with
  | nil => simp [sortDates]
  | cons a r ih =>
    have e : sortDates (a :: r) = insertDate a (sortDates r) := rfl
    rw [e, mem_insertDate, ih]; simp

theorem ascending_head_lt : ∀ (l : List Int) (a : Int), ascending (a :: l) = true → ∀ x ∈ l, a < x := by
  intro l
  induction l with
  | nil => intro a _ x hx; simp at hx
  | cons b r ih =>
    intro a h x hx
    simp only [ascending, Bool.and_eq_true, decide_eq_true_eq] at h
    rcases List.mem_cons.mp hx with rfl | hx
    · exact h.1
    · have := ih b h.2 x hx; omega

/-- in an ascending list the successor of `a` is the least element above `a` -/
theorem pairwise_next_le : ∀ (l : List Int), ascending l = true → ∀ p ∈ pairwise l, ∀ x ∈ l, p.1 < x → p.2 ≤ x := by
  intro l
  induction l with
  | nil => intro _ p hp; simp [pairwise] at hp
  | cons a r ih =>
    intro h p hp x hx hlt
    cases r with
    | nil => simp [pairwise] at hp
    | cons b r' =>
      have h' := h
      simp only [ascending, Bool.and_eq_true, decide_eq_true_eq] at h
      simp only [pairwise, List.mem_cons] at hp
      rcases hp with rfl | hp
      · rcases List.mem_cons.mp hx with rfl | hx
        · simp at hlt
        · rcases List.mem_cons.mp hx with rfl | hx
          · exact Int.le_refl _
          · have := ascending_head_lt r' b h.2 x hx; simp; omega
      · rcases List.mem_cons.mp hx with rfl | hx
        · have hp1 : p.1 ∈ b :: r' := by
            clear ih hlt
            generalize b :: r' = m at hp
            induction m with
            | nil => simp [pairwise] at hp
            | cons c m ihm =>
              cases m with
              | nil => simp [pairwise] at hp
              | cons d m' =>
                simp only [pairwise, List.mem_cons] at hp
                rcases hp with rfl | hp
                · simp
                · exact List.mem_cons_of_mem _ (ihm hp)
          have := ascending_head_lt (b :: r') x h' p.1 hp1
          omega
        · exact ih h.2 p hp x hx hlt

/-- the end of an entry is a record date when every start of the history is an event -/
theorem to_mem_recordDates (sf : Bool) (rcv ant ecc h : Hist) (e : Entry) (he : e ∈ h)
    (hstarts : ∀ x ∈ h, x.from_ ∈ eventDates sf rcv ant ecc)
    (hclose : ∀ x ∈ closingDates h, x ∈ recordDates sf rcv ant ecc) :
    e.to_ ∈ recordDates sf rcv ant ecc := by
  by_cases hs : ∃ x ∈ h, x.from_ = e.to_
  · obtain ⟨x, hx, hxe⟩ := hs
    rw [← hxe]
    unfold recordDates
    rw [mem_sortDates]
    simp only [List.mem_append]
    exact Or.inl (Or.inl (Or.inl (hstarts x hx)))
  · apply hclose
    simp only [closingDates, List.mem_map, List.mem_filter]
    refine ⟨e, ⟨he, ?_⟩, rfl⟩
    simp only [Bool.not_eq_true', List.any_eq_false, decide_eq_true_eq]
    intro x hx hxe
    exact hs ⟨x, hx, hxe⟩

theorem ant_from_mem (sf : Bool) (rcv ant ecc : Hist) : ∀ x ∈ ant, x.from_ ∈ eventDates sf rcv ant ecc := by
  intro x hx
  unfold eventDates
  rw [mem_sortDates]
  simp only [List.mem_append, List.mem_map]
  exact Or.inl (Or.inl (Or.inr ⟨x, hx, rfl⟩))

theorem ecc_from_mem (sf : Bool) (rcv ant ecc : Hist) : ∀ x ∈ ecc, x.from_ ∈ eventDates sf rcv ant ecc := by
  intro x hx
  unfold eventDates
  rw [mem_sortDates]
  simp only [List.mem_append, List.mem_map]
  exact Or.inl (Or.inr ⟨x, hx, rfl⟩)

theorem rcvEvents_all (rcv : Hist) : ∀ (former : Option Nat) (l : List Entry), rcvEventsFrom false rcv former l = l.map (·.from_) := by
  intro former l
  induction l generalizing former with
  | nil => rfl
  | cons e r ih => simp [rcvEventsFrom, ih]

theorem rcv_from_mem (rcv ant ecc : Hist) : ∀ x ∈ rcv, x.from_ ∈ eventDates false rcv ant ecc := by
  intro x hx
  unfold eventDates
  rw [mem_sortDates, rcvEvents_all]
  simp only [List.mem_append, List.mem_map]
  exact Or.inl (Or.inl (Or.inl ⟨x, hx, rfl⟩))

theorem closing_mem (sf : Bool) (rcv ant ecc : Hist) (x : Int)
    (h : x ∈ closingDates rcv ∨ x ∈ closingDates ant ∨ x ∈ closingDates ecc) : x ∈ recordDates sf rcv ant ecc := by
  unfold recordDates
  rw [mem_sortDates]
  simp only [List.mem_append]
  rcases h with h | h | h
  · exact Or.inl (Or.inl (Or.inr h))
  · exact Or.inl (Or.inr h)
  · exact Or.inr h

/-- **a TYPE 002 record ends no later than the antenna and eccentricity entries it names — and, without
`skip_firmware`, the receiver entry**: the file never claims equipment beyond the end of its entry in the site information -/
theorem staRecords_within_entries (sf : Bool) (rcv ant ecc : Hist) (r : Record) (hr : r ∈ staRecords sf rcv ant ecc) :
    r.to_ ≤ r.ant.to_ ∧ r.to_ ≤ r.ecc.to_ ∧ (sf = false → r.to_ ≤ r.rcv.to_) := by
  obtain ⟨⟨hr1, hr2, hr3⟩, ⟨ha1, ha2, ha3⟩, ⟨he1, he2, he3⟩⟩ := staRecords_sound sf rcv ant ecc r hr
  simp only [staRecords, List.mem_filterMap] at hr
  obtain ⟨p, hp, hpr⟩ := hr
  have hasc : ascending (recordDates sf rcv ant ecc) = true := ascending_sortDates _
  have hp12 : r.from_ = p.1 ∧ r.to_ = p.2 := by
    cases h1 : objectForDate p.1 rcv <;> cases h2 : objectForDate p.1 ant <;> cases h3 : objectForDate p.1 ecc <;>
      simp [h1, h2, h3] at hpr
    subst hpr; exact ⟨rfl, rfl⟩
  have key : ∀ x ∈ recordDates sf rcv ant ecc, r.from_ < x → r.to_ ≤ x := by
    intro x hx hlt
    rw [hp12.1] at hlt; rw [hp12.2]
    exact pairwise_next_le _ hasc p hp x hx hlt
  refine ⟨?_, ?_, ?_⟩
  · exact key _ (to_mem_recordDates sf rcv ant ecc ant r.ant ha1 (ant_from_mem sf rcv ant ecc)
      (fun x hx => closing_mem sf rcv ant ecc x (Or.inr (Or.inl hx)))) ha3
  · exact key _ (to_mem_recordDates sf rcv ant ecc ecc r.ecc he1 (ecc_from_mem sf rcv ant ecc)
      (fun x hx => closing_mem sf rcv ant ecc x (Or.inr (Or.inr hx)))) he3
  · intro hsf
    subst hsf
    exact key _ (to_mem_recordDates false rcv ant ecc rcv r.rcv hr1 (rcv_from_mem rcv ant ecc)
      (fun x hx => closing_mem false rcv ant ecc x (Or.inl hx))) hr3

end Midgard.WriterSta
