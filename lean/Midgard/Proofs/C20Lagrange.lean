/-
C20 — helper lemmas for the Lagrange interpolator of `Model/Numeric.lean`
(bridge to `Mathlib.LinearAlgebra.Lagrange`, window selection, sorting).
-/
import Midgard.Model.Numeric
import Mathlib.Tactic.Ring
import Mathlib.Tactic.FieldSimp
import Mathlib.Tactic.LinearCombination
import Mathlib.LinearAlgebra.Lagrange

namespace Midgard.Proofs.C20
open Midgard.Numeric

/-- the window's abscissa function -/
def nodeFn (xw : List Rat) : ℕ → ℚ := fun j => xw.getD j 0

theorem basis_eq_finprod (xw : List Rat) (i : ℕ) (x : ℚ) :
    basis xw i x = ∏ j ∈ (Finset.range xw.length).erase i, (x - nodeFn xw j) / (nodeFn xw i - nodeFn xw j) := by
  unfold basis nodeFn
  rw [← List.toFinset_range, ← List.prod_toFinset]
  · congr 1
    ext j
    simp [Finset.mem_erase, and_comm]
  · exact List.nodup_range.filter _

theorem nodeFn_injOn (xw : List Rat) (h : xw.Nodup) : Set.InjOn (nodeFn xw) (Finset.range xw.length : Finset ℕ) := by
  intro a ha b hb hab
  simp only [Finset.coe_range, Set.mem_Iio] at ha hb
  unfold nodeFn at hab
  have e1 : xw.getD a 0 = xw[a] := by simp [List.getD_eq_getElem?_getD, ha]
  have e2 : xw.getD b 0 = xw[b] := by simp [List.getD_eq_getElem?_getD, hb]
  rw [e1, e2] at hab
  exact (List.Nodup.getElem_inj_iff h).mp hab

theorem basis_eq_eval (xw : List Rat) (i : ℕ) (x : ℚ) :
    basis xw i x = Polynomial.eval x (Lagrange.basis (Finset.range xw.length) (nodeFn xw) i) := by
  rw [basis_eq_finprod, Lagrange.basis, Polynomial.eval_prod]
  apply Finset.prod_congr rfl
  intro j _
  simp [Lagrange.basisDivisor, div_eq_mul_inv, mul_comm]

theorem dot_map_range (n : ℕ) (f g : ℕ → ℚ) :
    dot ((List.range n).map f) ((List.range n).map g) = ∑ i ∈ Finset.range n, f i * g i := by
  unfold dot
  induction n with
  | zero => simp
  | succ n ih =>
    rw [List.range_succ, List.map_append, List.map_append, List.zipWith_append (by simp),
      List.sum_append, ih, Finset.sum_range_succ]
    simp

theorem list_eq_map_range (col : List ℚ) : col = (List.range col.length).map (fun i => col.getD i 0) := by
  apply List.ext_getElem
  · simp
  · intro i h1 h2
    simp [List.getD_eq_getElem?_getD, h1]

theorem dot_weights (xw col : List ℚ) (x : ℚ) (h : col.length = xw.length) :
    dot (weights xw x) col = ∑ i ∈ Finset.range xw.length, basis xw i x * col.getD i 0 := by
  have hc := list_eq_map_range col
  rw [h] at hc
  unfold weights
  conv_lhs => rw [hc]
  exact dot_map_range _ _ _

theorem absR_nonneg (q : ℚ) : 0 ≤ absR q := by
  unfold absR; split <;> linarith

theorem absR_pos {q : ℚ} (h : q ≠ 0) : 0 < absR q := by
  unfold absR; split
  · linarith
  · rcases lt_or_gt_of_ne h with h' | h'
    · contradiction
    · exact h'

theorem absR_zero : absR 0 = 0 := by simp [absR]

theorem argminAbs_node : ∀ (xs : List ℚ) (k : ℕ), xs.Pairwise (· < ·) → k < xs.length →
    argminAbs xs (xs.getD k 0) = k
  | [], k, _, hk => by simp at hk
  | [a], k, _, hk => by
    simp at hk; subst hk; simp [argminAbs]
  | a :: b :: l, 0, _, _ => by
    simp only [argminAbs, List.getD_cons_zero, sub_self, absR_zero]
    rw [if_neg]
    exact not_lt.mpr (absR_nonneg _)
  | a :: b :: l, k + 1, hp, hk => by
    have hp' := List.pairwise_cons.mp hp
    have ih := argminAbs_node (b :: l) k hp'.2 (by simpa using hk)
    have hx : (a :: b :: l).getD (k + 1) 0 = (b :: l).getD k 0 := by simp
    rw [hx]
    simp only [argminAbs] at ih ⊢
    rw [ih]
    have hmem : (b :: l).getD k 0 ∈ (b :: l) := by
      have hk' : k < (b :: l).length := by simpa using hk
      rw [List.getD_eq_getElem?_getD, List.getElem?_eq_getElem hk']
      exact List.getElem_mem hk'
    have hlt := hp'.1 _ hmem
    rw [sub_self, absR_zero, if_pos]
    apply absR_pos
    linarith

theorem getD_take_drop {α} (l : List α) (st w j : ℕ) (d : α) (hj : j < w) :
    ((l.drop st).take w).getD j d = l.getD (st + j) d := by
  simp [List.getD_eq_getElem?_getD, hj]

theorem length_take_drop {α} (l : List α) (st w : ℕ) (h : st + w ≤ l.length) :
    ((l.drop st).take w).length = w := by
  simp; omega

theorem pairwise_take_drop (l : List ℚ) (st w : ℕ) (h : l.Pairwise (· < ·)) :
    ((l.drop st).take w).Pairwise (· < ·) :=
  (h.sublist (List.drop_sublist _ _)).sublist (List.take_sublist _ _)

theorem nodup_of_pairwise_lt (l : List ℚ) (h : l.Pairwise (· < ·)) : l.Nodup :=
  h.imp (fun hab => ne_of_lt hab)

/-- the basis does not see an affine rescaling of the abscissae -/
theorem basis_map_scale (l : List ℚ) (m s : ℚ) (hs : s ≠ 0) (i : ℕ) (hi : i < l.length) (x : ℚ) :
    basis (l.map (fun v => (v - m) / s)) i ((x - m) / s) = basis l i x := by
  unfold basis
  rw [List.length_map]
  congr 1
  apply List.map_congr_left
  intro j hj
  have hj' : j < l.length := by
    have := (List.mem_filter.mp hj).1
    simpa using this
  have e1 : (l.map (fun v => (v - m) / s)).getD j 0 = (l.getD j 0 - m) / s := by
    simp [List.getD_eq_getElem?_getD, hj']
  have e2 : (l.map (fun v => (v - m) / s)).getD i 0 = (l.getD i 0 - m) / s := by
    simp [List.getD_eq_getElem?_getD, hi]
  rw [e1, e2]
  have h1 : (x - m) / s - (l.getD j 0 - m) / s = (x - l.getD j 0) / s := by ring
  have h2 : (l.getD i 0 - m) / s - (l.getD j 0 - m) / s = (l.getD i 0 - l.getD j 0) / s := by ring
  rw [h1, h2, div_div_div_cancel_right₀ hs]

theorem weights_map_scale (l : List ℚ) (m s : ℚ) (hs : s ≠ 0) (x : ℚ) :
    weights (l.map (fun v => (v - m) / s)) ((x - m) / s) = weights l x := by
  unfold weights
  rw [List.length_map]
  apply List.map_congr_left
  intro i hi
  exact basis_map_scale l m s hs i (by simpa using hi) x


/-! ### the window interpolant is Mathlib's Lagrange interpolant -/

theorem dot_weights_eq_interp (xw col : List ℚ) (h : col.length = xw.length) (x : ℚ) :
    dot (weights xw x) col = Polynomial.eval x
      (Lagrange.interpolate (Finset.range xw.length) (nodeFn xw) (fun i => col.getD i 0)) := by
  rw [dot_weights xw col x h, Lagrange.interpolate_apply, Polynomial.eval_finsetSum]
  apply Finset.sum_congr rfl
  intro i _
  rw [Polynomial.eval_mul, Polynomial.eval_C, basis_eq_eval, mul_comm]

theorem dot_weights_node (xw col : List ℚ) (hn : xw.Nodup) (h : col.length = xw.length) (j : ℕ)
    (hj : j < xw.length) : dot (weights xw (xw.getD j 0)) col = col.getD j 0 := by
  rw [dot_weights_eq_interp xw col h]
  exact Lagrange.eval_interpolate_at_node _ (nodeFn_injOn xw hn) (Finset.mem_range.mpr hj)

theorem dot_weights_poly (xw : List ℚ) (hn : xw.Nodup) (P : Polynomial ℚ)
    (hdeg : P.degree < (xw.length : ℕ)) (col : List ℚ) (h : col.length = xw.length)
    (hcol : ∀ i, i < xw.length → col.getD i 0 = P.eval (xw.getD i 0)) (x : ℚ) :
    dot (weights xw x) col = P.eval x := by
  rw [dot_weights_eq_interp xw col h]
  have hinj := nodeFn_injOn xw hn
  have e : Lagrange.interpolate (Finset.range xw.length) (nodeFn xw) (fun i => col.getD i 0)
      = Lagrange.interpolate (Finset.range xw.length) (nodeFn xw) (fun i => P.eval (nodeFn xw i)) := by
    apply Lagrange.interpolate_eq_of_values_eq_on
    intro i hi
    exact hcol i (Finset.mem_range.mp hi)
  rw [e, ← Lagrange.eq_interpolate hinj (by simpa using hdeg)]

/-! ### from the window to `lagrangeAt` -/

/-- the window interpolant on the unscaled abscissae -/
def rawAt (xs : List ℚ) (rows : List (List ℚ)) (dim w : ℕ) (x : ℚ) : List ℚ :=
  combine (weights ((xs.drop (startIdx xs w x)).take w) x) ((rows.drop (startIdx xs w x)).take w) dim

theorem lagrangeAt_eq_raw (xs : List ℚ) (rows : List (List ℚ)) (dim w : ℕ) (m s x : ℚ) (hs : s ≠ 0) :
    lagrangeAt xs rows dim w m s x = rawAt xs rows dim w x := by
  unfold lagrangeAt rawAt
  simp only [weights_map_scale _ m s hs]

theorem combine_length (r : List ℚ) (rows : List (List ℚ)) (dim : ℕ) : (combine r rows dim).length = dim := by
  simp [combine]

theorem combine_getD (r : List ℚ) (rows : List (List ℚ)) (dim c : ℕ) (hc : c < dim) :
    (combine r rows dim).getD c 0 = dot r (rows.map (·.getD c 0)) := by
  simp [combine, List.getD_eq_getElem?_getD, hc]

theorem startIdx_add_le (xs : List ℚ) (w : ℕ) (x : ℚ) (hwn : w ≤ xs.length) :
    startIdx xs w x + w ≤ xs.length := by
  unfold startIdx; omega

theorem startIdx_node (xs : List ℚ) (w k : ℕ) (hp : xs.Pairwise (· < ·)) (hk : k < xs.length)
    (hw : 1 ≤ w) (hwn : w ≤ xs.length) :
    startIdx xs w (xs.getD k 0) ≤ k ∧ k < startIdx xs w (xs.getD k 0) + w := by
  unfold startIdx
  rw [argminAbs_node xs k hp hk]
  omega

theorem getD_map_col (l : List (List ℚ)) (c j : ℕ) :
    (l.map (·.getD c 0)).getD j 0 = (l.getD j []).getD c 0 := by
  by_cases hj : j < l.length
  · simp [List.getD_eq_getElem?_getD, hj]
  · simp [List.getD_eq_getElem?_getD, not_lt.mp hj]

theorem rawAt_getElem (xs : List ℚ) (rows : List (List ℚ)) (dim w : ℕ) (x : ℚ) (c : ℕ) (_hc : c < dim)
    (h : c < (rawAt xs rows dim w x).length) :
    (rawAt xs rows dim w x)[c] =
      dot (weights ((xs.drop (startIdx xs w x)).take w) x)
        (((rows.drop (startIdx xs w x)).take w).map (·.getD c 0)) := by
  simp [rawAt, combine]

/-- **node reproduction** for the window interpolant as the code evaluates it -/
theorem lagrangeAt_node (xs : List ℚ) (rows : List (List ℚ)) (dim w : ℕ) (m s : ℚ) (k : ℕ)
    (hs : s ≠ 0) (hp : xs.Pairwise (· < ·)) (hk : k < xs.length) (hw : 1 ≤ w) (hwn : w ≤ xs.length)
    (hlen : rows.length = xs.length) :
    lagrangeAt xs rows dim w m s (xs.getD k 0) = (List.range dim).map (fun c => (rows.getD k []).getD c 0) := by
  rw [lagrangeAt_eq_raw _ _ _ _ _ _ _ hs]
  apply List.ext_getElem
  · simp [rawAt, combine_length]
  · intro c h1 h2
    have hc : c < dim := by simpa using h2
    rw [rawAt_getElem xs rows dim w _ c hc h1]
    obtain ⟨hst1, hst2⟩ := startIdx_node xs w k hp hk hw hwn
    have hstw := startIdx_add_le xs w (xs.getD k 0) hwn
    generalize startIdx xs w (xs.getD k 0) = st at *
    have hj : k - st < w := by omega
    have hx : xs.getD k 0 = ((xs.drop st).take w).getD (k - st) 0 := by
      rw [getD_take_drop _ _ _ _ _ hj]; congr 1; omega
    have hwl : ((xs.drop st).take w).length = w := length_take_drop _ _ _ hstw
    rw [hx, dot_weights_node _ _ (nodup_of_pairwise_lt _ (pairwise_take_drop _ _ _ hp))
      (by rw [List.length_map, hwl, length_take_drop _ _ _ (by omega)]) _ (by omega)]
    rw [getD_map_col, getD_take_drop _ _ _ _ _ hj]
    simp only [List.getElem_map, List.getElem_range]
    congr 2; omega

/-- **polynomial reproduction**: data sampled from a polynomial of degree below the window size -/
theorem lagrangeAt_poly (xs : List ℚ) (rows : List (List ℚ)) (dim w : ℕ) (m s x : ℚ) (c : ℕ)
    (hs : s ≠ 0) (hp : xs.Pairwise (· < ·)) (hwn : w ≤ xs.length) (hlen : rows.length = xs.length)
    (hc : c < dim) (P : Polynomial ℚ) (hdeg : P.degree < (w : ℕ))
    (hdata : ∀ i, i < xs.length → (rows.getD i []).getD c 0 = P.eval (xs.getD i 0)) :
    (lagrangeAt xs rows dim w m s x).getD c 0 = P.eval x := by
  rw [lagrangeAt_eq_raw _ _ _ _ _ _ _ hs]
  have hl : c < (rawAt xs rows dim w x).length := by simp [rawAt, combine_length, hc]
  rw [List.getD_eq_getElem?_getD, List.getElem?_eq_getElem hl, Option.getD_some,
    rawAt_getElem xs rows dim w x c hc hl]
  have hstw := startIdx_add_le xs w x hwn
  generalize startIdx xs w x = st at *
  have hwl : ((xs.drop st).take w).length = w := length_take_drop _ _ _ hstw
  apply dot_weights_poly _ (nodup_of_pairwise_lt _ (pairwise_take_drop _ _ _ hp)) P (by rw [hwl]; exact hdeg)
  · rw [List.length_map, hwl, length_take_drop _ _ _ (by omega)]
  · intro i hi
    rw [hwl] at hi
    rw [getD_map_col, getD_take_drop _ _ _ _ _ hi, getD_take_drop _ _ _ _ _ hi]
    exact hdata _ (by omega)

/-! ### linearity, n-dimensional data -/

theorem lagrangeAt_getD (xs : List ℚ) (rows : List (List ℚ)) (dim w : ℕ) (m s x : ℚ) (c : ℕ) (hc : c < dim) :
    (lagrangeAt xs rows dim w m s x).getD c 0 =
      dot (weights (((xs.drop (startIdx xs w x)).take w).map (fun v => (v - m) / s)) ((x - m) / s))
        (((rows.drop (startIdx xs w x)).take w).map (·.getD c 0)) := by
  simp [lagrangeAt, combine, List.getD_eq_getElem?_getD, hc]

/-- **linear in the data** (no side condition on the abscissae) -/
theorem lagrangeAt_linear (xs : List ℚ) (r₁ r₂ r₃ : List (List ℚ)) (dim w : ℕ) (m s x a b : ℚ) (c : ℕ)
    (hc : c < dim) (hwn : w ≤ xs.length)
    (h₁ : r₁.length = xs.length) (h₂ : r₂.length = xs.length) (h₃ : r₃.length = xs.length)
    (hcomb : ∀ i, i < xs.length →
      (r₃.getD i []).getD c 0 = a * (r₁.getD i []).getD c 0 + b * (r₂.getD i []).getD c 0) :
    (lagrangeAt xs r₃ dim w m s x).getD c 0 =
      a * (lagrangeAt xs r₁ dim w m s x).getD c 0 + b * (lagrangeAt xs r₂ dim w m s x).getD c 0 := by
  rw [lagrangeAt_getD _ _ _ _ _ _ _ _ hc, lagrangeAt_getD _ _ _ _ _ _ _ _ hc, lagrangeAt_getD _ _ _ _ _ _ _ _ hc]
  have hstw := startIdx_add_le xs w x hwn
  generalize startIdx xs w x = st at *
  have hwl : (((xs.drop st).take w).map (fun v => (v - m) / s)).length = w := by
    rw [List.length_map, length_take_drop _ _ _ hstw]
  have hcl : ∀ r : List (List ℚ), r.length = xs.length →
      (((r.drop st).take w).map (·.getD c 0)).length
        = (((xs.drop st).take w).map (fun v => (v - m) / s)).length := by
    intro r hr
    rw [hwl, List.length_map, length_take_drop _ _ _ (by omega)]
  rw [dot_weights _ _ _ (hcl r₃ h₃), dot_weights _ _ _ (hcl r₁ h₁), dot_weights _ _ _ (hcl r₂ h₂),
    Finset.mul_sum, Finset.mul_sum, ← Finset.sum_add_distrib]
  apply Finset.sum_congr rfl
  intro i hi
  rw [hwl] at hi
  have hi' : i < w := Finset.mem_range.mp hi
  rw [getD_map_col, getD_map_col, getD_map_col, getD_take_drop _ _ _ _ _ hi', getD_take_drop _ _ _ _ _ hi',
    getD_take_drop _ _ _ _ _ hi', hcomb _ (by omega)]
  ring

/-- **n-dimensional data alike**: component `c` of the result is the 1-dimensional interpolation of column `c` -/
theorem lagrangeAt_component (xs : List ℚ) (rows : List (List ℚ)) (dim w : ℕ) (m s x : ℚ) (c : ℕ) (hc : c < dim) :
    (lagrangeAt xs rows dim w m s x).getD c 0 =
      (lagrangeAt xs (rows.map (fun r => [r.getD c 0])) 1 w m s x).getD 0 0 := by
  rw [lagrangeAt_getD _ _ _ _ _ _ _ _ hc, lagrangeAt_getD _ _ _ _ _ _ _ _ Nat.one_pos]
  congr 1
  rw [← List.map_drop, ← List.map_take, List.map_map]
  apply List.map_congr_left
  intro r _
  simp

/-! ### sorting -/

theorem insertBy_perm {α} (a : ℚ × α) : ∀ l : List (ℚ × α), (insertBy a l).Perm (a :: l)
  | [] => by simp [insertBy]
  | b :: l => by
    unfold insertBy
    split
    · exact List.Perm.refl _
    · exact ((insertBy_perm a l).cons b).trans (List.Perm.swap a b l)

theorem sortBy_perm {α} : ∀ l : List (ℚ × α), (sortBy l).Perm l
  | [] => by simp [sortBy]
  | a :: l => by
    unfold sortBy
    exact (insertBy_perm a _).trans ((sortBy_perm l).cons a)

theorem insertBy_sorted {α} (a : ℚ × α) : ∀ l : List (ℚ × α), l.Pairwise (fun p q => p.1 ≤ q.1) →
    (insertBy a l).Pairwise (fun p q => p.1 ≤ q.1)
  | [], _ => by simp [insertBy]
  | b :: l, h => by
    unfold insertBy
    have hb := List.pairwise_cons.mp h
    split
    · rename_i hab
      refine List.pairwise_cons.mpr ⟨?_, h⟩
      intro q hq
      rcases List.mem_cons.mp hq with rfl | hq
      · exact hab
      · exact le_trans hab (hb.1 q hq)
    · rename_i hab
      refine List.pairwise_cons.mpr ⟨?_, insertBy_sorted a l hb.2⟩
      intro q hq
      have := (insertBy_perm a l).mem_iff.mp hq
      rcases List.mem_cons.mp this with rfl | hq
      · exact le_of_lt (not_le.mp hab)
      · exact hb.1 q hq

theorem sortBy_sorted {α} : ∀ l : List (ℚ × α), (sortBy l).Pairwise (fun p q => p.1 ≤ q.1)
  | [] => by simp [sortBy]
  | a :: l => by
    unfold sortBy
    exact insertBy_sorted a _ (sortBy_sorted l)

theorem strictInc_pairwise : ∀ l : List ℚ, strictInc l = true → l.Pairwise (· < ·)
  | [], _ => List.Pairwise.nil
  | [a], _ => by simp
  | a :: b :: l, h => by
    simp only [strictInc, Bool.and_eq_true, decide_eq_true_eq] at h
    have ih := strictInc_pairwise (b :: l) h.2
    refine List.pairwise_cons.mpr ⟨?_, ih⟩
    intro q hq
    rcases List.mem_cons.mp hq with rfl | hq
    · exact h.1
    · exact lt_trans h.1 ((List.pairwise_cons.mp ih).1 q hq)

/-- two sample lists that are permutations of each other and have distinct abscissae sort to the same list -/
theorem sortBy_eq_of_perm {α} (l₁ l₂ : List (ℚ × α)) (hperm : l₁.Perm l₂)
    (hinc : strictInc ((sortBy l₁).map (·.1)) = true) : sortBy l₂ = sortBy l₁ := by
  have hlt := strictInc_pairwise _ hinc
  have hnd : ((sortBy l₁).map (·.1)).Nodup := nodup_of_pairwise_lt _ hlt
  have hp12 : (sortBy l₂).Perm (sortBy l₁) :=
    (sortBy_perm l₂).trans (hperm.symm.trans (sortBy_perm l₁).symm)
  refine List.Perm.eq_of_pairwise (le := fun p q => p.1 ≤ q.1) ?_ (sortBy_sorted l₂) ?_ hp12
  · intro a b ha hb hab hba
    have ha' : a ∈ sortBy l₁ := hp12.mem_iff.mp ha
    exact List.inj_on_of_nodup_map hnd ha' hb (le_antisymm hab hba)
  · exact (List.pairwise_map.mp hlt).imp (fun h => le_of_lt h)

/-! ### the whole call -/

/-- the samples as the interpolant sees them -/
def sortedPairs (xs : List ℚ) (rows : List (List ℚ)) (assumeSorted : Bool) : List (ℚ × List ℚ) :=
  if assumeSorted then xs.zip rows else sortBy (xs.zip rows)

theorem lagrange_ok_form (xs : List ℚ) (rows : List (List ℚ)) (dim w : ℕ) (be srt : Bool) (s : ℚ)
    (xnew : List ℚ) (out : List (List ℚ)) (h : lagrange xs rows dim w be srt s xnew = .ok out) :
    rows.length = xs.length ∧ 3 ≤ w ∧ w ≤ xs.length ∧
    strictInc ((sortedPairs xs rows srt).map (·.1)) = true ∧
    out = xnew.map (fun x => lagrangeAt ((sortedPairs xs rows srt).map (·.1)) ((sortedPairs xs rows srt).map (·.2))
      dim w (mean ((sortedPairs xs rows srt).map (·.1))) s x) := by
  cases srt <;> simp only [lagrange, sortedPairs, Bool.false_eq_true, ↓reduceIte] at h ⊢
  all_goals
    split at h
    · exact absurd h (by simp)
    rename_i h1
    split at h
    · exact absurd h (by simp)
    rename_i h2
    split at h
    · exact absurd h (by simp)
    rename_i h3
    split at h
    · exact absurd h (by simp)
    rename_i h4
    split at h
    · exact absurd h (by simp)
    split at h
    · exact absurd h (by simp)
    refine ⟨by simpa using h1, by omega, by omega, by simpa using h4, ?_⟩
    injection h with h
    exact h.symm

theorem sortedPairs_perm (xs : List ℚ) (rows : List (List ℚ)) (srt : Bool) :
    (sortedPairs xs rows srt).Perm (xs.zip rows) := by
  cases srt
  · exact sortBy_perm _
  · exact List.Perm.refl _

/-- a property of every sample is a property of every sorted sample -/
theorem sortedPairs_forall (xs : List ℚ) (rows : List (List ℚ)) (srt : Bool) (Q : ℚ → List ℚ → Prop)
    (hQ : ∀ i, i < xs.length → Q (xs.getD i 0) (rows.getD i [])) (hl : rows.length = xs.length) (k : ℕ)
    (hk : k < (sortedPairs xs rows srt).length) :
    Q (((sortedPairs xs rows srt).map (·.1)).getD k 0) (((sortedPairs xs rows srt).map (·.2)).getD k []) := by
  have hmem : (sortedPairs xs rows srt)[k] ∈ xs.zip rows :=
    (sortedPairs_perm xs rows srt).mem_iff.mp (List.getElem_mem hk)
  obtain ⟨i, hi, hik⟩ := List.mem_iff_getElem.mp hmem
  have hi' : i < xs.length := by simp [List.length_zip] at hi; omega
  have hq := hQ i hi'
  have e1 : xs.getD i 0 = ((sortedPairs xs rows srt).map (·.1)).getD k 0 := by
    simp [List.getD_eq_getElem?_getD, hk, hi', ← hik]
  have e2 : rows.getD i [] = ((sortedPairs xs rows srt).map (·.2)).getD k [] := by
    have : i < rows.length := by omega
    simp [List.getD_eq_getElem?_getD, hk, this, ← hik]
  rw [e1, e2] at hq
  exact hq

/-- every sample occurs among the sorted samples -/
theorem sortedPairs_index (xs : List ℚ) (rows : List (List ℚ)) (srt : Bool) (hl : rows.length = xs.length)
    (i : ℕ) (hi : i < xs.length) :
    ∃ k, k < (sortedPairs xs rows srt).length ∧
      ((sortedPairs xs rows srt).map (·.1)).getD k 0 = xs.getD i 0 ∧
      ((sortedPairs xs rows srt).map (·.2)).getD k [] = rows.getD i [] := by
  have hiz : i < (xs.zip rows).length := by simp [List.length_zip]; omega
  have hmem : (xs.zip rows)[i] ∈ sortedPairs xs rows srt :=
    (sortedPairs_perm xs rows srt).mem_iff.mpr (List.getElem_mem hiz)
  obtain ⟨k, hk, hki⟩ := List.mem_iff_getElem.mp hmem
  refine ⟨k, hk, ?_, ?_⟩
  · simp [List.getD_eq_getElem?_getD, hk, hi, hki]
  · have : i < rows.length := by omega
    simp [List.getD_eq_getElem?_getD, hk, this, hki]

theorem sortedPairs_length (xs : List ℚ) (rows : List (List ℚ)) (srt : Bool) (hl : rows.length = xs.length) :
    (sortedPairs xs rows srt).length = xs.length := by
  rw [(sortedPairs_perm xs rows srt).length_eq]; simp [List.length_zip, hl]

/-- **node reproduction**, whole call: wherever a new abscissa equals a sample abscissa the result is that sample -/
theorem lagrange_nodes (xs : List ℚ) (rows : List (List ℚ)) (dim w : ℕ) (be srt : Bool) (s : ℚ)
    (xnew : List ℚ) (out : List (List ℚ)) (h : lagrange xs rows dim w be srt s xnew = .ok out) (hs : s ≠ 0)
    (i j : ℕ) (hi : i < xs.length) (hj : j < xnew.length) (hx : xnew.getD j 0 = xs.getD i 0) :
    out.getD j [] = (List.range dim).map (fun c => (rows.getD i []).getD c 0) := by
  obtain ⟨hl, hw3, hwn, hinc, rfl⟩ := lagrange_ok_form _ _ _ _ _ _ _ _ _ h
  obtain ⟨k, hk, hk1, hk2⟩ := sortedPairs_index xs rows srt hl i hi
  have hlen := sortedPairs_length xs rows srt hl
  have e : (xnew.map (fun x => lagrangeAt ((sortedPairs xs rows srt).map (·.1)) ((sortedPairs xs rows srt).map (·.2))
      dim w (mean ((sortedPairs xs rows srt).map (·.1))) s x)).getD j []
      = lagrangeAt ((sortedPairs xs rows srt).map (·.1)) ((sortedPairs xs rows srt).map (·.2))
      dim w (mean ((sortedPairs xs rows srt).map (·.1))) s (xnew.getD j 0) := by
    simp [List.getD_eq_getElem?_getD, hj]
  rw [e, hx, ← hk1, lagrangeAt_node _ _ _ _ _ _ k hs (strictInc_pairwise _ hinc) (by simpa using hk) (by omega)
    (by simpa [hlen] using hwn) (by simp), hk2]

/-- **polynomial reproduction**, whole call -/
theorem lagrange_poly (xs : List ℚ) (rows : List (List ℚ)) (dim w : ℕ) (be srt : Bool) (s : ℚ)
    (xnew : List ℚ) (out : List (List ℚ)) (h : lagrange xs rows dim w be srt s xnew = .ok out) (hs : s ≠ 0)
    (c : ℕ) (hc : c < dim) (P : Polynomial ℚ) (hdeg : P.degree < (w : ℕ))
    (hdata : ∀ i, i < xs.length → (rows.getD i []).getD c 0 = P.eval (xs.getD i 0))
    (j : ℕ) (hj : j < xnew.length) :
    (out.getD j []).getD c 0 = P.eval (xnew.getD j 0) := by
  obtain ⟨hl, hw3, hwn, hinc, rfl⟩ := lagrange_ok_form _ _ _ _ _ _ _ _ _ h
  have hlen := sortedPairs_length xs rows srt hl
  have e : (xnew.map (fun x => lagrangeAt ((sortedPairs xs rows srt).map (·.1)) ((sortedPairs xs rows srt).map (·.2))
      dim w (mean ((sortedPairs xs rows srt).map (·.1))) s x)).getD j []
      = lagrangeAt ((sortedPairs xs rows srt).map (·.1)) ((sortedPairs xs rows srt).map (·.2))
      dim w (mean ((sortedPairs xs rows srt).map (·.1))) s (xnew.getD j 0) := by
    simp [List.getD_eq_getElem?_getD, hj]
  rw [e]
  apply lagrangeAt_poly _ _ _ _ _ _ _ _ hs (strictInc_pairwise _ hinc) (by simpa [hlen] using hwn) (by simp) hc P hdeg
  intro k hk
  exact sortedPairs_forall xs rows srt (fun x r => r.getD c 0 = P.eval x) hdata hl k (by simpa using hk)

/-- **invariance under reordering of the samples** (unsorted input accepted: `assume_sorted=False`) -/
theorem lagrange_perm (xs xs' : List ℚ) (rows rows' : List (List ℚ)) (dim w : ℕ) (be : Bool) (s : ℚ)
    (xnew : List ℚ) (hl : rows.length = xs.length) (hl' : rows'.length = xs'.length)
    (hperm : (xs.zip rows).Perm (xs'.zip rows'))
    (hdist : strictInc ((sortBy (xs.zip rows)).map (·.1)) = true) :
    lagrange xs' rows' dim w be false s xnew = lagrange xs rows dim w be false s xnew := by
  have hlen : xs'.length = xs.length := by
    have := hperm.length_eq
    simp [List.length_zip, hl, hl'] at this
    omega
  have hsort := sortBy_eq_of_perm _ _ hperm hdist
  simp only [lagrange, hl, hl', hlen, hsort, Bool.false_eq_true, ↓reduceIte]


theorem insertBy_map {α β} (f : α → β) (a : ℚ × α) : ∀ l : List (ℚ × α),
    insertBy (Prod.map id f a) (l.map (Prod.map id f)) = (insertBy a l).map (Prod.map id f)
  | [] => by simp [insertBy]
  | b :: l => by
    simp only [List.map_cons, insertBy, Prod.map_fst, id_eq]
    split
    · simp
    · simp [insertBy_map f a l]

theorem sortBy_map {α β} (f : α → β) : ∀ l : List (ℚ × α),
    sortBy (l.map (Prod.map id f)) = (sortBy l).map (Prod.map id f)
  | [] => by simp [sortBy]
  | a :: l => by
    simp only [List.map_cons, sortBy, sortBy_map f l, insertBy_map]

/-- sorting inspects abscissae only: the sorted samples of `xs.zip (R.map g)` are those of `xs.zip R`, mapped -/
theorem sortedPairs_map {β} (g : β → List ℚ) (xs : List ℚ) (R : List β) (srt : Bool) :
    sortedPairs xs (R.map g) srt =
      ((if srt then xs.zip R else sortBy (xs.zip R)) : List (ℚ × β)).map (Prod.map id g) := by
  unfold sortedPairs
  have hz : xs.zip (R.map g) = (xs.zip R).map (Prod.map id g) := by
    rw [List.zip_map_right]
  cases srt
  · simp only [Bool.false_eq_true, if_false, hz, sortBy_map]
  · simp only [if_true, hz]

abbrev Triple := List ℚ × List ℚ × List ℚ

/-- three data sets over the same abscissae are sorted by one common permutation -/
theorem sorted_triples (xs : List ℚ) (r₁ r₂ r₃ : List (List ℚ)) (srt : Bool)
    (l₁ : r₁.length = xs.length) (l₂ : r₂.length = xs.length) (l₃ : r₃.length = xs.length) :
    ∃ Z : List (ℚ × Triple), Z.length = xs.length ∧
      sortedPairs xs r₁ srt = Z.map (Prod.map id (fun t => t.1)) ∧
      sortedPairs xs r₂ srt = Z.map (Prod.map id (fun t => t.2.1)) ∧
      sortedPairs xs r₃ srt = Z.map (Prod.map id (fun t => t.2.2)) ∧
      ∀ i (hi : i < Z.length), ∃ t, t < xs.length ∧
        r₁.getD t [] = (Z[i]).2.1 ∧ r₂.getD t [] = (Z[i]).2.2.1 ∧ r₃.getD t [] = (Z[i]).2.2.2 := by
  let R : List Triple := r₁.zip (r₂.zip r₃)
  have e₁ : r₁ = R.map (fun t => t.1) := by
    simp only [R]; rw [List.map_fst_zip]; simp [List.length_zip]; omega
  have e₂ : r₂ = R.map (fun t => t.2.1) := by
    have : R.map (fun t => t.2.1) = (R.map (fun t => t.2)).map (fun u => u.1) := by simp [List.map_map]
    rw [this]; simp only [R]
    rw [List.map_snd_zip (by simp [List.length_zip]; omega), List.map_fst_zip (by omega)]
  have e₃ : r₃ = R.map (fun t => t.2.2) := by
    have : R.map (fun t => t.2.2) = (R.map (fun t => t.2)).map (fun u => u.2) := by simp [List.map_map]
    rw [this]; simp only [R]
    rw [List.map_snd_zip (by simp [List.length_zip]; omega), List.map_snd_zip (by omega)]
  have hRlen : R.length = xs.length := by simp [R, List.length_zip]; omega
  refine ⟨if srt then xs.zip R else sortBy (xs.zip R), ?_, ?_, ?_, ?_, ?_⟩
  · have hp : (if srt then xs.zip R else sortBy (xs.zip R)).Perm (xs.zip R) := by
      cases srt
      · exact sortBy_perm _
      · exact List.Perm.refl _
    rw [hp.length_eq]; simp [List.length_zip, hRlen]
  · conv_lhs => rw [e₁]
    exact sortedPairs_map _ xs R srt
  · conv_lhs => rw [e₂]
    exact sortedPairs_map _ xs R srt
  · conv_lhs => rw [e₃]
    exact sortedPairs_map _ xs R srt
  · intro i hi
    have hp : (if srt then xs.zip R else sortBy (xs.zip R)).Perm (xs.zip R) := by
      cases srt
      · exact sortBy_perm _
      · exact List.Perm.refl _
    have hmem := hp.mem_iff.mp (List.getElem_mem hi)
    obtain ⟨t, ht, hti⟩ := List.mem_iff_getElem.mp hmem
    have ht' : t < xs.length := by simp [List.length_zip] at ht; omega
    have htR : t < R.length := by omega
    refine ⟨t, ht', ?_, ?_, ?_⟩
    · rw [e₁, ← hti]; simp [List.getD_eq_getElem?_getD, htR]
    · rw [e₂, ← hti]; simp [List.getD_eq_getElem?_getD, htR]
    · rw [e₃, ← hti]; simp [List.getD_eq_getElem?_getD, htR]

theorem fst_comp_map (g : Triple → List ℚ) :
    ((fun x : ℚ × List ℚ => x.1) ∘ Prod.map id g) = (fun z : ℚ × Triple => z.1) := by
  funext z; simp

/-- **linear in the data**, whole call (sorted or unsorted input) -/
theorem lagrange_linear (xs : List ℚ) (r₁ r₂ r₃ : List (List ℚ)) (dim w : ℕ) (be srt : Bool) (s : ℚ)
    (xnew : List ℚ) (a b : ℚ) (o₁ o₂ o₃ : List (List ℚ))
    (h₁ : lagrange xs r₁ dim w be srt s xnew = .ok o₁)
    (h₂ : lagrange xs r₂ dim w be srt s xnew = .ok o₂)
    (h₃ : lagrange xs r₃ dim w be srt s xnew = .ok o₃)
    (c : ℕ) (hc : c < dim)
    (hcomb : ∀ i, i < xs.length →
      (r₃.getD i []).getD c 0 = a * (r₁.getD i []).getD c 0 + b * (r₂.getD i []).getD c 0)
    (j : ℕ) (hj : j < xnew.length) :
    (o₃.getD j []).getD c 0 = a * (o₁.getD j []).getD c 0 + b * (o₂.getD j []).getD c 0 := by
  obtain ⟨l₁, _, hwn, _, rfl⟩ := lagrange_ok_form _ _ _ _ _ _ _ _ _ h₁
  obtain ⟨l₂, _, _, _, rfl⟩ := lagrange_ok_form _ _ _ _ _ _ _ _ _ h₂
  obtain ⟨l₃, _, _, _, rfl⟩ := lagrange_ok_form _ _ _ _ _ _ _ _ _ h₃
  obtain ⟨Z, hZlen, s₁, s₂, s₃, hZ⟩ := sorted_triples xs r₁ r₂ r₃ srt l₁ l₂ l₃
  have getD_map : ∀ (f : ℚ → List ℚ), (xnew.map f).getD j [] = f (xnew.getD j 0) := by
    intro f; simp [List.getD_eq_getElem?_getD, hj]
  rw [getD_map, getD_map, getD_map, s₁, s₂, s₃]
  simp only [List.map_map, fst_comp_map]
  apply lagrangeAt_linear _ _ _ _ dim w _ s _ a b c hc (by simpa [hZlen] using hwn) (by simp) (by simp) (by simp)
  intro i hi
  have hi' : i < Z.length := by simpa using hi
  obtain ⟨t, ht, g₁, g₂, g₃⟩ := hZ i hi'
  have hc' := hcomb t ht
  rw [g₁, g₂, g₃] at hc'
  simpa [List.getD_eq_getElem?_getD, hi'] using hc'


/-! ### piecewise linear interpolation (`interp1d(kind="linear")`, modelled) -/

theorem searchLeft_node : ∀ (xs : List ℚ) (k : ℕ), xs.Pairwise (· < ·) → k < xs.length →
    searchLeft xs (xs.getD k 0) = k
  | [], k, _, hk => by simp at hk
  | a :: l, 0, hp, _ => by
    have hp' := List.pairwise_cons.mp hp
    simp only [searchLeft, List.getD_cons_zero]
    rw [List.filter_eq_nil_iff.mpr]
    · rfl
    · intro b hb
      rcases List.mem_cons.mp hb with rfl | hb
      · simp
      · simpa using le_of_lt (hp'.1 b hb)
  | a :: l, k + 1, hp, hk => by
    have hp' := List.pairwise_cons.mp hp
    have hk' : k < l.length := by simpa using hk
    have ih := searchLeft_node l k hp'.2 hk'
    have hmem : l.getD k 0 ∈ l := by
      rw [List.getD_eq_getElem?_getD, List.getElem?_eq_getElem hk']
      exact List.getElem_mem hk'
    have hlt := hp'.1 _ hmem
    simp only [searchLeft, List.getD_cons_succ] at ih ⊢
    rw [List.filter_cons_of_pos (by simpa using hlt), List.length_cons, ih]

theorem getD_mem_lt (xs : List ℚ) (hp : xs.Pairwise (· < ·)) (i j : ℕ) (hij : i < j) (hj : j < xs.length) :
    xs.getD i 0 < xs.getD j 0 := by
  have hi : i < xs.length := by omega
  rw [List.getD_eq_getElem?_getD, List.getD_eq_getElem?_getD, List.getElem?_eq_getElem hi,
    List.getElem?_eq_getElem hj]
  exact List.pairwise_iff_getElem.mp hp i j hi hj hij

/-- the piecewise linear interpolant reproduces the data at the nodes -/
theorem linearAt_node (xs : List ℚ) (rows : List (List ℚ)) (dim k : ℕ) (hp : xs.Pairwise (· < ·))
    (hn : 2 ≤ xs.length) (hk : k < xs.length) :
    linearAt xs rows dim (xs.getD k 0) = (List.range dim).map (fun c => (rows.getD k []).getD c 0) := by
  unfold linearAt
  rw [searchLeft_node xs k hp hk]
  apply List.map_congr_left
  intro c _
  rcases Nat.eq_zero_or_pos k with rfl | hk0
  · have : max 1 (min 0 (xs.length - 1)) = 1 := by omega
    simp only [this, Nat.sub_self]
    ring
  · have : max 1 (min k (xs.length - 1)) = k := by omega
    simp only [this]
    have hlt := getD_mem_lt xs hp (k - 1) k (by omega) hk
    have hne : xs.getD k 0 - xs.getD (k - 1) 0 ≠ 0 := by linarith [hlt]
    field_simp
    ring

/-- … and is linear in the data -/
theorem linearAt_linear (xs : List ℚ) (r₁ r₂ r₃ : List (List ℚ)) (dim : ℕ) (x a b : ℚ) (c : ℕ) (hc : c < dim)
    (hn : 2 ≤ xs.length)
    (hcomb : ∀ i, i < xs.length →
      (r₃.getD i []).getD c 0 = a * (r₁.getD i []).getD c 0 + b * (r₂.getD i []).getD c 0) :
    (linearAt xs r₃ dim x).getD c 0 = a * (linearAt xs r₁ dim x).getD c 0 + b * (linearAt xs r₂ dim x).getD c 0 := by
  unfold linearAt
  simp only [List.getD_eq_getElem?_getD, List.getElem?_map, List.getElem?_range hc, Option.map_some, Option.getD_some]
  simp only [← List.getD_eq_getElem?_getD]
  have h1 : max 1 (min (searchLeft xs x) (xs.length - 1)) < xs.length := by omega
  have h0 : max 1 (min (searchLeft xs x) (xs.length - 1)) - 1 < xs.length := by omega
  rw [hcomb _ h1, hcomb _ h0]
  ring

theorem linear_ok_form (xs : List ℚ) (rows : List (List ℚ)) (dim : ℕ) (xnew : List ℚ) (out : List (List ℚ))
    (h : linear xs rows dim xnew = .ok out) :
    rows.length = xs.length ∧ 2 ≤ xs.length ∧
    out = xnew.map (fun x => linearAt ((sortedPairs xs rows false).map (·.1)) ((sortedPairs xs rows false).map (·.2)) dim x) := by
  simp only [linear, sortedPairs, Bool.false_eq_true, ↓reduceIte] at h ⊢
  split at h
  · exact absurd h (by simp)
  rename_i h1
  split at h
  · exact absurd h (by simp)
  rename_i h2
  split at h
  · exact absurd h (by simp)
  split at h
  · exact absurd h (by simp)
  refine ⟨by simpa using h1, by omega, ?_⟩
  injection h with h
  exact h.symm

/-- **node reproduction** for `kind="linear"`, whole call (distinct abscissae) -/
theorem linear_nodes (xs : List ℚ) (rows : List (List ℚ)) (dim : ℕ) (xnew : List ℚ) (out : List (List ℚ))
    (h : linear xs rows dim xnew = .ok out)
    (hdist : strictInc ((sortBy (xs.zip rows)).map (·.1)) = true)
    (i j : ℕ) (hi : i < xs.length) (hj : j < xnew.length) (hx : xnew.getD j 0 = xs.getD i 0) :
    out.getD j [] = (List.range dim).map (fun c => (rows.getD i []).getD c 0) := by
  obtain ⟨hl, hn, rfl⟩ := linear_ok_form _ _ _ _ _ h
  obtain ⟨k, hk, hk1, hk2⟩ := sortedPairs_index xs rows false hl i hi
  have hlen := sortedPairs_length xs rows false hl
  have hinc : strictInc ((sortedPairs xs rows false).map (·.1)) = true := by simpa [sortedPairs] using hdist
  have e : (xnew.map (fun x => linearAt ((sortedPairs xs rows false).map (·.1))
      ((sortedPairs xs rows false).map (·.2)) dim x)).getD j []
      = linearAt ((sortedPairs xs rows false).map (·.1)) ((sortedPairs xs rows false).map (·.2)) dim (xnew.getD j 0) := by
    simp [List.getD_eq_getElem?_getD, hj]
  rw [e, hx, ← hk1, linearAt_node _ _ _ k (strictInc_pairwise _ hinc) (by simpa [hlen] using hn) (by simpa using hk), hk2]

/-- **invariance under reordering of the samples** for `kind="linear"` -/
theorem linear_perm (xs xs' : List ℚ) (rows rows' : List (List ℚ)) (dim : ℕ) (xnew : List ℚ)
    (hl : rows.length = xs.length) (hl' : rows'.length = xs'.length)
    (hperm : (xs.zip rows).Perm (xs'.zip rows'))
    (hdist : strictInc ((sortBy (xs.zip rows)).map (·.1)) = true) :
    linear xs' rows' dim xnew = linear xs rows dim xnew := by
  have hlen : xs'.length = xs.length := by
    have := hperm.length_eq
    simp [List.length_zip, hl, hl'] at this
    omega
  have hsort := sortBy_eq_of_perm _ _ hperm hdist
  simp only [linear, hl, hl', hlen, hsort]


/-- **linear in the data** for `kind="linear"`, whole call -/
theorem linear_linear (xs : List ℚ) (r₁ r₂ r₃ : List (List ℚ)) (dim : ℕ) (xnew : List ℚ) (a b : ℚ)
    (o₁ o₂ o₃ : List (List ℚ))
    (h₁ : linear xs r₁ dim xnew = .ok o₁) (h₂ : linear xs r₂ dim xnew = .ok o₂) (h₃ : linear xs r₃ dim xnew = .ok o₃)
    (c : ℕ) (hc : c < dim)
    (hcomb : ∀ i, i < xs.length →
      (r₃.getD i []).getD c 0 = a * (r₁.getD i []).getD c 0 + b * (r₂.getD i []).getD c 0)
    (j : ℕ) (hj : j < xnew.length) :
    (o₃.getD j []).getD c 0 = a * (o₁.getD j []).getD c 0 + b * (o₂.getD j []).getD c 0 := by
  obtain ⟨l₁, hn, rfl⟩ := linear_ok_form _ _ _ _ _ h₁
  obtain ⟨l₂, _, rfl⟩ := linear_ok_form _ _ _ _ _ h₂
  obtain ⟨l₃, _, rfl⟩ := linear_ok_form _ _ _ _ _ h₃
  obtain ⟨Z, hZlen, s₁, s₂, s₃, hZ⟩ := sorted_triples xs r₁ r₂ r₃ false l₁ l₂ l₃
  have getD_map : ∀ (f : ℚ → List ℚ), (xnew.map f).getD j [] = f (xnew.getD j 0) := by
    intro f; simp [List.getD_eq_getElem?_getD, hj]
  rw [getD_map, getD_map, getD_map, s₁, s₂, s₃]
  simp only [List.map_map, fst_comp_map]
  apply linearAt_linear _ _ _ _ dim _ a b c hc (by simpa [hZlen] using hn)
  intro i hi
  have hi' : i < Z.length := by simpa using hi
  obtain ⟨t, ht, g₁, g₂, g₃⟩ := hZ i hi'
  have hc' := hcomb t ht
  rw [g₁, g₂, g₃] at hc'
  simpa [List.getD_eq_getElem?_getD, hi'] using hc'

end Midgard.Proofs.C20
