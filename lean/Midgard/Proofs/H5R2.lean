/-
C10 — reading one leaf field whose group is the array or a `same_as` group, with the freshness of plain arrays stated as
"a plain array that has been read and whose array group is still to be visited as a field is known to the memo under that
group's path" (`Fr`).
-/
import Midgard.Proofs.H5ReadFields
import Midgard.Proofs.H5W2DS

namespace Midgard.H5
open Midgard.Dataset

/-! ### the read memo only grows -/

def MemoMono (s s' : RSt) : Prop := ∀ q, s.memo.lookup q ≠ none → s'.memo.lookup q ≠ none

theorem MemoMono.refl (s : RSt) : MemoMono s s := fun _ h => h
theorem MemoMono.trans {a b c : RSt} (h1 : MemoMono a b) (h2 : MemoMono b c) : MemoMono a c := fun q h => h2 q (h1 q h)

theorem MemoMono.set (s : RSt) (k : Path) (v : Nat) : MemoMono s (s.set k v) := by
  intro q hq
  simp only [RSt.set]
  rw [lookup_cons_ite]
  split
  · simp
  · exact hq

theorem MemoMono.of_memo_eq {s s' : RSt} (h : s'.memo = s.memo) : MemoMono s s' := by
  intro q hq; rw [h]; exact hq

theorem set_lookup_self (s : RSt) (k : Path) (v : Nat) : (s.set k v).memo.lookup k = some v := by
  simp only [RSt.set]; rw [lookup_cons_ite]; simp

theorem readArr_memo_mono (file : File) : ∀ (fuel : Nat) (g : Grp) (s : RSt) (n : Nat) (s' : RSt),
    readArr file fuel g s = .ok (n, s') → MemoMono s s'
  | 0, _, _, _, _, hr => by simp [readArr] at hr
  | fuel + 1, .mk a payload subs, s, n, s', hr => by
    simp only [readArr] at hr
    split at hr
    · simp at hr
    · rename_i ob
      split at hr
      · -- no attribute
        simp only [RSt.alloc] at hr
        split at hr
        · cases hr
          exact (MemoMono.of_memo_eq (s := s) rfl).trans (MemoMono.set _ _ _)
        · cases hr
          exact MemoMono.of_memo_eq rfl
      · rename_i nm _
        split at hr
        · simp at hr
        · rename_i r s1 hrr
          have h1 : MemoMono s s1 := by
            simp only [readRef] at hrr
            split at hrr
            · cases hrr; exact MemoMono.refl _
            · split at hrr
              · cases hrr; exact MemoMono.refl _
              · split at hrr
                · simp at hrr
                · split at hrr
                  · simp at hrr
                  · rename_i g' o1 s2 hrec
                    cases hrr
                    exact (readArr_memo_mono file fuel _ _ _ _ hrec).trans (MemoMono.set _ _ _)
          split at hr
          · simp at hr
          · simp only [RSt.alloc] at hr
            cases hr
            exact h1.trans ((MemoMono.of_memo_eq (s := s1) rfl).trans (MemoMono.set _ _ _))

/-! ### the full names of the fields are pairwise different -/

theorem leafPaths_prefix : ∀ (fs : List Field) (pre : Path) (e : Nat × Path), e ∈ leafPaths fs pre →
    ∃ n ∈ Midgard.Dataset.names fs, ∃ r, e.2 = pre ++ n :: r
  | [], _, e, he => by simp [leafPaths] at he
  | .leaf nm k o no u l :: fs, pre, e, he => by
    simp only [leafPaths, List.mem_cons] at he
    rcases he with rfl | he
    · exact ⟨nm, by simp [Midgard.Dataset.names, Field.name], [], rfl⟩
    · obtain ⟨n, hn, r, hr⟩ := leafPaths_prefix fs pre e he
      exact ⟨n, by simp only [Midgard.Dataset.names, List.map_cons, List.mem_cons]; exact Or.inr hn, r, hr⟩
  | .coll nm no l sub :: fs, pre, e, he => by
    simp only [leafPaths, List.mem_append] at he
    rcases he with he | he
    · obtain ⟨n, _, r, hr⟩ := leafPaths_prefix sub (pre ++ [nm]) e he
      exact ⟨nm, by simp [Midgard.Dataset.names, Field.name], n :: r, by rw [hr]; simp⟩
    · obtain ⟨n, hn, r, hr⟩ := leafPaths_prefix fs pre e he
      exact ⟨n, by simp only [Midgard.Dataset.names, List.map_cons, List.mem_cons]; exact Or.inr hn, r, hr⟩

theorem path_head_inj {pre : Path} {n m : String} {r r' : Path} (h : pre ++ n :: r = pre ++ m :: r') : n = m := by
  have := List.append_cancel_left h
  exact (List.cons.inj this).1

theorem leafPaths_nodup : ∀ (fs : List Field) (pre : Path), namesOK fs = true → ((leafPaths fs pre).map Prod.snd).Nodup
  | [], _, _ => by simp [leafPaths]
  | .leaf nm k o no u l :: fs, pre, hn => by
    obtain ⟨hname, _, hn2⟩ := namesOK_cons _ _ hn
    simp only [leafPaths, List.map_cons, List.nodup_cons]
    refine ⟨?_, leafPaths_nodup fs pre hn2⟩
    intro hin
    obtain ⟨e, he, heq⟩ := List.mem_map.mp hin
    obtain ⟨n, hnn, r, hr⟩ := leafPaths_prefix fs pre e he
    rw [hr] at heq
    have : pre ++ n :: r = pre ++ nm :: [] := by rw [heq]
    have := path_head_inj this
    subst this
    exact hname hnn
  | .coll nm no l sub :: fs, pre, hn => by
    obtain ⟨hname, hn1, hn2⟩ := namesOK_cons _ _ hn
    have hns : namesOK sub = true := by
      simp only [namesOK, Midgard.Dataset.names, List.map_nil, List.contains_nil, Bool.not_false,
        Bool.and_true, Bool.true_and] at hn1
      exact hn1
    simp only [leafPaths, List.map_append]
    refine List.nodup_append.mpr ⟨leafPaths_nodup sub _ hns, leafPaths_nodup fs pre hn2, ?_⟩
    intro a ha b hb hab
    subst hab
    obtain ⟨e1, he1, heq1⟩ := List.mem_map.mp ha
    obtain ⟨e2, he2, heq2⟩ := List.mem_map.mp hb
    obtain ⟨n1, _, r1, hr1⟩ := leafPaths_prefix sub (pre ++ [nm]) e1 he1
    obtain ⟨n2, hnn2, r2, hr2⟩ := leafPaths_prefix fs pre e2 he2
    have : pre ++ nm :: n1 :: r1 = pre ++ n2 :: r2 := by
      rw [← hr2, heq2, ← heq1, hr1]; simp
    have := path_head_inj this
    subst this
    exact hname hnn2

/-! ### freshness of plain arrays -/

/-- a plain array (bool, float, text, sigma: its `_read` does not enter it in the memo) that has been read and whose
array group is still to be visited as a field (`T`) is known to the memo under the path of that group -/
def Fr (h : Heap) (file : File) (ρ : Rho) (s : RSt) (T : List Path) : Prop :=
  ∀ x, ¬ Registers h x → ρ.lookup x ≠ none → ∀ P gt, lookupGrp file.groups P = some gt → gt.isArr = true → gt.src = x →
    P ∈ T → s.memo.lookup P ≠ none

theorem Fr.sub {h : Heap} {file : File} {ρ : Rho} {s s' : RSt} {T T' : List Path} (f : Fr h file ρ s T)
    (hm : MemoMono s s') (ht : ∀ P ∈ T', P ∈ T) : Fr h file ρ s' T' :=
  fun x hr hx P gt hl ha hs hP => hm P (f x hr hx P gt hl ha hs (ht P hP))

end Midgard.H5
