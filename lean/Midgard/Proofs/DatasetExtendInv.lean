/-
C09 — the semantic memo invariant of `extend` for the flat array kinds (no references: bool, float, text, sigma, time,
time delta): every memo entry under an array of a unit of work (`Item`) holds what the table demands of that item, the
arrays of one item are registered to one new array, entries survive; one `insert` keeps all that (`insert_step`).
See `DatasetExtendNOTES.md`.
-/
import Midgard.Proofs.DatasetExtendContent
namespace Midgard.Dataset

/-- array kinds without references: `insert` does not recurse -/
def Kind.flat (k : Kind) : Bool := !k.hasOther && !k.isDelta

/-- what `insert(a, pos, b)` allocates for flat kinds -/
def flatNew (cv : Conv) (oa ob : Obj) (pos : Nat) : Obj :=
  { oa with rows := insertAt oa.rows pos (convRows cv oa.tag ob), other := none, refPos := none }

/-- **`insert` of flat kinds, exactly** (no recursion, so no fuel induction) -/
theorem insertObj_flat_eq (fuel a pos b : Nat) (s : St) (oa ob : Obj)
    (hoa : s.heap[a]? = some oa) (hob : s.heap[b]? = some ob) (hf : oa.kind.flat = true) :
    insertObj (fuel + 1) a pos b s =
      match s.find a with
      | some r => .ok (r, s)
      | none =>
        match s.find b with
        | some r => .ok (r, s)
        | none =>
          if oa.kind != ob.kind || !convertible s.conv oa.tag ob then .error .unsupported
          else .ok (s.heap.length, ((s.alloc (flatNew s.conv oa ob pos)).2.set a s.heap.length).set b s.heap.length) := by
  have h1 : oa.kind.hasOther = false := by
    simp only [Kind.flat, Bool.and_eq_true, Bool.not_eq_true'] at hf; exact hf.1
  have h2 : oa.kind.isDelta = false := by
    simp only [Kind.flat, Bool.and_eq_true, Bool.not_eq_true'] at hf; exact hf.2
  simp only [insertObj, hoa, hob]
  cases s.find a <;> simp only []
  cases s.find b <;> simp only []
  split
  · rfl
  · simp [h1, h2, St.alloc, flatNew]

/-! ### the semantic memo invariant -/

/-- one unit of work of `Collection._extend`: a leaf of self with the leaf of the same name of other, a leaf only self
has (padded at the end), a leaf only other has (padded in front) -/
inductive Item
  | both (k : Kind) (a : Nat) (u : Option (List String)) (b : Nat) (u2 : Option (List String))
  | selfOnly (k : Kind) (a : Nat)
  | otherOnly (k : Kind) (b : Nat)
  deriving DecidableEq, Repr

def Item.kind : Item → Kind
  | .both k .. => k
  | .selfOnly k _ => k
  | .otherOnly k _ => k

/-- the array objects an item is registered under in the memo: its array of self, its array of other (an array only
other has plays the role of `a` in `prepend_empty`) -/
def Item.objs : Item → List Nat
  | .both k a _ b _ => if k == .sigma then [a] else [a, b]   -- (`other.data * factors` of a sigma field is a fresh array)
  | .selfOnly _ a => [a]
  | .otherOnly _ b => [b]

/-- **what the table demands** of an item, read off the heap before the `extend` (`n`, `m`: rows of self, of other):
rows and scale/format tag of the column afterwards -/
def Item.exp (us : Units) (h0 : Heap) (n m : Nat) : Item → Option (List Row × String)
  | .both k a u b u2 =>
    match h0[a]?, h0[b]? with
    | some oa, some ob =>
      if k == .float then
        match unitFactors us u u2 with
        | .ok fs => some (oa.rows ++ ob.rows.map (scaleRow fs), oa.tag)
        | .error _ => none
      else if k == .sigma then
        match unitFactors us u u2 with
        | .ok fs => some (oa.rows ++ convRows us.conv oa.tag { ob with rows := ob.rows.map (scaleRow fs) }, oa.tag)
        | .error _ => none
      else if k.isPlain then some (oa.rows ++ ob.rows, oa.tag)
      else some (oa.rows ++ convRows us.conv oa.tag ob, oa.tag)
    | _, _ => none
  | .selfOnly k a =>
    match h0[a]? with
    | some oa => some (oa.rows ++ List.replicate m (emptyRow k oa.cols), oa.tag)
    | none => none
  | .otherOnly k b =>
    match h0[b]? with
    | some ob => some (List.replicate n (emptyRow k ob.cols) ++ ob.rows, ob.tag)
    | none => none

/-- array `v` holds exactly these rows in this scale / format -/
def IsRes (h : Heap) (v : Nat) (e : List Row × String) : Prop := ∃ ov, h[v]? = some ov ∧ ov.rows = e.1 ∧ ov.tag = e.2

theorem IsRes.ext {h h' v e} (x : HeapExt h h') (r : IsRes h v e) : IsRes h' v e := by
  obtain ⟨ov, a, b, c⟩ := r
  exact ⟨ov, x.get a, b, c⟩

/-- the items of this `extend` (a set), all about arrays of the heap before the `extend`, of the item's kind -/
structure Items (h0 : Heap) (W : Item → Prop) : Prop where
  lt : ∀ it, W it → ∀ o ∈ it.objs, ∃ ob, h0[o]? = some ob ∧ ob.kind = it.kind

/-- **consistency**: whenever two items are registered under one array, the table demands the same column for both.
(This is what `splitSharing = false`, compatible sharing of the common names and equal units of shared sigma arrays
amount to; it is exactly what makes a memo hit right.) -/
def Consistent (us : Units) (h0 : Heap) (n m : Nat) (W : Item → Prop) : Prop :=
  ∀ i j, W i → W j → i.kind.isPlain = false → j.kind.isPlain = false → (∃ o, o ∈ i.objs ∧ o ∈ j.objs) →
    i.exp us h0 n m = j.exp us h0 n m

/-- items registered under a common array are registered under the same arrays (in object terms: no array is held under
a name the other dataset lacks and under a name it has, common names share arrays alike in both datasets, and no array
belongs to both datasets at different places) -/
def ObjsAgree (W : Item → Prop) : Prop :=
  ∀ i j, W i → W j → i.kind.isPlain = false → j.kind.isPlain = false → (∃ o, o ∈ i.objs ∧ o ∈ j.objs) →
    ∀ x, x ∈ i.objs ↔ x ∈ j.objs

/-- entries under the arrays of the items (memo kinds) survive -/
def PersistW (W : Item → Prop) (s s' : St) : Prop :=
  ∀ it, W it → it.kind.isPlain = false → ∀ o ∈ it.objs, ∀ v, s.find o = some v → s'.find o = some v

theorem PersistW.refl (W : Item → Prop) (s : St) : PersistW W s s := fun _ _ _ _ _ _ h => h
theorem PersistW.trans {W : Item → Prop} {a b c : St} (h1 : PersistW W a b) (h2 : PersistW W b c) : PersistW W a c :=
  fun it hit hnp o ho v hv => h2 it hit hnp o ho v (h1 it hit hnp o ho v hv)

/-- **the memo invariant of `extend`**: keys are arrays that exist; the heap only grew; and every entry under an array of
an item (of a kind that uses the memo) is an array holding what the table demands of that item -/
structure MemoSem (us : Units) (h0 : Heap) (n m : Nat) (W : Item → Prop) (s : St) : Prop where
  bound : ∀ k v, (k, v) ∈ s.memo → k < s.heap.length
  ext : HeapExt h0 s.heap
  sem : ∀ it, W it → it.kind.isPlain = false → ∀ o ∈ it.objs, ∀ v, s.find o = some v →
    ∃ e, it.exp us h0 n m = some e ∧ IsRes s.heap v e
  /-- the arrays of one item are registered to one and the same new array -/
  agree : ∀ it, W it → it.kind.isPlain = false → ∀ o ∈ it.objs, ∀ o' ∈ it.objs, ∀ v v',
    s.find o = some v → s.find o' = some v' → v = v'

theorem mem_of_find {s : St} {k v : Nat} (h : s.find k = some v) : (k, v) ∈ s.memo := lookup_mem _ _ _ h

theorem find_none_of_ge (s : St) (k : Nat) (hb : ∀ k v, (k, v) ∈ s.memo → k < s.heap.length) (hk : s.heap.length ≤ k) :
    s.find k = none := by
  cases h : s.find k with
  | none => rfl
  | some v => have := hb k v (mem_of_find h); omega


theorem MemoSem.heap_get {us h0 n m W s} (ms : MemoSem us h0 n m W s) {o : Nat} {ob : Obj} (h : h0[o]? = some ob) :
    s.heap[o]? = some ob := ms.ext.get h

/-- **one `insert` of a flat memo kind under the invariant**: `a` is an array of the item, `b` is an array of the item or
a fresh temporary the memo does not know; the result holds what the table demands and the invariant is kept -/
theorem insert_step (us : Units) (h0 : Heap) (n m : Nat) (W : Item → Prop) (hI : Items h0 W)
    (hC : Consistent us h0 n m W) (hO : ObjsAgree W) (it : Item) (hit : W it) (hnp : it.kind.isPlain = false)
    (fuel a pos b : Nat) (s : St) (oa ob : Obj) (ms : MemoSem us h0 n m W s) (hcv : s.conv = us.conv)
    (ha : a ∈ it.objs) (hoa : s.heap[a]? = some oa) (hob : s.heap[b]? = some ob) (hf : oa.kind.flat = true)
    (hb : b ∈ it.objs ∨ (s.find b = none ∧ h0.length ≤ b)) (hsub : ∀ x ∈ it.objs, x = a ∨ x = b)
    (hexp : it.exp us h0 n m = some (insertAt oa.rows pos (convRows us.conv oa.tag ob), oa.tag))
    (r : Nat) (s' : St) (h : insertObj (fuel + 1) a pos b s = .ok (r, s')) :
    IsRes s'.heap r (insertAt oa.rows pos (convRows us.conv oa.tag ob), oa.tag) ∧ HeapExt s.heap s'.heap ∧
      MemoSem us h0 n m W s' ∧ s'.conv = us.conv ∧ (∃ o ∈ it.objs, s'.find o = some r) ∧ PersistW W s s' := by
  rw [insertObj_flat_eq fuel a _ b s oa ob hoa hob hf] at h
  cases hfa : s.find a with
  | some v =>
    simp only [hfa, Except.ok.injEq, Prod.mk.injEq] at h
    obtain ⟨rfl, rfl⟩ := h
    obtain ⟨e, he, hr⟩ := ms.sem it hit hnp a ha v hfa
    rw [hexp] at he; cases he
    exact ⟨hr, HeapExt.refl _, ms, hcv, ⟨a, ha, hfa⟩, PersistW.refl _ _⟩
  | none =>
    cases hfb : s.find b with
    | some v =>
      simp only [hfa, hfb, Except.ok.injEq, Prod.mk.injEq] at h
      obtain ⟨rfl, rfl⟩ := h
      rcases hb with hb | hb
      · obtain ⟨e, he, hr⟩ := ms.sem it hit hnp b hb v hfb
        rw [hexp] at he; cases he
        exact ⟨hr, HeapExt.refl _, ms, hcv, ⟨b, hb, hfb⟩, PersistW.refl _ _⟩
      · rw [hb.1] at hfb; cases hfb
    | none =>
      simp only [hfa, hfb] at h
      split at h
      · simp at h
      · simp only [Except.ok.injEq, Prod.mk.injEq] at h
        obtain ⟨rfl, rfl⟩ := h
        let new := flatNew s.conv oa ob pos
        have e1 : HeapExt s.heap (s.alloc new).2.heap := HeapExt.alloc s new
        have hnew : IsRes (s.alloc new).2.heap s.heap.length
            (insertAt oa.rows pos (convRows us.conv oa.tag ob), oa.tag) :=
          ⟨new, alloc_get s new, by simp [new, flatNew, hcv], rfl⟩
        have halt : a < s.heap.length := (List.getElem?_eq_some_iff.mp hoa).1
        have hblt : b < s.heap.length := (List.getElem?_eq_some_iff.mp hob).1
        have hkey : ∀ j, W j → j.kind.isPlain = false → ∀ o ∈ j.objs, (o == b) = true ∨ (o == a) = true →
            o ∈ it.objs := by
          intro j hj hjnp o ho hab
          rcases hab with hob' | hoa'
          · have hoeq : o = b := by simpa using hob'
            rcases hb with hb | hb
            · exact hoeq ▸ hb
            · obtain ⟨ob', hob'', _⟩ := hI.lt j hj o ho
              have : o < h0.length := (List.getElem?_eq_some_iff.mp hob'').1
              omega
          · have hoeq : o = a := by simpa using hoa'
            exact hoeq ▸ ha
        have hfind : ∀ o, ((s.alloc new).2.set a s.heap.length |>.set b s.heap.length).find o =
            if (o == b) = true ∨ (o == a) = true then some s.heap.length else s.find o := by
          intro o
          rw [find_set, find_set, find_alloc]
          by_cases h1 : (o == b) = true <;> by_cases h2 : (o == a) = true <;> simp [h1, h2]
        refine ⟨hnew, e1, ⟨?_, ms.ext.trans e1, ?_, ?_⟩, hcv, ⟨a, ha, by rw [hfind]; simp⟩, ?_⟩
        · intro k v hkv
          simp only [St.set, St.alloc, List.mem_cons, Prod.mk.injEq, List.length_append, List.length_singleton] at hkv ⊢
          rcases hkv with ⟨rfl, _⟩ | ⟨rfl, _⟩ | hkv
          · omega
          · omega
          · have := ms.bound k v hkv; omega
        · intro j hj hjnp o ho v hv
          rw [find_set, find_set, find_alloc] at hv
          by_cases hob' : o == b
          · have hoeq : o = b := by simpa using hob'
            simp only [hob', if_true, Option.some.injEq] at hv
            subst hv
            rcases hb with hb | hb
            · have := hC j it hj hit hjnp hnp ⟨o, ho, hoeq ▸ hb⟩
              exact ⟨_, this.trans hexp, hnew⟩
            · obtain ⟨ob', hob'', _⟩ := hI.lt j hj o ho
              have : o < h0.length := (List.getElem?_eq_some_iff.mp hob'').1
              omega
          · simp only [hob', Bool.false_eq_true, if_false] at hv
            by_cases hoa' : o == a
            · have hoeq : o = a := by simpa using hoa'
              simp only [hoa', if_true, Option.some.injEq] at hv
              subst hv
              have := hC j it hj hit hjnp hnp ⟨o, ho, hoeq ▸ ha⟩
              exact ⟨_, this.trans hexp, hnew⟩
            · simp only [hoa', Bool.false_eq_true, if_false] at hv
              obtain ⟨e, he, hr⟩ := ms.sem j hj hjnp o ho v hv
              exact ⟨e, he, hr.ext e1⟩
        · -- agree
          intro j hj hjnp o ho o' ho' v v' hv hv'
          rw [hfind] at hv hv'
          by_cases c1 : (o == b) = true ∨ (o == a) = true
          · have hin := hkey j hj hjnp o ho c1
            have hiff := hO j it hj hit hjnp hnp ⟨o, ho, hin⟩
            have hin' : o' ∈ it.objs := (hiff o').mp ho'
            have c2 : (o' == b) = true ∨ (o' == a) = true := by
              rcases hsub o' hin' with h | h
              · right; simpa using h
              · left; simpa using h
            simp only [c1, c2, if_true, Option.some.injEq] at hv hv'
            omega
          · by_cases c2 : (o' == b) = true ∨ (o' == a) = true
            · have hin := hkey j hj hjnp o' ho' c2
              have hiff := hO j it hj hit hjnp hnp ⟨o', ho', hin⟩
              have hin' : o ∈ it.objs := (hiff o).mp ho
              have : (o == b) = true ∨ (o == a) = true := by
                rcases hsub o hin' with h | h
                · right; simpa using h
                · left; simpa using h
              exact absurd this c1
            · simp only [c1, c2, if_false] at hv hv'
              exact ms.agree j hj hjnp o ho o' ho' v v' hv hv'
        · -- persist
          intro j hj hjnp o ho v hv
          rw [hfind]
          by_cases c1 : (o == b) = true ∨ (o == a) = true
          · exfalso
            rcases c1 with h | h
            · have : o = b := by simpa using h
              subst this; rw [hfb] at hv; cases hv
            · have : o = a := by simpa using h
              subst this; rw [hfa] at hv; cases hv
          · rw [if_neg c1]; exact hv

theorem MemoSem.alloc {us h0 n m W s} (ms : MemoSem us h0 n m W s) (o : Obj) : MemoSem us h0 n m W (s.alloc o).2 := by
  have e1 := HeapExt.alloc s o
  refine ⟨?_, ms.ext.trans e1, ?_, ?_⟩
  · intro k v hkv
    have := ms.bound k v hkv
    simp only [St.alloc, List.length_append, List.length_singleton]; omega
  · intro j hj hjnp x hx v hv
    obtain ⟨e, he, hr⟩ := ms.sem j hj hjnp x hx v hv
    exact ⟨e, he, hr.ext e1⟩
  · exact ms.agree

theorem lookup_filter_ne' (k e : Nat) (hne : k ≠ e) : ∀ (l : List (Nat × Nat)),
    List.lookup k (l.filter (fun p => p.1 != e)) = List.lookup k l
  | [] => rfl
  | (a, v) :: l => by
    by_cases hae : a = e
    · subst hae
      have hka : (k == a) = false := by simpa using hne
      simp [List.filter, List.lookup, hka, lookup_filter_ne' k a hne l]
    · have : (a != e) = true := by simpa using hae
      simp only [List.filter, this, List.lookup]
      split <;> simp_all [lookup_filter_ne' k e hne l]

/-- `memo.pop(id(empty))`: the temporary is not an array of any item -/
theorem MemoSem.pop {us h0 n m W s} (hI : Items h0 W) (ms : MemoSem us h0 n m W s) (e : Nat) (he : h0.length ≤ e) :
    MemoSem us h0 n m W (s.pop e) ∧ PersistW W s (s.pop e) := by
  have hfind : ∀ j, W j → ∀ x ∈ j.objs, (s.pop e).find x = s.find x := by
    intro j hj x hx
    obtain ⟨ob, hob, _⟩ := hI.lt j hj x hx
    have hlt : x < h0.length := (List.getElem?_eq_some_iff.mp hob).1
    have hne : x ≠ e := by omega
    simp only [St.pop, St.find]
    exact lookup_filter_ne' x e hne _
  refine ⟨⟨?_, ms.ext, ?_, ?_⟩, ?_⟩
  · intro k v hkv
    simp only [St.pop, List.mem_filter] at hkv
    exact ms.bound k v hkv.1
  · intro j hj hjnp x hx v hv
    obtain ⟨ob, hob, _⟩ := hI.lt j hj x hx
    have hlt : x < h0.length := (List.getElem?_eq_some_iff.mp hob).1
    have hne : x ≠ e := by omega
    have : s.find x = some v := by
      simp only [St.pop, St.find] at hv ⊢
      rwa [lookup_filter_ne' x e hne] at hv
    exact ms.sem j hj hjnp x hx v this
  · intro j hj hjnp o ho o' ho' v v' hv hv'
    rw [hfind j hj o ho] at hv; rw [hfind j hj o' ho'] at hv'
    exact ms.agree j hj hjnp o ho o' ho' v v' hv hv'
  · intro j hj _ o ho v hv
    rw [hfind j hj o ho]; exact hv

/-- `memo[id(a)] = new` of a plain array (`np.insert` of bool / float / text): no item of a memo kind lives there -/
theorem MemoSem.setPlain {us h0 n m W s} (hI : Items h0 W) (ms : MemoSem us h0 n m W s) (a : Nat) (oa new : Obj)
    (hoa : s.heap[a]? = some oa) (hp : oa.kind.isPlain = true) :
    MemoSem us h0 n m W ((s.alloc new).2.set a s.heap.length) ∧ PersistW W s ((s.alloc new).2.set a s.heap.length) := by
  have e1 := HeapExt.alloc s new
  have halt : a < s.heap.length := (List.getElem?_eq_some_iff.mp hoa).1
  have hfind : ∀ j, W j → j.kind.isPlain = false → ∀ x ∈ j.objs,
      ((s.alloc new).2.set a s.heap.length).find x = s.find x := by
    intro j hj hjnp x hx
    obtain ⟨ob, hob, hk⟩ := hI.lt j hj x hx
    have hne : (x == a) = false := by
      apply beq_false_of_ne
      intro hxa
      subst hxa
      have := ms.heap_get hob
      rw [hoa] at this; cases this
      rw [hk] at hp; rw [hp] at hjnp; cases hjnp
    rw [find_set, find_alloc]; simp [hne]
  refine ⟨⟨?_, ms.ext.trans e1, ?_, ?_⟩, ?_⟩
  · intro k v hkv
    simp only [St.set, St.alloc, List.mem_cons, Prod.mk.injEq, List.length_append, List.length_singleton] at hkv ⊢
    rcases hkv with ⟨rfl, _⟩ | hkv
    · omega
    · have := ms.bound k v hkv; omega
  · intro j hj hjnp x hx v hv
    obtain ⟨ob, hob, hk⟩ := hI.lt j hj x hx
    have hne : (x == a) = false := by
      apply beq_false_of_ne
      intro hxa
      subst hxa
      have := ms.heap_get hob
      rw [hoa] at this; cases this
      rw [hk] at hp; rw [hp] at hjnp; cases hjnp
    rw [find_set, find_alloc] at hv
    simp only [hne, Bool.false_eq_true, if_false] at hv
    obtain ⟨e, he, hr⟩ := ms.sem j hj hjnp x hx v hv
    exact ⟨e, he, hr.ext e1⟩
  · intro j hj hjnp o ho o' ho' v v' hv hv'
    rw [hfind j hj hjnp o ho] at hv; rw [hfind j hj hjnp o' ho'] at hv'
    exact ms.agree j hj hjnp o ho o' ho' v v' hv hv'
  · intro j hj hjnp o ho v hv
    rw [hfind j hj hjnp o ho]; exact hv

end Midgard.Dataset
