/-
C10 — `_write` of one array with the attributes `other` / `ref_pos` and `time` (`writeArrX`): what every array group of
the result looks like (`NodeW`), stated on lookups of the memo.
-/
import Midgard.Proofs.H5W2DS
import Midgard.Proofs.H5Time

namespace Midgard.H5
open Midgard.Dataset

/-- the `time` of an object as `_write` sees it: only positions and posvels have the attribute -/
def tmE (h : Heap) (tm : TM) (o : Nat) : Option Nat :=
  match h[o]? with
  | some ob => if ob.kind.hasOther then tmOf tm o else none
  | none => none

theorem tmE_of {h : Heap} {tm : TM} {o : Nat} {ob : Obj} (hob : h[o]? = some ob) :
    (if ob.kind.hasOther then tmOf tm o else none) = tmE h tm o := by simp [tmE, hob]

/-- one attribute `nm` with value `x` of a group at `q` with attribute text `r` and sub-groups `subs`: absent, a reference
by name that satisfies `H`, or the embedded sub-group `nm` written for `x` -/
def SlotW (H : Path → Nat → Prop) (q : Path) (subs : List (String × Grp)) (nm : String) (x : Option Nat) (r : Option Path) : Prop :=
  match x with
  | none => r = none ∧ subs.lookup nm = none
  | some x => (∃ qx, r = some qx ∧ H qx x ∧ subs.lookup nm = none) ∨
      (r = none ∧ ∃ g', subs.lookup nm = some g' ∧ g'.isArr = true ∧ g'.src = x ∧ g'.attrs.fieldname = q ++ [nm])

theorem SlotW.mono {H H' : Path → Nat → Prop} (hh : ∀ q x, H q x → H' q x) {q : Path} {subs : List (String × Grp)}
    {nm : String} {x : Option Nat} {r : Option Path} (s : SlotW H q subs nm x r) : SlotW H' q subs nm x r := by
  cases x with
  | none => exact s
  | some x =>
    simp only [SlotW] at s ⊢
    rcases s with ⟨qx, a, b, c⟩ | s
    · exact Or.inl ⟨qx, a, hh _ _ b, c⟩
    · exact Or.inr s

/-- the array group `g` at `q` is what `_write` makes of the object `g.src` -/
def NodeW (H : Path → Nat → Prop) (h : Heap) (tm : TM) (q : Path) (g : Grp) : Prop :=
  ∃ a ob subs, g = .mk a (some ob.strip) subs ∧ h[a.src]? = some ob ∧ a.fieldname = q ∧
    match attrName ob.kind with
    | none => a.ref = none ∧ a.tref = none ∧ subs = []
    | some nm => SlotW H q subs nm ob.ref a.ref ∧ SlotW H q subs "time" (tmE h tm a.src) a.tref

theorem NodeW.mono {H H' : Path → Nat → Prop} (hh : ∀ q x, H q x → H' q x) {h : Heap} {tm : TM} {q : Path} {g : Grp}
    (n : NodeW H h tm q g) : NodeW H' h tm q g := by
  obtain ⟨a, ob, subs, hg, hob, hf, hc⟩ := n
  refine ⟨a, ob, subs, hg, hob, hf, ?_⟩
  cases hat : attrName ob.kind with
  | none => rw [hat] at hc; exact hc
  | some nm => rw [hat] at hc; exact ⟨hc.1.mono hh, hc.2.mono hh⟩

/-- what one `writeArrX` call guarantees -/
structure WArrX (h : Heap) (tm : TM) (o : Nat) (p : Path) (memo : WMemo) (g : Grp) (memo' : WMemo) : Prop where
  src : g.src = o
  isArr : g.isArr = true
  fn : g.attrs.fieldname = p
  node : ∀ q g', (q, g') ∈ Grp.nodes p g → NodeW (fun q x => memo'.lookup x = some q) h tm q g'
  stable : Stable memo memo'
  newIn : ∀ x q, memo'.lookup x = some q → memo.lookup x = some q ∨ ∃ g', (q, g') ∈ Grp.nodes p g ∧ g'.src = x
  own : ∀ q g', (q, g') ∈ Grp.nodes p g → memo'.lookup g'.src = some q
  names : NamesOKG g

/-- what one turn of the attribute loop guarantees (`rec` is `writeArrX` with less fuel) -/
theorem slotWrite_spec {h : Heap} {tm : TM} {rec : Nat → Path → WMemo → M (Grp × WMemo)}
    (IH : ∀ x q memo g memo', rec x q memo = .ok (g, memo') → memo.lookup x = some q → WArrX h tm x q memo g memo')
    {p : Path} {nm : String} {x : Option Nat} {memo : WMemo} {r : Option Path} {subs : List (String × Grp)} {memo' : WMemo}
    (hs : slotWrite rec p nm x memo = .ok (r, subs, memo')) :
    Stable memo memo' ∧
    (∀ y q, memo'.lookup y = some q → memo.lookup y = some q ∨ ∃ g', (q, g') ∈ Grp.nodes.nodesL p subs ∧ g'.src = y) ∧
    (∀ q g', (q, g') ∈ Grp.nodes.nodesL p subs →
      NodeW (fun q x => memo'.lookup x = some q) h tm q g' ∧ memo'.lookup g'.src = some q) ∧
    NamesOKG.NamesOKL subs ∧ SlotW (fun q y => memo'.lookup y = some q) p subs nm x r ∧
    (subs = [] ∨ ∃ g, subs = [(nm, g)]) := by
  cases x with
  | none =>
    simp only [slotWrite, Except.ok.injEq, Prod.mk.injEq] at hs
    obtain ⟨rfl, rfl, rfl⟩ := hs
    refine ⟨Stable.refl _, fun y q hy => Or.inl hy, ?_, by simp [NamesOKG.NamesOKL], ?_, Or.inl rfl⟩
    · intro q g' hm; simp [Grp.nodes.nodesL] at hm
    · simp [SlotW, List.lookup]
  | some x =>
    simp only [slotWrite] at hs
    split at hs
    · rename_i name hl
      simp only [Except.ok.injEq, Prod.mk.injEq] at hs
      obtain ⟨rfl, rfl, rfl⟩ := hs
      refine ⟨Stable.refl _, fun y q hy => Or.inl hy, ?_, by simp [NamesOKG.NamesOKL], ?_, Or.inl rfl⟩
      · intro q g' hm; simp [Grp.nodes.nodesL] at hm
      · simp only [SlotW]
        exact Or.inl ⟨name, rfl, hl, by simp [List.lookup]⟩
    · rename_i hl
      split at hs
      · simp at hs
      · rename_i gc memoc hrec
        simp only [Except.ok.injEq, Prod.mk.injEq] at hs
        obtain ⟨rfl, rfl, rfl⟩ := hs
        have ih := IH x (p ++ [nm]) _ gc memoc hrec (lookup_cons_self _ _ _)
        have hnl : Grp.nodes.nodesL p [(nm, gc)] = Grp.nodes (p ++ [nm]) gc := nodesL_single p nm gc
        refine ⟨(Stable.cons_fresh hl).trans ih.stable, ?_, ?_, ?_, ?_, Or.inr ⟨gc, rfl⟩⟩
        · intro y q hy
          rw [hnl]
          rcases ih.newIn y q hy with hy | hy
          · rcases lookup_cons_inv hy with ⟨rfl, rfl⟩ | hy
            · exact Or.inr ⟨gc, root_mem_nodes _ ih.isArr, ih.src⟩
            · exact Or.inl hy
          · exact Or.inr hy
        · intro q g' hm
          rw [hnl] at hm
          exact ⟨ih.node q g' hm, ih.own q g' hm⟩
        · simp only [NamesOKG.NamesOKL]
          exact ⟨ih.names, by simp, trivial⟩
        · exact Or.inr ⟨rfl, gc, by simp [List.lookup], ih.isArr, ih.src, ih.fn⟩

theorem str_ne_time {k : Kind} {nm : String} (h : attrName k = some nm) : nm ≠ "time" := by
  intro he
  have := attrName_ne_time h
  rw [he] at this
  simp at this

theorem writeArrX_spec (h : Heap) (tm : TM) : ∀ (fuel : Nat) (u : Option (List String)) (l : Nat) (o : Nat) (p : Path)
    (memo : WMemo) (g : Grp) (memo' : WMemo),
    writeArrX h tm u l fuel o p memo = .ok (g, memo') → memo.lookup o = some p → WArrX h tm o p memo g memo'
  | 0, _, _, _, _, _, _, _, hw, _ => by simp [writeArrX] at hw
  | fuel + 1, u, l, o, p, memo, g, memo', hw, hp => by
    simp only [writeArrX] at hw
    split at hw
    · simp at hw
    · rename_i ob hob
      split at hw
      · -- no attribute
        rename_i hat
        simp only [Except.ok.injEq, Prod.mk.injEq] at hw
        obtain ⟨rfl, rfl⟩ := hw
        refine ⟨rfl, rfl, rfl, ?_, Stable.refl _, fun x q hx => Or.inl hx, ?_, by simp [NamesOKG, NamesOKG.NamesOKL]⟩
        · intro q g' hm
          rw [nodes_leaf] at hm
          simp only [List.mem_singleton, Prod.mk.injEq] at hm
          obtain ⟨rfl, rfl⟩ := hm
          exact ⟨_, ob, [], rfl, hob, rfl, by rw [hat]; exact ⟨rfl, rfl, rfl⟩⟩
        · intro q g' hm; rw [nodes_leaf] at hm; simp at hm; rw [hm.1, hm.2]; exact hp
      · rename_i nm hat
        have IH : ∀ x q memo g memo', writeArrX h tm none 3 fuel x q memo = .ok (g, memo') → memo.lookup x = some q →
            WArrX h tm x q memo g memo' := fun x q memo g memo' => writeArrX_spec h tm fuel none 3 x q memo g memo'
        split at hw
        · simp at hw
        · rename_i r1 subs1 memo1 hs1
          split at hw
          · simp at hw
          · rename_i r2 subs2 memo2 hs2
            simp only [Except.ok.injEq, Prod.mk.injEq] at hw
            obtain ⟨rfl, rfl⟩ := hw
            rw [tmE_of hob] at hs2
            obtain ⟨st1, new1, nd1, nm1, sl1, sh1⟩ := slotWrite_spec IH hs1
            obtain ⟨st2, new2, nd2, nm2, sl2, sh2⟩ := slotWrite_spec IH hs2
            have st12 := st1.trans st2
            have hpo : memo2.lookup o = some p := st12 o p hp
            have st3 : Stable memo2 ((o, p) :: memo2) := Stable.cons_same hpo
            have hntime : nm ≠ "time" := str_ne_time hat
            -- the nodes of the result
            have hn : ∀ (at0 : GAttrs), Grp.nodes p (Grp.mk at0 (some ob.strip) (subs1 ++ subs2)) =
                (p, Grp.mk at0 (some ob.strip) (subs1 ++ subs2)) ::
                  (Grp.nodes.nodesL p subs1 ++ Grp.nodes.nodesL p subs2) := by
              intro at0
              have : ∀ (l1 l2 : List (String × Grp)), Grp.nodes.nodesL p (l1 ++ l2) = Grp.nodes.nodesL p l1 ++ Grp.nodes.nodesL p l2 := by
                intro l1 l2
                induction l1 with
                | nil => simp [Grp.nodes.nodesL]
                | cons e l1 ih => obtain ⟨n, g⟩ := e; simp [Grp.nodes.nodesL, ih]
              simp [Grp.nodes, this]
            -- lookups in the combined sub-groups
            have hl1 : (subs1 ++ subs2).lookup nm = subs1.lookup nm := by
              rcases sh1 with rfl | ⟨g1, rfl⟩
              · rcases sh2 with rfl | ⟨g2, rfl⟩
                · rfl
                · have : (nm == "time") = false := by simpa using hntime
                  simp [List.lookup, this]
              · simp [List.lookup]
            have hl2 : (subs1 ++ subs2).lookup "time" = subs2.lookup "time" := by
              rcases sh1 with rfl | ⟨g1, rfl⟩
              · rfl
              · have : ("time" == nm) = false := attrName_ne_time hat
                simp [List.lookup, this]
            have slot_lookup : ∀ {H : Path → Nat → Prop} {subs subs' : List (String × Grp)} {n : String} {x : Option Nat}
                {r : Option Path}, subs'.lookup n = subs.lookup n → SlotW H p subs n x r → SlotW H p subs' n x r := by
              intro H subs subs' n x r he s
              cases x with
              | none => simp only [SlotW] at s ⊢; rw [he]; exact s
              | some x => simp only [SlotW] at s ⊢; rw [he]; exact s
            refine ⟨rfl, rfl, rfl, ?_, st12.trans st3, ?_, ?_, ?_⟩
            · intro q g' hm
              rw [hn] at hm
              rcases List.mem_cons.mp hm with hm | hm
              · cases hm
                refine ⟨_, ob, subs1 ++ subs2, rfl, hob, rfl, ?_⟩
                rw [hat]
                exact ⟨slot_lookup hl1 (sl1.mono (fun q x hx => st3 x q (st2 x q hx))),
                  slot_lookup hl2 (sl2.mono (fun q x hx => st3 x q hx))⟩
              · rcases List.mem_append.mp hm with hm | hm
                · exact (nd1 q g' hm).1.mono (fun q x hx => st3 x q (st2 x q hx))
                · exact (nd2 q g' hm).1.mono (fun q x hx => st3 x q hx)
            · intro x q hx
              rw [hn]
              rcases lookup_cons_inv hx with ⟨rfl, rfl⟩ | hx
              · exact Or.inl hp
              · rcases new2 x q hx with hx | ⟨g', hg', hs⟩
                · rcases new1 x q hx with hx | ⟨g', hg', hs⟩
                  · exact Or.inl hx
                  · exact Or.inr ⟨g', List.mem_cons_of_mem _ (List.mem_append_left _ hg'), hs⟩
                · exact Or.inr ⟨g', List.mem_cons_of_mem _ (List.mem_append_right _ hg'), hs⟩
            · intro q g' hm
              rw [hn] at hm
              rcases List.mem_cons.mp hm with hm | hm
              · cases hm; exact lookup_cons_self _ _ _
              · rcases List.mem_append.mp hm with hm | hm
                · exact st3 _ _ (st2 _ _ (nd1 q g' hm).2)
                · exact st3 _ _ (nd2 q g' hm).2
            · simp only [NamesOKG]
              rcases sh1 with rfl | ⟨g1, rfl⟩
              · first | exact nm2 | simpa using nm2
              · rcases sh2 with rfl | ⟨g2, rfl⟩
                · first | exact nm1 | simpa using nm1
                · simp only [NamesOKG.NamesOKL] at nm1 nm2 ⊢
                  refine ⟨nm1.1, ?_, nm2.1, by simp, trivial⟩
                  intro e he
                  have he' : e = ("time", g2) := by simpa using he
                  subst he'
                  exact fun h => hntime h.symm

end Midgard.H5
