/-
Proofs for the per-object cache machine (C08, second machine): the depth-first clearing computes a
set closed under the dependency lists, and with the repaired mechanism every read returns the
snapshot of the *current* contents, for every operation sequence.
-/
import Midgard.Model.ObjCache
import Mathlib.Tactic.SplitIfs
import Mathlib.Tactic.Common
import Mathlib.Algebra.BigOperators.Group.List.Basic

set_option linter.unusedVariables false
set_option linter.unusedSimpArgs false

namespace Midgard.ObjCache

/-! ### The depth-first closure -/

theorem closure_spec (objs : List Obj) (n : Nat) :
    ∀ (unv todo acc : List Nat), unv.Nodup → (∀ x, x ∈ unv ↔ (x < n ∧ x ∉ acc)) →
      (∀ a ∈ acc, ∀ b ∈ depsOf objs a, b < n → b ∈ acc ∨ b ∈ todo) →
      (∀ a ∈ acc, a ∈ closure objs unv todo acc) ∧
      (∀ t ∈ todo, t < n → t ∈ closure objs unv todo acc) ∧
      (∀ a ∈ closure objs unv todo acc, ∀ b ∈ depsOf objs a, b < n → b ∈ closure objs unv todo acc) := by
  intro unv todo acc
  induction unv, todo, acc using closure.induct (objs := objs) with
  | case1 unv acc =>
    intro _ _ hJ
    rw [closure]
    refine ⟨fun a h => h, fun t h => by simp at h, ?_⟩
    intro a ha b hb hbn
    rcases hJ a ha b hb hbn with h | h
    · exact h
    · simp at h
  | case2 unv a rest acc hmem ih =>
    intro hnd hu hJ
    rw [closure, if_pos hmem]
    have hnd' : (unv.erase a).Nodup := hnd.erase a
    have hu' : ∀ x, x ∈ unv.erase a ↔ (x < n ∧ x ∉ a :: acc) := by
      intro x
      rw [hnd.mem_erase_iff, hu x]
      simp only [List.mem_cons, not_or]
      tauto
    have hJ' : ∀ a' ∈ a :: acc, ∀ b ∈ depsOf objs a', b < n → b ∈ a :: acc ∨ b ∈ depsOf objs a ++ rest := by
      intro a' ha' b hb hbn
      rcases List.mem_cons.mp ha' with rfl | ha'
      · exact Or.inr (List.mem_append_left _ hb)
      · rcases hJ a' ha' b hb hbn with h | h
        · exact Or.inl (List.mem_cons_of_mem _ h)
        · rcases List.mem_cons.mp h with rfl | h
          · exact Or.inl List.mem_cons_self
          · exact Or.inr (List.mem_append_right _ h)
    obtain ⟨h1, h2, h3⟩ := ih hnd' hu' hJ'
    refine ⟨fun x hx => h1 x (List.mem_cons_of_mem _ hx), ?_, h3⟩
    intro t ht htn
    rcases List.mem_cons.mp ht with rfl | ht
    · exact h1 _ List.mem_cons_self
    · exact h2 t (List.mem_append_right _ ht) htn
  | case3 unv a rest acc hmem ih =>
    intro hnd hu hJ
    rw [closure, if_neg hmem]
    have ha : a < n → a ∈ acc := by
      intro han
      by_contra hc
      exact hmem ((hu a).mpr ⟨han, hc⟩)
    have hJ' : ∀ a' ∈ acc, ∀ b ∈ depsOf objs a', b < n → b ∈ acc ∨ b ∈ rest := by
      intro a' ha' b hb hbn
      rcases hJ a' ha' b hb hbn with h | h
      · exact Or.inl h
      · rcases List.mem_cons.mp h with rfl | h
        · exact Or.inl (ha hbn)
        · exact Or.inr h
    obtain ⟨h1, h2, h3⟩ := ih hnd hu hJ'
    refine ⟨h1, ?_, h3⟩
    intro t ht htn
    rcases List.mem_cons.mp ht with rfl | ht
    · exact h1 _ (ha htn)
    · exact h2 t ht htn

/-- with enough budget the structurally recursive traversal is the depth-first closure -/
theorem closureF_eq (objs : List Obj) :
    ∀ (unv todo acc : List Nat) (fuel : Nat), budget objs unv todo ≤ fuel →
      closureF objs fuel unv todo acc = closure objs unv todo acc := by
  intro unv todo acc
  induction unv, todo, acc using closure.induct (objs := objs) with
  | case1 unv acc =>
    intro fuel _
    rw [closure]
    cases fuel <;> rfl
  | case2 unv a rest acc hmem ih =>
    intro fuel hf
    rw [closure, if_pos hmem]
    have hsum := List.sum_map_erase (fun a => 1 + (depsOf objs a).length) hmem
    cases fuel with
    | zero =>
      simp only [budget, List.length_cons] at hf
      omega
    | succ f =>
      simp only [closureF, if_pos hmem]
      apply ih
      simp only [budget, List.length_cons, List.length_append] at hf ⊢
      omega
  | case3 unv a rest acc hmem ih =>
    intro fuel hf
    rw [closure, if_neg hmem]
    cases fuel with
    | zero => simp only [budget, List.length_cons] at hf; omega
    | succ f =>
      simp only [closureF, if_neg hmem]
      apply ih
      simp only [budget, List.length_cons] at hf ⊢
      omega

/-- what `clearSet` (transitive) computes: a set containing `o` and closed under dependency lists -/
theorem clearSet_closed (s : State) (o : Nat) (ho : o < s.objs.length) :
    o ∈ clearSet ⟨true, true⟩ s o ∧
    ∀ a ∈ clearSet ⟨true, true⟩ s o, ∀ b ∈ depsOf s.objs a, b < s.objs.length → b ∈ clearSet ⟨true, true⟩ s o := by
  have h := closure_spec s.objs s.objs.length (List.range s.objs.length) [o] []
    List.nodup_range (by intro x; simp) (by intro a ha; simp at ha)
  simp only [clearSet, if_true]
  rw [closureF_eq s.objs _ _ _ _ (Nat.le_refl _)]
  exact ⟨h.2.1 o (by simp) ho, h.2.2⟩

/-! ### Reachability along dependency lists -/

inductive Reach (objs : List Obj) : Nat → Nat → Prop
  | refl (a : Nat) : Reach objs a a
  | step {a b c : Nat} : b ∈ depsOf objs a → Reach objs b c → Reach objs a c

theorem Reach.trans {objs : List Obj} {a b c : Nat} (h1 : Reach objs a b) (h2 : Reach objs b c) : Reach objs a c := by
  induction h1 with
  | refl => exact h2
  | step hd _ ih => exact Reach.step hd (ih h2)

theorem Reach.single {objs : List Obj} {a b : Nat} (h : b ∈ depsOf objs a) : Reach objs a b :=
  Reach.step h (Reach.refl b)

/-- reachability only grows when dependency lists grow -/
theorem Reach.mono {objs objs' : List Obj} (hsub : ∀ a b, b ∈ depsOf objs a → b ∈ depsOf objs' a)
    {a b : Nat} (h : Reach objs a b) : Reach objs' a b := by
  induction h with
  | refl => exact Reach.refl _
  | step hd _ ih => exact Reach.step (hsub _ _ hd) ih

def vdepsOf (objs : List Obj) (a : Nat) : List Nat := (objs[a]?.map (·.vdeps)).getD []

theorem vdepsOf_sub (objs : List Obj) (a b : Nat) (h : b ∈ vdepsOf objs a) : b ∈ depsOf objs a := by
  unfold vdepsOf at h; unfold depsOf
  cases ho : objs[a]? with
  | none => simp [ho] at h
  | some o => simp [ho] at h ⊢; exact Or.inl h

/-- reachability along the view links only -/
inductive VReach (objs : List Obj) : Nat → Nat → Prop
  | refl (a : Nat) : VReach objs a a
  | step {a b c : Nat} : b ∈ vdepsOf objs a → VReach objs b c → VReach objs a c

theorem VReach.trans {objs : List Obj} {a b c : Nat} (h1 : VReach objs a b) (h2 : VReach objs b c) : VReach objs a c := by
  induction h1 with
  | refl => exact h2
  | step hd _ ih => exact VReach.step hd (ih h2)

theorem VReach.toReach {objs : List Obj} {a b : Nat} (h : VReach objs a b) : Reach objs a b := by
  induction h with
  | refl => exact Reach.refl _
  | step hd _ ih => exact Reach.step (vdepsOf_sub _ _ _ hd) ih

theorem VReach.mono {objs objs' : List Obj} (hsub : ∀ a b, b ∈ vdepsOf objs a → b ∈ vdepsOf objs' a)
    {a b : Nat} (h : VReach objs a b) : VReach objs' a b := by
  induction h with
  | refl => exact VReach.refl _
  | step hd _ ih => exact VReach.step (hsub _ _ hd) ih

/-- a closed set containing the start contains everything reachable (dependency ids being valid) -/
theorem reach_in_closed {objs : List Obj} {n : Nat} {R : List Nat}
    (hvalid : ∀ a b, b ∈ depsOf objs a → b < n)
    (hclosed : ∀ a ∈ R, ∀ b ∈ depsOf objs a, b < n → b ∈ R) {a b : Nat} (ha : a ∈ R) (h : Reach objs a b) : b ∈ R := by
  induction h with
  | refl => exact ha
  | step hd _ ih => exact ih (hclosed _ ha _ hd (hvalid _ _ hd))

end Midgard.ObjCache

namespace Midgard.ObjCache

/-! ### The invariant -/

structure Inv (s : State) : Prop where
  /-- dependency ids are object ids -/
  depValid : ∀ a b, b ∈ depsOf s.objs a → b < s.objs.length
  /-- memory blocks exist -/
  memLt : ∀ (i : Nat) (o : Obj), s.objs[i]? = some o → o.mem < s.mems.length
  /-- a cached value is the snapshot of the current contents -/
  convOK : ∀ (i : Nat) (o : Obj) (snap : List Val), s.objs[i]? = some o → o.conv = some snap → snap = contentsOf s o
  derOK : ∀ (i : Nat) (o : Obj) (a b : List Val), s.objs[i]? = some o → o.der = some (a, b) →
    ∃ (q : Nat) (qo : Obj), o.other = some q ∧ s.objs[q]? = some qo ∧ a = contentsOf s o ∧ b = contentsOf s qo
  /-- objects sharing a memory block reach each other through the dependency lists -/
  share : ∀ (i j : Nat) (oi oj : Obj), s.objs[i]? = some oi → s.objs[j]? = some oj → oi.mem = oj.mem → VReach s.objs i j
  /-- an object is registered with its `other` -/
  otherDep : ∀ (p : Nat) (po : Obj) (q : Nat), s.objs[p]? = some po → po.other = some q → p ∈ depsOf s.objs q ∧ q < s.objs.length

theorem inv_empty : Inv ({} : State) :=
  ⟨by intro a b h; simp [depsOf] at h, by intro i o h; simp at h, by intro i o snap h; simp at h,
   by intro i o a b h; simp at h, by intro i j oi oj h; simp at h, by intro p po q h; simp at h⟩

/-- two object lists with the same shape (everything but the caches) -/
def SameShape (objs objs' : List Obj) : Prop :=
  objs'.length = objs.length ∧
  ∀ (i : Nat) (o' : Obj), objs'[i]? = some o' → ∃ o : Obj, objs[i]? = some o ∧ o'.mem = o.mem ∧ o'.idx = o.idx ∧ o'.other = o.other ∧
    o'.vdeps = o.vdeps ∧ o'.odeps = o.odeps

theorem SameShape.depsOf {objs objs' : List Obj} (h : SameShape objs objs') (a : Nat) : depsOf objs' a = depsOf objs a := by
  unfold Midgard.ObjCache.depsOf
  cases h' : objs'[a]? with
  | none =>
    have : objs[a]? = none := by
      rw [List.getElem?_eq_none_iff] at h' ⊢; rw [← h.1]; exact h'
    simp [this]
  | some o' =>
    obtain ⟨o, ho, _, _, _, hv, hod⟩ := h.2 a o' h'
    simp [ho, hv, hod]

theorem SameShape.vdepsOf {objs objs' : List Obj} (h : SameShape objs objs') (a : Nat) : vdepsOf objs' a = vdepsOf objs a := by
  unfold Midgard.ObjCache.vdepsOf
  cases h' : objs'[a]? with
  | none =>
    have : objs[a]? = none := by
      rw [List.getElem?_eq_none_iff] at h' ⊢; rw [← h.1]; exact h'
    simp [this]
  | some o' =>
    obtain ⟨o, ho, _, _, _, hv, _⟩ := h.2 a o' h'
    simp [ho, hv]

theorem SameShape.reach {objs objs' : List Obj} (h : SameShape objs objs') {a b : Nat} :
    VReach objs a b → VReach objs' a b :=
  VReach.mono (fun a b hb => by rw [h.vdepsOf]; exact hb)

theorem contentsOf_congr {s s' : State} {o o' : Obj} (hm : s'.mems = s.mems) (h1 : o'.mem = o.mem) (h2 : o'.idx = o.idx) :
    contentsOf s' o' = contentsOf s o := by
  simp [contentsOf, cell, hm, h1, h2]

/-- changing only caches (same memory) keeps every structural part of the invariant -/
theorem inv_of_sameShape {s s' : State} (hs : Inv s) (hm : s'.mems.length = s.mems.length) (hsh : SameShape s.objs s'.objs)
    (hconv : ∀ (i : Nat) (o' : Obj) (snap : List Val), s'.objs[i]? = some o' → o'.conv = some snap → snap = contentsOf s' o')
    (hder : ∀ (i : Nat) (o' : Obj) (a b : List Val), s'.objs[i]? = some o' → o'.der = some (a, b) →
      ∃ (q : Nat) (qo : Obj), o'.other = some q ∧ s'.objs[q]? = some qo ∧ a = contentsOf s' o' ∧ b = contentsOf s' qo) : Inv s' := by
  refine ⟨?_, ?_, hconv, hder, ?_, ?_⟩
  · intro a b hb; rw [hsh.depsOf] at hb; rw [hsh.1]; exact hs.depValid a b hb
  · intro i o' ho'
    obtain ⟨o, ho, h1, _⟩ := hsh.2 i o' ho'
    rw [hm, h1]; exact hs.memLt i o ho
  · intro i j oi oj hi hj hmem
    obtain ⟨oi0, hi0, h1, _⟩ := hsh.2 i oi hi
    obtain ⟨oj0, hj0, h2, _⟩ := hsh.2 j oj hj
    exact hsh.reach (hs.share i j oi0 oj0 hi0 hj0 (by rw [← h1, ← h2]; exact hmem))
  · intro p po q hp hq
    obtain ⟨po0, hp0, _, _, h3, _⟩ := hsh.2 p po hp
    have := hs.otherDep p po0 q hp0 (by rw [← h3]; exact hq)
    rw [hsh.depsOf, hsh.1]; exact this

/-- shape of `mapIdx` with a function that only touches the caches -/
theorem sameShape_mapIdx (objs : List Obj) (g : Nat → Obj → Obj)
    (hg : ∀ (i : Nat) (o : Obj), (g i o).mem = o.mem ∧ (g i o).idx = o.idx ∧ (g i o).other = o.other ∧ (g i o).vdeps = o.vdeps ∧ (g i o).odeps = o.odeps) :
    SameShape objs (objs.mapIdx g) := by
  refine ⟨by simp, ?_⟩
  intro i o' ho'
  rw [List.getElem?_mapIdx] at ho'
  cases h : objs[i]? with
  | none => simp [h] at ho'
  | some o =>
    simp only [h, Option.map_some, Option.some.injEq] at ho'
    subst ho'
    exact ⟨o, rfl, hg i o⟩

/-- Each cache of the new state is the old one, empty, or freshly computed from the current contents. -/
def CacheStep (s : State) (o o' : Obj) : Prop :=
  (o'.conv = o.conv ∨ o'.conv = none ∨ o'.conv = some (contentsOf s o)) ∧
  (o'.der = o.der ∨ o'.der = none ∨
    ∃ (q : Nat) (qo : Obj), o.other = some q ∧ s.objs[q]? = some qo ∧ o'.der = some (contentsOf s o, contentsOf s qo))

/-- same memory, same shape, caches updated by `CacheStep`: the invariant is kept -/
theorem inv_cache_update {s s' : State} (hs : Inv s) (hm : s'.mems = s.mems) (hsh : SameShape s.objs s'.objs)
    (hc : ∀ (i : Nat) (o o' : Obj), s.objs[i]? = some o → s'.objs[i]? = some o' → CacheStep s o o') : Inv s' := by
  have shape : ∀ (i : Nat) (o' : Obj), s'.objs[i]? = some o' →
      ∃ o : Obj, s.objs[i]? = some o ∧ contentsOf s' o' = contentsOf s o ∧ o'.other = o.other := by
    intro i o' ho'
    obtain ⟨o, ho, h1, h2, h3, _⟩ := hsh.2 i o' ho'
    exact ⟨o, ho, contentsOf_congr hm h1 h2, h3⟩
  have back : ∀ (i : Nat) (o : Obj), s.objs[i]? = some o → ∃ o' : Obj, s'.objs[i]? = some o' := by
    intro i o ho
    have hlt : i < s'.objs.length := by
      rw [hsh.1]
      by_contra hc'
      rw [List.getElem?_eq_none (by omega)] at ho; cases ho
    exact ⟨s'.objs[i], List.getElem?_eq_getElem hlt⟩
  refine inv_of_sameShape hs (by rw [hm]) hsh ?_ ?_
  · intro i o' snap ho' hsnap
    obtain ⟨o, ho, hcont, _⟩ := shape i o' ho'
    rw [hcont]
    rcases (hc i o o' ho ho').1 with h | h | h
    · exact hs.convOK i o snap ho (by rw [← h]; exact hsnap)
    · rw [h] at hsnap; cases hsnap
    · rw [h] at hsnap; exact (Option.some.inj hsnap).symm
  · intro i o' a b ho' hab
    obtain ⟨o, ho, hcont, hoth⟩ := shape i o' ho'
    have fin : ∀ (q : Nat) (qo : Obj), o.other = some q → s.objs[q]? = some qo → a = contentsOf s o → b = contentsOf s qo →
        ∃ (q : Nat) (qo' : Obj), o'.other = some q ∧ s'.objs[q]? = some qo' ∧ a = contentsOf s' o' ∧ b = contentsOf s' qo' := by
      intro q qo h1 h2 h3 h4
      obtain ⟨qo', hq'⟩ := back q qo h2
      obtain ⟨qo0, hq0, hqc, _⟩ := shape q qo' hq'
      rw [h2] at hq0; cases hq0
      exact ⟨q, qo', by rw [hoth]; exact h1, hq', by rw [hcont]; exact h3, by rw [hqc]; exact h4⟩
    rcases (hc i o o' ho ho').2 with h | h | ⟨q, qo, h1, h2, h3⟩
    · obtain ⟨q, qo, h1, h2, h3, h4⟩ := hs.derOK i o a b ho (by rw [← h]; exact hab)
      exact fin q qo h1 h2 h3 h4
    · rw [h] at hab; cases hab
    · rw [h3] at hab
      have := Option.some.inj hab
      exact fin q qo h1 h2 (by rw [← (Prod.mk.inj this).1]) (by rw [← (Prod.mk.inj this).2])

/-- replace the object at position `p` -/
def updAt (objs : List Obj) (p : Nat) (f : Obj → Obj) : List Obj :=
  objs.mapIdx (fun i ob => if i = p then f ob else ob)

theorem getElem?_updAt (objs : List Obj) (p : Nat) (f : Obj → Obj) (i : Nat) :
    (updAt objs p f)[i]? = (objs[i]?).map (fun ob => if i = p then f ob else ob) := by
  simp [updAt, List.getElem?_mapIdx]

theorem sameShape_updAt (objs : List Obj) (p : Nat) (f : Obj → Obj)
    (hf : ∀ o : Obj, (f o).mem = o.mem ∧ (f o).idx = o.idx ∧ (f o).other = o.other ∧ (f o).vdeps = o.vdeps ∧ (f o).odeps = o.odeps) :
    SameShape objs (updAt objs p f) :=
  sameShape_mapIdx objs _ (by intro i o; split_ifs <;> simp [hf o])

/-! ### Reads return the current contents and keep the invariant -/

theorem readConv_current {s : State} (hs : Inv s) (p : Nat) :
    (step ⟨true, true⟩ s (.readConv p)).2 = (refStep s (.readConv p)).2 ∧ Inv (step ⟨true, true⟩ s (.readConv p)).1 := by
  cases hp : s.objs[p]? with
  | none => simp only [step, refStep, hp]; exact ⟨by first | rfl | trivial, hs⟩
  | some po =>
    cases hc : po.conv with
    | some snap =>
      simp only [step, refStep, hp, hc]
      exact ⟨by rw [hs.convOK p po snap hp hc], hs⟩
    | none =>
      simp only [step, refStep, hp, hc]
      refine ⟨by first | rfl | trivial, ?_⟩
      refine inv_cache_update (s' := { s with objs := updAt s.objs p (fun ob => { ob with conv := some (contentsOf s po) }) })
        hs rfl (sameShape_updAt _ _ _ (by intro o; simp)) ?_
      intro i o o' ho ho'
      rw [getElem?_updAt, ho] at ho'
      simp only [Option.map_some, Option.some.injEq] at ho'
      by_cases hip : i = p
      · subst hip; rw [hp] at ho; cases ho
        simp only [if_true] at ho'; subst ho'
        exact ⟨Or.inr (Or.inr rfl), Or.inl rfl⟩
      · simp only [hip, if_false] at ho'; subst ho'
        exact ⟨Or.inl rfl, Or.inl rfl⟩

theorem readDer_current {s : State} (hs : Inv s) (p : Nat) :
    (step ⟨true, true⟩ s (.readDer p)).2 = (refStep s (.readDer p)).2 ∧ Inv (step ⟨true, true⟩ s (.readDer p)).1 := by
  cases hp : s.objs[p]? with
  | none => simp only [step, refStep, hp]; exact ⟨by first | rfl | trivial, hs⟩
  | some po =>
    cases hq : po.other with
    | none => simp only [step, refStep, hp, hq]; exact ⟨by first | rfl | trivial, hs⟩
    | some q =>
      cases hqo : s.objs[q]? with
      | none => simp only [step, refStep, hp, hq, hqo]; exact ⟨by first | rfl | trivial, hs⟩
      | some qo =>
        cases hc : po.der with
        | some ab =>
          obtain ⟨a, b⟩ := ab
          simp only [step, refStep, hp, hq, hqo, hc]
          obtain ⟨q', qo', h1, h2, h3, h4⟩ := hs.derOK p po a b hp hc
          rw [hq] at h1; cases h1
          rw [hqo] at h2; cases h2
          exact ⟨by rw [h3, h4], hs⟩
        | none =>
          simp only [step, refStep, hp, hq, hqo, hc]
          refine ⟨by first | rfl | trivial, ?_⟩
          refine inv_cache_update
            (s' := { s with objs := updAt s.objs p (fun ob => { ob with der := some (contentsOf s po, contentsOf s qo) }) })
            hs rfl (sameShape_updAt _ _ _ (by intro o; simp)) ?_
          intro i o o' ho ho'
          rw [getElem?_updAt, ho] at ho'
          simp only [Option.map_some, Option.some.injEq] at ho'
          by_cases hip : i = p
          · subst hip; rw [hp] at ho; cases ho
            simp only [if_true] at ho'; subst ho'
            exact ⟨Or.inl rfl, Or.inr (Or.inr ⟨q, qo, hq, hqo, rfl⟩)⟩
          · simp only [hip, if_false] at ho'; subst ho'
            exact ⟨Or.inl rfl, Or.inl rfl⟩

/-! ### Item assignment -/

theorem getElem?_clearCaches (objs : List Obj) (ids : List Nat) (i : Nat) :
    (clearCaches objs ids)[i]? = (objs[i]?).map (fun ob => if i ∈ ids then { ob with conv := none, der := none } else ob) := by
  simp [clearCaches, List.getElem?_mapIdx]

theorem sameShape_clearCaches (objs : List Obj) (ids : List Nat) : SameShape objs (clearCaches objs ids) :=
  sameShape_mapIdx objs _ (by intro i o; split_ifs <;> simp)

/-- memory after `p[k] = v` -/
def writeMem (mems : List (List Val)) (m r : Nat) (v : Val) : List (List Val) :=
  mems.mapIdx (fun m' blk => if m' = m then blk.set r v else blk)

theorem cell_writeMem_other (s : State) (m r : Nat) (v : Val) (m' j : Nat) (h : m' ≠ m) (objs : List Obj) :
    cell { mems := writeMem s.mems m r v, objs := objs } m' j = cell s m' j := by
  simp [cell, writeMem, List.getElem?_mapIdx, h]

theorem contents_writeMem_other (s : State) (m r : Nat) (v : Val) (o : Obj) (h : o.mem ≠ m) (objs : List Obj) :
    contentsOf { mems := writeMem s.mems m r v, objs := objs } o = contentsOf s o := by
  simp only [contentsOf]
  apply List.map_congr_left
  intro j _
  exact cell_writeMem_other s m r v o.mem j h objs

theorem setItem_inv {s : State} (hs : Inv s) (p k : Nat) (v : Val) :
    (step ⟨true, true⟩ s (.setItem p k v)).2 = (refStep s (.setItem p k v)).2 ∧ Inv (step ⟨true, true⟩ s (.setItem p k v)).1 := by
  refine ⟨rfl, ?_⟩
  cases hp : s.objs[p]? with
  | none => simp only [step, hp]; exact hs
  | some po =>
    cases hr : po.idx[k]? with
    | none => simp only [step, hp, hr]; exact hs
    | some r =>
      simp only [step, hp, hr]
      have hplt : p < s.objs.length := by
        by_contra hc; rw [List.getElem?_eq_none (by omega)] at hp; cases hp
      obtain ⟨hpin, hclosed⟩ := clearSet_closed s p hplt
      set C := clearSet ⟨true, true⟩ s p with hC
      have inC : ∀ i, Reach s.objs p i → i ∈ C := fun i h => reach_in_closed hs.depValid hclosed hpin h
      -- an object outside the cleared set does not look at the written block
      have untouched : ∀ (i : Nat) (o : Obj), s.objs[i]? = some o → i ∉ C → o.mem ≠ po.mem := by
        intro i o ho hiC hmem
        exact hiC (inC i (hs.share p i po o hp ho hmem.symm).toReach)
      have hsh := sameShape_clearCaches s.objs C
      have hlen : (writeMem s.mems po.mem r v).length = s.mems.length := by simp [writeMem]
      refine inv_of_sameShape (s' := { mems := writeMem s.mems po.mem r v, objs := clearCaches s.objs C }) hs hlen hsh ?_ ?_
      · intro i o' snap ho' hsnap
        rw [getElem?_clearCaches] at ho'
        cases ho : s.objs[i]? with
        | none => simp [ho] at ho'
        | some o =>
          simp only [ho, Option.map_some, Option.some.injEq] at ho'
          by_cases hiC : i ∈ C
          · simp only [hiC, if_true] at ho'; subst ho'; simp at hsnap
          · simp only [hiC, if_false] at ho'; subst ho'
            rw [contents_writeMem_other s po.mem r v o (untouched i o ho hiC)]
            exact hs.convOK i o snap ho hsnap
      · intro i o' a b ho' hab
        rw [getElem?_clearCaches] at ho'
        cases ho : s.objs[i]? with
        | none => simp [ho] at ho'
        | some o =>
          simp only [ho, Option.map_some, Option.some.injEq] at ho'
          by_cases hiC : i ∈ C
          · simp only [hiC, if_true] at ho'; subst ho'; simp at hab
          · simp only [hiC, if_false] at ho'; subst ho'
            obtain ⟨q, qo, h1, h2, h3, h4⟩ := hs.derOK i o a b ho hab
            -- the other is outside the cleared set too: otherwise i, registered with it, would be inside
            have hqC : q ∉ C := by
              intro hq
              have hdep := (hs.otherDep i o q ho h1).1
              exact hiC (hclosed q hq i hdep (hs.depValid q i hdep))
            obtain ⟨qo', hq'⟩ : ∃ qo' : Obj, (clearCaches s.objs C)[q]? = some qo' ∧ qo'.mem = qo.mem ∧ qo'.idx = qo.idx := by
              rw [getElem?_clearCaches, h2]
              simp only [hqC, if_false, Option.map_some]
              exact ⟨qo, rfl, rfl, rfl⟩
            refine ⟨q, qo', h1, hq'.1, ?_, ?_⟩
            · rw [contents_writeMem_other s po.mem r v o (untouched i o ho hiC)]; exact h3
            · have : contentsOf { mems := writeMem s.mems po.mem r v, objs := clearCaches s.objs C } qo'
                  = contentsOf { mems := writeMem s.mems po.mem r v, objs := clearCaches s.objs C } qo :=
                contentsOf_congr rfl hq'.2.1 hq'.2.2
              rw [this, contents_writeMem_other s po.mem r v qo (untouched q qo h2 hqC)]; exact h4

/-! ### New arrays (own memory): `create`, `take` -/

theorem getElem?_append_old {α} (l m : List α) (i : Nat) (x : α) (h : l[i]? = some x) : (l ++ m)[i]? = some x := by
  have hi : i < l.length := by
    by_contra hc; rw [List.getElem?_eq_none (by omega)] at h; cases h
  rw [List.getElem?_append_left hi]; exact h

theorem getElem?_append_cases {α} (l : List α) (x : α) (i : Nat) (y : α) (h : (l ++ [x])[i]? = some y) :
    l[i]? = some y ∨ (i = l.length ∧ y = x) := by
  by_cases hi : i < l.length
  · rw [List.getElem?_append_left hi] at h; exact Or.inl h
  · rw [List.getElem?_append_right (by omega)] at h
    have : i - l.length = 0 := by
      by_contra hc
      rw [List.getElem?_eq_none (by simp; omega)] at h; cases h
    rw [this] at h; simp at h
    exact Or.inr ⟨by omega, h.symm⟩

theorem depsOf_append_old (objs : List Obj) (x : Obj) (a : Nat) (h : a < objs.length) : depsOf (objs ++ [x]) a = depsOf objs a := by
  simp [depsOf, List.getElem?_append_left h]

theorem vdepsOf_append_old (objs : List Obj) (x : Obj) (a : Nat) (h : a < objs.length) : vdepsOf (objs ++ [x]) a = vdepsOf objs a := by
  simp [vdepsOf, List.getElem?_append_left h]

theorem depsOf_ge (objs : List Obj) (a : Nat) (h : objs.length ≤ a) : depsOf objs a = [] := by
  simp [depsOf, List.getElem?_eq_none h]

theorem vdepsOf_ge (objs : List Obj) (a : Nat) (h : objs.length ≤ a) : vdepsOf objs a = [] := by
  simp [vdepsOf, List.getElem?_eq_none h]

theorem cell_append_old (s : State) (extra : List (List Val)) (objs : List Obj) (m j : Nat) (h : m < s.mems.length) :
    cell { mems := s.mems ++ extra, objs := objs } m j = cell s m j := by
  simp [cell, List.getElem?_append_left h]

theorem contents_append_old (s : State) (extra : List (List Val)) (objs : List Obj) (o : Obj) (h : o.mem < s.mems.length) :
    contentsOf { mems := s.mems ++ extra, objs := objs } o = contentsOf s o := by
  simp only [contentsOf]
  apply List.map_congr_left
  intro j _
  exact cell_append_old s extra objs o.mem j h

theorem inv_pushFresh {s : State} (hs : Inv s) (vals : List Val) :
    Inv { mems := s.mems ++ [vals], objs := s.objs ++ [{ mem := s.mems.length, idx := List.range vals.length }] } := by
  generalize hnw : ({ mem := s.mems.length, idx := List.range vals.length } : Obj) = nw
  have f_mem : nw.mem = s.mems.length := by rw [← hnw]
  have f_v : nw.vdeps = [] := by rw [← hnw]
  have f_o : nw.odeps = [] := by rw [← hnw]
  have f_conv : nw.conv = none := by rw [← hnw]
  have f_der : nw.der = none := by rw [← hnw]
  have f_other : nw.other = none := by rw [← hnw]
  have old : ∀ (i : Nat) (o : Obj), (s.objs ++ [nw])[i]? = some o → s.objs[i]? = some o ∨ (i = s.objs.length ∧ o = nw) :=
    fun i o h => getElem?_append_cases s.objs nw i o h
  have hdsub : ∀ a b, b ∈ depsOf (s.objs ++ [nw]) a → b ∈ depsOf s.objs a := by
    intro a b hb
    by_cases ha : a < s.objs.length
    · rwa [depsOf_append_old _ _ _ ha] at hb
    · exfalso
      unfold depsOf at hb
      by_cases ha' : a = s.objs.length
      · subst ha'; simp [f_v, f_o] at hb
      · rw [List.getElem?_eq_none (by simp; omega)] at hb; simp at hb
  refine ⟨?_, ?_, ?_, ?_, ?_, ?_⟩
  · intro a b hb
    have := hs.depValid a b (hdsub a b hb)
    simp; omega
  · intro i o ho
    rcases old i o ho with h | ⟨_, h⟩
    · have := hs.memLt i o h; simp; omega
    · subst h; simp [f_mem]
  · intro i o snap ho hsnap
    rcases old i o ho with h | ⟨_, h⟩
    · rw [contents_append_old s [vals] _ o (hs.memLt i o h)]; exact hs.convOK i o snap h hsnap
    · subst h; rw [f_conv] at hsnap; cases hsnap
  · intro i o a b ho hab
    rcases old i o ho with h | ⟨_, h⟩
    · obtain ⟨q, qo, h1, h2, h3, h4⟩ := hs.derOK i o a b h hab
      refine ⟨q, qo, h1, getElem?_append_old _ _ _ _ h2, ?_, ?_⟩
      · rw [contents_append_old s [vals] _ o (hs.memLt i o h)]; exact h3
      · rw [contents_append_old s [vals] _ qo (hs.memLt q qo h2)]; exact h4
    · subst h; rw [f_der] at hab; cases hab
  · intro i j oi oj hi hj hmem
    have vmono : ∀ {a b : Nat}, VReach s.objs a b → VReach (s.objs ++ [nw]) a b := by
      intro a b
      apply VReach.mono
      intro a b hb
      by_cases ha : a < s.objs.length
      · rwa [vdepsOf_append_old _ _ _ ha]
      · rw [vdepsOf_ge _ _ (by omega)] at hb; cases hb
    rcases old i oi hi with h1 | ⟨e1, h1⟩ <;> rcases old j oj hj with h2 | ⟨e2, h2⟩
    · exact vmono (hs.share i j oi oj h1 h2 hmem)
    · subst h2; have := hs.memLt i oi h1; rw [f_mem] at hmem; omega
    · subst h1; have := hs.memLt j oj h2; rw [f_mem] at hmem; omega
    · rw [e1, e2]; exact VReach.refl _
  · intro p po q hp hq
    rcases old p po hp with h | ⟨_, h⟩
    · obtain ⟨h1, h2⟩ := hs.otherDep p po q h hq
      refine ⟨?_, by simp; omega⟩
      rw [depsOf_append_old _ _ _ h2]; exact h1
    · subst h; rw [f_other] at hq; cases hq

theorem create_inv {s : State} (hs : Inv s) (vals : List Val) :
    (step ⟨true, true⟩ s (.create vals)).2 = (refStep s (.create vals)).2 ∧ Inv (step ⟨true, true⟩ s (.create vals)).1 :=
  ⟨rfl, by simp only [step]; exact inv_pushFresh hs vals⟩

theorem take_inv {s : State} (hs : Inv s) (p : Nat) (rows : List Nat) :
    (step ⟨true, true⟩ s (.take p rows)).2 = (refStep s (.take p rows)).2 ∧ Inv (step ⟨true, true⟩ s (.take p rows)).1 := by
  refine ⟨rfl, ?_⟩
  cases hp : s.objs[p]? with
  | none => simp only [step, hp]; exact hs
  | some po =>
    simp only [step, hp]
    have := inv_pushFresh hs ((rows.filterMap (po.idx[·]?)).map (cell s po.mem))
    simpa using this

/-! ### Row views: `view` -/

/-- Abstract description of "one more object `n`, a view of the memory of `p`, linked with `p`
(and registered with its `other`)"; caches of existing objects untouched. -/
structure ViewExt (s s' : State) (p : Nat) (oth : Option Nat) : Prop where
  mems_eq : s'.mems = s.mems
  len : s'.objs.length = s.objs.length + 1
  oldObj : ∀ (i : Nat) (o' : Obj), s'.objs[i]? = some o' → i < s.objs.length →
    ∃ o : Obj, s.objs[i]? = some o ∧ o'.mem = o.mem ∧ o'.idx = o.idx ∧ o'.other = o.other ∧ o'.conv = o.conv ∧ o'.der = o.der ∧
      (∀ d ∈ o.vdeps, d ∈ o'.vdeps) ∧ (∀ d ∈ o.odeps, d ∈ o'.odeps) ∧
      (∀ d ∈ o'.vdeps ++ o'.odeps, d ∈ o.vdeps ++ o.odeps ∨ d = s.objs.length)
  fwd : ∀ (i : Nat) (o : Obj), s.objs[i]? = some o → ∃ o' : Obj, s'.objs[i]? = some o'
  newObj : ∃ (nw op : Obj), s'.objs[s.objs.length]? = some nw ∧ s.objs[p]? = some op ∧ nw.mem = op.mem ∧ nw.conv = none ∧
    nw.der = none ∧ nw.other = oth ∧ (∀ d ∈ nw.vdeps ++ nw.odeps, d < s.objs.length + 1) ∧ p ∈ nw.vdeps
  linkBack : s.objs.length ∈ vdepsOf s'.objs p
  othOK : ∀ t, oth = some t → t < s.objs.length ∧ s.objs.length ∈ depsOf s'.objs t

theorem inv_viewExt {s s' : State} {p : Nat} {oth : Option Nat} (hs : Inv s) (h : ViewExt s s' p oth) : Inv s' := by
  obtain ⟨nw, op, hnw, hop, hnm, hnc, hnd, hno, hnv, hpin⟩ := h.newObj
  have hplt : p < s.objs.length := by
    by_contra hc; rw [List.getElem?_eq_none (by omega)] at hop; cases hop
  have split : ∀ (i : Nat) (o' : Obj), s'.objs[i]? = some o' → i < s.objs.length ∨ (i = s.objs.length ∧ o' = nw) := by
    intro i o' ho'
    have hi : i < s'.objs.length := by
      by_contra hc; rw [List.getElem?_eq_none (by omega)] at ho'; cases ho'
    rw [h.len] at hi
    by_cases hlt : i < s.objs.length
    · exact Or.inl hlt
    · have : i = s.objs.length := by omega
      subst this; rw [hnw] at ho'; exact Or.inr ⟨rfl, (Option.some.inj ho').symm⟩
  have cont : ∀ (o o' : Obj), o'.mem = o.mem → o'.idx = o.idx → contentsOf s' o' = contentsOf s o :=
    fun o o' h1 h2 => contentsOf_congr h.mems_eq h1 h2
  have vsub : ∀ a b, b ∈ vdepsOf s.objs a → b ∈ vdepsOf s'.objs a := by
    intro a b hb
    unfold vdepsOf at hb ⊢
    cases ho : s.objs[a]? with
    | none => simp [ho] at hb
    | some o =>
      simp only [ho, Option.map_some, Option.getD_some] at hb
      obtain ⟨o', ho'⟩ := h.fwd a o ho
      have halt : a < s.objs.length := by
        by_contra hc; rw [List.getElem?_eq_none (by omega)] at ho; cases ho
      obtain ⟨o0, h0, _, _, _, _, _, hv, _, _⟩ := h.oldObj a o' ho' halt
      rw [ho] at h0; cases h0
      simp only [ho', Option.map_some, Option.getD_some]
      exact hv b hb
  have dsub : ∀ a b, b ∈ depsOf s.objs a → b ∈ depsOf s'.objs a := by
    intro a b hb
    unfold depsOf at hb ⊢
    cases ho : s.objs[a]? with
    | none => simp [ho] at hb
    | some o =>
      simp only [ho, Option.map_some, Option.getD_some] at hb
      obtain ⟨o', ho'⟩ := h.fwd a o ho
      have halt : a < s.objs.length := by
        by_contra hc; rw [List.getElem?_eq_none (by omega)] at ho; cases ho
      obtain ⟨o0, h0, _, _, _, _, _, hv, hod, _⟩ := h.oldObj a o' ho' halt
      rw [ho] at h0; cases h0
      simp only [ho', Option.map_some, Option.getD_some]
      rcases List.mem_append.mp hb with hb | hb
      · exact List.mem_append_left _ (hv b hb)
      · exact List.mem_append_right _ (hod b hb)
  have edge_np : p ∈ vdepsOf s'.objs s.objs.length := by
    unfold vdepsOf; simp only [hnw, Option.map_some, Option.getD_some]; exact hpin
  refine ⟨?_, ?_, ?_, ?_, ?_, ?_⟩
  · -- depValid
    intro a b hb
    rw [h.len]
    unfold depsOf at hb
    cases ho' : s'.objs[a]? with
    | none => simp [ho'] at hb
    | some o' =>
      simp only [ho', Option.map_some, Option.getD_some] at hb
      rcases split a o' ho' with hlt | ⟨_, rfl⟩
      · obtain ⟨o, ho, _, _, _, _, _, _, _, hnew⟩ := h.oldObj a o' ho' hlt
        rcases hnew b hb with hold | rfl
        · have := hs.depValid a b (by unfold depsOf; simp only [ho, Option.map_some, Option.getD_some]; exact hold)
          omega
        · omega
      · exact hnv b hb
  · -- memLt
    intro i o' ho'
    rw [h.mems_eq]
    rcases split i o' ho' with hlt | ⟨_, rfl⟩
    · obtain ⟨o, ho, hm, _⟩ := h.oldObj i o' ho' hlt
      rw [hm]; exact hs.memLt i o ho
    · rw [hnm]; exact hs.memLt p op hop
  · -- convOK
    intro i o' snap ho' hsnap
    rcases split i o' ho' with hlt | ⟨_, rfl⟩
    · obtain ⟨o, ho, hm, hi, _, hc, _⟩ := h.oldObj i o' ho' hlt
      rw [cont o o' hm hi]; exact hs.convOK i o snap ho (by rw [← hc]; exact hsnap)
    · rw [hnc] at hsnap; cases hsnap
  · -- derOK
    intro i o' a b ho' hab
    rcases split i o' ho' with hlt | ⟨_, rfl⟩
    · obtain ⟨o, ho, hm, hi, hoth, _, hd, _⟩ := h.oldObj i o' ho' hlt
      obtain ⟨q, qo, h1, h2, h3, h4⟩ := hs.derOK i o a b ho (by rw [← hd]; exact hab)
      obtain ⟨qo', hq'⟩ := h.fwd q qo h2
      have hqlt : q < s.objs.length := by
        by_contra hc; rw [List.getElem?_eq_none (by omega)] at h2; cases h2
      obtain ⟨qo0, hq0, hqm, hqi, _⟩ := h.oldObj q qo' hq' hqlt
      rw [h2] at hq0; cases hq0
      exact ⟨q, qo', by rw [hoth]; exact h1, hq', by rw [cont o o' hm hi]; exact h3, by rw [cont qo qo' hqm hqi]; exact h4⟩
    · rw [hnd] at hab; cases hab
  · -- share
    intro i j oi oj hi hj hmem
    have vm : ∀ {a b : Nat}, VReach s.objs a b → VReach s'.objs a b := fun hr => VReach.mono vsub hr
    have e_pn : VReach s'.objs p s.objs.length := VReach.step h.linkBack (VReach.refl _)
    have e_np : VReach s'.objs s.objs.length p := VReach.step edge_np (VReach.refl _)
    rcases split i oi hi with hlt | ⟨ei, rfl⟩ <;> rcases split j oj hj with hlt' | ⟨ej, rfl⟩
    · obtain ⟨oi0, hi0, hmi, _⟩ := h.oldObj i oi hi hlt
      obtain ⟨oj0, hj0, hmj, _⟩ := h.oldObj j oj hj hlt'
      exact vm (hs.share i j oi0 oj0 hi0 hj0 (by rw [← hmi, ← hmj]; exact hmem))
    · obtain ⟨oi0, hi0, hmi, _⟩ := h.oldObj i oi hi hlt
      rw [ej]
      exact (vm (hs.share i p oi0 op hi0 hop (by rw [← hmi, hmem, hnm]))).trans e_pn
    · obtain ⟨oj0, hj0, hmj, _⟩ := h.oldObj j oj hj hlt'
      rw [ei]
      exact e_np.trans (vm (hs.share p j op oj0 hop hj0 (by rw [← hmj, ← hmem, hnm])))
    · rw [ei, ej]; exact VReach.refl _
  · -- otherDep
    intro p' po' q hp' hq
    rw [h.len]
    rcases split p' po' hp' with hlt | ⟨e, rfl⟩
    · obtain ⟨o, ho, _, _, hoth, _⟩ := h.oldObj p' po' hp' hlt
      obtain ⟨h1, h2⟩ := hs.otherDep p' o q ho (by rw [← hoth]; exact hq)
      exact ⟨dsub q p' h1, by omega⟩
    · rw [hno] at hq
      obtain ⟨h1, h2⟩ := h.othOK q hq
      rw [e]; exact ⟨h2, by omega⟩

/-- the list after a (linked) `pushView` and the optional registration with `oth` -/
def pushed (objs : List Obj) (p : Nat) (po : Obj) (rows : List Nat) (oth : Option Nat) : List Obj :=
  match oth with
  | none => pushView ⟨true, true⟩ objs p po rows none
  | some t => addODep (pushView ⟨true, true⟩ objs p po rows (some t)) t objs.length

theorem getElem?_pushed (objs : List Obj) (p : Nat) (po : Obj) (rows : List Nat) (oth : Option Nat) (i : Nat) :
    (pushed objs p po rows oth)[i]? =
      ((objs ++ [({ mem := po.mem, idx := rows.filterMap (po.idx[·]?), other := oth } : Obj)])[i]?).map (fun ob =>
        let ob1 : Obj := if i = objs.length then { ob with vdeps := ob.vdeps ++ [p] } else ob
        let ob2 : Obj := if i = p then { ob1 with vdeps := ob1.vdeps ++ [objs.length] } else ob1
        if oth = some i then { ob2 with odeps := ob2.odeps ++ [objs.length] } else ob2) := by
  cases oth with
  | none =>
    simp only [pushed, pushView, addVDep, if_true, List.getElem?_mapIdx, Option.map_map, reduceCtorEq, if_false]
    rfl
  | some t =>
    simp only [pushed, pushView, addVDep, addODep, if_true, List.getElem?_mapIdx, Option.map_map, Option.some.injEq]
    congr 1
    funext ob
    simp only [Function.comp]
    by_cases h : i = t
    · subst h; simp
    · have : ¬ t = i := fun e => h e.symm
      simp [h, this]

theorem viewExt_pushed {s : State} (hs : Inv s) (p : Nat) (po op : Obj) (rows : List Nat) (oth : Option Nat)
    (hop : s.objs[p]? = some op) (hm : po.mem = op.mem) (hoth : ∀ t, oth = some t → t < s.objs.length) :
    ViewExt s { mems := s.mems, objs := pushed s.objs p po rows oth } p oth := by
  have hplt : p < s.objs.length := by
    by_contra hc; rw [List.getElem?_eq_none (by omega)] at hop; cases hop
  have hpn : p ≠ s.objs.length := by omega
  have oldget : ∀ (i : Nat), i < s.objs.length →
      (s.objs ++ [({ mem := po.mem, idx := rows.filterMap (po.idx[·]?), other := oth } : Obj)])[i]? = s.objs[i]? :=
    fun i hi => List.getElem?_append_left hi
  refine ⟨rfl, ?_, ?_, ?_, ?_, ?_, ?_⟩
  · -- len
    cases oth <;> simp [pushed, pushView, addVDep, addODep]
  · -- oldObj
    intro i o' ho' hi
    rw [getElem?_pushed, oldget i hi] at ho'
    cases ho : s.objs[i]? with
    | none => simp [ho] at ho'
    | some o =>
      have hin : i ≠ s.objs.length := by omega
      simp only [ho, Option.map_some, Option.some.injEq, hin, if_false] at ho'
      refine ⟨o, rfl, ?_⟩
      subst ho'
      by_cases hip : i = p
      · subst hip
        by_cases hio : oth = some i
        · simp only [hio, if_true]
          refine ⟨by first | rfl | trivial, by first | rfl | trivial, by first | rfl | trivial, by first | rfl | trivial, by first | rfl | trivial, ?_, ?_, ?_⟩
          · intro d hd; simp [hd]
          · intro d hd; simp [hd]
          · intro d hd; simp at hd ⊢; tauto
        · simp only [hio, if_false, if_true]
          refine ⟨by first | rfl | trivial, by first | rfl | trivial, by first | rfl | trivial, by first | rfl | trivial, by first | rfl | trivial, ?_, ?_, ?_⟩
          · intro d hd; simp [hd]
          · intro d hd; exact hd
          · intro d hd; simp at hd ⊢; tauto
      · by_cases hio : oth = some i
        · simp only [hip, hio, if_true, if_false]
          refine ⟨by first | rfl | trivial, by first | rfl | trivial, by first | rfl | trivial, by first | rfl | trivial, by first | rfl | trivial, ?_, ?_, ?_⟩
          · intro d hd; exact hd
          · intro d hd; simp [hd]
          · intro d hd; simp at hd ⊢; tauto
        · simp only [hip, hio, if_false]
          refine ⟨by first | rfl | trivial, by first | rfl | trivial, by first | rfl | trivial, by first | rfl | trivial, by first | rfl | trivial, ?_, ?_, ?_⟩
          · intro d hd; exact hd
          · intro d hd; exact hd
          · intro d hd; simp at hd ⊢; tauto
  · -- fwd
    intro i o ho
    have hi : i < s.objs.length := by
      by_contra hc; rw [List.getElem?_eq_none (by omega)] at ho; cases ho
    rw [getElem?_pushed, oldget i hi, ho]
    exact ⟨_, rfl⟩
  · -- newObj
    have hno : ∀ t, oth = some t → t ≠ s.objs.length := fun t ht => by have := hoth t ht; omega
    have hoi : ¬ oth = some s.objs.length := fun e => hno _ e rfl
    refine ⟨{ mem := po.mem, idx := rows.filterMap (po.idx[·]?), other := oth, vdeps := [] ++ [p] }, op, ?_, hop, hm, rfl, rfl, rfl, ?_, by simp⟩
    · rw [getElem?_pushed]
      simp only [if_true, (Ne.symm hpn), if_false, hoi]
      rw [List.getElem?_append_right (Nat.le_refl _)]
      simp
    · intro d hd
      simp at hd
      omega
  · -- linkBack
    unfold vdepsOf
    rw [getElem?_pushed, oldget p hplt, hop]
    simp only [Option.map_some, Option.getD_some, hpn, if_false, if_true]
    by_cases hio : oth = some p <;> simp [hio]
  · -- othOK
    intro t ht
    have htl := hoth t ht
    refine ⟨htl, ?_⟩
    unfold depsOf
    rw [getElem?_pushed, oldget t htl]
    cases hot : s.objs[t]? with
    | none => rw [List.getElem?_eq_none_iff] at hot; omega
    | some ot =>
      have htn : t ≠ s.objs.length := by omega
      simp only [Option.map_some, Option.getD_some, htn, if_false, ht, if_true]
      by_cases htp : t = p <;> simp [htp]

/-- what pushing views keeps of the objects that were there: their place, memory window and attachment -/
def Keeps (objs objs' : List Obj) : Prop :=
  objs.length ≤ objs'.length ∧
  ∀ (i : Nat) (o : Obj), objs[i]? = some o → ∃ o' : Obj, objs'[i]? = some o' ∧ o'.mem = o.mem ∧ o'.idx = o.idx ∧ o'.other = o.other

theorem Keeps.trans {a b c : List Obj} (h1 : Keeps a b) (h2 : Keeps b c) : Keeps a c := by
  refine ⟨Nat.le_trans h1.1 h2.1, ?_⟩
  intro i o ho
  obtain ⟨o1, ho1, hm1, hi1, ht1⟩ := h1.2 i o ho
  obtain ⟨o2, ho2, hm2, hi2, ht2⟩ := h2.2 i o1 ho1
  exact ⟨o2, ho2, hm2.trans hm1, hi2.trans hi1, ht2.trans ht1⟩

theorem keeps_of_viewExt {s s' : State} {p : Nat} {oth : Option Nat} (h : ViewExt s s' p oth) : Keeps s.objs s'.objs := by
  refine ⟨by rw [h.len]; omega, ?_⟩
  intro i o ho
  obtain ⟨o', ho'⟩ := h.fwd i o ho
  have hi : i < s.objs.length := by
    by_contra hc; rw [List.getElem?_eq_none (by omega)] at ho; cases ho
  obtain ⟨o2, ho2, hm, hidx, hoth, _⟩ := h.oldObj i o' ho' hi
  rw [ho] at ho2; cases ho2
  exact ⟨o', ho', hm, hidx, hoth⟩

theorem pushViewOth_eq_pushed (objs : List Obj) (p : Nat) (po : Obj) (rows : List Nat) (oth : Option Nat) :
    pushViewOth ⟨true, true⟩ objs p po rows oth = pushed objs p po rows oth := by
  cases oth <;> rfl

/-- **Attachment chains of any depth**: pushing the views of a whole chain (innermost first, each new view attached to and
registered with the view of its own attached object) keeps the invariant, whatever the length of the chain. -/
theorem pushChain_inv (rows : List Nat) : ∀ (fuel : Nat) (s : State), Inv s → ∀ (p : Nat) (objs' : List Obj) (n : Nat),
    pushChain ⟨true, true⟩ rows fuel s.objs p = some (objs', n) →
    Inv { mems := s.mems, objs := objs' } ∧ Keeps s.objs objs' ∧ n < objs'.length := by
  intro fuel
  induction fuel with
  | zero => intro s hs p objs' n h; simp [pushChain] at h
  | succ f ih =>
    intro s hs p objs' n h
    simp only [pushChain] at h
    cases hp : s.objs[p]? with
    | none => simp [hp] at h
    | some po =>
      simp only [hp] at h
      cases ho : po.other with
      | none =>
        simp only [ho, Option.some.injEq, Prod.mk.injEq] at h
        obtain ⟨h1, h2⟩ := h
        have ext := viewExt_pushed hs p po po rows none hp rfl (by intro t ht; cases ht)
        rw [pushViewOth_eq_pushed] at h1
        subst h1; subst h2
        refine ⟨inv_viewExt hs ext, keeps_of_viewExt ext, ?_⟩
        have := ext.len
        simp only at this
        omega
      | some q =>
        simp only [ho] at h
        cases hr : pushChain ⟨true, true⟩ rows f s.objs q with
        | none => simp [hr] at h
        | some r =>
          obtain ⟨objs1, nq⟩ := r
          simp only [hr, Option.some.injEq, Prod.mk.injEq] at h
          obtain ⟨h1, h2⟩ := h
          obtain ⟨hs1, hk1, hnq⟩ := ih s hs q objs1 nq hr
          obtain ⟨op1, hop1, hm1, _, _⟩ := hk1.2 p po hp
          have ext2 := viewExt_pushed hs1 p po op1 rows (some nq) hop1 hm1.symm (by intro t ht; cases ht; exact hnq)
          rw [pushViewOth_eq_pushed] at h1
          subst h1; subst h2
          refine ⟨inv_viewExt hs1 ext2, hk1.trans (keeps_of_viewExt ext2), ?_⟩
          have := ext2.len
          simp only at this
          omega

theorem view_inv {s : State} (hs : Inv s) (p : Nat) (rows : List Nat) :
    (step ⟨true, true⟩ s (.view p rows)).2 = (refStep s (.view p rows)).2 ∧ Inv (step ⟨true, true⟩ s (.view p rows)).1 := by
  refine ⟨rfl, ?_⟩
  simp only [step]
  cases h : pushChain ⟨true, true⟩ rows (s.objs.length + 1) s.objs p with
  | none => exact hs
  | some r =>
    obtain ⟨objs', n⟩ := r
    exact (pushChain_inv rows _ s hs p objs' n h).1

/-! ### Attaching another position: `setOther` -/

/-- dropping caches (of any set of objects) keeps the invariant -/
theorem inv_clearCaches {s : State} (hs : Inv s) (ids : List Nat) : Inv { s with objs := clearCaches s.objs ids } := by
  refine inv_cache_update hs rfl (sameShape_clearCaches s.objs ids) ?_
  intro i o o' ho ho'
  rw [getElem?_clearCaches] at ho'
  simp only [ho, Option.map_some, Option.some.injEq] at ho'
  subst ho'
  by_cases h : i ∈ ids
  · simp [h, CacheStep]
  · simp [h, CacheStep]

theorem setOtherCore_inv {s : State} (hs : Inv s) (p : Nat) (q : Option Nat) : Inv (setOtherCore s p q).1 := by
  cases hp : s.objs[p]? with
  | none => simp only [setOtherCore, hp]; exact hs
  | some po =>
    simp only [setOtherCore, hp]
    split_ifs with hguard
    · exact hs
    · have hplt : p < s.objs.length := by
        by_contra hc; rw [List.getElem?_eq_none (by omega)] at hp; cases hp
      have hqlt : ∀ t, q = some t → t < s.objs.length := by
        intro t ht; subst ht
        simp only [decide_eq_true_eq, Nat.not_le] at hguard; exact hguard
      -- the resulting object list, position by position
      set F : List Obj := setOtherObjs s.objs p po.other q with hF
      have hget : ∀ i : Nat, F[i]? = (s.objs[i]?).map (fun ob =>
          let a : Obj := if i = p then { ob with conv := none, der := none } else ob
          let b : Obj := if po.other = some i then { a with odeps := a.odeps.erase p } else a
          let c : Obj := if q = some i then { b with odeps := b.odeps ++ [p] } else b
          if i = p then { c with other := q } else c) := by
        intro i
        rw [hF]; simp [setOtherObjs, List.getElem?_mapIdx]
      have hlen : F.length = s.objs.length := by
        rw [hF]; simp [setOtherObjs]
      -- per-object facts
      have facts : ∀ (i : Nat) (o' : Obj), F[i]? = some o' → ∃ o : Obj, s.objs[i]? = some o ∧ o'.mem = o.mem ∧ o'.idx = o.idx ∧
          o'.vdeps = o.vdeps ∧ (∀ d ∈ o'.odeps, d ∈ o.odeps ∨ d = p) ∧ (∀ d ∈ o.odeps, d ≠ p → d ∈ o'.odeps) ∧
          (q = some i → p ∈ o'.odeps) ∧
          (i ≠ p → o'.other = o.other ∧ o'.conv = o.conv ∧ o'.der = o.der) ∧
          (i = p → o'.other = q ∧ o'.conv = none ∧ o'.der = none) := by
        intro i o' ho'
        rw [hget] at ho'
        cases ho : s.objs[i]? with
        | none => simp [ho] at ho'
        | some o =>
          simp only [ho, Option.map_some, Option.some.injEq] at ho'
          refine ⟨o, rfl, ?_⟩
          subst ho'
          -- the odeps after unregistering from the previous other
          have hX1 : ∀ d ∈ (if po.other = some i then o.odeps.erase p else o.odeps), d ∈ o.odeps := by
            intro d hd; split_ifs at hd
            · exact List.mem_of_mem_erase hd
            · exact hd
          have hX2 : ∀ d ∈ o.odeps, d ≠ p → d ∈ (if po.other = some i then o.odeps.erase p else o.odeps) := by
            intro d hd hne; split_ifs
            · exact (List.mem_erase_of_ne hne).mpr hd
            · exact hd
          have hodeps : ∀ (ob : Obj), ob.odeps = o.odeps →
              (if q = some i then
                  (if po.other = some i then { ob with odeps := ob.odeps.erase p } else ob).odeps ++ [p]
                else (if po.other = some i then { ob with odeps := ob.odeps.erase p } else ob).odeps)
                = (if q = some i then (if po.other = some i then o.odeps.erase p else o.odeps) ++ [p]
                    else (if po.other = some i then o.odeps.erase p else o.odeps)) := by
            intro ob hob; split_ifs <;> simp [hob]
          by_cases h1 : i = p
          · subst h1
            simp only [if_true]
            refine ⟨by split_ifs <;> rfl, by split_ifs <;> rfl, by split_ifs <;> rfl, ?_, ?_, ?_, fun h => absurd rfl h,
              fun _ => ⟨by first | rfl | trivial, by split_ifs <;> rfl, by split_ifs <;> rfl⟩⟩
            · intro d hd
              split_ifs at hd <;> try simp only [List.mem_append, List.mem_singleton] at hd
              · rcases hd with hd | hd
                · exact Or.inl (List.mem_of_mem_erase hd)
                · exact Or.inr hd
              · rcases hd with hd | hd
                · exact Or.inl hd
                · exact Or.inr hd
              · exact Or.inl (List.mem_of_mem_erase hd)
              · exact Or.inl hd
            · intro d hd hne
              split_ifs <;> try simp only [List.mem_append, List.mem_singleton]
              · exact Or.inl ((List.mem_erase_of_ne hne).mpr hd)
              · exact Or.inl hd
              · exact (List.mem_erase_of_ne hne).mpr hd
              · exact hd
            · intro hq
              split_ifs <;> simp
          · simp only [h1, if_false]
            refine ⟨by split_ifs <;> rfl, by split_ifs <;> rfl, by split_ifs <;> rfl, ?_, ?_, ?_,
              fun _ => ⟨by split_ifs <;> rfl, by split_ifs <;> rfl, by split_ifs <;> rfl⟩,
              by intro h; first | exact absurd h h1 | exact h.elim⟩
            · intro d hd
              split_ifs at hd <;> try simp only [List.mem_append, List.mem_singleton] at hd
              · rcases hd with hd | hd
                · exact Or.inl (List.mem_of_mem_erase hd)
                · exact Or.inr hd
              · rcases hd with hd | hd
                · exact Or.inl hd
                · exact Or.inr hd
              · exact Or.inl (List.mem_of_mem_erase hd)
              · exact Or.inl hd
            · intro d hd hne
              split_ifs <;> try simp only [List.mem_append, List.mem_singleton]
              · exact Or.inl ((List.mem_erase_of_ne hne).mpr hd)
              · exact Or.inl hd
              · exact (List.mem_erase_of_ne hne).mpr hd
              · exact hd
            · intro hq
              split_ifs <;> simp
      have fwd : ∀ (i : Nat) (o : Obj), s.objs[i]? = some o → ∃ o' : Obj, F[i]? = some o' := by
        intro i o ho; rw [hget, ho]; exact ⟨_, rfl⟩
      have cont : ∀ (o o' : Obj), o'.mem = o.mem → o'.idx = o.idx →
          contentsOf { mems := s.mems, objs := F } o' = contentsOf s o := fun o o' h1 h2 => contentsOf_congr rfl h1 h2
      refine ⟨?_, ?_, ?_, ?_, ?_, ?_⟩
      · -- depValid
        intro a b hb
        show b < F.length
        rw [hlen]
        unfold depsOf at hb
        cases ho' : F[a]? with
        | none => simp [ho'] at hb
        | some o' =>
          simp only [ho', Option.map_some, Option.getD_some] at hb
          obtain ⟨o, ho, _, _, hv, hod, _⟩ := facts a o' ho'
          rcases List.mem_append.mp hb with hb | hb
          · rw [hv] at hb
            exact hs.depValid a b (by unfold depsOf; simp only [ho, Option.map_some, Option.getD_some]; exact List.mem_append_left _ hb)
          · rcases hod b hb with h | rfl
            · exact hs.depValid a b (by unfold depsOf; simp only [ho, Option.map_some, Option.getD_some]; exact List.mem_append_right _ h)
            · exact hplt
      · intro i o' ho'
        obtain ⟨o, ho, hm, _⟩ := facts i o' ho'
        show o'.mem < s.mems.length
        rw [hm]; exact hs.memLt i o ho
      · intro i o' snap ho' hsnap
        obtain ⟨o, ho, hm, hi, _, _, _, _, hne, heq⟩ := facts i o' ho'
        by_cases hip : i = p
        · rw [(heq hip).2.1] at hsnap; cases hsnap
        · rw [cont o o' hm hi]; exact hs.convOK i o snap ho (by rw [← (hne hip).2.1]; exact hsnap)
      · intro i o' a b ho' hab
        obtain ⟨o, ho, hm, hi, _, _, _, _, hne, heq⟩ := facts i o' ho'
        by_cases hip : i = p
        · rw [(heq hip).2.2] at hab; cases hab
        · obtain ⟨t, qo, h1, h2, h3, h4⟩ := hs.derOK i o a b ho (by rw [← (hne hip).2.2]; exact hab)
          obtain ⟨qo', hq'⟩ := fwd t qo h2
          obtain ⟨qo0, hq0, hqm, hqi, _⟩ := facts t qo' hq'
          rw [h2] at hq0; cases hq0
          exact ⟨t, qo', by rw [(hne hip).1]; exact h1, hq', by rw [cont o o' hm hi]; exact h3, by rw [cont qo qo' hqm hqi]; exact h4⟩
      · -- share: the view links are untouched
        intro i j oi oj hi hj hmem
        obtain ⟨oi0, hi0, hmi, _⟩ := facts i oi hi
        obtain ⟨oj0, hj0, hmj, _⟩ := facts j oj hj
        have := hs.share i j oi0 oj0 hi0 hj0 (by rw [← hmi, ← hmj]; exact hmem)
        refine VReach.mono ?_ this
        intro a b hb
        unfold vdepsOf at hb ⊢
        cases hoa : s.objs[a]? with
        | none => simp [hoa] at hb
        | some oa =>
          obtain ⟨oa', hoa'⟩ := fwd a oa hoa
          obtain ⟨oa0, h0, _, _, hv, _⟩ := facts a oa' hoa'
          rw [hoa] at h0; cases h0
          simp only [hoa, Option.map_some, Option.getD_some] at hb
          simp only [hoa', Option.map_some, Option.getD_some, hv]; exact hb
      · -- otherDep
        intro p' po' t hp' ht
        show p' ∈ depsOf F t ∧ t < F.length
        rw [hlen]
        obtain ⟨o, ho, _, _, _, _, _, _, hne, heq⟩ := facts p' po' hp'
        by_cases hpp : p' = p
        · subst hpp
          rw [(heq rfl).1] at ht
          have htl := hqlt t ht
          refine ⟨?_, htl⟩
          obtain ⟨ot, hot⟩ : ∃ ot : Obj, s.objs[t]? = some ot := ⟨s.objs[t], List.getElem?_eq_getElem htl⟩
          obtain ⟨ot', hot'⟩ := fwd t ot hot
          obtain ⟨_, _, _, _, _, _, _, hin, _⟩ := facts t ot' hot'
          unfold depsOf; simp only [hot', Option.map_some, Option.getD_some]
          exact List.mem_append_right _ (hin ht)
        · obtain ⟨h1, h2⟩ := hs.otherDep p' o t ho (by rw [← (hne hpp).1]; exact ht)
          refine ⟨?_, h2⟩
          obtain ⟨ot, hot⟩ : ∃ ot : Obj, s.objs[t]? = some ot := ⟨s.objs[t], List.getElem?_eq_getElem h2⟩
          obtain ⟨ot', hot'⟩ := fwd t ot hot
          obtain ⟨ot0, h0, _, _, hv, _, hkeep, _⟩ := facts t ot' hot'
          rw [hot] at h0; cases h0
          unfold depsOf at h1 ⊢
          simp only [hot, Option.map_some, Option.getD_some] at h1
          simp only [hot', Option.map_some, Option.getD_some]
          rcases List.mem_append.mp h1 with h | h
          · rw [hv]; exact List.mem_append_left _ h
          · exact List.mem_append_right _ (hkeep p' h hpp)

theorem setOther_inv {s : State} (hs : Inv s) (p : Nat) (q : Option Nat) :
    (step ⟨true, true⟩ s (.setOther p q)).2 = (refStep s (.setOther p q)).2 ∧ Inv (step ⟨true, true⟩ s (.setOther p q)).1 := by
  refine ⟨rfl, ?_⟩
  cases hp : s.objs[p]? with
  | none => simp only [step, hp]; exact hs
  | some po =>
    simp only [step, hp]
    split
    · exact setOtherCore_inv (inv_clearCaches hs _) p q
    · exact setOtherCore_inv hs p q

end Midgard.ObjCache
