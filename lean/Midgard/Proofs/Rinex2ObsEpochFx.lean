/-
C11, RINEX 2, part 8: the epoch record — no line break, the label heuristic (`epoch_label`), the effect (`epoch_line_fx`).
Core Lean only.
-/
import Midgard.Proofs.Rinex2ObsEpochFields

namespace Midgard.Spec.Rinex2ObsFile
open Midgard.Text Midgard.FixedCol Midgard.Decimal Midgard.ChainParser Midgard.RinexObs Midgard.Rinex2Obs
open Midgard.Spec.Rinex (renderCells epoch2 padTo)
open Midgard.Spec.Rinex3ObsFile (Obs Cell IntCell NumCell Style styled rstrip_styled mem_renderFrom stripChars_none mem_rstrip
  numChar numChar_not_space intCell_facts numCell_facts floatOpt_cell)
open Midgard.Spec.NumText (mem_allDigits)

/-! ### the epoch record: no line break, label, effect -/

theorem digit_not_nl {x : Char} (h : isDigit x = true) : x ≠ '\n' := by
  intro e; subst e; revert h; decide

theorem satOk_chars {s : Str} (h : SatOk s) : ∀ x ∈ s, x ≠ '\n' := by
  obtain ⟨a, b, c, rfl, ha, hb, hc⟩ := h
  intro x hx
  simp only [List.mem_cons, List.not_mem_nil, or_false] at hx
  rcases hx with rfl | rfl | rfl
  · rcases ha with ha | rfl
    · exact (Midgard.Spec.Rinex3ObsFile.alpha_facts ha).2.2
    · decide
  · rcases hb with hb | rfl
    · exact digit_not_nl hb
    · decide
  · exact digit_not_nl hc

theorem numText_not_nl {v : Str} (h : Midgard.Spec.Rinex3ObsFile.numText v = true) : ∀ x ∈ v, x ≠ '\n' := by
  intro x hx e
  have := numChar_not_space (List.all_eq_true.mp h x hx)
  rw [e] at this; revert this; decide

theorem digits_not_nl {v : Str} (h : allDigits v = true) : ∀ x ∈ v, x ≠ '\n' :=
  fun x hx => digit_not_nl (mem_allDigits h hx)

theorem epochLine_nonl (e : Epoch) (h : EpochOk e) : ∀ x ∈ epochLine e, x ≠ '\n' := by
  intro x hx
  rcases mem_renderFrom _ _ _ x hx with rfl | ⟨cell, hcell, hcc⟩
  · decide
  · have hm : cell.2 ∈ head8 e ++ padTo 12 (ids12 e) ++ [e.clk.text] :=
      (List.of_mem_zip (by rw [show cell = (cell.1, cell.2) from rfl] at hcell; exact hcell)).2
    have hy := h.yy; have hmo := h.mo; have hd := h.dd; have hh := h.hh; have hmi := h.mi; have hs := h.ss; have hf := h.fl
    have hc := h.clk
    simp only [IntCell.wf, NumCell.wf, Cell.wf, Bool.and_eq_true] at hy hmo hd hh hmi hs hf hc
    simp only [head8, padTo, List.mem_append, List.mem_cons, List.not_mem_nil, or_false, List.mem_replicate] at hm
    rcases hm with ((e1 | e1 | e1 | e1 | e1 | e1 | e1 | e1) | (hid | ⟨_, e1⟩)) | e1
    · rw [e1] at hcc; exact digits_not_nl hy.1.1.2 x hcc
    · rw [e1] at hcc; exact digits_not_nl hmo.1.1.2 x hcc
    · rw [e1] at hcc; exact digits_not_nl hd.1.1.2 x hcc
    · rw [e1] at hcc; exact digits_not_nl hh.1.1.2 x hcc
    · rw [e1] at hcc; exact digits_not_nl hmi.1.1.2 x hcc
    · rw [e1] at hcc; exact numText_not_nl hs.1.1.2 x hcc
    · rw [e1] at hcc; exact digits_not_nl hf.1.1.2 x hcc
    · rw [e1] at hcc; exact digits_not_nl h.nsd x hcc
    · exact satOk_chars (ids12_ok e h _ hid) x hcc
    · rw [e1] at hcc; simp at hcc
    · rw [e1] at hcc; exact numText_not_nl hc.1.1 x hcc


theorem head32_blocks (e : Epoch) : ∃ tail, head32 e =
    [rjust 3 e.yy.text, rjust 3 e.month.text, rjust 3 e.day.text, rjust 3 e.hour.text, rjust 3 e.minute.text].flatten ++ tail :=
  ⟨rjust 11 e.second.text ++ (rjust 3 e.flag.text ++ rjust 3 e.numSat), by
    simp [head32, P8, rcells, head8, renderFrom, pad, blanks, Field.width, List.append_assoc]⟩

theorem mem_rjust {w : Nat} {v : Str} {x : Char} (h : x ∈ rjust w v) : x = ' ' ∨ x ∈ v := by
  simp only [rjust, blanks, List.mem_append, List.mem_replicate] at h
  rcases h with h | h
  · exact Or.inl h.2
  · exact Or.inr h

/-- the first 15 columns of an epoch record: five right-aligned integers of three columns -/
theorem epoch_get15 (e : Epoch) (h : EpochOk e) (post : Str) (k i : Nat) (hk : k < 5) (hi : i < 3) :
    (head32 e ++ post)[3 * k + i]? =
      ([rjust 3 e.yy.text, rjust 3 e.month.text, rjust 3 e.day.text, rjust 3 e.hour.text, rjust 3 e.minute.text][k]?).bind (·[i]?) := by
  obtain ⟨tail, ht⟩ := head32_blocks e
  have hh := headOk e h
  have hb : ∀ b ∈ [rjust 3 e.yy.text, rjust 3 e.month.text, rjust 3 e.day.text, rjust 3 e.hour.text, rjust 3 e.minute.text],
      b.length = 3 := by
    intro b hb
    simp only [List.mem_cons, List.not_mem_nil, or_false] at hb
    rcases hb with rfl | rfl | rfl | rfl | rfl
    · exact length_rjust (by have := hh.yy; omega)
    · exact length_rjust (by have := hh.mo; omega)
    · exact length_rjust (by have := hh.dd; omega)
    · exact length_rjust (by have := hh.hh; omega)
    · exact length_rjust (by have := hh.mi; omega)
  have hlen : ([rjust 3 e.yy.text, rjust 3 e.month.text, rjust 3 e.day.text, rjust 3 e.hour.text, rjust 3 e.minute.text].flatten).length = 15 := by
    simp [hb _ (by simp : rjust 3 e.yy.text ∈ _), hb _ (by simp : rjust 3 e.month.text ∈ _), hb _ (by simp : rjust 3 e.day.text ∈ _),
      hb _ (by simp : rjust 3 e.hour.text ∈ _), hb _ (by simp : rjust 3 e.minute.text ∈ _)]
  rw [ht, List.append_assoc, List.getElem?_append_left (by rw [hlen]; omega)]
  exact flatten_get_blockW 3 _ hb k i hi

theorem epoch_col3 (e : Epoch) (h : EpochOk e) (post : Str) :
    ∃ d, (head32 e ++ post)[2]? = some d ∧ isDigit d = true := by
  have := epoch_get15 e h post 0 2 (by omega) (by omega)
  simp only [Nat.mul_zero, Nat.zero_add, List.getElem?_cons_zero, Option.bind_some] at this
  have hy := intCell_facts h.yy
  have hne : e.yy.text ≠ [] := by
    intro e0; have := hy.2.2.1; rw [e0] at this; simp [Midgard.Rinex3Obs.isNumeric] at this
  have hpos : 0 < e.yy.text.length := List.length_pos_iff.mpr hne
  have hl := hy.1
  rw [this, rjust_get_text 3 _ 2 (by omega)]
  have hidx : 2 - (3 - e.yy.text.length) < e.yy.text.length := by omega
  refine ⟨e.yy.text[2 - (3 - e.yy.text.length)], List.getElem?_eq_getElem hidx, ?_⟩
  have hd : allDigits e.yy.text = true := by
    have := h.yy; simp only [IntCell.wf, Bool.and_eq_true] at this; exact this.1.1.2
  exact mem_allDigits hd (List.getElem_mem _)

theorem epoch_col4 (e : Epoch) (h : EpochOk e) (post : Str) : (head32 e ++ post)[3]? = some ' ' := by
  have := epoch_get15 e h post 1 0 (by omega) (by omega)
  simp only [Nat.mul_one, Nat.add_zero, List.getElem?_cons_succ, List.getElem?_cons_zero, Option.bind_some] at this
  rw [this]
  exact rjust_get_blank 3 _ 0 (by have := (headOk e h).mo; omega)

theorem epoch_col11 (e : Epoch) (h : EpochOk e) (post : Str) (x : Char) (hx : (head32 e ++ post)[10]? = some x) : x ≠ '.' := by
  have := epoch_get15 e h post 3 1 (by omega) (by omega)
  simp only [show 3 * 3 + 1 = 10 from rfl, List.getElem?_cons_succ, List.getElem?_cons_zero, Option.bind_some] at this
  rw [this] at hx
  have hm := List.mem_of_getElem? hx
  rcases mem_rjust hm with rfl | hm
  · decide
  · have hd : allDigits e.hour.text = true := by
      have := h.hh; simp only [IntCell.wf, Bool.and_eq_true] at this; exact this.1.1.2
    have := mem_allDigits hd hm
    intro e0; subst e0; revert this; decide

/-- **an epoch record is no observation line** -/
theorem epoch_label (e : Epoch) (h : EpochOk e) (post : Str) : obsLabel (rstrip (head32 e ++ post)) = "False" := by
  have c10 : (charAt (rstrip (head32 e ++ post)) 10 = some '.') = False := by
    rw [charAt_get]
    apply eq_false
    intro hx
    exact epoch_col11 e h post '.' (get_rstrip_some hx) rfl
  obtain ⟨d, hd, hdig⟩ := epoch_col3 e h post
  have hd' := get_rstrip_of_visible hd (isSpace_of_isDigit hdig)
  have hsp : pyIsSpace (Text.slice 0 16 (rstrip (head32 e ++ post))) = false := by
    have hm : d ∈ Text.slice 0 16 (rstrip (head32 e ++ post)) := by
      have : (Text.slice 0 16 (rstrip (head32 e ++ post)))[2]? = some d := by
        unfold Text.slice
        simp only [List.drop_zero]
        rw [List.getElem?_take]
        simpa using hd'
      exact List.mem_of_getElem? this
    have : isBlank (Text.slice 0 16 (rstrip (head32 e ++ post))) = false := by
      cases hb : isBlank (Text.slice 0 16 (rstrip (head32 e ++ post))) with
      | false => rfl
      | true =>
        have := List.all_eq_true.mp hb d hm
        rw [isSpace_of_isDigit hdig] at this; simp at this
    simp [pyIsSpace, this]
  unfold obsLabel
  simp only [c10, decide_false, hsp, Bool.or_false, Bool.false_and, Bool.false_eq_true, if_false]


theorem pyInt_digits (v : Str) (hne : v ≠ []) (hd : allDigits v = true) : pyInt v = .ok (digitsVal v : Int) := by
  cases v with
  | nil => exact absurd rfl hne
  | cons c r =>
    have hc : isDigit c = true := mem_allDigits hd (by simp)
    unfold pyInt parseInt?
    rw [strip_of_allDigits hd, takeSign_of_digit hc]
    simp [parseNat?, hd, req]
    rfl

/-- what the epoch record says (four-digit year `y`) -/
def info2 (rate : Option Rat) (y : Int) (e : Epoch) : EpochInfo :=
  ⟨isoTime y e.month.val e.day.val e.hour.val e.minute.val e.second.val,
   (datasetMicros y e.month.val e.day.val e.hour.val e.minute.val e.second.val).getD 0,
   if kept rate e then some (obsSec e) else none, e.flag.val, e.clk.val⟩

/-- **the epoch record of RINEX 2**: fields cut raw (`strip := .newline`) from the right-stripped record, the two-digit year
behind the century of `TIME OF FIRST OBS`, the satellites printed on the record (blank system = `G`, blank tens digit = `0`) -/
theorem epoch_line_fx (st : Style) (e : Epoch) (h : EpochOk e) (n : Nat) (s : State) (t : Str) (y : Int)
    (hfirst : s.metaD.get [key "time_first_obs"] = some (.text t)) (hyear : pyInt (t.take 2 ++ zfill 2 e.yy.text) = .ok y) :
    parseLine obsParser (rstrip (styled st (epochLine e))) n s =
      .ok (afterEpoch s (info2 s.rate y e) (digitsVal e.numSat : Int) ((ids12 e).map normSat)) := by
  rw [rstrip_styled]
  have hstruct := epochLine_struct e (headOk e h) (fun s hs => satOk_len (ids12_ok e h s hs))
  have hnl : ∀ x ∈ rstrip (epochLine e), ['\n'].contains x = false := by
    intro x hx
    have := epochLine_nonl e h x (mem_rstrip hx)
    simp [this]
  have hhead := head_slices e h (satCols e ++ rjust 12 e.clk.text)
  obtain ⟨ws, hws, hsl⟩ := sat_list_slice e h
  have hclk := clk_slice e h
  have hlab := epoch_label e h (satCols e ++ rjust 12 e.clk.text)
  rw [← hstruct] at hhead hsl hclk hlab
  have hidem : rstrip (rstrip (epochLine e)) = rstrip (epochLine e) := rstrip_idem _
  generalize rstrip (epochLine e) = E' at hnl hhead hsl hclk hlab hidem ⊢
  simp only [P8, head8, List.map_cons, List.map_nil, List.cons.injEq, and_true, FixedCol.slice, sliceRaw] at hhead
  obtain ⟨v1, v2, v3, v4, v5, v6, v7, v8⟩ := hhead
  have hraw : ∀ a b, stripChars ['\n'] (Text.slice a b E') = Text.slice a b E' :=
    fun a b => stripChars_none _ _ (fun x hx => hnl x (mem_slice hx))
  unfold parseLine
  have h1 : obsParser.skipLine E' = false := rfl
  have h2 : obsParser.label (rstrip E') n = "False" := by
    show obsLabel (rstrip E') = "False"
    rw [hidem]; exact hlab
  have h3 : obsParser.defs = Midgard.Generated.Rinex2ObsCols.records := rfl
  rw [h1, h2, h3, epoch2_def]
  simp only [Bool.false_eq_true, if_false, LabelDef.values, List.map_cons, List.map_nil, List.append_nil, StripOpt.apply, sliceRaw, hraw]
  show handle "_parse_observation_epoch" _ s = _
  simp only [handle, String.reduceEq, if_false, if_true]
  have hyw := h.yy
  simp only [IntCell.wf, Bool.and_eq_true, Bool.not_eq_eq_eq_not, Bool.not_true] at hyw
  have hnum : isNumeric e.yy.text = true := by
    simp only [isNumeric, Bool.and_eq_true, Bool.not_eq_eq_eq_not, Bool.not_true]
    exact ⟨hyw.1.1.1, hyw.1.1.2⟩
  have hI : ∀ (raw : Str) (c : IntCell) (w : Nat), c.wf w = true → strip raw = c.text → pyInt raw = .ok c.val := by
    intro raw c w hc hs
    rw [← pyInt_strip, hs]
    exact (intCell_facts hc).2.2.2
  rw [epoch_handler _ _ _ _ _ _ _ _ _ _ s e.yy.text t y e.month.val e.day.val e.hour.val e.minute.val e.flag.val
    (digitsVal e.numSat : Int) e.second.val e.clk.val ((ids12 e).map normSat) v1 hnum (hI _ _ 2 h.mo v2) (hI _ _ 2 h.dd v3)
    (hI _ _ 2 h.hh v4) (hI _ _ 2 h.mi v5)
    (by rw [← pyFloat_strip, v6]; exact (numCell_facts h.ss).2.2)
    (hI _ _ 1 h.fl v7)
    (by rw [← Midgard.RinexObs.floatOpt_strip, hclk]; exact floatOpt_cell h.clk)
    (by rw [← pyInt_strip, v8]; exact pyInt_digits _ h.nsne h.nsd)
    (by rw [hsl]; exact satsOf_sats _ ws (fun s hs => satOk_sat3 (ids12_ok e h s hs)) hws)
    (by rw [hsl]; exact sat_list_guard _ (ids12_ok e h) ws hws)
    hfirst hyear]
  unfold info2 kept obsSec
  cases s.rate with
  | none => simp
  | some r =>
    by_cases hr : r = 0
    · simp [hr]
    · by_cases ho : offGrid ((e.hour.val : Rat) * 3600 + (e.minute.val : Rat) * 60 + e.second.val) r = true
      · simp [hr, ho]
      · simp [hr, ho]


/-- the first line the Spec's writer produces for an epoch is `epochLine` -/
theorem epochLines_head (e : Epoch) :
    (Spec.Rinex.renderRecord "EPOCH2" ([e.yy.text, e.month.text, e.day.text, e.hour.text, e.minute.text, e.second.text, e.flag.text,
        e.numSat, e.clk.text] ++ (e.sats.map (·.sat)).take 12)).getD [] = epochLine e := by
  have hl : ((e.sats.map (·.sat)).take 12).length ≤ 12 := by simp; omega
  simp only [Spec.Rinex.renderRecord, String.reduceEq, if_false, if_true, List.length_append, List.length_cons, List.length_nil]
  rw [if_pos (by constructor <;> omega)]
  simp [epochLine, head8, ids12]

end Midgard.Spec.Rinex2ObsFile
