/-
C10 — meta information and `vars` through the file.
-/
import Midgard.Proofs.H5Attr
import Midgard.Proofs.H5R2Fields
import Midgard.Model.H5Meta

namespace Midgard.H5
open Midgard.Dataset Midgard.H5Attr

/-- `Meta.write` succeeds iff every value can be saved -/
theorem writeMeta_isSome : ∀ (m : MetaDict), metaOK m = true → ∃ as, writeMeta m = some as
  | [], _ => ⟨[], rfl⟩
  | (k, v) :: r, h => by
    simp only [metaOK, Bool.and_eq_true] at h
    obtain ⟨as, has⟩ := writeMeta_isSome r h.2
    obtain ⟨a, ha⟩ := Option.isSome_iff_exists.mp h.1
    exact ⟨(k, a) :: as, by simp only [writeMeta, ha, has]⟩

/-- the attribute names of `__meta__` are the keys of the meta, in order -/
theorem writeMeta_keys : ∀ (m : MetaDict) (as : List (String × Attr)), writeMeta m = some as → as.map (·.1) = m.map (·.1)
  | [], as, h => by simp only [writeMeta, Option.some.injEq] at h; subst h; rfl
  | (k, v) :: r, as, h => by
    simp only [writeMeta] at h
    split at h
    · simp at h
    · split at h
      · simp at h
      · rename_i r' hr
        simp only [Option.some.injEq] at h
        subst h
        simp [writeMeta_keys r r' hr]

/-- **`Meta.read (Meta.write m) = m`**: every key with its value, for every nesting -/
theorem readMeta_writeMeta : ∀ (m : MetaDict) (as : List (String × Attr)), writeMeta m = some as → readMeta as = some m
  | [], as, h => by simp only [writeMeta, Option.some.injEq] at h; subst h; rfl
  | (k, v) :: r, as, h => by
    simp only [writeMeta] at h
    split at h
    · simp at h
    · rename_i a ha
      split at h
      · simp at h
      · rename_i r' hr
        simp only [Option.some.injEq] at h
        subst h
        simp only [readMeta, decode_encode v a ha, readMeta_writeMeta r r' hr]

/-- the whole dataset: fields (through `roundTrip_core`), meta and vars -/
theorem roundTripM_core (h : Heap) (d : DSM) (lvl : Nat) (hw : WritableS h d.ds lvl) (hm : metaOK d.info = true) :
    ∃ (fm : FileM) (h' : Heap) (φ : Nat → Nat), writeDSM h d lvl = .ok (some fm) ∧
      readBackM h d fm = .ok (h', { ds := { numObs := d.ds.numObs, fields := renameFields φ (restrictFields lvl d.ds.fields) },
                                    info := d.info, vars := d.vars }) ∧
      (∀ x, Reach h (restrictFields lvl d.ds.fields) x → ∃ ob, h[x]? = some ob ∧ h'[φ x]? = some (ob.rename φ)) ∧
      (∀ x y, Reach h (restrictFields lvl d.ds.fields) x → Reach h (restrictFields lvl d.ds.fields) y → φ x = φ y → x = y) := by
  obtain ⟨file, h', φ, hwr, hrd, himg, hinj⟩ := roundTrip_core2 h d.ds lvl hw
  obtain ⟨as, has⟩ := writeMeta_isSome d.info hm
  have hv : encode (.dict d.vars) = some (.tagged "dict" (toAst (.dict d.vars))) := rfl
  refine ⟨{ file := file, metaAttrs := as, vars := .tagged "dict" (toAst (.dict d.vars)) }, h', φ, ?_, ?_, himg, hinj⟩
  · simp only [writeDSM, hwr, has, hv]
  · have hd : decode (.tagged "dict" (toAst (.dict d.vars))) = some (.dict d.vars) := decode_encode _ _ hv
    simp only [readBack] at hrd
    simp only [readBackM, readDSM, hd, hrd, readMeta_writeMeta d.info as has]

end Midgard.H5
