/-
Helper lemmas for C19 (text round trip), part B: what the `ConfigParser` model reads from the lines
`entry_as_str` writes.  Mathlib-free.
-/
import Midgard.Proofs.ConfigLines

namespace Midgard.Proofs.ConfigText
open Midgard.Config

/-! ### Blanks -/

theorem isBlank_space : isBlank ' ' = true := by decide

theorem getLast?_append_ne_nil {α} (a b : List α) (h : b ≠ []) : (a ++ b).getLast? = b.getLast? := by
  rw [List.getLast?_append]
  cases hb : b.getLast? with
  | none => simp at hb; exact absurd hb h
  | some x => simp

theorem dropWhile_blank_id (s : List Char) (hh : ∀ c, s.head? = some c → isBlank c = false) :
    s.dropWhile isBlank = s := by
  cases s with
  | nil => rfl
  | cons c t => simp [hh c rfl]

theorem rstripBlanks_id (s : List Char) (hl : ∀ c, s.getLast? = some c → isBlank c = false) :
    rstripBlanks s = s := by
  simp only [rstripBlanks]
  have h2 : s.reverse.dropWhile isBlank = s.reverse := by
    apply dropWhile_blank_id
    intro c hc
    rw [List.head?_reverse] at hc
    exact hl c hc
  rw [h2, List.reverse_reverse]

theorem stripBlanks_id (s : List Char) (hh : ∀ c, s.head? = some c → isBlank c = false)
    (hl : ∀ c, s.getLast? = some c → isBlank c = false) : stripBlanks s = s := by
  have h := rstripBlanks_id s hl
  simp only [rstripBlanks] at h
  simp only [stripBlanks, dropWhile_blank_id s hh]
  exact h

theorem dropWhile_blanks_append (b s : List Char) (hb : ∀ c ∈ b, isBlank c = true) :
    (b ++ s).dropWhile isBlank = s.dropWhile isBlank := by
  induction b with
  | nil => rfl
  | cons c t ih =>
    simp only [List.cons_append, List.dropWhile_cons, hb c (by simp), if_true]
    exact ih (fun x hx => hb x (List.mem_cons_of_mem _ hx))

theorem rstripBlanks_append_blanks (s b : List Char) (hb : ∀ c ∈ b, isBlank c = true) :
    rstripBlanks (s ++ b) = rstripBlanks s := by
  simp only [rstripBlanks, List.reverse_append]
  rw [dropWhile_blanks_append _ _ (by intro c hc; exact hb c (List.mem_reverse.1 hc))]

theorem stripBlanks_blanks_append (b s : List Char) (hb : ∀ c ∈ b, isBlank c = true) :
    stripBlanks (b ++ s) = stripBlanks s := by
  simp only [stripBlanks, dropWhile_blanks_append b s hb]

theorem takeWhile_blanks_append (b s : List Char) (hb : ∀ c ∈ b, isBlank c = true)
    (hs : ∀ c, s.head? = some c → isBlank c = false) :
    (b ++ s).takeWhile isBlank = b := by
  induction b with
  | nil =>
    cases s with
    | nil => rfl
    | cons c t => simp [hs c rfl]
  | cons c t ih =>
    simp only [List.cons_append, List.takeWhile_cons, hb c (by simp), if_true]
    rw [ih (fun x hx => hb x (List.mem_cons_of_mem _ hx))]

/-! ### Words -/

/-- a word as the reader sees it: non-empty, no blank of any kind -/
def WordOK (x : List Char) : Prop := x ≠ [] ∧ ∀ c ∈ x, isBlank c = false

theorem WordOK.isWord {x : List Char} (h : WordOK x) : IsWord x :=
  ⟨h.1, fun c hc he => by have := h.2 c hc; rw [he] at this; simp [isBlank_space] at this⟩

theorem blank_of_ctl (c : Char) (h : 9 ≤ c.toNat ∧ c.toNat ≤ 13) : isBlank c = true := by
  simp only [isBlank, Bool.or_eq_true, Bool.and_eq_true, decide_eq_true_eq]
  exact Or.inl h

theorem WordOK.noCtl {x : List Char} (h : WordOK x) : NoCtl x := by
  intro c hc hctl
  have := h.2 c hc
  rw [blank_of_ctl c hctl] at this
  simp at this

theorem unwords_head (x : List Char) (ws : List (List Char)) (hx : x ≠ []) :
    (unwords (x :: ws)).head? = x.head? := by
  cases x with
  | nil => exact absurd rfl hx
  | cons c t => simp [unwords]

theorem unwords_getLast (ws : List (List Char)) (hne : ws ≠ []) (hw : ∀ x ∈ ws, WordOK x) :
    ∀ c, (unwords ws).getLast? = some c → isBlank c = false := by
  intro c hc
  have hmem : c ∈ unwords ws := List.mem_of_getLast? hc
  -- the last character belongs to the last word
  obtain ⟨ws', wl, rfl⟩ : ∃ ws' wl, ws = ws' ++ [wl] := by
    rcases List.eq_nil_or_concat ws with h | ⟨a, b, h⟩
    · exact absurd h hne
    · exact ⟨a, b, by simp [h]⟩
  have hwl := hw wl (by simp)
  have : ∃ pre, unwords (ws' ++ [wl]) = pre ++ wl := by
    cases ws' with
    | nil => exact ⟨[], by simp [unwords]⟩
    | cons a t => exact ⟨a ++ t.flatMap (fun x => ' ' :: x) ++ [' '], by simp [unwords, List.flatMap_append]⟩
  obtain ⟨pre, hpre⟩ := this
  rw [hpre, getLast?_append_ne_nil _ _ hwl.1] at hc
  exact hwl.2 c (List.mem_of_getLast? hc)

theorem stripBlanks_unwords (ws : List (List Char)) (hw : ∀ x ∈ ws, WordOK x) :
    stripBlanks (unwords ws) = unwords ws := by
  cases ws with
  | nil => simp [unwords, stripBlanks]
  | cons x t =>
    apply stripBlanks_id
    · intro c hc
      rw [unwords_head x t (hw x (by simp)).1] at hc
      exact (hw x (by simp)).2 c (List.mem_of_head? hc)
    · exact unwords_getLast (x :: t) (by simp) hw

/-! ### One line at a time -/

/-- an option key as the reader accepts it unchanged -/
def KeyOK (lower : Bool) (k : List Char) : Prop :=
  k ≠ [] ∧ (∀ c ∈ k, isBlank c = false ∧ c ≠ '=') ∧ (lower = true → k.map lowerChar = k) ∧
  k.head? ≠ some '[' ∧ k.head? ≠ some '#' ∧ k.head? ≠ some ';'

theorem partitionAt_append (sep : Char) (a b : List Char) (h : sep ∉ a) :
    partitionAt sep (a ++ sep :: b) = (a, true, b) := by
  induction a with
  | nil => simp [partitionAt]
  | cons c t ih =>
    have hc : c ≠ sep := by intro e; subst e; simp at h
    have ht : sep ∉ t := fun ht => h (List.mem_cons_of_mem _ ht)
    simp [partitionAt, hc, ih ht]

theorem partitionAt_none (sep : Char) (a : List Char) (h : sep ∉ a) : partitionAt sep a = (a, false, []) := by
  induction a with
  | nil => simp [partitionAt]
  | cons c t ih =>
    have hc : c ≠ sep := by intro e; subst e; simp at h
    have ht : sep ∉ t := fun ht => h (List.mem_cons_of_mem _ ht)
    simp [partitionAt, hc, ih ht]

theorem closeOpt_eq (p : PState) (n : String) (os : List RawOpt) (hcur : p.cur = some (n, os)) :
    p.closeOpt = { done := p.done, cur := some (n, os ++ p.opt.toList), opt := none, indent := p.indent } := by
  obtain ⟨d, c, o, i⟩ := p
  simp only at hcur
  subst hcur
  cases o <;> simp [PState.closeOpt]

/-- the rest of a first line after `=` -/
theorem rest_eq (g0 : List (List Char)) :
    g0.flatMap (fun x => ' ' :: x) = match g0 with | [] => [] | _ :: _ => ' ' :: unwords g0 := by
  cases g0 with
  | nil => rfl
  | cons x t => simp [unwords]

theorem stripBlanks_rest (g0 : List (List Char)) (hg0 : ∀ x ∈ g0, WordOK x) :
    stripBlanks (g0.flatMap (fun x => ' ' :: x)) = unwords g0 := by
  rw [rest_eq]
  cases g0 with
  | nil => simp [stripBlanks, unwords]
  | cons x t =>
    have : (' ' :: unwords (x :: t)) = [' '] ++ unwords (x :: t) := rfl
    simp only
    rw [this, stripBlanks_blanks_append _ _ (by intro c hc; simp at hc; subst hc; exact isBlank_space),
      stripBlanks_unwords _ hg0]

/-- a line that starts at column 0 with a non-blank character is never taken as a continuation -/
theorem readLine_header (lower : Bool) (p : PState) (line : List Char) (hne : line ≠ [])
    (hh : ∀ c, line.head? = some c → isBlank c = false)
    (hl : ∀ c, line.getLast? = some c → isBlank c = false)
    (h1 : line.head? ≠ some '#') (h2 : line.head? ≠ some ';') :
    readLine lower p line = headerLine lower p line 0 := by
  have hs : stripBlanks line = line := stripBlanks_id line hh hl
  have hind : (line.takeWhile isBlank).length = 0 := by
    cases line with
    | nil => rfl
    | cons c t => simp [hh c rfl]
  have he : line.isEmpty = false := by cases line <;> simp_all
  simp only [readLine, hs, h1, h2, he, hind, Bool.or_self, Bool.false_eq_true, if_false, decide_false]
  split
  · simp
  · simp
  · rfl

theorem sectionName?_none (l : List Char) (h : l.head? ≠ some '[') : sectionName? l = none := by
  unfold sectionName?
  split
  · simp at h
  · rfl

/-- `[name]` is a section header whatever the (non-empty) name contains -/
theorem sectionName?_header (n : List Char) (hn : n ≠ []) : sectionName? ('[' :: n ++ [']']) = some n := by
  have hr : (n ++ [']']).reverse.dropWhile (· ≠ ']') = ']' :: n.reverse := by simp
  have he : n.reverse.isEmpty = false := by cases n <;> simp_all
  simp only [sectionName?, List.cons_append, hr, he, Bool.false_eq_true, if_false, List.reverse_reverse]

theorem firstLine_facts (kw : Nat) (key : List Char) (g0 : List (List Char)) (lower : Bool)
    (hkey : KeyOK lower key) (hg0 : ∀ x ∈ g0, WordOK x) :
    firstLine kw key g0 ≠ [] ∧ (firstLine kw key g0).head? = key.head? ∧
    (∀ c, (firstLine kw key g0).getLast? = some c → isBlank c = false) := by
  obtain ⟨hne, hc, _, _⟩ := hkey
  refine ⟨by simp [firstLine, hne], ?_, ?_⟩
  · cases key with
    | nil => exact absurd rfl hne
    | cons c t => simp [firstLine]
  · intro c hcl
    simp only [firstLine, rest_eq] at hcl
    cases g0 with
    | nil =>
      have : key ++ padOf kw key ++ ['='] = (key ++ padOf kw key) ++ ['='] := rfl
      simp only [List.append_assoc] at hcl
      rw [show key ++ (padOf kw key ++ ['=']) = (key ++ padOf kw key) ++ ['='] by simp,
        getLast?_append_ne_nil _ _ (by simp)] at hcl
      simp at hcl; subst hcl; decide
    | cons x t =>
      simp only at hcl
      rw [show key ++ padOf kw key ++ '=' :: ' ' :: unwords (x :: t) =
          (key ++ padOf kw key ++ ['=', ' ']) ++ unwords (x :: t) by simp,
        getLast?_append_ne_nil _ _ (by simp [unwords, (hg0 x (by simp)).1])] at hcl
      exact unwords_getLast (x :: t) (by simp) hg0 c hcl

/-- **reading the first line of an item**: the previous option is closed, the new option starts with
the words that follow `=` on this line -/
theorem readLine_first (lower : Bool) (p : PState) (n : String) (os : List RawOpt) (kw : Nat)
    (key : List Char) (g0 : List (List Char))
    (hcur : p.cur = some (n, os)) (hkey : KeyOK lower key) (hg0 : ∀ x ∈ g0, WordOK x)
    (hnew : key ∉ (os ++ p.opt.toList).map (·.key)) :
    readLine lower p (firstLine kw key g0) =
      .ok { done := p.done, cur := some (n, os ++ p.opt.toList), opt := some ⟨key, some [unwords g0]⟩, indent := 0 } := by
  obtain ⟨hne, hhead, hlast⟩ := firstLine_facts kw key g0 lower hkey hg0
  obtain ⟨hkne, hkc, hklow, hk1, hk2, hk3⟩ := hkey
  have hkhead : ∀ c, key.head? = some c → isBlank c = false := fun c hc => (hkc c (List.mem_of_head? hc)).1
  rw [readLine_header lower p _ hne (by rw [hhead]; exact hkhead) hlast (by rw [hhead]; exact hk2)
    (by rw [hhead]; exact hk3)]
  have hnb : sectionName? (firstLine kw key g0) = none := sectionName?_none _ (by rw [hhead]; exact hk1)
  simp only [headerLine, hnb, optionLine, closeOpt_eq p n os hcur]
  have hpad : ∀ c ∈ padOf kw key, isBlank c = true := fun c hc => by
    rw [(isSpaces_pad kw key).2 c hc]; exact isBlank_space
  have hnoeq : '=' ∉ key ++ padOf kw key := by
    intro hm
    rcases List.mem_append.1 hm with h | h
    · exact (hkc '=' h).2 rfl
    · have := (isSpaces_pad kw key).2 '=' h; simp at this
  have hpart : partitionAt '=' (firstLine kw key g0) =
      (key ++ padOf kw key, true, g0.flatMap (fun x => ' ' :: x)) := by
    simp only [firstLine]
    exact partitionAt_append '=' _ _ hnoeq
  have hklast : ∀ c, key.getLast? = some c → isBlank c = false := fun c hc => (hkc c (List.mem_of_getLast? hc)).1
  have hrs : rstripBlanks (key ++ padOf kw key) = key := by
    rw [rstripBlanks_append_blanks _ _ hpad, rstripBlanks_id key hklast]
  have hk' : (if lower = true then (rstripBlanks (key ++ padOf kw key)).map lowerChar
      else rstripBlanks (key ++ padOf kw key)) = key := by
    rw [hrs]; cases lower <;> simp_all
  have hcont : ((os ++ p.opt.toList).map (·.key)).contains key = false := by
    simpa using hnew
  have hke : key.isEmpty = false := by cases key <;> simp_all
  simp only [hpart, hk', hke, hcont, Bool.false_eq_true, if_false, if_true, stripBlanks_rest g0 hg0]

/-- **reading a valueless item** (`key:meta` alone on a line) -/
theorem readLine_valueless (lower : Bool) (p : PState) (n : String) (os : List RawOpt)
    (key : List Char) (hcur : p.cur = some (n, os)) (hkey : KeyOK lower key)
    (hnew : key ∉ (os ++ p.opt.toList).map (·.key)) :
    readLine lower p key =
      .ok { done := p.done, cur := some (n, os ++ p.opt.toList), opt := some ⟨key, none⟩, indent := 0 } := by
  obtain ⟨hkne, hkc, hklow, hk1, hk2, hk3⟩ := hkey
  have hkhead : ∀ c, key.head? = some c → isBlank c = false := fun c hc => (hkc c (List.mem_of_head? hc)).1
  have hklast : ∀ c, key.getLast? = some c → isBlank c = false := fun c hc => (hkc c (List.mem_of_getLast? hc)).1
  rw [readLine_header lower p _ hkne hkhead hklast hk2 hk3]
  have hnb : sectionName? key = none := sectionName?_none _ hk1
  simp only [headerLine, hnb, optionLine, closeOpt_eq p n os hcur]
  have hpart : partitionAt '=' key = (key, false, []) := partitionAt_none '=' key (fun h => (hkc '=' h).2 rfl)
  have hk' : (if lower = true then (rstripBlanks key).map lowerChar else rstripBlanks key) = key := by
    rw [rstripBlanks_id key hklast]; cases lower <;> simp_all
  have hcont : ((os ++ p.opt.toList).map (·.key)).contains key = false := by simpa using hnew
  have hke : key.isEmpty = false := by cases key <;> simp_all
  simp only [hpart, hk', hke, hcont, Bool.false_eq_true, if_false]

/-- **reading a continuation line**: its words are appended to the value of the open option -/
theorem readLine_cont (lower : Bool) (p : PState) (c : String × List RawOpt) (k : List Char)
    (vs : List (List Char)) (hang : Nat) (g : List (List Char))
    (hcur : p.cur = some c) (hopt : p.opt = some ⟨k, some vs⟩) (hind : p.indent = 0) (hhang : 0 < hang)
    (hg : g ≠ []) (hw : ∀ x ∈ g, WordOK x)
    (h1 : (unwords g).head? ≠ some '#') (h2 : (unwords g).head? ≠ some ';') :
    readLine lower p (contLine hang g) = .ok { p with opt := some ⟨k, some (vs ++ [unwords g])⟩ } := by
  have hrep : ∀ c ∈ List.replicate hang ' ', isBlank c = true := by
    intro c hc; simp at hc; rw [hc.2]; exact isBlank_space
  have hs : stripBlanks (contLine hang g) = unwords g := by
    simp only [contLine]
    rw [stripBlanks_blanks_append _ _ hrep, stripBlanks_unwords g hw]
  obtain ⟨x, t, rfl⟩ : ∃ x t, g = x :: t := by cases g with | nil => exact absurd rfl hg | cons x t => exact ⟨x, t, rfl⟩
  have hxne := (hw x (by simp)).1
  have hune : (unwords (x :: t)).isEmpty = false := by
    cases x with | nil => exact absurd rfl hxne | cons a b => simp [unwords]
  have hhead : ∀ c, (unwords (x :: t)).head? = some c → isBlank c = false := by
    intro c hc
    rw [unwords_head x t hxne] at hc
    exact (hw x (by simp)).2 c (List.mem_of_head? hc)
  have hindl : ((contLine hang (x :: t)).takeWhile isBlank).length = hang := by
    simp only [contLine]
    rw [takeWhile_blanks_append _ _ hrep hhead]; simp
  simp only [readLine, hs, h1, h2, hune, hindl, hcur, hopt, hind, Bool.or_self, Bool.false_eq_true, if_false,
    decide_false]
  simp [hhang]

/-- **reading an empty line**: kept inside a value that has started, otherwise ignored -/
theorem readLine_blank (lower : Bool) (p : PState) :
    readLine lower p [] = .ok (match p.opt with
      | some ⟨k, some vs⟩ => { p with opt := some ⟨k, some (vs ++ [[]])⟩ }
      | _ => p) := by
  simp only [readLine, stripBlanks]
  simp
  split <;> simp_all

end Midgard.Proofs.ConfigText
