/-
C17 — Bernese CRD: explicit bounds on the inputs (the property's quantifier) imply the decidable range predicate
`crdInRange` of the file-level round trip (helper of Props/C17).
-/
import Midgard.Proofs.WriterFilesCrd

namespace Midgard.WriterFiles
open Midgard.Text Midgard.Decimal Midgard.FixedCol Midgard.WriterCells Midgard.Writers
open Midgard.Generated.WriterLayouts

/-! ### explicit conditions on the inputs that put them inside `crdInRange` -/

theorem plain_of_digit {c : Char} (cm : Char) (hcm : isDigit cm = false) (h : isDigit c = true) : plainFor cm c = true := by
  simp only [plainFor, Bool.and_eq_true, bne_iff_ne, ne_eq]
  refine ⟨⟨?_, ?_⟩, ?_⟩
  · intro e; subst e; rw [h] at hcm; exact absurd hcm (by decide)
  · intro e; subst e; revert h; decide
  · intro e; subst e; revert h; decide

theorem plain_fmtInt (cm : Char) (hcm : isDigit cm = false) (hm : cm ≠ '-') (i : Int) : (fmtInt i).all (plainFor cm) = true := by
  have hd : ∀ c ∈ natDigits i.natAbs, plainFor cm c = true :=
    fun c hc => plain_of_digit cm hcm (isDigit_of_mem (allDigits_natDigits' _) hc)
  have hminus : plainFor cm '-' = true := by
    simp only [plainFor, Bool.and_eq_true, bne_iff_ne, ne_eq]
    exact ⟨⟨fun e => hm e.symm, by decide⟩, by decide⟩
  unfold fmtInt
  split
  · simp only [List.all_cons, Bool.and_eq_true, List.all_eq_true]; exact ⟨hminus, hd⟩
  · simp only [List.all_eq_true]; exact hd

theorem plain_fmtFixedCore (cm : Char) (hcm : isDigit cm = false) (hm : cm ≠ '-') (hp : cm ≠ '.') (q : Rat) (p : Nat) :
    (fmtFixedCore q p).all (plainFor cm) = true := by
  have hminus : plainFor cm '-' = true := by
    simp only [plainFor, Bool.and_eq_true, bne_iff_ne, ne_eq]
    exact ⟨⟨fun e => hm e.symm, by decide⟩, by decide⟩
  have hpoint : plainFor cm '.' = true := by
    simp only [plainFor, Bool.and_eq_true, bne_iff_ne, ne_eq]
    exact ⟨⟨fun e => hp e.symm, by decide⟩, by decide⟩
  rw [fmtFixedCore_eq]
  simp only [List.all_append, Bool.and_eq_true, List.all_eq_true]
  constructor
  · intro c hc
    split at hc
    · simp at hc; subst hc; exact hminus
    · simp at hc
  · intro c hc
    rcases fixedBody_chars _ _ c hc with h | h
    · exact plain_of_digit cm hcm h
    · subst h; exact hpoint

/-- a coordinate of the property's domain: a number up to ±9 999 999.9999, NaN, or the double `-0.0` -/
def coordOk : Value → Prop
  | .num q => -(99999999999 / 10000 : Rat) ≤ q ∧ q ≤ 99999999999 / 10000
  | .nan => True
  | .negz => True
  | _ => False

theorem coord_cell_ok (v : Value) (h : coordOk v) (w : Nat) (hw : w = 14 ∨ w = 16) :
    (v.okFor ⟨none, w, some 5, .fix⟩ && fitsCell ⟨none, w, some 5, .fix⟩ v) = true ∧
    Clean (v.text ⟨none, w, some 5, .fix⟩) = true ∧ (v.text ⟨none, w, some 5, .fix⟩).all (plainFor '#') = true := by
  cases v with
  | num q =>
    obtain ⟨_, h14, h16⟩ := coordinate_fits q h.1 h.2
    refine ⟨?_, clean_fmtFixedCore q 5, plain_fmtFixedCore '#' (by decide) (by decide) (by decide) q 5⟩
    rcases hw with rfl | rfl
    · simpa [Value.okFor] using h14
    · simpa [Value.okFor] using h16
  | nan => rcases hw with rfl | rfl <;> decide +kernel
  | negz => rcases hw with rfl | rfl <;> decide +kernel
  | str s => exact absurd h (by simp [coordOk])
  | int i => exact absurd h (by simp [coordOk])

/-- a text cell of the property's domain: at most `w` characters, no outer blanks, no `#`, no line break -/
def textOk (w : Nat) (s : Str) : Prop := s.length ≤ w ∧ Clean s = true ∧ s.all (plainFor '#') = true

theorem number_cell_ok (n : Nat) (h : n ≤ 999) :
    fitsCell ⟨some .right, 3, none, .any⟩ (.int (n : Nat)) = true ∧
    Clean (Value.text ⟨some .right, 3, none, .any⟩ (.int (n : Nat))) = true ∧
    (Value.text ⟨some .right, 3, none, .any⟩ (.int (n : Nat))).all (plainFor '#') = true := by
  refine ⟨?_, clean_of_no_space (no_space_fmtInt _), plain_fmtInt '#' (by decide) (by decide) _⟩
  unfold fitsCell
  apply decide_eq_true
  show (fmtInt (n : Int)).length ≤ 3
  rw [length_fmtInt]
  have hneg : ¬ ((n : Int) < 0) := by omega
  simp only [hneg, if_false, Nat.zero_add, Int.natAbs_natCast]
  exact (length_natDigits_le_iff 3 n (by decide)).mpr (by omega)

theorem fits_str (a : Option Align) (w : Nat) (s : Str) (h : s.length ≤ w) : fitsCell ⟨a, w, none, .any⟩ (.str s) = true :=
  decide_eq_true h

theorem crdEntryOk_of (e : XyzEntry) (hn : e.1 ≤ 999) (hk : textOk 4 (upper e.2.1.key)) (hne : upper e.2.1.key ≠ [])
    (hd : textOk 9 (e.2.1.domes.getD [])) (hx : coordOk e.2.2.1) (hy : coordOk e.2.2.2.1) (hz : coordOk e.2.2.2.2) :
    crdEntryOk e = true := by
  obtain ⟨n1, n2, n3⟩ := number_cell_ok e.1 hn
  obtain ⟨x1, x2, x3⟩ := coord_cell_ok _ hx 16 (Or.inr rfl)
  obtain ⟨y1, y2, y3⟩ := coord_cell_ok _ hy 14 (Or.inl rfl)
  obtain ⟨z1, z2, z3⟩ := coord_cell_ok _ hz 14 (Or.inl rfl)
  simp only [Bool.and_eq_true] at x1 y1 z1
  have hA : Clean ['A'] = true ∧ ['A'].all (plainFor '#') = true := by decide +kernel
  have hcm : crdSpec.comment = '#' := by decide +kernel
  simp only [crdEntryOk, valsOk, Bool.and_eq_true, Bool.not_eq_true', List.isEmpty_eq_false_iff]
  rw [crd_row_is, hcm]
  refine ⟨⟨⟨?_, ?_⟩, ?_⟩, hne⟩
  · simp only [crdVals, allFit, Bool.and_eq_true]
    exact ⟨⟨rfl, n1⟩, ⟨rfl, fits_str _ _ _ hk.1⟩, ⟨rfl, fits_str _ _ _ hd.1⟩, x1, y1, z1, ⟨rfl, by decide⟩, trivial⟩
  · simp only [crdVals, allClean, Bool.and_eq_true, Value.text]
    exact ⟨n2, hk.2.1, hd.2.1, x2, y2, z2, hA.1, trivial⟩
  · simp only [crdVals, textsAll, Bool.and_eq_true, Value.text]
    exact ⟨n3, hk.2.2, hd.2.2, x3, y3, z3, hA.2, trivial⟩

/-! ### the header -/

/-- every value is of a kind its cell formats -/
def allOk : List Cell → List Value → Bool
  | [], _ => true
  | .lit _ :: cs, vs => allOk cs vs
  | .fld _ spec :: cs, v :: vs => v.okFor spec && allOk cs vs
  | .fld _ _ :: _, [] => false
  | .other _ :: _, _ => false

def litsAll (P : Char → Bool) : List Cell → Bool
  | [] => true
  | .lit t :: cs => t.toList.all P && litsAll P cs
  | _ :: cs => litsAll P cs

def litCount (c : Char) : List Cell → Nat
  | [] => 0
  | .lit t :: cs => t.toList.count c + litCount c cs
  | _ :: cs => litCount c cs

theorem render_exists (cells : List Cell) : ∀ (vals : List Value), allOk cells vals = true →
    ∃ line, renderCells cells vals = some line := by
  induction cells with
  | nil => intro vals _; exact ⟨[], rfl⟩
  | cons c cs ih =>
    intro vals h
    cases c with
    | lit t =>
      obtain ⟨l, hl⟩ := ih vals (by simpa [allOk] using h)
      exact ⟨t.toList ++ l, by simp [renderCells, hl]⟩
    | other n => simp [allOk] at h
    | fld n spec =>
      cases vals with
      | nil => simp [allOk] at h
      | cons v vs =>
        simp only [allOk, Bool.and_eq_true] at h
        obtain ⟨l, hl⟩ := ih vs h.2
        exact ⟨fmtValue spec v ++ l, by simp [renderCells, h.1, hl]⟩

theorem count_pad (c : Char) (hc : c ≠ ' ') (a : Align) (w : Nat) (v : Str) : (pad a w v).count c = v.count c := by
  have hb : ∀ n, (blanks n).count c = 0 := by
    intro n; simp [blanks, List.count_replicate]; exact fun h => absurd h.symm hc
  cases a <;> simp [pad, ljust, rjust, List.count_append, hb]

theorem render_count (c : Char) (hc : c ≠ ' ') (cells : List Cell) : ∀ (vals : List Value) (line : Str),
    renderCells cells vals = some line → textsAll (· != c) cells vals = true → line.count c = litCount c cells := by
  induction cells with
  | nil => intro vals line h _; simp [renderCells] at h; subst h; rfl
  | cons cl cs ih =>
    intro vals line h ht
    cases cl with
    | lit t =>
      simp only [renderCells, Option.map_eq_some_iff] at h
      obtain ⟨l, hl, rfl⟩ := h
      simp only [textsAll] at ht
      simp [List.count_append, litCount, ih vals l hl ht]
    | other n => simp [renderCells] at h
    | fld n spec =>
      cases vals with
      | nil => simp [renderCells] at h
      | cons v vs =>
        simp only [renderCells] at h
        split at h
        · simp only [Option.map_eq_some_iff] at h
          obtain ⟨l, hl, rfl⟩ := h
          simp only [textsAll, Bool.and_eq_true, List.all_eq_true, bne_iff_ne, ne_eq] at ht
          have h0 : (v.text spec).count c = 0 := List.count_eq_zero.mpr (fun hm => ht.1 c hm rfl)
          simp only [List.count_append, litCount, fmtValue, count_pad c hc, h0, Nat.zero_add]
          exact ih vs l hl (by simpa [textsAll] using ht.2)
        · simp at h

theorem render_all (P : Char → Bool) (hP : P ' ' = true) (cells : List Cell) : ∀ (vals : List Value) (line : Str),
    renderCells cells vals = some line → litsAll P cells = true → textsAll P cells vals = true → line.all P = true := by
  induction cells with
  | nil => intro vals line h _ _; simp [renderCells] at h; subst h; rfl
  | cons cl cs ih =>
    intro vals line h hl ht
    cases cl with
    | lit t =>
      simp only [renderCells, Option.map_eq_some_iff] at h
      obtain ⟨l, hl', rfl⟩ := h
      simp only [litsAll, Bool.and_eq_true, textsAll] at hl ht
      rw [List.all_append, Bool.and_eq_true]
      exact ⟨hl.1, ih vals l hl' hl.2 ht⟩
    | other n => simp [renderCells] at h
    | fld n spec =>
      cases vals with
      | nil => simp [renderCells] at h
      | cons v vs =>
        simp only [renderCells] at h
        split at h
        · simp only [Option.map_eq_some_iff] at h
          obtain ⟨l, hl', rfl⟩ := h
          simp only [litsAll, textsAll, Bool.and_eq_true] at hl ht
          rw [List.all_append, Bool.and_eq_true]
          exact ⟨all_pad P hP _ _ _ ht.1, ih vs l hl' hl ht.2⟩
        · simp at h

/-- header texts without line breaks give a header the parser skips exactly (any header table whose literals carry
`skip` newlines, none of them a carriage return, and whose last literal ends the last line) -/
theorem headerOk_of (sp : GftSpec) (cells : List Cell) (vals : List Value) (hok : allOk cells vals = true)
    (hnl : textsAll (· != '\n') cells vals = true) (hcr : textsAll (· != '\r') cells vals = true)
    (hlit : litCount '\n' cells = sp.skip) (hlcr : litsAll (· != '\r') cells = true)
    (hlast : (tailLitFrom [] cells).getLast? = some '\n') :
    ∃ hdr, renderCells cells vals = some hdr ∧ headerOk sp hdr = true := by
  obtain ⟨hdr, hr⟩ := render_exists cells vals hok
  refine ⟨hdr, hr, ?_⟩
  simp only [headerOk, Bool.and_eq_true, beq_iff_eq]
  refine ⟨⟨?_, ?_⟩, render_all (· != '\r') (by decide) cells vals hdr hr hlcr hcr⟩
  · rw [render_count '\n' (by decide) cells vals hdr hr hnl, hlit]
  · have := render_segs cells vals [] hdr hr
    simp only [List.nil_append] at this
    rw [this]
    have hne : tailLitFrom [] cells ≠ [] := by intro h; rw [h] at hlast; simp at hlast
    rw [List.getLast?_append_of_ne_nil _ hne, hlast]

/-! ### the written stations -/

theorem length_insertBy {α} (le : α → α → Bool) (a : α) : ∀ (l : List α), (insertBy le a l).length = l.length + 1 := by
  intro l
  induction l with
  | nil => rfl
  | cons y r ih =>
    simp only [insertBy]
    split
    · rfl
    · simp [ih]

theorem length_sortBy {α} (le : α → α → Bool) : ∀ (l : List α), (sortBy le l).length = l.length := by
  intro l
  induction l with
  | nil => rfl
  | cons a r ih =>
    have : sortBy le (a :: r) = insertBy le a (sortBy le r) := rfl
    rw [this, length_insertBy, ih]; rfl

theorem mem_insertBy' {α} (le : α → α → Bool) (x a : α) : ∀ (l : List α), x ∈ insertBy le a l → x = a ∨ x ∈ l := by
  intro l
  induction l with
  | nil => intro h; simpa [insertBy] using h
  | cons y r ih =>
    intro h
    simp only [insertBy] at h
    split at h
    · simpa using h
    · rcases List.mem_cons.mp h with h | h
      · exact Or.inr (by simp [h])
      · rcases ih h with h | h
        · exact Or.inl h
        · exact Or.inr (by simp [h])

theorem mem_sortBy' {α} (le : α → α → Bool) (x : α) : ∀ (l : List α), x ∈ sortBy le l → x ∈ l := by
  intro l
  induction l with
  | nil => intro h; simp [sortBy] at h
  | cons a r ih =>
    intro h
    have h' : x ∈ insertBy le a (sortBy le r) := by simpa [sortBy] using h
    rcases mem_insertBy' le x a _ h' with h | h
    · simp [h]
    · simp [ih h]

/-- a written entry is a station of the input that has coordinates, numbered within the station count -/
theorem mem_xyzEntries (wn : Bool) (sts : List Station) (e : XyzEntry) (h : e ∈ xyzEntries wn sts) :
    e.2.1 ∈ sts ∧ e.1 ≤ sts.length ∧ e.2.1.xyz = some (e.2.2.1, e.2.2.2.1, e.2.2.2.2) := by
  simp only [xyzEntries, List.mem_filterMap] at h
  obtain ⟨p, hp, hpe⟩ := h
  simp only [sortedStations, enumerate, List.mem_map] at hp
  obtain ⟨⟨st, i⟩, hsi, rfl⟩ := hp
  have hget := List.mem_zipIdx_iff_getElem?.mp hsi
  simp only at hget
  have hi : i < (sortBy (fun a b => strLe a.key b.key) sts).length := by
    rcases Nat.lt_or_ge i (sortBy (fun a b => strLe a.key b.key) sts).length with h | h
    · exact h
    · rw [List.getElem?_eq_none h] at hget; simp at hget
  have hmem : st ∈ sts := mem_sortBy' _ _ _ (List.mem_of_getElem? hget)
  rw [length_sortBy] at hi
  simp only at hpe
  cases hx : st.xyz with
  | none => simp [hx] at hpe
  | some t =>
    obtain ⟨x, y, z⟩ := t
    simp only [hx] at hpe
    split at hpe
    · simp at hpe
    · simp only [Option.some.injEq] at hpe
      subst hpe
      exact ⟨hmem, Nat.succ_le_of_lt hi, hx⟩

/-- **Explicit bounds put an input inside the range of `crd_file_roundtrip`**: header texts without line breaks; at most
999 stations; for every station that has coordinates: a code of 1–4 characters (upper case), a DOMES number of at most 9,
both without outer blanks, `#` or line breaks; coordinates that are numbers up to ±9 999 999.9999, NaN or `-0.0`. -/
theorem crd_range_sufficient_aux (solution stamp datum epoch : Str) (wn : Bool) (sts : List Station)
    (hh : ∀ t ∈ [solution, stamp, datum, epoch], t.all (· != '\n') = true ∧ t.all (· != '\r') = true)
    (hn : sts.length ≤ 999)
    (hs : ∀ st ∈ sts, ∀ x y z, st.xyz = some (x, y, z) →
      textOk 4 (upper st.key) ∧ upper st.key ≠ [] ∧ textOk 9 (st.domes.getD []) ∧ coordOk x ∧ coordOk y ∧ coordOk z) :
    crdInRange [solution, stamp, datum, epoch] wn sts = true := by
  have h1 := hh solution (by simp)
  have h2 := hh stamp (by simp)
  have h3 := hh datum (by simp)
  have h4 := hh epoch (by simp)
  have hok : allOk (headerOf "bernese_crd") ([solution, stamp, datum, epoch].map Value.str) = true := rfl
  have hnl : textsAll (· != '\n') (headerOf "bernese_crd") ([solution, stamp, datum, epoch].map Value.str) =
      (solution.all (· != '\n') && (stamp.all (· != '\n') && (datum.all (· != '\n') && (epoch.all (· != '\n') && true)))) := rfl
  have hcr : textsAll (· != '\r') (headerOf "bernese_crd") ([solution, stamp, datum, epoch].map Value.str) =
      (solution.all (· != '\r') && (stamp.all (· != '\r') && (datum.all (· != '\r') && (epoch.all (· != '\r') && true)))) := rfl
  obtain ⟨hdr, hr, hhok⟩ := headerOk_of crdSpec (headerOf "bernese_crd") _ hok
    (by rw [hnl, h1.1, h2.1, h3.1, h4.1]; rfl) (by rw [hcr, h1.2, h2.2, h3.2, h4.2]; rfl)
    (by decide +kernel) (by decide +kernel) (by decide +kernel)
  have hht : headerText "bernese_crd" [solution, stamp, datum, epoch] = some hdr := hr
  simp only [crdInRange, hht, hhok, Bool.true_and, List.all_eq_true]
  intro e he
  obtain ⟨hmem, hnum, hxyz⟩ := mem_xyzEntries wn sts e he
  obtain ⟨a, b, c, d, f, g⟩ := hs e.2.1 hmem _ _ _ hxyz
  exact crdEntryOk_of e (by omega) a b c d f g

/-! ### headers of the VEL and CLU files -/

def noBreaks (t : Str) : Prop := t.all (· != '\n') = true ∧ t.all (· != '\r') = true

/-- header texts without line breaks give the VEL header the CRD parser skips (6 lines) -/
theorem vel_header_ok (solution stamp datum : Str) (h1 : noBreaks solution) (h2 : noBreaks stamp) (h3 : noBreaks datum) :
    ∃ hdr, headerText "bernese_vel" [solution, stamp, datum] = some hdr ∧ headerOk crdSpec hdr = true := by
  have hok : allOk (headerOf "bernese_vel") ([solution, stamp, datum].map Value.str) = true := rfl
  have hnl : textsAll (· != '\n') (headerOf "bernese_vel") ([solution, stamp, datum].map Value.str) =
      (solution.all (· != '\n') && (stamp.all (· != '\n') && (datum.all (· != '\n') && true))) := rfl
  have hcr : textsAll (· != '\r') (headerOf "bernese_vel") ([solution, stamp, datum].map Value.str) =
      (solution.all (· != '\r') && (stamp.all (· != '\r') && (datum.all (· != '\r') && true))) := rfl
  exact headerOk_of crdSpec (headerOf "bernese_vel") _ hok
    (by rw [hnl, h1.1, h2.1, h3.1]; rfl) (by rw [hcr, h1.2, h2.2, h3.2]; rfl)
    (by decide +kernel) (by decide +kernel) (by decide +kernel)

/-- … and the CLU header the CLU parser skips (5 lines) -/
theorem clu_header_ok (solution stamp : Str) (h1 : noBreaks solution) (h2 : noBreaks stamp) :
    ∃ hdr, headerText "bernese_clu" [solution, stamp] = some hdr ∧ headerOk cluSpec hdr = true := by
  have hok : allOk (headerOf "bernese_clu") ([solution, stamp].map Value.str) = true := rfl
  have hnl : textsAll (· != '\n') (headerOf "bernese_clu") ([solution, stamp].map Value.str) =
      (solution.all (· != '\n') && (stamp.all (· != '\n') && true)) := rfl
  have hcr : textsAll (· != '\r') (headerOf "bernese_clu") ([solution, stamp].map Value.str) =
      (solution.all (· != '\r') && (stamp.all (· != '\r') && true)) := rfl
  exact headerOk_of cluSpec (headerOf "bernese_clu") _ hok
    (by rw [hnl, h1.1, h2.1]; rfl) (by rw [hcr, h1.2, h2.2]; rfl)
    (by decide +kernel) (by decide +kernel) (by decide +kernel)

end Midgard.WriterFiles
