/-
C10 — what `Dataset.write` puts into the file (stage A of the round trip): every array group is
well formed w.r.t. the heap object it was written for (`ArrTree`), a reference by name always names
a place the memo knows, every memo entry names an array group of the file written for that very
object, and no object is written twice.
-/
import Midgard.Proofs.H5Base

namespace Midgard.H5
open Midgard.Dataset

/-- references point to older objects (the attachment exists before the array that refers to it) -/
def Below (h : Heap) : Prop := ∀ (o : Nat) (ob : Obj) (x : Nat), h[o]? = some ob → ob.ref = some x → x < o

abbrev keys (m : WMemo) : List Nat := m.map Prod.fst

theorem lookup_none_iff : ∀ (m : WMemo) (a : Nat), m.lookup a = none ↔ a ∉ keys m
  | [], a => by simp [List.lookup, keys]
  | (k, v) :: r, a => by
    simp only [List.lookup, keys, List.map_cons, List.mem_cons, not_or]
    by_cases h : a = k
    · subst h; simp
    · have : (a == k) = false := by simpa using h
      simp only [this]
      exact ⟨fun hh => ⟨h, (lookup_none_iff r a).mp hh⟩, fun hh => (lookup_none_iff r a).mpr hh.2⟩

theorem wlookup_mem : ∀ (m : WMemo) (a : Nat) (q : Path), m.lookup a = some q → (a, q) ∈ m
  | [], _, _, h => by simp [List.lookup] at h
  | (k, v) :: r, a, q, h => by
    simp only [List.lookup] at h
    split at h
    · rename_i heq
      have : a = k := by simpa using heq
      simp only [Option.some.injEq] at h
      subst this; subst h; simp
    · exact List.mem_cons_of_mem _ (wlookup_mem r a q h)

theorem mem_keys {m : WMemo} {x : Nat} {q : Path} (h : (x, q) ∈ m) : x ∈ keys m :=
  List.mem_map.mpr ⟨(x, q), h, rfl⟩

/-- the array group `g` at path `q` is what `_write` makes of the heap object `g.src`; a reference by
name satisfies `H name target` -/
inductive ArrTree (H : Path → Nat → Prop) (h : Heap) : Path → Grp → Prop
  | plain {q : Path} {a : GAttrs} {ob : Obj} : h[a.src]? = some ob → attrName ob.kind = none →
      a.fieldname = q → a.ref = none → ArrTree H h q (.mk a (some ob.strip) [])
  | noref {q : Path} {a : GAttrs} {ob : Obj} {nm : String} : h[a.src]? = some ob → attrName ob.kind = some nm →
      ob.ref = none → a.fieldname = q → a.ref = none → ArrTree H h q (.mk a (some ob.strip) [])
  | named {q : Path} {a : GAttrs} {ob : Obj} {nm : String} {x : Nat} {qx : Path} : h[a.src]? = some ob →
      attrName ob.kind = some nm → ob.ref = some x → a.fieldname = q → a.ref = some qx → H qx x →
      ArrTree H h q (.mk a (some ob.strip) [])
  | embedded {q : Path} {a : GAttrs} {ob : Obj} {nm : String} {x : Nat} {g' : Grp} : h[a.src]? = some ob →
      attrName ob.kind = some nm → ob.ref = some x → a.fieldname = q → a.ref = none → g'.src = x →
      ArrTree H h (q ++ [nm]) g' → ArrTree H h q (.mk a (some ob.strip) [(nm, g')])

theorem ArrTree.mono {H H' : Path → Nat → Prop} {h : Heap} (hh : ∀ q x, H q x → H' q x) :
    ∀ {q g}, ArrTree H h q g → ArrTree H' h q g := by
  intro q g t
  induction t with
  | plain a b c d => exact .plain a b c d
  | noref a b c d e => exact .noref a b c d e
  | named a b c d e f => exact .named a b c d e (hh _ _ f)
  | embedded a b c d e f _ ih => exact .embedded a b c d e f ih

theorem ArrTree.isArr {H h q g} (t : ArrTree H h q g) : g.isArr = true := by
  cases t <;> rfl

/-- `FieldType.write` adds unit and write level to the group: the array part is untouched -/
theorem ArrTree.setUL {H h q} {a : GAttrs} {p : Option Obj} {subs : List (String × Grp)} {u : Option (List String)} {l : Nat}
    (t : ArrTree H h q (.mk a p subs)) : ArrTree H h q (.mk { a with unit := u, level := l } p subs) := by
  cases t with
  | plain a1 b c d => exact .plain (a := { a with unit := u, level := l }) a1 b c d
  | noref a1 b c d e => exact .noref (a := { a with unit := u, level := l }) a1 b c d e
  | named a1 b c d e f => exact .named (a := { a with unit := u, level := l }) a1 b c d e f
  | embedded a1 b c d e f g => exact .embedded (a := { a with unit := u, level := l }) a1 b c d e f g

/-- every node of a well-formed array group is a well-formed array group -/
theorem ArrTree.nodes {H h} : ∀ {q g}, ArrTree H h q g → ∀ q' g', (q', g') ∈ Grp.nodes q g → ArrTree H h q' g' := by
  intro q g t
  induction t with
  | plain a b c d =>
    intro q' g' hm
    simp only [Grp.nodes, Grp.nodes.nodesL, Option.isSome_some, if_true, List.append_nil, List.mem_singleton, Prod.mk.injEq] at hm
    obtain ⟨rfl, rfl⟩ := hm
    exact .plain a b c d
  | noref a b c d e =>
    intro q' g' hm
    simp only [Grp.nodes, Grp.nodes.nodesL, Option.isSome_some, if_true, List.append_nil, List.mem_singleton, Prod.mk.injEq] at hm
    obtain ⟨rfl, rfl⟩ := hm
    exact .noref a b c d e
  | named a b c d e f =>
    intro q' g' hm
    simp only [Grp.nodes, Grp.nodes.nodesL, Option.isSome_some, if_true, List.append_nil, List.mem_singleton, Prod.mk.injEq] at hm
    obtain ⟨rfl, rfl⟩ := hm
    exact .named a b c d e f
  | embedded a b c d e f t ih =>
    intro q' g' hm
    simp only [Grp.nodes, Grp.nodes.nodesL, Option.isSome_some, if_true, List.append_nil, List.singleton_append,
      List.mem_cons, Prod.mk.injEq] at hm
    rcases hm with ⟨rfl, rfl⟩ | hm
    · exact .embedded a b c d e f t
    · exact ih q' g' hm

theorem root_mem_nodes {g : Grp} (p : Path) (ha : g.isArr = true) : (p, g) ∈ Grp.nodes p g := by
  cases g with
  | mk a pl subs =>
    simp only [Grp.isArr, Grp.payload_mk] at ha
    simp [Grp.nodes, ha]

/-- what one `writeArr` call guarantees -/
structure WArr (h : Heap) (o : Nat) (p : Path) (memo : WMemo) (g : Grp) (memo' : WMemo) : Prop where
  src : g.src = o
  tree : ArrTree (fun q x => (x, q) ∈ memo') h p g
  sub : ∀ e ∈ memo, e ∈ memo'
  newIn : ∀ x q, (x, q) ∈ memo' → (x, q) ∈ memo ∨ ∃ g', (q, g') ∈ Grp.nodes p g ∧ g'.src = x
  fresh : ∀ q g', (q, g') ∈ Grp.nodes p g → g'.src = o ∨ g'.src ∉ keys memo
  nodup : ((Grp.nodes p g).map (fun x => x.2.src)).Nodup
  known : ∀ q g', (q, g') ∈ Grp.nodes p g → g'.src ∈ keys memo'
  names : NamesOKG g

theorem nodes_leaf (p : Path) (a : GAttrs) (ob : Obj) :
    Grp.nodes p (Grp.mk a (some ob) []) = [(p, Grp.mk a (some ob) [])] := by
  simp [Grp.nodes, Grp.nodes.nodesL]

theorem writeArr_spec (h : Heap) (hb : Below h) : ∀ (fuel : Nat) (u : Option (List String)) (l : Nat) (o : Nat) (p : Path)
    (memo : WMemo) (g : Grp) (memo' : WMemo),
    writeArr h u l fuel o p memo = .ok (g, memo') → o ∈ keys memo →
    WArr h o p memo g memo' ∧ g.attrs.unit = u ∧ g.attrs.level = l ∧ g.attrs.fieldname = p
  | 0, _, _, _, _, _, _, _, hw, _ => by simp [writeArr] at hw
  | fuel + 1, u, l, o, p, memo, g, memo', hw, hk => by
    simp only [writeArr] at hw
    split at hw
    · simp at hw
    · rename_i ob hob
      split at hw
      · -- no attribute
        rename_i hat
        simp only [Except.ok.injEq, Prod.mk.injEq] at hw
        obtain ⟨rfl, rfl⟩ := hw
        refine ⟨⟨rfl, .plain hob hat rfl rfl, fun e he => he, fun x q hx => Or.inl hx, ?_, ?_, ?_, ?_⟩, rfl, rfl, rfl⟩
        · intro q g' hm; rw [nodes_leaf] at hm; simp at hm; left; rw [hm.2]; rfl
        · rw [nodes_leaf]; simp
        · intro q g' hm; rw [nodes_leaf] at hm; simp at hm; rw [hm.2]; exact hk
        · simp [NamesOKG, NamesOKG.NamesOKL]
      · rename_i nm hat
        split at hw
        · -- attribute is None
          rename_i hr
          simp only [Except.ok.injEq, Prod.mk.injEq] at hw
          obtain ⟨rfl, rfl⟩ := hw
          refine ⟨⟨rfl, .noref hob hat hr rfl rfl, fun e he => List.mem_cons_of_mem _ he, ?_, ?_, ?_, ?_, ?_⟩, rfl, rfl, rfl⟩
          · intro x q hx
            rcases List.mem_cons.mp hx with hx | hx
            · right; cases hx; exact ⟨_, root_mem_nodes p rfl, rfl⟩
            · exact Or.inl hx
          · intro q g' hm; rw [nodes_leaf] at hm; simp at hm; left; rw [hm.2]; rfl
          · rw [nodes_leaf]; simp
          · intro q g' hm; rw [nodes_leaf] at hm; simp at hm; rw [hm.2]; simp [keys]
          · simp [NamesOKG, NamesOKG.NamesOKL]
        · rename_i a hr
          split at hw
          · -- reference by name
            rename_i name hl
            simp only [Except.ok.injEq, Prod.mk.injEq] at hw
            obtain ⟨rfl, rfl⟩ := hw
            refine ⟨⟨rfl, .named hob hat hr rfl rfl (List.mem_cons_of_mem _ (wlookup_mem memo a name hl)),
              fun e he => List.mem_cons_of_mem _ he, ?_, ?_, ?_, ?_, ?_⟩, rfl, rfl, rfl⟩
            · intro x q hx
              rcases List.mem_cons.mp hx with hx | hx
              · right; cases hx; exact ⟨_, root_mem_nodes p rfl, rfl⟩
              · exact Or.inl hx
            · intro q g' hm; rw [nodes_leaf] at hm; simp at hm; left; rw [hm.2]; rfl
            · rw [nodes_leaf]; simp
            · intro q g' hm; rw [nodes_leaf] at hm; simp at hm; rw [hm.2]; simp [keys]
            · simp [NamesOKG, NamesOKG.NamesOKL]
          · -- embedded
            rename_i hl
            split at hw
            · simp at hw
            · rename_i gc memoc hrec
              simp only [Except.ok.injEq, Prod.mk.injEq] at hw
              obtain ⟨rfl, rfl⟩ := hw
              have hak : a ∉ keys memo := (lookup_none_iff memo a).mp hl
              have hao : a < o := hb o ob a hob hr
              obtain ⟨ih, _, _, _⟩ := writeArr_spec h hb fuel none 3 a (p ++ [nm]) ((a, p ++ [nm]) :: memo) gc memoc hrec
                (by simp [keys])
              have hgarr : gc.isArr = true := ih.tree.isArr
              have hn : ∀ (at0 : GAttrs), Grp.nodes p (Grp.mk at0 (some ob.strip) [(nm, gc)]) =
                  (p, Grp.mk at0 (some ob.strip) [(nm, gc)]) :: Grp.nodes (p ++ [nm]) gc := by
                intro at0; simp [Grp.nodes, Grp.nodes.nodesL]
              have hkc : ∀ x, x ∈ keys memo → x ∈ keys ((a, p ++ [nm]) :: memo) := by
                intro x hx; simp only [keys, List.map_cons, List.mem_cons]; exact Or.inr hx
              refine ⟨⟨rfl, ?_, ?_, ?_, ?_, ?_, ?_, ?_⟩, rfl, rfl, rfl⟩
              · exact .embedded hob hat hr rfl rfl ih.src (ih.tree.mono (fun q x hx => List.mem_cons_of_mem _ hx))
              · intro e he; exact List.mem_cons_of_mem _ (ih.sub e (List.mem_cons_of_mem _ he))
              · intro x q hx
                rcases List.mem_cons.mp hx with hx | hx
                · right; cases hx; exact ⟨_, root_mem_nodes p rfl, rfl⟩
                · rcases ih.newIn x q hx with hx | ⟨g', hg', hs⟩
                  · rcases List.mem_cons.mp hx with hx | hx
                    · right; cases hx
                      exact ⟨gc, by rw [hn]; exact List.mem_cons_of_mem _ (root_mem_nodes _ hgarr), ih.src⟩
                    · exact Or.inl hx
                  · right; exact ⟨g', by rw [hn]; exact List.mem_cons_of_mem _ hg', hs⟩
              · intro q g' hm
                rw [hn] at hm
                rcases List.mem_cons.mp hm with hm | hm
                · left; cases hm; rfl
                · right
                  rcases ih.fresh q g' hm with hf | hf
                  · rw [hf]; exact hak
                  · exact fun hx => hf (hkc _ hx)
              · rw [hn]
                simp only [List.map_cons, List.nodup_cons]
                refine ⟨?_, ih.nodup⟩
                intro hin
                obtain ⟨⟨q, g'⟩, hm, hs⟩ := List.mem_map.mp hin
                simp only [Grp.src_mk] at hs
                rcases ih.fresh q g' hm with hf | hf
                · rw [hf] at hs; omega
                · exact hf (hs ▸ hkc _ hk)
              · intro q g' hm
                rw [hn] at hm
                rcases List.mem_cons.mp hm with hm | hm
                · cases hm; simp [keys]
                · simp only [keys, List.map_cons, List.mem_cons]; exact Or.inr (ih.known q g' hm)
              · simp only [NamesOKG, NamesOKG.NamesOKL]
                exact ⟨ih.names, by simp, trivial⟩

end Midgard.H5
