/-
C10 — `_read` of one array group for the model with the `time` attribute (`readArrX`): the read memo as a growing partial
injection old object ↦ new object, now also carrying the `time` of the new objects.
-/
import Midgard.Proofs.H5XWAll
import Midgard.Proofs.H5R2

namespace Midgard.H5
open Midgard.Dataset

def IsTime (h : Heap) (z : Nat) : Prop := ∃ tb, h[z]? = some tb ∧ tb.kind = .time

structure HeapWFX (h : Heap) (tm : TM) : Prop where
  wf : HeapWF h
  tmOK : ∀ o t, tmE h tm o = some t → IsTime h t

theorem IsTime.registers {h : Heap} {z : Nat} (t : IsTime h z) : Registers h z := by
  obtain ⟨tb, h1, h2⟩ := t
  exact ⟨tb, h1, by simp [Kind.registers, h2]⟩

structure RInvX (h : Heap) (tm : TM) (file : File) (ρ : Rho) (s : RSt) : Prop where
  lt : ∀ x n, ρ.lookup x = some n → n < s.heap.length
  inj : ∀ x x' n, ρ.lookup x = some n → ρ.lookup x' = some n → x = x'
  img : ∀ x n, ρ.lookup x = some n → ∃ ob r', h[x]? = some ob ∧ s.heap[n]? = some (ob.strip.withRef r') ∧ RefRel ρ ob.ref r' ∧
    RefRel ρ (tmE h tm x) (tmOf s.tm n)
  memo : ∀ q n, s.memo.lookup q = some n → ∃ g, lookupGrp file.groups q = some g ∧ ρ.lookup g.src = some n
  reg : ∀ x n, ρ.lookup x = some n → Registers h x → ∀ q g, lookupGrp file.groups q = some g → g.isArr = true →
    g.src = x → s.memo.lookup q = some n
  tmlen : s.tm.length = s.heap.length

theorem RInvX.empty (h : Heap) (tm : TM) (file : File) : RInvX h tm file [] {} where
  lt := by intro x n hx; simp [List.lookup] at hx
  inj := by intro x x' n hx; simp [List.lookup] at hx
  img := by intro x n hx; simp [List.lookup] at hx
  memo := by intro q n hq; simp [List.lookup] at hq
  reg := by intro x n hx; simp [List.lookup] at hx
  tmlen := rfl

theorem RInvX.set {h : Heap} {tm : TM} {file : File} {ρ : Rho} {s : RSt} (inv : RInvX h tm file ρ s) {q : Path} {g : Grp} {n : Nat}
    (hl : lookupGrp file.groups q = some g) (hr : ρ.lookup g.src = some n) :
    RInvX h tm file ρ (s.set q n) where
  lt := inv.lt
  inj := inv.inj
  img := inv.img
  tmlen := inv.tmlen
  memo := by
    intro q' n' hq
    simp only [RSt.set] at hq
    rw [lookup_cons_ite] at hq
    by_cases hqq : q' = q
    · subst hqq
      simp only [if_true, Option.some.injEq] at hq
      subst hq
      exact ⟨g, hl, hr⟩
    · simp only [hqq, if_false] at hq
      exact inv.memo q' n' hq
  reg := by
    intro x0 n0 hx0 hreg q' g' hl' ha' hs'
    simp only [RSt.set]
    rw [lookup_cons_ite]
    by_cases hqq : q' = q
    · subst hqq
      rw [hl] at hl'
      cases hl'
      rw [hs'] at hr
      rw [hr] at hx0
      simp [hx0]
    · simp only [hqq, if_false]
      exact inv.reg x0 n0 hx0 hreg q' g' hl' ha' hs'

theorem tmOf_append_left (l : TM) (t : Option Nat) {n : Nat} (hn : n < l.length) : tmOf (l ++ [t]) n = tmOf l n := by
  simp [tmOf, List.getElem?_append_left hn]

theorem tmOf_append_self (l : TM) (t : Option Nat) : tmOf (l ++ [t]) l.length = t := by
  simp [tmOf]

/-- a new array is made for an object not read so far, and (if its class does that) registered -/
theorem RInvX.alloc {h : Heap} {tm : TM} {file : File} {ρ : Rho} {s : RSt} (fo : FileOKX h tm file) (inv : RInvX h tm file ρ s)
    {x : Nat} {ob : Obj} {r' t' : Option Nat} {q : Path} {g : Grp} (hx : ρ.lookup x = none) (hob : h[x]? = some ob)
    (hrr : RefRel ρ ob.ref r') (htr : RefRel ρ (tmE h tm x) t')
    (hl : lookupGrp file.groups q = some g) (ha : g.isArr = true) (hs : g.src = x)
    {s' : RSt} (hheap : s'.heap = s.heap ++ [ob.strip.withRef r']) (htm : s'.tm = s.tm ++ [t'])
    (hmemo : s'.memo = s.memo ∨ s'.memo = (q, s.heap.length) :: s.memo)
    (hreg : ob.kind.registers = true → s'.memo = (q, s.heap.length) :: s.memo) :
    RInvX h tm file ((x, s.heap.length) :: ρ) s' := by
  have hext : Ext ρ ((x, s.heap.length) :: ρ) := Ext.cons _ hx
  refine ⟨?_, ?_, ?_, ?_, ?_, ?_⟩
  · intro z n hz
    rw [lookup_cons_ite] at hz
    rw [hheap, List.length_append, List.length_singleton]
    by_cases hzx : z = x
    · simp only [hzx, if_true, Option.some.injEq] at hz; omega
    · simp only [hzx, if_false] at hz
      have := inv.lt z n hz; omega
  · intro z z' n hz hz'
    rw [lookup_cons_ite] at hz hz'
    by_cases hzx : z = x <;> by_cases hzx' : z' = x
    · rw [hzx, hzx']
    · simp only [hzx, if_true, Option.some.injEq] at hz
      simp only [hzx', if_false] at hz'
      have := inv.lt z' n hz'; omega
    · simp only [hzx', if_true, Option.some.injEq] at hz'
      simp only [hzx, if_false] at hz
      have := inv.lt z n hz; omega
    · simp only [hzx, if_false] at hz
      simp only [hzx', if_false] at hz'
      exact inv.inj z z' n hz hz'
  · intro z n hz
    rw [lookup_cons_ite] at hz
    by_cases hzx : z = x
    · simp only [hzx, if_true, Option.some.injEq] at hz
      subst hz
      refine ⟨ob, r', hzx ▸ hob, ?_, hrr.mono hext, ?_⟩
      · rw [hheap]; simp
      · have : tmOf s'.tm s.heap.length = t' := by rw [htm, ← inv.tmlen, tmOf_append_self]
        rw [this, hzx]
        exact htr.mono hext
    · simp only [hzx, if_false] at hz
      obtain ⟨ob0, r0, h1, h2, h3, h4⟩ := inv.img z n hz
      refine ⟨ob0, r0, h1, ?_, h3.mono hext, ?_⟩
      · rw [hheap, List.getElem?_append_left (inv.lt z n hz)]
        exact h2
      · rw [htm, tmOf_append_left _ _ (by rw [inv.tmlen]; exact inv.lt z n hz)]
        exact h4.mono hext
  · intro q' n' hq
    rcases hmemo with hm | hm
    · rw [hm] at hq
      obtain ⟨g', a1, a3⟩ := inv.memo q' n' hq
      exact ⟨g', a1, hext _ _ a3⟩
    · rw [hm, lookup_cons_ite] at hq
      by_cases hqq : q' = q
      · simp only [hqq, if_true, Option.some.injEq] at hq
        subst hq
        refine ⟨g, hqq ▸ hl, ?_⟩
        rw [hs, lookup_cons_ite]; simp
      · simp only [hqq, if_false] at hq
        obtain ⟨g', a1, a3⟩ := inv.memo q' n' hq
        exact ⟨g', a1, hext _ _ a3⟩
  · intro z n hz hregz q' g' hl' ha' hs'
    rw [lookup_cons_ite] at hz
    by_cases hzx : z = x
    · simp only [hzx, if_true, Option.some.injEq] at hz
      subst hz
      have hqq : q' = q := fo.uniq q' g' q g hl' hl ha' ha (by rw [hs', hs, hzx])
      obtain ⟨obz, hobz, hrz⟩ := hregz
      rw [hzx, hob] at hobz
      cases hobz
      rw [hreg hrz, hqq, lookup_cons_ite]; simp
    · simp only [hzx, if_false] at hz
      have hold := inv.reg z n hz hregz q' g' hl' ha' hs'
      rcases hmemo with hm | hm
      · rw [hm]; exact hold
      · rw [hm, lookup_cons_ite]
        have hqq : q' ≠ q := by
          intro hqq
          rw [hqq, hl] at hl'
          cases hl'
          exact hzx (hs'.symm.trans hs)
        simp only [hqq, if_false]
        exact hold
  · rw [htm, hheap, List.length_append, List.length_append, inv.tmlen, List.length_singleton, List.length_singleton]

/-- enough fuel to read the array group of object `x`: one step for an object without attributes, else one step per older
object plus one for a `time` -/
def FuelOK (h : Heap) (x fuel : Nat) : Prop :=
  (∃ ob, h[x]? = some ob ∧ attrName ob.kind = none ∧ 1 ≤ fuel) ∨ x + 2 ≤ fuel

/-- the objects that reading the array group of `x` may allocate besides `x` -/
def Under (h : Heap) (x z : Nat) : Prop := Registers h z ∧ ((z < x ∧ ¬ IsTime h x) ∨ IsTime h z)

/-- the statement of `readArrX_spec` for a given amount of fuel -/
def ReadArrSpec (h : Heap) (tm : TM) (file : File) (fuel : Nat) : Prop :=
  ∀ (q : Path) (g : Grp) (s : RSt) (ρ : Rho),
    RInvX h tm file ρ s → lookupGrp file.groups q = some g → g.isArr = true → FuelOK h g.src fuel → ρ.lookup g.src = none →
    ∃ n s' ρ', readArrX file fuel g s = .ok (n, s') ∧ RInvX h tm file ρ' s' ∧ Ext ρ ρ' ∧ ρ'.lookup g.src = some n ∧
      (∀ z, ρ'.lookup z ≠ none → ρ.lookup z ≠ none ∨ z = g.src ∨ Under h g.src z)

/-- one attribute of an array group: the reference by name or the embedded group is resolved through the memo or read -/
theorem readSlot_spec (h : Heap) (tm : TM) (file : File) (fuel : Nat) (IH : ReadArrSpec h tm file fuel)
    (r : Option Path) (fn : Path) (subs : List (String × Grp)) (nm : String) (x : Option Nat) (self : Nat)
    (hsf : SlotF file r fn subs nm x)
    (hxok : ∀ y, x = some y → Registers h y ∧ FuelOK h y fuel ∧ (y < self ∨ IsTime h y))
    (hselfNT : ¬ IsTime h self)
    (s : RSt) (ρ : Rho) (inv : RInvX h tm file ρ s) (hself : ρ.lookup self = none) :
    ∃ r' s1 ρ1, readRef (readArrX file fuel) (slotTarget file r fn subs nm) s = .ok (r', s1) ∧
      RInvX h tm file ρ1 s1 ∧ Ext ρ ρ1 ∧ RefRel ρ1 x r' ∧ ρ1.lookup self = none ∧
      (∀ z, ρ1.lookup z ≠ none → ρ.lookup z ≠ none ∨ Under h self z) := by
  cases x with
  | none =>
    simp only [SlotF] at hsf
    rw [hsf]
    exact ⟨none, s, ρ, rfl, inv, Ext.refl ρ, rfl, hself, fun z hz => Or.inl hz⟩
  | some y =>
    obtain ⟨qy, gy, htg, hly, hay, hsy⟩ := hsf
    obtain ⟨hyreg, hyfuel, hyself⟩ := hxok y rfl
    rw [htg]
    simp only [readRef]
    cases hml : s.memo.lookup qy with
    | some m =>
      obtain ⟨g'', h1, h3⟩ := inv.memo qy m hml
      rw [hly] at h1
      cases h1
      rw [hsy] at h3
      exact ⟨some m, s, ρ, rfl, inv, Ext.refl ρ, ⟨m, rfl, h3⟩, hself, fun z hz => Or.inl hz⟩
    | none =>
      have hyn : ρ.lookup y = none := by
        cases hyl : ρ.lookup y with
        | none => rfl
        | some m =>
          have := inv.reg y m hyl hyreg qy gy hly hay hsy
          rw [hml] at this
          cases this
      obtain ⟨m, s1, ρ1, hrd, inv1, hext1, hlk1, hnew1⟩ := IH qy gy s ρ inv hly hay (by rw [hsy]; exact hyfuel)
        (by rw [hsy]; exact hyn)
      rw [hsy] at hlk1 hnew1
      have hunder : ∀ z, Under h y z → Under h self z := by
        intro z ⟨hz1, hz2⟩
        refine ⟨hz1, ?_⟩
        rcases hz2 with ⟨hz2, hynt⟩ | hz2
        · rcases hyself with hys | hys
          · exact Or.inl ⟨by omega, hselfNT⟩
          · exact absurd hys hynt
        · exact Or.inr hz2
      have hxn1 : ρ1.lookup self = none := by
        cases hxl : ρ1.lookup self with
        | none => rfl
        | some m' =>
          rcases hnew1 self (by rw [hxl]; simp) with h0 | h0 | h0
          · exact absurd hself h0
          · rcases hyself with hys | hys
            · omega
            · exact absurd (h0 ▸ hys) hselfNT
          · rcases (hunder self h0).2 with h1 | h1
            · omega
            · exact absurd h1 hselfNT
      refine ⟨some m, s1.set qy m, ρ1, ?_, inv1.set hly (by rw [hsy]; exact hlk1), hext1, ⟨m, rfl, hlk1⟩, hxn1, ?_⟩
      · simp only [hrd]
      · intro z hz
        rcases hnew1 z hz with h0 | h0 | h0
        · exact Or.inl h0
        · refine Or.inr ⟨h0 ▸ hyreg, ?_⟩
          rcases hyself with hys | hys
          · exact Or.inl ⟨h0 ▸ hys, hselfNT⟩
          · exact Or.inr (h0 ▸ hys)
        · exact Or.inr (hunder z h0)

theorem attrName_none_not_hasOther {k : Kind} (h : attrName k = none) : k.hasOther = false := by
  cases hk : k.hasOther with
  | false => rfl
  | true => simp [attrName, hk] at h

theorem not_isTime_of_attr {h : Heap} {x : Nat} {ob : Obj} {nm : String} (hob : h[x]? = some ob)
    (hat : attrName ob.kind = some nm) : ¬ IsTime h x := by
  rintro ⟨tb, htb, hk⟩
  rw [hob] at htb
  cases htb
  simp [attrName, hk, Kind.hasOther, Kind.isDelta] at hat

theorem readArrX_spec (h : Heap) (tm : TM) (file : File) (hh : HeapWFX h tm) (fo : FileOKX h tm file) :
    ∀ (fuel : Nat), ReadArrSpec h tm file fuel
  | 0 => by
    intro q g s ρ _ _ _ hf _
    rcases hf with ⟨_, _, _, hf⟩ | hf <;> omega
  | fuel + 1 => by
    intro q g s ρ inv hl ha hf hx
    have IH := readArrX_spec h tm file hh fo fuel
    obtain ⟨a, ob, subs, rfl, hob, hfn, hcase⟩ := fo.node q _ hl ha
    simp only [Grp.src_mk] at hf hx ⊢
    cases hat : attrName ob.kind with
    | none =>
      have hrn : ob.ref = none := ref_none_of_attrName_none hat
      have htn : tmE h tm a.src = none := by simp [tmE, hob, attrName_none_not_hasOther hat]
      have hinv := RInvX.alloc (s' := if ob.kind == .time || ob.kind == .timeDelta
          then ((allocX s ob.strip none).2).set a.fieldname s.heap.length else (allocX s ob.strip none).2)
        fo inv hx hob (r' := none) (t' := none) (by rw [hrn]; rfl) (by rw [htn]; rfl) hl ha rfl
        (by rw [strip_withRef_none]; split <;> rfl)
        (by split <;> rfl)
        (by rw [hfn]; split <;> simp [RSt.set, allocX])
        (by
          intro hr
          rw [registers_plain hat] at hr
          rw [hfn]; simp [hr, RSt.set, allocX])
      refine ⟨s.heap.length, _, (a.src, s.heap.length) :: ρ, ?_, hinv, Ext.cons _ hx, ?_, ?_⟩
      · simp only [readArrX, strip_kind, hat, allocX]
        rfl
      · rw [lookup_cons_ite]; simp
      · intro z hz
        rw [lookup_cons_ite] at hz
        by_cases hzx : z = a.src
        · exact Or.inr (Or.inl hzx)
        · simp only [hzx, if_false] at hz; exact Or.inl hz
    | some nm =>
      rw [hat] at hcase
      obtain ⟨hsf1, hsf2⟩ := hcase
      have hselfNT : ¬ IsTime h a.src := not_isTime_of_attr hob hat
      have hfu : a.src + 2 ≤ fuel + 1 := by
        rcases hf with ⟨ob', hob', hn, _⟩ | hf
        · rw [hob] at hob'; cases hob'; rw [hat] at hn; cases hn
        · exact hf
      -- the attribute of the class
      obtain ⟨r, s1, ρ1, hrr, inv1, hext1, hrel1, hxn1, hnew1⟩ := readSlot_spec h tm file fuel IH a.ref q subs nm ob.ref a.src hsf1
        (by
          intro y hy
          have hylt : y < a.src := hh.wf.below a.src ob y hob hy
          exact ⟨hh.wf.refReg a.src ob y hob hy, Or.inr (by omega), Or.inl hylt⟩)
        hselfNT s ρ inv hx
      -- `time`
      have hslot2 : ∃ t s2 ρ2, readRef (readArrX file fuel) (if ob.strip.kind.hasOther then refTargetT file a subs else none) s1 =
            .ok (t, s2) ∧ RInvX h tm file ρ2 s2 ∧ Ext ρ1 ρ2 ∧ RefRel ρ2 (tmE h tm a.src) t ∧ ρ2.lookup a.src = none ∧
            (∀ z, ρ2.lookup z ≠ none → ρ1.lookup z ≠ none ∨ Under h a.src z) := by
        cases hk : ob.kind.hasOther with
        | false =>
          have htn : tmE h tm a.src = none := by simp [tmE, hob, hk]
          refine ⟨none, s1, ρ1, ?_, inv1, Ext.refl _, by rw [htn]; rfl, hxn1, fun z hz => Or.inl hz⟩
          simp only [strip_kind, hk]
          rfl
        | true =>
          simp only [strip_kind, hk, if_true, refTargetT_eq, hfn]
          exact readSlot_spec h tm file fuel IH a.tref q subs "time" (tmE h tm a.src) a.src hsf2
            (by
              intro y hy
              have hyt := hh.tmOK a.src y hy
              obtain ⟨tb, htb, hkt⟩ := hyt
              exact ⟨IsTime.registers ⟨tb, htb, hkt⟩, Or.inl ⟨tb, htb, by simp [attrName, hkt, Kind.hasOther, Kind.isDelta], by omega⟩,
                Or.inr ⟨tb, htb, hkt⟩⟩)
            hselfNT s1 ρ1 inv1 hxn1
      obtain ⟨t, s2, ρ2, hrt, inv2, hext2, hrel2, hxn2, hnew2⟩ := hslot2
      have hrel1' : RefRel ρ2 ob.ref r := hrel1.mono hext2
      have hdelta : (ob.kind.isDelta && r.isNone) = false := by
        cases hd : ob.kind.isDelta with
        | false => rfl
        | true =>
          have := hh.wf.delta a.src ob hob hd
          cases hro : ob.ref with
          | none => exact absurd hro this
          | some y =>
            rw [hro] at hrel1
            obtain ⟨m, hm, _⟩ := hrel1
            simp [hm]
      have hinv := RInvX.alloc (s' := ((allocX s2 (ob.strip.withRef r) t).2).set a.fieldname s2.heap.length)
        fo inv2 hxn2 hob hrel1' hrel2 hl ha rfl (by simp [RSt.set, allocX]) (by simp [RSt.set, allocX])
        (by rw [hfn]; right; simp [RSt.set, allocX])
        (by intro _; rw [hfn]; simp [RSt.set, allocX])
      refine ⟨s2.heap.length, _, (a.src, s2.heap.length) :: ρ2, ?_, hinv, (hext1.trans hext2).trans (Ext.cons _ hxn2), ?_, ?_⟩
      · simp only [readArrX, strip_kind, hat, refTarget_eq, hfn, hrr]
        simp only [strip_kind] at hrt
        simp only [hrt, hdelta, allocX]
        simp
      · rw [lookup_cons_ite]; simp
      · intro z hz
        rw [lookup_cons_ite] at hz
        by_cases hzx : z = a.src
        · exact Or.inr (Or.inl hzx)
        · simp only [hzx, if_false] at hz
          rcases hnew2 z hz with h0 | h0
          · rcases hnew1 z h0 with h1 | h1
            · exact Or.inl h1
            · exact Or.inr (Or.inr h1)
          · exact Or.inr (Or.inr h0)

end Midgard.H5
