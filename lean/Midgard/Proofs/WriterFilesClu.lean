/-
C17 — Bernese CLU: the file the writer produces is read back by parsers/bernese_clu.py (helper of Props/C17).  The
cluster cell (`{cluster:16}`, always 1) straddles the parser's `domes` and `cluster` columns: the line is cut by hand.
-/
import Midgard.Proofs.WriterFiles

namespace Midgard.WriterFiles
open Midgard.Text Midgard.Decimal Midgard.FixedCol Midgard.WriterCells Midgard.Writers
open Midgard.Generated.WriterLayouts

/-! ### Bernese CLU -/

def cluRecord (k : Str) : List FieldVal := [.u (upper k), .u [], .f8 (some 1)]

theorem clu_row_is : rowOf "bernese_clu" =
    [.fld "station" ⟨none, 4, none, .any⟩, .lit " ", .fld "cluster" ⟨none, 16, none, .any⟩, .lit "\n"] := by
  decide +kernel

theorem tail16_plain : ∀ c ∈ "                1".toList, c ≠ '#' ∧ c ≠ '\n' ∧ c ≠ '\r' := by decide +kernel

theorem clu_line (k : Str) (h : cluKeyOk k = true) :
    ∃ body, renderNamed (rowOf "bernese_clu") [("station", .str (upper k)), ("cluster", .int 1)] = some (body ++ ['\n']) ∧
      (∀ c ∈ body, c ≠ '\n') ∧ (∀ c ∈ body, c ≠ '\r') ∧
      gftRow cluSpec (body ++ ['\n']) = some [upper k, [], ['1']] := by
  simp only [cluKeyOk, Bool.and_eq_true, decide_eq_true_eq, List.all_eq_true] at h
  obtain ⟨⟨⟨hlen, hclean⟩, hplain⟩, _⟩ := h
  have hl4 : (ljust 4 (upper k)).length = 4 := length_ljust hlen
  have hplainc : ∀ c ∈ ljust 4 (upper k), c ≠ '#' ∧ c ≠ '\n' ∧ c ≠ '\r' := by
    intro c hc
    simp only [ljust, blanks, List.mem_append, List.mem_replicate] at hc
    rcases hc with hc | hc
    · have := hplain c hc
      simp only [plainFor, Bool.and_eq_true, bne_iff_ne, ne_eq] at this
      exact ⟨this.1.1, this.1.2, this.2⟩
    · rw [hc.2]; decide
  have hbody : ∀ c ∈ ljust 4 (upper k) ++ "                1".toList, c ≠ '#' ∧ c ≠ '\n' ∧ c ≠ '\r' := by
    intro c hc
    rcases List.mem_append.mp hc with h | h
    · exact hplainc c h
    · exact tail16_plain c h
  refine ⟨ljust 4 (upper k) ++ "                1".toList, ?_, fun c hc => (hbody c hc).2.1, fun c hc => (hbody c hc).2.2, ?_⟩
  · rw [clu_row_is]
    simp [renderNamed, List.lookup, Value.okFor, fmtValue, Value.text, Value.defaultAlign, pad]
    decide +kernel
  · have hcm : cluSpec.comment = '#' := by decide +kernel
    have hwd : cluSpec.widths = [4, 10, 7] := by decide +kernel
    have hau : cluSpec.autostrip = true := by decide +kernel
    have hnc : ∀ c ∈ ljust 4 (upper k) ++ "                1".toList ++ ['\n'], (decide (c ≠ cluSpec.comment)) = true := by
      rw [hcm]
      intro c hc
      rcases List.mem_append.mp hc with h | h
      · simpa using (hbody c h).1
      · simp at h; subst h; decide
    unfold gftRow
    simp only [takeWhile_eq_self _ _ hnc, hau, hwd, if_true]
    rw [if_neg (by simp)]
    simp only [cutWidths, List.append_assoc, Option.some.injEq, List.map_cons, List.map_nil]
    rw [List.take_left' hl4, List.drop_left' hl4]
    have e1 : strip (List.take 10 ("                1".toList ++ ['\n'])) = [] := by decide +kernel
    have e2 : strip (List.take 7 (List.drop 10 ("                1".toList ++ ['\n']))) = ['1'] := by decide +kernel
    rw [e1, e2, strip_ljust hclean]

theorem mem_insertBy {α} (le : α → α → Bool) (x a : α) : ∀ (l : List α), x ∈ insertBy le a l → x = a ∨ x ∈ l := by
  intro l
  induction l with
  | nil => intro h; simpa [insertBy] using h
  | cons y r ih =>
    intro h
    simp only [insertBy] at h
    split at h
    · simpa using h
    · rcases List.mem_cons.mp h with h | h
      · exact Or.inr (by simp [h])
      · rcases ih h with h | h
        · exact Or.inl h
        · exact Or.inr (by simp [h])

theorem mem_sortBy {α} (le : α → α → Bool) (x : α) : ∀ (l : List α), x ∈ sortBy le l → x ∈ l := by
  intro l
  induction l with
  | nil => intro h; simp [sortBy] at h
  | cons a r ih =>
    intro h
    have h' : x ∈ insertBy le a (sortBy le r) := by simpa [sortBy] using h
    rcases mem_insertBy le x a _ h' with h | h
    · simp [h]
    · simp [ih h]

theorem clu_convert (k : Str) (h : cluKeyOk k = true) : convertRow cluSpec.dtypes [upper k, [], ['1']] = cluRecord k := by
  simp only [cluKeyOk, Bool.and_eq_true, decide_eq_true_eq] at h
  have hd : cluSpec.dtypes = [.u 4, .u 9, .f8] := by decide +kernel
  have h1 : parseFloat ['1'] = some 1 := by decide +kernel
  rw [hd]
  simp [convertRow, convert, cluRecord, List.take_of_length_le h.1.1.1, h1]

theorem clu_file_roundtrip_aux (texts : List Str) (keys : List Str) (h : cluInRange texts keys = true) :
    ∃ file, cluFile texts keys = some file ∧ cluParse file = (sortBy strLe keys).map cluRecord := by
  simp only [cluInRange, Bool.and_eq_true, List.all_eq_true] at h
  obtain ⟨hh, hk⟩ := h
  cases hht : headerText "bernese_clu" texts with
  | none => simp [hht] at hh
  | some hdr =>
    rw [hht] at hh
    have hk' : ∀ k ∈ sortBy strLe keys, cluKeyOk k = true := fun k hks => hk k (mem_sortBy _ _ _ hks)
    obtain ⟨lines, hl, hp⟩ := gft_file_of cluSpec
      (fun k => renderNamed (rowOf "bernese_clu") [("station", .str (upper k)), ("cluster", .int 1)])
      (fun k => [upper k, [], ['1']]) hdr hh (sortBy strLe keys) (fun k hks => clu_line k (hk' k hks))
    have hbody : cluBody keys = some lines := hl
    refine ⟨hdr ++ lines.flatten, by simp [cluFile, fileOf, hht, hbody], ?_⟩
    unfold cluParse
    rw [hp]
    have hrec : (sortBy strLe keys).map (fun k => convertRow cluSpec.dtypes [upper k, [], ['1']]) =
        (sortBy strLe keys).map cluRecord :=
      List.map_congr_left fun k hks => clu_convert k (hk' k hks)
    rw [hrec]
    unfold dropBlankStations
    rw [List.filter_eq_self]
    intro r hr
    obtain ⟨k, hks, rfl⟩ := List.mem_map.mp hr
    have := hk' k hks
    simp only [cluKeyOk, Bool.and_eq_true, Bool.not_eq_true', List.isEmpty_eq_false_iff] at this
    have hi : cluSpec.names.idxOf "station" = 0 := by decide +kernel
    rw [hi]
    simp [cluRecord, this.2]

end Midgard.WriterFiles
