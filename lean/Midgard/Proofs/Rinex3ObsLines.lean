/-
C11 file level, part 1: what one rendered line of a RINEX 3 observation file (`Spec/Rinex3ObsFile.lean`) does to
the parser model — header records (label found, fields cut, the registered handler called with the cells), the
`END OF HEADER` line, the epoch record, an observation record (label heuristics, the two fields, `_float` of the
16-character columns).  Core Lean only.
-/
import Midgard.Spec.Rinex3ObsFile
import Midgard.Proofs.Rinex3ObsRecords
import Midgard.Proofs.Rinex3ObsLemmas
import Midgard.Proofs.NumText

namespace Midgard.Spec.Rinex3ObsFile
open Midgard.Text Midgard.FixedCol Midgard.Decimal Midgard.ChainParser Midgard.RinexObs Midgard.Rinex3Obs
open Midgard.Spec.Rinex (RecSpec headerSpecs renderLabelled renderCells findKind epoch3 obs3 padTo obsLayout obsAligns)
open Midgard.RinexObs.Records (specOk specs_ok header_record_roundtrip)
open Midgard.Spec.NumText

theorem map_pair_zip {α β γ} (l : List α) (f : α → β) (g : α → γ) :
    l.map (fun a => (f a, g a)) = (l.map f).zip (l.map g) := by
  induction l with
  | nil => rfl
  | cons a l ih => simp [ih]

theorem rstrip_styled (st : Style) (l : Str) : rstrip (styled st l) = rstrip l := by
  cases st
  · rfl
  · exact rstrip_idem l
  · exact rstrip_append_isBlank (isBlank_blanks _)

/-- a header record whose label the parser knows and cuts with the standard's columns: the registered
handler is called with the cells -/
theorem hdr_parsed_line (sp : RecSpec) (hsp : sp ∈ headerSpecs) (d : LabelDef)
    (hd : Midgard.Generated.Rinex3ObsCols.header.find? (·.label == sp.label) = some d)
    (hfl : d.fields = sp.layout) (hop : d.openFields = []) (hst : d.strip = .whitespace)
    (cells : List Str) (hlen : cells.length = sp.layout.length) (hf : Fits sp.layout (sp.aligns.zip cells) = true)
    (n : Nat) (s : State) :
    parseLine headerParser (rstrip (renderLabelled sp cells)) n s =
      handle d.handler ((sp.layout.map (·.name)).zip cells) s := by
  unfold parseLine
  have h1 : headerParser.skipLine (rstrip (renderLabelled sp cells)) = false := rfl
  rw [h1]
  simp only [Bool.false_eq_true, if_false]
  have hrt := header_record_roundtrip sp hsp cells hlen hf
  have h2 : headerParser.label (rstrip (rstrip (renderLabelled sp cells))) n = sp.label := by
    rw [rstrip_idem]; exact hrt.2
  rw [h2]
  have h3 : headerParser.defs = Midgard.Generated.Rinex3ObsCols.header := rfl
  rw [h3, hd]
  simp only
  have hv : d.values (rstrip (renderLabelled sp cells)) = (sp.layout.map (·.name)).zip cells := by
    unfold LabelDef.values
    rw [hop, hst, hfl]
    simp only [List.map_nil, List.append_nil, StripOpt.apply]
    have := map_pair_zip sp.layout (·.name) (fun f => FixedCol.slice f (rstrip (renderLabelled sp cells)))
    simp only [FixedCol.slice] at this hrt
    rw [this, hrt.1]
  rw [hv]
  rfl

/-- kinds whose lines the header parser cuts with the standard's own columns -/
def lineKinds : List (String × String) :=
  ("MNAME", "_parse_string") :: ("SYSOBS", "_parse_sys_obs_types") :: plainKinds.filter (·.1 != "VER3")

def lineOk (kh : String × String) : Bool :=
  match findKind kh.1 with
  | some sp =>
    (match Midgard.Generated.Rinex3ObsCols.header.find? (·.label == sp.label) with
     | some d => d.fields == sp.layout && d.openFields.isEmpty && d.strip == .whitespace && d.handler == kh.2 &&
        handlerOf kh.1 == kh.2 && sp.label.toList.take 13 != "END OF HEADER".toList
     | none => false)
  | none => false

theorem line_table : lineKinds.all lineOk = true := by decide +kernel

theorem findKind_mem {k : String} {sp : RecSpec} (h : findKind k = some sp) : sp ∈ headerSpecs :=
  List.mem_of_find?_eq_some h

theorem spec_eq {k : String} {sp : RecSpec} (h : findKind k = some sp) : spec k = sp := by
  simp [spec, h]

/-- the effect of a rendered header record of one of the `lineKinds` -/
theorem rec_parsed (k h : String) (hmem : (k, h) ∈ lineKinds) (cells : List Str) (hok : okCells k cells = true)
    (n : Nat) (s : State) :
    parseLine headerParser (rstrip (rec k cells)) n s = handle (handlerOf k) ((names k).zip cells) s := by
  have hok' := List.all_eq_true.mp line_table (k, h) hmem
  unfold lineOk at hok'
  simp only at hok'
  simp only [okCells, Bool.and_eq_true, decide_eq_true_eq] at hok
  obtain ⟨⟨hlen, hf⟩, _⟩ := hok
  cases hk : findKind k with
  | none => simp [hk] at hok'
  | some sp =>
    simp only [hk] at hok'
    cases hd : Midgard.Generated.Rinex3ObsCols.header.find? (·.label == sp.label) with
    | none => simp [hd] at hok'
    | some d =>
      simp only [hd, Bool.and_eq_true, beq_iff_eq, List.isEmpty_iff] at hok'
      obtain ⟨⟨⟨⟨⟨hfl, hop⟩, hst⟩, hh⟩, hh2⟩, _⟩ := hok'
      have hs := spec_eq hk
      unfold rec names
      rw [hs] at hlen hf ⊢
      rw [hdr_parsed_line sp (findKind_mem hk) d hd hfl hop hst cells hlen hf n s, hh, hh2]

theorem slice_label (sp : RecSpec) (hsp : sp ∈ headerSpecs) (cells : List Str)
    (hf : Fits sp.layout (sp.aligns.zip cells) = true) (w : Nat) :
    Text.slice 60 (60 + w) (rstrip (renderLabelled sp cells)) = sp.label.toList.take w := by
  have hok := List.all_eq_true.mp specs_ok sp hsp
  simp only [specOk, Bool.and_eq_true, decide_eq_true_eq, Bool.not_eq_eq_eq_not, Bool.not_true] at hok
  obtain ⟨⟨⟨⟨hs, hw⟩, _⟩, hc⟩, hne⟩ := hok
  have hne' : sp.label.toList ≠ [] := by
    intro h; rw [h] at hne; simp at hne
  unfold renderLabelled Spec.Rinex.renderCells
  rw [labelled_rstrip _ _ _ hc hne']
  have hlen60 : (ljust 60 (renderA sp.layout (sp.aligns.zip cells))).length = 60 :=
    length_ljust (renderA_length_le hs hf hw)
  rw [slice_append_right (by omega)]
  simp [hlen60, Text.slice]

theorem rec_not_end (k h : String) (hmem : (k, h) ∈ lineKinds) (cells : List Str) (hok : okCells k cells = true)
    (n : Nat) (nx : Str) : headerParser.endMarker (rstrip (rec k cells)) n nx = false := by
  have hok' := List.all_eq_true.mp line_table (k, h) hmem
  unfold lineOk at hok'
  simp only at hok'
  simp only [okCells, Bool.and_eq_true, decide_eq_true_eq] at hok
  obtain ⟨⟨hlen, hf⟩, _⟩ := hok
  cases hk : findKind k with
  | none => simp [hk] at hok'
  | some sp =>
    simp only [hk] at hok'
    cases hd : Midgard.Generated.Rinex3ObsCols.header.find? (·.label == sp.label) with
    | none => simp [hd] at hok'
    | some d =>
      simp only [hd, Bool.and_eq_true, bne_iff_ne] at hok'
      have hne := hok'.2
      have hs := spec_eq hk
      unfold rec
      rw [hs] at hf ⊢
      show decide (Text.slice 60 73 (rstrip (renderLabelled sp cells)) = "END OF HEADER".toList) = false
      rw [show (73 : Nat) = 60 + 13 from rfl, slice_label sp (findKind_mem hk) cells hf 13]
      exact decide_eq_false hne


def ver3Spec : RecSpec :=
  ⟨"VER3", "RINEX VERSION / TYPE", [⟨"version", 0, 9⟩, ⟨"file_type", 20, 21⟩, ⟨"sat_sys", 40, 41⟩], [Spec.Rinex.R, Spec.Rinex.L, Spec.Rinex.L]⟩

theorem ver3_spec : spec "VER3" = ver3Spec := by decide +kernel

theorem ver3_mem : ver3Spec ∈ headerSpecs := by decide +kernel

theorem ver3_def : Midgard.Generated.Rinex3ObsCols.header.find? (·.label == "RINEX VERSION / TYPE") =
    some ⟨"RINEX VERSION / TYPE", "_parse_string", .whitespace,
      [⟨"version", 0, 20⟩, ⟨"file_type", 20, 21⟩, ⟨"sat_sys", 40, 41⟩], []⟩ := by decide +kernel

theorem ver3_parsed (cells : List Str) (hok : okCells "VER3" cells = true) (n : Nat) (s : State) :
    parseLine headerParser (rstrip (rec "VER3" cells)) n s = handle (handlerOf "VER3") ((names "VER3").zip cells) s := by
  simp only [okCells, Bool.and_eq_true, decide_eq_true_eq] at hok
  obtain ⟨⟨hlen, hf⟩, _⟩ := hok
  unfold rec names
  rw [ver3_spec] at hlen hf ⊢
  have hrt := header_record_roundtrip ver3Spec ver3_mem cells hlen hf
  match cells, hlen with
  | [v, t, sy], _ =>
  simp only [ver3Spec, Fits, Field.width, Bool.and_eq_true, decide_eq_true_eq, List.zip_cons_cons, Spec.Rinex.R, Spec.Rinex.L] at hf
  obtain ⟨⟨hv9, hvc⟩, _⟩ := hf
  have hv9 : v.length ≤ 9 := by simpa using of_decide_eq_true hv9
  unfold parseLine
  have h1 : headerParser.skipLine (rstrip (renderLabelled ver3Spec [v, t, sy])) = false := rfl
  rw [h1]
  simp only [Bool.false_eq_true, if_false]
  have h2 : headerParser.label (rstrip (rstrip (renderLabelled ver3Spec [v, t, sy]))) n = "RINEX VERSION / TYPE" := by
    rw [rstrip_idem]; exact hrt.2
  rw [h2]
  have h3 : headerParser.defs = Midgard.Generated.Rinex3ObsCols.header := rfl
  rw [h3, ver3_def]
  simp only
  -- the version field with the eleven blank columns after it
  have hver : FixedCol.slice ⟨"version", 0, 20⟩ (rstrip (renderLabelled ver3Spec [v, t, sy])) = v := by
    rw [slice_rstrip]
    unfold FixedCol.slice sliceRaw renderLabelled Spec.Rinex.renderCells
    have hr : renderA ver3Spec.layout (ver3Spec.aligns.zip [v, t, sy]) =
        [] ++ (rjust 9 v ++ blanks 11) ++ (ljust 1 t ++ (blanks 19 ++ ljust 1 sy)) := by
      simp [ver3Spec, renderA, renderFrom, pad, Field.width, Spec.Rinex.R, Spec.Rinex.L, blanks, List.append_assoc]
    rw [hr]
    simp only [ljust, List.append_assoc]
    have := @slice_cell [] (rjust 9 v ++ blanks 11)
      (ljust 1 t ++ (blanks 19 ++ ljust 1 sy) ++ blanks (60 - ([] ++ (rjust 9 v ++ blanks 11) ++ (ljust 1 t ++ (blanks 19 ++ ljust 1 sy))).length) ++ ver3Spec.label.toList)
      0 20 rfl (by simp [length_rjust hv9, blanks])
    simp only [ljust, List.append_assoc, List.nil_append] at this ⊢
    rw [this]
    unfold rjust
    exact strip_pad hvc (isBlank_blanks _) (isBlank_blanks _)
  have hfields : [FixedCol.slice ⟨"version", 0, 9⟩ (rstrip (renderLabelled ver3Spec [v, t, sy])),
      FixedCol.slice ⟨"file_type", 20, 21⟩ (rstrip (renderLabelled ver3Spec [v, t, sy])),
      FixedCol.slice ⟨"sat_sys", 40, 41⟩ (rstrip (renderLabelled ver3Spec [v, t, sy]))] = [v, t, sy] := hrt.1
  generalize rstrip (renderLabelled ver3Spec [v, t, sy]) = line at hfields hver ⊢
  simp only [List.cons.injEq, and_true] at hfields
  obtain ⟨_, ht, hsy⟩ := hfields
  simp only [LabelDef.values, List.map_cons, List.map_nil, List.append_nil, StripOpt.apply]
  simp only [FixedCol.slice] at hver ht hsy
  rw [hver, ht, hsy]
  rfl

theorem eoh_parsed (n : Nat) (s : State) : parseLine headerParser (rstrip eohLine) n s = .ok s := by
  unfold parseLine
  have h1 : headerParser.skipLine (rstrip eohLine) = false := rfl
  have h2 : headerParser.label (rstrip (rstrip eohLine)) n = "END OF HEADER" := by
    show asString (strip (sliceFrom 60 (rstrip (rstrip eohLine)))) = "END OF HEADER"
    decide +kernel
  have h3 : headerParser.defs.find? (·.label == "END OF HEADER") = none := by decide +kernel
  rw [h1, h2, h3]
  rfl

theorem eoh_end (n : Nat) (nx : Str) : headerParser.endMarker (rstrip eohLine) n nx = true := by
  show decide (Text.slice 60 73 (rstrip eohLine) = "END OF HEADER".toList) = true
  decide +kernel


/-! ### number cells -/

theorem numChar_not_space {c : Char} (h : numChar c = true) : isSpace c = false := by
  simp only [numChar, Bool.or_eq_true, beq_iff_eq] at h
  rcases h with ((h | h) | h) | h
  · exact isSpace_of_isDigit h
  · subst h; decide
  · subst h; decide
  · subst h; decide

theorem numText_clean {s : Str} (h : numText s = true) : Clean s = true := by
  have hall : ∀ c ∈ s, isSpace c = false := fun c hc => numChar_not_space (List.all_eq_true.mp h c hc)
  cases s with
  | nil => rfl
  | cons c r =>
    simp only [Clean, Bool.and_eq_true, Bool.not_eq_eq_eq_not, Bool.not_true]
    refine ⟨hall c (by simp), ?_⟩
    cases hl : (c :: r).getLast? with
    | none => simp at hl
    | some z => exact hall z (List.mem_of_getLast? hl)

theorem digits_clean {s : Str} (h : allDigits s = true) : Clean s = true := by
  apply numText_clean
  simp only [numText, List.all_eq_true]
  intro c hc
  simp [numChar, mem_allDigits h hc]

theorem floatOpt_cell {w : Nat} {c : Cell} (h : c.wf w = true) : floatOpt c.text = .ok c.val := by
  simp only [Cell.wf, Bool.and_eq_true, decide_eq_true_eq] at h
  obtain ⟨⟨hn, _⟩, hv⟩ := h
  cases ht : c.text with
  | nil =>
    rw [ht] at hv
    simp only [List.isEmpty_nil, if_true, beq_iff_eq] at hv
    simp [floatOpt, isBlank, hv, pure, Except.pure]
  | cons ch r =>
    rw [ht] at hv hn
    have hs : isSpace ch = false := numChar_not_space (List.all_eq_true.mp hn ch (by simp))
    have hb : isBlank (ch :: r) = false := by simp [isBlank, hs]
    simp only [List.isEmpty_cons, Bool.false_eq_true, if_false] at hv
    unfold floatOpt
    rw [hb]
    cases hp : parseFloat (ch :: r) with
    | none => simp [hp] at hv
    | some q =>
      simp only [hp, beq_iff_eq] at hv
      simp [hv, pure, Except.pure]

theorem cell_fits {w : Nat} {c : Cell} (h : c.wf w = true) : c.text.length ≤ w ∧ Clean c.text = true := by
  simp only [Cell.wf, Bool.and_eq_true, decide_eq_true_eq] at h
  exact ⟨h.1.2, numText_clean h.1.1⟩

theorem intCell_facts {w : Nat} {c : IntCell} (h : c.wf w = true) :
    c.text.length ≤ w ∧ Clean c.text = true ∧ isNumeric c.text = true ∧ pyInt c.text = .ok c.val := by
  simp only [IntCell.wf, Bool.and_eq_true, decide_eq_true_eq, beq_iff_eq, Bool.not_eq_eq_eq_not, Bool.not_true] at h
  obtain ⟨⟨⟨hne, hd⟩, hl⟩, hp⟩ := h
  refine ⟨hl, digits_clean hd, ?_, ?_⟩
  · simp only [isNumeric, Bool.and_eq_true, Bool.not_eq_eq_eq_not, Bool.not_true]
    exact ⟨hne, hd⟩
  · simp [pyInt, hp, req]; rfl

theorem numCell_facts {w : Nat} {c : NumCell} (h : c.wf w = true) :
    c.text.length ≤ w ∧ Clean c.text = true ∧ pyFloat c.text = .ok c.val := by
  simp only [NumCell.wf, Bool.and_eq_true, decide_eq_true_eq, beq_iff_eq] at h
  obtain ⟨⟨⟨_, hn⟩, hl⟩, hp⟩ := h
  exact ⟨hl, numText_clean hn, by simp [pyFloat, hp, req]; rfl⟩

/-! ### the epoch line -/

theorem epoch_def : Midgard.Generated.Rinex3ObsCols.records.find? (·.label == "False") =
    some ⟨"False", "_parse_observation_epoch", .whitespace,
      [⟨"year", 2, 6⟩, ⟨"month", 7, 9⟩, ⟨"day", 10, 12⟩, ⟨"hour", 13, 15⟩, ⟨"minute", 16, 18⟩, ⟨"second", 18, 29⟩,
       ⟨"epoch_flag", 31, 32⟩, ⟨"num_sat", 32, 35⟩, ⟨"rcv_clk_offset", 41, 56⟩, ⟨"comment", 60, 80⟩], []⟩ := by
  decide +kernel

theorem length_rstrip_le (s : Str) : (rstrip s).length ≤ s.length := by
  obtain ⟨ws, h, _⟩ := rstrip_decomp s
  have := congrArg List.length h
  simp at this; omega

theorem epoch_fits (hdr : List HdrRec) (e : Epoch) (h : e.wf hdr = true) :
    Fits epoch3.layout (epoch3.aligns.zip (epochCells e)) = true := by
  simp only [Epoch.wf, Bool.and_eq_true, decide_eq_true_eq] at h
  obtain ⟨⟨⟨⟨⟨⟨⟨⟨⟨⟨⟨_, hy⟩, hmo⟩, hd⟩, hh⟩, hmi⟩, hs⟩, hf⟩, hns⟩, hnl⟩, hc⟩, _⟩ := h
  have y := intCell_facts hy
  have mo := intCell_facts hmo
  have d := intCell_facts hd
  have hh' := intCell_facts hh
  have mi := intCell_facts hmi
  have s := numCell_facts hs
  have f := intCell_facts hf
  have c := cell_fits hc
  have hgt : Clean ['>'] = true := by decide
  simp [epoch3, epochCells, Fits, Field.width, Spec.Rinex.L, Spec.Rinex.R, hgt, y.1, y.2.1, mo.1, mo.2.1, d.1, d.2.1,
    hh'.1, hh'.2.1, mi.1, mi.2.1, s.1, s.2.1, f.1, f.2.1, hnl, numText_clean hns, c.1, c.2]

theorem epochLine_head (e : Epoch) : ∃ t, epochLine e = '>' :: t := ⟨_, rfl⟩

theorem obsLabel_gt (t : Str) : obsLabel ('>' :: t) = "False" := by
  simp [obsLabel, alphaAt, Text.slice, startsWith]

/-- **the epoch record sets the epoch of the group**: time string, seconds of day (absent when the sampling
rate decimates the epoch), flag and receiver clock offset as printed -/
theorem epoch_line (hdr : List HdrRec) (e : Epoch) (h : e.wf hdr = true) (n : Nat) (s : State) :
    parseLine obsParser (rstrip (epochLine e)) n s =
      .ok { s with cache := { s.cache with epoch := some (info s.rate e) } } := by
  have hfit := epoch_fits hdr e h
  have hsorted : Sorted epoch3.layout = true := by decide +kernel
  have hall := slice_renderA_rstrip epoch3.layout (epoch3.aligns.zip (epochCells e)) hsorted hfit
  have hal : epoch3.aligns.length = (epochCells e).length := rfl
  rw [Records.zip_snd _ _ hal] at hall
  have hlen : (rstrip (epochLine e)).length ≤ 56 := by
    have h1 := length_rstrip_le (epochLine e)
    have h2 : (epochLine e).length ≤ 56 := renderA_length_le hsorted hfit (by decide +kernel)
    omega
  obtain ⟨t, ht⟩ := epochLine_head e
  have hlab : obsLabel (rstrip (rstrip (epochLine e))) = "False" := by
    rw [rstrip_idem, ht, rstrip_cons _ (by decide)]
    exact obsLabel_gt _
  have hcom : FixedCol.slice ⟨"comment", 60, 80⟩ (rstrip (epochLine e)) = [] :=
    slice_short _ _ (by simp; omega)
  change epoch3.layout.map (fun f => FixedCol.slice f (rstrip (epochLine e))) = epochCells e at hall
  generalize rstrip (epochLine e) = line at hall hlab hcom ⊢
  simp only [epoch3, epochCells, List.map_cons, List.map_nil, List.cons.injEq, and_true] at hall
  obtain ⟨_, v1, v2, v3, v4, v5, v6, v7, v8, v9⟩ := hall
  simp only [FixedCol.slice] at v1 v2 v3 v4 v5 v6 v7 v8 v9 hcom
  simp only [Epoch.wf, Bool.and_eq_true, decide_eq_true_eq] at h
  obtain ⟨⟨⟨⟨⟨⟨⟨⟨⟨⟨⟨_, hy⟩, hmo⟩, hd⟩, hh⟩, hmi⟩, hs⟩, hf⟩, hns⟩, hnl⟩, hc⟩, _⟩ := h
  unfold parseLine
  have h1 : obsParser.skipLine line = false := rfl
  have h2 : obsParser.label (rstrip line) n = "False" := hlab
  have h3 : obsParser.defs = Midgard.Generated.Rinex3ObsCols.records := rfl
  rw [h1, h2, h3, epoch_def]
  simp only [Bool.false_eq_true, if_false, LabelDef.values, List.map_cons, List.map_nil, List.append_nil, StripOpt.apply,
    v1, v2, v3, v4, v5, v6, v7, v8, v9, hcom]
  show handle "_parse_observation_epoch" _ s = _
  simp only [handle, String.reduceEq, if_false, if_true]
  simp only [parseObservationEpoch, getv, Values.get, List.find?, String.reduceBEq, Option.map_some, req, pure, Except.pure, bind,
    Except.bind, (intCell_facts hy).2.2.1, (intCell_facts hy).2.2.2, (intCell_facts hmo).2.2.2, (intCell_facts hd).2.2.2,
    (intCell_facts hh).2.2.2, (intCell_facts hmi).2.2.2, (numCell_facts hs).2.2, (intCell_facts hf).2.2.2, floatOpt_cell hc,
    Bool.not_true, Bool.false_eq_true, if_false, ne_eq, not_true_eq_false]
  congr 3
  simp only [info, kept, obsSec, EpochInfo.mk.injEq, true_and, and_true]
  cases s.rate with
  | none => simp
  | some r =>
    by_cases hr : r = 0
    · simp [hr]
    · by_cases ho : offGrid ((e.hour.val : Rat) * 3600 + (e.minute.val : Rat) * 60 + e.second.val) r = true
      · simp [hr, ho]
      · simp [hr, ho]


/-! ### characters -/

theorem isAlpha_of_isDigit {c : Char} (h : isDigit c = true) : c.isAlpha = false := by
  simp only [isDigit, Bool.and_eq_true, decide_eq_true_eq] at h
  have h1 : (48 : UInt32) ≤ c.val := by
    have := h.1; rw [Char.le_def] at this; simpa using this
  have h2 : c.val ≤ (57 : UInt32) := by
    have := h.2; rw [Char.le_def] at this; simpa using this
  rw [UInt32.le_iff_toNat_le] at h1 h2
  simp only [Char.isAlpha, Char.isUpper, Char.isLower, Bool.or_eq_false_iff, Bool.and_eq_false_iff, decide_eq_false_iff_not, ge_iff_le,
    UInt32.le_iff_toNat_le]
  simp at h1 h2 ⊢
  omega

theorem numChar_not_alpha {c : Char} (h : numChar c = true) : c.isAlpha = false := by
  simp only [numChar, Bool.or_eq_true, beq_iff_eq] at h
  rcases h with ((h | h) | h) | h
  · exact isAlpha_of_isDigit h
  · subst h; decide
  · subst h; decide
  · subst h; decide

theorem alpha_ge {c : Char} (h : c.isAlpha = true) : 65 ≤ c.toNat := by
  simp only [Char.isAlpha, Char.isUpper, Char.isLower, Bool.or_eq_true, Bool.and_eq_true, decide_eq_true_eq, ge_iff_le,
    UInt32.le_iff_toNat_le] at h
  simp at h
  omega

theorem alpha_facts {c : Char} (h : c.isAlpha = true) : isSpace c = false ∧ c ≠ '>' ∧ c ≠ '\n' := by
  have hge := alpha_ge h
  refine ⟨?_, ?_, ?_⟩
  · cases hs : isSpace c with
    | false => rfl
    | true =>
      simp only [isSpace, Bool.or_eq_true, decide_eq_true_eq, Bool.and_eq_true] at hs
      rcases hs with (((((h1 | h1) | h1) | h1) | h1) | h1) | h1
      · subst h1; revert hge; decide
      · subst h1; revert hge; decide
      · subst h1; revert hge; decide
      · subst h1; revert hge; decide
      · omega
      · omega
      · omega
  · rintro rfl; revert hge; decide
  · rintro rfl; revert hge; decide

theorem mem_renderFrom (L : Layout) : ∀ (pos : Nat) (cells : List (Align × Str)) (c : Char),
    c ∈ renderFrom pos L cells → c = ' ' ∨ ∃ cell ∈ cells, c ∈ cell.2 := by
  induction L with
  | nil => intro pos cells c h; cases cells <;> simp [renderFrom] at h
  | cons f L ih =>
    intro pos cells c h
    cases cells with
    | nil => simp [renderFrom] at h
    | cons x cs =>
      obtain ⟨a, v⟩ := x
      simp only [renderFrom, List.mem_append] at h
      rcases h with (h | h) | h
      · left; exact (List.mem_replicate.mp h).2
      · cases a
        · simp only [pad, ljust, List.mem_append] at h
          rcases h with h | h
          · right; exact ⟨(Align.left, v), by simp, h⟩
          · left; exact (List.mem_replicate.mp h).2
        · simp only [pad, rjust, List.mem_append] at h
          rcases h with h | h
          · left; exact (List.mem_replicate.mp h).2
          · right; exact ⟨(Align.right, v), by simp, h⟩
      · rcases ih _ cs c h with h | ⟨cell, hc, hcc⟩
        · left; exact h
        · right; exact ⟨cell, by simp [hc], hcc⟩

theorem mem_slice_drop {c : Char} {a b k : Nat} {l : Str} (h : c ∈ Text.slice a b l) (hk : k ≤ a) : c ∈ l.drop k := by
  unfold Text.slice at h
  have h1 : c ∈ l.drop a := by
    have : (List.take b l).drop a = (l.drop a).take (b - a) := by rw [List.drop_take]
    rw [this] at h
    exact List.mem_of_mem_take h
  have : l.drop a = (l.drop k).drop (a - k) := by rw [List.drop_drop]; congr 1; omega
  rw [this] at h1
  exact List.mem_of_mem_drop h1

theorem stripChars_none (cs : List Char) (s : Str) (h : ∀ c ∈ s, cs.contains c = false) : stripChars cs s = s := by
  have dw : ∀ (t : Str), (∀ c ∈ t, cs.contains c = false) → t.dropWhile (cs.contains ·) = t := by
    intro t ht
    cases t with
    | nil => rfl
    | cons c r =>
      have := ht c (by simp)
      simp only [List.dropWhile_cons, this, Bool.false_eq_true, if_false]
  unfold stripChars
  rw [dw s h, dw s.reverse (fun c hc => h c (List.mem_reverse.mp hc))]
  simp

theorem flatMap_congr' {α β} {l : List α} {f g : α → List β} (h : ∀ a ∈ l, f a = g a) : l.flatMap f = l.flatMap g := by
  induction l with
  | nil => rfl
  | cons a l ih => simp [List.flatMap_cons, h a (by simp), ih (fun b hb => h b (by simp [hb]))]

theorem obsTriples_length (n : Nat) (obs : Str) : (obsTriples n obs).length = n := by
  simp [obsTriples]

theorem mem_rstrip {c : Char} {s : Str} (h : c ∈ rstrip s) : c ∈ s := by
  obtain ⟨ws, hs, _⟩ := rstrip_decomp s
  rw [hs]; exact List.mem_append_left _ h

/-! ### an observation record -/

theorem obs_def : Midgard.Generated.Rinex3ObsCols.records.find? (·.label == "True") =
    some ⟨"True", "_parse_observation", .newline, [⟨"sat", 0, 3⟩], [("obs", 3)]⟩ := by
  decide +kernel

def satBody (r : SatRec) : Str :=
  renderFrom 3 (obsLayout 3 r.obs.length) ((obsAligns r.obs.length).zip (obsCells r))

theorem satLine_eq (r : SatRec) (c d1 d2 : Char) (hs : r.sat = [c, d1, d2]) : satLine r = c :: d1 :: d2 :: satBody r := by
  simp [satLine, satBody, renderCells, obs3, renderA, renderFrom, pad, ljust, blanks, Field.width, hs, Spec.Rinex.L]

theorem obsCells_num (r : SatRec) (h : r.obs.all Obs.wf = true) : ∀ t ∈ obsCells r, numText t = true := by
  intro t ht
  simp only [obsCells, List.mem_flatMap] at ht
  obtain ⟨o, ho, hto⟩ := ht
  have hw := List.all_eq_true.mp h o ho
  simp only [Obs.wf, Cell.wf, Bool.and_eq_true] at hw
  simp only [List.mem_cons, List.not_mem_nil, or_false] at hto
  rcases hto with rfl | rfl | rfl
  · exact hw.1.1.1.1
  · exact hw.1.2.1.1
  · exact hw.2.1.1

theorem satBody_chars (r : SatRec) (h : r.obs.all Obs.wf = true) : ∀ c ∈ satBody r, c = ' ' ∨ numChar c = true := by
  intro c hc
  rcases mem_renderFrom _ _ _ c hc with h1 | ⟨cell, hcell, hcc⟩
  · left; exact h1
  · right
    have : cell.2 ∈ obsCells r := (List.of_mem_zip (by rw [show cell = (cell.1, cell.2) from rfl] at hcell; exact hcell)).2
    exact List.all_eq_true.mp (obsCells_num r h _ this) c hcc

theorem obsCells_length (r : SatRec) : (obsCells r).length = 3 * r.obs.length := by
  unfold obsCells
  induction r.obs with
  | nil => rfl
  | cons o os ih => simp [List.flatMap_cons, ih]; omega

theorem obs_fits (r : SatRec) (c d1 d2 : Char) (hs : r.sat = [c, d1, d2]) (hc : isSpace c = false) (hd2 : isSpace d2 = false)
    (h : r.obs.all Obs.wf = true) :
    Fits (obs3 r.obs.length).layout ((obs3 r.obs.length).aligns.zip (r.sat :: obsCells r)) = true := by
  have hsat : Clean r.sat = true := by rw [hs]; simp [Clean, hc, hd2]
  have hbody : ∀ (k : Nat) (os : List Obs), os.all Obs.wf = true →
      Fits ((List.range' k os.length).flatMap fun j => Spec.Rinex.obsTriple j (3 + 16 * j))
        (((List.range' k os.length).flatMap fun _ => [Spec.Rinex.R, Spec.Rinex.L, Spec.Rinex.L]).zip
          (os.flatMap fun o => [o.value.text, o.lli.text, o.ssi.text])) = true := by
    intro k os
    induction os generalizing k with
    | nil => intro _; rfl
    | cons o os ih =>
      intro hw
      simp only [List.all_cons, Bool.and_eq_true] at hw
      have ho := hw.1
      simp only [Obs.wf, Bool.and_eq_true] at ho
      have v := cell_fits ho.1.1
      have l := cell_fits ho.1.2
      have s := cell_fits ho.2
      simp only [List.length_cons, List.range'_succ, List.flatMap_cons, Spec.Rinex.obsTriple, List.cons_append, List.nil_append,
        List.zip_cons_cons, Fits, Field.width, Bool.and_eq_true, decide_eq_true_eq]
      refine ⟨⟨decide_eq_true (by omega), v.2⟩, ⟨decide_eq_true (by omega), l.2⟩, ⟨decide_eq_true (by omega), s.2⟩, ?_⟩
      exact ih (k + 1) hw.2
  have := hbody 0 r.obs h
  simp only [obs3, obsLayout, obsAligns, List.zip_cons_cons, Fits, Field.width, Bool.and_eq_true, decide_eq_true_eq, hsat, and_true]
  refine ⟨by rw [hs]; simp, ?_⟩
  rw [List.range_eq_range']
  exact this

/-- what an observation record of a kept epoch adds, stated from the record's values -/
def addRecord (types : List Str) (station : Str) (e : EpochInfo) (r : SatRec) (s : State) : Except Err State := do
  let d1 ← appendAll s.data ((types.zip r.obs).map fun to => (to.1, to.2.value.val, to.2.lli.val, to.2.ssi.val))
  let d2 ← appendAll d1 ((s.obstypesAll.filter fun t => !types.contains t).map fun t => (t, none, none, none))
  pure { s with data := d2.appendRow e station (r.sat.take 1) r.sat (Text.slice 1 3 r.sat) }

theorem mapM_triples (F : Str × Str × Str × Str → Except Err (Str × Option Rat × Option Rat × Option Rat))
    (hF : ∀ x, F x = (do
      let val ← floatOpt x.2.1
      let lli ← floatOpt x.2.2.1
      let snr ← floatOpt x.2.2.2
      pure (x.1, val, lli, snr))) :
    ∀ (types : List Str) (trip : List (Str × Str × Str)) (obs : List Obs),
      trip.flatMap (fun t => [floatOpt t.1, floatOpt t.2.1, floatOpt t.2.2]) =
        obs.flatMap (fun o => [.ok o.value.val, .ok o.lli.val, .ok o.ssi.val]) →
      trip.length = obs.length →
      (types.zip trip).mapM F = .ok ((types.zip obs).map fun to => (to.1, to.2.value.val, to.2.lli.val, to.2.ssi.val)) := by
  intro types
  induction types with
  | nil => intro trip obs _ _; rfl
  | cons t ts ih =>
    intro trip obs h hl
    cases trip with
    | nil =>
      cases obs with
      | nil => rfl
      | cons o os => simp at hl
    | cons x xs =>
      cases obs with
      | nil => simp at hl
      | cons o os =>
        simp only [List.flatMap_cons, List.cons_append, List.nil_append, List.cons.injEq] at h
        obtain ⟨h1, h2, h3, h4⟩ := h
        simp only [List.zip_cons_cons, List.mapM_cons, List.map_cons, hF, h1, h2, h3, bind, Except.bind, pure, Except.pure]
        have := ih xs os h4 (by simpa using hl)
        simp only [this]

theorem sat_line (hdr : List HdrRec) (r : SatRec) (hr : r.wf hdr = true) (n : Nat) (s : State) (e : EpochInfo)
    (types : List Str) (m : Str) (he : s.cache.epoch = some e)
    (htypes : s.metaD.get [key "obstypes", r.sat.take 1] = some (.list types)) (hlen : types.length = r.obs.length)
    (hm : s.metaD.get [key "marker_name"] = some (.text m)) :
    parseLine obsParser (rstrip (satLine r)) n s =
      match e.obsSec with
      | none => .ok s
      | some _ => addRecord types (lower m) e r s := by
  simp only [SatRec.wf, Bool.and_eq_true, decide_eq_true_eq] at hr
  obtain ⟨⟨⟨⟨hsat, _⟩, _⟩, h40⟩, hobs⟩ := hr
  match hsm : r.sat, hsat with
  | [c, d1, d2], hsat =>
  simp only [Bool.and_eq_true] at hsat
  obtain ⟨⟨hca, hd1⟩, hd2⟩ := hsat
  obtain ⟨hcs, hcgt, hcnl⟩ := alpha_facts hca
  have hd1s := isSpace_of_isDigit hd1
  have hd2s := isSpace_of_isDigit hd2
  have hline := satLine_eq r c d1 d2 hsm
  have hrs : rstrip (satLine r) = c :: d1 :: d2 :: rstrip (satBody r) := by
    rw [hline, rstrip_cons _ hcs, rstrip_cons _ hd1s, rstrip_cons _ hd2s]
  have hbody := satBody_chars r hobs
  have hbody' : ∀ x ∈ rstrip (satBody r), x = ' ' ∨ numChar x = true := fun x hx => hbody x (mem_rstrip hx)
  -- the label
  have hlab : obsLabel (rstrip (rstrip (satLine r))) = "True" := by
    rw [rstrip_idem, hrs]
    have h60 : alphaAt (c :: d1 :: d2 :: rstrip (satBody r)) 60 = false := by
      unfold alphaAt
      cases hsl : Text.slice 60 (60 + 1) (c :: d1 :: d2 :: rstrip (satBody r)) with
      | nil => rfl
      | cons x rest =>
        cases rest with
        | cons _ _ => rfl
        | nil =>
          have hx : x ∈ (c :: d1 :: d2 :: rstrip (satBody r)).drop 3 := mem_slice_drop (a := 60) (b := 61) (by rw [hsl]; simp) (by omega)
          simp only [List.drop_succ_cons, List.drop_zero] at hx
          rcases hbody' x hx with rfl | hx
          · rfl
          · exact numChar_not_alpha hx
    have h0 : alphaAt (c :: d1 :: d2 :: rstrip (satBody r)) 0 = true := by simp [alphaAt, Text.slice, hca]
    have hgt : startsWith ['>'] (c :: d1 :: d2 :: rstrip (satBody r)) = false := by simp [startsWith, List.isPrefixOf, Ne.symm hcgt]
    simp [obsLabel, h0, h60, hgt]
  -- the two fields
  have hnl : ∀ x ∈ rstrip (satBody r), ['\n'].contains x = false := by
    intro x hx
    rcases hbody' x hx with rfl | hx
    · decide
    · have := numChar_not_space hx
      simp only [List.contains_cons, List.contains_nil, Bool.or_false, beq_eq_false_iff_ne]
      rintro rfl
      revert this; decide
  have hv : (⟨"True", "_parse_observation", .newline, [⟨"sat", 0, 3⟩], [("obs", 3)]⟩ : LabelDef).values (rstrip (satLine r)) =
      [("sat", r.sat), ("obs", sliceFrom 3 (rstrip (satLine r)))] := by
    simp only [LabelDef.values, List.map_cons, List.map_nil, StripOpt.apply, List.cons_append, List.nil_append]
    have h1 : sliceRaw ⟨"sat", 0, 3⟩ (rstrip (satLine r)) = [c, d1, d2] := by
      rw [hrs]; simp [sliceRaw, Text.slice]
    have h2 : sliceFrom 3 (rstrip (satLine r)) = rstrip (satBody r) := by
      rw [hrs]; simp [sliceFrom]
    rw [h1, h2, stripChars_none _ _ hnl, hsm]
    rw [stripChars_none]
    intro x hx
    simp only [List.mem_cons, List.not_mem_nil, or_false] at hx
    simp only [List.contains_cons, List.contains_nil, Bool.or_false, beq_eq_false_iff_ne]
    rcases hx with rfl | rfl | rfl
    · exact hcnl
    · rintro rfl; revert hd1s; decide
    · rintro rfl; revert hd2s; decide
  -- the observation fields
  have hfit := obs_fits r c d1 d2 hsm hcs hd2s hobs
  have hvals := Records.obs_record_values r.obs.length h40 r.sat (obsCells r) (obsCells_length r) hfit
  have hcells : (obsCells r).map floatOpt = r.obs.flatMap (fun o => [.ok o.value.val, .ok o.lli.val, .ok o.ssi.val]) := by
    unfold obsCells
    rw [List.map_flatMap]
    apply flatMap_congr'
    intro o ho
    have hw := List.all_eq_true.mp hobs o ho
    simp only [Obs.wf, Bool.and_eq_true] at hw
    simp [floatOpt_cell hw.1.1, floatOpt_cell hw.1.2, floatOpt_cell hw.2]
  rw [hcells] at hvals
  change (obsTriples r.obs.length (sliceFrom 3 (rstrip (satLine r)))).flatMap _ = _ at hvals
  unfold parseLine
  have h1 : obsParser.skipLine (rstrip (satLine r)) = false := rfl
  have h2 : obsParser.label (rstrip (rstrip (satLine r))) n = "True" := hlab
  have h3 : obsParser.defs = Midgard.Generated.Rinex3ObsCols.records := rfl
  rw [h1, h2, h3, obs_def]
  simp only [Bool.false_eq_true, if_false, hv]
  show handle "_parse_observation" _ s = _
  simp only [handle, String.reduceEq, if_false, if_true]
  unfold parseObservation
  simp only [he, req, bind, Except.bind, pure, Except.pure]
  cases hq : e.obsSec with
  | none => rfl
  | some q =>
    have hsy : ((r.sat.head?).map fun ch => [ch]) = some (r.sat.take 1) := by rw [hsm]; rfl
    simp only [getv, Values.get, List.find?, String.reduceBEq, Option.map_some, req, pure, Except.pure, bind, Except.bind, hsy, htypes,
      hm, beq_self_eq_true]
    have hmap := mapM_triples _ (fun x => rfl) types (obsTriples types.length (sliceFrom 3 (rstrip (satLine r)))) r.obs
      (by rw [hlen]; exact hvals) (by rw [obsTriples_length, hlen])
    simp only [bind, Except.bind, pure, Except.pure] at hmap
    simp only [hmap, addRecord, bind, Except.bind, pure, Except.pure]


/-! ### special records of an event epoch -/

theorem label_len : headerSpecs.all (fun sp => decide (sp.label.toList.length ≤ 20)) = true := by decide +kernel

theorem rec_rstrip (k : String) (sp : RecSpec) (hk : findKind k = some sp) (cells : List Str) : rstrip (rec k cells) = rec k cells := by
  unfold rec
  rw [spec_eq hk]
  have hok := List.all_eq_true.mp specs_ok sp (findKind_mem hk)
  simp only [specOk, Bool.and_eq_true, decide_eq_true_eq, Bool.not_eq_eq_eq_not, Bool.not_true] at hok
  have hne' : sp.label.toList ≠ [] := by
    intro h; have := hok.2; rw [h] at this; simp at this
  unfold renderLabelled renderCells
  exact labelled_rstrip _ _ _ hok.1.2 hne'

/-- **a special record of an event epoch is ignored**: it is no observation line (column 61 holds a letter, or the
first column does not), and `_parse_observation_epoch` rejects it (no numeric year, or text in columns 61–80) -/
theorem special_line (kc : String × List Str) (h : specialOk kc = true) (n : Nat) (s : State) :
    parseLine obsParser (rstrip (rec kc.1 kc.2)) n s = .ok s := by
  simp only [specialOk, Bool.and_eq_true, okCells, decide_eq_true_eq] at h
  obtain ⟨⟨⟨hk, ⟨⟨_, hf⟩, _⟩⟩, hal⟩, _⟩ := h
  obtain ⟨sp, hsp⟩ := Option.isSome_iff_exists.mp hk
  have hs := spec_eq hsp
  have hmem := findKind_mem hsp
  have hrr := rec_rstrip kc.1 sp hsp kc.2
  rw [hrr] at *
  have hrr2 : rstrip (rec kc.1 kc.2) = rec kc.1 kc.2 := rec_rstrip kc.1 sp hsp kc.2
  have hrec : rec kc.1 kc.2 = renderLabelled sp kc.2 := by unfold rec; rw [hs]
  rw [hs] at hf hal
  have hl20 : sp.label.toList.length ≤ 20 := by
    have := List.all_eq_true.mp label_len sp hmem
    simpa using this
  have hcom := slice_label sp hmem kc.2 hf 20
  rw [List.take_of_length_le hl20] at hcom
  have hone := slice_label sp hmem kc.2 hf 1
  have hok := List.all_eq_true.mp specs_ok sp hmem
  simp only [specOk, Bool.and_eq_true, decide_eq_true_eq, Bool.not_eq_eq_eq_not, Bool.not_true] at hok
  have hclean := hok.1.2
  have hne : sp.label.toList ≠ [] := by
    intro e; have := hok.2; rw [e] at this; simp at this
  rw [← hrec, hrr2] at hcom hone
  generalize rec kc.1 kc.2 = line at hcom hone hrr2 hal ⊢
  have hlabF : obsLabel line = "False" := by
    rcases Bool.or_eq_true _ _ |>.mp hal with ha | ha
    · cases hlab : sp.label.toList with
      | nil => exact absurd hlab hne
      | cons c rest =>
        rw [hlab] at ha hone
        have hca : c.isAlpha = true := by simpa using ha
        have h60 : alphaAt line 60 = true := by
          unfold alphaAt
          have : Text.slice 60 (60 + 1) line = [c] := by simpa using hone
          rw [this]; exact hca
        simp [obsLabel, h60]
    · have h0 : alphaAt line 0 = false := by simpa using ha
      simp [obsLabel, h0]
  have hcomv : strip (sliceRaw ⟨"comment", 60, 80⟩ line) = sp.label.toList := by
    show strip (Text.slice 60 80 line) = _
    rw [show (80 : Nat) = 60 + 20 from rfl, hcom]
    exact strip_of_clean hclean
  unfold parseLine
  have h1 : obsParser.skipLine line = false := rfl
  have h2 : obsParser.label (rstrip line) n = "False" := by
    show obsLabel (rstrip line) = "False"
    rw [hrr2]; exact hlabF
  have h3 : obsParser.defs = Midgard.Generated.Rinex3ObsCols.records := rfl
  rw [h1, h2, h3, epoch_def]
  simp only [Bool.false_eq_true, if_false, LabelDef.values, List.map_cons, List.map_nil, List.append_nil, StripOpt.apply, hcomv]
  show handle "_parse_observation_epoch" _ s = _
  simp only [handle, String.reduceEq, if_false, if_true]
  simp only [parseObservationEpoch, getv, Values.get, List.find?, String.reduceBEq, Option.map_some, req, bind, Except.bind,
    pure, Except.pure]
  by_cases hn : isNumeric (strip (sliceRaw ⟨"year", 2, 6⟩ line)) = true
  · simp [hn, hne]
  · simp [hn]

theorem startsWith_append (x y : Str) (hx : x ≠ []) : startsWith ['>'] (x ++ y) = startsWith ['>'] x := by
  cases x with
  | nil => exact absurd rfl hx
  | cons c t => simp [startsWith, List.isPrefixOf]

theorem special_starts (st : Style) (kc : String × List Str) (h : specialOk kc = true) :
    startsWith ['>'] (styled st (rec kc.1 kc.2) ++ ['\n']) = false := by
  simp only [specialOk, Bool.and_eq_true, Bool.not_eq_eq_eq_not, Bool.not_true] at h
  obtain ⟨⟨⟨hk, _⟩, _⟩, hgt⟩ := h
  obtain ⟨sp, hsp⟩ := Option.isSome_iff_exists.mp hk
  have hne : rec kc.1 kc.2 ≠ [] := by
    intro e; rw [e] at hgt
    have := rec_rstrip kc.1 sp hsp kc.2
    unfold rec at e
    rw [spec_eq hsp] at e
    unfold renderLabelled at e
    have hok := List.all_eq_true.mp specs_ok sp (findKind_mem hsp)
    simp only [specOk, Bool.and_eq_true, Bool.not_eq_eq_eq_not, Bool.not_true] at hok
    have : sp.label.toList = [] := (List.append_eq_nil_iff.mp e).2
    rw [this] at hok; simp at hok
  cases st
  · show startsWith ['>'] (rec kc.1 kc.2 ++ ['\n']) = false
    rw [startsWith_append _ _ hne]; exact hgt
  · show startsWith ['>'] (rstrip (rec kc.1 kc.2) ++ ['\n']) = false
    rw [rec_rstrip kc.1 sp hsp, startsWith_append _ _ hne]; exact hgt
  · show startsWith ['>'] (ljust 80 (rec kc.1 kc.2) ++ ['\n']) = false
    unfold ljust
    rw [List.append_assoc, startsWith_append _ _ hne]; exact hgt

end Midgard.Spec.Rinex3ObsFile
