/-
C01 — the regenerated control flow of `_time.py` (`Generated/SourceTimeFlow.lean`: `_find_conversion_hops`, the route and
fold of `to_scale`, the row selection of `_taiutc_idx`) is the hand-written model, for every registry, table, scale pair and
iteration bound.  The proofs follow the generated text: a rewrite of the source that changes the search (queue end, order of
the target / visited tests, what is remembered as visited, neighbour order) changes that text and these proofs stop checking.
-/
import Midgard.Proofs.TimeScale
import Midgard.Generated.SourceTimeFlow
import Mathlib.Tactic.NormNum

set_option linter.unusedSimpArgs false

namespace Midgard.TimeScale
open Midgard.TimeArith (JD Scale)
open Midgard.TimeScale.Flow
open Midgard.Generated

/-! ### The route search -/

/-- the model's treatment of one neighbour that is not the target -/
def visitStep (fromS : Scale) (hops : List Hop) (acc : List (Scale × List Hop) × List Hop) (t : Scale) :
    List (Scale × List Hop) × List Hop :=
  let h : Hop := (fromS, t)
  if acc.2.contains h then acc else (acc.1 ++ [(t, hops ++ [h])], acc.2 ++ [h])

theorem forBody_eq (target fromS : Scale) (hops : List Hop) (t : Scale) (st : SrcFlow.Q × List Hop) :
    SrcFlow.findHopsForBodySrc target fromS hops t st =
      if t = target then .ret (hops ++ [(fromS, target)]) else .next (visitStep fromS hops st t) := by
  rcases st with ⟨q, v⟩
  by_cases ht : t = target
  · subst ht; simp [SrcFlow.findHopsForBodySrc]
  · by_cases hv : v.contains (fromS, t) = true
    · simp [SrcFlow.findHopsForBodySrc, visitStep, ht, hv]
    · simp [SrcFlow.findHopsForBodySrc, visitStep, ht, hv]

/-- the source's `for` with its early return is: return at the first neighbour equal to the target, otherwise the fold -/
theorem forReturn_eq (target fromS : Scale) (hops : List Hop) (succs : List Scale) (st : SrcFlow.Q × List Hop) :
    forReturn (SrcFlow.findHopsForBodySrc target fromS hops) succs st =
      match succs.find? (· = target) with
      | some _ => .ret (hops ++ [(fromS, target)])
      | none => .next (succs.foldl (visitStep fromS hops) st) := by
  induction succs generalizing st with
  | nil => rfl
  | cons t rest ih =>
    rw [forReturn, forBody_eq]
    by_cases ht : t = target
    · simp [ht]
    · simp only [ht, if_false, List.find?_cons, decide_false, List.foldl_cons]
      exact ih _

theorem bfs_eq_src (g : List Hop) (target : Scale) (fuel : Nat) (queue : List (Scale × List Hop)) (visited : List Hop) :
    whileReturn (fun st => !st.1.isEmpty) (SrcFlow.findHopsWhileBodySrc g target) fuel (queue, visited)
      = bfs g target fuel queue visited := by
  induction fuel generalizing queue visited with
  | zero => simp [whileReturn, bfs]
  | succ n ih =>
    cases queue with
    | nil => simp [whileReturn, bfs]
    | cons e rest =>
      rcases e with ⟨fromS, hops⟩
      simp only [whileReturn, List.isEmpty_cons, Bool.not_false, if_true, SrcFlow.findHopsWhileBodySrc, popFront, forReturn_eq, bfs]
      cases hfind : List.find? (fun x => decide (x = target)) (List.map (fun ft => ft.2) (List.filter (fun ft => decide (ft.1 = fromS)) g)) with
      | some x => simp
      | none =>
        simp only
        exact ih _ _

theorem findHopsSrc_eq (g : List Hop) (a b : Scale) (fuel : Nat) :
    SrcFlow.findHopsSrc g a b fuel = if a = b then some [(a, b)] else bfs g b fuel [(a, [])] [] := by
  by_cases h : a = b
  · simp [SrcFlow.findHopsSrc, h]
  · simp only [SrcFlow.findHopsSrc, h, decide_false, if_false, Bool.false_eq_true]
    exact bfs_eq_src g b fuel _ _

theorem toScaleRouteSrc_eq (g : List Hop) (a b : Scale) : SrcFlow.toScaleRouteSrc g a b 64 = route g a b := by
  by_cases h : b = a
  · subst h; simp [SrcFlow.toScaleRouteSrc, route]
  · have h' : a ≠ b := fun e => h e.symm
    by_cases hc : (a, b) ∈ g
    · simp [SrcFlow.toScaleRouteSrc, route, h, h', hc]
    · simp [SrcFlow.toScaleRouteSrc, route, h, h', hc, findHopsSrc_eq]

theorem toScaleSrc_eq (tbl : List Row) (c : Consts) (g : List Hop) (a b : Scale) (j : JD) :
    SrcFlow.toScaleSrc g (hopFn tbl c) a b 64 j = convert tbl c g a b j := by
  by_cases h : b = a
  · subst h; simp [SrcFlow.toScaleSrc, convert, route]
  · have h' : a ≠ b := fun e => h e.symm
    by_cases hc : g.contains (a, b) = true
    · simp only [SrcFlow.toScaleSrc, convert, route, h, h', hc, decide_false, if_false, if_true, Bool.false_eq_true,
        Option.bind_eq_bind, Option.bind_some, List.foldlM_cons, List.foldlM_nil]
      cases hopFn tbl c (a, b) <;> simp
    · simp only [Bool.not_eq_true] at hc
      simp only [SrcFlow.toScaleSrc, convert, route, h, h', hc, decide_false, if_false, Bool.false_eq_true, findHopsSrc_eq,
        Option.bind_eq_bind]

/-! ### The row selection -/

theorem countTrue_map {α : Type} (l : List α) (p : α → Bool) : countTrue (l.map p) = (l.countP p : Nat) := by
  simp [countTrue, List.count_eq_countP, List.countP_map, Function.comp_def]

theorem rowOf_idx {α : Type} [Inhabited α] (tbl : List α) (n : Nat) :
    rowOf tbl (max ((n : Int) - 1) 0) = tbl.getD (n - 1) (tbl.headD default) := by
  unfold rowOf
  congr 1
  omega

end Midgard.TimeScale
