/-
Lemmas for the dispatcher theorems of C12 (`Props/C12.lean`: `dispatch_render3/2`, `parseNav_render3/2`): the
first whitespace-separated piece of the first line of a rendered file is the version token.  Core Lean only.
-/
import Midgard.Model.RinexNavDispatch
import Midgard.Proofs.RinexNavFile
import Midgard.Proofs.Split

namespace Midgard.Spec.RinexNavFile
open Midgard.Text Midgard.RinexNav Midgard.Generated.RinexNav
open Midgard.Spec.Sp3File (joinLines splitOn_joinLines NoNl)

/-- the first whitespace-separated piece of `pad ++ v ++ c :: rest` is `v` -/
theorem split_head_token (pad v rest : Str) (c : Char) (hpad : isBlank pad = true) (hv : Token v = true)
    (hc : isSpace c = true) : (Text.split (pad ++ v ++ c :: rest)).head? = some v := by
  simp only [Token, Bool.and_eq_true, Bool.not_eq_eq_eq_not, Bool.not_true] at hv
  unfold Text.split
  rw [List.append_assoc, splitAux_blank_nil hpad, splitAux_token hv.2, List.append_nil,
    splitAux_space_cur hc _ _ (by
      intro h
      have : v = [] := by simpa using h
      simp [this] at hv)]
  simp

theorem rinexVersion_first (l : Str) (ls : List Str) (hnl : ∀ x ∈ l :: ls, NoNl x) (k : Nat) (v rest : Str)
    (hl : l = blanks k ++ v ++ ' ' :: rest) (hv : Token v = true) :
    rinexVersion (joinLines (l :: ls)) = some v := by
  unfold rinexVersion
  rw [splitOn_joinLines _ hnl]
  simp only [List.cons_append, List.headD_cons]
  rw [hl]
  exact split_head_token _ _ _ _ (by simp [isBlank, blanks, isSpace]) hv (by decide)

/-- a version field `k` blanks + token `v`, shorter than its 20 columns, is followed by a blank -/
theorem ljust_version (k : Nat) (v : Str) (hlen : k + v.length < 20) :
    ljust 20 (blanks k ++ v) = blanks k ++ v ++ ' ' :: blanks (19 - (k + v.length)) := by
  unfold ljust
  have : 20 - (blanks k ++ v).length = (19 - (k + v.length)) + 1 := by
    simp [blanks]; omega
  rw [this]
  simp [blanks, List.replicate_succ]

theorem nonl_fileLines3 (f : NavFile) (hwf : f.wf = true) : ∀ l ∈ fileLines3 f, NoNl l := by
  have hitems : ∀ it ∈ f.items, it.wf = true := by
    simp only [NavFile.wf, Bool.and_eq_true, List.all_eq_true] at hwf
    exact hwf.2
  intro l hl
  simp only [fileLines3, List.mem_append, List.mem_flatten, List.mem_map] at hl
  rcases hl with hl | ⟨g, ⟨it, hit, rfl⟩, hl⟩
  · exact nonl_headerLines f hwf l hl
  · exact nonl_itemLines3 it (hitems it hit) l hl

theorem nonl_fileLines2 (f : NavFile) (hwf : f.wf2 = true) : ∀ l ∈ fileLines2 f, NoNl l := by
  have hwf1 : f.wf = true := by
    simp only [NavFile.wf2, Bool.and_eq_true] at hwf
    exact hwf.1
  have hsup := wf2_supported f hwf
  intro l hl
  simp only [fileLines2, List.mem_append, List.mem_flatten, List.mem_map] at hl
  rcases hl with hl | ⟨g, ⟨r, hr, rfl⟩, hl⟩
  · exact nonl_headerLines2 f hwf1 l hl
  · exact nonl_navLines2 r (hsup r hr).1 l hl

end Midgard.Spec.RinexNavFile
