/-
Helper lemmas for C19 (text round trip), part A5: the lines `entry_as_str` writes for one
`key = value` (or `key:meta = value`) item, in terms of words.  Mathlib-free.
-/
import Midgard.Proofs.ConfigWrap

namespace Midgard.Proofs.ConfigText
open Midgard.Config

/-- `" ".join(words)` -/
def unwords : List (List Char) → List Char
  | [] => []
  | w :: t => w ++ t.flatMap (fun x => ' ' :: x)

def wordPairs (ws : List (List Char)) : List Pair := ws.map (fun w => ([' '], w))

/-- the blanks between the key and `=`: padding to the key column plus the blank of `" = "` -/
def padOf (kw : Nat) (key : List Char) : List Char := List.replicate (kw - key.length) ' ' ++ [' ']

/-- the text `entry_as_str` wraps: `f"{key:<{kw}} = {value}"` -/
def entryText (kw : Nat) (key : List Char) (value : List Char) : List Char :=
  ljust kw key ++ " = ".toList ++ value

/-- first line of an item holding the words `g0` of the value -/
def firstLine (kw : Nat) (key : List Char) (g0 : List (List Char)) : List Char :=
  key ++ padOf kw key ++ '=' :: g0.flatMap (fun x => ' ' :: x)

/-- continuation line holding the words `g` -/
def contLine (hang : Nat) (g : List (List Char)) : List Char := List.replicate hang ' ' ++ unwords g

theorem eq_lit : " = ".toList = [' ', '=', ' '] := by decide

theorem flatAlt_wordPairs_flatten (x : List Char) (ws : List (List Char)) :
    (flatAlt x (wordPairs ws)).flatten = unwords (x :: ws) := by
  simp only [flatAlt, wordPairs, unwords, List.flatten_cons, List.flatMap_map]
  congr 1
  induction ws with
  | nil => rfl
  | cons w t ih => simp [List.flatMap_cons, ih]

theorem entryText_words (kw : Nat) (key : List Char) (w1 : List Char) (ws : List (List Char)) :
    entryText kw key (unwords (w1 :: ws)) =
      (flatAlt key ((padOf kw key, ['=']) :: wordPairs (w1 :: ws))).flatten := by
  have h := flatAlt_wordPairs_flatten w1 ws
  simp only [flatAlt, List.flatten_cons] at h
  simp only [entryText, ljust, eq_lit, padOf, flatAlt, List.flatMap_cons, List.flatten_cons, wordPairs,
    List.map_cons, List.cons_append, List.nil_append, List.append_assoc]
  simp only [wordPairs] at h
  rw [← h]

theorem wordPairs_append_inv (ws : List (List Char)) (a : List Pair) (s x : List Char) (b : List Pair)
    (h : a ++ (s, x) :: b = wordPairs ws) :
    ∃ ws1 ws2, ws = ws1 ++ x :: ws2 ∧ a = wordPairs ws1 ∧ s = [' '] ∧ b = wordPairs ws2 := by
  induction ws generalizing a with
  | nil => simp [wordPairs] at h
  | cons w t ih =>
    cases a with
    | nil =>
      simp only [wordPairs, List.nil_append, List.map_cons, List.cons.injEq, Prod.mk.injEq] at h
      obtain ⟨⟨h1, h2⟩, h3⟩ := h
      exact ⟨[], t, by simp [h2], rfl, h1, h3⟩
    | cons p a' =>
      simp only [wordPairs, List.cons_append, List.map_cons, List.cons.injEq] at h
      obtain ⟨h1, h2⟩ := h
      obtain ⟨ws1, ws2, e1, e2, e3, e4⟩ := ih a' h2
      exact ⟨w :: ws1, ws2, by simp [e1], by simp [wordPairs, ← h1, e2], e3, e4⟩

/-- a grouping of single-blank word pairs is a partition of the words into non-empty runs, each
rendered as its words joined by single blanks -/
theorem grouping_words (x : List Char) (ws : List (List Char)) (gs : List (List Char × List Pair))
    (hg : Grouping x (wordPairs ws) gs) :
    ∃ gr : List (List (List Char)), (∀ g ∈ gr, g ≠ []) ∧ gr.flatten = x :: ws ∧
      gs.map (fun g => (flatAlt g.1 g.2).flatten) = gr.map unwords := by
  generalize hps : wordPairs ws = ps at hg
  induction hg generalizing ws with
  | last x0 ps =>
    subst hps
    exact ⟨[x0 :: ws], by simp, by simp, by simp [flatAlt_wordPairs_flatten]⟩
  | cons x0 a s x' b gs' _ ih =>
    obtain ⟨ws1, ws2, e1, e2, e3, e4⟩ := wordPairs_append_inv ws a s x' b hps.symm
    obtain ⟨gr, h1, h2, h3⟩ := ih ws2 e4.symm
    refine ⟨(x0 :: ws1) :: gr, ?_, ?_, ?_⟩
    · intro g hg; rcases List.mem_cons.1 hg with h | h
      · subst h; simp
      · exact h1 g h
    · simp [h2, e1]
    · simp [h3, e2, flatAlt_wordPairs_flatten]

theorem takeFit_step (avail : Nat) (cur : List (List Char)) (len : Nat) (ch : List Char) (r : List (List Char))
    (h : len + ch.length ≤ avail) :
    takeFit avail cur len (ch :: r) = takeFit avail (cur ++ [ch]) (len + ch.length) r := by
  simp [takeFit, h]

theorem dropTrailingSpace_length (l : List (List Char)) : l.length - 1 ≤ (dropTrailingSpace l).length := by
  simp only [dropTrailingSpace]
  cases l.getLast? with
  | none => simp
  | some ch => simp only; split <;> simp

/-- when key, padding and `=` fit on the first line, the first line holds at least these three chunks -/
theorem first_line_has_eq (w : Nat) (key pad eq : List Char) (r : List (List Char))
    (hfit : key.length + pad.length + eq.length ≤ w) (heq : isSpaceChunk eq = false) :
    3 ≤ (dropTrailingSpace (lineSplit w (key :: pad :: eq :: r)).1).length := by
  have h1 : takeFit w [] 0 (key :: pad :: eq :: r) = takeFit w [key, pad, eq] (key.length + pad.length + eq.length) r := by
    rw [takeFit_step w [] 0 key _ (by omega), takeFit_step _ _ _ pad _ (by omega),
      takeFit_step _ _ _ eq _ (by omega)]
    simp
  obtain ⟨a, ha1, _⟩ := takeFit_split w [key, pad, eq] (key.length + pad.length + eq.length) r
  have hls : (lineSplit w (key :: pad :: eq :: r)).1 = [key, pad, eq] ++ a := by
    simp only [lineSplit, h1]
    generalize takeFit w [key, pad, eq] (key.length + pad.length + eq.length) r = tf at ha1
    obtain ⟨c, rr⟩ := tf
    simp only at ha1
    subst ha1
    simp
  rw [hls]
  rcases List.eq_nil_or_concat a with h | ⟨a', c, h⟩
  · subst h
    have : [key, pad, eq] ++ ([] : List (List Char)) = [key, pad] ++ [eq] := by simp
    rw [this, dropTrailingSpace_snoc, heq]; simp
  · subst h
    have := dropTrailingSpace_length ([key, pad, eq] ++ (a' ++ [c]))
    simp at this ⊢
    omega

theorem firstLine_eq (kw : Nat) (key : List Char) (g0 : List (List Char)) :
    (flatAlt key ((padOf kw key, ['=']) :: wordPairs g0)).flatten = firstLine kw key g0 := by
  simp only [flatAlt, firstLine, List.flatMap_cons, List.flatten_cons, List.cons_append, List.nil_append,
    List.append_assoc, wordPairs, List.flatMap_map]
  congr 2
  simp only [List.cons.injEq, true_and]
  induction g0 with
  | nil => rfl
  | cons w t ih => simp [List.flatMap_cons, ih]

theorem isWord_eq : IsWord ['='] := ⟨by simp, by intro c hc; simp at hc; subst hc; decide⟩

theorem isSpaces_pad (kw : Nat) (key : List Char) : IsSpaces (padOf kw key) :=
  ⟨by simp [padOf], by intro c hc; simp [padOf] at hc; rcases hc with h | h <;> simp [h]⟩

theorem isSpaces_single : IsSpaces [' '] := ⟨by simp, by simp⟩

theorem pairsOK_entry (kw : Nat) (key : List Char) (ws : List (List Char)) (hws : ∀ x ∈ ws, IsWord x) :
    PairsOK ((padOf kw key, ['=']) :: wordPairs ws) := by
  intro p hp
  rcases List.mem_cons.1 hp with h | h
  · subst h; exact ⟨isSpaces_pad kw key, isWord_eq⟩
  · simp only [wordPairs, List.mem_map] at h
    obtain ⟨x, hx, rfl⟩ := h
    exact ⟨isSpaces_single, hws x hx⟩

/-- **the lines of one `key = value` item**: the first line carries the key, the padding, `=` and the
first words of the value; every further line is the hanging indent and a non-empty run of the next
words; all words appear, in order, exactly once -/
theorem fill_entry_lines (w kw : Nat) (key : List Char) (w1 : List Char) (ws : List (List Char))
    (hkey : IsWord key) (hws : ∀ x ∈ w1 :: ws, IsWord x)
    (hctl : NoCtl (entryText kw key (unwords (w1 :: ws))))
    (hfit : key.length + (padOf kw key).length + 1 ≤ w) :
    ∃ (g0 : List (List Char)) (gr : List (List (List Char))), (∀ g ∈ gr, g ≠ []) ∧ g0 ++ gr.flatten = w1 :: ws ∧
      fill w (kw + 3) (entryText kw key (unwords (w1 :: ws))) =
        firstLine kw key g0 :: gr.map (contLine (kw + 3)) := by
  rw [entryText_words] at hctl ⊢
  have hps := pairsOK_entry kw key (w1 :: ws) hws
  obtain ⟨gs, hg, hfill, h0⟩ := fill_grouping w (kw + 3) key _ hkey hps hctl
  rw [hfill]
  generalize hP : (padOf kw key, ['=']) :: wordPairs (w1 :: ws) = P at hg h0
  cases hg with
  | last =>
    subst hP
    exact ⟨w1 :: ws, [], by simp, by simp, by simp [renderLines, firstLine_eq]⟩
  | @cons _ a s x b gs' hg' =>
    have h3 : 3 ≤ (flatAlt key a).length := by
      rw [h0 (key, a) gs' rfl, ← hP]
      exact first_line_has_eq w key (padOf kw key) ['='] _ (by simpa using hfit) (isSpaceChunk_word isWord_eq)
    cases a with
    | nil => simp [flatAlt] at h3
    | cons p a' =>
      simp only [List.cons_append, List.cons.injEq] at hP
      obtain ⟨hp, hrest⟩ := hP
      subst hp
      obtain ⟨ws1, ws2, e1, e2, e3, e4⟩ := wordPairs_append_inv (w1 :: ws) a' s x b hrest.symm
      subst e2 e4
      obtain ⟨gr, g1, g2, g3⟩ := grouping_words x ws2 gs' hg'
      refine ⟨ws1, gr, g1, by rw [g2, e1], ?_⟩
      simp only [renderLines, List.map_cons, firstLine_eq, List.map_map, List.cons.injEq, true_and]
      have : (fun g : List Char × List Pair => List.replicate (kw + 3) ' ' ++ (flatAlt g.1 g.2).flatten) =
          (fun t => List.replicate (kw + 3) ' ' ++ t) ∘ (fun g => (flatAlt g.1 g.2).flatten) := rfl
      rw [show ((fun x : List (List Char) => List.replicate (kw + 3) ' ' ++ x.flatten) ∘
            fun g : List Char × List Pair => flatAlt g.1 g.2) =
          (fun t => List.replicate (kw + 3) ' ' ++ t) ∘ (fun g => (flatAlt g.1 g.2).flatten) from rfl,
        ← List.map_map, g3, List.map_map]
      rfl

/-- a single word is written on one line, whatever the width -/
theorem fill_single_word (w hang : Nat) (x : List Char) (hx : IsWord x) (hctl : NoCtl x) :
    fill w hang x = [x] := by
  have hflat : (flatAlt x []).flatten = x := by simp [flatAlt]
  obtain ⟨gs, hg, hfill, _⟩ := fill_grouping w hang x [] hx (by intro p hp; simp at hp) (by rw [hflat]; exact hctl)
  rw [hflat] at hfill
  rw [hfill]
  generalize hP : ([] : List Pair) = P at hg
  cases hg with
  | last => subst hP; simp [renderLines, flatAlt]
  | @cons _ a s x' b gs' hg' => simp at hP

/-- an empty value: `key<pad> = ` is written as the single line `key<pad> =` -/
theorem fill_empty_value (w kw : Nat) (key : List Char) (hkey : IsWord key)
    (hctl : NoCtl key) (hfit : key.length + (padOf kw key).length + 1 ≤ w) :
    fill w (kw + 3) (entryText kw key []) = [firstLine kw key []] := by
  have htext : entryText kw key [] = [key, padOf kw key, ['='], [' ']].flatten := by
    simp [entryText, ljust, eq_lit, padOf]
  have hctl' : NoCtl (entryText kw key []) := by
    rw [htext]
    intro c hc
    simp only [List.flatten_cons, List.flatten_nil, List.append_nil, List.mem_append, List.mem_singleton] at hc
    rcases hc with h | h | h | h
    · exact hctl c h
    · rw [(isSpaces_pad kw key).2 c h]; decide
    · subst h; decide
    · subst h; decide
  have hch : chunks (munge (entryText kw key [])) = [key, padOf kw key, ['='], [' ']] := by
    rw [munge_id _ hctl', htext]
    apply chunks_flatten false
    exact ⟨hkey.1, isSp_word hkey, (isSpaces_pad kw key).1, isSp_spaces (isSpaces_pad kw key),
      by simp, by simpa using isSp_word isWord_eq, by simp, by simpa using isSp_spaces isSpaces_single, trivial⟩
  have hk : isSpaceChunk key = false := isSpaceChunk_word hkey
  have h1 : takeFit w [] 0 [key, padOf kw key, ['='], [' ']] =
      takeFit w [key, padOf kw key, ['=']] (key.length + (padOf kw key).length + 1) [[' ']] := by
    rw [takeFit_step w [] 0 key _ (by omega), takeFit_step _ _ _ (padOf kw key) _ (by omega),
      takeFit_step _ _ _ ['='] _ (by simp; omega)]
    simp
  have hl0 : lineSplit (w - (kw + 3)) [] = ([], []) := by simp [lineSplit, takeFit]
  by_cases hsp : key.length + (padOf kw key).length + 1 + 1 ≤ w
  · have hls : lineSplit w [key, padOf kw key, ['='], [' ']] = ([key, padOf kw key, ['='], [' ']], []) := by
      simp only [lineSplit, h1]
      simp [takeFit, hsp]
    simp only [fill, hch, List.length_cons, List.length_nil, wrapChunks, hk, Bool.and_false,
      Bool.false_eq_true, if_false, if_true, hls]
    simp [dropTrailingSpace, isSpaceChunk, renderLines, wrapChunks, firstLine]
  · have hls : lineSplit w [key, padOf kw key, ['='], [' ']] = ([key, padOf kw key, ['=']], [[' ']]) := by
      simp only [lineSplit, h1]
      simp [takeFit, hsp]
    simp only [fill, hch, List.length_cons, List.length_nil, wrapChunks, hk, Bool.and_false,
      Bool.false_eq_true, if_false, if_true, hls]
    simp [dropTrailingSpace, isSpaceChunk, renderLines, wrapChunks, firstLine, hl0]

end Midgard.Proofs.ConfigText
