/-
C10 — what `Dataset.write` puts into the file, for datasets in which one array object may be held by several fields:
a leaf field's group is the array (`isArr`) or a `same_as` group; the array groups are well formed, every name the final
memo answers is the path of the array group written for that object, and no object is stored under two paths.
-/
import Midgard.Proofs.H5W2

namespace Midgard.H5
open Midgard.Dataset

/-- the group `g` is what `FieldType.write` / `CollectionField.write` make of the field below the path `pre`; for a field
written as `same_as name`, `K object name` -/
def RepG (K : Nat → Path → Prop) : Field → Path → Grp → Prop
  | .leaf nm _ o _ u l, pre, g =>
    g.src = o ∧ g.attrs.fieldname = pre ++ [nm] ∧ g.attrs.unit = u ∧ g.attrs.level = l ∧
      ((g.isArr = true ∧ g.attrs.sameAs = none) ∨
       (∃ name, g.isArr = false ∧ g.attrs.sameAs = some name ∧ name ≠ pre ++ [nm] ∧ K o name))
  | .coll nm _ l sub, pre, g =>
    ∃ subs, g = .mk { fieldname := [nm], level := l, members := sub.map (fun f => (f.name, fieldType f)) } none subs ∧
      RepGL sub (pre ++ [nm]) subs
where RepGL : List Field → Path → List (String × Grp) → Prop
  | [], _, gs => gs = []
  | f :: fs, pre, gs => ∃ g r, gs = (f.name, g) :: r ∧ RepG K f pre g ∧ RepGL fs pre r

mutual
theorem RepG.mono {K K' : Nat → Path → Prop} :
    ∀ (f : Field) (pre : Path) (g : Grp), (∀ o ∈ leafObjs [f], ∀ n, K o n → K' o n) → RepG K f pre g → RepG K' f pre g
  | .leaf nm k o no u l, pre, g, hk, h => by
    simp only [RepG] at h ⊢
    obtain ⟨a, b, c, d, e⟩ := h
    refine ⟨a, b, c, d, ?_⟩
    rcases e with e | ⟨name, e1, e2, e3, e4⟩
    · exact Or.inl e
    · exact Or.inr ⟨name, e1, e2, e3, hk o (by simp [leafObjs]) _ e4⟩
  | .coll nm no l sub, pre, g, hk, h => by
    simp only [RepG] at h ⊢
    obtain ⟨subs, hg, hr⟩ := h
    exact ⟨subs, hg, RepGL.mono sub _ subs (fun o ho => hk o (by simpa [leafObjs] using ho)) hr⟩
theorem RepGL.mono {K K' : Nat → Path → Prop} :
    ∀ (fs : List Field) (pre : Path) (gs : List (String × Grp)), (∀ o ∈ leafObjs fs, ∀ n, K o n → K' o n) →
    RepG.RepGL K fs pre gs → RepG.RepGL K' fs pre gs
  | [], _, gs, _, h => by simpa only [RepG.RepGL] using h
  | f :: fs, pre, gs, hk, h => by
    simp only [RepG.RepGL] at h ⊢
    obtain ⟨g, r, hg, h1, h2⟩ := h
    exact ⟨g, r, hg, RepG.mono f pre g (fun o ho => hk o (by rw [leafObjs_cons]; exact List.mem_append_left _ ho)) h1,
      RepGL.mono fs pre r (fun o ho => hk o (by rw [leafObjs_cons]; exact List.mem_append_right _ ho)) h2⟩
end

theorem RepGL_names {K : Nat → Path → Prop} : ∀ (fs : List Field) (pre : Path) (gs : List (String × Grp)),
    RepG.RepGL K fs pre gs → gs.map (·.1) = names fs
  | [], _, gs, h => by simp only [RepG.RepGL] at h; subst h; rfl
  | f :: fs, pre, gs, h => by
    simp only [RepG.RepGL] at h
    obtain ⟨g, r, rfl, _, hr⟩ := h
    have := RepGL_names fs pre r hr
    simp only [names] at this
    simp [names, this]

theorem RepGL_mem {K : Nat → Path → Prop} : ∀ (fs : List Field) (pre : Path) (gs : List (String × Grp)),
    RepG.RepGL K fs pre gs → ∀ f ∈ fs, ∃ g, (f.name, g) ∈ gs ∧ RepG K f pre g
  | [], _, _, _, f, hf => by simp at hf
  | f0 :: fs, pre, gs, h, f, hf => by
    simp only [RepG.RepGL] at h
    obtain ⟨g, r, rfl, h0, hr⟩ := h
    rcases List.mem_cons.mp hf with rfl | hf
    · exact ⟨g, by simp, h0⟩
    · obtain ⟨g', hg', hr'⟩ := RepGL_mem fs pre r hr f hf
      exact ⟨g', List.mem_cons_of_mem _ hg', hr'⟩

/-! ### what the loop over the fields guarantees -/

structure WL2 (h : Heap) (fs : List Field) (pre : Path) (memo : WMemo) (groups : List (String × Grp)) (memo' : WMemo) :
    Prop where
  rep : RepG.RepGL (fun o name => memo'.lookup o = some name) fs pre groups
  stable : Stable memo memo'
  newIn : ∀ x q, memo'.lookup x = some q → memo.lookup x = some q ∨ ∃ g', (q, g') ∈ Grp.nodes.nodesL pre groups ∧ g'.src = x
  tree : ∀ q g', (q, g') ∈ Grp.nodes.nodesL pre groups → ArrTree (fun q x => memo'.lookup x = some q) h q g'
  own : ∀ q g', (q, g') ∈ Grp.nodes.nodesL pre groups → memo'.lookup g'.src = some q
  names : NamesOKG.NamesOKL groups
  written : ∀ e ∈ leafPaths fs pre, memo.lookup e.1 = some e.2 → ∃ g', (e.2, g') ∈ Grp.nodes.nodesL pre groups ∧ g'.src = e.1

theorem WL2.nil (h : Heap) (pre : Path) (memo : WMemo) : WL2 h [] pre memo [] memo where
  rep := by simp [RepG.RepGL]
  stable := Stable.refl _
  newIn := fun _ _ hx => Or.inl hx
  tree := by intro q g' hm; simp [Grp.nodes.nodesL] at hm
  own := by intro q g' hm; simp [Grp.nodes.nodesL] at hm
  names := by simp [NamesOKG.NamesOKL]
  written := by intro e he; simp [leafPaths] at he

/-- one field, then the others -/
theorem WL2.cons {h : Heap} {f : Field} {fs : List Field} {pre : Path} {memo memo1 memo2 : WMemo} {g : Grp}
    {groups : List (String × Grp)}
    (w1 : WL2 h [f] pre memo [(f.name, g)] memo1) (w2 : WL2 h fs pre memo1 groups memo2)
    (hname : f.name ∉ Midgard.Dataset.names fs) : WL2 h (f :: fs) pre memo ((f.name, g) :: groups) memo2 := by
  have hg1 : ∃ g1 r1, [(f.name, g)] = (f.name, g1) :: r1 ∧ RepG (fun o name => memo1.lookup o = some name) f pre g1 ∧
      RepG.RepGL (fun o name => memo1.lookup o = some name) [] pre r1 := by
    simpa only [RepG.RepGL] using w1.rep
  obtain ⟨g1, r1, he, hrf, _⟩ := hg1
  have : g1 = g := by simp at he; exact he.1.symm
  subst this
  refine ⟨?_, w1.stable.trans w2.stable, ?_, ?_, ?_, ?_, ?_⟩
  · simp only [RepG.RepGL]
    exact ⟨g1, groups, rfl, RepG.mono f pre g1 (fun o _ n hn => w2.stable o n hn) hrf, w2.rep⟩
  · intro x q hx
    rw [nodesL_cons]
    rcases w2.newIn x q hx with hx | ⟨g', hg', hs⟩
    · rcases w1.newIn x q hx with hx | ⟨g', hg', hs⟩
      · exact Or.inl hx
      · exact Or.inr ⟨g', List.mem_append_left _ hg', hs⟩
    · exact Or.inr ⟨g', List.mem_append_right _ hg', hs⟩
  · intro q g' hm
    rw [nodesL_cons] at hm
    rcases List.mem_append.mp hm with hm | hm
    · exact (w1.tree q g' hm).mono (fun q x hx => w2.stable x q hx)
    · exact w2.tree q g' hm
  · intro q g' hm
    rw [nodesL_cons] at hm
    rcases List.mem_append.mp hm with hm | hm
    · exact w2.stable _ _ (w1.own q g' hm)
    · exact w2.own q g' hm
  · simp only [NamesOKG.NamesOKL]
    have hn1 : NamesOKG g1 := by
      have := w1.names
      simp only [NamesOKG.NamesOKL] at this
      exact this.1
    refine ⟨hn1, ?_, w2.names⟩
    intro e he heq
    apply hname
    rw [← RepGL_names fs pre groups w2.rep]
    exact List.mem_map.mpr ⟨e, he, heq⟩
  · intro e he hlk
    rw [leafPaths_cons] at he
    rw [nodesL_cons]
    rcases List.mem_append.mp he with he | he
    · obtain ⟨g', hg', hs⟩ := w1.written e he hlk
      exact ⟨g', List.mem_append_left _ hg', hs⟩
    · obtain ⟨g', hg', hs⟩ := w2.written e he (w1.stable _ _ hlk)
      exact ⟨g', List.mem_append_right _ hg', hs⟩

/-! ### one field -/

theorem promise_keys2 {fs : List Field} {memo : WMemo} (hp : ∀ o ∈ leafObjs fs, o ∈ keys memo) {memo' : WMemo}
    (hs : Stable memo memo') : ∀ o ∈ leafObjs fs, o ∈ keys memo' := fun o ho => stable_keys hs (hp o ho)

theorem writeLeaf_spec2 (h : Heap) (hb : Below h) (lvl : Nat) (nm : String) (k : Kind) (o no : Nat) (u : Option (List String))
    (l : Nat) (pre : Path) (memo : WMemo) (ho : o < h.length) (hk : o ∈ keys memo) :
    ∃ g memo', writeField h lvl (.leaf nm k o no u l) pre memo = .ok (g, memo') ∧
      WL2 h [.leaf nm k o no u l] pre memo [(nm, g)] memo' := by
  obtain ⟨q, hq⟩ : ∃ q, memo.lookup o = some q := by
    cases hl : memo.lookup o with
    | none => exact absurd hk ((lookup_none_iff memo o).mp hl)
    | some q => exact ⟨q, rfl⟩
  by_cases hqp : q = pre ++ [nm]
  · subst hqp
    obtain ⟨g, m', hw⟩ := writeArr_total h hb (h.length + 1) u l o (pre ++ [nm]) memo ho (by omega)
    have sp := writeArr_spec2 h _ u l o (pre ++ [nm]) memo g m' hw hq
    obtain ⟨a1, a2, a3, a4, a5⟩ := writeArr_attrs h _ u l o _ memo g m' hw
    have hlk : (m'.lookup o).isNone = false := by rw [sp.stable o _ hq]; rfl
    refine ⟨g, m', ?_, ?_⟩
    · simp only [writeField, aliasOf, hq, beq_self_eq_true, if_true, hw, hlk, Bool.false_eq_true, if_false]
    · refine ⟨?_, sp.stable, ?_, ?_, ?_, ?_, ?_⟩
      · simp only [RepG.RepGL, RepG, Field.name]
        exact ⟨g, [], rfl, ⟨a1, a2, a3, a4, Or.inl ⟨a5, writeArr_sameAs h _ u l o _ memo g m' hw⟩⟩, rfl⟩
      · rw [nodesL_single]; exact sp.newIn
      · rw [nodesL_single]; exact sp.tree.nodes
      · rw [nodesL_single]; exact sp.own
      · simp only [NamesOKG.NamesOKL]
        exact ⟨sp.names, by simp, trivial⟩
      · intro e he _
        simp only [leafPaths, List.mem_singleton] at he
        subst he
        rw [nodesL_single]
        exact ⟨g, root_mem_nodes _ sp.tree.isArr, sp.src⟩
  · have hbeq : (q == pre ++ [nm]) = false := by simpa using hqp
    refine ⟨.mk { fieldname := pre ++ [nm], src := o, unit := u, level := l, sameAs := some q } none [], memo, ?_, ?_⟩
    · simp only [writeField, aliasOf, hq, hbeq, Bool.false_eq_true, if_false]
    · have hnodes : ∀ (a0 : GAttrs), Grp.nodes.nodesL pre [(nm, Grp.mk a0 none [])] = [] := by
        intro a0; simp [Grp.nodes.nodesL, Grp.nodes]
      refine ⟨?_, Stable.refl _, fun x q' hx => Or.inl hx, ?_, ?_, ?_, ?_⟩
      · simp only [RepG.RepGL, RepG, Field.name]
        exact ⟨_, [], rfl, ⟨rfl, rfl, rfl, rfl, Or.inr ⟨q, rfl, rfl, hqp, hq⟩⟩, rfl⟩
      · intro q' g' hm; rw [hnodes] at hm; simp at hm
      · intro q' g' hm; rw [hnodes] at hm; simp at hm
      · simp [NamesOKG.NamesOKL, NamesOKG]
      · intro e he hlk
        simp only [leafPaths, List.mem_singleton] at he
        subst he
        simp only at hlk
        rw [hq] at hlk
        exact absurd (Option.some.inj hlk) hqp

/-! ### all fields -/

mutual
theorem writeField_spec2 (h : Heap) (hb : Below h) (lvl : Nat) : ∀ (f : Field) (pre : Path) (memo : WMemo),
    (∀ o ∈ leafObjs [restrictField lvl f], o ∈ keys memo) →
    namesOK [restrictField lvl f] = true → (∀ o ∈ leafObjs [restrictField lvl f], o < h.length) →
    ∃ g memo', writeField h lvl f pre memo = .ok (g, memo') ∧
      WL2 h [restrictField lvl f] pre memo [((restrictField lvl f).name, g)] memo'
  | .leaf nm k o no u l, pre, memo, hp, _, hlt => by
    have ho : o < h.length := hlt o (by simp [restrictField, leafObjs])
    have hk : o ∈ keys memo := hp o (by simp [restrictField, leafObjs])
    exact writeLeaf_spec2 h hb lvl nm k o no u l pre memo ho hk
  | .coll nm no l sub, pre, memo, hp, hn, hlt => by
    have hp' : ∀ o ∈ leafObjs (restrictFields lvl sub), o ∈ keys memo := by
      intro o ho; apply hp; simpa [restrictField, leafObjs] using ho
    have hn' : namesOK (restrictFields lvl sub) = true := by
      simp only [restrictField, namesOK, Midgard.Dataset.names, List.map_nil, List.contains_nil, Bool.not_false,
        Bool.and_true, Bool.true_and] at hn
      exact hn
    have hlt' : ∀ o ∈ leafObjs (restrictFields lvl sub), o < h.length := by
      intro o ho; apply hlt; simpa [restrictField, leafObjs] using ho
    obtain ⟨subs, mem, memo', hw, w⟩ := writeFields_spec2 h hb lvl sub (pre ++ [nm]) memo hp' hn' hlt'
    have hmem := (writeFields_names h lvl sub (pre ++ [nm]) memo subs mem memo' hw).2
    refine ⟨Grp.mk { fieldname := [nm], level := l, members := mem } none subs, memo', by simp only [writeField, hw], ?_⟩
    simp only [restrictField, Field.name]
    refine ⟨?_, w.stable, ?_, ?_, ?_, ?_, ?_⟩
    · simp only [RepG.RepGL, RepG]
      exact ⟨_, [], rfl, ⟨subs, by rw [hmem], w.rep⟩, rfl⟩
    · rw [nodesL_single, nodes_coll]; exact w.newIn
    · rw [nodesL_single, nodes_coll]; exact w.tree
    · rw [nodesL_single, nodes_coll]; exact w.own
    · simp only [NamesOKG.NamesOKL, NamesOKG]
      exact ⟨w.names, by simp, trivial⟩
    · intro e he hlk
      rw [nodesL_single, nodes_coll]
      apply w.written _ _ hlk
      simpa [leafPaths] using he
theorem writeFields_spec2 (h : Heap) (hb : Below h) (lvl : Nat) : ∀ (fs : List Field) (pre : Path) (memo : WMemo),
    (∀ o ∈ leafObjs (restrictFields lvl fs), o ∈ keys memo) →
    namesOK (restrictFields lvl fs) = true → (∀ o ∈ leafObjs (restrictFields lvl fs), o < h.length) →
    ∃ groups mem memo', writeField.writeFields h lvl fs pre memo = .ok (groups, mem, memo') ∧
      WL2 h (restrictFields lvl fs) pre memo groups memo'
  | [], pre, memo, _, _, _ => by
    refine ⟨[], [], memo, by simp [writeField.writeFields], ?_⟩
    simp only [restrictFields]
    exact WL2.nil h pre memo
  | f :: fs, pre, memo, hp, hn, hlt => by
    by_cases hlv : Field.level f < lvl
    · rw [restrict_skip hlv] at hp hn hlt ⊢
      obtain ⟨groups, mem, memo', hw, w⟩ := writeFields_spec2 h hb lvl fs pre memo hp hn hlt
      exact ⟨groups, mem, memo', by simp only [writeField.writeFields, hlv, if_true, hw], w⟩
    · rw [restrict_keep hlv] at hp hn hlt ⊢
      obtain ⟨hname, hn1, hn2⟩ := namesOK_cons _ _ hn
      have hp1 : ∀ o ∈ leafObjs [restrictField lvl f], o ∈ keys memo := by
        intro o ho; apply hp; rw [leafObjs_cons]; exact List.mem_append_left _ ho
      have hp2 : ∀ o ∈ leafObjs (restrictFields lvl fs), o ∈ keys memo := by
        intro o ho; apply hp; rw [leafObjs_cons]; exact List.mem_append_right _ ho
      have hlt1 : ∀ o ∈ leafObjs [restrictField lvl f], o < h.length := by
        intro o ho; apply hlt; rw [leafObjs_cons]; exact List.mem_append_left _ ho
      have hlt2 : ∀ o ∈ leafObjs (restrictFields lvl fs), o < h.length := by
        intro o ho; apply hlt; rw [leafObjs_cons]; exact List.mem_append_right _ ho
      obtain ⟨g, memo1, hw1, w1⟩ := writeField_spec2 h hb lvl f pre memo hp1 hn1 hlt1
      obtain ⟨groups, mem, memo2, hw2, w2⟩ := writeFields_spec2 h hb lvl fs pre memo1
        (promise_keys2 hp2 w1.stable) hn2 hlt2
      refine ⟨(f.name, g) :: groups, _, memo2, by simp only [writeField.writeFields, hlv, if_false, hw1, hw2]; rfl, ?_⟩
      have := WL2.cons w1 w2 hname
      rw [restrictField_name] at this
      exact this
end

end Midgard.H5
