/-
C05 — the near-surface accuracy of the one-step scheme: model-level theorem `tangentialOffset_near` (from the normalised
bound of Proofs/GeoBoundNear.lean) and the inclusion "within 100 km of the ellipsoid ⇒ in the box" (`near_of_height`).
-/
import Midgard.Proofs.GeoBoundNear
import Midgard.Proofs.GeoAccuracy
import Mathlib.Tactic.LinearCombination
namespace Midgard.Geo.Acc
open Midgard.Geo

/-- **the accuracy of the one-step scheme near the surface, proved**: for every ellipsoid with `0 < a ≤ 6 378 140 m`,
`0 ≤ e² ≤ 0.0067` and every point off the axis whose normalised quantity `A = √(q²(p/a)² + (z/a)²)` is within `0.0162` of
`q = √(1 − e²)` (every point within 100 km of the ellipsoid, see the comment at `Props/C05.near_surface_accuracy`),
the tangential offset — the round-trip error of the algorithm in exact arithmetic — is below `1e-6 m` -/
theorem tangentialOffset_near (E : Ellipsoid ℝ) (ha : 0 < E.a) (ha' : E.a ≤ 6378140) (he0 : 0 ≤ E.e2) (he : E.e2 ≤ 0.0067)
    (p z : ℝ) (hp : 0 < p) (hz : 0 ≤ z)
    (hnear : |Real.sqrt (Real.sqrt (1 - E.e2) * (p / E.a) * (Real.sqrt (1 - E.e2) * (p / E.a)) + z / E.a * (z / E.a))
              - Real.sqrt (1 - E.e2)| ≤ 0.0162) :
    |tangentialOffset E p z| < 1e-6 := by
  set q := Real.sqrt (1 - E.e2) with hq
  set P := p / E.a with hP
  set S := z / E.a with hS
  set A := Real.sqrt (q * P * (q * P) + S * S) with hA
  have hq2 : q ^ 2 = 1 - E.e2 := Real.sq_sqrt (by linarith)
  have hE : E.e2 = 1 - q ^ 2 := by linarith
  have hq0 : 0 ≤ q := Real.sqrt_nonneg _
  have hqlo : 0.9966 ≤ q := by
    by_contra h
    have h' : q < 0.9966 := not_le.1 h
    have : q ^ 2 < 0.9966 ^ 2 := pow_lt_pow_left₀ h' hq0 (by norm_num)
    norm_num at this; linarith
  have hq1 : q ≤ 1 := by
    by_contra h
    have h' : 1 < q := not_le.1 h
    have : 1 < q ^ 2 := by nlinarith
    linarith
  have hP0 : 0 < P := div_pos hp ha
  have hS0 : 0 ≤ S := div_nonneg hz ha.le
  have hrad : 0 < q * P * (q * P) + S * S := by
    have : 0 < q := by linarith
    positivity
  have hA0 : 0 < A := Real.sqrt_pos.2 hrad
  have hAA : A * A = q * P * (q * P) + S * S := Real.mul_self_sqrt hrad.le
  obtain ⟨h1, h2⟩ := halley_as_cofactors q P S A E.e2
    (q * S * (A * A * A) + E.e2 * (S * S * S))
    (P * (A * A * A) - E.e2 * (q * P * (q * P) * (q * P)))
    (E.e2 * E.e2 * 1.5 * (S * S) * (q * P * (q * P)) * P * (A - q)) hAA hE rfl rfl rfl
  set s1 := (halley E p z).1 with hs1d
  set cc := (halley E p z).2 with hccd
  have hs1 : s1 = P * S * K1 A P q / 2 := h1
  have hcc : cc = P ^ 2 * q * K2 A P q / 2 := h2
  have hval : tangentialOffset E p z =
      E.a * ((S * cc - P * s1) / Real.sqrt (s1 * s1 + cc * cc)
        + (1 - q ^ 2) * s1 * cc / (Real.sqrt (s1 * s1 + cc * cc) * Real.sqrt (q ^ 2 * (s1 * s1) + cc * cc))) := by
    have hz' : z = E.a * S := by rw [hS]; field_simp
    have hp' : p = E.a * P := by rw [hP]; field_simp
    show offsetAt E p z s1 cc = _
    simp only [offsetAt, trig_sqrt]
    rw [← hE, hq2]
    conv_lhs => rw [hz', hp']
    ring
  rw [hval, abs_mul, abs_of_pos ha]
  rcases hS0.eq_or_lt with hS00 | hSpos
  · -- equatorial plane: s1 = 0
    have : s1 = 0 := by rw [hs1, ← hS00]; ring
    rw [this, ← hS00]; simp; positivity
  · have hb := offset_near_normalised q P S A s1 cc _ _ hqlo hq1 (by rw [← hE]; exact he) hP0 hSpos hA0 hAA hnear hs1 hcc rfl rfl
    have : E.a * |(S * cc - P * s1) / Real.sqrt (s1 * s1 + cc * cc)
        + (1 - q ^ 2) * s1 * cc / (Real.sqrt (s1 * s1 + cc * cc) * Real.sqrt (q ^ 2 * (s1 * s1) + cc * cc))|
        ≤ 6378140 * 1.2949e-13 := mul_le_mul ha' hb (abs_nonneg _) (by norm_num)
    have h3 : (6378140 : ℝ) * 1.2949e-13 < 1e-6 := by norm_num
    linarith



theorem sqrt_near (q Δ : ℝ) (hq : 0.9966 ≤ q) (hq1 : q ≤ 1) (hhi : Δ ≤ 2 * 0.0157 * q + 0.0157 ^ 2) (hlo : -(2 * 0.0157 * q) ≤ Δ) :
    |Real.sqrt (q ^ 2 + Δ) - q| ≤ 0.0162 := by
  rw [abs_le]
  constructor
  · have h1 : (q - 0.0162) ^ 2 ≤ q ^ 2 + Δ := by
      have : (q - 0.0162) ^ 2 = q ^ 2 - 0.0324 * q + 0.0162 ^ 2 := by ring
      rw [this]; norm_num; norm_num at hlo; linarith
    have := Real.le_sqrt_of_sq_le h1
    linarith
  · have h1 : q ^ 2 + Δ ≤ (q + 0.0162) ^ 2 := by
      have : (q + 0.0162) ^ 2 = q ^ 2 + 0.0324 * q + 0.0162 ^ 2 := by ring
      rw [this]; norm_num; norm_num at hhi; linarith
    have := Real.sqrt_le_sqrt h1
    rw [Real.sqrt_sq (by linarith)] at this
    linarith

/-- every point within `|h| ≤ 0.0157·a` (100 km for `a ≥ 6 371 000 m`) of the ellipsoid lies in the box of
`tangentialOffset_near`: with `n = N/a` (`n²(1 − e²s²) = 1`), `η = h/a`, `P = (n + η)c`, `S = (n q² + η)s`,
`A = √(q²P² + S²)` satisfies `|A − q| ≤ 0.0162` -/
theorem near_of_height (q n η s c : ℝ) (hq : 0.9966 ≤ q) (hq1 : q ≤ 1) (hsc : s ^ 2 + c ^ 2 = 1)
    (hn0 : 0 < n) (hn : n ^ 2 * (1 - (1 - q ^ 2) * s ^ 2) = 1) (hη : |η| ≤ 0.0157) :
    |Real.sqrt (q * ((n + η) * c) * (q * ((n + η) * c)) + (n * q ^ 2 + η) * s * ((n * q ^ 2 + η) * s)) - q| ≤ 0.0162 := by
  have hq0 : 0 < q := by linarith
  obtain ⟨hηlo, hηhi⟩ := abs_le.1 hη
  have hs2 : s ^ 2 ≤ 1 := by nlinarith [sq_nonneg c]
  have hs0 : 0 ≤ s ^ 2 := sq_nonneg s
  have hc0 : 0 ≤ c ^ 2 := sq_nonneg c
  -- the radicand is q² + Δ
  have hrad : q * ((n + η) * c) * (q * ((n + η) * c)) + (n * q ^ 2 + η) * s * ((n * q ^ 2 + η) * s)
      = q ^ 2 + (2 * η * q ^ 2 * n + η ^ 2 * (q ^ 2 * c ^ 2 + s ^ 2)) := by
    linear_combination (q ^ 2) * hn + (q ^ 2 * n ^ 2 + 2 * n * η * q ^ 2) * hsc
  rw [hrad]
  -- q n ≤ 1 ≤ n
  have hee : 0 ≤ 1 - q ^ 2 := by nlinarith
  have hfac : q ^ 2 ≤ 1 - (1 - q ^ 2) * s ^ 2 := by
    have := mul_nonneg hee (by linarith : 0 ≤ 1 - s ^ 2)
    linarith
  have hfac1 : 1 - (1 - q ^ 2) * s ^ 2 ≤ 1 := by
    have := mul_nonneg hee hs0
    linarith
  have hqn : (q * n) ^ 2 ≤ 1 := by
    have : n ^ 2 * q ^ 2 ≤ n ^ 2 * (1 - (1 - q ^ 2) * s ^ 2) := mul_le_mul_of_nonneg_left hfac (sq_nonneg n)
    nlinarith
  have hqn1 : q * n ≤ 1 := by
    by_contra h
    have h' : 1 < q * n := not_le.1 h
    have : 1 < (q * n) ^ 2 := by nlinarith
    linarith
  have hqn0 : 0 < q * n := by positivity
  have hw : 0 ≤ q ^ 2 * c ^ 2 + s ^ 2 := by positivity
  have hw1 : q ^ 2 * c ^ 2 + s ^ 2 ≤ 1 := by nlinarith
  set Δ := 2 * η * q ^ 2 * n + η ^ 2 * (q ^ 2 * c ^ 2 + s ^ 2) with hΔ
  have hη2 : η ^ 2 ≤ 0.0157 ^ 2 := by nlinarith
  have hΔhi : Δ ≤ 2 * 0.0157 * q + 0.0157 ^ 2 := by
    have h1 : 2 * η * q ^ 2 * n ≤ 2 * 0.0157 * q := by
      have : 2 * η * q ^ 2 * n = 2 * η * q * (q * n) := by ring
      rw [this]
      by_cases hη0 : 0 ≤ η
      · have : 2 * η * q * (q * n) ≤ 2 * η * q * 1 := mul_le_mul_of_nonneg_left hqn1 (by positivity)
        nlinarith
      · have : 2 * η * q * (q * n) ≤ 0 := by
          have : η < 0 := not_le.1 hη0
          have : 2 * η * q ≤ 0 := by nlinarith
          exact mul_nonpos_of_nonpos_of_nonneg this hqn0.le
        nlinarith
    have h2 : η ^ 2 * (q ^ 2 * c ^ 2 + s ^ 2) ≤ 0.0157 ^ 2 * 1 := mul_le_mul hη2 hw1 hw (by norm_num)
    rw [hΔ]; linarith
  have hΔlo : -(2 * 0.0157 * q) ≤ Δ := by
    have h1 : -(2 * 0.0157 * q) ≤ 2 * η * q ^ 2 * n := by
      have : 2 * η * q ^ 2 * n = 2 * η * q * (q * n) := by ring
      rw [this]
      by_cases hη0 : 0 ≤ η
      · have : 0 ≤ 2 * η * q * (q * n) := by positivity
        nlinarith
      · have hη' : η < 0 := not_le.1 hη0
        have h3 : 2 * η * q * 1 ≤ 2 * η * q * (q * n) := by
          have : 2 * η * q ≤ 0 := by nlinarith
          exact mul_le_mul_of_nonpos_left hqn1 this
        nlinarith
    have h2 : 0 ≤ η ^ 2 * (q ^ 2 * c ^ 2 + s ^ 2) := by positivity
    rw [hΔ]; linarith
  exact sqrt_near q Δ hq hq1 hΔhi hΔlo


/-- **|h| ≤ 100 km ⇒ round-trip error of the one-step algorithm < 1e-6 m** (exact arithmetic), for every ellipsoid with
`6 371 000 ≤ a ≤ 6 378 140 m`, `0 ≤ e² ≤ 0.0067` and every geodetic latitude `φ ∈ [0, π/2)` (`s = sin φ`, `c = cos φ`;
the southern hemisphere is the mirror image, `roundtrip_error_south`) -/
theorem tangentialOffset_within_100km (E : Ellipsoid ℝ) (ha : 6371000 ≤ E.a) (ha' : E.a ≤ 6378140) (he0 : 0 ≤ E.e2)
    (he : E.e2 ≤ 0.0067) (s c h : ℝ) (hsc : s ^ 2 + c ^ 2 = 1) (hc : 0 < c) (hs : 0 ≤ s) (hh : |h| ≤ 100000) :
    |tangentialOffset E ((E.a / Real.sqrt (1 - E.e2 * s ^ 2) + h) * c)
        ((E.a / Real.sqrt (1 - E.e2 * s ^ 2) * (1 - E.e2) + h) * s)| < 1e-6 := by
  have ha0 : 0 < E.a := by linarith
  obtain ⟨hhlo, hhhi⟩ := abs_le.1 hh
  have hs2 : s ^ 2 ≤ 1 := by nlinarith [sq_nonneg c]
  have hrad : 0 < 1 - E.e2 * s ^ 2 := by nlinarith [sq_nonneg s]
  have hrad1 : 1 - E.e2 * s ^ 2 ≤ 1 := by nlinarith [sq_nonneg s, mul_nonneg he0 (sq_nonneg s)]
  set w := Real.sqrt (1 - E.e2 * s ^ 2) with hw
  have hw0 : 0 < w := Real.sqrt_pos.2 hrad
  have hw1 : w ≤ 1 := by rw [hw]; exact Real.sqrt_le_one.mpr hrad1 |>.trans le_rfl
  have hww : w ^ 2 = 1 - E.e2 * s ^ 2 := Real.sq_sqrt hrad.le
  set q := Real.sqrt (1 - E.e2) with hq
  have hq2 : q ^ 2 = 1 - E.e2 := Real.sq_sqrt (by linarith)
  have hq0 : 0 ≤ q := Real.sqrt_nonneg _
  have hqlo : 0.9966 ≤ q := by
    by_contra h'
    have h'' : q < 0.9966 := not_le.1 h'
    have : q ^ 2 < 0.9966 ^ 2 := pow_lt_pow_left₀ h'' hq0 (by norm_num)
    norm_num at this; linarith
  have hq1 : q ≤ 1 := by
    by_contra h'
    have h'' : 1 < q := not_le.1 h'
    have : 1 < q ^ 2 := by nlinarith
    linarith
  have hN : E.a ≤ E.a / w := by rw [le_div_iff₀ hw0]; nlinarith
  set n := 1 / w with hn
  set η := h / E.a with hη
  have hn0 : 0 < n := by positivity
  have hnn : n ^ 2 * (1 - (1 - q ^ 2) * s ^ 2) = 1 := by
    rw [hq2, show 1 - (1 - E.e2) = E.e2 by ring, ← hww, hn]; field_simp
  have hηb : |η| ≤ 0.0157 := by
    rw [hη, abs_div, abs_of_pos ha0, div_le_iff₀ ha0]
    have : (100000 : ℝ) ≤ 0.0157 * E.a := by nlinarith
    linarith
  have hbox := near_of_height q n η s c hqlo hq1 hsc hn0 hnn hηb
  have hp : 0 < (E.a / w + h) * c := mul_pos (by linarith) hc
  have hz : 0 ≤ (E.a / w * (1 - E.e2) + h) * s := by
    have : 0 ≤ E.a / w * (1 - E.e2) + h := by
      have : E.a * (1 - E.e2) ≤ E.a / w * (1 - E.e2) := mul_le_mul_of_nonneg_right hN (by linarith)
      nlinarith
    exact mul_nonneg this hs
  apply tangentialOffset_near E ha0 ha' he0 he _ _ hp hz
  have e1 : (E.a / w + h) * c / E.a = (n + η) * c := by rw [hn, hη]; field_simp
  have e2 : (E.a / w * (1 - E.e2) + h) * s / E.a = (n * q ^ 2 + η) * s := by rw [hn, hη, hq2]; field_simp
  rw [e1, e2]
  exact hbox

end Midgard.Geo.Acc
