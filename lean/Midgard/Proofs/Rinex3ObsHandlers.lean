/-
C11 file level, part 6b: every header handler of the plain record kinds writes only `meta` keys the data section
does not read (and possibly the header position): `Frame`.  Core Lean only.
-/
import Midgard.Proofs.Rinex3ObsMeta

namespace Midgard.Spec.Rinex3ObsFile
open Midgard.Text Midgard.FixedCol Midgard.Decimal Midgard.ChainParser Midgard.RinexObs Midgard.Rinex3Obs

theorem MSame_foldl {α} (st : Meta → α → Meta) : ∀ (l : List α) (m : Meta), (∀ m x, x ∈ l → MSame m (st m x)) →
    MSame m (l.foldl st m) := by
  intro l
  induction l with
  | nil => intro m _; exact MSame.refl m
  | cons a l ih =>
    intro m h
    exact (h m a (by simp)).trans (ih _ (fun m x hx => h m x (by simp [hx])))

/-- a handler that only writes unprotected `meta` keys (and possibly the header position) -/
structure Frame (s s' : State) : Prop where
  all : s'.obstypesAll = s.obstypesAll
  rate : s'.rate = s.rate
  obs : s'.data.obs = s.data.obs
  lli : s'.data.lli = s.data.lli
  snr : s'.data.snr = s.data.snr
  rows : rowCols s'.data = rowCols s.data
  micros : s'.data.timeMicros = s.data.timeMicros
  metaS : MSame s.metaD s'.metaD

theorem Frame.refl (s : State) : Frame s s := ⟨rfl, rfl, rfl, rfl, rfl, rfl, rfl, MSame.refl _⟩

theorem Frame.trans {a b c : State} (h1 : Frame a b) (h2 : Frame b c) : Frame a c :=
  ⟨h2.all.trans h1.all, h2.rate.trans h1.rate, h2.obs.trans h1.obs, h2.lli.trans h1.lli, h2.snr.trans h1.snr,
   h2.rows.trans h1.rows, h2.micros.trans h1.micros, h1.metaS.trans h2.metaS⟩

theorem frame_meta (s : State) (m' : Meta) (h : MSame s.metaD m') : Frame s { s with metaD := m' } :=
  ⟨rfl, rfl, rfl, rfl, rfl, rfl, rfl, h⟩

theorem frame_pos (s : State) (p : Option (List Rat)) : Frame s { s with data := { s.data with pos := p } } :=
  ⟨rfl, rfl, rfl, rfl, rfl, rfl, rfl, MSame.refl _⟩

theorem bind_ok' {α β} {x : Except Err α} {f : α → Except Err β} {b : β} (h : (x >>= f) = .ok b) :
    ∃ a, x = .ok a ∧ f a = .ok b := by
  cases x with
  | error e => simp [bind, Except.bind] at h
  | ok a => exact ⟨a, rfl, h⟩

theorem mapM_mem {α β} (f : α → Except Err β) : ∀ (l : List α) (r : List β), l.mapM f = .ok r →
    ∀ b ∈ r, ∃ a ∈ l, f a = .ok b := by
  intro l
  induction l with
  | nil => intro r h b hb; simp [List.mapM_nil, pure, Except.pure] at h; subst h; simp at hb
  | cons a l ih =>
    intro r h b hb
    rw [List.mapM_cons] at h
    obtain ⟨b0, hb0, h2⟩ := bind_ok' h
    obtain ⟨rs, hrs, h3⟩ := bind_ok' h2
    simp [pure, Except.pure] at h3
    subst h3
    rcases List.mem_cons.mp hb with rfl | hb'
    · exact ⟨a, by simp, hb0⟩
    · obtain ⟨a', ha', hf⟩ := ih rs hrs b hb'
      exact ⟨a', by simp [ha'], hf⟩

def keysOk (v : Values) : Prop := ∀ kv ∈ v, key kv.1 ≠ key "marker_name"

theorem frame_parseString (v : Values) (s : State) (hv : keysOk v) : Frame s (parseString v s) := by
  unfold parseString
  apply frame_meta
  apply MSame_foldl
  intro m x hx
  obtain ⟨k, t⟩ := x
  exact MSame_set m _ _ (unprot_single _ (hv (k, t) hx))

theorem frame_parseFloatFields (v : Values) (s s' : State) (hv : keysOk v) (h : parseFloatFields v s = .ok s') : Frame s s' := by
  unfold parseFloatFields at h
  obtain ⟨nums, hn, h⟩ := bind_ok' h
  simp only [pure, Except.pure, Except.ok.injEq] at h
  subst h
  apply frame_meta
  apply MSame_foldl
  intro m x hx
  obtain ⟨a, ha, hf⟩ := mapM_mem _ _ _ hn x hx
  obtain ⟨k, t⟩ := a
  obtain ⟨q, _, hq⟩ := bind_ok' hf
  simp only [pure, Except.pure, Except.ok.injEq] at hq
  subst hq
  exact MSame_set m _ _ (unprot_single _ (hv (k, t) ha))

theorem frame_parseIntegerFields (v : Values) (s s' : State) (hv : keysOk v) (h : parseIntegerFields v s = .ok s') : Frame s s' := by
  unfold parseIntegerFields at h
  obtain ⟨nums, hn, h⟩ := bind_ok' h
  simp only [pure, Except.pure, Except.ok.injEq] at h
  subst h
  apply frame_meta
  apply MSame_foldl
  intro m x hx
  obtain ⟨a, ha, hf⟩ := mapM_mem _ _ _ hn x hx
  obtain ⟨k, t⟩ := a
  obtain ⟨q, _, hq⟩ := bind_ok' hf
  simp only [pure, Except.pure, Except.ok.injEq] at hq
  subst hq
  exact MSame_set m _ _ (unprot_single _ (hv (k, t) ha))

theorem frame_parseComment (v : Values) (s s' : State) (h : parseComment v s = .ok s') : Frame s s' := by
  unfold parseComment at h
  obtain ⟨t, _, h⟩ := bind_ok' h
  simp only [pure, Except.pure, Except.ok.injEq] at h
  subst h
  exact frame_meta s _ (MSame_set _ _ _ (unprot_single _ (by decide)))

theorem frame_parseApproxPosition (v : Values) (s s' : State) (hv : keysOk v) (h : parseApproxPosition v s = .ok s') : Frame s s' := by
  unfold parseApproxPosition at h
  obtain ⟨_, _, h⟩ := bind_ok' h
  obtain ⟨x, _, h⟩ := bind_ok' h
  obtain ⟨_, _, h⟩ := bind_ok' h
  obtain ⟨y, _, h⟩ := bind_ok' h
  obtain ⟨_, _, h⟩ := bind_ok' h
  obtain ⟨z, _, h⟩ := bind_ok' h
  exact (frame_pos s (some [x, y, z])).trans (frame_parseFloatFields v _ s' hv h)

theorem MSame_setTimeSys (ts : Str) (m : Meta) : MSame m (setTimeSys ts m) := by
  unfold setTimeSys
  split
  · exact MSame.refl m
  · exact MSame_set _ _ _ (unprot_single _ (by decide))

theorem frame_parseTimeOfFirstObs (v : Values) (s s' : State) (h : parseTimeOfFirstObs v s = .ok s') : Frame s s' := by
  unfold parseTimeOfFirstObs at h
  obtain ⟨ts, _, h⟩ := bind_ok' h
  obtain ⟨y, _, h⟩ := bind_ok' h
  split at h
  · obtain ⟨t, _, h⟩ := bind_ok' h
    simp only [pure, Except.pure, Except.ok.injEq] at h
    subst h
    exact frame_meta s _ ((MSame_setTimeSys ts _).trans (MSame_set _ _ _ (unprot_single _ (by decide))))
  · simp only [pure, Except.pure, Except.ok.injEq] at h
    subst h
    exact frame_meta s _ (MSame_setTimeSys ts _)

theorem frame_parseTimeOfLastObs (v : Values) (s s' : State) (h : parseTimeOfLastObs v s = .ok s') : Frame s s' := by
  unfold parseTimeOfLastObs at h
  obtain ⟨ts, _, h⟩ := bind_ok' h
  obtain ⟨y, _, h⟩ := bind_ok' h
  have hm : MSame s.metaD (if ts ≠ [] then setTimeSys ts s.metaD else s.metaD) := by
    split
    · exact MSame_setTimeSys ts _
    · exact MSame.refl _
  split at h
  · obtain ⟨t, _, h⟩ := bind_ok' h
    simp only [pure, Except.pure, Except.ok.injEq] at h
    subst h
    exact frame_meta s _ (hm.trans (MSame_set _ _ _ (unprot_single _ (by decide))))
  · simp only [pure, Except.pure, Except.ok.injEq] at h
    subst h
    exact frame_meta s _ hm

theorem frame_parseLeapSeconds (v : Values) (s : State) : Frame s (parseLeapSeconds v s) := by
  unfold parseLeapSeconds
  apply frame_meta
  apply MSame_foldl
  intro m x _
  obtain ⟨k, t⟩ := x
  exact MSame_set m _ _ (unprot_pair _ _ (by decide))

theorem MSame_del (m : Meta) (q : List Str) (h : ∀ p, Prot p → isPrefix q p = false) : MSame m (m.del q) :=
  fun p hp _ => get_del m q p (h p hp)

theorem frame_parseApplied (name : String) (hn : key name ≠ key "obstypes") (v : Values) (s s' : State)
    (h : parseApplied name v s = .ok s') : Frame s s' := by
  unfold parseApplied at h
  obtain ⟨sy, _, h⟩ := bind_ok' h
  obtain ⟨prg, _, h⟩ := bind_ok' h
  obtain ⟨url, _, h⟩ := bind_ok' h
  simp only [pure, Except.pure, Except.ok.injEq] at h
  subst h
  apply frame_meta
  refine ((MSame_del _ _ ?_).trans (MSame_set _ _ _ (unprot_len3 _ _ _))).trans (MSame_set _ _ _ (unprot_len3 _ _ _))
  intro p hp
  rcases hp with rfl | ⟨sy', rfl⟩
  · simp [isPrefix, List.isPrefixOf]
  · have : (key name == key "obstypes") = false := by simp [hn]
    simp [isPrefix, List.isPrefixOf, this]

theorem MSame_setdefault (m : Meta) (q : List Str) (h : Unprot q) : MSame m (m.setdefaultDict q) :=
  fun p hp _ => get_setdefault_ne m q p (h p hp)

theorem unprot_len4 (a b c d : Str) : Unprot [a, b, c, d] := by
  intro p hp
  rcases hp with rfl | ⟨sy, rfl⟩ <;> simp

theorem foldl_error {α} (step : Except Err Meta → α → Except Err Meta) (herr : ∀ e x, step (.error e) x = .error e) :
    ∀ (l : List α) (e : Err), l.foldl step (.error e) = .error e := by
  intro l
  induction l with
  | nil => intro e; rfl
  | cons x l ih => intro e; rw [List.foldl_cons, herr, ih]

theorem foldl_except_MSame {α} (step : Except Err Meta → α → Except Err Meta)
    (hstep : ∀ m x m', step (.ok m) x = .ok m' → MSame m m') (herr : ∀ e x, step (.error e) x = .error e) :
    ∀ (l : List α) (m0 m' : Meta), l.foldl step (.ok m0) = .ok m' → MSame m0 m' := by
  intro l
  induction l with
  | nil => intro m0 m' h; simp only [List.foldl_nil, Except.ok.injEq] at h; subst h; exact MSame.refl _
  | cons x l ih =>
    intro m0 m' h
    rw [List.foldl_cons] at h
    cases hx : step (.ok m0) x with
    | error e => rw [hx, foldl_error step herr] at h; simp at h
    | ok m1 => rw [hx] at h; exact (hstep m0 x m1 hx).trans (ih m1 m' h)

theorem frame_parseGlonassSlot (v : Values) (s s' : State) (h : parseGlonassSlot v s = .ok s') : Frame s s' := by
  unfold parseGlonassSlot at h
  obtain ⟨m, hm, h⟩ := bind_ok' h
  simp only [pure, Except.pure, Except.ok.injEq] at h
  subst h
  apply frame_meta
  refine (MSame_setdefault s.metaD [key "glonass_slot"] (unprot_single (key "glonass_slot") (by decide))).trans ?_
  refine foldl_except_MSame _ ?_ ?_ _ _ _ hm
  · intro m0 x m1 hx
    simp only [bind, Except.bind, pure, Except.pure] at hx
    split at hx
    · simp only [Except.ok.injEq] at hx; subst hx; exact MSame.refl _
    · split at hx
      · obtain ⟨i, _, hx⟩ := bind_ok' hx
        simp only [pure, Except.pure, Except.ok.injEq] at hx
        subst hx
        exact MSame_set _ _ _ (unprot_pair _ _ (by decide))
      · simp [throw, throwThe, MonadExcept.throw, MonadExceptOf.throw] at hx
  · intro e x; rfl

theorem frame_parseGlonassBias (v : Values) (s s' : State) (h : parseGlonassBias v s = .ok s') : Frame s s' := by
  unfold parseGlonassBias at h
  obtain ⟨m, hm, h⟩ := bind_ok' h
  simp only [pure, Except.pure, Except.ok.injEq] at h
  subst h
  apply frame_meta
  refine (MSame_setdefault s.metaD [key "glonass_bias"] (unprot_single (key "glonass_bias") (by decide))).trans ?_
  refine foldl_except_MSame _ ?_ ?_ _ _ _ hm
  · intro m0 x m1 hx
    simp only [bind, Except.bind, pure, Except.pure] at hx
    split at hx
    · simp only [Except.ok.injEq] at hx; subst hx; exact MSame.refl _
    · split at hx
      · obtain ⟨i, _, hx⟩ := bind_ok' hx
        simp only [pure, Except.pure, Except.ok.injEq] at hx
        subst hx
        exact MSame_set _ _ _ (unprot_pair _ _ (by decide))
      · simp [throw, throwThe, MonadExcept.throw, MonadExceptOf.throw] at hx
  · intro e x; rfl

/-! ### `SYS / PHASE SHIFT` (writes `meta["phase_shift"]…` and its own cache fields) -/

theorem frame_meta_cache (s : State) (m' : Meta) (c : Cache) (h : MSame s.metaD m') : Frame s { s with metaD := m', cache := c } :=
  ⟨rfl, rfl, rfl, rfl, rfl, rfl, rfl, h⟩

theorem MSame_ps1 (m : Meta) (sy : Str) :
    MSame m (if (m.setdefaultDict [key "phase_shift"]).has [key "phase_shift", sy] = true then m.setdefaultDict [key "phase_shift"]
      else (m.setdefaultDict [key "phase_shift"]).set [key "phase_shift", sy] Leaf.empty) := by
  have h0 := MSame_setdefault m [key "phase_shift"] (unprot_single (key "phase_shift") (by decide))
  split
  · exact h0
  · exact h0.trans (MSame_set _ _ _ (unprot_pair _ _ (by decide)))

theorem MSame_ps2 (m : Meta) (sy t corr : Str) (l : List Str) :
    MSame m (((if (m.setdefaultDict [key "phase_shift"]).has [key "phase_shift", sy] = true then m.setdefaultDict [key "phase_shift"]
      else (m.setdefaultDict [key "phase_shift"]).set [key "phase_shift", sy] Leaf.empty).set
        [key "phase_shift", sy, t, key "corr"] (Leaf.text corr)).set [key "phase_shift", sy, t, key "sat"] (Leaf.list l)) :=
  ((MSame_ps1 m sy).trans (MSame_set _ _ _ (unprot_len4 _ _ _ _))).trans (MSame_set _ _ _ (unprot_len4 _ _ _ _))

theorem frame_parsePhaseShift (v : Values) (s s' : State) (h : parsePhaseShift v s = .ok s') : Frame s s' := by
  unfold parsePhaseShift at h
  simp only [] at h
  obtain ⟨sysf, _, h⟩ := bind_ok' h
  split at h
  · obtain ⟨t0, _, h⟩ := bind_ok' h
    obtain ⟨corr0, _, h⟩ := bind_ok' h
    obtain ⟨c, hc, h⟩ := bind_ok' h
    obtain ⟨sy, _, h⟩ := bind_ok' h
    obtain ⟨sats, _, h⟩ := bind_ok' h
    obtain ⟨old, _, h⟩ := bind_ok' h
    obtain ⟨t, _, h⟩ := bind_ok' h
    split at h
    · obtain ⟨corr, _, h⟩ := bind_ok' h
      simp only [pure, Except.pure, bind, Except.bind, Except.ok.injEq] at h
      subst h
      exact frame_meta_cache s _ _ (MSame_ps2 s.metaD sy t corr _)
    · simp only [pure, Except.pure, bind, Except.bind, Except.ok.injEq] at h
      subst h
      exact frame_meta_cache s _ _ (MSame_ps1 s.metaD sy)
  · obtain ⟨c, hc, h⟩ := bind_ok' h
    obtain ⟨sy, _, h⟩ := bind_ok' h
    obtain ⟨sats, _, h⟩ := bind_ok' h
    obtain ⟨old, _, h⟩ := bind_ok' h
    obtain ⟨t, _, h⟩ := bind_ok' h
    split at h
    · obtain ⟨corr, _, h⟩ := bind_ok' h
      simp only [pure, Except.pure, bind, Except.bind, Except.ok.injEq] at h
      subst h
      exact frame_meta_cache s _ _ (MSame_ps2 s.metaD sy t corr _)
    · simp only [pure, Except.pure, bind, Except.bind, Except.ok.injEq] at h
      subst h
      exact frame_meta_cache s _ _ (MSame_ps1 s.metaD sy)

end Midgard.Spec.Rinex3ObsFile
