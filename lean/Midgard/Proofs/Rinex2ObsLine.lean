/-
C11, RINEX 2, part 3: an observation line from the text to its five values (`obs_text_values`): columns of the rendered,
right-stripped line, fields beyond the end of a short last line, `_float` of value / LLI / signal strength.
Core Lean only.
-/
import Midgard.Proofs.Rinex2ObsEpoch

namespace Midgard.Spec.Rinex2ObsFile
open Midgard.Text Midgard.FixedCol Midgard.Decimal Midgard.ChainParser Midgard.RinexObs Midgard.Rinex2Obs
open Midgard.Spec.Rinex (renderCells obs2 obsLayout obsTriple obsAligns renderRecord)
open Midgard.Spec.Rinex3ObsFile (Obs Cell Style styled rstrip_styled floatOpt_cell cell_fits mem_renderFrom stripChars_none mem_rstrip
  numChar numText numChar_not_space filter_zip_all sortFields_zip keysSorted)

/-! ### an observation line: from the text to the values -/

def obsCells (c : List Obs) : List Str := c.flatMap fun o => [o.value.text, o.lli.text, o.ssi.text]

def obsLine (c : List Obs) : Str := renderCells (obs2 c.length) (obsCells c)

theorem obsCells_length (c : List Obs) : (obsCells c).length = 3 * c.length := by
  unfold obsCells
  induction c with
  | nil => rfl
  | cons o os ih => simp [List.flatMap_cons, ih]; omega

theorem obsLine_eq (c : List Obs) (h : c.length ≤ 5) :
    (renderRecord "OBS2" (c.flatMap fun o => [o.value.text, o.lli.text, o.ssi.text])).getD [] = obsLine c := by
  have hl := obsCells_length c
  unfold obsCells at hl
  have h1 : (c.flatMap fun o => [o.value.text, o.lli.text, o.ssi.text]).length % 3 = 0 := by rw [hl]; omega
  have h2 : (c.flatMap fun o => [o.value.text, o.lli.text, o.ssi.text]).length ≤ 15 := by rw [hl]; omega
  have h3 : (c.flatMap fun o => [o.value.text, o.lli.text, o.ssi.text]).length / 3 = c.length := by rw [hl]; omega
  simp only [renderRecord, String.reduceEq, if_false, if_true]
  rw [if_pos ⟨h1, h2⟩, h3]
  rfl

theorem triple_slices2' (line : Str) (j : Nat) :
    let w := ljust 16 (Text.slice (16 * j) (16 * j + 16) line)
    [strip (Text.slice 0 14 w), strip (Text.slice 14 15 w), strip (Text.slice 15 16 w)] =
      (obsTriple j (0 + 16 * j)).map (fun g => FixedCol.slice g line) := by
  simp only [obsTriple, List.map_cons, List.map_nil, FixedCol.slice, sliceRaw]
  rw [strip_slice_ljust, strip_slice_ljust, strip_slice_ljust, slice_slice, slice_slice, slice_slice]
  have e1 : min (16 * j + 14) (16 * j + 16) = 0 + 16 * j + 14 := by omega
  have e2 : min (16 * j + 15) (16 * j + 16) = 0 + 16 * j + 15 := by omega
  have e3 : min (16 * j + 16) (16 * j + 16) = 0 + 16 * j + 16 := by omega
  have e4 : 16 * j + 0 = 0 + 16 * j := by omega
  have e5 : 16 * j + 14 = 0 + 16 * j + 14 := by omega
  have e6 : 16 * j + 15 = 0 + 16 * j + 15 := by omega
  rw [e1, e2, e3, e4, e5, e6]

/-- a field that holds observation `o` -/
theorem field_some (line : Str) (j : Nat) (o : Obs) (ho : o.wf = true)
    (h : (obsTriple j (0 + 16 * j)).map (fun g => FixedCol.slice g line) = [o.value.text, o.lli.text, o.ssi.text]) :
    tripleOf (Text.slice (16 * j) (16 * j + 16) line) = .ok (o.value.val, o.lli.val, o.ssi.val) := by
  have hs := triple_slices2' line j
  simp only at hs
  rw [h] at hs
  simp only [List.cons.injEq, and_true] at hs
  obtain ⟨h1, h2, h3⟩ := hs
  simp only [Obs.wf, Bool.and_eq_true] at ho
  unfold tripleOf
  simp only
  rw [← floatOpt_strip (Text.slice 0 14 _), ← floatOpt_strip (Text.slice 14 15 _), ← floatOpt_strip (Text.slice 15 16 _), h1, h2, h3,
    floatOpt_cell ho.1.1, floatOpt_cell ho.1.2, floatOpt_cell ho.2]
  rfl

/-- a field beyond the end of the line -/
theorem field_none (line : Str) (j : Nat) (hlen : line.length ≤ 16 * j) :
    tripleOf (Text.slice (16 * j) (16 * j + 16) line) = .ok none3 := by
  have he : Text.slice (16 * j) (16 * j + 16) line = [] := by
    unfold Text.slice
    apply List.drop_eq_nil_of_le
    simp; omega
  unfold tripleOf
  rw [he]
  have hb : ∀ a b, floatOpt (Text.slice a b (ljust 16 [])) = .ok none := by
    intro a b
    have : isBlank (Text.slice a b (ljust 16 [])) = true := isBlank_slice (by simp [ljust, isBlank_blanks]) a b
    simp [floatOpt, this, pure, Except.pure]
  simp only [hb, bind, Except.bind, pure, Except.pure]
  rfl

theorem obs2_sorted : (List.range 6).all (fun m => Sorted (obs2 m).layout && Within (16 * m) (obs2 m).layout) = true := by
  decide +kernel

theorem chunk_fits : ∀ (k : Nat) (os : List Obs), os.all Obs.wf = true →
    Fits ((List.range' k os.length).flatMap fun j => obsTriple j (0 + 16 * j))
      (((List.range' k os.length).flatMap fun _ => [Spec.Rinex.R, Spec.Rinex.L, Spec.Rinex.L]).zip
        (os.flatMap fun o => [o.value.text, o.lli.text, o.ssi.text])) = true := by
  intro k os
  induction os generalizing k with
  | nil => intro _; rfl
  | cons o os ih =>
    intro hw
    simp only [List.all_cons, Bool.and_eq_true] at hw
    have ho := hw.1
    simp only [Obs.wf, Bool.and_eq_true] at ho
    have v := cell_fits ho.1.1
    have l := cell_fits ho.1.2
    have s := cell_fits ho.2
    simp only [List.length_cons, List.range'_succ, List.flatMap_cons, obsTriple, List.cons_append, List.nil_append,
      List.zip_cons_cons, Fits, Field.width, Bool.and_eq_true]
    refine ⟨⟨decide_eq_true (by omega), v.2⟩, ⟨decide_eq_true (by omega), l.2⟩, ⟨decide_eq_true (by omega), s.2⟩, ?_⟩
    exact ih (k + 1) hw.2

theorem obsLine_fits (c : List Obs) (h : c.all Obs.wf = true) :
    Fits (obs2 c.length).layout ((obs2 c.length).aligns.zip (obsCells c)) = true := by
  have := chunk_fits 0 c h
  simp only [obs2, obsLayout, obsAligns, obsCells]
  rw [List.range_eq_range']
  exact this

/-- the slices of the standard's columns of a rendered, right-stripped observation line -/
theorem obsLine_slices (c : List Obs) (hm : c.length ≤ 5) (h : c.all Obs.wf = true) :
    (obs2 c.length).layout.map (fun g => FixedCol.slice g (rstrip (obsLine c))) = obsCells c ∧ (rstrip (obsLine c)).length ≤ 16 * c.length := by
  have hs := List.all_eq_true.mp obs2_sorted c.length (List.mem_range.mpr (by omega))
  simp only [Bool.and_eq_true] at hs
  have hf := obsLine_fits c h
  have hall := slice_renderA_rstrip (obs2 c.length).layout ((obs2 c.length).aligns.zip (obsCells c)) hs.1 hf
  have hal : (obs2 c.length).aligns.length = (obsCells c).length := by
    rw [obsCells_length]; simp [obs2, obsAligns]
    induction c.length with
    | zero => rfl
    | succ n ih => simp [List.range_succ, List.flatMap_append, ih]; omega
  rw [Midgard.RinexObs.Records.zip_snd _ _ hal] at hall
  refine ⟨hall, ?_⟩
  have h1 := Midgard.Spec.Rinex3ObsFile.length_rstrip_le (obsLine c)
  have h2 : (obsLine c).length ≤ 16 * c.length := renderA_length_le hs.1 hf hs.2
  omega


theorem flat3_get (F : Nat → List Str) (G : Obs → List Str) (hF : ∀ k, (F k).length = 3) (hG : ∀ o, (G o).length = 3) :
    ∀ (c : List Obs) (base : Nat), (List.range' base c.length).flatMap F = c.flatMap G →
      ∀ j o, c[j]? = some o → F (base + j) = G o := by
  intro c
  induction c with
  | nil => intro base _ j o h; simp at h
  | cons o0 os ih =>
    intro base h j o hj
    simp only [List.length_cons, List.range'_succ, List.flatMap_cons] at h
    have := List.append_inj h (by rw [hF, hG])
    cases j with
    | zero =>
      simp only [List.getElem?_cons_zero, Option.some.injEq] at hj
      subst hj
      simpa using this.1
    | succ j =>
      simp only [List.getElem?_cons_succ] at hj
      have := ih (base + 1) this.2 j o hj
      rw [← this]; congr 1; omega

def tripleAt (c : List Obs) (j : Nat) : Triple :=
  match c[j]? with
  | some o => (o.value.val, o.lli.val, o.ssi.val)
  | none => none3

theorem pad5_eq (c : List Obs) (h : c.length ≤ 5) : pad5 (triples c) = (List.range 5).map (tripleAt c) := by
  match c, h with
  | [], _ => rfl
  | [_], _ => rfl
  | [_, _], _ => rfl
  | [_, _, _], _ => rfl
  | [_, _, _, _], _ => rfl
  | [_, _, _, _, _], _ => rfl
  | _ :: _ :: _ :: _ :: _ :: _ :: _, h => simp at h

theorem obs2_def : Midgard.Generated.Rinex2ObsCols.records.find? (·.label == "True") =
    some ⟨"True", "_parse_observation", .newline,
      [⟨"obs_1", 0, 16⟩, ⟨"obs_2", 16, 32⟩, ⟨"obs_3", 32, 48⟩, ⟨"obs_4", 48, 64⟩, ⟨"obs_5", 64, 80⟩], []⟩ := by
  decide +kernel

def obsNames : List String := ["obs_1", "obs_2", "obs_3", "obs_4", "obs_5"]

def isO (k : String) : Bool := "obs_".toList.isPrefixOf k.toList

theorem obsNames_facts : obsNames.all isO = true ∧ keysSorted obsNames = true := by decide +kernel

theorem mem_slice {x : Char} {a b : Nat} {l : Str} (h : x ∈ Text.slice a b l) : x ∈ l := by
  unfold Text.slice at h
  exact List.mem_of_mem_take (List.mem_of_mem_drop h)

theorem obsLine_chars (c : List Obs) (h : c.all Obs.wf = true) : ∀ x ∈ obsLine c, x = ' ' ∨ numChar x = true := by
  intro x hx
  rcases mem_renderFrom _ _ _ x hx with h1 | ⟨cell, hcell, hcc⟩
  · left; exact h1
  · right
    have hm : cell.2 ∈ obsCells c := (List.of_mem_zip (by rw [show cell = (cell.1, cell.2) from rfl] at hcell; exact hcell)).2
    simp only [obsCells, List.mem_flatMap] at hm
    obtain ⟨o, ho, hto⟩ := hm
    have hw := List.all_eq_true.mp h o ho
    simp only [Obs.wf, Cell.wf, Bool.and_eq_true] at hw
    simp only [List.mem_cons, List.not_mem_nil, or_false] at hto
    rcases hto with e | e | e <;> rw [e] at hcc
    · exact List.all_eq_true.mp hw.1.1.1.1 x hcc
    · exact List.all_eq_true.mp hw.1.2.1.1 x hcc
    · exact List.all_eq_true.mp hw.2.1.1 x hcc

/-- **from the text of an observation line to its five values**: the fields of a rendered line (as formatted,
right-stripped or filled to 80 columns) with `m ≤ 5` observations are the observations' values, LLI and signal
strength (blank or zero = absent), followed by `5 - m` absent ones -/
theorem obs_text_values (st : Style) (c : List Obs) (hm : c.length ≤ 5) (h : c.all Obs.wf = true) :
    (fieldsWithPrefix ((⟨"True", "_parse_observation", .newline,
        [⟨"obs_1", 0, 16⟩, ⟨"obs_2", 16, 32⟩, ⟨"obs_3", 32, 48⟩, ⟨"obs_4", 48, 64⟩, ⟨"obs_5", 64, 80⟩], []⟩ : LabelDef).values
          (rstrip (styled st (obsLine c)))) "obs_").mapM (fun f => tripleOf f.2) = .ok (pad5 (triples c)) := by
  rw [rstrip_styled]
  obtain ⟨hall, hlen⟩ := obsLine_slices c hm h
  have hchars : ∀ x ∈ rstrip (obsLine c), ['\n'].contains x = false := by
    intro x hx
    rcases obsLine_chars c h x (mem_rstrip hx) with rfl | hn
    · decide
    · have := numChar_not_space hn
      simp only [List.contains_cons, List.contains_nil, Bool.or_false, beq_eq_false_iff_ne]
      rintro rfl; revert this; decide
  generalize rstrip (obsLine c) = line at hall hlen hchars
  have hsl : ∀ a b, stripChars ['\n'] (Text.slice a b line) = Text.slice a b line :=
    fun a b => stripChars_none _ _ (fun x hx => hchars x (mem_slice hx))
  have hv : (⟨"True", "_parse_observation", .newline,
        [⟨"obs_1", 0, 16⟩, ⟨"obs_2", 16, 32⟩, ⟨"obs_3", 32, 48⟩, ⟨"obs_4", 48, 64⟩, ⟨"obs_5", 64, 80⟩], []⟩ : LabelDef).values line =
      obsNames.zip [Text.slice (16 * 0) (16 * 0 + 16) line, Text.slice (16 * 1) (16 * 1 + 16) line,
        Text.slice (16 * 2) (16 * 2 + 16) line, Text.slice (16 * 3) (16 * 3 + 16) line, Text.slice (16 * 4) (16 * 4 + 16) line] := by
    simp only [LabelDef.values, List.map_cons, List.map_nil, List.append_nil, StripOpt.apply, sliceRaw, hsl]
    rfl
  rw [hv]
  unfold fieldsWithPrefix
  have hf : (fun (x : String × Str) => match x with | (k, _) => "obs_".toList.isPrefixOf k.toList) = fun kv => isO kv.1 := by
    funext x; obtain ⟨k, c⟩ := x; rfl
  rw [hf, filter_zip_all isO obsNames _ obsNames_facts.1, sortFields_zip obsNames _ obsNames_facts.2]
  -- the five fields
  have hflat : (List.range' 0 c.length).flatMap (fun k => (obsTriple k (0 + 16 * k)).map fun g => FixedCol.slice g line) =
      c.flatMap fun o => [o.value.text, o.lli.text, o.ssi.text] := by
    have : (obs2 c.length).layout = (List.range' 0 c.length).flatMap fun k => obsTriple k (0 + 16 * k) := by
      simp [obs2, obsLayout, List.range_eq_range']
    rw [this, List.map_flatMap] at hall
    exact hall
  have hget := flat3_get (fun k => (obsTriple k (0 + 16 * k)).map fun g => FixedCol.slice g line)
    (fun o => [o.value.text, o.lli.text, o.ssi.text]) (fun k => by simp [obsTriple]) (fun o => rfl) c 0 hflat
  have hT : ∀ j, tripleOf (Text.slice (16 * j) (16 * j + 16) line) = .ok (tripleAt c j) := by
    intro j
    unfold tripleAt
    cases hj : c[j]? with
    | some o =>
      have ho : o.wf = true := List.all_eq_true.mp h o (List.mem_of_getElem? hj)
      have := hget j o hj
      have e0 : 0 + j = j := Nat.zero_add j
      rw [e0] at this
      exact field_some line j o ho this
    | none =>
      have : c.length ≤ j := by simpa using hj
      exact field_none line j (by have := Nat.mul_le_mul_left 16 this; omega)
  rw [pad5_eq c hm]
  simp only [obsNames, List.zip_cons_cons, List.zip_nil_right, List.mapM_cons, List.mapM_nil, hT, bind, Except.bind, pure, Except.pure]
  rfl

end Midgard.Spec.Rinex2ObsFile
