/-
C09 — where the rows go in `extend`, at the level of one array: the new array is the old one with
the other rows spliced in at the insertion position (appended, since every field inserts at its own
`num_obs`), with unit factors applied for float fields.
-/
import Midgard.Proofs.DatasetSharing

namespace Midgard.Dataset

/-- `np.insert` of the plain kinds: the rows of the new array -/
theorem insertPlain_rows (a pos : Nat) (brows : List Row) (s : St) (r : Nat) (s' : St)
    (h : insertPlain a pos brows s = .ok (r, s')) :
    ∃ oa orr, s.heap[a]? = some oa ∧ s'.heap[r]? = some orr ∧ orr.rows = insertAt oa.rows pos brows ∧
      orr.kind = oa.kind ∧ orr.ndim = oa.ndim ∧ orr.cols = oa.cols := by
  simp only [insertPlain] at h
  split at h
  · simp at h
  · rename_i oa hoa
    split at h
    · simp at h
    · simp only [Except.ok.injEq, Prod.mk.injEq] at h
      obtain ⟨rfl, rfl⟩ := h
      exact ⟨oa, _, hoa, alloc_get s _, rfl, rfl, rfl, rfl⟩

/-- `insert(a, pos, b, memo)` when the memo knows neither array: the new array has the rows of `a`
with the rows of `b` — every epoch converted to the scale and shown in the format of `a` when `b` is a time of
another scale / format (`convRows`), unchanged otherwise — spliced in at `pos`; it keeps kind, scale and format of `a` -/
theorem insertObj_rows (fuel a pos b : Nat) (s : St) (r : Nat) (s' : St)
    (h : insertObj (fuel + 1) a pos b s = .ok (r, s')) (ha : s.find a = none) (hb : s.find b = none) :
    ∃ oa ob orr, s.heap[a]? = some oa ∧ s.heap[b]? = some ob ∧ s'.heap[r]? = some orr ∧
      orr.rows = insertAt oa.rows pos (convRows s.conv oa.tag ob) ∧ orr.kind = oa.kind ∧ orr.tag = oa.tag := by
  simp only [insertObj, ha, hb] at h
  split at h
  · rename_i oa ob hoa hob
    split at h
    · simp at h
    · split at h
      · simp at h
      · rename_i oth s1 _
        split at h
        · simp at h
        · rename_i rp s2 _
          simp only [Except.ok.injEq, Prod.mk.injEq] at h
          obtain ⟨rfl, rfl⟩ := h
          let new : Obj := { oa with rows := insertAt oa.rows pos (convRows s.conv oa.tag ob), other := oth, refPos := rp }
          refine ⟨oa, ob, new, hoa, hob, ?_, rfl, rfl, rfl⟩
          simp only [St.set]
          exact alloc_get s2 new
  · simp at h

/-- appended rows of a rectangular field: `insertAt rows rows.length b = rows ++ b` (`extend appends`) and
`scaleRow` is the unit conversion of one row (`other.data * factors`) -/
theorem extend_float_rows (us : Units) (nm : String) (o no : Nat) (u : Option (List String)) (l : Nat)
    (nm2 : String) (o2 no2 : Nat) (u2 : Option (List String)) (l2 : Nat) (s : St) (f' : Field) (s' : St)
    (h : extendLeaf us nm .float o no u l (.leaf nm2 .float o2 no2 u2 l2) s = .ok (f', s')) :
    ∃ oa ob fs o' no' orr, s.heap[o]? = some oa ∧ s.heap[o2]? = some ob ∧ unitFactors us u u2 = .ok fs ∧
      f' = .leaf nm .float o' no' u l ∧ s'.heap[o']? = some orr ∧
      orr.rows = insertAt oa.rows no (ob.rows.map (scaleRow fs)) := by
  simp only [extendLeaf, bne_self_eq_false, Bool.false_eq_true, if_false] at h
  split at h
  · rename_i oa ob hoa hob
    split at h
    · simp at h
    · split at h
      · simp at h
      · rename_i o' s1 hr1
        simp only [Except.ok.injEq, Prod.mk.injEq] at h
        obtain ⟨rfl, rfl⟩ := h
        simp only [Kind.isDelta, Bool.false_eq_true, if_false] at hr1
        split at hr1
        · simp at hr1
        · simp only [beq_self_eq_true, if_true] at hr1
          split at hr1
          · simp at hr1
          · rename_i fs hfs
            split at hr1
            · simp at hr1
            · obtain ⟨oa', orr, h1, h2, h3, _, _, _⟩ := insertPlain_rows o no _ s o' s1 hr1
              rw [hoa] at h1; cases h1
              exact ⟨oa, ob, fs, o', _, orr, hoa, hob, hfs, rfl, h2, h3⟩
  · simp at h

/-! ### the memo contract of `insert`, and the content of an extended time field -/

/-- a memo hit on `a`: `insert` hands out the array made earlier and changes nothing -/
theorem insertObj_hit_a (fuel a pos b : Nat) (s : St) (r : Nat) (h : s.find a = some r) :
    insertObj (fuel + 1) a pos b s = .ok (r, s) := by
  simp [insertObj, h]

/-- a memo hit on `b` (and none on `a`) -/
theorem insertObj_hit_b (fuel a pos b : Nat) (s : St) (r : Nat) (ha : s.find a = none) (h : s.find b = some r) :
    insertObj (fuel + 1) a pos b s = .ok (r, s) := by
  simp [insertObj, ha, h]

/-- no hit: the new array is registered under the id of `a` and under the id `b` had when it was handed in -/
theorem insertObj_registers (fuel a pos b : Nat) (s : St) (r : Nat) (s' : St)
    (h : insertObj (fuel + 1) a pos b s = .ok (r, s')) (ha : s.find a = none) (hb : s.find b = none) :
    s'.find a = some r ∧ s'.find b = some r := by
  simp only [insertObj, ha, hb] at h
  split at h
  · split at h
    · simp at h
    · split at h
      · simp at h
      · split at h
        · simp at h
        · simp only [Except.ok.injEq, Prod.mk.injEq] at h
          obtain ⟨rfl, rfl⟩ := h
          constructor
          · simp only [St.find, St.set, List.lookup]
            by_cases hab : a = b
            · simp [hab]
            · have : (a == b) = false := by simpa using hab
              simp [this]
          · simp [St.find, St.set]
  · simp at h

/-- **extending a time / time-delta field, content**: when the memo has seen neither array, the array of the extended
field is the array of self with the epochs of other — each converted to the scale and shown in the format of self when
those differ (`convRows`) — spliced in at the field's `num_obs`; it keeps scale and format of self -/
theorem extendLeaf_time_rows (us : Units) (nm : String) (k : Kind) (hk : k = .time ∨ k = .timeDelta)
    (o no : Nat) (u : Option (List String)) (l : Nat)
    (nm2 : String) (o2 no2 : Nat) (u2 : Option (List String)) (l2 : Nat) (s : St) (f' : Field) (s' : St)
    (h : extendLeaf us nm k o no u l (.leaf nm2 k o2 no2 u2 l2) s = .ok (f', s'))
    (ha : s.find o = none) (hb : s.find o2 = none) :
    ∃ oa ob o' no' orr, s.heap[o]? = some oa ∧ s.heap[o2]? = some ob ∧
      f' = .leaf nm k o' no' u l ∧ s'.heap[o']? = some orr ∧
      orr.rows = insertAt oa.rows no (convRows s.conv oa.tag ob) ∧ orr.tag = oa.tag ∧ no' = orr.rows.length := by
  simp only [extendLeaf, bne_self_eq_false, Bool.false_eq_true, if_false] at h
  split at h
  · rename_i oa ob hoa hob
    split at h
    · simp at h
    · split at h
      · simp at h
      · rename_i o' s1 hr1
        simp only [Except.ok.injEq, Prod.mk.injEq] at h
        obtain ⟨rfl, rfl⟩ := h
        have hr2 : insertObj (s.heap.length + 1) o no o2 s = .ok (o', s1) := by
          rcases hk with rfl | rfl <;>
          · simp only [Kind.isDelta, Kind.isPlain, Bool.false_eq_true, if_false] at hr1
            split at hr1
            · simp at hr1
            · simpa using hr1
        obtain ⟨oa', ob', orr, q1, q2, q3, q4, _, q6⟩ := insertObj_rows _ o no o2 s o' s1 hr2 ha hb
        rw [hoa] at q1; cases q1
        rw [hob] at q2; cases q2
        exact ⟨oa, ob, o', _, orr, hoa, hob, rfl, q3, q4, q6, by simp [objLen, q3]⟩
  · simp at h

theorem find_none_of_bound (s : St) (hbnd : ∀ k v, (k, v) ∈ s.memo → k < s.heap.length) :
    s.find s.heap.length = none := by
  simp only [St.find]
  rw [List.lookup_eq_none_iff]
  intro p hp
  have := hbnd p.1 p.2 hp
  have hne : s.heap.length ≠ p.1 := by omega
  simpa using hne

/-- **extending a sigma field, content**: values and sigmas of other, column by column times the unit factor, appended
at the field's `num_obs` (the memo knows the array of self not, and only arrays that exist) -/
theorem extendLeaf_sigma_rows (us : Units) (nm : String) (o no : Nat) (u : Option (List String)) (l : Nat)
    (nm2 : String) (o2 no2 : Nat) (u2 : Option (List String)) (l2 : Nat) (s : St) (f' : Field) (s' : St)
    (h : extendLeaf us nm .sigma o no u l (.leaf nm2 .sigma o2 no2 u2 l2) s = .ok (f', s'))
    (ha : s.find o = none) (hbnd : ∀ k v, (k, v) ∈ s.memo → k < s.heap.length) :
    ∃ oa ob fs o' no' orr, s.heap[o]? = some oa ∧ s.heap[o2]? = some ob ∧ unitFactors us u u2 = .ok fs ∧
      f' = .leaf nm .sigma o' no' u l ∧ s'.heap[o']? = some orr ∧
      (ob.tag = oa.tag ∨ ob.tag = "" → orr.rows = insertAt oa.rows no (ob.rows.map (scaleRow fs))) := by
  simp only [extendLeaf, bne_self_eq_false, Bool.false_eq_true, if_false] at h
  split at h
  · rename_i oa ob hoa hob
    split at h
    · simp at h
    · split at h
      · simp at h
      · rename_i o' s1 hr1
        simp only [Except.ok.injEq, Prod.mk.injEq] at h
        obtain ⟨rfl, rfl⟩ := h
        simp only [Kind.isDelta, Bool.false_eq_true, if_false] at hr1
        split at hr1
        · simp at hr1
        · have hsf : (Kind.sigma == Kind.float) = false := by decide
          simp only [hsf, Bool.false_eq_true, if_false, beq_self_eq_true, if_true] at hr1
          split at hr1
          · simp at hr1
          · rename_i fs hfs
            have hlt : o < s.heap.length := by
              have := List.getElem?_eq_some_iff.mp hoa
              exact this.1
            obtain ⟨oa', ot, orr, q1, q2, q3, q4, _, _⟩ := insertObj_rows _ o no s.heap.length
              (s.alloc { ob with rows := ob.rows.map (scaleRow fs) }).2 o' s1 hr1
              (by simpa [St.alloc, St.find] using ha)
              (by simpa [St.alloc, St.find] using find_none_of_bound s hbnd)
            have e1 : (s.alloc { ob with rows := ob.rows.map (scaleRow fs) }).2.heap[o]? = some oa := by
              simp [St.alloc, List.getElem?_append_left hlt, hoa]
            have e2 : (s.alloc { ob with rows := ob.rows.map (scaleRow fs) }).2.heap[s.heap.length]? =
                some { ob with rows := ob.rows.map (scaleRow fs) } := by simp [St.alloc]
            rw [e1] at q1; cases q1
            rw [e2] at q2; cases q2
            refine ⟨oa, ob, fs, o', _, orr, hoa, hob, hfs, rfl, q3, ?_⟩
            intro htag
            rw [q4]
            congr 1
            unfold convRows needsConv
            rcases htag with ht | ht <;> simp [ht]
  · simp at h

/-! ### a second name of an array is served from the memo -/

theorem lookup_filter_ne (k e : Nat) (hne : k ≠ e) : ∀ (l : List (Nat × Nat)),
    List.lookup k (l.filter (fun p => p.1 != e)) = List.lookup k l
  | [] => rfl
  | (a, v) :: l => by
    by_cases hae : a = e
    · subst hae
      have hka : (k == a) = false := by simpa using hne
      simp [List.filter, List.lookup, hka, lookup_filter_ne k a hne l]
    · have : (a != e) = true := by simpa using hae
      simp only [List.filter, this, List.lookup]
      split <;> simp_all [lookup_filter_ne k e hne l]

/-- extending a second field that holds the same array as an already extended field (and whose partner in the other
dataset is any array): the field is served from the memo — it gets the very array made for the first name -/
theorem extendLeaf_served_from_memo (us : Units) (nm : String) (k : Kind) (hk : k = .time ∨ k = .timeDelta)
    (o no : Nat) (u : Option (List String)) (l : Nat)
    (nm2 : String) (o2 no2 : Nat) (u2 : Option (List String)) (l2 : Nat) (s : St) (r : Nat) (oa ob : Obj)
    (hoa : s.heap[o]? = some oa) (hob : s.heap[o2]? = some ob) (hka : oa.kind = k) (hkb : ob.kind = k)
    (hnd : oa.ndim = ob.ndim) (hit : s.find o = some r) :
    extendLeaf us nm k o no u l (.leaf nm2 k o2 no2 u2 l2) s = .ok (.leaf nm k r (objLen s.heap r) u l, s) := by
  rcases hk with rfl | rfl <;>
  simp [extendLeaf, hoa, hob, hka, hkb, hnd, Kind.isDelta, Kind.isPlain, insertObj, hit]

/-- **the mechanism of the listed finding** `extend:shared-array-one-name-missing`: padding (`append_empty` /
`prepend_empty`) a time field whose array was already extended under another name does not pad — the memo of `insert`
hands out the array made for the other name, so the "missing" name holds the other dataset's values -/
theorem padField_served_from_memo (front : Bool) (n : Nat) (nm : String) (k : Kind) (hk : k = .time ∨ k = .timeDelta)
    (o no : Nat) (u : Option (List String)) (l : Nat) (s : St) (r : Nat) (ob : Obj)
    (hob : s.heap[o]? = some ob) (hkb : ob.kind = k) (hit : s.find o = some r) :
    ∃ s', padField front n (.leaf nm k o no u l) s = .ok (.leaf nm k r (objLen s'.heap r) u l, s') ∧
      s'.find o = some r := by
  have hlt : o < s.heap.length := (List.getElem?_eq_some_iff.mp hob).1
  have hit1 : ∀ e : Obj, (s.alloc e).2.find o = some r := fun e => by simpa [St.alloc, St.find] using hit
  rcases hk with rfl | rfl <;>
  · simp only [padField, hob, hkb, bne_self_eq_false, Bool.false_or, hit, Option.isNone_some, Bool.and_false,
      Bool.false_eq_true, if_false, Kind.isPlain, Kind.isDelta]
    simp only [insertObj_hit_a _ o _ _ _ r (hit1 _)]
    refine ⟨_, rfl, ?_⟩
    have hne : ¬ (o = s.heap.length) := by omega
    simp only [St.pop, St.alloc, St.find]
    rw [lookup_filter_ne o _ hne]
    exact hit

end Midgard.Dataset
