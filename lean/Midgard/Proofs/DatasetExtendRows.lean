/-
C09 — where the rows go in `extend`, at the level of one array: the new array is the old one with
the other rows spliced in at the insertion position (appended, since every field inserts at its own
`num_obs`), with unit factors applied for float fields.
-/
import Midgard.Proofs.DatasetSharing

namespace Midgard.Dataset

/-- `np.insert` of the plain kinds: the rows of the new array -/
theorem insertPlain_rows (a pos : Nat) (brows : List Row) (s : St) (r : Nat) (s' : St)
    (h : insertPlain a pos brows s = .ok (r, s')) :
    ∃ oa orr, s.heap[a]? = some oa ∧ s'.heap[r]? = some orr ∧ orr.rows = insertAt oa.rows pos brows ∧
      orr.kind = oa.kind ∧ orr.ndim = oa.ndim ∧ orr.cols = oa.cols := by
  simp only [insertPlain] at h
  split at h
  · simp at h
  · rename_i oa hoa
    split at h
    · simp at h
    · simp only [Except.ok.injEq, Prod.mk.injEq] at h
      obtain ⟨rfl, rfl⟩ := h
      exact ⟨oa, _, hoa, alloc_get s _, rfl, rfl, rfl, rfl⟩

/-- `insert(a, pos, b, memo)` when the memo knows neither array: the new array has the rows of `a`
with the rows of `b` — every epoch converted to the scale and shown in the format of `a` when `b` is a time of
another scale / format (`convRows`), unchanged otherwise — spliced in at `pos`; it keeps kind, scale and format of `a` -/
theorem insertObj_rows (fuel a pos b : Nat) (s : St) (r : Nat) (s' : St)
    (h : insertObj (fuel + 1) a pos b s = .ok (r, s')) (ha : s.find a = none) (hb : s.find b = none) :
    ∃ oa ob orr, s.heap[a]? = some oa ∧ s.heap[b]? = some ob ∧ s'.heap[r]? = some orr ∧
      orr.rows = insertAt oa.rows pos (convRows s.conv oa.tag ob) ∧ orr.kind = oa.kind ∧ orr.tag = oa.tag := by
  simp only [insertObj, ha, hb] at h
  split at h
  · rename_i oa ob hoa hob
    split at h
    · simp at h
    · split at h
      · simp at h
      · rename_i oth s1 _
        split at h
        · simp at h
        · rename_i rp s2 _
          simp only [Except.ok.injEq, Prod.mk.injEq] at h
          obtain ⟨rfl, rfl⟩ := h
          let new : Obj := { oa with rows := insertAt oa.rows pos (convRows s.conv oa.tag ob), other := oth, refPos := rp }
          refine ⟨oa, ob, new, hoa, hob, ?_, rfl, rfl, rfl⟩
          split <;> (simp only [St.set]; exact alloc_get s2 new)
  · simp at h

/-- appended rows of a rectangular field: `insertAt rows rows.length b = rows ++ b` (`extend appends`) and
`scaleRow` is the unit conversion of one row (`other.data * factors`) -/
theorem extend_float_rows (us : Units) (nm : String) (o no : Nat) (u : Option (List String)) (l : Nat)
    (nm2 : String) (o2 no2 : Nat) (u2 : Option (List String)) (l2 : Nat) (s : St) (f' : Field) (s' : St)
    (h : extendLeaf us nm .float o no u l (.leaf nm2 .float o2 no2 u2 l2) s = .ok (f', s')) :
    ∃ oa ob fs o' no' orr, s.heap[o]? = some oa ∧ s.heap[o2]? = some ob ∧ unitFactors us u u2 = .ok fs ∧
      f' = .leaf nm .float o' no' u l ∧ s'.heap[o']? = some orr ∧
      orr.rows = insertAt oa.rows no (ob.rows.map (scaleRow fs)) := by
  simp only [extendLeaf, bne_self_eq_false, Bool.false_eq_true, if_false] at h
  split at h
  · rename_i oa ob hoa hob
    split at h
    · simp at h
    · split at h
      · simp at h
      · rename_i o' s1 hr1
        simp only [Except.ok.injEq, Prod.mk.injEq] at h
        obtain ⟨rfl, rfl⟩ := h
        simp only [Kind.isDelta, Bool.false_eq_true, if_false] at hr1
        split at hr1
        · simp at hr1
        · simp only [beq_self_eq_true, if_true] at hr1
          split at hr1
          · simp at hr1
          · rename_i fs hfs
            split at hr1
            · simp at hr1
            · obtain ⟨oa', orr, h1, h2, h3, _, _, _⟩ := insertPlain_rows o no _ s o' s1 hr1
              rw [hoa] at h1; cases h1
              exact ⟨oa, ob, fs, o', _, orr, hoa, hob, hfs, rfl, h2, h3⟩
  · simp at h

end Midgard.Dataset
