/-
`str.split()` of a line made of blank-padded tokens (core Lean only).  Used for the whitespace-split
correction rows of ANTEX files: values of fixed width with at least one blank between them.
-/
import Midgard.Proofs.Text

namespace Midgard.Text

/-- a token: non-empty, no whitespace inside -/
def Token (t : Str) : Bool := !t.isEmpty && t.all (fun c => !isSpace c)

theorem splitAux_blank_nil {ws : Str} (h : isBlank ws = true) (s : Str) :
    splitAux (ws ++ s) [] = splitAux s [] := by
  induction ws with
  | nil => rfl
  | cons c ws ih =>
    simp only [isBlank, List.all_cons, Bool.and_eq_true] at h
    simp only [List.cons_append, splitAux, h.1, if_true, List.isEmpty_nil]
    exact ih (by simpa [isBlank] using h.2)

theorem splitAux_token {t : Str} (h : t.all (fun c => !isSpace c) = true) (s cur : Str) :
    splitAux (t ++ s) cur = splitAux s (t.reverse ++ cur) := by
  induction t generalizing cur with
  | nil => rfl
  | cons c t ih =>
    simp only [List.all_cons, Bool.and_eq_true, Bool.not_eq_eq_eq_not, Bool.not_true] at h
    simp only [List.cons_append, splitAux, h.1, Bool.false_eq_true, if_false]
    rw [ih (by simpa using h.2)]
    simp

theorem splitAux_space_cur {c : Char} (hc : isSpace c = true) (s cur : Str) (hcur : cur ≠ []) :
    splitAux (c :: s) cur = cur.reverse :: splitAux s [] := by
  cases cur with
  | nil => exact absurd rfl hcur
  | cons d r => simp [splitAux, hc]

/-- a line of tokens, each preceded by a blank pad; every pad but the first is non-empty -/
def padded : List (Str × Str) → Str
  | [] => []
  | (pad, tok) :: rest => pad ++ tok ++ padded rest

def PadsOk : List (Str × Str) → Bool
  | [] => true
  | (pad, tok) :: rest => isBlank pad && Token tok && rest.all (fun x => !x.1.isEmpty) && PadsOk rest

theorem split_padded_aux (l : List (Str × Str)) :
    ∀ (tok : Str), Token tok = true → PadsOk l = true → l.all (fun x => !x.1.isEmpty) = true →
      splitAux (padded l) tok.reverse = tok :: l.map (·.2) := by
  induction l with
  | nil =>
    intro tok ht _ _
    have hne : tok.reverse ≠ [] := by
      intro h; simp at h; subst h; simp [Token] at ht
    cases hr : tok.reverse with
    | nil => exact absurd hr hne
    | cons d r =>
      simp only [padded, splitAux, List.isEmpty_cons, Bool.false_eq_true, if_false]
      rw [← hr]; simp
  | cons x rest ih =>
    intro tok ht hok hne
    obtain ⟨pad, t⟩ := x
    simp only [PadsOk, Bool.and_eq_true] at hok
    obtain ⟨⟨⟨hpad, htok⟩, hrest⟩, hok'⟩ := hok
    simp only [List.all_cons, Bool.and_eq_true, Bool.not_eq_eq_eq_not, Bool.not_true] at hne
    have hpne : pad ≠ [] := by
      intro h; rw [h] at hne; simp at hne
    have hcur : tok.reverse ≠ [] := by
      intro h; simp at h; subst h; simp [Token] at ht
    cases pad with
    | nil => exact absurd rfl hpne
    | cons c ws =>
      simp only [isBlank, List.all_cons, Bool.and_eq_true] at hpad
      simp only [padded, List.cons_append, List.append_assoc]
      rw [splitAux_space_cur hpad.1 _ _ hcur, List.reverse_reverse]
      rw [splitAux_blank_nil (by simpa [isBlank] using hpad.2)]
      simp only [Token, Bool.and_eq_true] at htok
      rw [splitAux_token htok.2, List.append_nil]
      rw [ih t (by simp [Token, htok.1, htok.2]) hok' hrest]
      simp

/-- **split of a padded line**: the tokens, in order -/
theorem split_padded (l : List (Str × Str)) (hok : PadsOk l = true) : split (padded l) = l.map (·.2) := by
  cases l with
  | nil => rfl
  | cons x rest =>
    obtain ⟨pad, t⟩ := x
    simp only [PadsOk, Bool.and_eq_true] at hok
    obtain ⟨⟨⟨hpad, htok⟩, hrest⟩, hok'⟩ := hok
    unfold split
    simp only [padded, List.append_assoc]
    rw [splitAux_blank_nil hpad]
    have ht2 := htok
    simp only [Token, Bool.and_eq_true] at ht2
    rw [splitAux_token ht2.2, List.append_nil]
    rw [split_padded_aux rest t htok hok' hrest]
    simp

/-- a padded line that has at least one token is already right-stripped, and `strip` only removes the first pad -/
theorem token_clean {t : Str} (h : Token t = true) : Clean t = true := by
  simp only [Token, Bool.and_eq_true, Bool.not_eq_eq_eq_not, Bool.not_true] at h
  cases t with
  | nil => simp at h
  | cons c r =>
    have hall := h.2
    simp only [List.all_cons, Bool.and_eq_true, Bool.not_eq_eq_eq_not, Bool.not_true] at hall
    simp only [Clean, Bool.and_eq_true, Bool.not_eq_eq_eq_not, Bool.not_true]
    refine ⟨hall.1, ?_⟩
    cases hl : (c :: r).getLast? with
    | none => simp at hl
    | some d =>
      have hd : d ∈ c :: r := List.mem_of_getLast? hl
      have := List.all_eq_true.mp h.2 d hd
      simpa using this


theorem splitAux_blank_end {ws : Str} (h : isBlank ws = true) : ∀ (s cur : Str), splitAux (s ++ ws) cur = splitAux s cur := by
  have hnil : splitAux ws [] = [] := by
    have := splitAux_blank_nil h []
    simpa [splitAux] using this
  intro s
  induction s with
  | nil =>
    intro cur
    cases cur with
    | nil => simpa [splitAux] using hnil
    | cons d r =>
      cases ws with
      | nil => rfl
      | cons c ws' =>
        simp only [isBlank, List.all_cons, Bool.and_eq_true] at h
        have h2 : splitAux ws' [] = [] := by
          have := splitAux_blank_nil (ws := ws') (by simpa [isBlank] using h.2) []
          simpa [splitAux] using this
        simp [splitAux, h.1, h2]
  | cons c s ih =>
    intro cur
    simp only [List.cons_append, splitAux]
    split
    · split <;> simp [ih]
    · exact ih _

/-- `split` ignores surrounding whitespace -/
theorem split_strip (s : Str) : split (strip s) = split s := by
  obtain ⟨ws1, h1, hb1⟩ := lstrip_decomp s
  obtain ⟨ws2, h2, hb2⟩ := rstrip_decomp (lstrip s)
  have hs : s = ws1 ++ (strip s ++ ws2) := by
    unfold strip
    rw [← h2]; exact h1
  conv => rhs; rw [hs]
  unfold split
  rw [splitAux_blank_nil hb1, splitAux_blank_end hb2]

theorem split_rstrip (s : Str) : split (rstrip s) = split s := by
  obtain ⟨ws, h, hb⟩ := rstrip_decomp s
  conv => rhs; rw [h]
  unfold split
  rw [splitAux_blank_end hb]

end Midgard.Text
