/-
C10 — stage B, the fields: `FieldType.read` / `CollectionField.read` / the loop of `Dataset.read` over a
faithful file give back the fields of `restrict d ℓ` with every array object replaced by its image
under the injection `ρ` the read builds (`renameFields`), at every nesting depth.
-/
import Midgard.Proofs.H5Read

namespace Midgard.H5
open Midgard.Dataset

/-- the same fields over other object numbers -/
def renameFields (φ : Nat → Nat) : List Field → List Field
  | [] => []
  | .leaf nm k o no u l :: fs => .leaf nm k (φ o) no u l :: renameFields φ fs
  | .coll nm no l sub :: fs => .coll nm no l (renameFields φ sub) :: renameFields φ fs

def renameField (φ : Nat → Nat) : Field → Field
  | .leaf nm k o no u l => .leaf nm k (φ o) no u l
  | .coll nm no l sub => .coll nm no l (renameFields φ sub)

theorem renameFields_cons (φ : Nat → Nat) (f : Field) (fs : List Field) :
    renameFields φ (f :: fs) = renameField φ f :: renameFields φ fs := by
  cases f <;> simp [renameFields, renameField]

theorem renameFields_congr (φ φ' : Nat → Nat) : ∀ (fs : List Field), (∀ o ∈ leafObjs fs, φ o = φ' o) →
    renameFields φ fs = renameFields φ' fs
  | [], _ => by simp [renameFields]
  | .leaf nm k o no u l :: fs, hc => by
    simp only [renameFields]
    rw [hc o (by simp [leafObjs]), renameFields_congr φ φ' fs (fun x hx => hc x (by simp [leafObjs, hx]))]
  | .coll nm no l sub :: fs, hc => by
    simp only [renameFields]
    rw [renameFields_congr φ φ' sub (fun x hx => hc x (by simp [leafObjs, hx])),
      renameFields_congr φ φ' fs (fun x hx => hc x (by simp [leafObjs, hx]))]

theorem renameField_congr (φ φ' : Nat → Nat) (f : Field) (hc : ∀ o ∈ leafObjs [f], φ o = φ' o) :
    renameField φ f = renameField φ' f := by
  have := renameFields_congr φ φ' [f] hc
  rw [renameFields_cons, renameFields_cons] at this
  exact (List.cons.inj this).1

/-- the map `old object ↦ new object` of an association list -/
def phi (ρ : Rho) : Nat → Nat := fun x => (ρ.lookup x).getD 0

theorem phi_of_lookup {ρ : Rho} {x n : Nat} (h : ρ.lookup x = some n) : phi ρ x = n := by simp [phi, h]

/-! ### the conditions of `Writable` on the fields -/

theorem fieldsOK_cons (h : Heap) (n : Nat) (f : Field) (fs : List Field) (hok : fieldsOK h n (f :: fs) = true) :
    fieldsOK h n [f] = true ∧ fieldsOK h n fs = true := by
  cases f <;> simp_all [fieldsOK]

theorem fieldsOK_leaf {h : Heap} {n : Nat} {nm : String} {k : Kind} {o no : Nat} {u : Option (List String)} {l : Nat}
    (hok : fieldsOK h n [.leaf nm k o no u l] = true) : o < h.length ∧ no = objLen h o ∧ unitOK u = true := by
  simp_all [fieldsOK]

theorem fieldsOK_coll {h : Heap} {n : Nat} {nm : String} {no l : Nat} {sub : List Field}
    (hok : fieldsOK h n [.coll nm no l sub] = true) : no = n ∧ fieldsOK h n sub = true := by
  simp_all [fieldsOK]

theorem readUnit_ok (u : Option (List String)) (hu : unitOK u = true) : readUnit u = u := by
  cases u with
  | none => rfl
  | some us => simp only [unitOK] at hu; simp [readUnit, hu]

theorem withRef_rows (ob : Obj) (r : Option Nat) : (ob.strip.withRef r).rows = ob.rows := by
  simp only [Obj.withRef, Obj.strip]
  by_cases hk : ob.kind.hasOther = true <;> simp [hk]

theorem lastName_snoc (p : Path) (nm : String) : lastName (p ++ [nm]) = nm := by
  simp [lastName]

theorem lastName_single (nm : String) : lastName [nm] = nm := by
  simp [lastName]

theorem fieldsDepth_cons (f : Field) (fs : List Field) {d : Nat} (hd : fieldsDepth (f :: fs) ≤ d) :
    fieldsDepth [f] ≤ d ∧ fieldsDepth fs ≤ d := by
  cases f <;> simp only [fieldsDepth] at hd ⊢ <;> omega

/-! ### one field -/

/-- what reading the fields `fs` (flattened: the objects `leafObjs fs`) does to the injection -/
structure RPost (h : Heap) (file : File) (fs : List Field) (ρ : Rho) (s' : RSt) (ρ' : Rho) : Prop where
  inv : RInv h file ρ' s'
  ext : Ext ρ ρ'
  dom : ∀ o ∈ leafObjs fs, ρ'.lookup o ≠ none
  new : ∀ z, ρ'.lookup z ≠ none → ρ.lookup z ≠ none ∨ z ∈ leafObjs fs ∨ Registers h z

theorem readLeaf_spec (h : Heap) (file : File) (hh : HeapWF h) (fo : FileOK h file) (fa : Nat) (hfa : h.length ≤ fa)
    (nm : String) (k : Kind) (o no : Nat) (u : Option (List String)) (l : Nat) (pre : Path) (g : Grp) (s : RSt) (ρ : Rho)
    (depth : Nat) (inv : RInv h file ρ s) (hl : lookupGrp file.groups (pre ++ [nm]) = some g)
    (hrep : RepF (.leaf nm k o no u l) pre g) (hok : fieldsOK h file.numObs [.leaf nm k o no u l] = true)
    (hfresh : ¬ Registers h o → ρ.lookup o = none) :
    ∃ s' ρ', readField file fa (depth + 1) (some k) g s = .ok (renameField (phi ρ') (.leaf nm k o no u l), s') ∧
      RPost h file [.leaf nm k o no u l] ρ s' ρ' := by
  obtain ⟨ho, hno, hu⟩ := fieldsOK_leaf hok
  simp only [RepF] at hrep
  obtain ⟨ha, hsrc, hfn, hun, hlv, hsa⟩ := hrep
  have hob : h[o]? = some h[o] := List.getElem?_eq_getElem ho
  have hlen : ∀ (s' : RSt) (ρ' : Rho) (n : Nat), RInv h file ρ' s' → ρ'.lookup o = some n → objLen s'.heap n = no := by
    intro s' ρ' n inv' hn
    obtain ⟨ob, r', h1, h2, _⟩ := inv'.img o n hn
    rw [hob] at h1
    cases h1
    simp only [objLen, h2, withRef_rows]
    rw [hno]; simp [objLen, hob]
  cases g with
  | mk a p subs =>
    simp only [Grp.attrs_mk] at hfn hun hlv hsa
    simp only [Grp.src_mk] at hsrc
    have hra : ∀ s : RSt, resolveAlias file fa a s = .ok s := fun s => by simp only [resolveAlias, hsa]
    cases hml : s.memo.lookup (pre ++ [nm]) with
    | some n =>
      obtain ⟨g'', h1, h3⟩ := inv.memo _ n hml
      rw [hl] at h1
      cases h1
      simp only [Grp.src_mk, hsrc] at h3
      refine ⟨s, ρ, ?_, inv, Ext.refl ρ, ?_, fun z hz => Or.inl hz⟩
      · simp only [readField, hra, hfn, hml, renameField, phi_of_lookup h3, hlen s ρ n inv h3, hun, readUnit_ok u hu, hlv,
          lastName_snoc]
      · intro x hx
        simp only [leafObjs, List.mem_singleton] at hx
        rw [hx, h3]; simp
    | none =>
      have hon : ρ.lookup o = none := by
        by_cases hr : Registers h o
        · cases hol : ρ.lookup o with
          | none => rfl
          | some m =>
            have := inv.reg o m hol hr _ _ hl ha (by simpa using hsrc)
            rw [hml] at this
            cases this
        · exact hfresh hr
      obtain ⟨n, s', ρ', hrd, inv', hext, hlk, hnew⟩ := readArr_spec h file hh fo fa (pre ++ [nm]) _ s ρ inv hl ha
        (by simp only [Grp.src_mk, hsrc]; omega) (by simp only [Grp.src_mk, hsrc]; exact hon)
      simp only [Grp.src_mk, hsrc] at hlk hnew
      refine ⟨s', ρ', ?_, inv', hext, ?_, ?_⟩
      · simp only [readField, hra, hfn, hml, hrd, renameField, phi_of_lookup hlk, hlen s' ρ' n inv' hlk, hun, readUnit_ok u hu,
          hlv, lastName_snoc]
      · intro x hx
        simp only [leafObjs, List.mem_singleton] at hx
        rw [hx, hlk]; simp
      · intro z hz
        rcases hnew z hz with h0 | h0 | h0
        · exact Or.inl h0
        · exact Or.inr (Or.inl (by simp [leafObjs, h0]))
        · exact Or.inr (Or.inr h0.2)

theorem leafObjs_coll_single (nm : String) (no l : Nat) (sub : List Field) :
    leafObjs [Field.coll nm no l sub] = leafObjs sub := by
  simp [leafObjs]

theorem RPost.cons {h : Heap} {file : File} {f : Field} {fs : List Field} {ρ ρ1 ρ2 : Rho} {s1 s2 : RSt}
    (p1 : RPost h file [f] ρ s1 ρ1) (p2 : RPost h file fs ρ1 s2 ρ2) : RPost h file (f :: fs) ρ s2 ρ2 where
  inv := p2.inv
  ext := p1.ext.trans p2.ext
  dom := by
    intro o ho
    rw [leafObjs_cons] at ho
    rcases List.mem_append.mp ho with ho | ho
    · have := p1.dom o ho
      cases hl : ρ1.lookup o with
      | none => exact absurd hl this
      | some n => rw [p2.ext o n hl]; simp
    · exact p2.dom o ho
  new := by
    intro z hz
    rw [leafObjs_cons]
    rcases p2.new z hz with h0 | h0 | h0
    · rcases p1.new z h0 with h1 | h1 | h1
      · exact Or.inl h1
      · exact Or.inr (Or.inl (List.mem_append_left _ h1))
      · exact Or.inr (Or.inr h1)
    · exact Or.inr (Or.inl (List.mem_append_right _ h0))
    · exact Or.inr (Or.inr h0)

/-- the freshness of the objects of the remaining fields survives the reading of one field -/
theorem fresh_step {h : Heap} {file : File} {f : Field} {fs : List Field} {ρ ρ1 : Rho} {s1 : RSt}
    (p1 : RPost h file [f] ρ s1 ρ1) (hnd : (leafObjs (f :: fs)).Nodup)
    (hfresh : ∀ o ∈ leafObjs (f :: fs), ¬ Registers h o → ρ.lookup o = none) :
    ∀ o ∈ leafObjs fs, ¬ Registers h o → ρ1.lookup o = none := by
  intro o ho hr
  rw [leafObjs_cons] at hnd hfresh
  cases hl : ρ1.lookup o with
  | none => rfl
  | some n =>
    rcases p1.new o (by rw [hl]; simp) with h0 | h0 | h0
    · exact absurd (hfresh o (List.mem_append_right _ ho) hr) h0
    · exact absurd rfl ((List.nodup_append.mp hnd).2.2 o h0 o ho)
    · exact absurd h0 hr

mutual
theorem readField_spec (h : Heap) (file : File) (hh : HeapWF h) (fo : FileOK h file) (fa : Nat) (hfa : h.length ≤ fa) :
    ∀ (f : Field) (pre : Path) (g : Grp) (s : RSt) (ρ : Rho) (depth : Nat),
    RInv h file ρ s → lookupGrp file.groups (pre ++ [f.name]) = some g → NamesOKG g → RepF f pre g →
    fieldsOK h file.numObs [f] = true → (leafObjs [f]).Nodup →
    (∀ o ∈ leafObjs [f], ¬ Registers h o → ρ.lookup o = none) → fieldsDepth [f] ≤ depth →
    ∃ s' ρ', readField file fa depth (fieldType f) g s = .ok (renameField (phi ρ') f, s') ∧ RPost h file [f] ρ s' ρ'
  | .leaf nm k o no u l, pre, g, s, ρ, depth, inv, hl, _, hrep, hok, _, hfresh, hd => by
    obtain ⟨d, rfl⟩ : ∃ d, depth = d + 1 := by
      simp only [fieldsDepth] at hd
      exact ⟨depth - 1, by omega⟩
    exact readLeaf_spec h file hh fo fa hfa nm k o no u l pre g s ρ d inv hl hrep hok
      (hfresh o (by simp [leafObjs]))
  | .coll nm no l sub, pre, g, s, ρ, depth, inv, hl, hng, hrep, hok, hnd, hfresh, hd => by
    obtain ⟨d, rfl, hd'⟩ : ∃ d, depth = d + 1 ∧ fieldsDepth sub ≤ d := by
      simp only [fieldsDepth] at hd
      exact ⟨depth - 1, by omega, by omega⟩
    obtain ⟨hno, hoks⟩ := fieldsOK_coll hok
    simp only [RepF] at hrep
    obtain ⟨subs, rfl, hrl⟩ := hrep
    simp only [NamesOKG] at hng
    replace hl : lookupGrp file.groups (pre ++ [nm]) = some _ := hl
    have hsubs : ∀ nm' g', (nm', g') ∈ subs → lookupGrp file.groups (pre ++ [nm] ++ [nm']) = some g' := by
      intro nm' g' hm
      rw [lookupGrp_snoc _ _ _ nm' hl]
      exact lookup_of_namesOK hng hm
    rw [leafObjs_coll_single] at hnd hfresh
    obtain ⟨s', ρ', hrd, post⟩ := readMembers_spec h file hh fo fa hfa sub (pre ++ [nm]) subs s ρ d inv hng hsubs
      (RepL_mem sub _ subs hrl) hoks hnd hfresh hd'
    refine ⟨s', ρ', ?_, ?_⟩
    · have hft : fieldType (Field.coll nm no l sub) = none := rfl
      rw [hft]
      simp only [readField, hrd, renameField, lastName_single, hno]
    · exact ⟨post.inv, post.ext, by rw [leafObjs_coll_single]; exact post.dom,
        by rw [leafObjs_coll_single]; exact post.new⟩
theorem readMembers_spec (h : Heap) (file : File) (hh : HeapWF h) (fo : FileOK h file) (fa : Nat) (hfa : h.length ≤ fa) :
    ∀ (fs : List Field) (pre : Path) (subs : List (String × Grp)) (s : RSt) (ρ : Rho) (depth : Nat),
    RInv h file ρ s → NamesOKG.NamesOKL subs →
    (∀ nm g, (nm, g) ∈ subs → lookupGrp file.groups (pre ++ [nm]) = some g) →
    (∀ f ∈ fs, ∃ g, (f.name, g) ∈ subs ∧ RepF f pre g) →
    fieldsOK h file.numObs fs = true → (leafObjs fs).Nodup →
    (∀ o ∈ leafObjs fs, ¬ Registers h o → ρ.lookup o = none) → fieldsDepth fs ≤ depth →
    ∃ s' ρ', readMembers (readField file fa depth) (fs.map (fun f => (f.name, fieldType f))) subs s =
        .ok (renameFields (phi ρ') fs, s') ∧ RPost h file fs ρ s' ρ'
  | [], pre, subs, s, ρ, depth, inv, _, _, _, _, _, _, _ => by
    refine ⟨s, ρ, by simp [readMembers, renameFields], inv, Ext.refl ρ, ?_, fun z hz => Or.inl hz⟩
    intro o ho; simp [leafObjs] at ho
  | f :: fs, pre, subs, s, ρ, depth, inv, hns, hsubs, hrep, hok, hnd, hfresh, hd => by
    obtain ⟨g, hm, hrf⟩ := hrep f (by simp)
    obtain ⟨hok1, hok2⟩ := fieldsOK_cons h _ f fs hok
    obtain ⟨hd1, hd2⟩ := fieldsDepth_cons f fs hd
    have hnd0 := hnd
    rw [leafObjs_cons] at hnd
    obtain ⟨hnd1, hnd2, _⟩ := List.nodup_append.mp hnd
    obtain ⟨s1, ρ1, hrd1, p1⟩ := readField_spec h file hh fo fa hfa f pre g s ρ depth inv (hsubs _ g hm)
      (namesOK_of_mem hns hm) hrf hok1 hnd1
      (fun o ho => hfresh o (by rw [leafObjs_cons]; exact List.mem_append_left _ ho)) hd1
    obtain ⟨s2, ρ2, hrd2, p2⟩ := readMembers_spec h file hh fo fa hfa fs pre subs s1 ρ1 depth p1.inv hns hsubs
      (fun f' hf' => hrep f' (List.mem_cons_of_mem _ hf')) hok2 hnd2 (fresh_step p1 hnd0 hfresh) hd2
    refine ⟨s2, ρ2, ?_, RPost.cons p1 p2⟩
    have hcong : renameField (phi ρ1) f = renameField (phi ρ2) f := by
      apply renameField_congr
      intro o ho
      have := p1.dom o ho
      cases hl : ρ1.lookup o with
      | none => exact absurd hl this
      | some n => rw [phi_of_lookup hl, phi_of_lookup (p2.ext o n hl)]
    simp only [List.map_cons, readMembers, lookup_of_namesOK hns hm, hrd1, hrd2, renameFields_cons, hcong]
end

end Midgard.H5
