/-
C09 — structural well-formedness of field trees (unique names in every collection) and the fact that
shape-preserving operations keep it.  (Before the `fix:` of `Collection.__len__` the invariant also had
to exclude a collection without fields nested in a collection — its parent could not tell its number of
rows; now the collection field's remembered `num_obs` is used and no such exclusion is needed.)
-/
import Midgard.Proofs.DatasetExtend

namespace Midgard.Dataset

def Field.nonEmpty : Field → Prop
  | .leaf .. => True
  | .coll _ _ _ fs => fs ≠ []

/-- names are unique in every collection (they are dict keys) -/
def WFF : Field → Prop
  | .leaf .. => True
  | .coll _ _ _ fs => (names fs).Nodup ∧ WFFs fs
where WFFs : List Field → Prop
  | [] => True
  | c :: cs => WFF c ∧ WFFs cs

theorem WFFs_iff : ∀ (fs : List Field), WFF.WFFs fs ↔ ∀ c ∈ fs, WFF c
  | [] => by simp [WFF.WFFs]
  | c :: cs => by simp [WFF.WFFs, WFFs_iff cs]

theorem rectFields_iff {h : Heap} {n : Nat} : ∀ (fs : List Field),
    RectField.RectFields h n fs ↔ ∀ f ∈ fs, RectField h n f
  | [] => by simp [RectField.RectFields]
  | c :: cs => by simp [RectField.RectFields, rectFields_iff cs]

/-! the number of rows `Collection.__len__` reads off a rectangular field is `n` -/
mutual
theorem RectField.len {h : Heap} {n : Nat} : ∀ (f : Field), RectField h n f → Field.len h f = n
  | .leaf _ _ o _ _ _, hr => by
    simp only [RectField] at hr
    simp only [Field.len]
    exact hr.1.objLen
  | .coll _ _ _ fs, hr => by
    simp only [RectField] at hr
    simp only [Field.len]
    split
    · exact hr.2
    · rename_i hne
      exact RectFields.len fs hr.1 (by intro he; simp [he] at hne)
theorem RectFields.len {h : Heap} {n : Nat} : ∀ (fs : List Field), RectField.RectFields h n fs →
    fs ≠ [] → Field.len.lenL h fs = n
  | [], _, hd => absurd rfl hd
  | c :: cs, hr, _ => by
    simp only [RectField.RectFields] at hr
    simp only [Field.len.lenL]
    exact RectField.len c hr.1
end

/-- `CollectionField._num_rows()` of a rectangular collection field is `n` -/
theorem collRows_eq {h : Heap} {n : Nat} {nm : String} {no l : Nat} {fs : List Field}
    (hr : RectField h n (.coll nm no l fs)) : collRows h no fs = n := by
  simp only [RectField] at hr
  simp only [collRows]
  by_cases he : fs = []
  · simp [he, hr.2]
  · have : fs.isEmpty = false := by cases fs <;> simp_all
    simp only [this, Bool.false_eq_true, if_false, collLen]
    exact RectFields.len fs hr.1 he

/-! ### same shape -/

/-- same tree of names and field kinds (what `subset` and the padding operations preserve) -/
def SameShape : Field → Field → Prop
  | .leaf n k _ _ _ _, f' => ∃ o' no' u' l', f' = .leaf n k o' no' u' l'
  | .coll n _ _ fs, f' => ∃ no' l' fs', f' = .coll n no' l' fs' ∧ SameShapes fs fs'
where SameShapes : List Field → List Field → Prop
  | [], fs' => fs' = []
  | f :: fs, fs' => ∃ f' r', fs' = f' :: r' ∧ SameShape f f' ∧ SameShapes fs r'

mutual
theorem SameShape.refl : ∀ (f : Field), SameShape f f
  | .leaf .. => by simp [SameShape]
  | .coll _ _ _ fs => by simp only [SameShape]; exact ⟨_, _, _, rfl, SameShapes.refl fs⟩
theorem SameShapes.refl : ∀ (fs : List Field), SameShape.SameShapes fs fs
  | [] => by simp [SameShape.SameShapes]
  | f :: fs => by simp only [SameShape.SameShapes]; exact ⟨f, fs, rfl, SameShape.refl f, SameShapes.refl fs⟩
end

theorem SameShape.name : ∀ {f f' : Field}, SameShape f f' → f'.name = f.name
  | .leaf .., _, hh => by simp only [SameShape] at hh; obtain ⟨_, _, _, _, rfl⟩ := hh; rfl
  | .coll .., _, hh => by simp only [SameShape] at hh; obtain ⟨_, _, _, rfl, _⟩ := hh; rfl

theorem SameShapes.names : ∀ {fs fs' : List Field}, SameShape.SameShapes fs fs' → names fs' = names fs
  | [], _, hh => by simp only [SameShape.SameShapes] at hh; subst hh; rfl
  | f :: fs, _, hh => by
    simp only [SameShape.SameShapes] at hh
    obtain ⟨f', r', rfl, h1, h2⟩ := hh
    simp [Midgard.Dataset.names, h1.name]
    exact SameShapes.names h2

theorem SameShapes.nil_iff {fs fs' : List Field} (hh : SameShape.SameShapes fs fs') : fs' = [] ↔ fs = [] := by
  cases fs with
  | nil => simp [SameShape.SameShapes] at hh; simp [hh]
  | cons f fs => simp only [SameShape.SameShapes] at hh; obtain ⟨f', r', rfl, _, _⟩ := hh; simp

theorem SameShape.nonEmpty : ∀ {f f' : Field}, SameShape f f' → f.nonEmpty → f'.nonEmpty
  | .leaf .., _, hh, _ => by simp only [SameShape] at hh; obtain ⟨_, _, _, _, rfl⟩ := hh; simp [Field.nonEmpty]
  | .coll .., _, hh, hn => by
    simp only [SameShape] at hh
    obtain ⟨_, _, fs', rfl, h2⟩ := hh
    simp only [Field.nonEmpty] at hn ⊢
    exact fun he => hn ((SameShapes.nil_iff h2).mp he)

mutual
theorem SameShape.wff : ∀ (f f' : Field), SameShape f f' → WFF f → WFF f'
  | .leaf .., _, hh, _ => by simp only [SameShape] at hh; obtain ⟨_, _, _, _, rfl⟩ := hh; simp [WFF]
  | .coll _ _ _ fs, _, hh, hw => by
    simp only [SameShape] at hh
    obtain ⟨_, _, fs', rfl, h2⟩ := hh
    simp only [WFF] at hw ⊢
    exact ⟨by rw [SameShapes.names h2]; exact hw.1, SameShapes.wffs fs fs' h2 hw.2⟩
theorem SameShapes.wffs : ∀ (fs fs' : List Field), SameShape.SameShapes fs fs' → WFF.WFFs fs → WFF.WFFs fs'
  | [], _, hh, _ => by simp only [SameShape.SameShapes] at hh; subst hh; simp [WFF.WFFs]
  | f :: fs, _, hh, hw => by
    simp only [SameShape.SameShapes] at hh
    obtain ⟨f', r', rfl, h1, h2⟩ := hh
    simp only [WFF.WFFs] at hw ⊢
    exact ⟨SameShape.wff f f' h1 hw.1, SameShapes.wffs fs r' h2 hw.2⟩
end

/-! `subset` preserves the shape -/
mutual
theorem FieldImg.sameShape {idx : Index} {h : Heap} : ∀ (f f' : Field), FieldImg idx h f f' → SameShape f f'
  | .leaf .., _, hh => by
    simp only [FieldImg] at hh
    obtain ⟨o', no', rfl, _, _⟩ := hh
    simp [SameShape]
  | .coll _ _ _ fs, _, hh => by
    simp only [FieldImg] at hh
    obtain ⟨no', fs', rfl, h2, _⟩ := hh
    simp only [SameShape]
    exact ⟨_, _, fs', rfl, FieldsImg.sameShapes fs fs' h2⟩
theorem FieldsImg.sameShapes {idx : Index} {h : Heap} : ∀ (fs fs' : List Field),
    FieldImg.FieldsImg idx h fs fs' → SameShape.SameShapes fs fs'
  | [], _, hh => by simp only [FieldImg.FieldsImg] at hh; subst hh; simp [SameShape.SameShapes]
  | f :: fs, _, hh => by
    simp only [FieldImg.FieldsImg] at hh
    obtain ⟨f', r', rfl, h1, h2⟩ := hh
    simp only [SameShape.SameShapes]
    exact ⟨f', r', rfl, FieldImg.sameShape f f' h1, FieldsImg.sameShapes fs r' h2⟩
end

end Midgard.Dataset
