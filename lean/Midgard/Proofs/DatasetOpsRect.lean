/-
C09 — the dataset-level operations keep a world of datasets rectangular and well formed.
-/
import Midgard.Proofs.DatasetDiff

namespace Midgard.Dataset

/-- structural well-formedness of a dataset: unique names in every collection -/
structure DSOK (d : DS) : Prop where
  nodup : (names d.fields).Nodup
  wff : ∀ f ∈ d.fields, WFF f

theorem sameShapes_mem : ∀ {fs fs' : List Field}, SameShape.SameShapes fs fs' → ∀ c' ∈ fs', ∃ c ∈ fs, SameShape c c'
  | [], _, hh, c', hc' => by simp only [SameShape.SameShapes] at hh; subst hh; simp at hc'
  | f :: fs, _, hh, c', hc' => by
    simp only [SameShape.SameShapes] at hh
    obtain ⟨f', r', rfl, h1, h2⟩ := hh
    rcases List.mem_cons.mp hc' with rfl | hc'
    · exact ⟨f, by simp, h1⟩
    · obtain ⟨c, hc, hs⟩ := sameShapes_mem h2 c' hc'
      exact ⟨c, List.mem_cons_of_mem _ hc, hs⟩

/-- **`Dataset.subset`** keeps the structural well-formedness and makes the dataset rectangular. -/
theorem dsSubset_ok (idx : Index) (h : Heap) (d : DS) (h' : Heap) (d' : DS)
    (hok : dsSubset idx h d = .ok (h', d')) (ok : DSOK d) :
    HeapExt h h' ∧ Rect h' d' ∧ DSOK d' ∧ d'.numObs = idx.count := by
  obtain ⟨e, hi, hc, hr⟩ := dsSubset_spec idx h d h' d' hok
  have sh := FieldsImg.sameShapes d.fields d'.fields hi
  refine ⟨e, hr, ⟨by rw [SameShapes.names sh]; exact ok.nodup, ?_⟩, hc⟩
  intro c' hc'
  obtain ⟨c, hcm, hs⟩ := sameShapes_mem sh c' hc'
  exact SameShape.wff c c' hs (ok.wff c hcm)

/-- **`Dataset.extend`**: a rectangular table of `n` rows extended by a rectangular table of `m` rows
is a rectangular table of `n + m` rows. -/
theorem dsExtend_ok (us : Units) (h : Heap) (d e : DS) (h' : Heap) (d' : DS)
    (hok : dsExtend us h d e = .ok (h', d')) (hd : Rect h d) (he : Rect h e) (okd : DSOK d) (oke : DSOK e) :
    HeapExt h h' ∧ Rect h' d' ∧ DSOK d' ∧ d'.numObs = d.numObs + e.numObs := by
  simp only [dsExtend] at hok
  split at hok
  · simp at hok
  · rename_i fs' s2 hfin
    simp only [Except.ok.injEq, Prod.mk.injEq] at hok
    obtain ⟨rfl, rfl⟩ := hok
    simp only [extendFields, extendFinish] at hfin
    split at hfin
    · simp at hfin
    · rename_i acc1 s1 hloop
      have hm : MemoGood (d.numObs + e.numObs) { heap := h, conv := us.conv } := by intro a v hav; simp at hav
      have hf_rect := (rectFields_iff d.fields).mp hd
      have hg_rect := (rectFields_iff e.fields).mp he
      have inv0 : AccInv h d.numObs e.numObs (names d.fields) (fun _ => False) d.fields :=
        ⟨okd.nodup, fun c hc => ⟨okd.wff c hc, fun hx => absurd hx id,
          fun _ => ⟨hf_rect c hc, List.mem_map_of_mem hc⟩⟩⟩
      obtain ⟨⟨e1, m1⟩, inv1⟩ := loop1_spec us d.numObs e.numObs (names d.fields) e.fields (fun _ => False)
        d.fields { heap := h, conv := us.conv } acc1 s1 hloop hm inv0
        (fun g hg => ⟨hg_rect g hg, oke.wff g hg⟩) oke.nodup (fun g _ hx => hx)
      obtain ⟨⟨e2, _⟩, hall, hnames⟩ := appendLoop_spec d.numObs e.numObs _ acc1 s1 fs' s2 hfin m1 (by
        intro c hc
        obtain ⟨c1, c3, c4⟩ := inv1.each c hc
        refine ⟨c1, ?_, ?_⟩
        · intro hp
          by_cases hx : (False ∨ c.name ∈ names e.fields)
          · have hx' : c.name ∈ names e.fields := by simpa using hx
            exfalso
            simp only [onlyInSelf, Bool.and_eq_true, Bool.not_eq_true',
              List.contains_eq_mem, decide_eq_true_eq, decide_eq_false_iff_not] at hp
            exact hp.2 hx'
          · exact (c4 hx).1
        · intro hp
          by_cases hx : (False ∨ c.name ∈ names e.fields)
          · exact c3 hx
          · exfalso
            have hx' : c.name ∉ names e.fields := by simpa using hx
            have hin := (c4 hx).2
            simp only [onlyInSelf, Bool.and_eq_false_iff, Bool.not_eq_false',
              List.contains_eq_mem, decide_eq_false_iff_not, decide_eq_true_eq] at hp
            rcases hp with h0 | h0
            · exact h0 hin
            · exact hx' h0)
      refine ⟨e1.trans e2, ?_, ⟨by show (names fs').Nodup; rw [hnames]; exact inv1.nodup, fun c hc => (hall c hc).1⟩, rfl⟩
      exact (rectFields_iff fs').mpr (fun c hc => (hall c hc).2)

/-- **`Dataset.difference`**: the result is a rectangular, well-formed table with one row per paired row —
whatever the operands were (the selections have the right length or the operation fails) -/
theorem dsDifference_ok (us : Units) (h : Heap) (d e : DS) (ib : Option (List String)) (cs co : Bool) (h' : Heap) (r : DS)
    (hok : dsDifference us h d e ib cs co = .ok (h', r)) : HeapExt h h' ∧ Rect h' r ∧ DSOK r := by
  obtain ⟨si, oi, cnt, hidx, _, hn, e1, nd, hall⟩ := dsDifference_spec us h d e ib cs co h' r hok
  obtain ⟨hs, ho⟩ := diffIndex_counts hidx
  have each : ∀ x ∈ r.fields, RectField h' cnt x ∧ WFF x := by
    intro x hx
    rcases hall x hx with h0 | h0
    · exact ⟨DiffAny.rect hs ho _ _ x h0, DiffAny.wff _ _ x h0⟩
    · exact h0.1.rect hs
  refine ⟨e1, ?_, ⟨nd, fun x hx => (each x hx).2⟩⟩
  simp only [Rect]; rw [hn]
  exact (rectFields_iff r.fields).mpr (fun x hx => (each x hx).1)

/-! ### sorting (`merge_with(sort_by=…)`) -/

theorem findField_mem : ∀ (p : Path) (fs : List Field) (f : Field) (h : Heap) (n : Nat),
    findField fs p = some f → RectField.RectFields h n fs → RectField h n f
  | [], _, _, _, _, hf, _ => by simp [findField] at hf
  | [nm], fs, f, h, n, hf, hr => by
    simp only [findField] at hf
    exact (rectFields_iff fs).mp hr f (getField_some hf).1
  | nm :: nm2 :: rest, fs, f, h, n, hf, hr => by
    simp only [findField] at hf
    split at hf
    · rename_i a b c sub hget
      have := (rectFields_iff fs).mp hr _ (getField_some hget).1
      simp only [RectField] at this
      exact findField_mem (nm2 :: rest) sub f h n hf this.1
    · simp at hf

theorem keyColumn_length {h : Heap} {n : Nat} {f : Field} {keys : List Scalar}
    (hk : keyColumn h f = .ok keys) (hr : RectField h n f) : keys.length = n := by
  cases f with
  | coll => simp [keyColumn] at hk
  | leaf nm k o no u l =>
    simp only [keyColumn] at hk
    simp only [RectField] at hr
    obtain ⟨ob, h1, h2, _, _⟩ := hr.1.dest
    rw [h1] at hk
    simp only at hk
    split at hk
    · simp at hk
    · split at hk <;> (simp only [Except.ok.injEq] at hk; subst hk; simp [h2])

/-- **`merge_with(sort_by=…)`**, the sorting half: every field is permuted by the same stable
permutation; a rectangular table stays one, with the same number of rows. -/
theorem dsSort_ok (h : Heap) (d : DS) (p : Path) (h' : Heap) (d' : DS)
    (hok : dsSort h d p = .ok (h', d')) (hd : Rect h d) (ok : DSOK d) :
    HeapExt h h' ∧ Rect h' d' ∧ DSOK d' ∧ d'.numObs = d.numObs := by
  simp only [dsSort] at hok
  split at hok
  · simp at hok
  · rename_i f hfind
    split at hok
    · simp at hok
    · rename_i keys hkeys
      split at hok
      · simp at hok
      · rename_i fs s hr
        simp only [Except.ok.injEq, Prod.mk.injEq] at hok
        obtain ⟨rfl, rfl⟩ := hok
        have hm : MemoInv (Index.ints ((argsortStable keys).map Int.ofNat)) { heap := h } := by
          intro k v hkv; simp at hkv
        obtain ⟨⟨e, _⟩, hi⟩ := subsetFields_spec _ d.fields { heap := h } fs s hr hm
        have hlen : keys.length = d.numObs := keyColumn_length hkeys (findField_mem p d.fields f h d.numObs hfind hd)
        have hcount : (Index.ints ((argsortStable keys).map Int.ofNat)).count = d.numObs := by
          simp only [Index.count, List.length_map]
          rw [(argsortStable_perm keys).length_eq, List.length_range, hlen]
        have sh := FieldsImg.sameShapes d.fields fs hi
        refine ⟨e, ?_, ⟨by show (names fs).Nodup; rw [SameShapes.names sh]; exact ok.nodup, ?_⟩, rfl⟩
        · have := FieldsImg.rect d.fields fs hi
          rw [hcount] at this
          exact this
        · intro c' hc'
          obtain ⟨c, hcm, hs⟩ := sameShapes_mem sh c' hc'
          exact SameShape.wff c c' hs (ok.wff c hcm)

/-! ### deleting and adding fields -/

theorem delField_sub (fs : List Field) (n : String) : ∀ c ∈ delField fs n, c ∈ fs := by
  intro c hc; simp only [delField, List.mem_filter] at hc; exact hc.1

theorem names_delField_nodup {fs : List Field} {n : String} (h : (names fs).Nodup) : (names (delField fs n)).Nodup := by
  simp only [names, delField]
  exact (List.Sublist.map Field.name List.filter_sublist).nodup h

/-- **`del dset[path]`** keeps a rectangular table rectangular -/
theorem dsDel_ok (h : Heap) (d : DS) (p : Path) (d' : DS) (hok : dsDel d p = .ok d') (hd : Rect h d) (ok : DSOK d) :
    Rect h d' ∧ DSOK d' ∧ d'.numObs = d.numObs := by
  have hrect := (rectFields_iff d.fields).mp hd
  simp only [dsDel] at hok
  split at hok
  · -- top-level field
    split at hok
    · simp only [Except.ok.injEq] at hok; subst hok
      refine ⟨(rectFields_iff _).mpr (fun c hc => hrect c (delField_sub _ _ c hc)),
        ⟨names_delField_nodup ok.nodup, fun c hc => ok.wff c (delField_sub _ _ c hc)⟩, rfl⟩
    · simp at hok
  · -- a field of a top-level collection
    rename_i c n
    split at hok
    · rename_i nm no l sub hget
      split at hok
      · simp only [Except.ok.injEq] at hok; subst hok
        obtain ⟨hmem, hnm⟩ := getField_some hget
        have hrc := hrect _ hmem
        have hwc := ok.wff _ hmem
        simp only [RectField] at hrc
        simp only [WFF] at hwc
        have hsubr := (rectFields_iff sub).mp hrc.1
        have hsubw := (WFFs_iff sub).mp hwc.2
        have newRect : RectField h d.numObs (.coll c no l (delField sub n)) := by
          simp only [RectField]
          exact ⟨(rectFields_iff _).mpr (fun x hx => hsubr x (delField_sub _ _ x hx)), hrc.2⟩
        have newWff : WFF (.coll c no l (delField sub n)) := by
          simp only [WFF]
          exact ⟨names_delField_nodup hwc.1, (WFFs_iff _).mpr (fun x hx => hsubw x (delField_sub _ _ x hx))⟩
        refine ⟨(rectFields_iff _).mpr ?_, ⟨nodup_setField ok.nodup, ?_⟩, rfl⟩
        · intro x hx
          rcases mem_setField_nodup ok.nodup hx with rfl | hx
          · exact newRect
          · exact hrect x hx.1
        · intro x hx
          rcases mem_setField_nodup ok.nodup hx with rfl | hx
          · exact newWff
          · exact ok.wff x hx.1
      · simp at hok
    · simp at hok
  · simp at hok

theorem getField_none {fs : List Field} {n : String} (h : getField fs n = none) : n ∉ names fs := by
  simp only [getField, List.find?_eq_none] at h
  intro hin
  simp only [names, List.mem_map] at hin
  obtain ⟨c, hc, rfl⟩ := hin
  exact h c hc (by simp)

/-- what every field of a (sub)collection satisfies -/
def FieldOK (h : Heap) (n : Nat) (c : Field) : Prop := RectField h n c ∧ WFF c

theorem coll_ok_of_children {h : Heap} {n : Nat} {nm : String} {no l : Nat} {sub : List Field}
    (hno : no = n) (hall : ∀ c ∈ sub, FieldOK h n c) (hnd : (names sub).Nodup) :
    FieldOK h n (.coll nm no l sub) := by
  refine ⟨?_, ?_⟩
  · simp only [RectField]; exact ⟨(rectFields_iff sub).mpr (fun c hc => (hall c hc).1), hno⟩
  · simp only [WFF]; exact ⟨hnd, (WFFs_iff sub).mpr (fun c hc => (hall c hc).2)⟩

/-- `_add_field`: creating the missing collections and putting the new field into its container -/
theorem addAt_spec (h : Heap) (n : Nat) (f : Field) (hf : FieldOK h n f) : ∀ (p : Path)
    (fs fs' : List Field), addAt n f p fs = .ok fs' → (∀ c ∈ fs, FieldOK h n c) → (names fs).Nodup →
    (∀ c ∈ fs', FieldOK h n c) ∧ (names fs').Nodup
  | [], fs, fs', hok, hall, hnd => by
    simp only [addAt] at hok
    split at hok
    · rename_i g hget
      simp only [Except.ok.injEq] at hok; subst hok
      exact ⟨hall, hnd⟩
    · rename_i hget
      simp only [Except.ok.injEq] at hok; subst hok
      refine ⟨?_, ?_⟩
      · intro c hc
        rcases List.mem_append.mp hc with hc | hc
        · exact hall c hc
        · simp at hc; subst hc; exact hf
      · simp only [names, List.map_append, List.map_cons, List.map_nil]
        exact List.nodup_append.mpr ⟨hnd, by simp, by
          intro a ha b hb; simp at hb; subst hb; intro he; exact getField_none hget (he ▸ ha)⟩
  | c :: rest, fs, fs', hok, hall, hnd => by
    simp only [addAt] at hok
    split at hok
    · -- the collection does not exist yet
      rename_i hget
      split at hok
      · simp at hok
      · rename_i sub hsub
        simp only [Except.ok.injEq] at hok; subst hok
        obtain ⟨a1, a2⟩ := addAt_spec h n f hf rest [] sub hsub (by simp) (by simp [names])
        refine ⟨?_, ?_⟩
        · intro x hx
          rcases List.mem_append.mp hx with hx | hx
          · exact hall x hx
          · simp at hx; subst hx; exact coll_ok_of_children rfl a1 a2
        · simp only [names, List.map_append, List.map_cons, List.map_nil]
          exact List.nodup_append.mpr ⟨hnd, by simp, by
            intro a ha b hb; simp [Field.name] at hb; subst hb; intro he; exact getField_none hget (he ▸ ha)⟩
    · rename_i nm no l sub hget
      split at hok
      · simp at hok
      · rename_i sub' hsub
        simp only [Except.ok.injEq] at hok; subst hok
        obtain ⟨hmem, hnm⟩ := getField_some hget
        obtain ⟨hr, hw⟩ := hall _ hmem
        simp only [RectField] at hr
        simp only [WFF] at hw
        have hsubr := (rectFields_iff sub).mp hr.1
        have hsubw := (WFFs_iff sub).mp hw.2
        obtain ⟨a1, a2⟩ := addAt_spec h n f hf rest sub sub' hsub
          (fun x hx => ⟨hsubr x hx, hsubw x hx⟩) hw.1
        refine ⟨?_, nodup_setField hnd⟩
        intro x hx
        rcases mem_setField_nodup hnd hx with rfl | hx
        · exact coll_ok_of_children hr.2 a1 a2
        · exact hall x hx.1
    · simp at hok

/-- **`dset.add_<type>(…)`**: adding an array that has `num_obs` rows itself *and in everything attached
to it* keeps the table rectangular.  (The code checks the length of the array only; a position whose
`other` has another length is the caller's inconsistency and is excluded by `hgood`.) -/
theorem dsAdd_ok (h : Heap) (d : DS) (p : Path) (k : Kind) (o : Nat) (u : Option String) (l : Nat) (d' : DS)
    (hok : dsAdd h d p k o u l = .ok d') (hd : Rect h d) (ok : DSOK d) (hgood : Good h d.numObs o) :
    Rect h d' ∧ DSOK d' ∧ d'.numObs = d.numObs := by
  simp only [dsAdd] at hok
  split at hok
  · simp at hok
  · rename_i nm revColl _
    split at hok
    · simp at hok
    · split at hok
      · simp only [Except.ok.injEq] at hok; subst hok; exact ⟨hd, ok, rfl⟩
      · split at hok
        · simp at hok
        · rename_i ob hob
          split at hok
          · simp at hok
          · split at hok
            · simp at hok
            · split at hok
              · simp at hok
              · rename_i fs hfs
                simp only [Except.ok.injEq] at hok; subst hok
                have hleaf : FieldOK h d.numObs (.leaf nm k o d.numObs (fieldUnit k ob.cols u) l) :=
                  ⟨by simp only [RectField]; exact ⟨hgood, trivial⟩, by simp [WFF]⟩
                have hrect := (rectFields_iff d.fields).mp hd
                obtain ⟨a1, a2⟩ := addAt_spec h d.numObs _ hleaf revColl.reverse d.fields fs hfs
                  (fun c hc => ⟨hrect c hc, ok.wff c hc⟩) ok.nodup
                exact ⟨(rectFields_iff fs).mpr (fun c hc => (a1 c hc).1), ⟨a2, fun c hc => (a1 c hc).2⟩, rfl⟩

/-- **`dset.add_collection(path)`** keeps the table rectangular: the new collection field remembers the
number of rows of the dataset (at any nesting depth, after the `fix:` of `Collection.__len__`) -/
theorem dsAddColl_ok (h : Heap) (d : DS) (p : Path) (l : Nat) (d' : DS)
    (hok : dsAddColl d p l = .ok d') (hd : Rect h d) (ok : DSOK d) :
    Rect h d' ∧ DSOK d' ∧ d'.numObs = d.numObs := by
  simp only [dsAddColl] at hok
  split at hok
  · simp at hok
  · rename_i nm revColl _
    split at hok
    · simp at hok
    · split at hok
      · simp only [Except.ok.injEq] at hok; subst hok; exact ⟨hd, ok, rfl⟩
      · split at hok
        · simp at hok
        · rename_i fs hfs
          simp only [Except.ok.injEq] at hok; subst hok
          have hnew : FieldOK h d.numObs (.coll nm d.numObs l []) :=
            ⟨by simp [RectField, RectField.RectFields], by simp [WFF, names, WFF.WFFs]⟩
          have hrect := (rectFields_iff d.fields).mp hd
          obtain ⟨a1, a2⟩ := addAt_spec h d.numObs _ hnew revColl.reverse d.fields fs hfs
            (fun c hc => ⟨hrect c hc, ok.wff c hc⟩) ok.nodup
          exact ⟨(rectFields_iff fs).mpr (fun c hc => (a1 c hc).1), ⟨a2, fun c hc => (a1 c hc).2⟩, rfl⟩

/-! ### the world -/

/-- every dataset of the world is a rectangular, well-formed table -/
def WOK (w : W) : Prop := ∀ i x, w.getDs i = .ok x → Rect w.heap x ∧ DSOK x

theorem getDs_setDs {w : W} {d : Nat} {x : DS} {i : Nat} {y : DS} (h : (w.setDs d x).getDs i = .ok y) :
    (i = d ∧ y = x) ∨ (i ≠ d ∧ w.getDs i = .ok y) := by
  simp only [W.setDs, W.getDs] at h ⊢
  by_cases hid : i = d
  · subst hid
    left
    split at h
    · rename_i z hz
      by_cases hl : w.ds.length ≤ i
      · simp only [hl, if_true] at hz
        rw [List.getElem?_set_self (by simp; omega)] at hz
        simp only [Option.some.injEq] at hz; subst hz
        simp only [Except.ok.injEq] at h; exact ⟨rfl, h.symm⟩
      · simp only [hl, if_false] at hz
        rw [List.getElem?_set_self (by omega)] at hz
        simp only [Option.some.injEq] at hz; subst hz
        simp only [Except.ok.injEq] at h; exact ⟨rfl, h.symm⟩
    · simp at h
  · right
    refine ⟨hid, ?_⟩
    split at h
    · rename_i z hz
      simp only [Except.ok.injEq] at h; subst h
      by_cases hl : w.ds.length ≤ d
      · simp only [hl, if_true] at hz
        rw [List.getElem?_set_ne (by omega)] at hz
        by_cases hi : i < w.ds.length
        · rw [List.getElem?_append_left hi] at hz
          simp [hz]
        · rw [List.getElem?_append_right (by omega)] at hz
          simp only [List.getElem?_replicate] at hz
          split at hz <;> simp at hz
      · simp only [hl, if_false] at hz
        rw [List.getElem?_set_ne (by omega)] at hz
        simp [hz]
    · simp at h

theorem WOK.set {w : W} (ok : WOK w) {d : Nat} {x : DS} {h' : Heap} (e : HeapExt w.heap h')
    (hx : Rect h' x ∧ DSOK x) : WOK { w.setDs d x with heap := h' } := by
  intro i y hy
  have hy' : (w.setDs d x).getDs i = .ok y := hy
  rcases getDs_setDs hy' with ⟨_, rfl⟩ | ⟨_, hold⟩
  · exact hx
  · obtain ⟨r, k⟩ := ok i y hold
    exact ⟨RectFields.ext e y.fields r, k⟩

/-- the objects handed to `add` are consistent: everything attached to the array has as many rows
as the dataset (the code checks only the array itself) -/
def Valid (w : W) : Op → Prop
  | .add d _ _ val _ _ => ∀ o x, w.resolve val = .ok o → w.getDs d = .ok x → Good w.heap x.numObs o
  | _ => True

theorem mergeLoop_ok (us : Units) (w : W) (okw : WOK w) (di : Nat) : ∀ (es : List Nat) (h : Heap) (d : DS) (h' : Heap) (d' : DS),
    mergeLoop us h d w di es = .ok (h', d') → HeapExt w.heap h → Rect h d → DSOK d →
    HeapExt w.heap h' ∧ Rect h' d' ∧ DSOK d'
  | [], h, d, h', d', hok, e, r, k => by
    simp only [mergeLoop, Except.ok.injEq, Prod.mk.injEq] at hok
    obtain ⟨rfl, rfl⟩ := hok
    exact ⟨e, r, k⟩
  | x :: es, h, d, h', d', hok, e, r, k => by
    simp only [mergeLoop] at hok
    split at hok
    · simp at hok
    · rename_i y hy
      split at hok
      · simp at hok
      · rename_i h1 d1 hext
        have hyok : Rect h y ∧ DSOK y := by
          split at hy
          · simp only [Except.ok.injEq] at hy; subst hy; exact ⟨r, k⟩
          · obtain ⟨a, b⟩ := okw x y hy
            exact ⟨RectFields.ext e y.fields a, b⟩
        obtain ⟨e1, r1, k1, _⟩ := dsExtend_ok us h d y h1 d1 hext r hyok.1 k hyok.2
        exact mergeLoop_ok us w okw di es h1 d1 h' d' hok (e.trans e1) r1 k1

/-- **one operation keeps every dataset of the world a rectangular table** -/
theorem step_ok (w : W) (op : Op) (w' : W) (out : Out) (hs : step w op = .ok (w', out)) (ok : WOK w)
    (hv : Valid w op) : WOK w' ∧ HeapExt w.heap w'.heap := by
  cases op with
  | new d n =>
    simp only [step, Except.ok.injEq, Prod.mk.injEq] at hs
    obtain ⟨rfl, _⟩ := hs
    exact ⟨WOK.set ok (HeapExt.refl _) ⟨by simp [Rect, RectField.RectFields], ⟨by simp [names], by simp⟩⟩, HeapExt.refl _⟩
  | obj k ndim cols rows other refPos tag =>
    simp only [step] at hs
    split at hs
    · rename_i o r _ _
      simp only [Except.ok.injEq, Prod.mk.injEq] at hs
      obtain ⟨rfl, _⟩ := hs
      have e : HeapExt w.heap (w.heap ++ [({ kind := k, ndim := ndim, cols := cols, rows := rows, other := o, refPos := r, tag := tag } : Obj)]) :=
        ⟨⟨[_], rfl⟩⟩
      refine ⟨?_, e⟩
      intro i y hy
      obtain ⟨r, k⟩ := ok i y hy
      exact ⟨RectFields.ext e y.fields r, k⟩
    · simp at hs
    · simp at hs
  | add d path k val u l =>
    simp only [step] at hs
    split at hs
    · rename_i x o hx ho
      split at hs
      · simp at hs
      · rename_i x' hadd
        simp only [Except.ok.injEq, Prod.mk.injEq] at hs
        obtain ⟨rfl, _⟩ := hs
        obtain ⟨r, kk⟩ := ok d x hx
        obtain ⟨r', k', _⟩ := dsAdd_ok w.heap x path k o u l x' hadd r kk (hv o x ho hx)
        exact ⟨WOK.set ok (HeapExt.refl _) ⟨r', k'⟩, HeapExt.refl _⟩
    · simp at hs
    · simp at hs
  | addColl d path l =>
    simp only [step] at hs
    split at hs
    · simp at hs
    · rename_i x hx
      split at hs
      · simp at hs
      · rename_i x' hadd
        simp only [Except.ok.injEq, Prod.mk.injEq] at hs
        obtain ⟨rfl, _⟩ := hs
        obtain ⟨r, kk⟩ := ok d x hx
        obtain ⟨r', k', _⟩ := dsAddColl_ok w.heap x path l x' hadd r kk
        exact ⟨WOK.set ok (HeapExt.refl _) ⟨r', k'⟩, HeapExt.refl _⟩
  | del d path =>
    simp only [step] at hs
    split at hs
    · simp at hs
    · rename_i x hx
      split at hs
      · simp at hs
      · rename_i x' hdel
        simp only [Except.ok.injEq, Prod.mk.injEq] at hs
        obtain ⟨rfl, _⟩ := hs
        obtain ⟨r, kk⟩ := ok d x hx
        obtain ⟨r', k', _⟩ := dsDel_ok w.heap x path x' hdel r kk
        exact ⟨WOK.set ok (HeapExt.refl _) ⟨r', k'⟩, HeapExt.refl _⟩
  | subset d idx =>
    simp only [step] at hs
    split at hs
    · simp at hs
    · rename_i x hx
      split at hs
      · simp at hs
      · rename_i h' x' hsub
        simp only [Except.ok.injEq, Prod.mk.injEq] at hs
        obtain ⟨rfl, _⟩ := hs
        obtain ⟨_, kk⟩ := ok d x hx
        obtain ⟨e, r', k', _⟩ := dsSubset_ok idx w.heap x h' x' hsub kk
        exact ⟨WOK.set ok e ⟨r', k'⟩, e⟩
  | extend d e =>
    simp only [step] at hs
    split at hs
    · rename_i x y hx hy
      split at hs
      · simp at hs
      · rename_i h' x' hext
        simp only [Except.ok.injEq, Prod.mk.injEq] at hs
        obtain ⟨rfl, _⟩ := hs
        obtain ⟨rx, kx⟩ := ok d x hx
        obtain ⟨ry, ky⟩ := ok e y hy
        obtain ⟨e1, r', k', _⟩ := dsExtend_ok w.units w.heap x y h' x' hext rx ry kx ky
        exact ⟨WOK.set ok e1 ⟨r', k'⟩, e1⟩
    · simp at hs
    · simp at hs
  | merge d es sortBy =>
    simp only [step] at hs
    split at hs
    · simp at hs
    · rename_i x hx
      split at hs
      · simp at hs
      · rename_i h1 x1 hloop
        obtain ⟨rx, kx⟩ := ok d x hx
        obtain ⟨e1, r1, k1⟩ := mergeLoop_ok w.units w ok d es w.heap x h1 x1 hloop (HeapExt.refl _) rx kx
        split at hs
        · simp only [Except.ok.injEq, Prod.mk.injEq] at hs
          obtain ⟨rfl, _⟩ := hs
          exact ⟨WOK.set ok e1 ⟨r1, k1⟩, e1⟩
        · rename_i p
          split at hs
          · simp at hs
          · rename_i h2 x2 hsort
            simp only [Except.ok.injEq, Prod.mk.injEq] at hs
            obtain ⟨rfl, _⟩ := hs
            obtain ⟨e2, r2, k2, _⟩ := dsSort_ok h1 x1 p h2 x2 hsort r1 k1
            exact ⟨WOK.set ok (e1.trans e2) ⟨r2, k2⟩, e1.trans e2⟩
  | filterSubset d filters =>
    simp only [step] at hs
    split at hs
    · simp at hs
    · rename_i x hx
      split at hs
      · simp at hs
      · rename_i m hm
        split at hs
        · simp at hs
        · rename_i h' x' hsub
          simp only [Except.ok.injEq, Prod.mk.injEq] at hs
          obtain ⟨rfl, _⟩ := hs
          obtain ⟨_, kk⟩ := ok d x hx
          obtain ⟨e, r', k', _⟩ := dsSubset_ok (.mask m) w.heap x h' x' hsub kk
          exact ⟨WOK.set ok e ⟨r', k'⟩, e⟩
  | unique d path =>
    simp only [step] at hs
    split at hs
    · simp at hs
    · split at hs
      · simp at hs
      · simp only [Except.ok.injEq, Prod.mk.injEq] at hs
        obtain ⟨rfl, _⟩ := hs
        exact ⟨ok, HeapExt.refl _⟩
  | difference d e r ib cs co =>
    simp only [step] at hs
    split at hs
    · rename_i x y hx hy
      split at hs
      · simp at hs
      · rename_i h' z hdiff
        simp only [Except.ok.injEq, Prod.mk.injEq] at hs
        obtain ⟨rfl, _⟩ := hs
        obtain ⟨e1, r', k'⟩ := dsDifference_ok w.units w.heap x y ib cs co h' z hdiff
        exact ⟨WOK.set ok e1 ⟨r', k'⟩, e1⟩
    · simp at hs
    · simp at hs

/-- a history: every operation succeeds and every `add` is handed a consistent object -/
inductive Run : W → List Op → W → Prop
  | nil (w : W) : Run w [] w
  | cons {w w1 w' : W} {op : Op} {ops : List Op} {out : Out} :
      Valid w op → step w op = .ok (w1, out) → Run w1 ops w' → Run w (op :: ops) w'

/-- **the history invariant**: after any sequence of operations every dataset is a rectangular table -/
theorem run_ok {w w' : W} {ops : List Op} (hr : Run w ops w') (ok : WOK w) : WOK w' := by
  induction hr with
  | nil => exact ok
  | cons hv hs _ ih => exact ih (step_ok _ _ _ _ hs ok hv).1

end Midgard.Dataset
